(* uv__idna_toascii_label (Model/Idna.v) against RFC 3492 section 6.3
   (Spec/PunycodeSpec.v) on well-formed UTF-8 (Spec/Utf8Spec.v). *)
From UV Require Import Lib.Base Model.Idna Spec.Utf8Spec Spec.PunycodeSpec
  Proofs.IdnaBits Proofs.IdnaUtf8Proofs Proofs.IdnaWriterProofs.
Local Open Scope N_scope.

Definition two32 : N := 4294967296.

Lemma u32_small x : x < 4294967296 -> u32 x = x.
Proof. intros H. unfold u32. apply N.mod_small. exact H. Qed.

Lemma usub_small a b : b <= a -> a < 4294967296 -> usub a b = a - b.
Proof. intros H1 H2. unfold usub. lia. Qed.

(* ------------------------------------------------------------------ *)
(* N.size_nat as a bound                                               *)
(* ------------------------------------------------------------------ *)
Lemma pos_size_bound p : Npos p < 2 ^ N.of_nat (Pos.size_nat p).
Proof.
  induction p as [p IH|p IH|]; cbn [Pos.size_nat].
  - rewrite Nat2N.inj_succ, N.pow_succ_r by lia. lia.
  - rewrite Nat2N.inj_succ, N.pow_succ_r by lia. lia.
  - cbn. lia.
Qed.

Lemma size_nat_bound n : n < 2 ^ N.of_nat (N.size_nat n).
Proof. destruct n as [|p]; [cbn; lia|apply pos_size_bound]. Qed.

Lemma pos_size_le p : forall k, Npos p < 2 ^ N.of_nat k -> (Pos.size_nat p <= k)%nat.
Proof.
  induction p as [p IH|p IH|]; intros k H; cbn [Pos.size_nat].
  - destruct k as [|k]; [cbn in H; lia|].
    rewrite Nat2N.inj_succ, N.pow_succ_r in H by lia. specialize (IH k). lia.
  - destruct k as [|k]; [cbn in H; lia|].
    rewrite Nat2N.inj_succ, N.pow_succ_r in H by lia. specialize (IH k). lia.
  - destruct k as [|k]; [cbn in H; lia|lia].
Qed.

Lemma size_nat_le n k : n < 2 ^ N.of_nat k -> (N.size_nat n <= k)%nat.
Proof. destruct n as [|p]; [cbn; lia|apply pos_size_le]. Qed.

Lemma size_nat_32 n : n < 4294967296 -> (N.size_nat n <= 32)%nat.
Proof. intros H. apply size_nat_le. exact H. Qed.

Lemma size_nat_half n m : 0 < n -> m <= n / 2 -> (S (N.size_nat m) <= N.size_nat n)%nat.
Proof.
  intros Hn Hm. pose proof (size_nat_bound n) as Hb.
  destruct (N.size_nat n) as [|s] eqn:E; [cbn in Hb; lia|].
  rewrite Nat2N.inj_succ, N.pow_succ_r in Hb by lia.
  assert (m < 2 ^ N.of_nat s) by lia. apply size_nat_le in H. lia.
Qed.

(* ------------------------------------------------------------------ *)
(* The digit loop and the bias adaptation                              *)
(* ------------------------------------------------------------------ *)
Lemma threshold_range k bias : 1 <= threshold k bias <= 26.
Proof.
  unfold threshold, tmin, tmax. destruct (N.leb_spec k bias); [lia|].
  destruct (N.leb_spec (bias + 26) k); lia.
Qed.

Lemma threshold_model k bias : k < 4294967296 -> bias < 4294967296 ->
  (if 26 <? (if bias <? k then usub k bias else 1) then 26
   else (if bias <? k then usub k bias else 1)) = threshold k bias.
Proof.
  intros Hk Hb. unfold threshold, tmin, tmax.
  destruct (N.ltb_spec bias k).
  - rewrite usub_small by lia. destruct (N.leb_spec k bias); [lia|].
    destruct (N.ltb_spec 26 (k - bias)); destruct (N.leb_spec (bias + 26) k); lia.
  - destruct (N.leb_spec k bias); [reflexivity|lia].
Qed.

Lemma alphabet_digit t : alphabet t = digit_cp t.
Proof. reflexivity. Qed.

Lemma digits_eq : forall fuel k q bias w,
  q < 4294967296 -> bias < 4294967296 -> k + 36 * N.of_nat fuel < 4294967296 ->
  digits_loop (list N) cons fuel k q bias w = rev (encode_int fuel q k bias) ++ w.
Proof.
  induction fuel as [|f IH]; intros k q bias w Hq Hb Hk; [reflexivity|].
  cbn [digits_loop encode_int].
  rewrite (threshold_model k bias) by lia.
  pose proof (threshold_range k bias) as Ht. set (t := threshold k bias) in *.
  destruct (N.ltb_spec q t).
  - rewrite alphabet_digit. reflexivity.
  - rewrite (usub_small q t) by lia. rewrite (usub_small 36 t) by lia.
    unfold base. rewrite (u32_small (t + (q - t) mod (36 - t))) by lia.
    rewrite (u32_small (k + 36)) by lia.
    rewrite IH; [|assert ((q - t) / (36 - t) <= q - t) by (apply N.div_le_upper_bound; nia); lia|lia|lia].
    cbn [rev]. rewrite <- app_assoc. reflexivity.
Qed.

Lemma adapt_loop_eq : forall fuel bias delta,
  bias + 36 * N.of_nat fuel < 4294967296 ->
  adapt_loop fuel bias delta = (snd (adapt_while fuel delta bias), fst (adapt_while fuel delta bias)).
Proof.
  induction fuel as [|f IH]; intros bias delta H; [reflexivity|].
  cbn [adapt_loop adapt_while]. change ((base - tmin) * tmax / 2) with 455.
  change (base - tmin) with 35. unfold base.
  destruct (455 <? delta); [|reflexivity].
  rewrite (u32_small (bias + 36)) by lia. apply IH. lia.
Qed.

Lemma adapt_while_small : forall fuel delta k,
  (N.size_nat delta <= fuel)%nat -> fst (adapt_while fuel delta k) <= 455.
Proof.
  induction fuel as [|f IH]; intros delta k H.
  - cbn. pose proof (size_nat_bound delta). replace (N.size_nat delta) with O in * by lia. cbn in *. lia.
  - cbn [adapt_while]. change ((base - tmin) * tmax / 2) with 455. change (base - tmin) with 35.
    destruct (N.ltb_spec 455 delta); [|cbn; lia].
    apply IH. pose proof (size_nat_half delta (delta / 35) ltac:(lia) ltac:(lia)). lia.
Qed.

Lemma adapt_while_k : forall fuel delta k,
  snd (adapt_while fuel delta k) <= k + 36 * N.of_nat fuel.
Proof.
  induction fuel as [|f IH]; intros delta k; [cbn; lia|].
  cbn [adapt_while]. change ((base - tmin) * tmax / 2) with 455.
  destruct (455 <? delta); [|cbn [snd]; lia].
  specialize (IH (delta / (base - tmin)) (k + base)). unfold base in *. lia.
Qed.

(* lines 289-305 compute adapt(delta, h + 1, first) *)
Lemma adapt_model delta h (frst : bool) :
  delta < 4294967296 -> h + 1 < 4294967296 ->
  (let d := delta / 2 in
   let d := if frst then d / 350 else d in
   let h' := u32 (h + 1) in
   let d := u32 (d + d / h') in
   let (bias, d) := adapt_loop (S (N.size_nat d)) 0 d in
   u32 (bias + u32 (36 * d) / u32 (d + 38)))
  = adapt delta (h + 1) frst /\ adapt delta (h + 1) frst < 2048.
Proof.
  intros Hd Hh. cbv zeta. unfold adapt.
  rewrite (u32_small (h + 1)) by lia.
  assert (E : (if frst then delta / 2 / 350 else delta / 2) = (if frst then delta / damp else delta / 2)).
  { destruct frst; [|reflexivity]. unfold damp. rewrite N.div_div by lia. reflexivity. }
  rewrite E. set (d0 := if frst then delta / damp else delta / 2).
  assert (Hd0 : d0 <= delta / 2).
  { unfold d0, damp. destruct frst; [|lia]. apply N.div_le_lower_bound; lia. }
  assert (Hq : d0 / (h + 1) <= d0) by (apply N.div_le_upper_bound; nia).
  rewrite (u32_small (d0 + d0 / (h + 1))) by lia.
  set (d1 := d0 + d0 / (h + 1)).
  assert (Hd1 : d1 < 4294967296) by (unfold d1; lia).
  pose proof (size_nat_32 d1 Hd1) as Hs.
  rewrite adapt_loop_eq by lia.
  pose proof (adapt_while_small (S (N.size_nat d1)) d1 0 ltac:(lia)) as Hsm.
  pose proof (adapt_while_k (S (N.size_nat d1)) d1 0) as Hk.
  destruct (adapt_while (S (N.size_nat d1)) d1 0) as [d2 k]. cbn [fst snd] in *.
  change (base - tmin + 1) with 36. unfold skew.
  rewrite (u32_small (36 * d2)) by lia. rewrite (u32_small (d2 + 38)) by lia.
  assert (36 * d2 / (d2 + 38) < 36) by (apply N.div_lt_upper_bound; lia).
  rewrite u32_small by lia. split; [reflexivity|lia].
Qed.

(* ------------------------------------------------------------------ *)
(* The loops of the label function on a well-formed UTF-8 string       *)
(* ------------------------------------------------------------------ *)
Lemma wf_cons bs v : utf8_wf bs v -> exists b bs', bs = b :: bs'.
Proof. intros H; destruct H; eexists _, _; reflexivity. Qed.

Lemma wf_small bs v : utf8_wf bs v -> v < 1114112.
Proof. intros H. pose proof (utf8_wf_scalar bs v H) as [H1 _]. lia. Qed.

Lemma wf_not_max bs v : utf8_wf bs v -> (v =? UINT_MAX) = false.
Proof. intros H. apply wf_small in H. apply N.eqb_neq. unfold UINT_MAX. lia. Qed.

Definition small (c : N) : Prop := c < 1114112.

Lemma utf8_string_small s cps : utf8_string s cps -> Forall small cps.
Proof. induction 1; constructor; [eapply wf_small; eassumption|assumption]. Qed.

Lemma utf8_string_length s cps : utf8_string s cps -> (length cps <= length s)%nat.
Proof.
  induction 1; [cbn; lia|]. rewrite app_length. pose proof (utf8_wf_length bs v H). cbn [length]. lia.
Qed.

Definition cnt (f : N -> bool) (l : list N) : N := N.of_nat (length (filter f l)).
Definition nonbasic (c : N) : bool := negb (basic c).

Lemma cnt_cons f c l : cnt f (c :: l) = (if f c then 1 else 0) + cnt f l.
Proof. unfold cnt. cbn [filter]. destruct (f c); cbn [length]; lia. Qed.

Lemma cnt_le f l : cnt f l <= N.of_nat (length l).
Proof.
  unfold cnt. induction l as [|a l IH]; [cbn; lia|]. cbn [filter length].
  destruct (f a); cbn [length]; lia.
Qed.

(* lines 177-187 *)
Lemma count_loop_spec s cps : utf8_string s cps -> forall fuel h todo,
  (length s <= fuel)%nat ->
  h + N.of_nat (length cps) < 4294967296 -> todo + N.of_nat (length cps) < 4294967296 ->
  count_loop fuel s h todo = Some (h + cnt basic cps, todo + cnt nonbasic cps).
Proof.
  induction 1 as [|bs v rest cps W S IH]; intros fuel h todo Hf Hh Ht.
  - destruct fuel; cbn; f_equal; f_equal; unfold cnt; cbn; lia.
  - destruct (wf_cons bs v W) as (b0 & bs' & ->).
    rewrite app_length in Hf. cbn [length] in *.
    destruct fuel as [|f]; [lia|]. cbn [app count_loop].
    change (b0 :: bs' ++ rest) with ((b0 :: bs') ++ rest).
    rewrite (utf8_decode_sound _ v rest W), (wf_not_max _ v W).
    rewrite !cnt_cons.
    assert (Eb : basic v = (v <? 128)) by reflexivity.
    assert (En : nonbasic v = negb (v <? 128)) by reflexivity. rewrite Eb, En.
    destruct (N.ltb_spec v 128); cbn [negb].
    + rewrite u32_small by lia. rewrite IH by lia. f_equal. f_equal; lia.
    + rewrite u32_small by lia. rewrite IH by lia. f_equal. f_equal; lia.
Qed.

Lemma cnt_zero_filter f l : cnt f l = 0 -> filter f l = [].
Proof. unfold cnt. intros H. destruct (filter f l); [reflexivity|cbn in H; lia]. Qed.

(* lines 200-212 *)
Lemma ascii_loop_spec s cps : utf8_string s cps -> forall fuel x h w,
  (length s <= fuel)%nat -> x + cnt basic cps = h -> h < 4294967296 ->
  ascii_loop (list N) cons fuel s x h w = rev (filter basic cps) ++ w.
Proof.
  induction 1 as [|bs v rest cps W S IH]; intros fuel x h w Hf Hx Hh.
  - destruct fuel; reflexivity.
  - destruct (wf_cons bs v W) as (b0 & bs' & ->).
    rewrite app_length in Hf. cbn [length] in *.
    destruct fuel as [|f]; [lia|]. cbn [app ascii_loop].
    change (b0 :: bs' ++ rest) with ((b0 :: bs') ++ rest).
    rewrite (utf8_decode_sound _ v rest W).
    rewrite cnt_cons in Hx. cbn [filter]. unfold basic at 1 in Hx. unfold basic at 1.
    destruct (N.ltb_spec 127 v); destruct (N.ltb_spec v 128); try lia.
    + apply IH; lia.
    + rewrite u32_small by lia. cbn [rev]. rewrite <- app_assoc. cbn [app].
      destruct (N.eqb_spec (x + 1) h).
      * rewrite (cnt_zero_filter basic cps) by lia. reflexivity.
      * apply IH; lia.
Qed.

(* lines 231-238 *)
Definition min_fold (cps : list N) (n m : N) : N :=
  fold_left (fun m c => if (n <=? c) && (c <? m) then c else m) cps m.

Lemma min_loop_spec s cps : utf8_string s cps -> forall fuel n m,
  (length s <= fuel)%nat -> min_loop fuel s n m = min_fold cps n m.
Proof.
  induction 1 as [|bs v rest cps W S IH]; intros fuel n m Hf.
  - destruct fuel; reflexivity.
  - destruct (wf_cons bs v W) as (b0 & bs' & ->).
    rewrite app_length in Hf. cbn [length] in *.
    destruct fuel as [|f]; [lia|]. cbn [app min_loop].
    change (b0 :: bs' ++ rest) with ((b0 :: bs') ++ rest).
    rewrite (utf8_decode_sound _ v rest W). rewrite IH by lia. reflexivity.
Qed.

Lemma min_fold_ge cps n : forall M,
  min_fold cps n M = match min_ge cps n with
                     | None => M
                     | Some m => if m <? M then m else M
                     end.
Proof.
  induction cps as [|c r IH]; intros M; [reflexivity|].
  unfold min_fold in *. cbn [fold_left min_ge]. rewrite IH.
  destruct (min_ge r n) as [m|].
  - destruct (N.leb_spec n c); destruct (N.ltb_spec c M); destruct (N.ltb_spec c m); cbn [andb];
      repeat match goal with |- context [?a <? ?b] => destruct (N.ltb_spec a b) end; try lia; reflexivity.
  - destruct (N.leb_spec n c); destruct (N.ltb_spec c M); cbn [andb];
      repeat match goal with |- context [?a <? ?b] => destruct (N.ltb_spec a b) end; try lia; reflexivity.
Qed.

Lemma min_ge_none l n : min_ge l n = None -> forall c, In c l -> c < n.
Proof.
  induction l as [|a l IH]; intros E c []; subst; cbn [min_ge] in E;
    destruct (min_ge l n) as [m|] eqn:E2; try (destruct ((n <=? _) && _); discriminate).
  - destruct (N.leb_spec n c); [discriminate|lia].
  - apply IH; [reflexivity|assumption].
Qed.

Lemma min_ge_props cps n m : min_ge cps n = Some m ->
  In m cps /\ n <= m /\ (forall c, In c cps -> n <= c -> m <= c).
Proof.
  revert m. induction cps as [|c r IH]; intros m H; [discriminate|].
  cbn [min_ge] in H. destruct (min_ge r n) as [m'|] eqn:E.
  - destruct (IH m' eq_refl) as (I1 & I2 & I3).
    destruct (N.leb_spec n c); destruct (N.ltb_spec c m'); cbn [andb] in H; inversion H; subst;
      (split; [cbn; auto|]); (split; [lia|]); intros c0 [<-|Hin] Hc; try lia;
      try (specialize (I3 c0 Hin Hc); lia).
  - destruct (N.leb_spec n c); inversion H; subst.
    split; [cbn; auto|]. split; [lia|]. intros c0 [<-|Hin] Hc; [lia|].
    pose proof (min_ge_none r n E c0 Hin). lia.
Qed.

(* ------------------------------------------------------------------ *)
(* lines 250-308 = encode_pass                                         *)
(* ------------------------------------------------------------------ *)
Fixpoint count_eq (n : N) (l : list N) : N :=
  match l with
  | [] => 0
  | c :: r => (if c =? n then 1 else 0) + count_eq n r
  end.

Definition st_rel (b : N) (st : pst) (e : est) : Prop :=
  p_delta st = e_delta e /\ p_h st = e_h e /\ p_bias st = e_bias e /\
  p_first st = (e_h e =? b).

Lemma enc_loop_spec b s cps : utf8_string s cps -> forall fuel n st e w,
  (length s <= fuel)%nat -> st_rel b st e ->
  e_delta e < 4294967296 -> e_bias e < 4294967296 ->
  e_h e + count_eq n cps + 1 < 4294967296 -> b <= e_h e ->
  count_eq n cps <= p_todo st -> p_todo st < 4294967296 ->
  fst (enc_loop (list N) cons fuel s n st w) = None \/
  exists st',
    enc_loop (list N) cons fuel s n st w = (Some st', rev (snd (encode_pass cps n b e)) ++ w) /\
    st_rel b st' (fst (encode_pass cps n b e)) /\
    p_todo st' = p_todo st - count_eq n cps /\
    e_h (fst (encode_pass cps n b e)) = e_h e + count_eq n cps /\
    e_bias (fst (encode_pass cps n b e)) < 4294967296 /\
    e_delta (fst (encode_pass cps n b e)) < 4294967296 /\
    e_delta (fst (encode_pass cps n b e))
      <= (if count_eq n cps =? 0 then e_delta e else 0) + N.of_nat (length cps).
Proof.
  induction 1 as [|bs v rest cps W US IH]; intros fuel n st e w Hf HR Hd Hb Hh Hbh Ht Ht2.
  - right. exists st. destruct fuel; cbn [enc_loop encode_pass count_eq fst snd rev app length] in *;
      (split; [reflexivity|]); (split; [exact HR|]); repeat split; try lia; cbn; lia.
  - destruct (wf_cons bs v W) as (b0 & bs' & ->).
    rewrite app_length in Hf. cbn [length] in Hf.
    destruct fuel as [|f]; [lia|].
    destruct st as [delta h bias frst todo]. destruct e as [ed eb eh].
    destruct HR as (R1 & R2 & R3 & R4). cbn [p_delta p_h p_bias p_first p_todo e_delta e_bias e_h] in *.
    subst ed eh eb.
    cbn [app enc_loop]. change (b0 :: bs' ++ rest) with ((b0 :: bs') ++ rest).
    rewrite (utf8_decode_sound _ v rest W).
    cbn [p_delta p_h p_bias p_first p_todo].
    cbn [count_eq] in Hh, Ht. cbn [encode_pass e_delta e_bias e_h count_eq length].
    destruct (N.ltb_spec v n) as [Lvn|Lvn].
    + (* c < n: increment delta *)
      destruct (N.eqb_spec v n) as [|Nvn]; [lia|]. cbn [andb negb].
      destruct (N.eqb_spec (u32 (delta + 1)) 0) as [Z|NZ]; [left; reflexivity|].
      assert (Hd1 : delta + 1 < 4294967296).
      { unfold u32 in NZ. destruct (N.eq_dec (delta + 1) 4294967296) as [E|E]; [rewrite E in NZ; cbn in NZ; lia|lia]. }
      rewrite u32_small in * by lia. rewrite ?N.add_0_l in *.
      destruct (IH f n (mkP (delta + 1) h bias frst todo) (mkE (delta + 1) bias h) w) as [L|(st' & E1 & E2 & E3 & E4 & E5 & E6 & E7)];
        try (cbn [p_todo e_delta e_bias e_h]; lia).
      { repeat split; assumption. }
      { left; exact L. }
      right. exists st'. rewrite E1. split; [reflexivity|]. split; [exact E2|].
      cbn [p_todo e_delta e_h] in *. repeat split; try lia.
      destruct (count_eq n cps =? 0); lia.
    + cbn [andb].
      destruct (N.eqb_spec v n) as [Evn|Nvn]; cbn [negb].
      * (* c == n: emit delta, adapt *)
        subst v.
        pose proof (size_nat_32 delta Hd) as Hs.
        rewrite digits_eq by lia.
        pose proof (adapt_model delta h frst Hd ltac:(lia)) as [EA HA]. cbv zeta in EA.
        destruct (adapt_loop _ 0 _) as [bias' d'] eqn:EAL.
        rewrite EA. rewrite (u32_small (h + 1)) by lia.
        rewrite (usub_small todo 1) by lia.
        set (bias2 := adapt delta (h + 1) frst) in *.
        rewrite <- R4. fold bias2.
        destruct (encode_pass cps n b (mkE 0 bias2 (h + 1))) as [e' out'] eqn:EP.
        destruct (IH f n (mkP 0 (h + 1) bias2 false (todo - 1)) (mkE 0 bias2 (h + 1))
                    (rev (encode_int (S (N.size_nat delta)) delta 36 bias) ++ w))
          as [L|(st' & E1 & E2 & E3 & E4 & E5 & E6 & E7)];
          try (cbn [p_todo e_delta e_bias e_h]; lia).
        { repeat split; try reflexivity. cbn [p_first e_h]. symmetry. apply N.eqb_neq. lia. }
        { left; exact L. }
        right. exists st'. rewrite E1. rewrite EP in *. cbn [fst snd] in *.
        split; [rewrite rev_app_distr, <- app_assoc; reflexivity|].
        split; [exact E2|]. cbn [p_todo e_delta e_h] in *.
        replace (1 + count_eq n cps =? 0) with false by (symmetry; apply N.eqb_neq; lia).
        repeat split; try lia.
        destruct (count_eq n cps =? 0); lia.
      * rewrite ?N.add_0_l in *.
        destruct (IH f n (mkP delta h bias frst todo) (mkE delta bias h) w)
          as [L|(st' & E1 & E2 & E3 & E4 & E5 & E6 & E7)];
          try (cbn [p_todo e_delta e_bias e_h]; lia).
        { repeat split; assumption. }
        { left; exact L. }
        right. exists st'. rewrite E1. split; [reflexivity|]. split; [exact E2|].
        cbn [p_todo e_delta e_h] in *. repeat split; try lia.
        destruct (count_eq n cps =? 0); lia.
Qed.
