(* uv__idna_toascii_label (Model/Idna.v) against RFC 3492 section 6.3
   (Spec/PunycodeSpec.v) on well-formed UTF-8 (Spec/Utf8Spec.v). *)
From UV Require Import Lib.Base Model.Idna Spec.Utf8Spec Spec.PunycodeSpec
  Proofs.IdnaBits Proofs.IdnaUtf8Proofs Proofs.IdnaWriterProofs.
Local Open Scope N_scope.

Definition two32 : N := 4294967296.

Lemma u32_small x : x < 4294967296 -> u32 x = x.
Proof. intros H. unfold u32. apply N.mod_small. exact H. Qed.

Lemma usub_small a b : b <= a -> a < 4294967296 -> usub a b = a - b.
Proof. intros H1 H2. unfold usub. lia. Qed.

(* ------------------------------------------------------------------ *)
(* N.size_nat as a bound                                               *)
(* ------------------------------------------------------------------ *)
Lemma pos_size_bound p : Npos p < 2 ^ N.of_nat (Pos.size_nat p).
Proof.
  induction p as [p IH|p IH|]; cbn [Pos.size_nat].
  - rewrite Nat2N.inj_succ, N.pow_succ_r by lia. lia.
  - rewrite Nat2N.inj_succ, N.pow_succ_r by lia. lia.
  - cbn. lia.
Qed.

Lemma size_nat_bound n : n < 2 ^ N.of_nat (N.size_nat n).
Proof. destruct n as [|p]; [cbn; lia|apply pos_size_bound]. Qed.

Lemma pos_size_le p : forall k, Npos p < 2 ^ N.of_nat k -> (Pos.size_nat p <= k)%nat.
Proof.
  induction p as [p IH|p IH|]; intros k H; cbn [Pos.size_nat].
  - destruct k as [|k]; [cbn in H; lia|].
    rewrite Nat2N.inj_succ, N.pow_succ_r in H by lia. specialize (IH k). lia.
  - destruct k as [|k]; [cbn in H; lia|].
    rewrite Nat2N.inj_succ, N.pow_succ_r in H by lia. specialize (IH k). lia.
  - destruct k as [|k]; [cbn in H; lia|lia].
Qed.

Lemma size_nat_le n k : n < 2 ^ N.of_nat k -> (N.size_nat n <= k)%nat.
Proof. destruct n as [|p]; [cbn; lia|apply pos_size_le]. Qed.

Lemma size_nat_32 n : n < 4294967296 -> (N.size_nat n <= 32)%nat.
Proof. intros H. apply size_nat_le. exact H. Qed.

Lemma size_nat_half n m : 0 < n -> m <= n / 2 -> (S (N.size_nat m) <= N.size_nat n)%nat.
Proof.
  intros Hn Hm. pose proof (size_nat_bound n) as Hb.
  destruct (N.size_nat n) as [|s] eqn:E; [cbn in Hb; lia|].
  rewrite Nat2N.inj_succ, N.pow_succ_r in Hb by lia.
  assert (m < 2 ^ N.of_nat s) by lia. apply size_nat_le in H. lia.
Qed.

(* ------------------------------------------------------------------ *)
(* The digit loop and the bias adaptation                              *)
(* ------------------------------------------------------------------ *)
Lemma threshold_range k bias : 1 <= threshold k bias <= 26.
Proof.
  unfold threshold, tmin, tmax. destruct (N.leb_spec k bias); [lia|].
  destruct (N.leb_spec (bias + 26) k); lia.
Qed.

Lemma threshold_model k bias : k < 4294967296 -> bias < 4294967296 ->
  (if 26 <? (if bias <? k then usub k bias else 1) then 26
   else (if bias <? k then usub k bias else 1)) = threshold k bias.
Proof.
  intros Hk Hb. unfold threshold, tmin, tmax.
  destruct (N.ltb_spec bias k).
  - rewrite usub_small by lia. destruct (N.leb_spec k bias); [lia|].
    destruct (N.ltb_spec 26 (k - bias)); destruct (N.leb_spec (bias + 26) k); lia.
  - destruct (N.leb_spec k bias); [reflexivity|lia].
Qed.

Lemma alphabet_digit t : alphabet t = digit_cp t.
Proof. reflexivity. Qed.

Lemma digits_eq : forall fuel k q bias w,
  q < 4294967296 -> bias < 4294967296 -> k + 36 * N.of_nat fuel < 4294967296 ->
  digits_loop (list N) cons fuel k q bias w = rev (encode_int fuel q k bias) ++ w.
Proof.
  induction fuel as [|f IH]; intros k q bias w Hq Hb Hk; [reflexivity|].
  cbn [digits_loop encode_int].
  rewrite (threshold_model k bias) by lia.
  pose proof (threshold_range k bias) as Ht. set (t := threshold k bias) in *.
  destruct (N.ltb_spec q t).
  - rewrite alphabet_digit. reflexivity.
  - rewrite (usub_small q t) by lia. rewrite (usub_small 36 t) by lia.
    unfold base. rewrite (u32_small (t + (q - t) mod (36 - t))) by lia.
    rewrite (u32_small (k + 36)) by lia.
    rewrite IH; [|assert ((q - t) / (36 - t) <= q - t) by (apply N.div_le_upper_bound; nia); lia|lia|lia].
    cbn [rev]. rewrite <- app_assoc. reflexivity.
Qed.

Lemma adapt_loop_eq : forall fuel bias delta,
  bias + 36 * N.of_nat fuel < 4294967296 ->
  adapt_loop fuel bias delta = (snd (adapt_while fuel delta bias), fst (adapt_while fuel delta bias)).
Proof.
  induction fuel as [|f IH]; intros bias delta H; [reflexivity|].
  cbn [adapt_loop adapt_while]. change ((base - tmin) * tmax / 2) with 455.
  change (base - tmin) with 35. unfold base.
  destruct (455 <? delta); [|reflexivity].
  rewrite (u32_small (bias + 36)) by lia. apply IH. lia.
Qed.

Lemma adapt_while_small : forall fuel delta k,
  (N.size_nat delta <= fuel)%nat -> fst (adapt_while fuel delta k) <= 455.
Proof.
  induction fuel as [|f IH]; intros delta k H.
  - cbn. pose proof (size_nat_bound delta). replace (N.size_nat delta) with O in * by lia. cbn in *. lia.
  - cbn [adapt_while]. change ((base - tmin) * tmax / 2) with 455. change (base - tmin) with 35.
    destruct (N.ltb_spec 455 delta); [|cbn; lia].
    apply IH. pose proof (size_nat_half delta (delta / 35) ltac:(lia) ltac:(lia)). lia.
Qed.

Lemma adapt_while_k : forall fuel delta k,
  snd (adapt_while fuel delta k) <= k + 36 * N.of_nat fuel.
Proof.
  induction fuel as [|f IH]; intros delta k; [cbn; lia|].
  cbn [adapt_while]. change ((base - tmin) * tmax / 2) with 455.
  destruct (455 <? delta); [|cbn [snd]; lia].
  specialize (IH (delta / (base - tmin)) (k + base)). unfold base in *. lia.
Qed.

(* lines 289-305 compute adapt(delta, h + 1, first) *)
Lemma adapt_model delta h (frst : bool) :
  delta < 4294967296 -> h + 1 < 4294967296 ->
  (let d := delta / 2 in
   let d := if frst then d / 350 else d in
   let h' := u32 (h + 1) in
   let d := u32 (d + d / h') in
   let (bias, d) := adapt_loop (S (N.size_nat d)) 0 d in
   u32 (bias + u32 (36 * d) / u32 (d + 38)))
  = adapt delta (h + 1) frst /\ adapt delta (h + 1) frst < 2048.
Proof.
  intros Hd Hh. cbv zeta. unfold adapt.
  rewrite (u32_small (h + 1)) by lia.
  assert (E : (if frst then delta / 2 / 350 else delta / 2) = (if frst then delta / damp else delta / 2)).
  { destruct frst; [|reflexivity]. unfold damp. rewrite N.div_div by lia. reflexivity. }
  rewrite E. set (d0 := if frst then delta / damp else delta / 2).
  assert (Hd0 : d0 <= delta / 2).
  { unfold d0, damp. destruct frst; [|lia]. apply N.div_le_lower_bound; lia. }
  assert (Hq : d0 / (h + 1) <= d0) by (apply N.div_le_upper_bound; nia).
  rewrite (u32_small (d0 + d0 / (h + 1))) by lia.
  set (d1 := d0 + d0 / (h + 1)).
  assert (Hd1 : d1 < 4294967296) by (unfold d1; lia).
  pose proof (size_nat_32 d1 Hd1) as Hs.
  rewrite adapt_loop_eq by lia.
  pose proof (adapt_while_small (S (N.size_nat d1)) d1 0 ltac:(lia)) as Hsm.
  pose proof (adapt_while_k (S (N.size_nat d1)) d1 0) as Hk.
  destruct (adapt_while (S (N.size_nat d1)) d1 0) as [d2 k]. cbn [fst snd] in *.
  change (base - tmin + 1) with 36. unfold skew.
  rewrite (u32_small (36 * d2)) by lia. rewrite (u32_small (d2 + 38)) by lia.
  assert (36 * d2 / (d2 + 38) < 36) by (apply N.div_lt_upper_bound; lia).
  rewrite u32_small by lia. split; [reflexivity|lia].
Qed.

(* ------------------------------------------------------------------ *)
(* The loops of the label function on a well-formed UTF-8 string       *)
(* ------------------------------------------------------------------ *)
Lemma wf_cons bs v : utf8_wf bs v -> exists b bs', bs = b :: bs'.
Proof. intros H; destruct H; eexists _, _; reflexivity. Qed.

Lemma wf_small bs v : utf8_wf bs v -> v < 1114112.
Proof. intros H. pose proof (utf8_wf_scalar bs v H) as [H1 _]. lia. Qed.

Lemma wf_not_max bs v : utf8_wf bs v -> (v =? UINT_MAX) = false.
Proof. intros H. apply wf_small in H. apply N.eqb_neq. unfold UINT_MAX. lia. Qed.

Definition small (c : N) : Prop := c < 1114112.

Lemma utf8_string_small s cps : utf8_string s cps -> Forall small cps.
Proof. induction 1; constructor; [eapply wf_small; eassumption|assumption]. Qed.

Lemma utf8_string_length s cps : utf8_string s cps -> (length cps <= length s)%nat.
Proof.
  induction 1; [cbn; lia|]. rewrite app_length. pose proof (utf8_wf_length bs v H). cbn [length]. lia.
Qed.

Definition cnt (f : N -> bool) (l : list N) : N := N.of_nat (length (filter f l)).
Definition nonbasic (c : N) : bool := negb (basic c).

Lemma cnt_cons f c l : cnt f (c :: l) = (if f c then 1 else 0) + cnt f l.
Proof. unfold cnt. cbn [filter]. destruct (f c); cbn [length]; lia. Qed.

Lemma cnt_le f l : cnt f l <= N.of_nat (length l).
Proof.
  unfold cnt. induction l as [|a l IH]; [cbn; lia|]. cbn [filter length].
  destruct (f a); cbn [length]; lia.
Qed.

(* lines 177-187 *)
Lemma count_loop_spec s cps : utf8_string s cps -> forall fuel h todo,
  (length s <= fuel)%nat ->
  h + N.of_nat (length cps) < 4294967296 -> todo + N.of_nat (length cps) < 4294967296 ->
  count_loop fuel s h todo = Some (h + cnt basic cps, todo + cnt nonbasic cps).
Proof.
  induction 1 as [|bs v rest cps W S IH]; intros fuel h todo Hf Hh Ht.
  - destruct fuel; cbn; f_equal; f_equal; unfold cnt; cbn; lia.
  - destruct (wf_cons bs v W) as (b0 & bs' & ->).
    rewrite app_length in Hf. cbn [length] in *.
    destruct fuel as [|f]; [lia|]. cbn [app count_loop].
    change (b0 :: bs' ++ rest) with ((b0 :: bs') ++ rest).
    rewrite (utf8_decode_sound _ v rest W), (wf_not_max _ v W).
    rewrite !cnt_cons.
    assert (Eb : basic v = (v <? 128)) by reflexivity.
    assert (En : nonbasic v = negb (v <? 128)) by reflexivity. rewrite Eb, En.
    destruct (N.ltb_spec v 128); cbn [negb].
    + rewrite u32_small by lia. rewrite IH by lia. f_equal. f_equal; lia.
    + rewrite u32_small by lia. rewrite IH by lia. f_equal. f_equal; lia.
Qed.

Lemma cnt_zero_filter f l : cnt f l = 0 -> filter f l = [].
Proof. unfold cnt. intros H. destruct (filter f l); [reflexivity|cbn in H; lia]. Qed.

(* lines 200-212 *)
Lemma ascii_loop_spec s cps : utf8_string s cps -> forall fuel x h w,
  (length s <= fuel)%nat -> x + cnt basic cps = h -> h < 4294967296 ->
  ascii_loop (list N) cons fuel s x h w = rev (filter basic cps) ++ w.
Proof.
  induction 1 as [|bs v rest cps W S IH]; intros fuel x h w Hf Hx Hh.
  - destruct fuel; reflexivity.
  - destruct (wf_cons bs v W) as (b0 & bs' & ->).
    rewrite app_length in Hf. cbn [length] in *.
    destruct fuel as [|f]; [lia|]. cbn [app ascii_loop].
    change (b0 :: bs' ++ rest) with ((b0 :: bs') ++ rest).
    rewrite (utf8_decode_sound _ v rest W).
    rewrite cnt_cons in Hx. cbn [filter]. unfold basic at 1 in Hx. unfold basic at 1.
    destruct (N.ltb_spec 127 v); destruct (N.ltb_spec v 128); try lia.
    + apply IH; lia.
    + rewrite u32_small by lia. cbn [rev]. rewrite <- app_assoc. cbn [app].
      destruct (N.eqb_spec (x + 1) h).
      * rewrite (cnt_zero_filter basic cps) by lia. reflexivity.
      * apply IH; lia.
Qed.

(* lines 231-238 *)
Definition min_fold (cps : list N) (n m : N) : N :=
  fold_left (fun m c => if (n <=? c) && (c <? m) then c else m) cps m.

Lemma min_loop_spec s cps : utf8_string s cps -> forall fuel n m,
  (length s <= fuel)%nat -> min_loop fuel s n m = min_fold cps n m.
Proof.
  induction 1 as [|bs v rest cps W S IH]; intros fuel n m Hf.
  - destruct fuel; reflexivity.
  - destruct (wf_cons bs v W) as (b0 & bs' & ->).
    rewrite app_length in Hf. cbn [length] in *.
    destruct fuel as [|f]; [lia|]. cbn [app min_loop].
    change (b0 :: bs' ++ rest) with ((b0 :: bs') ++ rest).
    rewrite (utf8_decode_sound _ v rest W). rewrite IH by lia. reflexivity.
Qed.

Lemma min_fold_ge cps n : forall M,
  min_fold cps n M = match min_ge cps n with
                     | None => M
                     | Some m => if m <? M then m else M
                     end.
Proof.
  induction cps as [|c r IH]; intros M; [reflexivity|].
  unfold min_fold in *. cbn [fold_left min_ge]. rewrite IH.
  destruct (min_ge r n) as [m|].
  - destruct (N.leb_spec n c); destruct (N.ltb_spec c M); destruct (N.ltb_spec c m); cbn [andb];
      repeat match goal with |- context [?a <? ?b] => destruct (N.ltb_spec a b) end; try lia; reflexivity.
  - destruct (N.leb_spec n c); destruct (N.ltb_spec c M); cbn [andb];
      repeat match goal with |- context [?a <? ?b] => destruct (N.ltb_spec a b) end; try lia; reflexivity.
Qed.

Lemma min_ge_none l n : min_ge l n = None -> forall c, In c l -> c < n.
Proof.
  induction l as [|a l IH]; intros E c []; subst; cbn [min_ge] in E;
    destruct (min_ge l n) as [m|] eqn:E2; try (destruct ((n <=? _) && _); discriminate).
  - destruct (N.leb_spec n c); [discriminate|lia].
  - apply IH; [reflexivity|assumption].
Qed.

Lemma min_ge_props cps n m : min_ge cps n = Some m ->
  In m cps /\ n <= m /\ (forall c, In c cps -> n <= c -> m <= c).
Proof.
  revert m. induction cps as [|c r IH]; intros m H; [discriminate|].
  cbn [min_ge] in H. destruct (min_ge r n) as [m'|] eqn:E.
  - destruct (IH m' eq_refl) as (I1 & I2 & I3).
    destruct (N.leb_spec n c); destruct (N.ltb_spec c m'); cbn [andb] in H; inversion H; subst;
      (split; [cbn; auto|]); (split; [lia|]); intros c0 [<-|Hin] Hc; try lia;
      try (specialize (I3 c0 Hin Hc); lia).
  - destruct (N.leb_spec n c); inversion H; subst.
    split; [cbn; auto|]. split; [lia|]. intros c0 [<-|Hin] Hc; [lia|].
    pose proof (min_ge_none r n E c0 Hin). lia.
Qed.

(* ------------------------------------------------------------------ *)
(* lines 250-308 = encode_pass                                         *)
(* ------------------------------------------------------------------ *)
Fixpoint count_eq (n : N) (l : list N) : N :=
  match l with
  | [] => 0
  | c :: r => (if c =? n then 1 else 0) + count_eq n r
  end.

Definition st_rel (b : N) (st : pst) (e : est) : Prop :=
  p_delta st = e_delta e /\ p_h st = e_h e /\ p_bias st = e_bias e /\
  p_first st = (e_h e =? b).

Lemma enc_loop_spec b s cps : utf8_string s cps -> forall fuel n st e w,
  (length s <= fuel)%nat -> st_rel b st e ->
  e_delta e < 4294967296 -> e_bias e < 4294967296 ->
  e_h e + count_eq n cps + 1 < 4294967296 -> b <= e_h e ->
  count_eq n cps <= p_todo st -> p_todo st < 4294967296 ->
  fst (enc_loop (list N) cons fuel s n st w) = None \/
  exists st',
    enc_loop (list N) cons fuel s n st w = (Some st', rev (snd (encode_pass cps n b e)) ++ w) /\
    st_rel b st' (fst (encode_pass cps n b e)) /\
    p_todo st' = p_todo st - count_eq n cps /\
    e_h (fst (encode_pass cps n b e)) = e_h e + count_eq n cps /\
    e_bias (fst (encode_pass cps n b e)) < 4294967296 /\
    e_delta (fst (encode_pass cps n b e)) < 4294967296 /\
    e_delta (fst (encode_pass cps n b e))
      <= (if count_eq n cps =? 0 then e_delta e else 0) + N.of_nat (length cps).
Proof.
  induction 1 as [|bs v rest cps W US IH]; intros fuel n st e w Hf HR Hd Hb Hh Hbh Ht Ht2.
  - right. exists st. destruct fuel; cbn [enc_loop encode_pass count_eq fst snd rev app length] in *;
      (split; [reflexivity|]); (split; [exact HR|]); repeat split; try lia; cbn; lia.
  - destruct (wf_cons bs v W) as (b0 & bs' & ->).
    rewrite app_length in Hf. cbn [length] in Hf.
    destruct fuel as [|f]; [lia|].
    destruct st as [delta h bias frst todo]. destruct e as [ed eb eh].
    destruct HR as (R1 & R2 & R3 & R4). cbn [p_delta p_h p_bias p_first p_todo e_delta e_bias e_h] in *.
    subst ed eh eb.
    cbn [app enc_loop]. change (b0 :: bs' ++ rest) with ((b0 :: bs') ++ rest).
    rewrite (utf8_decode_sound _ v rest W).
    cbn [p_delta p_h p_bias p_first p_todo].
    cbn [count_eq] in Hh, Ht. cbn [encode_pass e_delta e_bias e_h count_eq length].
    destruct (N.ltb_spec v n) as [Lvn|Lvn].
    + (* c < n: increment delta *)
      destruct (N.eqb_spec v n) as [|Nvn]; [lia|]. cbn [andb negb].
      destruct (N.eqb_spec (u32 (delta + 1)) 0) as [Z|NZ]; [left; reflexivity|].
      assert (Hd1 : delta + 1 < 4294967296).
      { unfold u32 in NZ. destruct (N.eq_dec (delta + 1) 4294967296) as [E|E]; [rewrite E in NZ; cbn in NZ; lia|lia]. }
      rewrite u32_small in * by lia. rewrite ?N.add_0_l in *.
      destruct (IH f n (mkP (delta + 1) h bias frst todo) (mkE (delta + 1) bias h) w) as [L|(st' & E1 & E2 & E3 & E4 & E5 & E6 & E7)];
        try (cbn [p_todo e_delta e_bias e_h]; lia).
      { repeat split; assumption. }
      { left; exact L. }
      right. exists st'. rewrite E1. split; [reflexivity|]. split; [exact E2|].
      cbn [p_todo e_delta e_h] in *. repeat split; try lia.
      all: try (destruct (count_eq n cps =? 0); lia).
    + cbn [andb].
      destruct (N.eqb_spec v n) as [Evn|Nvn]; cbn [negb].
      * (* c == n: emit delta, adapt *)
        subst v.
        pose proof (size_nat_32 delta Hd) as Hs.
        rewrite digits_eq by lia.
        pose proof (adapt_model delta h frst Hd ltac:(lia)) as [EA HA]. cbv zeta in EA.
        destruct (adapt_loop _ 0 _) as [bias' d'] eqn:EAL.
        rewrite EA. rewrite (u32_small (h + 1)) by lia.
        rewrite (usub_small todo 1) by lia.
        set (bias2 := adapt delta (h + 1) frst) in *.
        rewrite <- R4. fold bias2.
        destruct (encode_pass cps n b (mkE 0 bias2 (h + 1))) as [e' out'] eqn:EP.
        destruct (IH f n (mkP 0 (h + 1) bias2 false (todo - 1)) (mkE 0 bias2 (h + 1))
                    (rev (encode_int (S (N.size_nat delta)) delta 36 bias) ++ w))
          as [L|(st' & E1 & E2 & E3 & E4 & E5 & E6 & E7)];
          try (cbn [p_todo e_delta e_bias e_h]; lia).
        { repeat split; try reflexivity. cbn [p_first e_h]. symmetry. apply N.eqb_neq. lia. }
        { left; exact L. }
        right. exists st'. rewrite E1. rewrite EP in *. cbn [fst snd] in *.
        split; [rewrite rev_app_distr, <- app_assoc; reflexivity|].
        split; [exact E2|]. cbn [p_todo e_delta e_h] in *.
        replace (1 + count_eq n cps =? 0) with false by (symmetry; apply N.eqb_neq; lia).
        repeat split; try lia.
        all: try (destruct (count_eq n cps =? 0); lia).
      * rewrite ?N.add_0_l in *.
        destruct (IH f n (mkP delta h bias frst todo) (mkE delta bias h) w)
          as [L|(st' & E1 & E2 & E3 & E4 & E5 & E6 & E7)];
          try (cbn [p_todo e_delta e_bias e_h]; lia).
        { repeat split; assumption. }
        { left; exact L. }
        right. exists st'. rewrite E1. split; [reflexivity|]. split; [exact E2|].
        cbn [p_todo e_delta e_h] in *. repeat split; try lia.
        all: try (destruct (count_eq n cps =? 0); lia).
Qed.

(* ------------------------------------------------------------------ *)
(* Counting: h = #{c < n}, todo = #{c >= n} at the head of every round  *)
(* ------------------------------------------------------------------ *)
Fixpoint cnt_lt (n : N) (l : list N) : N :=
  match l with [] => 0 | c :: r => (if c <? n then 1 else 0) + cnt_lt n r end.
Fixpoint cnt_ge (n : N) (l : list N) : N :=
  match l with [] => 0 | c :: r => (if n <=? c then 1 else 0) + cnt_ge n r end.

Lemma cnt_lt_ge n l : cnt_lt n l + cnt_ge n l = N.of_nat (length l).
Proof.
  induction l as [|c r IH]; [reflexivity|]. cbn [cnt_lt cnt_ge length].
  destruct (N.ltb_spec c n); destruct (N.leb_spec n c); lia.
Qed.

Lemma cnt_basic_lt l : cnt basic l = cnt_lt 128 l.
Proof. induction l as [|c r IH]; [reflexivity|]. rewrite cnt_cons, IH. reflexivity. Qed.

Lemma cnt_nonbasic_ge l : cnt nonbasic l = cnt_ge 128 l.
Proof.
  induction l as [|c r IH]; [reflexivity|]. rewrite cnt_cons, IH. cbn [cnt_ge].
  unfold nonbasic, basic. destruct (N.ltb_spec c 128); destruct (N.leb_spec 128 c); cbn [negb]; lia.
Qed.

Lemma count_eq_in m l : In m l -> 1 <= count_eq m l.
Proof.
  induction l as [|c r IH]; intros []; cbn [count_eq].
  - subst. rewrite N.eqb_refl. lia.
  - specialize (IH H). lia.
Qed.

Lemma cnt_step n m l : n <= m -> (forall c, In c l -> n <= c -> m <= c) ->
  cnt_lt (m + 1) l = cnt_lt n l + count_eq m l /\
  cnt_ge (m + 1) l + count_eq m l = cnt_ge n l.
Proof.
  intros Hnm. induction l as [|c r IH]; intros H; [split; reflexivity|].
  destruct IH as [I1 I2]; [intros c0 Hc0; apply H; right; exact Hc0|].
  cbn [cnt_lt cnt_ge count_eq]. rewrite I1, <- I2.
  pose proof (H c (or_introl eq_refl)) as Hc.
  destruct (N.ltb_spec c (m + 1)); destruct (N.ltb_spec c n); destruct (N.eqb_spec c m);
    destruct (N.leb_spec (m + 1) c); destruct (N.leb_spec n c); lia.
Qed.

Lemma cnt_ge_min_ge n l : cnt_ge n l <> 0 -> exists m, min_ge l n = Some m.
Proof.
  intros H. destruct (min_ge l n) as [m|] eqn:E; [eexists; reflexivity|].
  exfalso. apply H. pose proof (min_ge_none l n E) as Hn. clear E H.
  induction l as [|c r IH]; [reflexivity|]. cbn [cnt_ge].
  rewrite IH by (intros c0 Hc0; apply Hn; right; exact Hc0).
  pose proof (Hn c (or_introl eq_refl)). destruct (N.leb_spec n c); lia.
Qed.

(* ------------------------------------------------------------------ *)
(* lines 227-312 = encode_main                                         *)
(* ------------------------------------------------------------------ *)
Lemma outer_loop_spec b s cps : utf8_string s cps ->
  N.of_nat (length cps) + 2 < 4294967296 ->
  forall fuel fuel' n st e w,
  (N.to_nat (p_todo st) <= fuel)%nat -> (N.to_nat (p_todo st) <= fuel')%nat ->
  st_rel b st e -> b <= e_h e ->
  e_h e = cnt_lt n cps -> p_todo st = cnt_ge n cps ->
  e_delta e <= N.of_nat (length cps) + 1 -> e_bias e < 4294967296 -> n <= 1114112 ->
  fst (outer_loop (list N) cons fuel s n st w) = UV_E2BIG \/
  outer_loop (list N) cons fuel s n st w = (0%Z, rev (encode_main fuel' cps n b e) ++ w).
Proof.
  intros US HL.
  pose proof (utf8_string_small s cps US) as Hsmall. rewrite Forall_forall in Hsmall.
  induction fuel as [|f IH]; intros fuel' n st e w Hf Hf' HR Hbh Hh Ht Hd Hb Hn.
  - right. cbn [outer_loop]. assert (p_todo st = 0) by lia.
    replace (p_todo st =? 0) with true by (symmetry; apply N.eqb_eq; assumption).
    pose proof (cnt_lt_ge n cps).
    destruct fuel' as [|f']; [reflexivity|]. cbn [encode_main].
    destruct (N.ltb_spec (e_h e) (N.of_nat (length cps))); [lia|reflexivity].
  - cbn [outer_loop]. pose proof (cnt_lt_ge n cps) as Hsum.
    destruct (N.eqb_spec (p_todo st) 0) as [Z|NZ].
    { right. destruct fuel' as [|f']; [reflexivity|]. cbn [encode_main].
      destruct (N.ltb_spec (e_h e) (N.of_nat (length cps))); [lia|reflexivity]. }
    destruct fuel' as [|f']; [lia|].
    destruct (cnt_ge_min_ge n cps ltac:(lia)) as [m Em].
    destruct (min_ge_props cps n m Em) as (Min & Mge & Mmin).
    pose proof (Hsmall m Min) as Msmall. unfold small in Msmall.
    assert (Emin : min_loop (length s) s n UINT_MAX = m).
    { rewrite (min_loop_spec s cps US) by lia. rewrite min_fold_ge, Em. unfold UINT_MAX.
      destruct (N.ltb_spec m 4294967295); [reflexivity|lia]. }
    rewrite Emin.
    destruct st as [delta h bias frst todo]. destruct e as [ed eb eh].
    destruct HR as (R1 & R2 & R3 & R4). cbn [p_delta p_h p_bias p_first p_todo e_delta e_bias e_h] in *.
    subst ed eh eb.
    rewrite (usub_small m n) by lia. rewrite (u32_small (h + 1)) by lia.
    unfold UINT_MAX.
    destruct (N.ltb_spec ((4294967295 - delta) / (h + 1)) (m - n)) as [Ov|NoOv]; [left; reflexivity|].
    assert (Hprod : delta + (m - n) * (h + 1) <= 4294967295).
    { pose proof (N.mul_div_le (4294967295 - delta) (h + 1) ltac:(lia)). nia. }
    rewrite (u32_small ((m - n) * (h + 1))) by lia.
    rewrite (u32_small (delta + (m - n) * (h + 1))) by lia.
    destruct (cnt_step n m cps Mge Mmin) as [C1 C2].
    pose proof (count_eq_in m cps Min) as C3.
    destruct (enc_loop_spec b s cps US (length s) m
                (mkP (delta + (m - n) * (h + 1)) h bias frst todo)
                (mkE (delta + (m - n) * (h + 1)) bias h) w)
      as [L|(st' & E1 & E2 & E3 & E4 & E5 & E6 & E7)];
      try (cbn [p_todo e_delta e_bias e_h]; lia).
    { repeat split; assumption. }
    { left. destruct (enc_loop _ _ _ _ _ _ _) as [o w']. cbn [fst] in L. subst o. reflexivity. }
    rewrite E1. cbn [encode_main e_delta e_bias e_h].
    destruct (N.ltb_spec h (N.of_nat (length cps))); [|lia]. rewrite Em.
    destruct (encode_pass cps m b (mkE (delta + (m - n) * (h + 1)) bias h)) as [e' out] eqn:EP.
    cbn [fst snd] in *. cbn [p_todo e_delta e_h] in *.
    replace (count_eq m cps =? 0) with false in E7 by (symmetry; apply N.eqb_neq; lia).
    rewrite (u32_small (m + 1)) by lia.
    destruct st' as [delta' h' bias' frst' todo']. destruct e' as [ed' eb' eh'].
    destruct E2 as (S1 & S2 & S3 & S4). cbn [p_delta p_h p_bias p_first p_todo e_delta e_bias e_h] in *.
    subst ed' eh' eb'.
    rewrite (u32_small (delta' + 1)) by lia.
    destruct (IH f' (m + 1) (mkP (delta' + 1) h' bias' frst' todo') (mkE (delta' + 1) bias' h')
                (rev out ++ w)) as [L|E];
      try (cbn [p_todo e_delta e_bias e_h]; lia).
    { repeat split; assumption. }
    right. rewrite E. rewrite rev_app_distr, <- app_assoc. reflexivity.
Qed.

(* ------------------------------------------------------------------ *)
(* The label function                                                  *)
(* ------------------------------------------------------------------ *)
Lemma wf_basic bs v : utf8_wf bs v -> v < 128 -> bs = [v].
Proof. intros W H. destruct W; unfold rng, v2, v3, v4 in *; try reflexivity; lia. Qed.

Lemma all_basic s cps : utf8_string s cps -> cnt nonbasic cps = 0 ->
  s = cps /\ filter basic cps = cps.
Proof.
  induction 1 as [|bs v rest cps W US IH]; intros H; [split; reflexivity|].
  rewrite cnt_cons in H. unfold nonbasic at 1, basic in H.
  destruct (N.ltb_spec v 128) as [L|L]; cbn [negb] in H; [|lia].
  destruct (IH ltac:(lia)) as [I1 I2].
  rewrite (wf_basic bs v W L). cbn [app filter]. unfold basic at 1.
  destruct (N.ltb_spec v 128); [|lia]. rewrite I1 at 1. rewrite I2. split; reflexivity.
Qed.

Definition xn : list N := [120; 110; 45; 45].    (* "xn--" *)

(* every loop only adds to the output *)
Definition extends (base : list N) (w : list N) (_ : unit) : Prop := exists l, w = l ++ base.

Lemma extends_put base c w u : extends base w u -> extends base (c :: w) u.
Proof. intros [l ->]. exists (c :: l). reflexivity. Qed.

Theorem label_is_rfc3492 s cps :
  utf8_string s cps -> N.of_nat (length cps) + 2 < 4294967296 ->
  (cnt nonbasic cps = 0 -> label_full s = (Z.of_nat (length s), s)) /\
  (cnt nonbasic cps <> 0 ->
     (fst (label_full s) = UV_E2BIG /\ exists rest, snd (label_full s) = xn ++ rest) \/
     label_full s = (0%Z, xn ++ spec_encode cps)).
Proof.
  intros US HL. unfold label_full, idna_toascii_label.
  pose proof (utf8_string_length s cps US) as Hlen.
  rewrite (count_loop_spec s cps US) by lia. rewrite !N.add_0_l.
  pose proof (cnt_le basic cps) as Hb. pose proof (cnt_le nonbasic cps) as Hnb.
  split; intros Hn.
  - rewrite Hn. cbn [N.ltb N.compare N.eqb].
    rewrite (ascii_loop_spec s cps US) by lia.
    destruct (all_basic s cps US Hn) as [E1 E2]. rewrite E2, app_nil_r, rev_involutive.
    f_equal; [|symmetry; exact E1].
    unfold cnt. rewrite E2. subst s. lia.
  - destruct (N.ltb_spec 0 (cnt nonbasic cps)); [|lia].
    destruct (N.eqb_spec (cnt nonbasic cps) 0); [lia|].
    rewrite (ascii_loop_spec s cps US) by lia.
    set (w2 := if 0 <? cnt basic cps then 45 :: rev (filter basic cps) ++ [45; 45; 110; 120]
               else rev (filter basic cps) ++ [45; 45; 110; 120]).
    replace (if 0 <? cnt basic cps then _ else _) with w2 by (unfold w2; destruct (0 <? cnt basic cps); reflexivity).
    pose proof (cnt_lt_ge 128 cps) as Hsum.
    destruct (outer_loop_spec (cnt basic cps) s cps US HL (N.to_nat (cnt nonbasic cps)) (length cps) 128
                (mkP 0 (cnt basic cps) 72 true (cnt nonbasic cps)) (mkE 0 72 (cnt basic cps)) w2)
      as [L|E]; try (cbn [p_todo e_delta e_bias e_h]; lia).
    { repeat split; cbn [p_first e_h]. symmetry. apply N.eqb_refl. }
    { cbn [e_h]. apply cnt_basic_lt. }
    { cbn [p_todo]. apply cnt_nonbasic_ge. }
    + left.
      pose proof (outer_rel (list N) unit cons (fun _ u => u) (extends [45; 45; 110; 120])
                    (extends_put _) (N.to_nat (cnt nonbasic cps)) s 128
                    (mkP 0 (cnt basic cps) 72 true (cnt nonbasic cps)) w2 tt) as [_ Hext].
      { unfold w2. destruct (0 <? cnt basic cps); eexists; [rewrite app_comm_cons|]; reflexivity. }
      destruct (outer_loop (list N) cons _ s 128 _ w2) as [rc out]. cbn [fst snd] in *.
      split; [exact L|]. destruct Hext as [l ->]. exists (rev l).
      rewrite rev_app_distr. reflexivity.
    + right. rewrite E. f_equal. rewrite rev_app_distr, rev_involutive. unfold w2, spec_encode.
      fold (cnt basic cps). unfold initial_n, initial_bias, delimiter, xn.
      destruct (0 <? cnt basic cps); cbn [rev app]; rewrite ?rev_app_distr, ?rev_involutive;
        cbn [rev app]; rewrite <- ?app_assoc; reflexivity.
Qed.

(* ------------------------------------------------------------------ *)
(* The whole host name                                                 *)
(* ------------------------------------------------------------------ *)
Lemma utf8_string_app s1 c1 : utf8_string s1 c1 -> forall s2 c2,
  utf8_string s2 c2 -> utf8_string (s1 ++ s2) (c1 ++ c2).
Proof.
  induction 1 as [|bs v rest cps W US IH]; intros s2 c2 H2; [exact H2|].
  rewrite <- app_assoc. cbn [app]. constructor; [exact W|apply IH; exact H2].
Qed.

Lemma utf8_string_one bs v : utf8_wf bs v -> utf8_string bs [v].
Proof. intros W. rewrite <- (app_nil_r bs). constructor; [exact W|constructor]. Qed.

Lemma utf8_string_nil cps : utf8_string [] cps -> cps = [].
Proof.
  intros H. inversion H as [|bs v rest cps' W US E]; [reflexivity|].
  destruct (wf_cons bs v W) as (b0 & bs' & ->). discriminate.
Qed.

(* the label function with something already in the destination *)
Lemma label_frame s w :
  idna_toascii_label (list N) cons s w =
  (fst (label_full s), rev (snd (label_full s)) ++ w).
Proof.
  unfold label_full.
  pose proof (label_rel (list N) (list N) cons cons (fun w1 w2 => w1 = w2 ++ w)
                ltac:(intros c a b ->; reflexivity) s w [] eq_refl) as [E1 E2].
  destruct (idna_toascii_label (list N) cons s w) as [rc1 o1].
  destruct (idna_toascii_label (list N) cons s []) as [rc2 o2]. cbn [fst snd] in *.
  subst. rewrite rev_involutive. reflexivity.
Qed.

Lemma nonbasic_forallb cps : cnt nonbasic cps = 0 <-> forallb basic cps = true.
Proof.
  induction cps as [|c r IH]; [split; reflexivity|]. rewrite cnt_cons. cbn [forallb].
  unfold nonbasic at 1. destruct (basic c); cbn [negb andb].
  - rewrite N.add_0_l. exact IH.
  - split; [lia|discriminate].
Qed.

(* one label, whatever is already in the destination *)
Lemma label_spec s cps w : utf8_string s cps -> N.of_nat (length cps) + 2 < 4294967296 ->
  fst (idna_toascii_label (list N) cons s w) = UV_E2BIG \/
  ((0 <= fst (idna_toascii_label (list N) cons s w))%Z /\
   snd (idna_toascii_label (list N) cons s w) = rev (spec_label cps) ++ w).
Proof.
  intros US HL. rewrite label_frame. cbn [fst snd].
  destruct (label_is_rfc3492 s cps US HL) as [HA HB]. unfold spec_label.
  destruct (forallb basic cps) eqn:Eb.
  - right. rewrite (HA (proj2 (nonbasic_forallb cps) Eb)). cbn [fst snd].
    destruct (all_basic s cps US (proj2 (nonbasic_forallb cps) Eb)) as [-> _]. split; [lia|reflexivity].
  - assert (Hn : cnt nonbasic cps <> 0).
    { intros H. apply nonbasic_forallb in H. congruence. }
    destruct (HB Hn) as [[L _]|E]; [left; exact L|right].
    rewrite E. cbn [fst snd]. split; [lia|reflexivity].
Qed.

Lemma is_dot_separator c : is_dot c = label_separator c.
Proof. reflexivity. Qed.

Lemma toascii_loop_spec si cps : utf8_string si cps -> forall fuel lab labcps w,
  (length si <= fuel)%nat -> utf8_string (rev lab) labcps ->
  N.of_nat (length labcps) + N.of_nat (length cps) + 2 < 4294967296 ->
  fst (toascii_loop (list N) cons fuel lab si w) = UV_E2BIG \/
  ((0 <= fst (toascii_loop (list N) cons fuel lab si w))%Z /\
   snd (toascii_loop (list N) cons fuel lab si w) = rev (spec_host cps labcps) ++ w).
Proof.
  induction 1 as [|bs v rest cps W US IH]; intros fuel lab labcps w Hf HLab HL.
  - assert (E : toascii_loop (list N) cons fuel lab [] w =
                match lab with [] => (0%Z, w) | _ => idna_toascii_label (list N) cons (rev lab) w end)
      by (destruct fuel; reflexivity).
    rewrite E. cbn [spec_host]. destruct lab as [|x lab'].
    + cbn [rev] in HLab. rewrite (utf8_string_nil labcps HLab). right. cbn. split; [lia|reflexivity].
    + apply label_spec; [exact HLab|cbn [length] in HL; lia].
  - destruct (wf_cons bs v W) as (b0 & bs' & ->).
    rewrite app_length in Hf. cbn [length] in Hf.
    destruct fuel as [|f]; [lia|]. cbn [app toascii_loop].
    change (b0 :: bs' ++ rest) with ((b0 :: bs') ++ rest).
    rewrite (utf8_decode_sound _ v rest W), (wf_not_max _ v W).
    cbn [spec_host]. rewrite is_dot_separator. cbn [length] in HL.
    destruct (label_separator v).
    + destruct (label_spec (rev lab) labcps w HLab ltac:(lia)) as [L|[L1 L2]].
      * left. destruct (idna_toascii_label _ _ _ _) as [rc w']. cbn [fst] in L. subst rc. reflexivity.
      * destruct (idna_toascii_label _ _ _ _) as [rc w']. cbn [fst snd] in L1, L2. subst w'.
        destruct (Z.ltb_spec rc 0); [lia|].
        destruct (IH f [] [] (46 :: rev (spec_label labcps) ++ w) ltac:(lia) us_nil
                    ltac:(cbn [length]; lia)) as [L|[M1 M2]]; [left; exact L|right].
        split; [exact M1|]. rewrite M2. rewrite !rev_app_distr. cbn [rev app].
        rewrite <- !app_assoc. reflexivity.
    + replace (length ((b0 :: bs') ++ rest) - length rest)%nat with (length (b0 :: bs'))
        by (rewrite app_length; lia).
      rewrite firstn_app, Nat.sub_diag, firstn_all. cbn [firstn]. rewrite app_nil_r.
      apply IH; [lia| |rewrite app_length; cbn [length]; lia].
      rewrite rev_app_distr, rev_involutive.
      apply utf8_string_app; [exact HLab|apply utf8_string_one; exact W].
Qed.

(* C18_toascii_is_rfc3492, unbounded destination *)
Theorem toascii_full_is_rfc3492 s cps :
  utf8_string s cps -> N.of_nat (length cps) + 2 < 4294967296 ->
  fst (toascii_full s) = UV_E2BIG \/
  ((0 <= fst (toascii_full s))%Z /\ snd (toascii_full s) = spec_host cps []).
Proof.
  intros US HL. unfold toascii_full.
  destruct (toascii_loop_spec s cps US (length s) [] [] [] ltac:(lia) ltac:(constructor)
              ltac:(cbn [length]; lia)) as [L|[M1 M2]].
  - left. destruct (toascii_loop _ _ _ _ _ _) as [rc out]. exact L.
  - right. destruct (toascii_loop _ _ _ _ _ _) as [rc out]. cbn [fst snd] in *.
    split; [exact M1|]. rewrite M2, app_nil_r, rev_involutive. reflexivity.
Qed.

Lemma nonbasic_zero_forall cps : Forall (fun c => c < 128) cps -> cnt nonbasic cps = 0.
Proof.
  induction 1 as [|c r Hc HF IH]; [reflexivity|]. rewrite cnt_cons, IH.
  unfold nonbasic, basic. destruct (N.ltb_spec c 128); [reflexivity|lia].
Qed.

Lemma nonbasic_exists cps : Exists (fun c => 128 <= c) cps -> cnt nonbasic cps <> 0.
Proof.
  induction 1 as [c r Hc|c r HE IH]; rewrite cnt_cons.
  - unfold nonbasic at 1, basic. destruct (N.ltb_spec c 128); [lia|]. cbn [negb]. lia.
  - lia.
Qed.

(* C18_toascii_label_iff_nonascii *)
Theorem label_iff_nonascii s cps :
  utf8_string s cps -> N.of_nat (length cps) + 2 < 4294967296 ->
  (Forall (fun c => c < 128) cps -> label_full s = (Z.of_nat (length s), s)) /\
  (Exists (fun c => 128 <= c) cps ->
     (fst (label_full s) = 0%Z \/ fst (label_full s) = UV_E2BIG) /\
     exists rest, snd (label_full s) = [120; 110; 45; 45] ++ rest).
Proof.
  intros US HL. destruct (label_is_rfc3492 s cps US HL) as [HA HB]. split.
  - intros HF. apply HA. apply nonbasic_zero_forall. exact HF.
  - intros HE. destruct (HB (nonbasic_exists cps HE)) as [[L1 L2]|E].
    + split; [right; exact L1|exact L2].
    + rewrite E. cbn [fst snd]. split; [left; reflexivity|]. eexists. reflexivity.
Qed.

(* bounded destination and RFC 3492 together *)
Theorem toascii_is_rfc3492 s cps de :
  utf8_string s cps -> s <> [] -> N.of_nat (length cps) + 2 < 4294967296 ->
  let '(rc, w) := idna_toascii s de in
  let answer := spec_host cps [] in
  rc = UV_E2BIG \/
  (N.of_nat (length answer) + 1 <= de /\ rc = Z.of_N (N.of_nat (length answer) + 1) /\
   written w = answer ++ [0]) \/
  (de < N.of_nat (length answer) + 1 /\ rc = UV_EINVAL).
Proof.
  intros US Hne HL. pose proof (toascii_bounded s de Hne) as HB.
  destruct (idna_toascii s de) as [rc w].
  destruct (toascii_full_is_rfc3492 s cps US HL) as [L|[M1 M2]];
    destruct (toascii_full s) as [rcu full]; cbn [fst snd] in *;
    destruct HB as (_ & _ & _ & _ & B1 & B2 & B3).
  - left. rewrite B1; [exact L|rewrite L; reflexivity].
  - subst full. right.
    destruct (N.leb_spec (N.of_nat (length (spec_host cps [])) + 1) de) as [Fit|NoFit].
    + left. destruct (B2 M1 Fit) as [R1 R2]. repeat split; assumption.
    + right. split; [exact NoFit|apply B3; assumption].
Qed.

(* ------------------------------------------------------------------ *)
(* Ill-formed UTF-8 is never converted                                 *)
(* ------------------------------------------------------------------ *)
Lemma toascii_loop_wellformed : forall fuel lab si w,
  Forall byte si -> (length si <= fuel)%nat ->
  (0 <= fst (toascii_loop (list N) cons fuel lab si w))%Z ->
  exists cps, utf8_string si cps.
Proof.
  induction fuel as [|f IH]; intros lab si w HB Hf Hrc.
  - destruct si; [exists []; constructor|cbn in Hf; lia].
  - destruct si as [|b0 si0]; [exists []; constructor|].
    cbn [toascii_loop] in Hrc.
    destruct (utf8_decode1 (b0 :: si0)) as [c si'] eqn:E.
    destruct (c =? UINT_MAX) eqn:Ec; [cbn [fst] in Hrc; unfold UV_EINVAL in Hrc; lia|].
    apply N.eqb_neq in Ec. rename Ec into Nc.
    destruct (utf8_decode_complete (b0 :: si0) ltac:(discriminate) HB ltac:(rewrite E; exact Nc))
      as (bs & v & rest & Es & W).
    rewrite Es, (utf8_decode_sound bs v rest W) in E. injection E as <- <-.
    assert (HBr : Forall byte rest) by (rewrite Es in HB; apply Forall_app in HB; apply HB).
    assert (Hl : (length rest <= f)%nat).
    { pose proof (utf8_wf_length bs v W). apply (f_equal (@length N)) in Es.
      rewrite app_length in Es. cbn [length] in *. lia. }
    rewrite Es.
    assert (G : forall lab' w', (0 <= fst (toascii_loop (list N) cons f lab' rest w'))%Z ->
                exists cps, utf8_string (bs ++ rest) cps).
    { intros lab' w' H. destruct (IH lab' rest w' HBr Hl H) as [cps Hc].
      exists (v :: cps). constructor; assumption. }
    destruct (is_dot v).
    + destruct (idna_toascii_label (list N) cons (rev lab) w) as [rc w'].
      destruct (rc <? 0)%Z eqn:L; [cbn [fst] in Hrc; apply Z.ltb_lt in L; lia|].
      eapply G; exact Hrc.
    + eapply G; exact Hrc.
Qed.

Theorem toascii_rejects_illformed s de :
  Forall byte s -> (0 <= fst (idna_toascii s de))%Z -> exists cps, utf8_string s cps.
Proof.
  intros HB Hrc. destruct s as [|b0 s0]; [cbn in Hrc; unfold UV_EINVAL in Hrc; lia|].
  pose proof (toascii_bounded (b0 :: s0) de ltac:(discriminate)) as B.
  destruct (idna_toascii (b0 :: s0) de) as [rc w]. unfold toascii_full in B.
  destruct (toascii_loop (list N) cons (length (b0 :: s0)) [] (b0 :: s0) []) as [rcu out] eqn:E.
  destruct B as (_ & _ & _ & _ & B1 & _). cbn [fst] in Hrc.
  apply (toascii_loop_wellformed (length (b0 :: s0)) [] (b0 :: s0) [] HB (le_n _)).
  rewrite E. cbn [fst]. destruct (Z.ltb_spec rcu 0); [rewrite (B1 H) in Hrc; lia|lia].
Qed.
