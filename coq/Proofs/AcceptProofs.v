(* C07: proofs about Model/Accept.v -- the queued_fds array (growth by 8, memmove
   shift), FIFO order and conservation of descriptors, uv_accept's UV_EAGAIN,
   one connection_cb per kept connection, uv_pipe_pending_count. *)
From UV Require Import Lib.Base Model.Accept.
From Coq Require Import Permutation.
Local Open Scope Z_scope.

(* ------------------------------------------------------------------ *)
(* list helpers *)
Lemma firstn_S_upd {A} (l : list A) n v :
  (n < length l)%nat -> firstn (S n) (upd n (fun _ => v) l) = firstn n l ++ [v].
Proof.
  revert n; induction l as [|x xs IH]; intros [|n] H; simpl in *; try lia.
  - reflexivity.
  - f_equal. apply IH. lia.
Qed.

Lemma firstn_all2' {A} (l : list A) n : (length l <= n)%nat -> firstn n l = l.
Proof. apply firstn_all2. Qed.

(* ------------------------------------------------------------------ *)
(* A2: the array invariant *)
Definition Qinv (a : qarr) : Prop :=
  (0 < q_offset a <= q_size a)%nat /\ length (q_fds a) = q_size a /\ (q_size a mod 8 = 0)%nat.

Definition qheld (a : qarr) : list Z := firstn (q_offset a) (q_fds a).
Definition oqheld (q : option qarr) : list Z := match q with Some a => qheld a | None => [] end.
Definition oQinv (q : option qarr) : Prop := match q with Some a => Qinv a | None => True end.

Lemma q_put_spec a fd :
  (q_offset a < q_size a)%nat -> length (q_fds a) = q_size a -> (q_size a mod 8 = 0)%nat ->
  Qinv (q_put a fd) /\ qheld (q_put a fd) = qheld a ++ [fd].
Proof.
  intros Ho Hl Hm. unfold Qinv, qheld, q_put; cbn [q_size q_offset q_fds]. split.
  - rewrite upd_length. repeat split; try lia; assumption.
  - apply firstn_S_upd. lia.
Qed.

Lemma q_grow_spec a :
  (q_offset a <= q_size a)%nat -> length (q_fds a) = q_size a -> (q_size a mod 8 = 0)%nat ->
  q_size (q_grow a) = (q_size a + 8)%nat /\ q_offset (q_grow a) = q_offset a /\
  length (q_fds (q_grow a)) = (q_size a + 8)%nat /\ ((q_size a + 8) mod 8 = 0)%nat /\
  qheld (q_grow a) = qheld a.
Proof.
  intros Ho Hl Hm. unfold q_grow, qheld; cbn [q_size q_offset q_fds].
  rewrite (firstn_all2' (q_fds a)) by lia.
  repeat split.
  - rewrite app_length, repeat_length. lia.
  - rewrite <- Nat.add_mod_idemp_l by lia. rewrite Hm. reflexivity.
  - rewrite firstn_app. replace (q_offset a - length (q_fds a))%nat with 0%nat by lia.
    cbn [firstn]. apply app_nil_r.
Qed.

(* uv__stream_queue_fd: on success the descriptor is appended behind everything
   held, for every length of the array; on allocation failure nothing changes *)
Lemma queue_fd_spec q fd al q' c al' :
  oQinv q -> queue_fd q fd al = (q', c, al') ->
  (c = 0 /\ oQinv q' /\ q' <> None /\ oqheld q' = oqheld q ++ [fd]) \/
  (c = UV_ENOMEM /\ q' = q).
Proof.
  intros Hq H. unfold queue_fd in H. destruct q as [a|].
  - destruct Hq as (Ho & Hl & Hm).
    destruct (Nat.eqb_spec (q_size a) (q_offset a)) as [E|E].
    + destruct (next_bool al) as [ok al1]. destruct ok; inversion H; subst; clear H.
      * left. destruct (q_grow_spec a) as (G1 & G2 & G3 & G4 & G5); try lia.
        destruct (q_put_spec (q_grow a) fd) as (P1 & P2); try lia.
        split; [reflexivity|]. split; [exact P1|]. split; [discriminate|].
        cbn [oqheld]. rewrite P2, G5. reflexivity.
      * right. split; reflexivity.
    + inversion H; subst; clear H. left.
      destruct (q_put_spec a fd) as (P1 & P2); try lia.
      split; [reflexivity|]. split; [exact P1|]. split; [discriminate|]. exact P2.
  - destruct (next_bool al) as [ok al1]. destruct ok; inversion H; subst; clear H.
    + left. destruct (q_put_spec (mkQ 8 0 (repeat 0 8%nat)) fd) as (P1 & P2);
        cbn [q_size q_offset q_fds]; try reflexivity; try lia.
      split; [reflexivity|]. split; [exact P1|]. split; [discriminate|]. exact P2.
    + right. split; reflexivity.
Qed.

(* uv_accept's pop with the memmove shift: the head leaves, the rest keeps its
   order, for every length *)
Lemma q_pop_spec a fd q' :
  Qinv a -> q_pop a = (fd, q') -> fd :: oqheld q' = qheld a /\ oQinv q'.
Proof.
  intros (Ho & Hl & Hm) H. unfold q_pop in H. unfold qheld.
  destruct (q_fds a) as [|x t] eqn:El; [simpl in Hl; lia|].
  cbn [nth] in H. destruct (q_offset a) as [|off] eqn:Eo; [lia|]. cbn [pred] in H.
  destruct (Nat.eqb_spec off 0) as [E|E]; inversion H; subst; clear H.
  - cbn. split; [reflexivity|exact I].
  - cbn [oqheld oQinv qheld Qinv q_size q_offset q_fds]. cbn [skipn firstn].
    simpl in Hl.
    assert (Hlen : length (firstn off t) = off) by (apply firstn_length_le; lia).
    split.
    + f_equal. unfold qheld; cbn [q_offset q_fds].
      rewrite firstn_app, Hlen, Nat.sub_diag. cbn [firstn].
      rewrite app_nil_r. rewrite firstn_firstn, Nat.min_id. reflexivity.
    + unfold Qinv; cbn [q_size q_offset q_fds]. repeat split; try lia.
      rewrite app_length, Hlen, skipn_length. cbn [length]. lia.
Qed.

(* ------------------------------------------------------------------ *)
(* stream invariant: A2, A3 and descriptors are >= 0 *)
Definition Sinv (s : stream) : Prop :=
  (s_acc s = -1 -> s_q s = None) /\ oQinv (s_q s) /\ Forall (fun f => 0 <= f) (held s).

(* A4, one direction: a server that polls for connections holds none *)
Definition A4 (s : stream) : Prop := s_ipc s = false -> s_pollin s = true -> s_acc s = -1.

Definition arrivals (tr : list ev) : list Z :=
  flat_map (fun e => match e with EKeep f => [f] | _ => [] end) tr.
Definition departs (tr : list ev) : list Z :=
  flat_map (fun e => match e with EClaim f | EDrop f | EShutC f => [f] | _ => [] end) tr.

Lemma arrivals_app a b : arrivals (a ++ b) = arrivals a ++ arrivals b.
Proof. apply flat_map_app. Qed.
Lemma departs_app a b : departs (a ++ b) = departs a ++ departs b.
Proof. apply flat_map_app. Qed.

(* what one step does to the queue of held descriptors *)
Definition Flow (s : stream) (e : list ev) (s' : stream) : Prop :=
  Sinv s' /\ held s ++ arrivals e = departs e ++ held s'.

Lemma Flow_refl s : Sinv s -> Flow s [] s.
Proof. intros H. split; [exact H|]. cbn. apply app_nil_r. Qed.

Lemma Flow_trans s1 e1 s2 e2 s3 : Flow s1 e1 s2 -> Flow s2 e2 s3 -> Flow s1 (e1 ++ e2) s3.
Proof.
  intros (_ & H1) (I3 & H2). split; [exact I3|].
  rewrite arrivals_app, departs_app, app_assoc, H1, <- app_assoc, H2, app_assoc. reflexivity.
Qed.

Lemma held_acc_none s : s_acc s = -1 -> Sinv s -> held s = [].
Proof.
  intros E (A3 & _). unfold held. rewrite E, (A3 E). reflexivity.
Qed.

Lemma held_cons s : s_acc s <> -1 -> held s = s_acc s :: oqheld (s_q s).
Proof.
  intros E. unfold held. destruct (Z.eqb_spec (s_acc s) (-1)); [contradiction|].
  destruct (s_q s); reflexivity.
Qed.

Lemma uv_accept_flow s c s' e :
  Sinv s -> uv_accept s c = (s', e) -> Flow s e s'.
Proof.
  intros I H. unfold uv_accept in H.
  destruct (Z.eqb_spec (s_acc s) (-1)) as [E|E].
  { inversion H; subst. apply Flow_refl, I. }
  destruct I as (A3 & Q & NN).
  assert (Hh := held_cons s E). rewrite Hh in NN.
  assert (Hstep : forall e1, (e1 = EClaim (s_acc s) \/ e1 = EDrop (s_acc s)) ->
     forall err pi, Flow s [e1; ERet err]
       match s_q s with
       | Some a => let (fd, q'0) := q_pop a in mkS fd q'0 (s_pollin s) (s_closing s) (s_ipc s) (s_rearm s)
       | None => mkS (-1) None pi (s_closing s) (s_ipc s) (s_rearm s)
       end).
  { intros e1 He1 err pi. destruct (s_q s) as [a|] eqn:Eq.
    - destruct (q_pop a) as [fd q'] eqn:Ep.
      destruct (q_pop_spec a fd q' Q Ep) as (P1 & P2).
      cbn [oqheld] in Hh, NN. rewrite <- P1 in NN.
      assert (Hfd : 0 <= fd) by (inversion NN as [|? ? _ T]; inversion T; assumption).
      split.
      + unfold Sinv; cbn [s_acc s_q]. split; [intros; lia|]. split; [exact P2|].
        rewrite held_cons by (cbn; lia). cbn [s_acc s_q]. inversion NN; assumption.
      + rewrite Hh. cbn [oqheld]. rewrite <- P1.
        rewrite (held_cons (mkS fd q' _ _ _ _)) by (cbn; lia). cbn [s_acc s_q].
        destruct He1; subst e1; cbn; rewrite app_nil_r; reflexivity.
    - split.
      + unfold Sinv, held; cbn. split; [reflexivity|]. split; [exact I|constructor].
      + rewrite Hh. cbn [oqheld]. unfold held; cbn [s_acc s_q]. cbn.
        destruct He1; subst e1; cbn; reflexivity. }
  destruct c; inversion H; subst; clear H.
  - apply Hstep. left; reflexivity.
  - apply Hstep. right; reflexivity.
  - apply Flow_refl. repeat split; try assumption. rewrite Hh. exact NN.
Qed.

Lemma departs_map_shut l : departs (map EShutC l) = l.
Proof. induction l; cbn; [reflexivity|]. f_equal. exact IHl. Qed.
Lemma arrivals_map_shut l : arrivals (map EShutC l) = [].
Proof. induction l; cbn; auto. Qed.

Lemma stream_close_flow s s' e : Sinv s -> stream_close s = (s', e) -> Flow s e s'.
Proof.
  intros I H. unfold stream_close in H. inversion H; subst; clear H. split.
  - unfold Sinv, held; cbn. split; [reflexivity|]. split; [exact Logic.I|constructor].
  - unfold held at 2; cbn [s_acc s_q]. cbn [Z.eqb]. rewrite app_nil_r.
    rewrite arrivals_app, departs_app.
    destruct (Z.eqb_spec (s_acc s) (-1)) as [E|E].
    + rewrite (held_acc_none s E I). destruct I as (A3 & _). rewrite (A3 E). reflexivity.
    + rewrite held_cons by exact E. destruct (s_q s) as [a|]; cbn [oqheld].
      * change (departs [EShutC (s_acc s)]) with [s_acc s].
        change (arrivals [EShutC (s_acc s)]) with (@nil Z).
        rewrite departs_map_shut, arrivals_map_shut. cbn. rewrite app_nil_r. reflexivity.
      * cbn. reflexivity.
Qed.

Lemma exec_simple_flow kind s o s' e : Sinv s -> exec_simple kind s o = (s', e) -> Flow s e s'.
Proof.
  intros I H. destruct o; cbn [exec_simple] in H;
    try (inversion H; subst; apply Flow_refl, I).
  - eapply uv_accept_flow; eauto.
  - destruct (s_closing s).
    + inversion H; subst; apply Flow_refl, I.
    + eapply stream_close_flow; eauto.
Qed.

Lemma exec_cb_flow kind os : forall s s' e, Sinv s -> exec_cb kind s os = (s', e) -> Flow s e s'.
Proof.
  induction os as [|o r IH]; intros s s' e I H; cbn [exec_cb] in H.
  - inversion H; subst. apply Flow_refl, I.
  - destruct (exec_simple kind s o) as [s1 e1] eqn:E1.
    destruct (exec_cb kind s1 r) as [s2 e2] eqn:E2. inversion H; subst; clear H.
    pose proof (exec_simple_flow _ _ _ _ _ I E1) as F1.
    eapply Flow_trans; [exact F1|]. apply IH; [apply F1|exact E2].
Qed.

(* A4 survives everything a callback can do, and is restored by uv__server_io *)
Lemma uv_accept_A4 s c s' e : A4 s -> uv_accept s c = (s', e) -> A4 s'.
Proof.
  intros A H. unfold uv_accept in H.
  destruct (Z.eqb_spec (s_acc s) (-1)) as [E|E]; [inversion H; subst; exact A|].
  assert (Hp : s_ipc s = false -> s_pollin s = false).
  { intros Hi. destruct (s_pollin s) eqn:P; [|reflexivity]. exfalso. apply E, A; auto. }
  destruct c; inversion H; subst; clear H; try exact A;
    (destruct (s_q s) as [a|]; [destruct (q_pop a) as [fd q']|]; unfold A4; cbn; intros Hi Hpi;
     try reflexivity; rewrite (Hp Hi) in Hpi; discriminate).
Qed.

Lemma exec_simple_A4 kind s o s' e : A4 s -> exec_simple kind s o = (s', e) -> A4 s'.
Proof.
  intros A H. destruct o; cbn [exec_simple] in H; try (inversion H; subst; exact A).
  - eapply uv_accept_A4; eauto.
  - destruct (s_closing s); inversion H; subst; [exact A|]. unfold A4; cbn. discriminate.
Qed.

(* ------------------------------------------------------------------ *)
(* oracle / script hypotheses: the kernel hands out descriptors >= 0 *)
Definition acc_ok (a : acc) : Prop := match a with AFd f => 0 <= f | _ => True end.
Definition op_ok (o : op) : Prop :=
  match o with ORecv ms => Forall (Forall (fun f => 0 <= f)) ms | _ => True end.

Lemma accept_retry_ok o a r : Forall acc_ok o -> accept_retry o = (a, r) -> acc_ok a /\ Forall acc_ok r.
Proof.
  induction o as [|x o IH]; intros F H; cbn in H.
  - inversion H; subst. split; [exact I|constructor].
  - inversion F as [|? ? Fx Fo]; subst.
    destruct x; try (inversion H; subst; split; assumption). apply IH; assumption.
Qed.

Lemma shed_spec o : Forall acc_ok o ->
  let '(e, _, r) := shed o in arrivals e = [] /\ departs e = [] /\ Forall acc_ok r.
Proof.
  induction o as [|x o IH]; intros F; cbn.
  - repeat split; constructor.
  - inversion F as [|? ? Fx Fo]; subst. specialize (IH Fo).
    destruct x; try (repeat split; assumption).
    destruct (shed o) as [[e c] r]. destruct IH as (A & D & R). repeat split; assumption.
Qed.

Record Xinv (x : st) : Prop := {
  xi_s : Sinv (sv x); xi_a : A4 (sv x); xi_o : Forall acc_ok (acc_o x) }.

Definition XFlow (x : st) (e : list ev) (x' : st) : Prop :=
  Xinv x' /\ held (sv x) ++ arrivals e = departs e ++ held (sv x') /\ s_ipc (sv x') = s_ipc (sv x).

Lemma exec_simple_ipc kind s o s' e : exec_simple kind s o = (s', e) -> s_ipc s' = s_ipc s.
Proof.
  intros H. destruct o; cbn [exec_simple] in H; try (inversion H; subst; reflexivity).
  - unfold uv_accept in H. destruct (s_acc s =? -1); [inversion H; subst; reflexivity|].
    destruct c; inversion H; subst; try reflexivity;
      (destruct (s_q s) as [a|]; [destruct (q_pop a)|]; reflexivity).
  - destruct (s_closing s); inversion H; subst; reflexivity.
Qed.

Lemma exec_cb_ipc kind os : forall s s' e, exec_cb kind s os = (s', e) -> s_ipc s' = s_ipc s.
Proof.
  induction os as [|o r IH]; intros s s' e H; cbn [exec_cb] in H.
  - inversion H; subst; reflexivity.
  - destruct (exec_simple kind s o) as [s1 e1] eqn:E1.
    destruct (exec_cb kind s1 r) as [s2 e2] eqn:E2. inversion H; subst.
    rewrite (IH _ _ _ E2). eapply exec_simple_ipc; eauto.
Qed.

Lemma exec_cb_A4 kind os : forall s s' e, A4 s -> exec_cb kind s os = (s', e) -> A4 s'.
Proof.
  induction os as [|o r IH]; intros s s' e A H; cbn [exec_cb] in H.
  - inversion H; subst; exact A.
  - destruct (exec_simple kind s o) as [s1 e1] eqn:E1.
    destruct (exec_cb kind s1 r) as [s2 e2] eqn:E2. inversion H; subst.
    eapply IH; [|exact E2]. eapply exec_simple_A4; eauto.
Qed.

Lemma server_io_flow kind x beh x' e :
  Xinv x -> s_ipc (sv x) = false -> s_pollin (sv x) = true ->
  server_io kind x beh = (x', e) -> XFlow x e x'.
Proof.
  intros [I A O] Hi Hp H. unfold server_io in H.
  destruct (accept_retry (acc_o x)) as [a r] eqn:Ea.
  destruct (accept_retry_ok _ _ _ O Ea) as (Oa & Or).
  assert (Hacc : s_acc (sv x) = -1) by (apply A; assumption).
  assert (Same : forall em r', Forall acc_ok r' ->
            XFlow x [] (mkSt (sv x) em r' (alloc_o x) (open_o x) (cbn x))).
  { intros em r' Fr. split; [constructor; assumption|]. split; [cbn; apply app_nil_r|reflexivity]. }
  destruct a; try (inversion H; subst; apply Same; assumption).
  - (* a connection *)
    cbn in Oa.
    destruct (exec_cb kind (set_acc (sv x) f) (beh (cbn x))) as [s2 e2] eqn:Ec.
    inversion H; subst; clear H.
    assert (I1 : Sinv (set_acc (sv x) f)).
    { destruct I as (A3 & Q & NN). rewrite (A3 Hacc) in *.
      unfold Sinv, set_acc, held; cbn [s_acc s_q]. rewrite (A3 Hacc).
      split; [reflexivity|]. split; [exact Logic.I|].
      destruct (Z.eqb_spec f (-1)); [lia|]. repeat constructor. exact Oa. }
    pose proof (exec_cb_flow _ _ _ _ _ I1 Ec) as (I2 & F2).
    pose proof (exec_cb_ipc _ _ _ _ _ Ec) as Hipc. cbn [set_acc s_ipc] in Hipc.
    assert (Hh1 : held (set_acc (sv x) f) = [f]).
    { rewrite held_cons by (cbn; lia). cbn [set_acc s_acc s_q].
      destruct I as (A3 & _). rewrite (A3 Hacc). reflexivity. }
    rewrite Hh1 in F2.
    assert (Hfin : forall s3, held s3 = held s2 -> Sinv s3 -> A4 s3 -> s_ipc s3 = s_ipc s2 ->
       XFlow x (EKeep f :: ECb :: e2) (mkSt s3 (emf x) r (alloc_o x) (open_o x) (S (cbn x)))).
    { intros s3 Hh I3 A3' Hi3. split; [constructor; assumption|]. cbn [sv]. split.
      - rewrite (held_acc_none _ Hacc I). cbn [app]. rewrite Hh.
        change (arrivals (EKeep f :: ECb :: e2)) with (f :: arrivals e2).
        change (departs (EKeep f :: ECb :: e2)) with (departs e2). exact F2.
      - rewrite Hi3, Hipc. reflexivity. }
    destruct (Z.eqb_spec (s_acc s2) (-1)) as [E2|E2].
    + apply Hfin; try reflexivity; try assumption. unfold A4. intros; assumption.
    + apply Hfin.
      * unfold held, set_pollin; reflexivity.
      * exact I2.
      * unfold A4, set_pollin; cbn. discriminate.
      * reflexivity.
  - (* EMFILE *)
    destruct (emf x).
    + pose proof (shed_spec r Or) as Hs. destruct (shed r) as [[es c] r'].
      destruct Hs as (As & Ds & Rs).
      destruct (next_bool (open_o x)) as [ok op']. inversion H; subst; clear H.
      split; [constructor; assumption|]. cbn [sv]. rewrite As, Ds. cbn. split; [apply app_nil_r|reflexivity].
    + inversion H; subst. apply Same; assumption.
  - (* ENFILE *)
    destruct (emf x).
    + pose proof (shed_spec r Or) as Hs. destruct (shed r) as [[es c] r'].
      destruct Hs as (As & Ds & Rs).
      destruct (next_bool (open_o x)) as [ok op']. inversion H; subst; clear H.
      split; [constructor; assumption|]. cbn [sv]. rewrite As, Ds. cbn. split; [apply app_nil_r|reflexivity].
    + inversion H; subst. apply Same; assumption.
Qed.

(* uv__stream_recv_cmsg: the kept descriptors are appended in message order *)
Lemma recv_cmsg_flow fds : forall s err al s' c al' e,
  Sinv s -> Forall (fun f => 0 <= f) fds -> recv_cmsg s fds err al = (s', c, al', e) ->
  Sinv s' /\ held s ++ arrivals e = held s' /\ departs e = [] /\
  s_ipc s' = s_ipc s /\ s_pollin s' = s_pollin s /\ s_closing s' = s_closing s.
Proof.
  induction fds as [|fd r IH]; intros s err al s' c al' e I F H; cbn [recv_cmsg] in H.
  - inversion H; subst. cbn. rewrite app_nil_r. split; [exact I|]. repeat split; auto.
  - inversion F as [|? ? Ffd Fr]; subst.
    destruct (Z.eqb_spec err 0) as [E0|E0].
    + destruct (Z.eqb_spec (s_acc s) (-1)) as [Ea|Ea].
      * destruct (recv_cmsg (set_acc s fd) r 0 al) as [[[s1 c1] al1] e1] eqn:Er.
        inversion H; subst; clear H.
        assert (I1 : Sinv (set_acc s fd)).
        { destruct I as (A3 & Q & NN). unfold Sinv, set_acc, held; cbn [s_acc s_q].
          rewrite (A3 Ea). split; [reflexivity|]. split; [exact Logic.I|].
          destruct (Z.eqb_spec fd (-1)); [lia|]. repeat constructor. exact Ffd. }
        destruct (IH _ _ _ _ _ _ _ I1 Fr Er) as (I' & Hh & Hd & Hi & Hp & Hc).
        split; [exact I'|]. split; [|split; [exact Hd|auto]].
        rewrite (held_acc_none s Ea I). rewrite <- Hh.
        rewrite held_cons by (cbn; lia). cbn [set_acc s_acc s_q].
        destruct I as (A3 & _). rewrite (A3 Ea). reflexivity.
      * destruct (queue_fd (s_q s) fd al) as [[q' cq] al1] eqn:Eq.
        destruct (recv_cmsg (set_q s q') r cq al1) as [[[s1 c1] al2] e1] eqn:Er.
        inversion H; subst; clear H.
        destruct I as (A3 & Q & NN).
        destruct (queue_fd_spec _ _ _ _ _ _ Q Eq) as [(Hc0 & Q' & Hne & Hq')|(Hc0 & Hq')]; subst cq.
        -- assert (I1 : Sinv (set_q s q')).
           { unfold Sinv. cbn [set_q s_acc s_q]. split; [intros; contradiction|]. split; [exact Q'|].
             rewrite held_cons by (cbn; exact Ea). cbn [set_q s_acc s_q]. rewrite Hq'.
             rewrite held_cons in NN by exact Ea.
             rewrite app_comm_cons. apply Forall_app. split; [exact NN|repeat constructor; exact Ffd]. }
           destruct (IH _ _ _ _ _ _ _ I1 Fr Er) as (I' & Hh & Hd & Hi & Hp & Hc).
           split; [exact I'|]. split; [|split; [exact Hd|auto]].
           cbn [Z.eqb]. change (arrivals (EKeep fd :: e1)) with (fd :: arrivals e1).
           rewrite <- Hh. rewrite (held_cons (set_q s q')) by (cbn; exact Ea).
           rewrite (held_cons s) by exact Ea. cbn [set_q s_acc s_q]. rewrite Hq'.
           cbn. rewrite <- app_assoc. reflexivity.
        -- subst q'.
           assert (I1 : Sinv (set_q s (s_q s))) by (destruct s; exact (conj A3 (conj Q NN))).
           destruct (IH _ _ _ _ _ _ _ I1 Fr Er) as (I' & Hh & Hd & Hi & Hp & Hc).
           split; [exact I'|]. split; [|split; [exact Hd|auto]].
           change (UV_ENOMEM =? 0) with false. cbn iota.
           change (arrivals (EShed fd :: e1)) with (arrivals e1).
           rewrite <- Hh. destruct s; reflexivity.
    + destruct (recv_cmsg s r err al) as [[[s1 c1] al1] e1] eqn:Er.
      inversion H; subst; clear H.
      destruct (IH _ _ _ _ _ _ _ I Fr Er) as (I' & Hh & Hd & Hi & Hp & Hc).
      split; [exact I'|]. split; [exact Hh|]. split; [exact Hd|auto].
Qed.

Lemma A4_ipc s : s_ipc s = true -> A4 s.
Proof. intros H. unfold A4. rewrite H. discriminate. Qed.

Lemma recv_msgs_flow kind beh msgs : forall x x' e,
  Xinv x -> s_ipc (sv x) = true -> Forall (Forall (fun f => 0 <= f)) msgs ->
  recv_msgs kind x msgs beh = (x', e) -> XFlow x e x'.
Proof.
  induction msgs as [|m r IH]; intros x x' e X Hi F H; cbn [recv_msgs] in H.
  - inversion H; subst. split; [exact X|]. split; [cbn; apply app_nil_r|reflexivity].
  - inversion F as [|? ? Fm Fr]; subst.
    destruct (s_pollin (sv x) && negb (s_closing (sv x))).
    + destruct (recv_cmsg (sv x) m 0 (alloc_o x)) as [[[s1 c] al'] e1] eqn:E1.
      destruct (exec_cb kind s1 (beh (cbn x))) as [s2 e2] eqn:E2.
      destruct (recv_msgs kind (mkSt s2 (emf x) (acc_o x) al' (open_o x) (S (cbn x))) r beh)
        as [x2 e3] eqn:E3.
      inversion H; subst; clear H. destruct X as [I A O].
      destruct (recv_cmsg_flow _ _ _ _ _ _ _ _ I Fm E1) as (I1 & H1 & D1 & Hi1 & _ & _).
      pose proof (exec_cb_flow _ _ _ _ _ I1 E2) as (I2 & F2).
      pose proof (exec_cb_ipc _ _ _ _ _ E2) as Hi2.
      assert (X2 : Xinv (mkSt s2 (emf x) (acc_o x) al' (open_o x) (S (cbn x)))).
      { constructor; cbn [sv acc_o]; [exact I2| apply A4_ipc; congruence |exact O]. }
      destruct (IH _ _ _ X2 ltac:(cbn; congruence) Fr E3) as (X3 & F3 & Hi3).
      split; [exact X3|]. cbn [sv] in F3, Hi3. split; [|congruence].
      rewrite !arrivals_app, !departs_app.
      change (arrivals (ERead (if c =? 0 then 1 else c) :: e2 ++ e3)) with (arrivals (e2 ++ e3)).
      change (departs (ERead (if c =? 0 then 1 else c) :: e2 ++ e3)) with (departs (e2 ++ e3)).
      rewrite arrivals_app, departs_app, D1. cbn [app].
      rewrite app_assoc, H1, app_assoc, F2, <- app_assoc, F3, app_assoc. reflexivity.
    + apply IH; assumption.
Qed.

Lemma step_flow kind beh x o x' e :
  Xinv x -> op_ok o -> step kind x o beh = (x', e) -> XFlow x e x'.
Proof.
  intros X Ho H.
  assert (Same : XFlow x [] x).
  { split; [exact X|]. split; [cbn; apply app_nil_r|reflexivity]. }
  assert (Simple : forall o', (let (s', e0) := exec_simple kind (sv x) o' in
            (mkSt s' (emf x) (acc_o x) (alloc_o x) (open_o x) (cbn x), e0)) = (x', e) -> XFlow x e x').
  { intros o' H'. destruct (exec_simple kind (sv x) o') as [s' e0] eqn:E. inversion H'; subst; clear H'.
    destruct X as [I A O]. pose proof (exec_simple_flow _ _ _ _ _ I E) as (I' & F').
    split; [constructor; cbn [sv acc_o]; [exact I'|eapply exec_simple_A4; eauto|exact O]|].
    split; [exact F'|]. cbn [sv]. eapply exec_simple_ipc; eauto. }
  destruct o; cbn [step] in H;
    try match type of H with (let (_, _) := exec_simple _ _ ?o' in _) = _ => exact (Simple o' H) end.
  - destruct (s_ipc (sv x)) eqn:Hi; cbn [negb andb] in H; [inversion H; subst; exact Same|].
    destruct (s_pollin (sv x)) eqn:Hp; cbn [andb] in H; [|inversion H; subst; exact Same].
    destruct (negb (s_closing (sv x)) && readable); [|inversion H; subst; exact Same].
    eapply server_io_flow; eauto.
  - destruct (s_ipc (sv x)) eqn:Hi; [|inversion H; subst; exact Same].
    eapply recv_msgs_flow; eauto.
Qed.

Lemma run_flow kind beh os : forall x x' e,
  Xinv x -> Forall op_ok os -> run kind x os beh = (x', e) -> XFlow x e x'.
Proof.
  induction os as [|o r IH]; intros x x' e X F H; cbn [run] in H.
  - inversion H; subst. split; [exact X|]. split; [cbn; apply app_nil_r|reflexivity].
  - inversion F as [|? ? Fo Fr]; subst.
    destruct (step kind x o beh) as [x1 e1] eqn:E1.
    destruct (run kind x1 r beh) as [x2 e2] eqn:E2. inversion H; subst; clear H.
    destruct (step_flow _ _ _ _ _ _ X Fo E1) as (X1 & F1 & Hi1).
    destruct (IH _ _ _ X1 Fr E2) as (X2 & F2 & Hi2).
    split; [exact X2|]. split; [|congruence].
    rewrite arrivals_app, departs_app, app_assoc, F1, <- app_assoc, F2, app_assoc. reflexivity.
Qed.

Lemma init_inv rx ipc ao al oo : Forall acc_ok ao -> Xinv (init_v rx ipc ao al oo).
Proof.
  intros F. constructor; cbn; [|unfold A4; cbn; intros; reflexivity|exact F].
  unfold Sinv, held; cbn. repeat split; constructor.
Qed.

(* FIFO: the descriptors libuv stored, in arrival order, are those that left
   its hands (claimed, released by a failing uv_accept, closed by uv_close), in
   that order, followed by those it still holds. *)
Theorem fifo rx kind ipc ao al oo os beh :
  Forall acc_ok ao -> Forall op_ok os ->
  let '(x, tr) := run kind (init_v rx ipc ao al oo) os beh in
  Xinv x /\ arrivals tr = departs tr ++ held (sv x).
Proof.
  intros Fa Fo. destruct (run kind (init_v rx ipc ao al oo) os beh) as [x tr] eqn:E.
  destruct (run_flow _ _ _ _ _ _ (init_inv rx ipc ao al oo Fa) Fo E) as (X & F & _).
  split; [exact X|]. cbn in F. exact F.
Qed.

(* ------------------------------------------------------------------ *)
(* conservation as multisets *)
Definition handed (tr : list ev) : list Z :=
  flat_map (fun e => match e with EKeep f | EShed f => [f] | _ => [] end) tr.
Definition claimed (tr : list ev) : list Z :=
  flat_map (fun e => match e with EClaim f => [f] | _ => [] end) tr.
Definition closed (tr : list ev) : list Z :=
  flat_map (fun e => match e with EShed f | EDrop f | EShutC f => [f] | _ => [] end) tr.
Definition sheds (tr : list ev) : list Z :=
  flat_map (fun e => match e with EShed f => [f] | _ => [] end) tr.

Lemma handed_split tr : Permutation (handed tr) (arrivals tr ++ sheds tr).
Proof.
  induction tr as [|e r IH]; [constructor|].
  destruct e; cbn; try exact IH.
  - constructor. exact IH.
  - apply Permutation_cons_app. exact IH.
Qed.

Lemma departs_split tr : Permutation (departs tr ++ sheds tr) (claimed tr ++ closed tr).
Proof.
  induction tr as [|e r IH]; [constructor|].
  destruct e; cbn; try exact IH.
  - (* EShed *) eapply Permutation_trans; [apply Permutation_sym, Permutation_middle|].
    eapply Permutation_trans; [|apply Permutation_middle]. constructor. exact IH.
  - (* EClaim *) constructor. exact IH.
  - (* EDrop *) eapply Permutation_trans; [|apply Permutation_middle]. constructor. exact IH.
  - (* EShutC *) eapply Permutation_trans; [|apply Permutation_middle]. constructor. exact IH.
Qed.

Theorem conservation rx kind ipc ao al oo os beh :
  Forall acc_ok ao -> Forall op_ok os ->
  let '(x, tr) := run kind (init_v rx ipc ao al oo) os beh in
  Permutation (handed tr) (claimed tr ++ held (sv x) ++ closed tr) /\
  (NoDup (handed tr) -> NoDup (claimed tr ++ held (sv x) ++ closed tr)).
Proof.
  intros Fa Fo. pose proof (fifo rx kind ipc ao al oo os beh Fa Fo) as H.
  destruct (run kind (init_v rx ipc ao al oo) os beh) as [x tr]. destruct H as (_ & H).
  assert (P : Permutation (handed tr) (claimed tr ++ held (sv x) ++ closed tr)).
  { eapply Permutation_trans; [apply handed_split|]. rewrite H.
    eapply Permutation_trans with ((departs tr ++ sheds tr) ++ held (sv x)).
    - rewrite <- !app_assoc. apply Permutation_app_head. apply Permutation_app_comm.
    - eapply Permutation_trans; [apply Permutation_app_tail, departs_split|].
      rewrite <- app_assoc. apply Permutation_app_head. apply Permutation_app_comm. }
  split; [exact P|]. intros N. eapply Permutation_NoDup; eauto.
Qed.

(* ------------------------------------------------------------------ *)
(* UV_EAGAIN iff nothing is pending *)
Lemma accept_eagain s c :
  Sinv s -> (In (ERet UV_EAGAIN) (snd (uv_accept s c)) <-> held s = []).
Proof.
  intros I. unfold uv_accept.
  destruct (Z.eqb_spec (s_acc s) (-1)) as [E|E].
  - rewrite (held_acc_none s E I). cbn. split; auto.
  - rewrite held_cons by exact E. split; [|discriminate].
    destruct c; cbn; intros H; repeat (destruct H as [H|H]; try discriminate H); contradiction.
Qed.

(* uv_pipe_pending_count is the number of descriptors held *)
Lemma pending_count_held s :
  Sinv s -> s_ipc s = true -> pending_count s = Z.of_nat (length (held s)).
Proof.
  intros I Hi. unfold pending_count. rewrite Hi. cbn [negb].
  destruct (Z.eqb_spec (s_acc s) (-1)) as [E|E].
  - rewrite (held_acc_none s E I). reflexivity.
  - rewrite held_cons by exact E. destruct I as (_ & Q & _).
    destruct (s_q s) as [a|]; cbn [oqheld length]; [|reflexivity].
    destruct Q as (Ho & Hl & _). unfold qheld. rewrite firstn_length_le by lia. lia.
Qed.

(* the head of what is held is what uv_accept hands out next and what
   uv_pipe_pending_type describes *)
Lemma pending_type_head kind s :
  Sinv s -> s_ipc s = true ->
  pending_type kind s = match held s with [] => 0 | f :: _ => kind f end.
Proof.
  intros I Hi. unfold pending_type. rewrite Hi. cbn [negb].
  destruct (Z.eqb_spec (s_acc s) (-1)) as [E|E].
  - rewrite (held_acc_none s E I). reflexivity.
  - rewrite held_cons by exact E. reflexivity.
Qed.

(* ------------------------------------------------------------------ *)
(* exactly one connection_cb per kept connection, right after it was accepted *)
Fixpoint cb_ok (tr : list ev) : bool :=
  match tr with
  | [] => true
  | EKeep _ :: ECb :: r => cb_ok r
  | EKeep _ :: _ => false
  | ECb :: _ => false
  | _ :: r => cb_ok r
  end.

Definition quiet (e : list ev) : Prop :=
  Forall (fun v => match v with EKeep _ | ECb => False | _ => True end) e.

Lemma cb_ok_quiet_app e : quiet e -> forall b, cb_ok (e ++ b) = cb_ok b.
Proof.
  induction 1 as [|v e Hv _ IH]; intros b; [reflexivity|].
  destruct v; try contradiction; cbn [app cb_ok]; apply IH.
Qed.

Lemma quiet_app a b : quiet a -> quiet b -> quiet (a ++ b).
Proof. intros; apply Forall_app; split; assumption. Qed.

Lemma uv_accept_quiet s c : quiet (snd (uv_accept s c)).
Proof.
  unfold uv_accept. destruct (s_acc s =? -1); [repeat constructor|].
  destruct c; repeat constructor.
Qed.

Lemma exec_simple_quiet kind s o : quiet (snd (exec_simple kind s o)).
Proof.
  destruct o; cbn [exec_simple]; try (repeat constructor).
  - apply uv_accept_quiet.
  - destruct (s_closing s); [constructor|]. unfold stream_close; cbn [snd]. apply quiet_app.
    + destruct (s_acc s =? -1); repeat constructor.
    + destruct (s_q s); [|constructor]. apply Forall_forall. intros v Hv.
      apply in_map_iff in Hv. destruct Hv as (f & <- & _). exact I.
Qed.

Lemma exec_cb_quiet kind os : forall s, quiet (snd (exec_cb kind s os)).
Proof.
  induction os as [|o r IH]; intros s; cbn [exec_cb]; [constructor|].
  pose proof (exec_simple_quiet kind s o) as Q1.
  destruct (exec_simple kind s o) as [s1 e1]. specialize (IH s1).
  destruct (exec_cb kind s1 r) as [s2 e2]. cbn [snd] in *. apply quiet_app; assumption.
Qed.

Lemma shed_quiet o : quiet (fst (fst (shed o))).
Proof.
  induction o as [|a o IH]; cbn; [constructor|].
  destruct a; try constructor; try exact IH.
  destruct (shed o) as [[e c] r]. cbn in *. constructor; [exact I|exact IH].
Qed.

Lemma server_io_cb_ok kind x beh b :
  cb_ok (snd (server_io kind x beh) ++ b) = cb_ok b.
Proof.
  unfold server_io. destruct (accept_retry (acc_o x)) as [a r].
  destruct a; try reflexivity.
  - pose proof (exec_cb_quiet kind (beh (cbn x)) (set_acc (sv x) f)) as Q.
    destruct (exec_cb kind (set_acc (sv x) f) (beh (cbn x))) as [s2 e2]. cbn [snd] in *.
    cbn [app cb_ok]. apply cb_ok_quiet_app, Q.
  - destruct (emf x); [|reflexivity]. pose proof (shed_quiet r) as Q.
    destruct (shed r) as [[e c] r']. destruct (next_bool (open_o x)). cbn [snd fst] in *.
    apply cb_ok_quiet_app, Q.
  - destruct (emf x); [|reflexivity]. pose proof (shed_quiet r) as Q.
    destruct (shed r) as [[e c] r']. destruct (next_bool (open_o x)). cbn [snd fst] in *.
    apply cb_ok_quiet_app, Q.
Qed.

Lemma step_cb_ok kind x o beh b :
  s_ipc (sv x) = false -> cb_ok (snd (step kind x o beh) ++ b) = cb_ok b.
Proof.
  intros Hi.
  assert (Simple : forall o', cb_ok (snd (let (s', e0) := exec_simple kind (sv x) o' in
      (mkSt s' (emf x) (acc_o x) (alloc_o x) (open_o x) (cbn x), e0)) ++ b) = cb_ok b).
  { intros o'. pose proof (exec_simple_quiet kind (sv x) o') as Q.
    destruct (exec_simple kind (sv x) o'). cbn [snd] in *. apply cb_ok_quiet_app, Q. }
  destruct o; cbn [step]; try apply Simple.
  - destruct (negb (s_ipc (sv x)) && s_pollin (sv x) && negb (s_closing (sv x)) && readable);
      [apply server_io_cb_ok|reflexivity].
  - rewrite Hi. reflexivity.
Qed.

Lemma step_ipc kind x o beh : Xinv x -> op_ok o -> s_ipc (sv (fst (step kind x o beh))) = s_ipc (sv x).
Proof.
  intros X Ho. destruct (step kind x o beh) as [x' e] eqn:E.
  destruct (step_flow _ _ _ _ _ _ X Ho E) as (_ & _ & H). exact H.
Qed.

Theorem cb_per_connection rx kind ao al oo os beh :
  Forall acc_ok ao -> Forall op_ok os ->
  cb_ok (snd (run kind (init_v rx false ao al oo) os beh)) = true.
Proof.
  intros Fa Fo.
  assert (G : forall os x, Xinv x -> Forall op_ok os -> s_ipc (sv x) = false ->
             cb_ok (snd (run kind x os beh)) = true).
  { clear. induction os as [|o r IH]; intros x X F Hi; cbn [run]; [reflexivity|].
    inversion F as [|? ? Fo Fr]; subst.
    pose proof (step_cb_ok kind x o beh) as Hs. pose proof (step_ipc kind x o beh X Fo) as Hi1.
    destruct (step kind x o beh) as [x1 e1] eqn:E1.
    destruct (step_flow _ _ _ _ _ _ X Fo E1) as (X1 & _ & _).
    specialize (IH x1 X1 Fr). cbn [fst snd] in *.
    destruct (run kind x1 r beh) as [x2 e2]. cbn [snd] in *.
    rewrite Hs by exact Hi. apply IH. congruence. }
  apply G; [apply init_inv; exact Fa|exact Fo|reflexivity].
Qed.

(* ------------------------------------------------------------------ *)
(* A4, the other direction (POLLIN is re-armed when nothing is held).  In the current code
   it holds as long as no uv_accept fails: a failing uv_accept (client handle busy) leaves the
   server without POLLIN and without a pending connection (DESIGN section 3, 24).  In the
   variant [s_rearm = true] (notes/C07_fix_accept_rearm.diff) it holds for every script. *)
Definition B4 (s : stream) : Prop := s_closing s = false -> s_acc s = -1 -> s_pollin s = true.

Definition no_busy_op (o : op) : bool := match o with OAccept ClBusy => false | _ => true end.
Definition no_busy (os : list op) : bool := forallb no_busy_op os.
(* [fx]: the stream is the repaired variant; then every operation is fine *)
Definition okop (fx : bool) (o : op) : bool := fx || no_busy_op o.
Definition okops (fx : bool) (os : list op) : bool := forallb (okop fx) os.

Lemma exec_simple_rearm kind s o s' e : exec_simple kind s o = (s', e) -> s_rearm s' = s_rearm s.
Proof.
  intros H. destruct o; cbn [exec_simple] in H; try (inversion H; subst; reflexivity).
  - unfold uv_accept in H. destruct (s_acc s =? -1); [inversion H; subst; reflexivity|].
    destruct c; inversion H; subst; try reflexivity;
      (destruct (s_q s) as [a|]; [destruct (q_pop a)|]; reflexivity).
  - destruct (s_closing s); inversion H; subst; reflexivity.
Qed.

Lemma exec_cb_rearm kind os : forall s s' e, exec_cb kind s os = (s', e) -> s_rearm s' = s_rearm s.
Proof.
  induction os as [|o r IH]; intros s s' e H; cbn [exec_cb] in H.
  - inversion H; subst; reflexivity.
  - destruct (exec_simple kind s o) as [s1 e1] eqn:E1.
    destruct (exec_cb kind s1 r) as [s2 e2] eqn:E2. inversion H; subst.
    rewrite (IH _ _ _ E2). eapply exec_simple_rearm; eauto.
Qed.

Lemma exec_simple_B4 kind s o s' e :
  Sinv s -> okop (s_rearm s) o = true -> B4 s -> exec_simple kind s o = (s', e) -> B4 s'.
Proof.
  intros I Hn B H. destruct o; cbn [exec_simple] in H; try (inversion H; subst; exact B).
  - unfold uv_accept in H. destruct (Z.eqb_spec (s_acc s) (-1)) as [E|E]; [inversion H; subst; exact B|].
    destruct I as (A3 & Q & NN). rewrite held_cons in NN by exact E.
    assert (Pop : forall a fd q', s_q s = Some a -> q_pop a = (fd, q') -> 0 <= fd).
    { intros a fd q' Ea Ep. rewrite Ea in Q, NN. destruct (q_pop_spec a fd q' Q Ep) as (P1 & _).
      cbn [oqheld] in NN. rewrite <- P1 in NN. inversion NN as [|? ? _ T]; inversion T; assumption. }
    destruct c; inversion H; subst; clear H; try exact B;
      (destruct (s_q s) as [a|] eqn:Ea;
       [destruct (q_pop a) as [fd q'] eqn:Ep; pose proof (Pop a fd q' eq_refl Ep);
        unfold B4; cbn; intros; lia|]).
    + unfold B4; cbn. intros; reflexivity.
    + (* busy client: only the repaired variant gets here *)
      unfold okop in Hn. cbn in Hn. rewrite orb_false_r in Hn. unfold B4; cbn. rewrite Hn.
      intros; reflexivity.
  - destruct (s_closing s); inversion H; subst; [exact B|]. unfold B4; cbn. discriminate.
Qed.

Lemma exec_cb_B4 kind os : forall s s' e,
  Sinv s -> okops (s_rearm s) os = true -> B4 s -> exec_cb kind s os = (s', e) -> B4 s'.
Proof.
  induction os as [|o r IH]; intros s s' e I Hn B H; cbn [exec_cb] in H.
  - inversion H; subst; exact B.
  - cbn in Hn. apply andb_prop in Hn. destruct Hn as (Hn1 & Hn2).
    destruct (exec_simple kind s o) as [s1 e1] eqn:E1.
    destruct (exec_cb kind s1 r) as [s2 e2] eqn:E2. inversion H; subst; clear H.
    eapply IH; [| | | exact E2].
    + eapply exec_simple_flow; eauto.
    + rewrite (exec_simple_rearm _ _ _ _ _ E1). exact Hn2.
    + eapply exec_simple_B4; eauto.
Qed.

Lemma step_B4 kind beh x o x' e :
  Xinv x -> op_ok o -> s_ipc (sv x) = false -> okop (s_rearm (sv x)) o = true ->
  (forall k, okops (s_rearm (sv x)) (beh k) = true) -> B4 (sv x) -> step kind x o beh = (x', e) ->
  B4 (sv x') /\ s_rearm (sv x') = s_rearm (sv x).
Proof.
  intros X Ho Hi Hn Hb B H. destruct X as [I A O].
  assert (Simple : forall o', okop (s_rearm (sv x)) o' = true ->
     (let (s', e0) := exec_simple kind (sv x) o' in
      (mkSt s' (emf x) (acc_o x) (alloc_o x) (open_o x) (cbn x), e0)) = (x', e) ->
     B4 (sv x') /\ s_rearm (sv x') = s_rearm (sv x)).
  { intros o' Hn' H'. destruct (exec_simple kind (sv x) o') as [s1 e1] eqn:E1.
    inversion H'; subst. cbn [sv]. split; [eapply exec_simple_B4; eauto|eapply exec_simple_rearm; eauto]. }
  destruct o; cbn [step] in H;
    try match type of H with (let (_, _) := exec_simple _ _ ?o' in _) = _ => exact (Simple o' Hn H) end.
  - destruct (negb (s_ipc (sv x)) && s_pollin (sv x) && negb (s_closing (sv x)) && readable) eqn:G;
      [|inversion H; subst; auto].
    unfold server_io in H. destruct (accept_retry (acc_o x)) as [a r] eqn:Ea.
    destruct (accept_retry_ok _ _ _ O Ea) as (Oa & _).
    destruct a; try (inversion H; subst; auto).
    + cbn in Oa.
      destruct (exec_cb kind (set_acc (sv x) f) (beh (cbn x))) as [s2 e2] eqn:Ec.
      inversion H; subst; clear H. cbn [sv].
      assert (Hacc : s_acc (sv x) = -1).
      { apply A; [exact Hi|]. destruct (s_pollin (sv x)); [reflexivity|].
        rewrite Hi in G. cbn in G. discriminate. }
      assert (I1 : Sinv (set_acc (sv x) f)).
      { destruct I as (A3 & Q & NN). unfold Sinv, set_acc, held; cbn [s_acc s_q].
        rewrite (A3 Hacc). split; [reflexivity|]. split; [exact Logic.I|].
        destruct (Z.eqb_spec f (-1)); [lia|]. repeat constructor. exact Oa. }
      assert (B1 : B4 (set_acc (sv x) f)) by (unfold B4, set_acc; cbn; intros; lia).
      pose proof (exec_cb_B4 _ _ _ _ _ I1 (Hb _) B1 Ec) as B2.
      pose proof (exec_cb_rearm _ _ _ _ _ Ec) as R2. cbn [set_acc s_rearm] in R2.
      destruct (Z.eqb_spec (s_acc s2) (-1)); [split; [exact B2|exact R2]|].
      split; [unfold B4, set_pollin; cbn; intros; contradiction|exact R2].
    + destruct (emf x); [|inversion H; subst; auto].
      destruct (shed r) as [[es c] r']. destruct (next_bool (open_o x)). inversion H; subst; auto.
    + destruct (emf x); [|inversion H; subst; auto].
      destruct (shed r) as [[es c] r']. destruct (next_bool (open_o x)). inversion H; subst; auto.
  - rewrite Hi in H. inversion H; subst; auto.
Qed.

(* A4 in both directions, in every reachable state of a server: for the repaired variant
   (rx = true) without condition, for the current code (rx = false) as long as no uv_accept
   is given a busy client handle *)
Theorem rearm_gen rx kind ao al oo os beh :
  Forall acc_ok ao -> Forall op_ok os -> okops rx os = true -> (forall k, okops rx (beh k) = true) ->
  let s := sv (fst (run kind (init_v rx false ao al oo) os beh)) in
  s_closing s = false -> (s_pollin s = true <-> s_acc s = -1).
Proof.
  intros Fa Fo Hn Hb.
  assert (G : forall os x, Xinv x -> Forall op_ok os -> s_ipc (sv x) = false -> s_rearm (sv x) = rx ->
     okops rx os = true -> B4 (sv x) ->
     let x' := fst (run kind x os beh) in Xinv x' /\ B4 (sv x') /\ s_ipc (sv x') = false).
  { clear os Fo Hn. induction os as [|o r IH]; intros x X F Hi Hr Hn B; cbn [run].
    - cbn. auto.
    - pose proof (Forall_inv F) as Fo. pose proof (Forall_inv_tail F) as Fr.
      cbn in Hn. apply andb_prop in Hn. destruct Hn as (Hn1 & Hn2).
      destruct (step kind x o beh) as [x1 e1] eqn:E1.
      destruct (step_flow _ _ _ _ _ _ X Fo E1) as (X1 & _ & Hi1).
      assert (Hn1' : okop (s_rearm (sv x)) o = true) by (rewrite Hr; exact Hn1).
      assert (Hb' : forall k, okops (s_rearm (sv x)) (beh k) = true) by (intros k; rewrite Hr; apply Hb).
      destruct (step_B4 _ _ _ _ _ _ X Fo Hi Hn1' Hb' B E1) as (B1 & R1).
      assert (Hi1' : s_ipc (sv x1) = false) by congruence.
      assert (Hr1 : s_rearm (sv x1) = rx) by congruence.
      specialize (IH x1 X1 Fr Hi1' Hr1 Hn2 B1).
      destruct (run kind x1 r beh) as [x2 e2]. cbn [fst] in *. exact IH. }
  destruct (G os (init_v rx false ao al oo) (init_inv _ _ _ _ _ Fa) Fo eq_refl eq_refl Hn) as (X & B & Hi).
  { unfold B4; cbn. intros; reflexivity. }
  cbv zeta. intros Hc. split.
  - intros Hp. apply (xi_a _ X); assumption.
  - intros Ha. apply B; assumption.
Qed.

Lemma okops_true os : okops true os = true.
Proof. induction os; cbn; auto. Qed.
Lemma okops_false os : okops false os = no_busy os.
Proof. reflexivity. Qed.

Theorem rearm_fixed kind ao al oo os beh :
  Forall acc_ok ao -> Forall op_ok os ->
  let s := sv (fst (run kind (init_v true false ao al oo) os beh)) in
  s_closing s = false -> (s_pollin s = true <-> s_acc s = -1).
Proof.
  intros Fa Fo. apply rearm_gen; auto using okops_true.
Qed.

Theorem rearm_partial kind ao al oo os beh :
  Forall acc_ok ao -> Forall op_ok os -> no_busy os = true -> (forall k, no_busy (beh k) = true) ->
  let s := sv (fst (run kind (init_v false false ao al oo) os beh)) in
  s_closing s = false -> (s_pollin s = true <-> s_acc s = -1).
Proof.
  intros Fa Fo Hn Hb. apply rearm_gen; auto.
Qed.

Lemma rearm_refuted :
  exists ao os beh,
    let s := sv (fst (run (fun _ => 0) (init_v false false ao [] []) os beh)) in
    s_closing s = false /\ s_acc s = -1 /\ s_pollin s = false.
Proof.
  exists [AFd 3], [ORun true; OAccept ClBusy], (fun _ => []). vm_compute. repeat split.
Qed.

(* ------------------------------------------------------------------ *)
(* combined statements used by Properties_C07.v *)
Lemma Qinv_meaning a :
  Qinv a <-> (0 < q_offset a <= q_size a)%nat /\ length (q_fds a) = q_size a /\ (q_size a mod 8 = 0)%nat.
Proof. reflexivity. Qed.

Theorem ipc_fifo rx kind ao al oo os beh :
  Forall acc_ok ao -> Forall op_ok os ->
  let '(x, tr) := run kind (init_v rx true ao al oo) os beh in
  arrivals tr = departs tr ++ held (sv x) /\
  pending_count (sv x) = Z.of_nat (length (held (sv x))) /\
  pending_type kind (sv x) = match held (sv x) with [] => 0 | f :: _ => kind f end /\
  (s_acc (sv x) = -1 -> s_q (sv x) = None) /\
  (forall a, s_q (sv x) = Some a ->
     (0 < q_offset a <= q_size a)%nat /\ length (q_fds a) = q_size a /\ (q_size a mod 8 = 0)%nat).
Proof.
  intros Fa Fo. pose proof (fifo rx kind true ao al oo os beh Fa Fo) as H.
  destruct (run kind (init_v rx true ao al oo) os beh) as [x tr] eqn:E. destruct H as (X & H).
  destruct (run_flow _ _ _ _ _ _ (init_inv rx true ao al oo Fa) Fo E) as (_ & _ & Hi). cbn in Hi.
  destruct X as [I A O]. split; [exact H|]. split; [apply pending_count_held; assumption|].
  split; [apply pending_type_head; assumption|]. destruct I as (A3 & Q & _). split; [exact A3|].
  intros a Ha. rewrite Ha in Q. exact Q.
Qed.

Theorem eagain_iff_none rx kind ipc ao al oo os beh c :
  Forall acc_ok ao -> Forall op_ok os ->
  let s := sv (fst (run kind (init_v rx ipc ao al oo) os beh)) in
  In (ERet UV_EAGAIN) (snd (uv_accept s c)) <-> held s = [].
Proof.
  intros Fa Fo. pose proof (fifo rx kind ipc ao al oo os beh Fa Fo) as H.
  destruct (run kind (init_v rx ipc ao al oo) os beh) as [x tr]. destruct H as (X & _).
  cbn [fst]. apply accept_eagain, (xi_s _ X).
Qed.

(* how many connection callbacks: as many as connections kept *)
Definition n_cb (tr : list ev) : nat := length (filter (fun e => match e with ECb => true | _ => false end) tr).
Lemma cb_ok_count tr : cb_ok tr = true -> n_cb tr = length (arrivals tr).
Proof.
  assert (G : forall n tr, (length tr <= n)%nat -> cb_ok tr = true -> n_cb tr = length (arrivals tr)).
  { induction n as [|n IH]; intros t Hl Hc.
    - destruct t; [reflexivity|cbn in Hl; lia].
    - destruct t as [|e t]; [reflexivity|]. cbn in Hl.
      destruct e; cbn in Hc |- *; try (apply IH; [lia|exact Hc]); try discriminate.
      destruct t as [|e2 t]; [discriminate|]. destruct e2; try discriminate.
      cbn. f_equal. apply IH; [cbn in Hl; lia|exact Hc]. }
  intros H. apply (G (length tr)); [lia|exact H].
Qed.
