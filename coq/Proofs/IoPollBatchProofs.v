(* Proofs about Model/IoPollBatch.v (C14, re-poll after a full batch). *)
From UV Require Import Lib.Base Model.IoWatch Model.IoPollBatch Proofs.IoWatchProofs Proofs.IoWatchProofsN
  Proofs.IoWatchProofsK.
Local Open Scope Z_scope.

(* shape: the first call carries the given timeout and is made in the given state, every later
   one has timeout 0; at most [count] calls *)
Lemma repoll_shape : forall count cap fdo pw beh s t,
  let r := repoll count cap fdo pw beh s t in
  (length (b_calls r) <= count)%nat /\
  match b_calls r with
  | [] => count = O
  | c :: rest => pw_timeout c = t /\ pw_at c = s /\ pw_ncb c = ncb s /\
                 Forall (fun c' => pw_timeout c' = 0) rest
  end.
Proof.
  induction count as [|c IH]; intros cap fdo pw beh s t; cbn [repoll].
  - cbn. split; auto.
  - destruct (dispatch _ fdo beh _) as [s4 evs] eqn:Hd.
    destruct (Nat.eqb (ncb s4) _).
    + cbn. split; [lia|]. repeat split; auto; constructor.
    + destruct (_ && _ && _).
      * specialize (IH cap fdo pw beh (set_batch s4 []) 0). cbv zeta in IH. destruct IH as [L M].
        cbn [b_calls length]. split; [lia|]. repeat split; auto.
        destruct (b_calls (repoll c cap fdo pw beh (set_batch s4 []) 0)) as [|c1 rest]; [constructor|].
        destruct M as [M1 [_ [_ M2]]]. constructor; auto.
      * cbn. split; [lia|]. repeat split; auto; constructor.
Qed.


(* KI (the kernel/registry invariant of IoWatchProofsK.v) is preserved by the dispatch loop *)
Lemma KI_dispatch fdo beh fuel s s' evs :
  KI s -> dispatch fuel fdo beh s = (s', evs) -> KI s' /\ Forall EK evs.
Proof.
  apply (dispatch_gen KI EK fdo beh).
  - intros; apply KI_api; auto.
  - intros z n. apply KI_same; reflexivity.
  - intros z e rest K Hb.
    assert (K0 : KI (set_batch z rest)) by (apply KI_set_batch; auto).
    destruct (dispatch_target (set_batch z rest) e) as [|fd|i ev o2 r2] eqn:Ht; auto.
    + apply dispatch_target_del in Ht. apply (KI_del None); auto.
    + destruct e as [[fd orig] rep]. apply dispatch_target_call in Ht. destruct Ht as [_ [Hr _]].
      destruct (k_reg _ _ K0 _ _ Hr) as [Hl _]. split; [apply KI_cb_pre; auto|apply EK_cb_pre].
Qed.

Lemma KI_poll_fetch s ans : KI s -> KI (poll_fetch s ans).
Proof. intros K. unfold poll_fetch. eapply KI_same; [..|exact K]; reflexivity. Qed.

(* the invariant holds again when the polling loop is left, whatever the callbacks did, so the
   registration loop of the NEXT uv__io_poll re-establishes SYNC (KI_poll_prepare) *)
Lemma KI_repoll : forall count cap fdo pw beh s t,
  KI s -> KI (b_state (repoll count cap fdo pw beh s t)).
Proof.
  induction count as [|c IH]; intros cap fdo pw beh s t K; cbn [repoll]; auto.
  destruct (dispatch _ fdo beh _) as [s4 evs] eqn:Hd.
  destruct (KI_dispatch _ _ _ _ _ _ (KI_poll_fetch s (pw (npw s)) K) Hd) as [K4 _].
  assert (K5 : KI (set_batch s4 [])) by (apply KI_set_batch; auto).
  destruct (Nat.eqb (ncb s4) _); [exact K5|].
  destruct (_ && _ && _); [|exact K5]. cbn [b_state]. apply IH; auto.
Qed.

(* uv__io_poll as a whole: under the invariant the function does not abort, makes between 1 and
   48 epoll_pwait calls, the first in a state where kernel and registry agree (SYNC) and the
   watcher queue is flushed, every later one with timeout 0; the invariant holds at the end *)
Theorem io_poll_full_blocks_only_in_sync : forall cap fdo pw beh s T,
  KI s ->
  let r := io_poll_full cap fdo pw beh s T in
  KI (b_state r) /\ (1 <= length (b_calls r) <= 48)%nat /\
  Forall (fun c => pw_timeout c <> 0 -> SYNC (pw_at c) /\ wq (pw_at c) = [] /\ pw_at c = poll_prepare s)
         (b_calls r).
Proof.
  intros cap fdo pw beh s T K. cbv zeta. unfold io_poll_full.
  destruct (KI_poll_prepare s K) as [K1 Hw].
  rewrite (k_abort _ _ K1).
  pose proof (repoll_shape 48 cap fdo pw beh (poll_prepare s) T) as [L M]. cbv zeta in L, M.
  split; [apply KI_repoll; auto|].
  destruct (b_calls (repoll 48 cap fdo pw beh (poll_prepare s) T)) as [|c rest]; [discriminate|].
  split; [cbn [length] in *; lia|].
  destruct M as [M1 [M2 [_ M3]]]. constructor.
  - intros _. rewrite M2. split; [apply KI_SYNC; auto|split; auto].
  - eapply Forall_impl; [|exact M3]. intros c' H0 H1. contradiction.
Qed.

(* the skeleton [plan] is what [repoll] does: its list of timeouts is the plan for the numbers
   of events returned and the "made a callback" bits of the successive dispatches *)
Fixpoint observed (count cap : nat) (fdo : nat -> Z) (pw : nat -> list (Z * mask)) (beh : nat -> list op)
         (s : state) : list (nat * bool) :=
  match count with
  | O => []
  | S c =>
    let ans := pw (npw s) in
    let s1 := poll_fetch s ans in
    let '(s4, _) := dispatch (length ans) fdo beh s1 in
    let cbs := negb (Nat.eqb (ncb s4) (ncb s1)) in
    (length ans, cbs && negb (aborted s4)) ::
    (if cbs && Nat.eqb (length ans) cap && negb (Nat.eqb c 0) && negb (aborted s4)
     then observed c cap fdo pw beh (set_batch s4 []) else [])
  end.

Lemma repoll_follows_plan : forall count cap fdo pw beh s t,
  map pw_timeout (b_calls (repoll count cap fdo pw beh s t)) =
  plan count cap t (observed count cap fdo pw beh s).
Proof.
  induction count as [|c IH]; intros cap fdo pw beh s t; cbn [repoll observed plan]; auto.
  destruct (dispatch _ fdo beh _) as [s4 evs] eqn:Hd.
  destruct (Nat.eqb (ncb s4) _) eqn:Hn; cbn [negb andb b_calls map]; auto.
  destruct (aborted s4) eqn:Ha; cbn [negb andb].
  - rewrite !Bool.andb_false_r. cbn. reflexivity.
  - rewrite !Bool.andb_true_r. cbn [negb].
    destruct (Nat.eqb (length (pw (npw s))) cap) eqn:Hc; cbn [andb]; auto.
    destruct (Nat.eqb c 0) eqn:Hz; cbn [negb andb b_calls map]; auto.
    rewrite IH. reflexivity.
Qed.

(* non-vacuity / the scenario of harness/c14_fullbatch.c in small: cap = 2, two ready handles
   fill the batch, the loop polls again with timeout 0 *)
Example plan_full_then_short : plan 48 1024 4997 [(1024%nat, true); (0%nat, false)] = [4997; 0].
Proof. reflexivity. Qed.
Example plan_short : plan 48 1024 4997 [(3%nat, true)] = [4997].
Proof. reflexivity. Qed.
