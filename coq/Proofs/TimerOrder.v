(* C04 pass order: the callbacks of one uv__run_timers pass run in
   non-decreasing (due time, start id) order, whatever the callbacks do. *)
From UV Require Import Lib.Base Model.Heap Model.Timer Proofs.HeapProofs Proofs.TimerProofs.
From Coq Require Import Permutation Sorting.Sorted.
Local Open Scope Z_scope.

Definition rk (s : tstate) (i : nat) : key :=
  mkKey (t_timeout (get s i)) (t_sid (get s i)) i.

Definition kle (a b : key) : Prop := le key_lt a b.

Definition Rk (s : tstate) (i j : nat) : Prop := kle (rk s i) (rk s j).

Definition sorted_ready (s : tstate) : Prop := StronglySorted (Rk s) (ready s).

(* generic list facts *)
Lemma SS_filter {A} (R : A -> A -> Prop) p l :
  StronglySorted R l -> StronglySorted R (filter p l).
Proof.
  induction 1 as [|a l Hs IH Hf]; simpl; [constructor|].
  destruct (p a); auto. constructor; auto.
  rewrite Forall_forall in *. intros x Hx. apply filter_In in Hx. apply Hf; tauto.
Qed.

Lemma SS_snoc {A} (R : A -> A -> Prop) l a :
  StronglySorted R l -> Forall (fun x => R x a) l -> StronglySorted R (l ++ [a]).
Proof.
  induction 1 as [|b l Hs IH Hf]; intros Ha; simpl.
  - constructor; constructor.
  - inversion Ha; subst. constructor; auto.
    apply Forall_app; split; auto.
Qed.

Lemma SS_ext {A} (R R' : A -> A -> Prop) l :
  (forall a b, In a l -> In b l -> R a b -> R' a b) ->
  StronglySorted R l -> StronglySorted R' l.
Proof.
  intros H. induction 1 as [|a l Hs IH Hf]; [constructor|].
  constructor.
  - apply IH. intros x y Hx Hy. apply H; right; assumption.
  - rewrite Forall_forall in *. intros x Hx. apply H; [left; auto| right; auto| apply Hf; auto].
Qed.

Lemma filter_filter {A} (p q : A -> bool) l :
  filter q (filter p l) = filter (fun x => p x && q x) l.
Proof.
  induction l as [|a l IH]; simpl; auto.
  destruct (p a); simpl; [destruct (q a); simpl; rewrite IH; reflexivity| exact IH].
Qed.

Lemma filter_true {A} (l : list A) : filter (fun _ => true) l = l.
Proof. induction l; simpl; congruence. Qed.

(* what an API call does to the ready queue, order included *)
Definition oframe (s s' : tstate) : Prop :=
  (exists p, ready s' = filter p (ready s)) /\
  (forall j, In j (ready s') ->
     t_timeout (get s' j) = t_timeout (get s j) /\ t_sid (get s' j) = t_sid (get s j)).

Lemma oframe_refl s : oframe s s.
Proof. split; [exists (fun _ => true); symmetry; apply filter_true| auto]. Qed.

Lemma oframe_trans a b c : oframe a b -> oframe b c -> oframe a c.
Proof.
  intros [[p Hp] Ka] [[q Hq] Kb]. split.
  - exists (fun x => p x && q x). rewrite Hq, Hp. apply filter_filter.
  - intros j Hj. destruct (Kb j Hj) as (A & B).
    assert (In j (ready b)) by (rewrite Hq in Hj; apply filter_In in Hj; tauto).
    destruct (Ka j H) as (C & D). split; congruence.
Qed.

Lemma oframe_sorted s s' : oframe s s' -> sorted_ready s -> sorted_ready s'.
Proof.
  intros [[p Hp] K] Hs. unfold sorted_ready in *. rewrite Hp.
  apply SS_ext with (R := Rk s).
  - intros a b Ha Hb. rewrite <- Hp in Ha, Hb.
    destruct (K a Ha) as (A1 & A2). destruct (K b Hb) as (B1 & B2).
    unfold Rk, rk. rewrite A1, A2, B1, B2. auto.
  - apply SS_filter. exact Hs.
Qed.

Lemma stop_oframe s i : TI s -> (i < length (tms s))%nat -> oframe s (timer_stop s i).
Proof.
  intros T Hi.
  destruct (timer_stop_effect s i T Hi) as (_ & _ & _ & _ & _ & _ & Hfld & _).
  split.
  - unfold timer_stop. destruct (t_active (get s i)).
    + exists (fun _ => true). rewrite ready_set. cbn [ready]. symmetry; apply filter_true.
    + cbn [ready]. exists (fun j => negb (Nat.eqb i j)). reflexivity.
  - intros j _. destruct (Hfld j) as (A & B & _). auto.
Qed.

Lemma start_oframe s i cb t r : TI s -> (i < length (tms s))%nat ->
  oframe s (fst (timer_start s i cb t r)).
Proof.
  intros T Hi. unfold timer_start. destruct cb as [c|]; [|apply oframe_refl].
  destruct (t_closing (get s i)); [apply oframe_refl|]. cbn [fst].
  pose proof (stop_oframe s i T Hi) as [[p Hp] K].
  destruct (timer_stop_effect s i T Hi) as (_ & Hnr & _ & _ & _ & _ & _ & _).
  split.
  - exists p. rewrite ready_set. cbn [ready]. exact Hp.
  - intros j Hj. rewrite ready_set in Hj. cbn [ready] in Hj.
    assert (i <> j) by (intros <-; contradiction).
    rewrite get_set_other by assumption.
    change (get {| now := now (timer_stop s i); counter := wrap64 (counter (timer_stop s i) + 1);
                   hp := hins (hp (timer_stop s i))
                          {| k_timeout := clamp (now (timer_stop s i)) t;
                             k_sid := counter (timer_stop s i); k_id := i |};
                   tms := tms (timer_stop s i); ready := ready (timer_stop s i) |} j)
      with (get (timer_stop s i) j).
    apply K; exact Hj.
Qed.

Lemma again_oframe s i : TI s -> (i < length (tms s))%nat ->
  oframe s (fst (timer_again s i)).
Proof.
  intros T Hi. unfold timer_again. destruct (t_cb (get s i)); [|apply oframe_refl].
  destruct (t_repeat (get s i) =? 0); [apply oframe_refl|]. cbn [fst].
  pose proof (TI_timer_stop s i T Hi) as T1.
  destruct (timer_stop_effect s i T Hi) as (_ & _ & _ & _ & Hlen & _).
  apply oframe_trans with (timer_stop s i); [apply stop_oframe; assumption|].
  apply start_oframe; [exact T1| lia].
Qed.

Lemma set_inert_oframe s i f :
  (i < length (tms s))%nat ->
  (forall t, t_timeout (f t) = t_timeout t /\ t_sid (f t) = t_sid t) ->
  oframe s (set_tm s i f).
Proof.
  intros Hi Hf. split.
  - exists (fun _ => true). rewrite ready_set. symmetry; apply filter_true.
  - intros j _. destruct (Nat.eq_dec i j) as [<-|Hne].
    + rewrite get_set_same by exact Hi. apply Hf.
    + rewrite get_set_other by exact Hne. auto.
Qed.

Lemma api_oframe s o : TI s -> oframe s (fst (api s o)).
Proof.
  intros T. destruct o; simpl; try apply oframe_refl.
  - (* init *) split.
    + exists (fun _ => true). unfold timer_init; cbn [ready]. symmetry; apply filter_true.
    + intros j Hj. unfold timer_init in *; cbn [ready] in Hj.
      destruct (ti_r s T j Hj) as (Hl & _).
      unfold get; cbn [tms]. rewrite app_nth1 by exact Hl. auto.
  - destruct (valid s i) eqn:V; [|apply oframe_refl]. apply valid_lt in V.
    pose proof (start_oframe s i cb timeout repeat T V) as X.
    destruct (timer_start s i cb timeout repeat); exact X.
  - destruct (valid s i) eqn:V; [|apply oframe_refl]. apply valid_lt in V.
    apply stop_oframe; auto.
  - destruct (valid s i) eqn:V; [|apply oframe_refl]. apply valid_lt in V.
    pose proof (again_oframe s i T V) as X. destruct (timer_again s i); exact X.
  - destruct (valid s i) eqn:V; [|apply oframe_refl]. apply valid_lt in V.
    cbn [fst]. unfold timer_set_repeat. apply set_inert_oframe; auto.
  - destruct (valid s i) eqn:V; [|apply oframe_refl]. apply valid_lt in V.
    cbn [fst]. unfold timer_close.
    destruct (timer_stop_effect s i T V) as (_ & _ & _ & _ & Hlen & _).
    apply oframe_trans with (timer_stop s i); [apply stop_oframe; assumption|].
    apply set_inert_oframe; [lia| auto].
  - destruct (valid s i); apply oframe_refl.
  - split; [exists (fun _ => true); unfold advance; cbn [ready]; symmetry; apply filter_true| auto].
Qed.

Lemma apis_oframe os : forall s, TI s -> oframe s (fst (apis s os)).
Proof.
  induction os as [|o os IH]; intros s T; simpl; [apply oframe_refl|].
  pose proof (TI_api s o T) as T1. pose proof (api_oframe s o T) as F1.
  destruct (api s o) as [s1 e1]; cbn [fst] in *.
  specialize (IH s1 T1). destruct (apis s1 os) as [s2 e2]; cbn [fst] in *.
  eapply oframe_trans; eauto.
Qed.

(* keys of the Fire events, in order *)
Definition fire_keys (evs : list event) : list key :=
  flat_map (fun e => match e with EFire i _ _ due sid _ _ => [mkKey due sid i] | _ => [] end) evs.

Lemma fire_keys_app a b : fire_keys (a ++ b) = fire_keys a ++ fire_keys b.
Proof. unfold fire_keys. apply flat_map_app. Qed.

Lemma no_fire_keys evs : Forall (fun e => is_fire e = false) evs -> fire_keys evs = [].
Proof.
  induction 1 as [|e evs He _ IH]; simpl; auto.
  destruct e; simpl in *; try discriminate; auto.
Qed.

Lemma fire_order fuel : forall s beh cnt, TI s -> sorted_ready s ->
  let '(_, evs, _) := fire fuel s beh cnt in
  StronglySorted kle (fire_keys evs) /\
  Forall (fun k => In k (map (rk s) (ready s))) (fire_keys evs).
Proof.
  induction fuel as [|f IH]; intros s beh cnt T Hs; simpl.
  - split; constructor.
  - destruct (ready s) as [|i rest] eqn:Er; [split; constructor|].
    pose proof (TI_pop s i rest T Er) as T0.
    set (s0 := mkT (now s) (counter s) (hp s) (tms s) rest) in *.
    assert (Ri : In i (ready s)) by (rewrite Er; left; reflexivity).
    destruct (ti_r s T i Ri) as (Hi & _ & _).
    pose proof (TI_timer_again s0 i T0 Hi) as T1.
    pose proof (again_oframe s0 i T0 Hi) as O1.
    set (s1 := fst (timer_again s0 i)) in *.
    destruct (apis_spec s1 (beh cnt) T1) as (T2 & _ & N2).
    pose proof (apis_oframe (beh cnt) s1 T1) as O2.
    destruct (apis s1 (beh cnt)) as [s2 evs] eqn:Ea. cbn [fst snd] in *.
    assert (O02 : oframe s0 s2) by (eapply oframe_trans; eauto).
    unfold sorted_ready in Hs. rewrite Er in Hs. inversion Hs as [|? ? Hs0 Hfa]; subst.
    assert (Hs0' : sorted_ready s0) by exact Hs0.
    pose proof (oframe_sorted s0 s2 O02 Hs0') as Hs2.
    specialize (IH s2 beh (S cnt) T2 Hs2).
    destruct (fire f s2 beh (S cnt)) as [[s3 evs'] cnt'] eqn:Ef.
    destruct IH as (SS' & In').
    match goal with |- context [fire_keys (?e :: ?e2 :: evs ++ evs')] =>
      change (fire_keys (e :: e2 :: evs ++ evs')) with (fire_keys ([e] ++ [e2] ++ evs ++ evs')) end.
    rewrite !fire_keys_app, (no_fire_keys evs N2). simpl.
    change (get s0 i) with (get s i).
    (* every later key is the key of some j in rest, unchanged since s *)
    assert (Later : Forall (fun k => In k (map (rk s) rest)) (fire_keys evs')).
    { eapply Forall_impl; [|exact In']. intros k Hk.
      apply in_map_iff in Hk. destruct Hk as (j & <- & Hj).
      destruct O02 as [[p Hp] K]. destruct (K j Hj) as (A & B).
      assert (In j rest) by (rewrite Hp in Hj; apply filter_In in Hj; cbn [ready] in Hj; tauto).
      apply in_map_iff. exists j. split; auto.
      unfold rk. rewrite A, B. reflexivity. }
    split.
    + constructor; auto.
      rewrite Forall_forall in *. intros k Hk. specialize (Later k Hk).
      apply in_map_iff in Later. destruct Later as (j & <- & Hj).
      apply (Hfa j Hj).
    + constructor.
      * left. reflexivity.
      * eapply Forall_impl; [|exact Later]. intros k Hk. right; exact Hk.
Qed.

(* ---- the collection loop leaves the ready queue sorted ---- *)
Definition below_heap (s : tstate) : Prop :=
  forall i k, In i (ready s) -> In k (elements (h_tree (hp s))) -> kle (rk s i) k.

Lemma stop_els_incl s i k : TI s -> (i < length (tms s))%nat ->
  In k (elements (h_tree (hp (timer_stop s i)))) -> In k (elements (h_tree (hp s))).
Proof.
  intros T Hi. unfold timer_stop. destruct (t_active (get s i)) eqn:Ea; [|auto].
  rewrite hp_set. cbn [hp]. intros Hk.
  destruct (ti_e2 s T i Hi Ea) as (k0 & Hk0 & Hid0).
  destruct (heap_remove_spec key_lt k_id key_lt_asym key_le_trans (hp s) i (ti_heap s T))
    as (_ & x & _ & Hp); [eauto|].
  eapply Permutation_in; [apply Permutation_sym; exact Hp| right; exact Hk].
Qed.

Lemma collect_sorted fuel : forall s, TI s -> sorted_ready s -> below_heap s ->
  sorted_ready (collect fuel s).
Proof.
  induction fuel as [|f IH]; intros s T Hs Hb; simpl; [auto|].
  destruct (heap_min (hp s)) as [k|] eqn:Em; [|auto].
  destruct (Z.ltb_spec (now s) (k_timeout k)); [auto|].
  assert (Hk : In k (elements (h_tree (hp s)))).
  { unfold heap_min in Em. destruct (h_tree (hp s)); simpl in *; [discriminate|].
    inversion Em; subst. left; reflexivity. }
  pose proof (heap_min_least key_lt key_lt_asym (hp s) k (ti_heap s T) Em) as Least.
  destruct (ti_e1 s T k Hk) as (Hi & Ha & Hto & Hsid).
  pose proof (TI_timer_stop s (k_id k) T Hi) as T1.
  pose proof (stop_oframe s (k_id k) T Hi) as O1.
  destruct (timer_stop_effect s (k_id k) T Hi) as (Ea & Hnr & Hnow & Hctr & Hlen & Hrd & Hfld & Hoth).
  set (s1 := timer_stop s (k_id k)) in *.
  set (s2 := mkT (now s1) (counter s1) (hp s1) (tms s1) (ready s1 ++ [k_id k])).
  assert (T2 : TI s2).
  { apply TI_push_ready; auto; try lia.
    destruct (Hfld (k_id k)) as (A & _). rewrite A, Hto, Hnow. lia. }
  assert (RKeq : forall j, rk s2 j = rk s j).
  { intros j. unfold rk. change (get s2 j) with (get s1 j).
    destruct (Hfld j) as (A & B & _). rewrite A, B. reflexivity. }
  assert (RKk : rk s (k_id k) = k).
  { unfold rk. rewrite Hto, Hsid. destruct k; reflexivity. }
  apply IH; [exact T2| |].
  - unfold sorted_ready. cbn [ready s2].
    apply SS_ext with (R := Rk s).
    { intros a b _ _. unfold Rk. rewrite !RKeq. auto. }
    apply SS_snoc.
    + pose proof (oframe_sorted s s1 O1 Hs) as Hs1. unfold sorted_ready in Hs1.
      apply SS_ext with (R := Rk s1); [|exact Hs1].
      intros a b _ _. unfold Rk, rk.
      destruct (Hfld a) as (A1 & A2 & _). destruct (Hfld b) as (B1 & B2 & _).
      rewrite A1, A2, B1, B2. auto.
    + rewrite Forall_forall. intros j Hj. unfold Rk. rewrite RKk.
      apply Hb; [apply Hrd; exact Hj| exact Hk].
  - intros j k' Hj Hk'. cbn [ready hp s2] in *. rewrite RKeq.
    assert (Hk'' : In k' (elements (h_tree (hp s)))) by (eapply stop_els_incl; eauto).
    apply in_app_or in Hj. destruct Hj as [Hj|[<-|[]]].
    + apply Hb; [apply Hrd; exact Hj| exact Hk''].
    + rewrite RKk. rewrite Forall_forall in Least. apply Least. exact Hk''.
Qed.

(* C04 pass order *)
Theorem pass_order s beh cnt : TI s -> ready s = [] ->
  StronglySorted kle (fire_keys (snd (fst (run_timers s beh cnt)))).
Proof.
  intros T Hr. unfold run_timers.
  destruct (collect_spec (S (N.to_nat (h_n (hp s)))) s T) as (T1 & _ & _).
  assert (S1 : sorted_ready (collect (S (N.to_nat (h_n (hp s)))) s)).
  { apply collect_sorted; auto.
    - unfold sorted_ready. rewrite Hr. constructor.
    - intros i k Hi. rewrite Hr in Hi. destruct Hi. }
  set (s1 := collect (S (N.to_nat (h_n (hp s)))) s) in *.
  pose proof (fire_order (length (ready s1)) s1 beh cnt T1 S1) as F.
  destruct (fire (length (ready s1)) s1 beh cnt) as [[s' evs] c']. cbn [fst snd].
  apply F.
Qed.

Lemma kle_spec a b : kle a b <->
  (k_timeout a < k_timeout b \/ (k_timeout a = k_timeout b /\ k_sid a <= k_sid b)).
Proof. unfold kle, le. rewrite key_lt_false. unfold klt. lia. Qed.
