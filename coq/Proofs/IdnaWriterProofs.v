(* uv__idna_toascii(_label) against its destination: whatever the writer is,
   the control flow is the same (the code never looks at d except in the
   guard of a store), so a run with a bounded destination is the truncation
   of the run with an unbounded one.  From this: no store at or past de, and
   UV_EINVAL exactly when output + NUL does not fit. *)
From UV Require Import Lib.Base Model.Idna.
Local Open Scope N_scope.

(* ------------------------------------------------------------------ *)
(* Two writers related by R go through the same control flow           *)
(* ------------------------------------------------------------------ *)
Section Rel.
Variables W1 W2 : Type.
Variable put1 : N -> W1 -> W1.
Variable put2 : N -> W2 -> W2.
Variable R : W1 -> W2 -> Prop.
Hypothesis HR : forall c w1 w2, R w1 w2 -> R (put1 c w1) (put2 c w2).

Lemma ascii_rel : forall fuel s x h w1 w2, R w1 w2 ->
  R (ascii_loop W1 put1 fuel s x h w1) (ascii_loop W2 put2 fuel s x h w2).
Proof.
  induction fuel as [|f IH]; intros s x h w1 w2 H; destruct s as [|b s]; cbn [ascii_loop]; try exact H.
  destruct (utf8_decode1 (b :: s)) as [c s'].
  destruct (127 <? c); [apply IH; exact H|].
  destruct (u32 (x + 1) =? h); [apply HR; exact H|apply IH; apply HR; exact H].
Qed.

Lemma digits_rel : forall fuel k q bias w1 w2, R w1 w2 ->
  R (digits_loop W1 put1 fuel k q bias w1) (digits_loop W2 put2 fuel k q bias w2).
Proof.
  induction fuel as [|f IH]; intros k q bias w1 w2 H; cbn [digits_loop]; [exact H|].
  match goal with |- context [if ?c then put1 _ _ else _] => destruct c end.
  - apply HR; exact H.
  - apply IH. apply HR; exact H.
Qed.

Lemma enc_rel : forall fuel s n st w1 w2, R w1 w2 ->
  fst (enc_loop W1 put1 fuel s n st w1) = fst (enc_loop W2 put2 fuel s n st w2) /\
  R (snd (enc_loop W1 put1 fuel s n st w1)) (snd (enc_loop W2 put2 fuel s n st w2)).
Proof.
  induction fuel as [|f IH]; intros s n st w1 w2 H; destruct s as [|b s]; cbn [enc_loop];
    try (split; [reflexivity|exact H]).
  destruct (utf8_decode1 (b :: s)) as [c s'].
  match goal with |- context [if ?c then (None, w1) else _] => destruct c end;
    [split; [reflexivity|exact H]|].
  destruct (negb (c =? n)); [apply IH; exact H|].
  destruct (adapt_loop _ _ _) as [bias delta].
  apply IH. apply digits_rel. exact H.
Qed.

Lemma outer_rel : forall fuel s n st w1 w2, R w1 w2 ->
  fst (outer_loop W1 put1 fuel s n st w1) = fst (outer_loop W2 put2 fuel s n st w2) /\
  R (snd (outer_loop W1 put1 fuel s n st w1)) (snd (outer_loop W2 put2 fuel s n st w2)).
Proof.
  induction fuel as [|f IH]; intros s n st w1 w2 H; cbn [outer_loop];
    (destruct (p_todo st =? 0); [split; [reflexivity|exact H]|]); [split; [reflexivity|exact H]|].
  match goal with |- context [if ?c then (UV_E2BIG, w1) else _] => destruct c end;
    [split; [reflexivity|exact H]|].
  match goal with |- context [enc_loop W1 put1 ?fu ?s ?n ?st w1] =>
    pose proof (enc_rel fu s n st w1 w2 H) as [E1 E2];
    destruct (enc_loop W1 put1 fu s n st w1) as [o1 w1'];
    destruct (enc_loop W2 put2 fu s n st w2) as [o2 w2'] end.
  cbn [fst snd] in E1, E2. subst o2.
  destruct o1 as [st'|]; [apply IH; exact E2|split; [reflexivity|exact E2]].
Qed.

Lemma label_rel : forall s w1 w2, R w1 w2 ->
  fst (idna_toascii_label W1 put1 s w1) = fst (idna_toascii_label W2 put2 s w2) /\
  R (snd (idna_toascii_label W1 put1 s w1)) (snd (idna_toascii_label W2 put2 s w2)).
Proof.
  intros s w1 w2 H. unfold idna_toascii_label.
  destruct (count_loop (length s) s 0 0) as [[h todo]|]; [|split; [reflexivity|exact H]].
  set (a1 := if 0 <? todo then put1 45 (put1 45 (put1 110 (put1 120 w1))) else w1).
  set (a2 := if 0 <? todo then put2 45 (put2 45 (put2 110 (put2 120 w2))) else w2).
  assert (Ha : R a1 a2) by (unfold a1, a2; destruct (0 <? todo); [repeat apply HR|]; exact H).
  pose proof (ascii_rel (length s) s 0 h a1 a2 Ha) as Hb.
  destruct (todo =? 0); [split; [reflexivity|exact Hb]|].
  apply outer_rel. destruct (0 <? h); [apply HR|]; exact Hb.
Qed.

Lemma toascii_loop_rel : forall fuel lab si w1 w2, R w1 w2 ->
  fst (toascii_loop W1 put1 fuel lab si w1) = fst (toascii_loop W2 put2 fuel lab si w2) /\
  R (snd (toascii_loop W1 put1 fuel lab si w1)) (snd (toascii_loop W2 put2 fuel lab si w2)).
Proof.
  induction fuel as [|f IH]; intros lab si w1 w2 H.
  - destruct si as [|b si]; cbn [toascii_loop];
      (destruct lab; [split; [reflexivity|exact H]|apply label_rel; exact H]).
  - destruct si as [|b si]; cbn [toascii_loop];
      [destruct lab; [split; [reflexivity|exact H]|apply label_rel; exact H]|].
    destruct (utf8_decode1 (b :: si)) as [c si'].
    destruct (c =? UINT_MAX); [split; [reflexivity|exact H]|].
    destruct (is_dot c); [|apply IH; exact H].
    pose proof (label_rel (rev lab) w1 w2 H) as [E1 E2].
    destruct (idna_toascii_label W1 put1 (rev lab) w1) as [rc1 w1'].
    destruct (idna_toascii_label W2 put2 (rev lab) w2) as [rc2 w2'].
    cbn [fst snd] in E1, E2. subst rc2.
    destruct (rc1 <? 0)%Z; [split; [reflexivity|exact E2]|].
    apply IH. apply HR. exact E2.
Qed.
End Rel.

(* ------------------------------------------------------------------ *)
(* Bounded cursor against the unbounded list of output bytes           *)
(* ------------------------------------------------------------------ *)
(* the unbounded writer: the bytes put so far, latest first *)
Definition toascii_full (s : list N) : Z * list N :=
  let (rc, out) := toascii_loop (list N) cons (length s) [] s [] in (rc, rev out).

Definition label_full (s : list N) : Z * list N :=
  let (rc, out) := idna_toascii_label (list N) cons s [] in (rc, rev out).

Definition trunc (de : N) (w : cursor) (out : list N) : Prop :=
  fst w = N.min de (N.of_nat (length out)) /\
  map snd (rev (snd w)) = firstn (N.to_nat (fst w)) (rev out) /\
  Forall (fun ic => fst ic < de) (snd w) /\
  N.of_nat (length (snd w)) = fst w.

Lemma trunc_put de c w out : trunc de w out -> trunc de (put_bounded de c w) (c :: out).
Proof.
  destruct w as [d log]. unfold trunc, put_bounded. cbn [fst snd]. intros (H1 & H2 & H3 & H4).
  destruct (N.ltb_spec d de) as [L|L]; cbn [fst snd length rev].
  - assert (Hd : d = N.of_nat (length out)) by lia.
    split; [lia|]. split; [|split; [constructor; [cbn; exact L|exact H3]|lia]].
    rewrite map_app, H2. cbn [map snd].
    replace (N.to_nat d) with (length (rev out)) by (rewrite rev_length; lia).
    rewrite firstn_all.
    replace (N.to_nat (d + 1)) with (length (rev out ++ [c])) by (rewrite app_length, rev_length; cbn; lia).
    rewrite firstn_all. reflexivity.
  - split; [lia|]. split; [|split; [exact H3|exact H4]].
    rewrite H2. rewrite firstn_app.
    replace (N.to_nat d - length (rev out))%nat with O by (rewrite rev_length; lia).
    cbn [firstn]. rewrite app_nil_r. reflexivity.
Qed.

Lemma trunc_init de : trunc de (0, []) [].
Proof. unfold trunc. cbn. repeat split; try lia. constructor. Qed.

Theorem toascii_bounded s de :
  s <> [] ->
  let '(rc, w) := idna_toascii s de in
  let '(rcu, full) := toascii_full s in
  (* every store is inside the destination, stores are consecutive from d *)
  (forall ic, In ic (snd w) -> fst ic < de) /\
  fst w <= de /\ N.of_nat (length (snd w)) = fst w /\
  (* what was stored is a prefix of the complete answer *)
  (exists k, written w = firstn k (full ++ [0])) /\
  (* an error of the conversion itself is passed on *)
  ((rcu < 0)%Z -> rc = rcu) /\
  (* it fits: the complete answer and its length, NUL included *)
  ((0 <= rcu)%Z -> N.of_nat (length full) + 1 <= de ->
     rc = Z.of_N (N.of_nat (length full) + 1) /\ written w = full ++ [0]) /\
  (* it does not fit: UV_EINVAL *)
  ((0 <= rcu)%Z -> de < N.of_nat (length full) + 1 -> rc = UV_EINVAL).
Proof.
  intros Hne. unfold idna_toascii, toascii_full. destruct s as [|b s']; [congruence|].
  set (s := b :: s') in *.
  pose proof (toascii_loop_rel cursor (list N) (put_bounded de) cons (trunc de) (trunc_put de)
                (length s) [] s (0, []) [] (trunc_init de)) as [E1 E2].
  destruct (toascii_loop cursor (put_bounded de) (length s) [] s (0, [])) as [rc [d log]].
  destruct (toascii_loop (list N) cons (length s) [] s []) as [rcu out].
  cbn [fst snd] in E1, E2. subst rcu.
  destruct E2 as (H1 & H2 & H3 & H4). cbn [fst snd] in H1, H2, H3, H4.
  assert (Hlen : length (rev out) = length out) by apply rev_length.
  destruct (Z.ltb_spec rc 0) as [Lrc|Lrc].
  - (* error from the conversion *)
    cbn [fst snd]. split; [rewrite Forall_forall in H3; exact H3|].
    split; [lia|]. split; [exact H4|]. split.
    { exists (N.to_nat d). unfold written. cbn [snd]. rewrite H2.
      rewrite firstn_app. replace (N.to_nat d - length (rev out))%nat with O by lia.
      cbn [firstn]. rewrite app_nil_r. reflexivity. }
    split; [reflexivity|]. split; intros; lia.
  - destruct (N.leb_spec de d) as [Lde|Lde].
    + (* no room for the NUL *)
      cbn [fst snd]. split; [rewrite Forall_forall in H3; exact H3|].
      split; [lia|]. split; [exact H4|]. split.
      { exists (N.to_nat d). unfold written. cbn [snd]. rewrite H2.
        rewrite firstn_app. replace (N.to_nat d - length (rev out))%nat with O by lia.
        cbn [firstn]. rewrite app_nil_r. reflexivity. }
      split; [intros; lia|]. split; [intros; lia|reflexivity].
    + (* room: d = |out|, store the NUL *)
      assert (Hd : d = N.of_nat (length out)) by lia.
      assert (Hw : written (d + 1, (d, 0) :: log) = rev out ++ [0]).
      { unfold written. cbn [snd rev]. rewrite map_app, H2. cbn [map snd].
        replace (N.to_nat d) with (length (rev out)) by lia. rewrite firstn_all. reflexivity. }
      cbn [fst snd]. split.
      { intros ic [<-|Hin]; [cbn; exact Lde|]. rewrite Forall_forall in H3. apply H3; exact Hin. }
      split; [lia|]. split; [cbn [length]; lia|]. split.
      { exists (length (rev out ++ [0])). rewrite firstn_all. exact Hw. }
      split; [intros; lia|]. split; [|intros; lia].
      intros _ _. split; [f_equal; lia|exact Hw].
Qed.
