(* Proofs about Model/Fs.v (C11), part G: the scandir filter drops "." and ".." only. *)
From UV Require Import Lib.Base Model.Fs.

Lemma str_eqb_eq a b : str_eqb a b = true <-> a = b.
Proof.
  revert b; induction a as [|x a IH]; intros [|y b]; simpl; split; intros H;
    try reflexivity; try discriminate.
  - apply andb_prop in H as [H1 H2]. apply N.eqb_eq in H1. apply IH in H2. now subst.
  - inversion H; subst. rewrite N.eqb_refl. simpl. now apply IH.
Qed.

Theorem scandir_filter_exact :
  forall name, scandir_keeps name = false <-> name = DOT \/ name = DOTDOT.
Proof.
  intros name. unfold scandir_keeps. rewrite andb_false_iff, !negb_false_iff, !str_eqb_eq. tauto.
Qed.

(* every other name is kept: names made only of dots ("...", "...."), names
   beginning or ending with a dot, blanks, any bytes *)
Theorem scandir_keeps_everything_else :
  forall name, name <> DOT -> name <> DOTDOT -> scandir_keeps name = true.
Proof.
  intros name H1 H2. destruct (scandir_keeps name) eqn:E; auto.
  apply scandir_filter_exact in E. tauto.
Qed.

Theorem scandir_entries_spec :
  forall l x, In x (scandir_entries l) <-> In x l /\ x <> DOT /\ x <> DOTDOT.
Proof.
  intros l x. unfold scandir_entries. rewrite filter_In. split.
  - intros [Hi Hk]. split; auto. split; intros ->; discriminate Hk.
  - intros (Hi & H1 & H2). split; auto. now apply scandir_keeps_everything_else.
Qed.

Example scandir_dots :
  scandir_entries [[46]; [46;46]; [46;46;46]; [46;46;46;46]; [46;97]; [97;46]; [32]]%N =
  [[46;46;46]; [46;46;46;46]; [46;97]; [97;46]; [32]]%N.
Proof. reflexivity. Qed.
