(* C19 - proofs about Model/Getters.v. *)
From UV Require Import Lib.Base Model.Getters.

Local Open Scope nat_scope.

(* ------------------------------------------------------------------ *)
(* memory lemmas                                                        *)
(* ------------------------------------------------------------------ *)
Lemma write_length off bs buf : length (write off bs buf) = length buf.
Proof.
  revert off bs; induction buf as [|b rest IH]; intros off bs; cbn [write]; auto.
  destruct off; [destruct bs|]; cbn [length]; auto.
Qed.

Lemma nth_error_write_out off bs buf i :
  i < off \/ off + length bs <= i ->
  nth_error (write off bs buf) i = nth_error buf i.
Proof.
  revert off bs i; induction buf as [|b rest IH]; intros off bs i H; cbn [write]; auto.
  destruct off as [|o].
  - destruct bs as [|x xs]; auto.
    destruct i as [|i]; cbn [length] in H; [lia|].
    cbn [nth_error]. apply IH. right. cbn [length] in *. lia.
  - destruct i as [|i]; cbn [nth_error]; auto.
    apply IH. lia.
Qed.

Lemma nth_error_write_in off bs buf i :
  off <= i -> i < off + length bs -> i < length buf ->
  nth_error (write off bs buf) i = nth_error bs (i - off).
Proof.
  revert off bs i; induction buf as [|b rest IH]; intros off bs i H1 H2 H3; cbn [length] in H3; [lia|].
  cbn [write]. destruct off as [|o].
  - destruct bs as [|x xs]; cbn [length] in H2; [lia|].
    destruct i as [|i]; cbn [nth_error]; auto.
    rewrite IH by (cbn [length] in *; lia). rewrite !Nat.sub_0_r. reflexivity.
  - destruct i as [|i]; [lia|]. cbn [nth_error]. rewrite IH by lia. reflexivity.
Qed.

Lemma nth_error_nil {A} i : @nth_error A [] i = None.
Proof. destruct i; reflexivity. Qed.

Lemma nth_error_firstn_lt {A} (l : list A) k i : i < k -> nth_error (firstn k l) i = nth_error l i.
Proof.
  revert k i; induction l as [|x xs IH]; intros k i H.
  - rewrite firstn_nil. reflexivity.
  - destruct k; [lia|]. destruct i; cbn; auto. apply IH; lia.
Qed.

Lemma nth_error_repeat_lt {A} (x : A) n i : i < n -> nth_error (repeat x n) i = Some x.
Proof. revert i; induction n as [|n IH]; intros i H; [lia|]. destruct i; cbn; auto. apply IH; lia. Qed.

Lemma nth_error_ext_eq {A} (l1 l2 : list A) :
  (forall i, nth_error l1 i = nth_error l2 i) -> l1 = l2.
Proof.
  revert l2; induction l1 as [|x xs IH]; intros [|y ys] H; auto.
  - specialize (H 0); discriminate.
  - specialize (H 0); discriminate.
  - f_equal. + specialize (H 0); cbn in H; congruence.
    + apply IH. intros i. exact (H (S i)).
Qed.

Lemma firstn_eq_of_nth {A} (b w : list A) :
  (forall i, i < length w -> nth_error b i = nth_error w i) ->
  firstn (length w) b = w.
Proof.
  intros H. apply nth_error_ext_eq. intros i.
  destruct (Nat.lt_ge_cases i (length w)) as [Hi|Hi].
  - rewrite nth_error_firstn_lt by exact Hi. apply H; exact Hi.
  - transitivity (@None A).
    + apply nth_error_None. rewrite firstn_length. lia.
    + symmetry. apply nth_error_None. exact Hi.
Qed.

Lemma nth_peek i (b : list N) c : nth_error b i = Some c -> peek i b = c.
Proof. intros H. unfold peek. apply nth_error_nth. exact H. Qed.

(* ------------------------------------------------------------------ *)
(* "nothing beyond cap changes"                                         *)
(* ------------------------------------------------------------------ *)
Definition same_beyond (cap : nat) (buf buf' : list N) : Prop :=
  length buf' = length buf /\ forall i, cap <= i -> nth_error buf' i = nth_error buf i.

Lemma sb_refl cap buf : same_beyond cap buf buf.
Proof. split; auto. Qed.

Lemma sb_trans cap a b c : same_beyond cap a b -> same_beyond cap b c -> same_beyond cap a c.
Proof.
  intros [L1 H1] [L2 H2]. split; [congruence|]. intros i Hi. rewrite H2, H1 by exact Hi. reflexivity.
Qed.

Lemma sb_write cap off bs buf : off + length bs <= cap -> same_beyond cap buf (write off bs buf).
Proof.
  intros H. split; [apply write_length|]. intros i Hi. apply nth_error_write_out. lia.
Qed.

Lemma sb_poke cap i c buf : i < cap -> same_beyond cap buf (poke i c buf).
Proof. intros H. apply sb_write. cbn [length]. lia. Qed.

Lemma sb_poke_after cap i c buf b :
  same_beyond cap buf b -> i < cap -> same_beyond cap buf (poke i c b).
Proof. intros H Hi. eapply sb_trans; [exact H|apply sb_poke; exact Hi]. Qed.

Lemma sb_memcpy cap dst src n : n <= cap -> same_beyond cap dst (memcpy dst src n).
Proof. intros H. apply sb_write. rewrite firstn_length. lia. Qed.

(* ------------------------------------------------------------------ *)
(* strings                                                              *)
(* ------------------------------------------------------------------ *)
Definition nonul (v : list N) : Prop := Forall (fun c => c <> NUL) v.

Lemma strlen_le_length s : strlen s <= length s.
Proof. induction s as [|c r IH]; cbn [strlen length]; [lia|]. destruct (N.eqb c NUL); lia. Qed.

Lemma strlen_cstr v r : nonul v -> strlen (v ++ NUL :: r) = length v.
Proof.
  induction 1 as [|c v Hc Hv IH]; cbn [app strlen length].
  - reflexivity.
  - apply N.eqb_neq in Hc. rewrite Hc. rewrite IH. reflexivity.
Qed.

Lemma strlen_cstr' v : nonul v -> strlen (cstr v) = length v.
Proof. apply strlen_cstr. Qed.

Lemma strlen_nonul v : nonul v -> strlen v = length v.
Proof.
  induction 1 as [|c v Hc Hv IH]; cbn [strlen length]; auto.
  apply N.eqb_neq in Hc. rewrite Hc, IH. reflexivity.
Qed.

Lemma nonul_firstn k v : nonul v -> nonul (firstn k v).
Proof.
  intros H. revert k. induction H as [|c v Hc Hv IH]; intros k.
  - rewrite firstn_nil. constructor.
  - destruct k; cbn [firstn]; constructor; [exact Hc|apply IH].
Qed.

(* the string held by a buffer is decided by its first bytes *)
Lemma strlen_of_prefix v b :
  nonul v ->
  (forall i, i <= length v -> nth_error b i = nth_error (v ++ [NUL]) i) ->
  strlen b = length v.
Proof.
  intros Hv. revert b. induction Hv as [|c v Hc Hv IH]; intros b H.
  - specialize (H 0 (Nat.le_0_l _)). cbn in H. destruct b as [|x b]; [discriminate|].
    cbn in H. inversion H. reflexivity.
  - pose proof (H 0 (Nat.le_0_l _)) as H0. cbn in H0. destruct b as [|x b]; [discriminate|].
    cbn in H0. inversion H0; subst x. cbn [strlen length].
    apply N.eqb_neq in Hc. rewrite Hc. f_equal. apply IH.
    intros i Hi. apply (H (S i)). cbn [length]. lia.
Qed.

Lemma strlen_write_cstr_le v m : strlen (write 0 (v ++ [NUL]) m) <= length v.
Proof.
  revert m; induction v as [|x xs IH]; intros m; cbn [app write].
  - destruct m; cbn; lia.
  - destruct m as [|b r]; cbn [write strlen length]; [lia|].
    destruct (N.eqb x NUL); [lia|]. specialize (IH r). lia.
Qed.

Lemma nth_error_cstr_lt v i : i < length v -> nth_error (cstr v) i = nth_error v i.
Proof. intros H. unfold cstr. apply nth_error_app1. exact H. Qed.

Lemma nth_error_cstr_end v : nth_error (cstr v) (length v) = Some NUL.
Proof. unfold cstr. rewrite nth_error_app2 by lia. rewrite Nat.sub_diag. reflexivity. Qed.

Lemma cstr_length v : length (cstr v) = length v + 1.
Proof. unfold cstr. rewrite app_length. reflexivity. Qed.

Lemma firstn_cstr_all v : firstn (length v + 1) (cstr v) = cstr v.
Proof. rewrite <- cstr_length. apply firstn_all. Qed.

Lemma firstn_cstr_val v : firstn (length v) (cstr v) = v.
Proof.
  unfold cstr. rewrite firstn_app, Nat.sub_diag, firstn_all. cbn. apply app_nil_r.
Qed.

(* [b] holds the C string [w]: its first bytes are w, then a terminator *)
Definition holds (b w : list N) : Prop :=
  (forall i, i < length w -> nth_error b i = nth_error w i) /\ nth_error b (length w) = Some NUL.

Lemma holds_firstn b w : holds b w -> firstn (length w) b = w.
Proof. intros [H _]. apply firstn_eq_of_nth. exact H. Qed.

Lemma holds_strlen b w : nonul w -> holds b w -> strlen b = length w.
Proof.
  intros Hw [H1 H2]. apply strlen_of_prefix; auto.
  intros i Hi. destruct (Nat.eq_dec i (length w)) as [->|Hne].
  - rewrite H2. symmetry. apply nth_error_cstr_end.
  - rewrite H1 by lia. symmetry. apply nth_error_cstr_lt. lia.
Qed.

(* poke k NUL (write 0 v buf) holds the first k bytes of v *)
Lemma holds_poke_write v buf k :
  k <= length v -> k < length buf ->
  holds (poke k NUL (write 0 v buf)) (firstn k v).
Proof.
  intros Hk Hb. unfold holds, poke. rewrite firstn_length, Nat.min_l by exact Hk. split.
  - intros i Hi. rewrite nth_error_write_out by lia.
    rewrite nth_error_write_in by lia. rewrite Nat.sub_0_r.
    symmetry. apply nth_error_firstn_lt. exact Hi.
  - rewrite nth_error_write_in; [|lia|cbn [length]; lia|rewrite write_length; lia].
    rewrite Nat.sub_diag. reflexivity.
Qed.

Lemma holds_write_cstr v buf :
  length v < length buf -> holds (write 0 (cstr v) buf) v.
Proof.
  intros Hb. split.
  - intros i Hi. rewrite nth_error_write_in; [|lia|rewrite cstr_length; lia|lia].
    rewrite Nat.sub_0_r. apply nth_error_cstr_lt. exact Hi.
  - rewrite nth_error_write_in; [|lia|rewrite cstr_length; lia|lia].
    rewrite Nat.sub_0_r. apply nth_error_cstr_end.
Qed.

Lemma holds_poke_same b w : holds b w -> holds (poke (length w) NUL b) w.
Proof.
  intros [H1 H2]. unfold poke. split.
  - intros i Hi. rewrite nth_error_write_out by lia. apply H1; exact Hi.
  - assert (length w < length b) by (apply nth_error_Some; congruence).
    rewrite nth_error_write_in; [|lia|cbn [length]; lia|lia]. rewrite Nat.sub_diag. reflexivity.
Qed.

Lemma holds_outside b b' w :
  holds b w -> (forall i, i <= length w -> nth_error b' i = nth_error b i) -> holds b' w.
Proof.
  intros [H1 H2] H. split.
  - intros i Hi. rewrite H by lia. apply H1; exact Hi.
  - rewrite H by lia. exact H2.
Qed.

(* ------------------------------------------------------------------ *)
(* what a getter with ENOBUFS + *size protocol has to satisfy           *)
(* ------------------------------------------------------------------ *)
Record refusing_spec (g : nat -> list N -> result) (tv : list N) (need : nat)
                     (P : list N -> list N -> Prop) : Prop := {
  rs_code : forall cap buf, 1 <= cap ->
      r_code (g cap buf) = UV_OK \/ r_code (g cap buf) = UV_ENOBUFS;
  rs_succ : forall cap buf, 1 <= cap <= length buf -> r_code (g cap buf) = UV_OK ->
      r_size (g cap buf) = length tv /\ P (r_buf (g cap buf)) tv;
  rs_retry : forall cap buf buf2, 1 <= cap -> r_code (g cap buf) = UV_ENOBUFS ->
      cap < r_size (g cap buf) /\ r_code (g (r_size (g cap buf)) buf2) = UV_OK;
  rs_ample : forall cap buf, need < cap -> r_code (g cap buf) = UV_OK
}.

Ltac res_simpl := cbn [r_code r_size r_buf fst snd] in *.
Ltac leb_case E :=
  match goal with
  | |- context [?a <=? ?b] => destruct (a <=? b) eqn:E; [apply Nat.leb_le in E | apply Nat.leb_gt in E]
  | |- context [?a <? ?b] => destruct (a <? b) eqn:E; [apply Nat.ltb_lt in E | apply Nat.ltb_ge in E]
  end.
Ltac leb_case_in H E :=
  match type of H with
  | context [?a <=? ?b] => destruct (a <=? b) eqn:E; [apply Nat.leb_le in E | apply Nat.leb_gt in E]
  | context [?a <? ?b] => destruct (a <? b) eqn:E; [apply Nat.ltb_lt in E | apply Nat.ltb_ge in E]
  end.

Lemma ok_ne_enobufs : UV_OK <> UV_ENOBUFS. Proof. discriminate. Qed.
Lemma enobufs_ne_ok : UV_ENOBUFS <> UV_OK. Proof. discriminate. Qed.

(* ---- uv_os_getenv (and the getters that are the same statements) ---- *)
Lemma getenv_nov value cap buf : same_beyond cap buf (r_buf (uv_os_getenv value cap buf)).
Proof.
  unfold uv_os_getenv. cbv zeta. leb_case E; res_simpl.
  - apply sb_refl.
  - apply sb_memcpy. lia.
Qed.

Lemma getenv_spec value : nonul value -> refusing_spec (uv_os_getenv value) value (length value) holds.
Proof.
  intros Hv. constructor; intros cap buf; unfold uv_os_getenv; cbv zeta;
    rewrite !(strlen_cstr' _ Hv).
  - intros _. leb_case E; res_simpl; auto.
  - intros Hc. leb_case E; res_simpl; intros Hr; [discriminate|]. split; [reflexivity|].
    unfold memcpy. rewrite firstn_cstr_all. apply holds_write_cstr. lia.
  - intros buf2 Hc. leb_case E; res_simpl; intros Hr; [|discriminate]. split; [lia|].
    leb_case E2; res_simpl; [lia|reflexivity].
  - intros Hc. leb_case E; res_simpl; [lia|reflexivity].
Qed.

Lemma homedir_eq home pw cap buf :
  uv_os_homedir home pw cap buf =
  uv_os_getenv (match home with Some v => v | None => pw end) cap buf.
Proof. destruct home; reflexivity. Qed.

Lemma hostname_eq value cap buf :
  uv_os_gethostname value cap buf = uv_os_getenv (firstn hostname_max value) cap buf.
Proof. reflexivity. Qed.

Lemma fs_poll_eq active value cap buf :
  uv_fs_poll_getpath active value cap buf = uv_fs_event_getpath active value cap buf.
Proof. reflexivity. Qed.

Lemma holds_poke_write_all v buf :
  length v < length buf -> holds (poke (length v) NUL (write 0 v buf)) v.
Proof.
  intros H. pose proof (holds_poke_write v buf (length v) (Nat.le_refl _) H) as Hh.
  rewrite firstn_all in Hh. exact Hh.
Qed.

(* ---- uv_fs_event_getpath / uv_fs_poll_getpath ---- *)
Lemma getpath_nov active value cap buf :
  same_beyond cap buf (r_buf (uv_fs_event_getpath active value cap buf)).
Proof.
  unfold uv_fs_event_getpath. destruct active; cbn [negb]; cbv zeta; [|apply sb_refl].
  leb_case E; res_simpl.
  - apply sb_refl.
  - apply sb_poke_after; [apply sb_memcpy; lia|lia].
Qed.

Lemma getpath_spec value :
  nonul value -> refusing_spec (uv_fs_event_getpath true value) value (length value) holds.
Proof.
  intros Hv. constructor; intros cap buf; unfold uv_fs_event_getpath; cbn [negb]; cbv zeta;
    rewrite !(strlen_cstr' _ Hv).
  - intros _. leb_case E; res_simpl; auto.
  - intros Hc. leb_case E; res_simpl; intros Hr; [discriminate|]. split; [reflexivity|].
    unfold memcpy. rewrite firstn_cstr_val. apply holds_poke_write_all. lia.
  - intros buf2 Hc. leb_case E; res_simpl; intros Hr; [|discriminate]. split; [lia|].
    leb_case E2; res_simpl; [lia|reflexivity].
  - intros Hc. leb_case E; res_simpl; [lia|reflexivity].
Qed.

Lemma getpath_inactive value cap buf :
  uv_fs_event_getpath false value cap buf = (UV_EINVAL, 0, buf).
Proof. reflexivity. Qed.

(* ---- uv_if_indextoname ---- *)
Lemma ifname_nov value cap buf : same_beyond cap buf (r_buf (uv_if_indextoname value cap buf)).
Proof.
  unfold uv_if_indextoname. cbv zeta. leb_case E; res_simpl.
  - apply sb_refl.
  - apply sb_poke_after; [apply sb_memcpy; lia|lia].
Qed.

Lemma ifname_len value :
  nonul value -> length value <= 16 ->
  firstn 17 (cstr value) = cstr value /\ strnlen (firstn 17 (cstr value)) 17 = length value.
Proof.
  intros Hv Hl.
  assert (H : firstn 17 (cstr value) = cstr value)
    by (apply firstn_all2; rewrite cstr_length; lia).
  split; [exact H|]. unfold strnlen. rewrite H, H. apply strlen_cstr'. exact Hv.
Qed.

Lemma ifname_spec value :
  nonul value -> length value <= 16 -> refusing_spec (uv_if_indextoname value) value (length value) holds.
Proof.
  intros Hv Hl. destruct (ifname_len value Hv Hl) as [H1 H2].
  constructor; intros cap buf; unfold uv_if_indextoname; cbv zeta; rewrite !H2, ?H1.
  - intros _. leb_case E; res_simpl; auto.
  - intros Hc. leb_case E; res_simpl; intros Hr; [discriminate|]. split; [reflexivity|].
    unfold memcpy. rewrite firstn_cstr_val. apply holds_poke_write_all. lia.
  - intros buf2 Hc. leb_case E; res_simpl; intros Hr; [|discriminate]. split; [lia|].
    leb_case E2; res_simpl; [lia|reflexivity].
  - intros Hc. leb_case E; res_simpl; [lia|reflexivity].
Qed.

(* ---- uv_get_process_title (no size out-parameter) ---- *)
Lemma title_nov value cap buf :
  1 <= cap -> same_beyond cap buf (r_buf (uv_get_process_title value cap buf)).
Proof.
  intros Hc. unfold uv_get_process_title. cbv zeta. leb_case E; res_simpl.
  - apply sb_refl.
  - apply sb_poke_after; [|lia].
    destruct (negb _); [apply sb_memcpy; lia|apply sb_refl].
Qed.

Lemma title_spec value cap buf :
  nonul value -> 1 <= cap <= length buf ->
  (cap <= length value /\ uv_get_process_title value cap buf = (UV_ENOBUFS, cap, buf)) \/
  (length value < cap /\ r_code (uv_get_process_title value cap buf) = UV_OK /\
   holds (r_buf (uv_get_process_title value cap buf)) value).
Proof.
  intros Hv Hc. unfold uv_get_process_title. cbv zeta. rewrite !(strlen_cstr' _ Hv).
  leb_case E; res_simpl; [left; auto|right]. split; [exact E|]. split; [reflexivity|].
  destruct (Nat.eqb (length value) 0) eqn:E0; cbn [negb].
  - apply Nat.eqb_eq in E0. destruct value; [|discriminate]. cbn [length].
    split; [cbn [length]; intros i Hi; lia|].
    unfold poke. rewrite nth_error_write_in; [reflexivity|lia|cbn [length]; lia|lia].
  - unfold memcpy. rewrite firstn_cstr_all. apply holds_poke_same.
    apply holds_write_cstr. lia.
Qed.

(* ------------------------------------------------------------------ *)
(* truncating getters                                                   *)
(* ------------------------------------------------------------------ *)
Lemma firstn_cstr_le k v : k <= length v -> firstn k (cstr v) = firstn k v.
Proof.
  intros H. unfold cstr. rewrite firstn_app.
  replace (k - length v) with 0 by lia. cbn [firstn]. apply app_nil_r.
Qed.

Lemma holds_trunc v buf k :
  k <= length v -> k < length buf ->
  holds (poke k NUL (write 0 (firstn k v) buf)) (firstn k v).
Proof.
  intros Hk Hb.
  pose proof (holds_poke_write (firstn k v) buf k) as H.
  rewrite firstn_length, Nat.min_l in H by exact Hk.
  specialize (H (Nat.le_refl _) Hb). rewrite firstn_firstn, Nat.min_id in H. exact H.
Qed.

Lemma holds_nil_poke buf : 0 < length buf -> holds (poke 0 NUL buf) [].
Proof.
  intros H. split; [cbn [length]; intros i Hi; lia|]. cbn [length]. unfold poke.
  rewrite nth_error_write_in; [reflexivity|lia|cbn [length]; lia|lia].
Qed.

(* the longest prefix that fits, terminated *)
Definition trunc_ok (value : list N) (cap : nat) (r : result) : Prop :=
  r_code r = UV_OK /\
  holds (r_buf r) (firstn (Nat.min (length value) (cap - 1)) value).

(* ---- uv_exepath ---- *)
Lemma exepath_nov value cap buf :
  1 <= cap -> same_beyond cap buf (r_buf (uv_exepath value cap buf)).
Proof.
  intros Hc. unfold uv_exepath, readlink. cbv zeta. leb_case E; res_simpl.
  - apply sb_poke_after; [|lia]. apply sb_write. rewrite firstn_length. lia.
  - apply sb_poke. lia.
Qed.

Lemma exepath_spec value cap buf :
  1 <= cap <= length buf ->
  trunc_ok value cap (uv_exepath value cap buf) /\
  r_size (uv_exepath value cap buf) = Nat.min (length value) (cap - 1).
Proof.
  intros Hc. unfold trunc_ok, uv_exepath, readlink. cbv zeta. leb_case E; res_simpl.
  - split; [split; [reflexivity|]|reflexivity]. apply holds_trunc; lia.
  - replace (cap - 1) with 0 by lia. rewrite Nat.min_0_r. cbn [firstn].
    split; [split; [reflexivity|]|reflexivity]. apply holds_nil_poke. lia.
Qed.

(* ---- snprintf("%s") : uv_strerror_r, uv_err_name_r of an unknown code ---- *)
Lemma snprintf_nov dst n s : same_beyond n dst (snprintf_s dst n s).
Proof.
  unfold snprintf_s. destruct n as [|m]; [apply sb_refl|]. cbv zeta.
  apply sb_poke_after; [|lia]. apply sb_write. rewrite firstn_length. lia.
Qed.

Lemma snprintf_spec value cap buf :
  nonul value -> 1 <= cap <= length buf ->
  holds (snprintf_s buf cap (cstr value)) (firstn (Nat.min (length value) (cap - 1)) value).
Proof.
  intros Hv Hc. unfold snprintf_s. destruct cap as [|m]; [lia|]. cbv zeta.
  rewrite (strlen_cstr' _ Hv). replace (S m - 1) with m by lia.
  rewrite firstn_cstr_le by lia. apply holds_trunc; lia.
Qed.

(* ---- uv_thread_getname ---- *)
Lemma thread_nov value cap buf :
  1 <= cap -> same_beyond cap buf (r_buf (uv_thread_getname value cap buf)).
Proof.
  intros Hc. unfold uv_thread_getname, strncpy. cbv zeta. res_simpl.
  apply sb_poke_after; [|lia]. apply sb_write. rewrite firstn_length. lia.
Qed.

Lemma thread_spec value cap buf :
  nonul value -> 1 <= cap <= length buf ->
  trunc_ok value cap (uv_thread_getname value cap buf).
Proof.
  intros Hv Hc. unfold trunc_ok, uv_thread_getname, strncpy. cbv zeta. res_simpl.
  split; [reflexivity|]. rewrite (strlen_cstr' _ Hv), firstn_cstr_val.
  set (k := Nat.min (length value) (cap - 1)).
  assert (Hlen : length (firstn (cap - 1) (value ++ repeat NUL (cap - 1))) = cap - 1).
  { rewrite firstn_length, app_length, repeat_length. lia. }
  unfold holds. rewrite firstn_length. fold k. replace (Nat.min k (length value)) with k by lia.
  unfold poke. split.
  - intros i Hi. rewrite nth_error_write_out by lia.
    rewrite nth_error_write_in by lia. rewrite Nat.sub_0_r.
    rewrite !nth_error_firstn_lt by lia. apply nth_error_app1. lia.
  - destruct (Nat.eq_dec k (cap - 1)) as [Hk|Hk].
    + rewrite Hk. rewrite nth_error_write_in; [|lia|cbn [length]; lia|rewrite write_length; lia].
      rewrite Nat.sub_diag. reflexivity.
    + rewrite nth_error_write_out by lia.
      rewrite nth_error_write_in by lia. rewrite Nat.sub_0_r.
      rewrite nth_error_firstn_lt by lia. rewrite nth_error_app2 by lia.
      apply nth_error_repeat_lt. lia.
Qed.

(* ---- uv__strscpy ---- *)
Lemma strscpy_loop_nov cap : forall left d s i,
  i + left <= cap -> same_beyond cap d (fst (strscpy_loop d s left i)).
Proof.
  induction left as [|left IH]; intros d s i H; cbn [strscpy_loop].
  - destruct (Nat.eqb i 0) eqn:E; cbn [fst]; [apply sb_refl|].
    apply Nat.eqb_neq in E. apply sb_poke. lia.
  - cbv zeta. destruct (N.eqb (hd NUL s) NUL); cbn [fst].
    + apply sb_poke. lia.
    + eapply sb_trans; [apply (sb_poke cap i (hd NUL s) d); lia|]. apply IH. lia.
Qed.

Lemma strscpy_loop_spec : forall left v d i,
  nonul v -> i + S left <= length d ->
  let r := fst (strscpy_loop d (cstr v) (S left) i) in
  let k := Nat.min (length v) left in
  (forall j, j < i -> nth_error r j = nth_error d j) /\
  (forall t, t < k -> nth_error r (i + t) = nth_error v t) /\
  nth_error r (i + k) = Some NUL.
Proof.
  induction left as [|left IH]; intros v d i Hv Hd; cbv zeta.
  - (* one byte of room: it becomes the terminator *)
    rewrite Nat.min_0_r. rewrite Nat.add_0_r.
    cbn [strscpy_loop]. cbv zeta. destruct v as [|x xs].
    + cbn [cstr app hd]. rewrite N.eqb_refl. cbn [fst]. unfold poke. split; [|split].
      * intros j Hj. apply nth_error_write_out. lia.
      * intros t Ht. lia.
      * rewrite nth_error_write_in; [|lia|cbn [length]; lia|lia]. rewrite Nat.sub_diag. reflexivity.
    + inversion Hv as [|? ? Hx Hxs]; subst. apply N.eqb_neq in Hx.
      cbn [cstr app hd tl]. rewrite Hx. cbn [Nat.eqb fst].
      replace (S i - 1) with i by lia. unfold poke. split; [|split].
      * intros j Hj. rewrite !nth_error_write_out by lia. reflexivity.
      * intros t Ht. lia.
      * rewrite nth_error_write_in; [|lia|cbn [length]; lia|rewrite write_length; lia].
        rewrite Nat.sub_diag. reflexivity.
  - destruct v as [|x xs].
    + cbn [length Nat.min]. rewrite Nat.add_0_r.
      cbn [strscpy_loop]. cbv zeta. cbn [cstr app hd]. rewrite N.eqb_refl. cbn [fst].
      unfold poke. split; [|split].
      * intros j Hj. apply nth_error_write_out. lia.
      * intros t Ht. lia.
      * rewrite nth_error_write_in; [|lia|cbn [length]; lia|lia]. rewrite Nat.sub_diag. reflexivity.
    + inversion Hv as [|? ? Hx Hxs]; subst. pose proof Hx as Hx'. apply N.eqb_neq in Hx'.
      change (strscpy_loop d (cstr (x :: xs)) (S (S left)) i)
        with (let c := hd NUL (cstr (x :: xs)) in
              let d1 := poke i c d in
              if N.eqb c NUL then (d1, Z.of_nat i)
              else strscpy_loop d1 (tl (cstr (x :: xs))) (S left) (S i)).
      cbv zeta. cbn [cstr app hd tl]. rewrite Hx'.
      change (xs ++ [NUL]) with (cstr xs).
      specialize (IH xs (poke i x d) (S i) Hxs).
      assert (Hd1 : S i + S left <= length (poke i x d)) by (unfold poke; rewrite write_length; lia).
      specialize (IH Hd1). cbv zeta in IH. destruct IH as (I1 & I2 & I3).
      cbn [length]. rewrite <- Nat.succ_min_distr.
      set (r := fst (strscpy_loop (poke i x d) (cstr xs) (S left) (S i))) in *.
      split; [|split].
      * intros j Hj. rewrite I1 by lia. unfold poke. apply nth_error_write_out. lia.
      * intros t Ht. destruct t as [|t].
        -- rewrite Nat.add_0_r. rewrite I1 by lia. unfold poke.
           rewrite nth_error_write_in; [|lia|cbn [length]; lia|lia]. rewrite Nat.sub_diag. reflexivity.
        -- replace (i + S t) with (S i + t) by lia. cbn [nth_error]. apply I2. lia.
      * replace (i + S (Nat.min (length xs) left)) with (S i + Nat.min (length xs) left) by lia.
        exact I3.
Qed.

Lemma strscpy_spec value cap buf :
  nonul value -> 1 <= cap <= length buf ->
  holds (fst (uv__strscpy buf (cstr value) cap)) (firstn (Nat.min (length value) (cap - 1)) value).
Proof.
  intros Hv Hc. unfold uv__strscpy. destruct cap as [|m]; [lia|].
  pose proof (strscpy_loop_spec m value buf 0 Hv) as H. cbv zeta in H.
  destruct H as (_ & H2 & H3); [lia|]. replace (S m - 1) with m by lia.
  unfold holds. rewrite firstn_length.
  replace (Nat.min (Nat.min (length value) m) (length value)) with (Nat.min (length value) m) by lia.
  split.
  - intros i Hi. specialize (H2 i Hi). cbn [Nat.add] in H2. rewrite H2.
    symmetry. apply nth_error_firstn_lt. exact Hi.
  - cbn [Nat.add] in H3. exact H3.
Qed.

(* ---- uv_err_name_r / uv_strerror_r ---- *)
Lemma errname_nov known value cap buf :
  same_beyond cap buf (r_buf (uv_err_name_r known value cap buf)).
Proof.
  unfold uv_err_name_r. destruct known; res_simpl.
  - apply strscpy_loop_nov. lia.
  - apply snprintf_nov.
Qed.

Lemma errname_spec known value cap buf :
  nonul value -> 1 <= cap <= length buf ->
  trunc_ok value cap (uv_err_name_r known value cap buf).
Proof.
  intros Hv Hc. unfold trunc_ok, uv_err_name_r. destruct known; res_simpl; (split; [reflexivity|]).
  - apply strscpy_spec; auto.
  - apply snprintf_spec; auto.
Qed.

Lemma strerror_eq value cap buf : uv_strerror_r value cap buf = uv_err_name_r false value cap buf.
Proof. reflexivity. Qed.

(* ------------------------------------------------------------------ *)
(* trailing slash: uv_os_tmpdir, uv_cwd                                 *)
(* ------------------------------------------------------------------ *)
Definition has_trailing_slash (v : list N) : bool :=
  (1 <? length v) && N.eqb (nth (length v - 1) v NUL) SLASH.

(* the value with one trailing slash removed (a lone "/" stays) *)
Definition trim_slash (v : list N) : list N :=
  if has_trailing_slash v then firstn (length v - 1) v else v.

Lemma nth_error_skipn_add {A} (l : list A) k i : nth_error (skipn k l) i = nth_error l (k + i).
Proof.
  revert l; induction k as [|k IH]; intros l; [reflexivity|].
  destruct l as [|x xs]; [cbn [skipn]; rewrite !nth_error_nil; reflexivity|]. cbn [skipn Nat.add nth_error]. apply IH.
Qed.

Lemma trim_slash_cases v :
  (has_trailing_slash v = false /\ trim_slash v = v) \/
  (has_trailing_slash v = true /\ 1 < length v /\ v = trim_slash v ++ [SLASH] /\
   length (trim_slash v) = length v - 1).
Proof.
  unfold trim_slash. destruct (has_trailing_slash v) eqn:E; [right|left; auto].
  unfold has_trailing_slash in E. apply andb_true_iff in E. destruct E as [E1 E2].
  apply Nat.ltb_lt in E1. apply N.eqb_eq in E2.
  split; [reflexivity|]. split; [exact E1|]. split.
  - rewrite <- (firstn_skipn (length v - 1) v) at 1. f_equal.
    apply nth_error_ext_eq. intros i. destruct i as [|i].
    + rewrite nth_error_skipn_add, Nat.add_0_r. cbn [nth_error]. rewrite <- E2.
      apply nth_error_nth'. lia.
    + rewrite nth_error_skipn_add. cbn [nth_error]. rewrite nth_error_nil. apply nth_error_None. lia.
  - rewrite firstn_length. lia.
Qed.

Lemma holds_peek b w i : holds b w -> i < length w -> peek i b = nth i w NUL.
Proof.
  intros [H _] Hi. apply nth_peek. rewrite H by exact Hi. apply nth_error_nth'. exact Hi.
Qed.

Lemma holds_poke_shorter b w k : holds b w -> k <= length w -> holds (poke k NUL b) (firstn k w).
Proof.
  intros [H1 H2] Hk. assert (Hlen : length w < length b) by (apply nth_error_Some; congruence).
  unfold holds, poke. rewrite firstn_length, Nat.min_l by exact Hk. split.
  - intros i Hi. rewrite nth_error_write_out by lia. rewrite H1 by lia.
    symmetry. apply nth_error_firstn_lt. exact Hi.
  - rewrite nth_error_write_in; [|lia|cbn [length]; lia|lia]. rewrite Nat.sub_diag. reflexivity.
Qed.

Lemma peek_cstr_last v : 1 < length v -> peek (length v - 1) (cstr v) = nth (length v - 1) v NUL.
Proof. intros H. unfold peek, cstr. apply app_nth1. lia. Qed.

(* ---- uv_os_tmpdir ---- *)
Lemma tmpdir_nov value cap buf : same_beyond cap buf (r_buf (uv_os_tmpdir_val value cap buf)).
Proof.
  unfold uv_os_tmpdir_val. cbv zeta. leb_case E; res_simpl; [apply sb_refl|].
  destruct (_ && _); (apply sb_poke_after; [apply sb_memcpy; lia|lia]).
Qed.

Lemma tmpdir_cond value :
  nonul value ->
  (1 <? strlen (cstr value)) && N.eqb (peek (strlen (cstr value) - 1) (cstr value)) SLASH
  = has_trailing_slash value.
Proof.
  intros Hv. rewrite (strlen_cstr' _ Hv). unfold has_trailing_slash.
  destruct (1 <? length value) eqn:E; cbn [andb]; [|reflexivity].
  apply Nat.ltb_lt in E. rewrite peek_cstr_last by exact E. reflexivity.
Qed.

Lemma tmpdir_spec value :
  nonul value ->
  refusing_spec (uv_os_tmpdir_val value) (trim_slash value) (length value) holds.
Proof.
  intros Hv. constructor; intros cap buf; unfold uv_os_tmpdir_val; cbv zeta;
    rewrite !(tmpdir_cond _ Hv); rewrite !(strlen_cstr' _ Hv).
  - intros _. leb_case E; res_simpl; auto.
  - intros Hc. leb_case E; res_simpl; intros Hr; [discriminate|].
    destruct (trim_slash_cases value) as [[Hs Ht]|(Hs & Hl & Hv' & Hlt)]; rewrite Hs.
    + rewrite Ht. split; [reflexivity|]. unfold memcpy. rewrite firstn_cstr_all.
      apply holds_poke_same. apply holds_write_cstr. lia.
    + rewrite Hlt. split; [reflexivity|]. unfold memcpy.
      replace (length value - 1 + 1) with (length value) by lia. rewrite firstn_cstr_val.
      unfold trim_slash. rewrite Hs. apply holds_poke_write; lia.
  - intros buf2 Hc. leb_case E; res_simpl; intros Hr; [|discriminate]. split; [lia|].
    leb_case E2; res_simpl; [lia|reflexivity].
  - intros Hc. leb_case E; res_simpl; [lia|reflexivity].
Qed.

(* the size test comes before the trim: a buffer that could hold the result is refused *)
Lemma tmpdir_refuses_sufficient_buffer :
  exists value cap buf, nonul value /\ length (trim_slash value) < cap <= length buf /\
    r_code (uv_os_tmpdir_val value cap buf) = UV_ENOBUFS.
Proof.
  exists [47; 116; 109; 112; 47]%N, 5, (repeat 170%N 5). split.
  - repeat constructor; discriminate.
  - vm_compute. split; [split; lia|reflexivity].
Qed.

(* ---- uv__pipe_getsockpeername ---- *)
Lemma write_nil off buf : write off [] buf = buf.
Proof.
  revert off; induction buf as [|b r IH]; intros off; cbn [write]; auto.
  destruct off; auto. f_equal. apply IH.
Qed.

Lemma strlen_firstn_pad v n m :
  nonul v -> length v <= n -> strlen (firstn n (v ++ repeat NUL m)) = length v.
Proof.
  intros Hv. revert n. induction Hv as [|c v Hc Hv IH]; intros n Hn.
  - cbn [app length]. destruct n; [reflexivity|]. destruct m; reflexivity.
  - cbn [length] in Hn. destruct n as [|n]; [lia|]. cbn [app firstn strlen length].
    apply N.eqb_neq in Hc. rewrite Hc. f_equal. apply IH. lia.
Qed.

Lemma firstn_firstn_pad (v pad : list N) n :
  length v <= n -> firstn (length v) (firstn n (v ++ pad)) = v.
Proof.
  intros H. rewrite firstn_firstn, Nat.min_l by exact H.
  rewrite firstn_app, Nat.sub_diag, firstn_all. cbn [firstn]. apply app_nil_r.
Qed.

Definition sun_of (value : list N) : list N :=
  firstn sun_path_len (value ++ repeat NUL sun_path_len).

Lemma sun_of_length value : length (sun_of value) = sun_path_len.
Proof. unfold sun_of. rewrite firstn_length, app_length, repeat_length. lia. Qed.

Lemma peek0_sun_of value : peek 0 (sun_of value) = hd NUL value.
Proof. destruct value; reflexivity. Qed.

Lemma pipe_nov value cap buf :
  1 <= cap -> same_beyond cap buf (r_buf (uv_pipe_getname value cap buf)).
Proof.
  intros Hc. unfold uv_pipe_getname. fold (sun_of value). cbv zeta.
  rewrite peek0_sun_of.
  destruct (N.eqb (hd NUL value) NUL) eqn:Ea.
  - (* abstract *)
    leb_case E; res_simpl; [apply sb_refl|].
    destruct (negb _) eqn:Ep; [|apply sb_memcpy; lia].
    apply sb_poke_after; [apply sb_memcpy; lia|].
    destruct value as [|v0 vs]; [cbn [length]; lia|]. exfalso.
    cbn [hd] in Ea. apply N.eqb_eq in Ea. subst v0.
    unfold memcpy, sun_of in Ep. cbn [length] in Ep.
    change (firstn sun_path_len ((NUL :: vs) ++ repeat NUL sun_path_len))
      with (NUL :: firstn 107 (vs ++ repeat NUL sun_path_len)) in Ep.
    cbn [firstn] in Ep. destruct buf; cbn in Ep; discriminate.
  - leb_case E; res_simpl; [apply sb_refl|].
    destruct (negb _); [|apply sb_memcpy; lia].
    apply sb_poke_after; [apply sb_memcpy; lia|lia].
Qed.

(* a path socket: the name is a non-empty C string *)
Lemma pipe_path_spec value :
  nonul value -> 1 <= length value <= sun_path_len ->
  refusing_spec (uv_pipe_getname value) value (length value) holds.
Proof.
  intros Hv Hl.
  assert (Hhd : N.eqb (hd NUL value) NUL = false).
  { destruct value as [|v0 vs]; [cbn in Hl; lia|]. inversion Hv; subst. apply N.eqb_neq. assumption. }
  assert (Hsl : strnlen (sun_of value) sun_path_len = length value).
  { unfold strnlen. rewrite firstn_all2 by (rewrite sun_of_length; lia).
    unfold sun_of. apply strlen_firstn_pad; [exact Hv|lia]. }
  constructor; intros cap buf; unfold uv_pipe_getname; fold (sun_of value); cbv zeta;
    rewrite !peek0_sun_of, !Hhd, !Hsl.
  - intros _. leb_case E; res_simpl; auto.
  - intros Hc. leb_case E; res_simpl; intros Hr; [discriminate|]. split; [reflexivity|].
    unfold memcpy, sun_of. rewrite firstn_firstn_pad by lia.
    assert (Hp : N.eqb (peek 0 (write 0 value buf)) NUL = false).
    { destruct value as [|v0 vs]; [cbn in Hl; lia|]. destruct buf as [|b r]; [cbn in Hc; lia|].
      cbn [write peek nth hd] in *. exact Hhd. }
    rewrite Hp. cbn [negb]. apply holds_poke_write_all. lia.
  - intros buf2 Hc. leb_case E; res_simpl; intros Hr; [|discriminate]. split; [lia|].
    leb_case E2; res_simpl; [lia|reflexivity].
  - intros Hc. leb_case E; res_simpl; [lia|reflexivity].
Qed.

(* an abstract (or absent) name: the reported length is authoritative, the
   bytes are the name, and the result reads as the empty C string *)
Definition holds_abstract (b w : list N) : Prop :=
  (forall i, i < length w -> nth_error b i = nth_error w i) /\ nth_error b 0 = Some NUL.

Lemma pipe_abstract_spec value :
  hd NUL value = NUL -> length value <= sun_path_len ->
  refusing_spec (uv_pipe_getname value) value (length value) holds_abstract.
Proof.
  intros Hh Hl.
  assert (Hhd : N.eqb (hd NUL value) NUL = true) by (rewrite Hh; reflexivity).
  constructor; intros cap buf; unfold uv_pipe_getname; fold (sun_of value); cbv zeta;
    rewrite !peek0_sun_of, !Hhd, !Nat.add_0_r.
  - intros _. leb_case E; res_simpl; auto.
  - intros Hc. leb_case E; res_simpl; intros Hr; [discriminate|]. split; [reflexivity|].
    unfold memcpy, sun_of. rewrite firstn_firstn_pad by lia.
    destruct value as [|v0 vs].
    + rewrite write_nil. destruct buf as [|b r]; [cbn in Hc; lia|].
      destruct (N.eqb (peek 0 (b :: r)) NUL) eqn:Ep; cbn [negb].
      * split; [cbn [length]; intros i Hi; lia|]. cbn [peek nth] in Ep. apply N.eqb_eq in Ep.
        subst b. reflexivity.
      * split; [cbn [length]; intros i Hi; lia|]. reflexivity.
    + cbn [hd] in Hh. subst v0. destruct buf as [|b r]; [cbn in Hc; lia|].
      cbn [write peek nth]. rewrite N.eqb_refl. cbn [negb]. split; [|reflexivity].
      intros i Hi. change (NUL :: write 0 vs r) with (write 0 (NUL :: vs) (b :: r)).
      rewrite nth_error_write_in by lia. rewrite Nat.sub_0_r. reflexivity.
  - intros buf2 Hc. leb_case E; res_simpl; intros Hr; [|discriminate]. split; [lia|].
    leb_case E2; res_simpl; [lia|reflexivity].
  - intros Hc. leb_case E; res_simpl; [lia|reflexivity].
Qed.

(* ---- uv_cwd ---- *)
Lemma cwd_fixup_nov b cap : strlen b <= cap -> same_beyond cap b (snd (cwd_fixup b)).
Proof.
  intros H. unfold cwd_fixup. cbv zeta. destruct (_ && _) eqn:E; cbn [snd]; [|apply sb_refl].
  apply andb_true_iff in E. destruct E as [E _]. apply Nat.ltb_lt in E. apply sb_poke. lia.
Qed.

Lemma cwd_nov pmax value junk cap buf :
  same_beyond cap buf (r_buf (uv_cwd_p pmax value junk cap buf)).
Proof.
  unfold uv_cwd_p, getcwd. cbv zeta.
  assert (Hm : same_beyond cap buf (write 0 (firstn cap junk) buf))
    by (apply sb_write; rewrite firstn_length; lia).
  destruct (length value <? cap) eqn:E; cbv beta iota.
  - apply Nat.ltb_lt in E.
    destruct (cwd_fixup _) as [size b2] eqn:Ef. res_simpl.
    change b2 with (snd (size, b2)). rewrite <- Ef.
    eapply sb_trans; [exact Hm|]. eapply sb_trans; [|apply cwd_fixup_nov].
    + apply sb_write. rewrite cstr_length. lia.
    + pose proof (strlen_write_cstr_le value (write 0 (firstn cap junk) buf)) as Hs.
      unfold cstr. lia.
  - destruct (length value <? S pmax); cbv beta iota.
    + destruct (cwd_fixup _) as [size b2]. res_simpl. exact Hm.
    + res_simpl. exact Hm.
Qed.

Lemma cwd_fixup_spec b v :
  nonul v -> holds b v ->
  fst (cwd_fixup b) = length (trim_slash v) /\ holds (snd (cwd_fixup b)) (trim_slash v).
Proof.
  intros Hv Hb. unfold cwd_fixup. cbv zeta. rewrite (holds_strlen b v Hv Hb).
  assert (Hc : (1 <? length v) && N.eqb (peek (length v - 1) b) SLASH = has_trailing_slash v).
  { unfold has_trailing_slash. destruct (1 <? length v) eqn:E; cbn [andb]; [|reflexivity].
    apply Nat.ltb_lt in E. rewrite (holds_peek b v) by (auto; lia). reflexivity. }
  rewrite Hc. destruct (trim_slash_cases v) as [[Hs Ht]|(Hs & Hl & Hv' & Hlt)]; rewrite Hs; cbn [fst snd].
  - rewrite Ht. auto.
  - split; [lia|]. unfold trim_slash. rewrite Hs. apply holds_poke_shorter; [exact Hb|lia].
Qed.

(* complete description of uv_cwd *)
Lemma cwd_total pmax value junk cap buf :
  nonul value -> 1 <= cap <= length buf ->
  (length value < cap /\
   r_code (uv_cwd_p pmax value junk cap buf) = UV_OK /\
   r_size (uv_cwd_p pmax value junk cap buf) = length (trim_slash value) /\
   holds (r_buf (uv_cwd_p pmax value junk cap buf)) (trim_slash value)) \/
  (cap <= length value <= pmax /\
   r_code (uv_cwd_p pmax value junk cap buf) = UV_ENOBUFS /\
   r_size (uv_cwd_p pmax value junk cap buf) = length (trim_slash value) + 1) \/
  (cap <= length value /\ pmax < length value /\
   uv_cwd_p pmax value junk cap buf = (UV_ERANGE, cap, write 0 (firstn cap junk) buf)).
Proof.
  intros Hv Hc. unfold uv_cwd_p, getcwd. cbv zeta.
  destruct (length value <? cap) eqn:E; cbv beta iota.
  - apply Nat.ltb_lt in E. left. split; [exact E|].
    set (b1 := write 0 (cstr value) (write 0 (firstn cap junk) buf)).
    assert (Hb : holds b1 value) by (apply holds_write_cstr; rewrite write_length; lia).
    destruct (cwd_fixup_spec b1 value Hv Hb) as [F1 F2].
    destruct (cwd_fixup b1) as [size b2]. res_simpl. auto.
  - apply Nat.ltb_ge in E. right.
    destruct (length value <? S pmax) eqn:E2; cbv beta iota.
    + apply Nat.ltb_lt in E2. left. split; [lia|].
      set (sc := write 0 (cstr value) (write 0 (firstn (S pmax) junk) (repeat NUL (S pmax)))).
      assert (Hb : holds sc value)
        by (apply holds_write_cstr; rewrite write_length, repeat_length; lia).
      destruct (cwd_fixup_spec sc value Hv Hb) as [F1 F2].
      destruct (cwd_fixup sc) as [size b2]. res_simpl. split; [reflexivity|]. lia.
    + apply Nat.ltb_ge in E2. right. split; [exact E|]. split; [lia|reflexivity].
Qed.

(* the clauses of the property, for working directories that fit the scratch buffer *)
Lemma cwd_code pmax value junk cap buf :
  nonul value -> 1 <= cap <= length buf -> length value <= pmax ->
  r_code (uv_cwd_p pmax value junk cap buf) = UV_OK \/
  r_code (uv_cwd_p pmax value junk cap buf) = UV_ENOBUFS.
Proof.
  intros Hv Hc Hp. destruct (cwd_total pmax value junk cap buf Hv Hc) as [H|[H|H]].
  - left. tauto. - right. tauto. - lia.
Qed.

Lemma cwd_succ pmax value junk cap buf :
  nonul value -> 1 <= cap <= length buf ->
  r_code (uv_cwd_p pmax value junk cap buf) = UV_OK ->
  r_size (uv_cwd_p pmax value junk cap buf) = length (trim_slash value) /\
  holds (r_buf (uv_cwd_p pmax value junk cap buf)) (trim_slash value).
Proof.
  intros Hv Hc Hr. destruct (cwd_total pmax value junk cap buf Hv Hc) as [H|[H|H]].
  - tauto.
  - destruct H as (_ & H & _). rewrite H in Hr. discriminate.
  - destruct H as (_ & _ & H). rewrite H in Hr. discriminate.
Qed.

Lemma cwd_retry pmax value junk junk2 cap buf buf2 :
  nonul value -> 1 <= cap <= length buf ->
  has_trailing_slash value = false ->
  r_code (uv_cwd_p pmax value junk cap buf) = UV_ENOBUFS ->
  let cap2 := r_size (uv_cwd_p pmax value junk cap buf) in
  cap2 <= length buf2 ->
  cap < cap2 /\ r_code (uv_cwd_p pmax value junk2 cap2 buf2) = UV_OK.
Proof.
  intros Hv Hc Hs Hr cap2 Hb2. subst cap2.
  assert (Ht : trim_slash value = value) by (unfold trim_slash; rewrite Hs; reflexivity).
  destruct (cwd_total pmax value junk cap buf Hv Hc) as [H|[H|H]].
  - destruct H as (_ & H & _). rewrite H in Hr. discriminate.
  - destruct H as (Hl & _ & Hsz). rewrite Hsz, Ht in *. split; [lia|].
    destruct (cwd_total pmax value junk2 (length value + 1) buf2 Hv) as [H2|[H2|H2]]; [lia| | |].
    + tauto. + lia. + lia.
  - destruct H as (_ & _ & H). rewrite H in Hr. discriminate.
Qed.

Lemma cwd_ample pmax value junk cap buf :
  nonul value -> 1 <= cap <= length buf -> length value < cap ->
  r_code (uv_cwd_p pmax value junk cap buf) = UV_OK.
Proof.
  intros Hv Hc Hl. destruct (cwd_total pmax value junk cap buf Hv Hc) as [H|[H|H]]; [tauto|lia|lia].
Qed.

(* beyond PATH_MAX: neither success nor UV_ENOBUFS, and *size is not updated *)
Lemma cwd_long pmax value junk cap buf :
  nonul value -> 1 <= cap <= length buf -> pmax < length value -> cap <= length value ->
  uv_cwd_p pmax value junk cap buf = (UV_ERANGE, cap, write 0 (firstn cap junk) buf).
Proof.
  intros Hv Hc Hp Hl. destruct (cwd_total pmax value junk cap buf Hv Hc) as [H|[H|H]]; [lia|lia|tauto].
Qed.

Definition long_cwd : list N := SLASH :: repeat 97%N path_max.

Lemma cwd_long_witness :
  nonul long_cwd /\ has_trailing_slash long_cwd = false /\
  uv_cwd long_cwd [] 16 (repeat 170%N 16) = (UV_ERANGE, 16, repeat 170%N 16).
Proof.
  split; [|split].
  - unfold long_cwd. constructor; [discriminate|]. apply Forall_forall. intros x Hx.
    apply repeat_spec in Hx. subst x. discriminate.
  - vm_compute. reflexivity.
  - vm_compute. reflexivity.
Qed.

(* a value ending in '/' (never produced by Linux getcwd except "/"): the size
   reported with UV_ENOBUFS is one too small *)
Lemma cwd_trailing_slash_retry_fails :
  exists value, nonul value /\ length value <= path_max /\
    r_code (uv_cwd value [] 1 [170%N]) = UV_ENOBUFS /\
    r_code (uv_cwd value [] (r_size (uv_cwd value [] 1 [170%N])) (repeat 170%N 3)) = UV_ENOBUFS.
Proof.
  exists [47; 97; 47]%N. split; [repeat constructor; discriminate|].
  split; [vm_compute; lia|]. split; vm_compute; reflexivity.
Qed.

(* ------------------------------------------------------------------ *)
(* the clauses of C19 as predicates on a getter applied to its oracle   *)
(* ------------------------------------------------------------------ *)
Definition no_overflow (g : nat -> list N -> result) : Prop :=
  forall cap buf, 1 <= cap -> same_beyond cap buf (r_buf (g cap buf)).

Definition terminated_on_success (g : nat -> list N -> result) : Prop :=
  forall cap buf, 1 <= cap <= length buf -> r_code (g cap buf) = UV_OK ->
    nth_error (r_buf (g cap buf)) (r_size (g cap buf)) = Some NUL.

Definition exact_on_success (g : nat -> list N -> result) (tv : list N) : Prop :=
  forall cap buf, 1 <= cap <= length buf -> r_code (g cap buf) = UV_OK ->
    r_size (g cap buf) = length tv /\ firstn (r_size (g cap buf)) (r_buf (g cap buf)) = tv.

(* success, or UV_ENOBUFS with a larger *size with which the next call succeeds *)
Definition refuses_properly (g : nat -> list N -> result) : Prop :=
  forall cap buf buf2, 1 <= cap <= length buf ->
    r_code (g cap buf) = UV_OK \/
    (r_code (g cap buf) = UV_ENOBUFS /\ cap < r_size (g cap buf) /\
     r_code (g (r_size (g cap buf)) buf2) = UV_OK).

Definition ample_succeeds (g : nat -> list N -> result) (need : nat) : Prop :=
  forall cap buf, need < cap -> r_code (g cap buf) = UV_OK.

(* truncating getters: always succeed with the longest prefix that fits, terminated *)
Definition truncates (g : nat -> list N -> result) (value : list N) : Prop :=
  forall cap buf, 1 <= cap <= length buf ->
    let k := Nat.min (length value) (cap - 1) in
    r_code (g cap buf) = UV_OK /\
    firstn k (r_buf (g cap buf)) = firstn k value /\
    nth_error (r_buf (g cap buf)) k = Some NUL.

Lemma holds_explicit b w : holds b w -> firstn (length w) b = w /\ nth_error b (length w) = Some NUL.
Proof. intros H. split; [apply holds_firstn; exact H|apply H]. Qed.

Section FromSpec.
Variables (g : nat -> list N -> result) (tv : list N) (need : nat).

Lemma spec_terminated : refusing_spec g tv need holds -> terminated_on_success g.
Proof.
  intros S cap buf Hc Hr. destruct (rs_succ _ _ _ _ S cap buf Hc Hr) as [Hs Hh].
  rewrite Hs. apply Hh.
Qed.

Lemma spec_exact : refusing_spec g tv need holds -> exact_on_success g tv.
Proof.
  intros S cap buf Hc Hr. destruct (rs_succ _ _ _ _ S cap buf Hc Hr) as [Hs Hh].
  rewrite Hs. split; [reflexivity|]. apply holds_firstn. exact Hh.
Qed.

Lemma spec_refuses P : refusing_spec g tv need P -> refuses_properly g.
Proof.
  intros S cap buf buf2 Hc. destruct (rs_code _ _ _ _ S cap buf (proj1 Hc)) as [H|H]; [left; exact H|].
  right. split; [exact H|]. apply (rs_retry _ _ _ _ S); [lia|exact H].
Qed.

Lemma spec_ample P : refusing_spec g tv need P -> ample_succeeds g need.
Proof. intros S. exact (rs_ample _ _ _ _ S). Qed.

Lemma spec_exact_abstract : refusing_spec g tv need holds_abstract -> exact_on_success g tv.
Proof.
  intros S cap buf Hc Hr. destruct (rs_succ _ _ _ _ S cap buf Hc Hr) as [Hs [Hh _]].
  rewrite Hs. split; [reflexivity|]. apply firstn_eq_of_nth. exact Hh.
Qed.

Lemma spec_term_abstract : refusing_spec g tv need holds_abstract ->
  forall cap buf, 1 <= cap <= length buf -> r_code (g cap buf) = UV_OK ->
    nth_error (r_buf (g cap buf)) 0 = Some NUL.
Proof. intros S cap buf Hc Hr. destruct (rs_succ _ _ _ _ S cap buf Hc Hr) as [_ [_ H]]. exact H. Qed.
End FromSpec.

Lemma trunc_ok_truncates g value :
  (forall cap buf, 1 <= cap <= length buf -> trunc_ok value cap (g cap buf)) -> truncates g value.
Proof.
  intros H cap buf Hc. cbv zeta. destruct (H cap buf Hc) as [Hr Hh]. split; [exact Hr|].
  destruct (holds_explicit _ _ Hh) as [H1 H2].
  rewrite firstn_length in H1, H2.
  replace (Nat.min (Nat.min (length value) (cap - 1)) (length value))
    with (Nat.min (length value) (cap - 1)) in H1, H2 by lia.
  auto.
Qed.

(* the value each getter is supposed to return *)
Definition homedir_value (home : option (list N)) (pw : list N) : list N :=
  match home with Some v => v | None => pw end.
Definition tmpdir_value (envs : list (option (list N))) : list N :=
  trim_slash (first_set envs tmp_default).

(* ---- C19_no_overflow ---- *)
Lemma all_no_overflow :
  forall (value junk : list N) (home : option (list N)) (envs : list (option (list N)))
         (active known : bool),
  no_overflow (uv_os_getenv value) /\
  no_overflow (uv_os_homedir home value) /\
  no_overflow (uv_os_tmpdir envs) /\
  no_overflow (uv_os_gethostname value) /\
  no_overflow (uv_cwd value junk) /\
  no_overflow (uv_fs_event_getpath active value) /\
  no_overflow (uv_fs_poll_getpath active value) /\
  no_overflow (uv_if_indextoname value) /\
  no_overflow (uv_pipe_getname value) /\
  no_overflow (uv_exepath value) /\
  no_overflow (uv_get_process_title value) /\
  no_overflow (uv_thread_getname value) /\
  no_overflow (uv_err_name_r known value) /\
  no_overflow (uv_strerror_r value).
Proof.
  intros. repeat match goal with |- _ /\ _ => split end; intros cap buf Hc.
  - apply getenv_nov.
  - rewrite homedir_eq. apply getenv_nov.
  - apply tmpdir_nov.
  - rewrite hostname_eq. apply getenv_nov.
  - apply cwd_nov.
  - apply getpath_nov.
  - apply getpath_nov.
  - apply ifname_nov.
  - apply pipe_nov; exact Hc.
  - apply exepath_nov; exact Hc.
  - apply title_nov; exact Hc.
  - apply thread_nov; exact Hc.
  - apply errname_nov.
  - rewrite strerror_eq. apply errname_nov.
Qed.

(* ---- specs of the getters that share uv_os_getenv's statements ---- *)
Lemma homedir_spec home pw :
  nonul (homedir_value home pw) ->
  refusing_spec (uv_os_homedir home pw) (homedir_value home pw) (length (homedir_value home pw)) holds.
Proof.
  intros Hv. pose proof (getenv_spec _ Hv) as S. destruct S as [S1 S2 S3 S4].
  constructor; intros cap buf; rewrite ?homedir_eq.
  - apply S1. - apply S2.
  - intros buf2. rewrite !homedir_eq. apply S3.
  - apply S4.
Qed.

Lemma hostname_spec value :
  nonul value ->
  refusing_spec (uv_os_gethostname value) (firstn hostname_max value)
                (length (firstn hostname_max value)) holds.
Proof. intros Hv. exact (getenv_spec _ (nonul_firstn hostname_max value Hv)). Qed.

Lemma tmpdir_full_spec envs :
  nonul (first_set envs tmp_default) ->
  refusing_spec (uv_os_tmpdir envs) (tmpdir_value envs) (length (first_set envs tmp_default)) holds.
Proof. intros Hv. exact (tmpdir_spec _ Hv). Qed.

(* ---- C19_terminated ---- *)
Lemma all_terminated :
  forall (value junk pw : list N) (home : option (list N)) (envs : list (option (list N)))
         (known : bool),
  nonul value -> nonul (homedir_value home pw) -> nonul (first_set envs tmp_default) ->
  terminated_on_success (uv_os_getenv value) /\
  terminated_on_success (uv_os_homedir home pw) /\
  terminated_on_success (uv_os_tmpdir envs) /\
  terminated_on_success (uv_os_gethostname value) /\
  terminated_on_success (uv_cwd value junk) /\
  terminated_on_success (uv_fs_event_getpath true value) /\
  terminated_on_success (uv_fs_poll_getpath true value) /\
  (length value <= 16 -> terminated_on_success (uv_if_indextoname value)) /\
  (1 <= length value <= sun_path_len -> terminated_on_success (uv_pipe_getname value)) /\
  (forall cap buf, 1 <= cap <= length buf ->
     r_code (uv_get_process_title value cap buf) = UV_OK ->
     nth_error (r_buf (uv_get_process_title value cap buf)) (length value) = Some NUL) /\
  (* the truncating getters terminate what they return, always *)
  terminated_on_success (uv_exepath value) /\
  (forall cap buf, 1 <= cap <= length buf ->
     nth_error (r_buf (uv_thread_getname value cap buf)) (Nat.min (length value) (cap - 1)) = Some NUL /\
     nth_error (r_buf (uv_err_name_r known value cap buf)) (Nat.min (length value) (cap - 1)) = Some NUL /\
     nth_error (r_buf (uv_strerror_r value cap buf)) (Nat.min (length value) (cap - 1)) = Some NUL).
Proof.
  intros value junk pw home envs known Hv Hh Ht.
  split; [exact (spec_terminated _ _ _ (getenv_spec _ Hv))|].
  split; [exact (spec_terminated _ _ _ (homedir_spec _ _ Hh))|].
  split; [exact (spec_terminated _ _ _ (tmpdir_full_spec _ Ht))|].
  split; [exact (spec_terminated _ _ _ (hostname_spec _ Hv))|].
  split.
  { intros cap buf Hc Hr. destruct (cwd_succ path_max value junk cap buf Hv Hc Hr) as [Hs Hb].
    unfold uv_cwd. rewrite Hs. apply Hb. }
  split; [exact (spec_terminated _ _ _ (getpath_spec _ Hv))|].
  split; [exact (spec_terminated _ _ _ (getpath_spec _ Hv))|].
  split; [intros Hl; exact (spec_terminated _ _ _ (ifname_spec _ Hv Hl))|].
  split; [intros Hl; exact (spec_terminated _ _ _ (pipe_path_spec _ Hv Hl))|].
  split.
  { intros cap buf Hc Hr. destruct (title_spec value cap buf Hv Hc) as [[_ H]|(_ & _ & H)].
    - rewrite H in Hr. discriminate.
    - apply H. }
  split.
  { intros cap buf Hc _. destruct (exepath_spec value cap buf Hc) as [[_ Hh'] Hs].
    rewrite Hs. destruct (holds_explicit _ _ Hh') as [_ H2]. rewrite firstn_length in H2.
    replace (Nat.min (Nat.min (length value) (cap - 1)) (length value))
      with (Nat.min (length value) (cap - 1)) in H2 by lia. exact H2. }
  intros cap buf Hc.
  pose proof (trunc_ok_truncates _ _ (fun c b H => thread_spec value c b Hv H) cap buf Hc) as T1.
  pose proof (trunc_ok_truncates _ _ (fun c b H => errname_spec known value c b Hv H) cap buf Hc) as T2.
  pose proof (trunc_ok_truncates _ _ (fun c b H => errname_spec false value c b Hv H) cap buf Hc) as T3.
  cbv zeta in T1, T2, T3. rewrite strerror_eq. tauto.
Qed.

(* ---- C19_success_exact ---- *)
Lemma all_success_exact :
  forall (value junk pw : list N) (home : option (list N)) (envs : list (option (list N))),
  nonul value -> nonul (homedir_value home pw) -> nonul (first_set envs tmp_default) ->
  exact_on_success (uv_os_getenv value) value /\
  exact_on_success (uv_os_homedir home pw) (homedir_value home pw) /\
  exact_on_success (uv_os_tmpdir envs) (tmpdir_value envs) /\
  exact_on_success (uv_os_gethostname value) (firstn hostname_max value) /\
  exact_on_success (uv_cwd value junk) (trim_slash value) /\
  exact_on_success (uv_fs_event_getpath true value) value /\
  exact_on_success (uv_fs_poll_getpath true value) value /\
  (length value <= 16 -> exact_on_success (uv_if_indextoname value) value) /\
  (1 <= length value <= sun_path_len -> exact_on_success (uv_pipe_getname value) value) /\
  (forall cap buf, 1 <= cap <= length buf ->
     r_code (uv_get_process_title value cap buf) = UV_OK ->
     firstn (length value) (r_buf (uv_get_process_title value cap buf)) = value).
Proof.
  intros value junk pw home envs Hv Hh Ht.
  split; [exact (spec_exact _ _ _ (getenv_spec _ Hv))|].
  split; [exact (spec_exact _ _ _ (homedir_spec _ _ Hh))|].
  split; [exact (spec_exact _ _ _ (tmpdir_full_spec _ Ht))|].
  split; [exact (spec_exact _ _ _ (hostname_spec _ Hv))|].
  split.
  { intros cap buf Hc Hr. destruct (cwd_succ path_max value junk cap buf Hv Hc Hr) as [Hs Hb].
    unfold uv_cwd. rewrite Hs. split; [reflexivity|]. apply holds_firstn. exact Hb. }
  split; [exact (spec_exact _ _ _ (getpath_spec _ Hv))|].
  split; [exact (spec_exact _ _ _ (getpath_spec _ Hv))|].
  split; [intros Hl; exact (spec_exact _ _ _ (ifname_spec _ Hv Hl))|].
  split; [intros Hl; exact (spec_exact _ _ _ (pipe_path_spec _ Hv Hl))|].
  intros cap buf Hc Hr. destruct (title_spec value cap buf Hv Hc) as [[_ H]|(_ & _ & H)].
  - rewrite H in Hr. discriminate.
  - apply holds_firstn. exact H.
Qed.

(* abstract / absent socket names: the bytes and the length are exact, buffer reads as "" *)
Lemma pipe_abstract_exact :
  forall value, hd NUL value = NUL -> length value <= sun_path_len ->
  exact_on_success (uv_pipe_getname value) value /\
  refuses_properly (uv_pipe_getname value) /\
  ample_succeeds (uv_pipe_getname value) (length value) /\
  (forall cap buf, 1 <= cap <= length buf -> r_code (uv_pipe_getname value cap buf) = UV_OK ->
     nth_error (r_buf (uv_pipe_getname value cap buf)) 0 = Some NUL).
Proof.
  intros value Hh Hl. pose proof (pipe_abstract_spec value Hh Hl) as S.
  split; [exact (spec_exact_abstract _ _ _ S)|].
  split; [exact (spec_refuses _ _ _ _ S)|].
  split; [exact (spec_ample _ _ _ _ S)|].
  exact (spec_term_abstract _ _ _ S).
Qed.

(* ---- C19_enobufs_retry ---- *)
Lemma all_enobufs_retry :
  forall (value pw : list N) (home : option (list N)) (envs : list (option (list N))),
  nonul value -> nonul (homedir_value home pw) -> nonul (first_set envs tmp_default) ->
  refuses_properly (uv_os_getenv value) /\
  refuses_properly (uv_os_homedir home pw) /\
  refuses_properly (uv_os_tmpdir envs) /\
  refuses_properly (uv_os_gethostname value) /\
  refuses_properly (uv_fs_event_getpath true value) /\
  refuses_properly (uv_fs_poll_getpath true value) /\
  (length value <= 16 -> refuses_properly (uv_if_indextoname value)) /\
  (1 <= length value <= sun_path_len -> refuses_properly (uv_pipe_getname value)) /\
  (* no size out-parameter: the call just fails, exactly when the title does not fit,
     and leaves the buffer alone *)
  (forall cap buf, 1 <= cap <= length buf ->
     (cap <= length value /\ uv_get_process_title value cap buf = (UV_ENOBUFS, cap, buf)) \/
     (length value < cap /\ r_code (uv_get_process_title value cap buf) = UV_OK)).
Proof.
  intros value pw home envs Hv Hh Ht.
  split; [exact (spec_refuses _ _ _ _ (getenv_spec _ Hv))|].
  split; [exact (spec_refuses _ _ _ _ (homedir_spec _ _ Hh))|].
  split; [exact (spec_refuses _ _ _ _ (tmpdir_full_spec _ Ht))|].
  split; [exact (spec_refuses _ _ _ _ (hostname_spec _ Hv))|].
  split; [exact (spec_refuses _ _ _ _ (getpath_spec _ Hv))|].
  split; [exact (spec_refuses _ _ _ _ (getpath_spec _ Hv))|].
  split; [intros Hl; exact (spec_refuses _ _ _ _ (ifname_spec _ Hv Hl))|].
  split; [intros Hl; exact (spec_refuses _ _ _ _ (pipe_path_spec _ Hv Hl))|].
  intros cap buf Hc. destruct (title_spec value cap buf Hv Hc) as [H|H]; [left|right]; tauto.
Qed.

(* uv_cwd: the statement of the retry clause ... *)
Definition cwd_refuses_properly (value : list N) : Prop :=
  forall junk junk2 cap buf buf2, 1 <= cap <= length buf ->
    let r := uv_cwd value junk cap buf in
    r_size r <= length buf2 ->
    r_code r = UV_OK \/
    (r_code r = UV_ENOBUFS /\ cap < r_size r /\
     r_code (uv_cwd value junk2 (r_size r) buf2) = UV_OK).

(* ... holds for working directories of at most PATH_MAX bytes ... *)
Lemma cwd_retry_partial :
  forall value, nonul value -> has_trailing_slash value = false ->
  length value <= path_max -> cwd_refuses_properly value.
Proof.
  intros value Hv Hs Hl junk junk2 cap buf buf2 Hc r Hb2. subst r. unfold uv_cwd in *.
  destruct (cwd_code path_max value junk cap buf Hv Hc Hl) as [H|H]; [left; exact H|right].
  split; [exact H|]. apply cwd_retry; auto.
Qed.

(* ... and fails beyond *)
Lemma cwd_long_refuted :
  exists value, nonul value /\ has_trailing_slash value = false /\ ~ cwd_refuses_properly value.
Proof.
  exists long_cwd. destruct cwd_long_witness as (Hv & Hs & Hw). split; [exact Hv|]. split; [exact Hs|].
  intros H.
  assert (P1 : 1 <= 16 <= length (repeat 170%N 16)) by (rewrite repeat_length; lia).
  specialize (H [] [] 16 (repeat 170%N 16) (repeat 170%N 16) P1). cbv zeta in H.
  rewrite Hw in H. res_simpl.
  assert (P2 : 16 <= length (repeat 170%N 16)) by (rewrite repeat_length; lia).
  specialize (H P2). destruct H as [H|[H _]]; discriminate.
Qed.

(* what uv_cwd does for every length of the working directory *)
Lemma cwd_behaviour :
  forall value junk cap buf, nonul value -> 1 <= cap <= length buf ->
  let r := uv_cwd value junk cap buf in
  (length value < cap ->
     r_code r = UV_OK /\ r_size r = length (trim_slash value) /\
     firstn (r_size r) (r_buf r) = trim_slash value /\ nth_error (r_buf r) (r_size r) = Some NUL) /\
  (cap <= length value <= path_max ->
     r_code r = UV_ENOBUFS /\ r_size r = length (trim_slash value) + 1) /\
  (cap <= length value -> path_max < length value ->
     r_code r = UV_ERANGE /\ r_size r = cap).
Proof.
  intros value junk cap buf Hv Hc r. subst r. unfold uv_cwd.
  destruct (cwd_total path_max value junk cap buf Hv Hc) as [H|[H|H]].
  - destruct H as (Hl & Hr & Hs & Hh). split; [intros _|split; intros; lia].
    destruct (holds_explicit _ _ Hh) as [E1 E2]. rewrite Hs. auto.
  - destruct H as (Hl & Hr & Hs). split; [intros; lia|split; [intros _; auto|intros; lia]].
  - destruct H as (Hl & Hp & Hr). split; [intros; lia|split; [intros; lia|intros _ _; rewrite Hr; auto]].
Qed.

(* ---- C19_truncating_prefix ---- *)
Lemma all_truncating :
  forall (value : list N) (known : bool),
  (truncates (uv_exepath value) value /\
   forall cap buf, 1 <= cap <= length buf ->
     r_size (uv_exepath value cap buf) = Nat.min (length value) (cap - 1)) /\
  (nonul value ->
   truncates (uv_thread_getname value) value /\
   truncates (uv_err_name_r known value) value /\
   truncates (uv_strerror_r value) value).
Proof.
  intros value known. split.
  - split.
    + apply trunc_ok_truncates. intros cap buf Hc. apply exepath_spec. exact Hc.
    + intros cap buf Hc. apply exepath_spec. exact Hc.
  - intros Hv. split; [|split].
    + apply trunc_ok_truncates. intros cap buf Hc. apply thread_spec; auto.
    + apply trunc_ok_truncates. intros cap buf Hc. apply errname_spec; auto.
    + apply trunc_ok_truncates. intros cap buf Hc. rewrite strerror_eq. apply errname_spec; auto.
Qed.

(* ---- a buffer longer than the value is always enough ---- *)
Lemma all_ample :
  forall (value junk pw : list N) (home : option (list N)) (envs : list (option (list N))),
  nonul value -> nonul (homedir_value home pw) -> nonul (first_set envs tmp_default) ->
  ample_succeeds (uv_os_getenv value) (length value) /\
  ample_succeeds (uv_os_homedir home pw) (length (homedir_value home pw)) /\
  ample_succeeds (uv_os_tmpdir envs) (length (first_set envs tmp_default)) /\
  ample_succeeds (uv_os_gethostname value) (length (firstn hostname_max value)) /\
  (forall cap buf, 1 <= cap <= length buf -> length value < cap ->
     r_code (uv_cwd value junk cap buf) = UV_OK) /\
  ample_succeeds (uv_fs_event_getpath true value) (length value) /\
  ample_succeeds (uv_fs_poll_getpath true value) (length value) /\
  (length value <= 16 -> ample_succeeds (uv_if_indextoname value) (length value)) /\
  (1 <= length value <= sun_path_len -> ample_succeeds (uv_pipe_getname value) (length value)).
Proof.
  intros value junk pw home envs Hv Hh Ht.
  split; [exact (spec_ample _ _ _ _ (getenv_spec _ Hv))|].
  split; [exact (spec_ample _ _ _ _ (homedir_spec _ _ Hh))|].
  split; [exact (spec_ample _ _ _ _ (tmpdir_full_spec _ Ht))|].
  split; [exact (spec_ample _ _ _ _ (hostname_spec _ Hv))|].
  split; [intros cap buf Hc Hl; apply cwd_ample; auto|].
  split; [exact (spec_ample _ _ _ _ (getpath_spec _ Hv))|].
  split; [exact (spec_ample _ _ _ _ (getpath_spec _ Hv))|].
  split; [intros Hl; exact (spec_ample _ _ _ _ (ifname_spec _ Hv Hl))|].
  intros Hl; exact (spec_ample _ _ _ _ (pipe_path_spec _ Hv Hl)).
Qed.
