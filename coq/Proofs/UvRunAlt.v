(* uv_run in the shape the proofs were written against: the liveness is
   re-sampled only on the path that skips the loop (when the initial timer
   pass of UV_RUN_DEFAULT set the stop flag), which is the only path where the
   re-sampled value of Model/LoopCore.v's [r1] is used. *)
From UV Require Import Lib.Base Model.LoopCore.
From Coq Require Import List Bool Arith.
Import ListNotations.

Definition uv_run_alt (fuel : nat) (s : lstate) (beh : nat -> list lop) (mode : nat)
  : lstate * list levent :=
  let r := loop_alive s in
  let s0 := if r then s else update_time s in
  let '(s1, e0) :=
    if Nat.eqb mode 0 && r && negb (stop_flag s0)
    then l_run_timers (update_time s0) beh else (s0, []) in
  let '(s2, e1, r') :=
    if r && negb (stop_flag s1) then run_loop fuel s1 beh mode
    else (s1, [], if Nat.eqb mode 0 && r && negb (stop_flag s0) && stop_flag s1
                  then loop_alive s1 else r) in
  (set_stop s2 false, e0 ++ e1 ++ [VRun r']).

Lemma uv_run_alt_eq fuel s beh mode : uv_run fuel s beh mode = uv_run_alt fuel s beh mode.
Proof.
  unfold uv_run, uv_run_alt. cbv zeta.
  destruct (if Nat.eqb mode 0 && loop_alive s && negb (stop_flag (if loop_alive s then s else update_time s))
            then _ else _) as [s1 e0].
  destruct (stop_flag s1) eqn:Es.
  - rewrite !andb_true_r. cbn [negb]. rewrite !andb_false_r. reflexivity.
  - rewrite !andb_false_r. reflexivity.
Qed.
