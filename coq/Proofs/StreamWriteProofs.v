(* Proofs about Model/StreamWrite.v (C05).  Method: every model function is
   shown to be a finite sequence of primitive steps [prim]; one invariant
   [Inv] is preserved by every primitive step; the theorems are read off
   [Inv] of the final state.  Progress (POLLOUT/pending) is proved
   function by function at the end. *)
From UV Require Import Lib.Base Model.StreamWrite.
From Coq Require Import Sorting.Sorted.

Local Open Scope N_scope.

(* ------------------------------------------------------------------ *)
(* arithmetic of buffers                                               *)
(* ------------------------------------------------------------------ *)
Lemma sumN_app l1 l2 : sumN (l1 ++ l2) = sumN l1 + sumN l2.
Proof. induction l1; simpl; lia. Qed.

Lemma sumN_firstn_le k l : sumN (firstn k l) <= sumN l.
Proof. revert k; induction l; intros [|k]; simpl; try lia. specialize (IHl k); lia. Qed.

Lemma offered_le l : offered l <= sumN l.
Proof. apply sumN_firstn_le. Qed.

Lemma upd_loop_spec bufs : forall n, n <= sumN bufs ->
  let '(tl, k) := upd_loop bufs n in
  length tl = length bufs /\ (k <= length bufs)%nat /\ sumN (skipn k tl) = sumN bufs - n.
Proof.
  induction bufs as [|b rest IH]; intros n Hn; simpl in *.
  - repeat split; auto; lia.
  - destruct (N.eqb_spec (b - N.min n b) 0) as [E|E].
    + destruct (N.ltb_spec 0 (n - N.min n b)) as [L|L].
      * specialize (IH (n - N.min n b)).
        destruct (upd_loop rest (n - N.min n b)) as [rest' k].
        destruct IH as (Hl & Hk & Hs); [lia|].
        simpl. repeat split; [congruence|lia|]. rewrite Hs. lia.
      * simpl. repeat split; auto; try lia.
    + simpl. repeat split; auto; try lia.
Qed.

Lemma sys_write_le o : forall off n o', sys_write o off = (WN n, o') -> n <= off.
Proof.
  induction o as [|a o IH]; intros off n o' H; cbn [sys_write] in H.
  - inversion H; lia.
  - destruct a as [m|e].
    + inversion H; subst. lia.
    + destruct (Pos.eqb e 4); [eauto|].
      destruct (Pos.eqb e 11 || Pos.eqb e 105); inversion H.
Qed.

Lemma sys_write_err o : forall off c o', sys_write o off = (WErr c, o') -> (c < 0)%Z.
Proof.
  induction o as [|a o IH]; intros off c o' H; cbn [sys_write] in H.
  - inversion H.
  - destruct a as [m|e]; [inversion H|].
    destruct (Pos.eqb e 4); [eauto|].
    destruct (Pos.eqb e 11 || Pos.eqb e 105); inversion H. lia.
Qed.

(* well-formed request: index in range, accepted + remaining = total *)
Definition rwf (r : req) : Prop :=
  (r_widx r <= length (r_bufs r))%nat /\ r_off r + req_size r = r_total r.

Lemma skipn_app_exact {A} (l1 l2 : list A) k : skipn (length l1 + k) (l1 ++ l2) = skipn k l2.
Proof. induction l1; simpl; auto. Qed.

Lemma req_update_spec r n : rwf r -> n <= req_size r ->
  rwf (req_update r n) /\ req_size (req_update r n) = req_size r - n /\
  r_id (req_update r n) = r_id r /\ r_total (req_update r n) = r_total r /\
  r_off (req_update r n) = r_off r + n /\ r_err (req_update r n) = r_err r /\
  r_freed (req_update r n) = r_freed r.
Proof.
  intros [Hw Ht] Hn. unfold req_update, req_size in *.
  pose proof (upd_loop_spec (skipn (r_widx r) (r_bufs r)) n Hn) as H.
  destruct (upd_loop (skipn (r_widx r) (r_bufs r)) n) as [tl k].
  destruct H as (Hl & Hk & Hs). simpl.
  assert (Hf : length (firstn (r_widx r) (r_bufs r)) = r_widx r) by (apply firstn_length_le; auto).
  rewrite skipn_length in Hl, Hk.
  assert (Hsk : skipn (r_widx r + k) (firstn (r_widx r) (r_bufs r) ++ tl) = skipn k tl).
  { rewrite <- Hf at 1. apply skipn_app_exact. }
  unfold rwf, req_size; simpl. rewrite Hsk, app_length, Hf, Hl. repeat split; try lia.
Qed.

Lemma req_done_size r : req_done r = true -> req_size r = 0.
Proof.
  unfold req_done, req_size. intros H. apply Nat.eqb_eq in H. rewrite H, skipn_all. reflexivity.
Qed.

(* ------------------------------------------------------------------ *)
(* primitive steps                                                     *)
(* ------------------------------------------------------------------ *)
Definition live (s : st) : list req := pq s ++ cq s ++ wq s.

Fixpoint sum_rem (l : list req) : N :=
  match l with [] => 0 | r :: t => req_size r + sum_rem t end.

Lemma sum_rem_app l1 l2 : sum_rem (l1 ++ l2) = sum_rem l1 + sum_rem l2.
Proof. induction l1; simpl; lia. Qed.

(* equal in every field the invariant reads (everything but armed, fed,
   oracle, pollw, cbn, closed, blocking, shutans) *)
Definition same_core (s s' : st) : Prop :=
  wq s' = wq s /\ cq s' = cq s /\ pq s' = pq s /\ wqs s' = wqs s /\ shutreq s' = shutreq s /\
  writable s' = writable s /\ shut s' = shut s /\ closing s' = closing s /\ fdopen s' = fdopen s /\
  next_id s' = next_id s /\ tr s' = tr s.

Definition call0 (s : st) (e : event) : st := ev e (set_next_id (S (next_id s)) s).

Inductive prim : st -> st -> Prop :=
| p_silent s s' : same_core s s' -> connecting s' = connecting s -> prim s s'
| p_chunk s r rest n : wq s = r :: rest -> n <= req_size r -> r_sh r = false ->
    prim s (ev (EChunk (r_id r) (r_off r) n) (set_wqs (wqs s - n) (set_wq (req_update r n :: rest) s)))
| p_finish s r rest : wq s = r :: rest -> req_done r = true -> prim s (finish_head r rest s)
| p_fail s r rest c : wq s = r :: rest -> (c < 0)%Z -> prim s (finish_head (set_err c r) rest s)
| p_write_fail s bufs e : check_before_write s = Some e ->
    prim s (ev (ERet (next_id s) e) (call0 s (EWrite (next_id s) (sumN bufs))))
| p_write_enq s bufs : check_before_write s = None ->
    prim s (set_wq (wq s ++ [mkReq (next_id s) (sumN bufs) bufs O 0 0%Z false false])
              (set_wqs (wqs s + sumN bufs) (call0 s (EWrite (next_id s) (sumN bufs)))))
| p_ret_ok s id : writable s = true -> In id (map r_id (live s)) -> prim s (ev (ERet id 0%Z) s)
| p_try_fail s bufs c : (c < 0)%Z ->
    prim s (ev (ETryRet (next_id s) c) (call0 s (ETry (next_id s) (sumN bufs))))
| p_try_ok s bufs n : wqs s = 0 -> writable s = true -> n <= sumN bufs ->
    prim s (ev (ETryRet (next_id s) (Z.of_N n))
              (ev (EChunk (next_id s) 0 n) (call0 s (ETry (next_id s) (sumN bufs)))))
| p_shut_fail s : prim s (ev (EShut UV_ENOTCONN) s)
| p_shut_accept s : writable s = true -> shutreq s = false ->
    prim s (ev (EShut 0%Z) (set_writable false (set_shutreq true s)))
| p_close s : prim s (set_fdopen false (set_writable false (set_fed false (set_armed false (set_closing true s)))))
| p_take s : pq s = [] -> prim s (set_pq (cq s) (set_cq [] s))
| p_cb s r rest : pq s = r :: rest ->
    prim s (ev (ECb (r_id r) (r_err r)
                    (wqs (if r_freed r then set_pq rest s else set_wqs (wqs (set_pq rest s) - req_size r) (set_pq rest s))))
               (if r_freed r then set_pq rest s else set_wqs (wqs (set_pq rest s) - req_size r) (set_pq rest s)))
| p_drain_cancel s : shutreq s = true -> wq s = [] -> cq s = [] -> pq s = [] ->
    prim s (ev (EShutCb UV_ECANCELED) (set_shutreq false s))
| p_drain_ok s : shutreq s = true -> wq s = [] -> cq s = [] -> pq s = [] -> connected s = true ->
    prim s (ev (EShutCb 0%Z) (set_shut true (ev (ESysShut 0%Z) (set_shutreq false s))))
| p_drain_err s a : shutreq s = true -> wq s = [] -> cq s = [] -> pq s = [] -> a <> 0%Z ->
    prim s (ev (EShutCb a) (ev (ESysShut a) (set_shutreq false s)))
| p_flush s : prim s (flush s)
| p_closecb s : prim s (ev ECloseCb s)
| p_q s : prim s (ev (EQ (wqs s)) s)
| p_conn_done s c : connecting s = true -> prim s (ev (EConnCb c) (set_connecting false s))
| p_fd s r rest : wq s = r :: rest -> r_sh r = true ->
    prim s (ev (EFd (r_id r)) (set_wq (clear_sh r :: rest) s))
| p_fdfail s r rest : wq s = r :: rest -> r_sh r = true -> prim s (ev (EFdFail (r_id r)) s)
| p_write2_fail s bufs e : check_before_write2 s = Some e ->
    prim s (ev (ERet (next_id s) e) (ev (EWrite2 (next_id s)) (call0 s (EWrite (next_id s) (sumN bufs)))))
| p_write2_enq s bufs : check_before_write2 s = None ->
    prim s (set_wq (wq s ++ [mkReq (next_id s) (sumN bufs) bufs O 0 0%Z false true])
              (set_wqs (wqs s + sumN bufs) (ev (EWrite2 (next_id s)) (call0 s (EWrite (next_id s) (sumN bufs))))))
| p_write_nomem s bufs : check_before_write s = None ->
    prim s (ev (ERet (next_id s) UV_ENOMEM) (call0 s (EWrite (next_id s) (sumN bufs))))
| p_write2_nomem s bufs : check_before_write2 s = None ->
    prim s (ev (ERet (next_id s) UV_ENOMEM) (ev (EWrite2 (next_id s)) (call0 s (EWrite (next_id s) (sumN bufs)))))
| p_connect_ev s c : c <> 0%Z -> prim s (ev (EConnect c) s)
| p_reopen s : closing s = false -> connected s = false -> prim s (ev EReopen (set_writable true s))
| p_conn_start s : connecting s = false -> prim s (ev (EConnect 0%Z) (set_connecting true s))
| p_orphan s l : prim s (ev (EOrphan l) s)
| p_reset s c : prim s (ev (EReset c) s).

Inductive steps : st -> st -> Prop :=
| st_refl s : steps s s
| st_step s s' s'' : prim s s' -> steps s' s'' -> steps s s''.

Lemma steps_trans s1 s2 s3 : steps s1 s2 -> steps s2 s3 -> steps s1 s3.
Proof. induction 1; auto. intros. econstructor; eauto. Qed.

Lemma steps_one s s' : prim s s' -> steps s s'.
Proof. intros; econstructor; eauto. constructor. Qed.

Ltac sc := unfold same_core; cbn; repeat split; reflexivity.

(* ------------------------------------------------------------------ *)
(* invariant, part 1: write_queue_size                                 *)
(* ------------------------------------------------------------------ *)
Record Inv1 (s : st) : Prop := {
  i_size : wqs s = sum_rem (live s);
  i_wf : Forall rwf (live s);
  i_wq : Forall (fun r => r_err r = 0%Z /\ r_freed r = false) (wq s);
  i_done : Forall (fun r => (r_err r = 0%Z -> req_size r = 0) /\ (r_freed r = true -> req_size r = 0))
                  (pq s ++ cq s)
}.

Lemma Forall_app3 {A} (P : A -> Prop) l1 l2 l3 :
  Forall P (l1 ++ l2 ++ l3) <-> Forall P l1 /\ Forall P l2 /\ Forall P l3.
Proof. rewrite !Forall_app. tauto. Qed.

Lemma set_err_size c r : req_size (set_err c r) = req_size r.
Proof. reflexivity. Qed.
Lemma set_freed_size b r : req_size (set_freed b r) = req_size r.
Proof. reflexivity. Qed.

Lemma sum_rem_map_set_err c l : sum_rem (map (set_err c) l) = sum_rem l.
Proof. induction l; simpl; auto. rewrite IHl. reflexivity. Qed.

Lemma Inv1_prim s s' : prim s s' -> Inv1 s -> Inv1 s'.
Proof.
  intros P [Hs Hw Hq Hd]. unfold live in *.
  apply Forall_app3 in Hw. destruct Hw as (Hwp & Hwc & Hww).
  apply Forall_app in Hd. destruct Hd as (Hdp & Hdc).
  destruct P; unfold live, call0, finish_head, flush in *; cbn in *.
  - (* silent *)
    destruct H as (E1 & E2 & E3 & E4 & _). constructor; unfold live; rewrite ?E1, ?E2, ?E3, ?E4; auto.
    + apply Forall_app3; auto.
    + apply Forall_app; auto.
  - (* chunk *)
    rewrite H in *. inversion Hww as [|? ? Hrw Hww']; subst. inversion Hq as [|? ? Hrq Hq']; subst.
    destruct (req_update_spec r n Hrw H0) as (W & S & _ & _ & _ & E & F).
    constructor; unfold live; cbn.
    + rewrite Hs, !sum_rem_app; simpl. rewrite S. lia.
    + apply Forall_app3; repeat split; auto.
    + constructor; auto. rewrite E, F. auto.
    + apply Forall_app; auto.
  - (* finish *)
    rewrite H in *. inversion Hww; subst. inversion Hq; subst. destruct H5 as [He Hf].
    rewrite He. cbn.
    constructor; unfold live; cbn.
    + rewrite Hs, !sum_rem_app; simpl. rewrite set_freed_size. lia.
    + apply Forall_app3; repeat split; auto. apply Forall_app; split; auto.
    + auto.
    + apply Forall_app; split; auto. apply Forall_app; split; auto. constructor; auto.
      rewrite set_freed_size. pose proof (req_done_size r H0). auto.
  - (* fail *)
    rewrite H in *. inversion Hww; subst. inversion Hq; subst. destruct H5 as [He Hf].
    cbn. destruct (Z.eqb_spec c 0); [lia|].
    constructor; unfold live; cbn.
    + rewrite Hs, !sum_rem_app; simpl. rewrite set_err_size. lia.
    + apply Forall_app3; repeat split; auto. apply Forall_app; split; auto.
    + auto.
    + apply Forall_app; split; auto. apply Forall_app; split; auto. constructor; auto.
      cbn. split; [lia|congruence].
  - constructor; unfold live; cbn; auto. apply Forall_app3; auto. apply Forall_app; auto.
  - (* enqueue *)
    constructor; unfold live; cbn.
    + rewrite Hs, !sum_rem_app; cbn. unfold req_size; cbn. lia.
    + apply Forall_app3; repeat split; auto. apply Forall_app; split; auto.
      constructor; auto. unfold rwf, req_size; simpl. split; lia.
    + apply Forall_app; split; auto.
    + apply Forall_app; auto.
  - constructor; unfold live; cbn; auto. apply Forall_app3; auto. apply Forall_app; auto.
  - constructor; unfold live; cbn; auto. apply Forall_app3; auto. apply Forall_app; auto.
  - constructor; unfold live; cbn; auto. apply Forall_app3; auto. apply Forall_app; auto.
  - constructor; unfold live; cbn; auto. apply Forall_app3; auto. apply Forall_app; auto.
  - constructor; unfold live; cbn; auto. apply Forall_app3; auto. apply Forall_app; auto.
  - constructor; unfold live; cbn; auto. apply Forall_app3; auto. apply Forall_app; auto.
  - (* take *)
    rewrite H in *. constructor; unfold live; cbn.
    + rewrite Hs. simpl. rewrite !sum_rem_app. simpl. lia.
    + apply Forall_app; auto.
    + auto.
    + rewrite app_nil_r. auto.
  - (* cb *)
    rewrite H in *. inversion Hwp; subst. inversion Hdp; subst. destruct H4 as [_ Hf].
    destruct (r_freed r) eqn:F; constructor; unfold live; cbn; auto.
    + rewrite Hs. simpl. rewrite (Hf eq_refl). lia.
    + apply Forall_app3; auto.
    + apply Forall_app; auto.
    + rewrite Hs. simpl. lia.
    + apply Forall_app3; auto.
    + apply Forall_app; auto.
  - constructor; unfold live; cbn; auto. apply Forall_app3; auto. apply Forall_app; auto.
  - constructor; unfold live; cbn; auto. apply Forall_app3; auto. apply Forall_app; auto.
  - constructor; unfold live; cbn; auto. apply Forall_app3; auto. apply Forall_app; auto.
  - (* flush *)
    constructor; unfold live; cbn; auto.
    + rewrite Hs, !sum_rem_app, sum_rem_map_set_err. simpl. lia.
    + apply Forall_app3; repeat split; auto. apply Forall_app; split; auto.
      apply Forall_forall. intros x Hx. apply in_map_iff in Hx. destruct Hx as (y & <- & Hy).
      rewrite Forall_forall in Hww. apply Hww in Hy. exact Hy.
    + apply Forall_app; split; auto. apply Forall_app; split; auto.
      apply Forall_forall. intros x Hx. apply in_map_iff in Hx. destruct Hx as (y & <- & Hy).
      rewrite Forall_forall in Hq. apply Hq in Hy. destruct Hy as [_ Hy]. cbn.
      unfold UV_ECANCELED. split; [lia|congruence].
  - constructor; unfold live; cbn; auto. apply Forall_app3; auto. apply Forall_app; auto.
  - constructor; unfold live; cbn; auto. apply Forall_app3; auto. apply Forall_app; auto.
  - constructor; unfold live; cbn; auto. apply Forall_app3; auto. apply Forall_app; auto.
  - (* fd *)
    rewrite H in *. inversion Hww as [|? ? Hrw Hww']; subst. inversion Hq as [|? ? Hrq Hq']; subst.
    constructor; unfold live; cbn.
    + rewrite Hs, !sum_rem_app; simpl. change (req_size (clear_sh r)) with (req_size r). reflexivity.
    + apply Forall_app3; repeat split; auto.
    + constructor; [exact Hrq | auto].
    + apply Forall_app; auto.
  - constructor; unfold live; cbn; auto. apply Forall_app3; auto. apply Forall_app; auto.
  - constructor; unfold live; cbn; auto. apply Forall_app3; auto. apply Forall_app; auto.
  - (* enqueue with a send handle *)
    constructor; unfold live; cbn.
    + rewrite Hs, !sum_rem_app; cbn. unfold req_size; cbn. lia.
    + apply Forall_app3; repeat split; auto. apply Forall_app; split; auto.
      constructor; auto. unfold rwf, req_size; simpl. split; lia.
    + apply Forall_app; split; auto.
    + apply Forall_app; auto.
  - constructor; unfold live; cbn; auto. apply Forall_app3; auto. apply Forall_app; auto.
  - constructor; unfold live; cbn; auto. apply Forall_app3; auto. apply Forall_app; auto.
  - constructor; unfold live; cbn; auto. apply Forall_app3; auto. apply Forall_app; auto.
  - constructor; unfold live; cbn; auto. apply Forall_app3; auto. apply Forall_app; auto.
  - constructor; unfold live; cbn; auto. apply Forall_app3; auto. apply Forall_app; auto.
  - constructor; unfold live; cbn; auto. apply Forall_app3; auto. apply Forall_app; auto.
  - constructor; unfold live; cbn; auto. apply Forall_app3; auto. apply Forall_app; auto.
Qed.

(* ------------------------------------------------------------------ *)
(* every model function is a sequence of primitive steps               *)
(* ------------------------------------------------------------------ *)
Definition frame (s s' : st) : Prop :=
  pq s' = pq s /\ shutreq s' = shutreq s /\ writable s' = writable s /\ shut s' = shut s /\
  closing s' = closing s /\ closed s' = closed s /\ fdopen s' = fdopen s /\ next_id s' = next_id s /\
  blocking s' = blocking s /\ map r_id (live s') = map r_id (live s) /\
  connecting s' = connecting s /\ derr s' = derr s.

Lemma frame_refl s : frame s s.
Proof. unfold frame; repeat split. Qed.

Lemma frame_trans s1 s2 s3 : frame s1 s2 -> frame s2 s3 -> frame s1 s3.
Proof. unfold frame; intuition congruence. Qed.

Lemma req_update_id r n : r_id (req_update r n) = r_id r.
Proof. unfold req_update. destruct (upd_loop _ _). reflexivity. Qed.

Lemma live_ids_finish r r' rest s :
  wq s = r :: rest -> r_id r' = r_id r ->
  map r_id (pq s ++ (cq s ++ [r']) ++ rest) = map r_id (live s).
Proof.
  intros H E. unfold live. rewrite H, !map_app. simpl. rewrite E, <- !app_assoc. reflexivity.
Qed.

Lemma write_loop_sim : forall fuel count s,
  steps s (write_loop fuel count s) /\ frame s (write_loop fuel count s).
Proof.
  induction fuel as [|f IH]; intros count s; cbn [write_loop].
  - split. apply steps_one, p_silent; sc. unfold frame, live; cbn; repeat split.
  - destruct (wq s) as [|r rest] eqn:Hq.
    + split; [constructor | apply frame_refl].
    + destruct (r_sh r && negb (sh_open s)) eqn:Hclosing.
      { (* the handle to send is closing: UV_EBADF, error exit *)
        set (s2 := finish_head (set_err UV_EBADF r) rest s).
        assert (P2 : prim s s2) by (apply p_fail; [exact Hq | unfold UV_EBADF; lia]).
        assert (F2 : frame s s2).
        { unfold frame; cbn; repeat split. apply (live_ids_finish r _ rest s); auto. }
        split.
        - eapply st_step; [exact P2|]. apply steps_one, p_silent; sc.
        - eapply frame_trans; [exact F2|]. unfold frame, live; cbn; repeat split. }
      destruct (sys_write (oracle s) (offered (skipn (r_widx r) (r_bufs r)))) as [res o'] eqn:Hsys.
      set (s0 := set_oracle o' s).
      assert (P0 : prim s s0) by (apply p_silent; sc).
      assert (F0 : frame s s0) by (unfold frame, live; cbn; repeat split).
      assert (Hq0 : wq s0 = r :: rest) by exact Hq.
      destruct res as [n | | c].
      * assert (Hn : n <= req_size r).
        { apply sys_write_le in Hsys. pose proof (offered_le (skipn (r_widx r) (r_bufs r))).
          unfold req_size. lia. }
        set (sf := if r_sh r then ev (EFd (r_id r)) s0 else s0).
        set (s1 := ev (EChunk (r_id r) (r_off r) n)
                      (set_wqs (wqs sf - n) (set_wq (req_update r n :: rest) sf))).
        assert (S1 : steps s0 s1 /\ frame s0 s1).
        { unfold s1, sf. destruct (r_sh r) eqn:Hsh.
          - (* the descriptor goes with this sendmsg, then the chunk *)
            set (sa' := ev (EFd (r_id r)) (set_wq (clear_sh r :: rest) s0)).
            assert (Pa : prim s0 sa') by (apply p_fd; auto).
            assert (Pb : prim sa' (ev (EChunk (r_id (clear_sh r)) (r_off (clear_sh r)) n)
                                     (set_wqs (wqs sa' - n) (set_wq (req_update (clear_sh r) n :: rest) sa')))).
            { apply p_chunk; [reflexivity | exact Hn | reflexivity]. }
            split.
            + eapply st_step; [exact Pa|]. apply steps_one. exact Pb.
            + unfold frame, live; cbn; repeat split. rewrite Hq. rewrite !map_app. simpl.
              rewrite req_update_id. reflexivity.
          - split.
            + apply steps_one. apply p_chunk; auto.
            + unfold frame, live; cbn; repeat split. rewrite Hq. rewrite !map_app. simpl.
              rewrite req_update_id. reflexivity. }
        destruct S1 as [S1 F1].
        destruct (req_done (req_update r n)) eqn:Hd.
        -- set (s2 := finish_head (req_update r n) rest s1).
           assert (P2 : prim s1 s2) by (apply p_finish; auto; unfold s1, sf; destruct (r_sh r); reflexivity).
           assert (F2 : frame s1 s2).
           { unfold frame; cbn; repeat split.
             destruct (r_err (req_update r n) =? 0)%Z;
               apply (live_ids_finish (req_update r n) _ rest s1); auto;
               unfold s1, sf; destruct (r_sh r); reflexivity. }
           assert (S2 : steps s s2).
           { eapply st_step; [exact P0|]. eapply steps_trans; [exact S1|]. apply steps_one; exact P2. }
           assert (FF : frame s s2) by (eauto using frame_trans).
           destruct count as [|c'].
           ++ split; auto.
           ++ destruct (IH c' s2) as [A B]. split; eauto using steps_trans, frame_trans.
        -- assert (S1' : steps s s1) by (eapply st_step; [exact P0 | exact S1]).
           assert (FF : frame s s1) by (eauto using frame_trans).
           destruct (blocking s1).
           ++ destruct (IH count s1) as [A B]. split; eauto using steps_trans, frame_trans.
           ++ split.
              ** eapply steps_trans; [exact S1'|]. apply steps_one, p_silent; sc.
              ** eapply frame_trans; [exact FF|]. unfold frame, live; cbn; repeat split.
      * set (s0' := if r_sh r then ev (EFdFail (r_id r)) s0 else s0).
        assert (S0 : steps s s0' /\ frame s s0').
        { unfold s0'. destruct (r_sh r) eqn:Hsh.
          - split.
            + eapply st_step; [exact P0|]. apply steps_one. eapply p_fdfail; eauto.
            + unfold frame, live; cbn; repeat split.
          - split; [apply steps_one; exact P0 | exact F0]. }
        destruct S0 as [S0 F0'].
        destruct (blocking s0').
        -- destruct (IH count s0') as [A B]. split; eauto using steps_trans, frame_trans.
        -- split.
           ++ eapply steps_trans; [exact S0|]. apply steps_one, p_silent; sc.
           ++ eapply frame_trans; [exact F0'|]. unfold frame, live; cbn; repeat split.
      * pose proof (sys_write_err _ _ _ _ Hsys) as Hc.
        set (s0' := if r_sh r then ev (EFdFail (r_id r)) s0 else s0).
        assert (S0 : steps s s0' /\ frame s s0' /\ wq s0' = r :: rest).
        { unfold s0'. destruct (r_sh r) eqn:Hsh.
          - split; [|split; [|exact Hq]].
            + eapply st_step; [exact P0|]. apply steps_one. eapply p_fdfail; eauto.
            + unfold frame, live; cbn; repeat split.
          - split; [apply steps_one; exact P0 | split; [exact F0 | exact Hq]]. }
        destruct S0 as (S0 & F0' & Hq0').
        set (s2 := finish_head (set_err c r) rest s0').
        assert (P2 : prim s0' s2) by (apply p_fail; auto).
        assert (F2 : frame s0' s2).
        { unfold frame; cbn; repeat split.
          destruct (c =? 0)%Z; apply (live_ids_finish r _ rest s0'); auto. }
        split.
        -- eapply steps_trans; [exact S0|]. eapply st_step; [exact P2|]. apply steps_one, p_silent; sc.
        -- eapply frame_trans; [exact F0'|]. eapply frame_trans; [exact F2|].
           unfold frame, live; cbn; repeat split.
Qed.

Lemma check_none s : check_before_write s = None -> fdopen s = true /\ writable s = true.
Proof.
  unfold check_before_write. destruct (fdopen s), (writable s); simpl; intros; try discriminate; auto.
Qed.

Lemma check_some_neg s e : check_before_write s = Some e -> (e < 0)%Z.
Proof.
  unfold check_before_write. destruct (fdopen s), (writable s); simpl; intros H; inversion H;
    unfold UV_EBADF, UV_EPIPE; lia.
Qed.

(* what an API call made from anywhere leaves alone *)
Definition aframe (s s' : st) : Prop :=
  pq s' = pq s /\ (fdopen s = false -> fdopen s' = false /\ wq s' = wq s /\ cq s' = cq s).

Lemma api_write_sim s bufs :
  steps s (api_write s bufs) /\ aframe s (api_write s bufs).
Proof.
  unfold api_write.
  change (ev (EWrite (next_id s) (sumN bufs)) (set_next_id (S (next_id s)) s))
    with (call0 s (EWrite (next_id s) (sumN bufs))).
  change (check_before_write (call0 s (EWrite (next_id s) (sumN bufs)))) with (check_before_write s).
  destruct (check_before_write s) as [e|] eqn:Hc.
  - split. apply steps_one, p_write_fail; auto. unfold aframe; cbn; auto.
  - destruct (check_none _ Hc) as [Hfd Hw].
    set (s1 := set_wq _ _).
    assert (P1 : prim s s1) by (exact (p_write_enq s bufs Hc)).
    assert (Hid : In (next_id s) (map r_id (live s1))).
    { unfold live, s1; cbn. rewrite !map_app. apply in_or_app; right. apply in_or_app; right.
      apply in_or_app; right. simpl; auto. }
    destruct (connecting s1).
    { split.
      - eapply st_step; [exact P1|]. apply steps_one, p_ret_ok; auto.
      - unfold aframe. split; [reflexivity | intros Hf; rewrite Hfd in Hf; discriminate]. }
    destruct (wqs (call0 s (EWrite (next_id s) (sumN bufs))) =? 0).
    + destruct (write_loop_sim (write_fuel s1) 32 s1) as [A B].
      fold (uv_write_queue s1) in *.
      destruct B as (B1 & B2 & B3 & B4 & B5 & B6 & B7 & B8 & B9 & B10 & _).
      split.
      * eapply st_step; [exact P1|]. eapply steps_trans; [exact A|].
        apply steps_one, p_ret_ok. rewrite B3; exact Hw. rewrite B10; exact Hid.
      * unfold aframe. split.
        -- change (pq (ev (ERet (next_id s) 0%Z) (uv_write_queue s1))) with (pq (uv_write_queue s1)).
           rewrite B1. reflexivity.
        -- intros Hf. rewrite Hfd in Hf. discriminate.
    + split.
      * eapply st_step; [exact P1|]. eapply st_step; [apply p_silent with (s' := set_armed true s1); sc|].
        apply steps_one, p_ret_ok; auto.
      * unfold aframe. split; [reflexivity | intros Hf; rewrite Hfd in Hf; discriminate].
Qed.

Lemma check2_none s : check_before_write2 s = None -> fdopen s = true /\ writable s = true.
Proof.
  unfold check_before_write2. destruct (fdopen s), (writable s), (ipc s), (sh_open s); simpl; intros; try discriminate; auto.
Qed.

Lemma check2_some_neg s e : check_before_write2 s = Some e -> (e < 0)%Z.
Proof.
  unfold check_before_write2. destruct (fdopen s), (writable s), (ipc s), (sh_open s); simpl; intros H; inversion H;
    unfold UV_EBADF, UV_EPIPE, UV_EINVAL; lia.
Qed.

Lemma check2_code_nw s e : writable s = false -> check_before_write2 s = Some e -> e = UV_EPIPE \/ e = UV_EBADF.
Proof.
  unfold check_before_write2. intros ->. destruct (fdopen s); simpl; intros H; inversion H; auto.
Qed.

Lemma api_write2_sim s bufs :
  steps s (api_write2 s bufs) /\ aframe s (api_write2 s bufs).
Proof.
  unfold api_write2.
  change (ev (EWrite (next_id s) (sumN bufs)) (set_next_id (S (next_id s)) s))
    with (call0 s (EWrite (next_id s) (sumN bufs))).
  change (check_before_write2 (ev (EWrite2 (next_id s)) (call0 s (EWrite (next_id s) (sumN bufs)))))
    with (check_before_write2 s).
  destruct (check_before_write2 s) as [e|] eqn:Hc.
  - split. apply steps_one, p_write2_fail; auto. unfold aframe; cbn; auto.
  - destruct (check2_none _ Hc) as [Hfd Hw].
    set (s1 := set_wq _ _).
    assert (P1 : prim s s1) by (exact (p_write2_enq s bufs Hc)).
    assert (Hid : In (next_id s) (map r_id (live s1))).
    { unfold live, s1; cbn. rewrite !map_app. apply in_or_app; right. apply in_or_app; right.
      apply in_or_app; right. simpl; auto. }
    destruct (connecting s1).
    { split.
      - eapply st_step; [exact P1|]. apply steps_one, p_ret_ok; auto.
      - unfold aframe. split; [reflexivity | intros Hf; rewrite Hfd in Hf; discriminate]. }
    destruct (wqs (ev (EWrite2 (next_id s)) (call0 s (EWrite (next_id s) (sumN bufs)))) =? 0).
    + destruct (write_loop_sim (write_fuel s1) 32 s1) as [A B].
      fold (uv_write_queue s1) in *.
      destruct B as (B1 & B2 & B3 & B4 & B5 & B6 & B7 & B8 & B9 & B10 & _).
      split.
      * eapply st_step; [exact P1|]. eapply steps_trans; [exact A|].
        apply steps_one, p_ret_ok. rewrite B3; exact Hw. rewrite B10; exact Hid.
      * unfold aframe. split.
        -- change (pq (ev (ERet (next_id s) 0%Z) (uv_write_queue s1))) with (pq (uv_write_queue s1)).
           rewrite B1. reflexivity.
        -- intros Hf. rewrite Hfd in Hf. discriminate.
    + split.
      * eapply st_step; [exact P1|]. eapply st_step; [apply p_silent with (s' := set_armed true s1); sc|].
        apply steps_one, p_ret_ok; auto.
      * unfold aframe. split; [reflexivity | intros Hf; rewrite Hfd in Hf; discriminate].
Qed.

Lemma api_try_sim s bufs :
  steps s (api_try s bufs) /\ aframe s (api_try s bufs).
Proof.
  unfold api_try.
  change (ev (ETry (next_id s) (sumN bufs)) (set_next_id (S (next_id s)) s))
    with (call0 s (ETry (next_id s) (sumN bufs))).
  change (wqs (call0 s (ETry (next_id s) (sumN bufs)))) with (wqs s).
  change (check_before_write (call0 s (ETry (next_id s) (sumN bufs)))) with (check_before_write s).
  change (oracle (call0 s (ETry (next_id s) (sumN bufs)))) with (oracle s).
  change (connecting (call0 s (ETry (next_id s) (sumN bufs)))) with (connecting s).
  change (cancelling (call0 s (ETry (next_id s) (sumN bufs)))) with (cancelling s).
  destruct (connecting s || cancelling s); cbn [orb].
  { split. apply steps_one, p_try_fail. unfold UV_EAGAIN; lia. unfold aframe; cbn; auto. }
  destruct (N.eqb_spec (wqs s) 0) as [Hz|Hz]; cbn [negb].
  - destruct (check_before_write s) as [e|] eqn:Hc.
    + split. apply steps_one, p_try_fail. eapply check_some_neg; eauto. unfold aframe; cbn; auto.
    + destruct (check_none _ Hc) as [Hfd Hw].
      destruct (sys_write (oracle s) (offered bufs)) as [res o'] eqn:Hsys.
      assert (P0 : prim s (set_oracle o' s)) by (apply p_silent; sc).
      destruct res as [n| |c].
      * assert (Hn : n <= sumN bufs).
        { apply sys_write_le in Hsys. pose proof (offered_le bufs). lia. }
        split.
        -- eapply st_step; [exact P0|]. apply steps_one.
           apply (p_try_ok (set_oracle o' s) bufs n); auto.
        -- unfold aframe. split; [reflexivity | intros Hf; rewrite Hfd in Hf; discriminate].
      * split.
        -- eapply st_step; [exact P0|]. apply steps_one.
           apply (p_try_fail (set_oracle o' s) bufs UV_EAGAIN). unfold UV_EAGAIN; lia.
        -- unfold aframe; cbn. split; auto.
      * split.
        -- eapply st_step; [exact P0|]. apply steps_one.
           apply (p_try_fail (set_oracle o' s) bufs c). eapply sys_write_err; eauto.
        -- unfold aframe; cbn. split; auto.
  - split. apply steps_one, p_try_fail. unfold UV_EAGAIN; lia. unfold aframe; cbn; auto.
Qed.

Lemma api_shutdown_sim s :
  steps s (api_shutdown s) /\ aframe s (api_shutdown s).
Proof.
  unfold api_shutdown.
  destruct (negb (writable s) || shut s || shutreq s || closing s || closed s) eqn:Hc.
  - split. apply steps_one, p_shut_fail. unfold aframe; cbn; auto.
  - assert (Hw : writable s = true) by (destruct (writable s); auto; discriminate).
    assert (Hr : shutreq s = false).
    { destruct (shutreq s); auto. rewrite Hw in Hc. cbn in Hc. destruct (shut s); discriminate. }
    set (s1 := set_writable false (set_shutreq true s)).
    assert (P1 : prim s (ev (EShut 0%Z) s1)) by (apply p_shut_accept; auto).
    destruct (connecting s1).
    { split; [apply steps_one; exact P1 | unfold aframe; cbn; auto]. }
    destruct (wq s1) eqn:Hq.
    + split.
      * eapply st_step; [exact P1|].
        apply steps_one. apply p_silent with (s' := ev (EShut 0%Z) (set_fed true s1)); sc.
      * unfold aframe; cbn; auto.
    + split.
      * apply steps_one; exact P1.
      * unfold aframe; cbn; auto.
Qed.

Lemma api_close_sim s :
  steps s (api_close s) /\ aframe s (api_close s).
Proof.
  unfold api_close. destruct (closing s).
  - split; [constructor | unfold aframe; auto].
  - split. apply steps_one, p_close. unfold aframe; cbn; auto.
Qed.

Lemma api_write_nomem_sim s bufs :
  steps s (api_write_nomem s bufs) /\ aframe s (api_write_nomem s bufs).
Proof.
  unfold api_write_nomem. destruct (check_before_write s) eqn:Hc; [apply api_write_sim|].
  destruct (needs_alloc bufs); [|apply api_write_sim].
  split; [apply steps_one; exact (p_write_nomem s bufs Hc) | unfold aframe; cbn; auto].
Qed.

Lemma api_write2_nomem_sim s bufs :
  steps s (api_write2_nomem s bufs) /\ aframe s (api_write2_nomem s bufs).
Proof.
  unfold api_write2_nomem. destruct (check_before_write2 s) eqn:Hc; [apply api_write2_sim|].
  destruct (needs_alloc bufs); [|apply api_write2_sim].
  split; [apply steps_one; exact (p_write2_nomem s bufs Hc) | unfold aframe; cbn; auto].
Qed.

Lemma orphan_cases x : orphan x = x \/ exists l, orphan x = ev (EOrphan l) x.
Proof. unfold orphan. destruct (cq x); eauto. Qed.

Lemma orphan_steps x : steps x (orphan x).
Proof. destruct (orphan_cases x) as [-> | [l ->]]; [constructor | apply steps_one, p_orphan]. Qed.

Lemma orphan_pq x : pq (orphan x) = pq x.
Proof. destruct (orphan_cases x) as [-> | [l ->]]; reflexivity. Qed.

Ltac orph := repeat match goal with |- context [orphan ?x] => destruct (orphan_cases x) as [-> | [? ->]] end.

Lemma api_connect_sim s : steps s (api_connect s) /\ aframe s (api_connect s).
Proof.
  unfold api_connect.
  destruct (closing s || negb (fdopen s) || connected s) eqn:Hg; [split; [constructor | unfold aframe; auto]|].
  assert (Hcl : closing s = false /\ fdopen s = true /\ connected s = false).
  { destruct (closing s), (fdopen s), (connected s); try discriminate; auto. }
  destruct Hcl as (Hcl & Hfd & Hco).
  assert (AF : forall x, pq x = pq s -> aframe s x).
  { intros x Hx. unfold aframe. split; [exact Hx | intros Hf; congruence]. }
  destruct (connecting s) eqn:Hcg.
  { destruct (is_tcp s); [split; [apply steps_one, p_connect_ev; unfold UV_EALREADY; lia | apply AF; reflexivity]
                         | split; [constructor | apply AF; reflexivity]]. }
  set (cres := match connres s with [] => None | c :: _ => c end).
  set (sA := set_connres (tl (connres s)) s).
  assert (PA : prim s sA) by (apply p_silent; sc).
  change (is_tcp sA) with (is_tcp s). change (writable sA) with (writable s). change (readable sA) with (readable s).
  assert (Hnz : conn_pending_ok cres = false -> conn_derr cres <> 0%Z).
  { destruct cres as [e|]; cbn; [intros _; discriminate | discriminate]. }
  destruct (is_tcp s).
  - (* uv__tcp_connect *)
    set (s1 := if writable s then sA else ev EReopen (set_writable true sA)).
    assert (S1 : steps s s1 /\ pq s1 = pq s /\ connecting s1 = false).
    { unfold s1. destruct (writable s).
      - split; [apply steps_one; exact PA | split; [reflexivity | exact Hcg]].
      - split; [|split; [reflexivity | exact Hcg]]. eapply st_step; [exact PA|]. apply steps_one. apply p_reopen; auto. }
    destruct S1 as (S1 & Hp1 & Hc1).
    set (s2 := set_readable true s1).
    assert (P2 : prim s1 s2) by (apply p_silent; sc).
    destruct (conn_pending_ok cres) eqn:Hok.
    + split; [|apply AF; rewrite orphan_pq; exact Hp1].
      eapply steps_trans; [exact S1|]. eapply st_step; [exact P2|].
      eapply st_step; [apply p_silent with (s' := set_armed true (set_derr 0%Z s2)); sc|].
      eapply st_step; [apply (p_conn_start (set_armed true (set_derr 0%Z s2))); exact Hc1 | apply orphan_steps].
    + destruct (match cres with Some 111%positive => true | _ => false end).
      * split; [|apply AF; rewrite orphan_pq; exact Hp1].
        eapply steps_trans; [exact S1|]. eapply st_step; [exact P2|].
        eapply st_step; [apply p_silent with
          (s' := set_fed true (set_armed true (set_derr (conn_derr cres) s2))); sc|].
        eapply st_step; [apply (p_conn_start (set_fed true (set_armed true (set_derr (conn_derr cres) s2)))); exact Hc1
                        | apply orphan_steps].
      * split; [|apply AF; exact Hp1].
        eapply steps_trans; [exact S1|]. eapply st_step; [exact P2|]. apply steps_one, p_connect_ev; auto.
  - (* uv_pipe_connect2 on the existing socket *)
    destruct (conn_pending_ok cres).
    + set (s1 := if negb (readable s) && negb (writable s)
                 then set_readable true (ev EReopen (set_writable true sA)) else sA).
      assert (S1 : steps s s1 /\ pq s1 = pq s /\ connecting s1 = false).
      { unfold s1. destruct (negb (readable s) && negb (writable s)).
        - split; [|split; [reflexivity | exact Hcg]]. eapply st_step; [exact PA|].
          eapply st_step; [apply p_reopen; auto|]. apply steps_one, p_silent; sc.
        - split; [apply steps_one; exact PA | split; [reflexivity | exact Hcg]]. }
      destruct S1 as (S1 & Hp1 & Hc1). split; [|apply AF; rewrite orphan_pq; exact Hp1].
      eapply steps_trans; [exact S1|].
      eapply st_step; [apply p_silent with (s' := set_armed true (set_derr 0%Z s1)); sc|].
      eapply st_step; [apply (p_conn_start (set_armed true (set_derr 0%Z s1))); exact Hc1 | apply orphan_steps].
    + split; [|apply AF; rewrite orphan_pq; reflexivity].
      eapply st_step; [exact PA|].
      eapply st_step; [apply p_silent with (s' := set_fed true (set_derr (conn_derr cres) sA)); sc|].
      eapply st_step; [apply (p_conn_start (set_fed true (set_derr (conn_derr cres) sA))); exact Hcg | apply orphan_steps].
Qed.

Lemma api_close_reset_sim s : steps s (api_close_reset s) /\ aframe s (api_close_reset s).
Proof.
  unfold api_close_reset. destruct (closing s) eqn:Hc; [split; [constructor | unfold aframe; auto]|].
  destruct (shutreq s); [split; [apply steps_one, p_reset | unfold aframe; cbn; auto]|].
  destruct (api_close_sim (ev (EReset 0%Z) s)) as [A B]. split.
  - eapply st_step; [apply p_reset | exact A].
  - exact B.
Qed.

Lemma api_sim s o : steps s (api s o) /\ aframe s (api s o).
Proof.
  destruct o; cbn [api].
  - apply api_write_sim. - apply api_try_sim. - apply api_shutdown_sim. - apply api_close_sim.
  - apply api_write2_sim.
  - split; [apply steps_one, p_silent; sc | unfold aframe; cbn; auto].
  - apply api_write_nomem_sim.
  - apply api_write2_nomem_sim.
  - apply api_connect_sim.
  - split; [constructor | unfold aframe; auto].
  - apply api_close_reset_sim.
Qed.

Lemma aframe_trans s1 s2 s3 : aframe s1 s2 -> aframe s2 s3 -> aframe s1 s3.
Proof.
  unfold aframe. intros [A1 A2] [B1 B2]. split; [congruence|].
  intros H. destruct (A2 H) as (C1 & C2 & C3). destruct (B2 C1) as (D1 & D2 & D3). repeat split; congruence.
Qed.

Lemma apis_sim os : forall s, steps s (apis s os) /\ aframe s (apis s os).
Proof.
  induction os as [|o os IH]; intros s; cbn [apis].
  - split; [constructor | unfold aframe; auto].
  - destruct (api_sim s o) as [A B]. destruct (IH (api s o)) as [C D].
    split; eauto using steps_trans, aframe_trans.
Qed.

(* flags needed to place the shutdown(2) call *)
Definition Inv0 (s : st) : Prop := closing s = true -> writable s = false /\ fdopen s = false.

Lemma Inv0_prim s s' : prim s s' -> Inv0 s -> Inv0 s'.
Proof.
  intros P B. unfold Inv0 in *.
  destruct P; unfold call0, finish_head, flush in *; cbn in *; auto;
    try (destruct (r_freed r); cbn; auto; fail); try (destruct (_ =? _)%Z; cbn; auto; fail).
  - destruct H as (_ & _ & _ & _ & _ & E2 & _ & E3 & E4 & _). rewrite E2, E3, E4. auto.
  - intros Hc. apply B in Hc. tauto.
  - congruence.
Qed.

Lemma Inv0_steps s s' : steps s s' -> Inv0 s -> Inv0 s'.
Proof. induction 1; eauto using Inv0_prim. Qed.

Section Sim.
Variable beh : nat -> list op.

Lemma run_cb_sim s : steps s (run_cb beh s) /\ aframe s (run_cb beh s).
Proof.
  unfold run_cb. set (s1 := set_cbn (S (StreamWrite.cbn s)) s).
  destruct (apis_sim (beh (StreamWrite.cbn s)) s1) as [A B]. split.
  - eapply st_step; [apply p_silent with (s' := s1); sc | exact A].
  - eapply aframe_trans; [|exact B]. unfold aframe; cbn; auto.
Qed.

Lemma cb_loop_sim l : forall s, pq s = l ->
  steps s (cb_loop beh l s) /\ pq (cb_loop beh l s) = [] /\
  (fdopen s = false -> fdopen (cb_loop beh l s) = false /\ wq (cb_loop beh l s) = wq s /\
                       cq (cb_loop beh l s) = cq s).
Proof.
  induction l as [|r rest IH]; intros s Hp; cbn [cb_loop].
  - split; [constructor | split; auto].
  - pose proof (p_cb s r rest Hp) as P. cbv zeta.
    match type of P with prim _ ?x => set (s3 := x) in * end.
    destruct (run_cb_sim s3) as [A [B1 B2]].
    assert (Hp3 : pq s3 = rest) by (unfold s3; destruct (r_freed r); reflexivity).
    destruct (IH (run_cb beh s3)) as (C & D & E); [congruence|].
    split; [|split]; auto.
    + eapply st_step; [exact P|]. eapply steps_trans; eauto.
    + intros Hf. assert (Hf3 : fdopen s3 = false) by (unfold s3; destruct (r_freed r); exact Hf).
      destruct (B2 Hf3) as (F1 & F2 & F3). destruct (E F1) as (G1 & G2 & G3). split; [auto|].
      rewrite G2, F2, G3, F3. unfold s3; destruct (r_freed r); split; reflexivity.
Qed.

Lemma write_callbacks_sim s : pq s = [] ->
  steps s (write_callbacks beh s) /\ pq (write_callbacks beh s) = [] /\
  (fdopen s = false -> fdopen (write_callbacks beh s) = false /\ wq (write_callbacks beh s) = wq s /\
                       cq (write_callbacks beh s) = []).
Proof.
  intros Hp. unfold write_callbacks. destruct (cq s) as [|r l] eqn:Hc.
  - split; [constructor | split; auto].
  - pose proof (p_take s Hp) as P. rewrite Hc in P.
    destruct (cb_loop_sim (r :: l) (set_pq (r :: l) (set_cq [] s)) eq_refl) as (A & B & C).
    split; [|split]; auto. eapply st_step; eauto.
Qed.

Lemma drain_sim s : wq s = [] -> cq s = [] -> pq s = [] ->
  steps s (drain beh s) /\ pq (drain beh s) = [].
Proof.
  intros Hq Hcq Hp. unfold drain.
  set (s1 := if closing s then s else set_armed false s).
  assert (S1 : steps s s1).
  { unfold s1. destruct (closing s); [constructor | apply steps_one, p_silent; sc]. }
  assert (E1 : wq s1 = [] /\ cq s1 = [] /\ pq s1 = []).
  { unfold s1. destruct (closing s) eqn:Hcs; cbn; repeat split; auto. }
  destruct E1 as (Hq1 & Hc1 & Hp1).
  destruct (shutreq s1) eqn:Hsr; cbn [negb].
  2: { split; auto. }
  destruct (closing s1 || negb (shut s1)) eqn:Hcond.
  2: { split; auto. }
  set (s2 := set_shutreq false s1).
  change (closing s2) with (closing s1).
  destruct (closing s1) eqn:Hcl.
  - set (s3 := ev (EShutCb UV_ECANCELED) s2).
    assert (P3 : prim s1 s3) by (apply p_drain_cancel; auto).
    destruct (run_cb_sim s3) as [A [B _]]. split.
    + eapply steps_trans; [exact S1|]. eapply st_step; [exact P3|]. exact A.
    + rewrite B. exact Hp1.
  - destruct (Z.eqb_spec (shutdown_answer s2) 0) as [E|E].
    + rewrite E.
      assert (Hco : connected s1 = true).
      { unfold shutdown_answer in E. change (connected s2) with (connected s1) in E.
        destruct (connected s1); [reflexivity | discriminate]. }
      set (s5 := ev (EShutCb 0%Z) (set_shut true (ev (ESysShut 0%Z) s2))).
      assert (P5 : prim s1 s5) by (apply p_drain_ok; auto).
      destruct (run_cb_sim s5) as [A [B _]]. split.
      * eapply steps_trans; [exact S1|]. eapply st_step; [exact P5|]. exact A.
      * rewrite B. exact Hp1.
    + set (s5 := ev (EShutCb (shutdown_answer s2)) (ev (ESysShut (shutdown_answer s2)) s2)).
      assert (P5 : prim s1 s5) by (apply p_drain_err; auto).
      destruct (run_cb_sim s5) as [A [B _]]. split.
      * eapply steps_trans; [exact S1|]. eapply st_step; [exact P5|]. exact A.
      * rewrite B. exact Hp1.
Qed.

Lemma stream_connect_sim s : connecting s = true -> pq s = [] ->
  steps s (stream_connect beh s) /\ pq (stream_connect beh s) = [].
Proof.
  intros Hcg Hp. unfold stream_connect.
  match goal with |- context [let '(error, s1) := ?X in _] => destruct X as [error s1] eqn:HX end.
  assert (SC : same_core s s1 /\ connecting s1 = connecting s).
  { destruct (negb (derr s =? 0)%Z); [inversion HX; split; [sc | reflexivity]|].
    destruct (sockerr s); inversion HX; split; try reflexivity; sc. }
  destruct SC as [SC SCc].
  assert (P1 : prim s s1) by (apply p_silent; [exact SC | exact SCc]).
  assert (Hp1 : pq s1 = []) by (destruct SC as (_ & _ & E & _); congruence).
  assert (Hc1 : connecting s1 = true) by congruence.
  destruct (error =? - EINPROGRESS)%Z.
  { split; [apply steps_one; exact P1 | exact Hp1]. }
  set (s2 := set_connecting false s1).
  match goal with |- context [run_cb beh (ev (EConnCb error) ?x)] => set (s3 := x) end.
  set (s3' := ev (EConnCb error) s3).
  assert (P3 : steps s1 s3' /\ pq s3' = []).
  { unfold s3', s3, s2. destruct (error <? 0)%Z; destruct ((_ : bool) || _); cbn [orb andb]; (split; [|exact Hp1]).
    - eapply st_step; [apply p_silent with (s' := set_armed false s1); sc|].
      apply steps_one. apply (p_conn_done (set_armed false s1) error). exact Hc1.
    - apply steps_one. apply (p_conn_done s1 error). exact Hc1.
    - eapply st_step; [apply p_silent with (s' := set_connected true (set_armed false s1)); sc|].
      apply steps_one. apply (p_conn_done (set_connected true (set_armed false s1)) error). exact Hc1.
    - eapply st_step; [apply p_silent with (s' := set_connected true s1); sc|].
      apply steps_one. apply (p_conn_done (set_connected true s1) error). exact Hc1. }
  destruct P3 as [P3 Hp3].
  destruct (run_cb_sim s3') as [A [B _]].
  set (s4 := run_cb beh s3') in *.
  assert (S4 : steps s s4) by (eapply st_step; [exact P1|]; eapply steps_trans; [exact P3 | exact A]).
  assert (Hp4 : pq s4 = []) by (rewrite B; exact Hp3).
  destruct (negb (fdopen s4)); [split; auto|].
  destruct (error <? 0)%Z.
  2: { destruct (cq s4); [split; auto|]. split; [|exact Hp4].
       eapply steps_trans; [exact S4|]. apply steps_one, p_silent; sc. }
  assert (P5 : prim s4 (flush s4)) by apply p_flush.
  destruct (write_callbacks_sim (flush s4) Hp4) as (C & D & _).
  set (s5 := write_callbacks beh (flush s4)) in *.
  assert (S5 : steps s s5) by (eapply steps_trans; [exact S4|]; eapply st_step; [exact P5|]; exact C).
  destruct (shutreq s5 && negb (connecting s5) && fdopen s5); [|split; auto].
  destruct (wq s5) eqn:Hq5; [|split; auto]. destruct (cq s5) eqn:Hc5; [|split; auto].
  destruct (drain_sim s5 Hq5 Hc5 D) as [E F]. split; eauto using steps_trans.
Qed.

Lemma stream_io_sim s : Inv0 s -> pq s = [] ->
  steps s (stream_io beh s) /\ pq (stream_io beh s) = [].
Proof.
  intros I Hp. unfold stream_io.
  destruct (connecting s) eqn:Hcg; [apply stream_connect_sim; auto|].
  destruct (write_loop_sim (write_fuel s) 32 s) as [A F]. fold (uv_write_queue s) in *.
  set (s1 := uv_write_queue s) in *.
  assert (Hp1 : pq s1 = []) by (destruct F as (F1 & _); congruence).
  destruct (write_callbacks_sim s1 Hp1) as (B & Hp2 & _).
  set (s2 := write_callbacks beh s1) in *.
  assert (S2 : steps s s2) by eauto using steps_trans.
  destruct (connecting s2); [split; auto|].
  destruct (wq s2) eqn:Hq; [|split; auto].
  destruct (cq s2) eqn:Hc; [|split; auto].
  destruct (drain_sim s2 Hq Hc Hp2) as [C D].
  split; eauto using steps_trans.
Qed.

Lemma destroy_sim s : Inv0 s -> closing s = true -> pq s = [] ->
  steps s (destroy beh s) /\ pq (destroy beh s) = [].
Proof.
  intros I Hc Hp. unfold destroy.
  set (s0 := set_closed true s).
  assert (P0 : prim s s0) by (apply p_silent; sc).
  assert (Hfd0 : fdopen s0 = false) by (apply I in Hc; apply Hc).
  set (sc1 := if connecting s0
              then set_cancelling false
                     (run_cb beh (ev (EConnCb UV_ECANCELED) (set_cancelling true (set_connecting false s0))))
              else s0).
  assert (S1 : steps s0 sc1 /\ pq sc1 = [] /\ fdopen sc1 = false).
  { unfold sc1. destruct (connecting s0) eqn:Hcg.
    - set (sa' := set_cancelling true s0).
      assert (Pa : prim s0 sa') by (apply p_silent; sc).
      assert (Pb : prim sa' (ev (EConnCb UV_ECANCELED) (set_connecting false sa'))) by (apply p_conn_done; exact Hcg).
      destruct (run_cb_sim (ev (EConnCb UV_ECANCELED) (set_connecting false sa'))) as [A [B1 B2]].
      set (sb := run_cb beh (ev (EConnCb UV_ECANCELED) (set_connecting false sa'))) in *.
      assert (Pc : prim sb (set_cancelling false sb)) by (apply p_silent; sc).
      split; [|split].
      + change (steps s0 (set_cancelling false sb)).
        eapply st_step; [exact Pa|]. eapply st_step; [exact Pb|]. eapply steps_trans; [exact A|]. apply steps_one; exact Pc.
      + change (pq sb = []). rewrite B1. exact Hp.
      + change (fdopen sb = false). apply B2. exact Hfd0.
    - split; [constructor | split; auto]. }
  destruct S1 as (S1 & Hp1' & Hfd1).
  set (s1 := flush sc1).
  assert (P1 : prim sc1 s1) by apply p_flush.
  assert (Hfd : fdopen s1 = false) by exact Hfd1.
  assert (Hp1 : pq s1 = []) by exact Hp1'.
  destruct (write_callbacks_sim s1 Hp1) as (A & Hp2 & B).
  destruct (B Hfd) as (_ & Hq2 & Hc2).
  set (s2 := write_callbacks beh s1) in *.
  assert (S2 : steps s s2).
  { eapply st_step; [exact P0|]. eapply steps_trans; [exact S1|]. eapply st_step; [exact P1|]. exact A. }
  destruct (drain_sim s2 Hq2 Hc2 Hp2) as [C D].
  split.
  - eapply steps_trans; [exact S2|]. eapply steps_trans; [exact C|]. apply steps_one, p_closecb.
  - exact D.
Qed.

Lemma run_pending_sim s : Inv0 s -> pq s = [] ->
  steps s (run_pending beh s) /\ pq (run_pending beh s) = [].
Proof.
  intros I Hp. unfold run_pending. destruct (fed s).
  - set (s1 := set_fed false s).
    assert (P : prim s s1) by (apply p_silent; sc).
    assert (I1 : Inv0 s1) by (eapply Inv0_prim; eauto).
    destruct (stream_io_sim s1 I1 Hp) as [A B].
    split; auto. eapply st_step; eauto.
  - split; auto. constructor.
Qed.

Lemma pending_rounds_sim k : forall s, Inv0 s -> pq s = [] ->
  steps s (pending_rounds beh k s) /\ pq (pending_rounds beh k s) = [].
Proof.
  induction k as [|k IH]; intros s I Hp; cbn [pending_rounds].
  - split; auto. constructor.
  - destruct (fed s).
    + destruct (run_pending_sim s I Hp) as [A B].
      assert (I1 : Inv0 (run_pending beh s)) by (eapply Inv0_steps; eauto).
      destruct (IH (run_pending beh s) I1 B) as [C D].
      split; eauto using steps_trans.
    + split; auto. constructor.
Qed.

Lemma run_iter_sim s : Inv0 s -> pq s = [] ->
  steps s (run_iter beh s) /\ pq (run_iter beh s) = [].
Proof.
  intros I Hp. unfold run_iter.
  destruct (run_pending_sim s I Hp) as [A B].
  set (s1 := run_pending beh s) in *.
  set (w := match pollw s1 with [] => true | b :: _ => b end).
  set (s1' := set_pollw (tl (pollw s1)) s1).
  assert (P1 : prim s1 s1') by (apply p_silent; sc).
  assert (S1 : steps s s1') by (eapply steps_trans; [exact A|]; apply steps_one; exact P1).
  assert (I1 : Inv0 s1') by (eapply Inv0_steps; eauto).
  assert (Hp1 : pq s1' = []) by exact B.
  set (s2 := if armed s1' && w then stream_io beh s1' else s1').
  assert (S2 : steps s1' s2 /\ pq s2 = []).
  { unfold s2. destruct (armed s1' && w). apply stream_io_sim; auto. split; auto. constructor. }
  destruct S2 as [S2 Hp2].
  assert (I2 : Inv0 s2) by (eapply Inv0_steps; eauto).
  destruct (pending_rounds_sim 8 s2 I2 Hp2) as [S3 Hp3].
  set (s3 := pending_rounds beh 8 s2) in *.
  assert (I3 : Inv0 s3) by (eapply Inv0_steps; eauto).
  destruct (closing s3 && negb (closed s3)) eqn:Hc.
  - apply andb_prop in Hc. destruct Hc as [Hc _].
    destruct (destroy_sim s3 I3 Hc Hp3) as [S4 Hp4].
    split; auto. eauto using steps_trans.
  - split; auto. eauto using steps_trans.
Qed.

Lemma step_sim s o : Inv0 s -> pq s = [] ->
  steps s (step beh s o) /\ pq (step beh s o) = [].
Proof.
  intros I Hp. unfold step.
  set (s' := match o with ORun => run_iter beh s | _ => api s o end).
  assert (S : steps s s' /\ pq s' = []).
  { unfold s'. destruct o; try apply run_iter_sim; auto;
      match goal with |- steps s (api s ?o) /\ _ =>
        destruct (api_sim s o) as [A [B _]]; split; [exact A | congruence] end. }
  destruct S as [S Hp']. split; auto.
  eapply steps_trans; [exact S|]. apply steps_one, p_q.
Qed.

Lemma exec_sim os : forall s, Inv0 s -> pq s = [] ->
  steps s (exec beh s os) /\ pq (exec beh s os) = [].
Proof.
  induction os as [|o os IH]; intros s I Hp; cbn [exec].
  - split; auto. constructor.
  - destruct (step_sim s o I Hp) as [A B].
    assert (I1 : Inv0 (step beh s o)) by (eapply Inv0_steps; eauto).
    destruct (IH (step beh s o) I1 B) as [C D].
    split; eauto using steps_trans.
Qed.

End Sim.

(* the three shapes of a start state *)
Ltac init_cases c :=
  destruct c as [[[[tcp cres] so] cr]|]; unfold init; [destruct (conn_pending_ok cres); [|destruct tcp]|].

Lemma Inv0_init blk o sa pw c ip : Inv0 (init blk o sa pw c ip).
Proof. unfold Inv0. init_cases c; cbn; discriminate. Qed.

Lemma pq_init blk o sa pw c ip : pq (init blk o sa pw c ip) = [].
Proof. init_cases c; reflexivity. Qed.

Theorem exec_steps beh blk o sa pw c ip ops :
  steps (init blk o sa pw c ip) (exec beh (init blk o sa pw c ip) ops) /\
  pq (exec beh (init blk o sa pw c ip) ops) = [].
Proof. apply exec_sim. apply Inv0_init. apply pq_init. Qed.

Lemma Inv1_steps s s' : steps s s' -> Inv1 s -> Inv1 s'.
Proof. induction 1; eauto using Inv1_prim. Qed.

Lemma Inv1_init blk o sa pw c ip : Inv1 (init blk o sa pw c ip).
Proof. init_cases c; constructor; unfold live; cbn; auto. Qed.

(* C05_queue_size_exact *)
Theorem queue_size_exact beh blk o sa pw c ip ops :
  let s := exec beh (init blk o sa pw c ip) ops in
  wqs s = sum_rem (cq s ++ wq s) /\ pq s = [] /\
  Forall (fun r => req_size r = r_total r - r_off r /\ r_off r <= r_total r) (cq s ++ wq s).
Proof.
  intros s. destruct (exec_steps beh blk o sa pw c ip ops) as [S P]. fold s in S, P.
  pose proof (Inv1_steps _ _ S (Inv1_init blk o sa pw c ip)) as [A B _ _].
  unfold live in *. rewrite P in *. simpl in *. repeat split; auto.
  eapply Forall_impl; [|exact B]. intros r [_ H]. lia.
Qed.

(* ------------------------------------------------------------------ *)
(* invariant, part 2: identities, callback order, accounting           *)
(* ------------------------------------------------------------------ *)
Fixpoint acc (t : list event) (id : nat) : N :=
  match t with
  | [] => 0
  | EChunk i _ len :: t' => (if Nat.eqb i id then len else 0) + acc t' id
  | _ :: t' => acc t' id
  end.

Fixpoint cb_ids (t : list event) : list nat :=
  match t with
  | [] => []
  | ECb i _ _ :: t' => i :: cb_ids t'
  | _ :: t' => cb_ids t'
  end.

Definition ev_id_lt (n : nat) (e : event) : Prop :=
  match e with
  | EWrite i _ | ERet i _ | ETry i _ | ETryRet i _ | EChunk i _ _ | ECb i _ _
  | EWrite2 i | EFd i | EFdFail i => (i < n)%nat
  | _ => True
  end.

Definition neutral (e : event) : Prop :=
  match e with
  | EShut _ | ESysShut _ | EShutCb _ | ECloseCb | EQ _ | ETry _ _ | ETryRet _ _ | EConnCb _
  | EWrite2 _ | EFd _ | EFdFail _ | EConnect _ | EReopen | EOrphan _ | EReset _ => True
  | _ => False
  end.

Definition key := (nat * N * N)%type.     (* id, accepted so far, total *)
Definition kid (k : key) : nat := fst (fst k).
Definition koff (k : key) : N := snd (fst k).
Definition ktot (k : key) : N := snd k.
Definition lkey (r : req) : key := (r_id r, r_off r, r_total r).

Record I2 (L : list key) (n : nat) (t : list event) : Prop := {
  j_sorted : StronglySorted lt (map kid L);
  j_fresh : Forall (ev_id_lt n) t;
  j_live_lt : Forall (fun k => (kid k < n)%nat) L;
  j_cb_sorted : StronglySorted gt (cb_ids t);
  j_cb_lt : forall i k, In i (cb_ids t) -> In k L -> (i < kid k)%nat;
  j_acc : Forall (fun k => acc t (kid k) = koff k /\ In (EWrite (kid k) (ktot k)) t /\ koff k <= ktot k) L;
  j_status : forall id q, In (ECb id 0%Z q) t -> exists total, In (EWrite id total) t /\ acc t id = total;
  j_wuniq : forall id t1 t2, In (EWrite id t1) t -> In (EWrite id t2) t -> t1 = t2;
  j_ret : forall id, In (ERet id 0%Z) t -> In id (cb_ids t) \/ In id (map kid L);
  j_fail : forall id c, In (ERet id c) t -> c <> 0%Z -> ~ In id (cb_ids t) /\ ~ In id (map kid L);
  j_le : forall id total, In (EWrite id total) t -> acc t id <= total
}.

Lemma acc_fresh n t : Forall (ev_id_lt n) t -> forall id, (n <= id)%nat -> acc t id = 0.
Proof.
  induction 1 as [|e t He Ht IH]; intros id Hid; simpl; auto.
  destruct e; auto. simpl in He. destruct (Nat.eqb_spec id0 id); [lia|]. rewrite IH; auto.
Qed.

Lemma cb_ids_fresh n t : Forall (ev_id_lt n) t -> forall i, In i (cb_ids t) -> (i < n)%nat.
Proof.
  induction 1 as [|e t He Ht IH]; intros i Hi; simpl in *; [tauto|].
  destruct e; auto. simpl in *. destruct Hi; subst; auto.
Qed.

Lemma fresh_no_event n t : Forall (ev_id_lt n) t ->
  forall e, In e t -> ev_id_lt n e.
Proof. intros H e He. rewrite Forall_forall in H. auto. Qed.

Lemma ev_id_lt_mono n m e : (n <= m)%nat -> ev_id_lt n e -> ev_id_lt m e.
Proof. destruct e; simpl; auto; lia. Qed.

Lemma I2_bump L n t : I2 L n t -> I2 L (S n) t.
Proof.
  intros [A B C D E F G H I J K]. constructor; auto.
  - eapply Forall_impl; [|exact B]. intros e. apply ev_id_lt_mono. lia.
  - eapply Forall_impl; [|exact C]. simpl. intros; lia.
Qed.

Lemma I2_neutral L n t e : neutral e -> ev_id_lt n e -> I2 L n t -> I2 L n (e :: t).
Proof.
  intros Hn Hl [A B C D E F G H I J K].
  assert (Hacc : forall id, acc (e :: t) id = acc t id) by (destruct e; simpl in *; tauto).
  assert (Hcb : cb_ids (e :: t) = cb_ids t) by (destruct e; simpl in *; tauto).
  assert (Hin : forall x, In x (e :: t) -> (x = e) \/ In x t) by (simpl; intuition).
  constructor; auto; try rewrite Hcb; auto.
  - eapply Forall_impl; [|exact F]. intros k (F1 & F2 & F3). rewrite Hacc. simpl. auto.
  - intros id q Hq. destruct (Hin _ Hq) as [<-|Hq']; [destruct Hn|].
    destruct (G _ _ Hq') as (total & G1 & G2). exists total. rewrite Hacc. simpl; auto.
  - intros id t1 t2 H1 H2. destruct (Hin _ H1) as [<-|H1']; [destruct Hn|].
    destruct (Hin _ H2) as [<-|H2']; [destruct Hn|]. eauto.
  - intros id Hr. destruct (Hin _ Hr) as [<-|Hr']; [destruct Hn|]. auto.
  - intros id c Hr Hc. destruct (Hin _ Hr) as [<-|Hr']; [destruct Hn|]. eauto.
  - intros id total Hw. destruct (Hin _ Hw) as [<-|Hw']; [destruct Hn|]. rewrite Hacc. auto.
Qed.

Lemma I2_ewrite L n t tot : I2 L n t -> I2 L (S n) (EWrite n tot :: t).
Proof.
  intros HI. pose proof HI as [A B C D E F G H I J K].
  pose proof (I2_bump _ _ _ HI) as [A' B' C' D' E' F' G' H' I' J' K'].
  constructor; auto; simpl.
  - constructor; auto. simpl; lia.
  - eapply Forall_impl; [|exact F]. intros k (F1 & F2 & F3). auto.
  - intros id q [Hq|Hq]; [discriminate|]. destruct (G _ _ Hq) as (total & G1 & G2). eauto.
  - intros id t1 t2 [H1|H1] [H2|H2].
    + congruence.
    + inversion H1; subst. apply (fresh_no_event _ _ B) in H2. simpl in H2. lia.
    + inversion H2; subst. apply (fresh_no_event _ _ B) in H1. simpl in H1. lia.
    + eauto.
  - intros id [Hr|Hr]; [discriminate|]. auto.
  - intros id c [Hr|Hr] Hc; [discriminate|]. eauto.
  - intros id total [Hw|Hw].
    + inversion Hw; subst. rewrite (acc_fresh _ _ B); auto. lia.
    + auto.
Qed.

Lemma I2_eret_fail L n t id c :
  c <> 0%Z -> (id < n)%nat -> ~ In id (cb_ids t) -> ~ In id (map kid L) ->
  I2 L n t -> I2 L n (ERet id c :: t).
Proof.
  intros Hc Hid N1 N2 [A B C D E F G H I J K]. constructor; auto; simpl.
  - eapply Forall_impl; [|exact F]. intros k (F1 & F2 & F3). auto.
  - intros id' q [Hq|Hq]; [discriminate|]. destruct (G _ _ Hq) as (total & G1 & G2). eauto.
  - intros id' t1 t2 [H1|H1] [H2|H2]; try discriminate. eauto.
  - intros id' [Hr|Hr]; [inversion Hr; subst; congruence|]. auto.
  - intros id' c' [Hr|Hr] Hc'; [inversion Hr; subst; auto|]. eauto.
  - intros id' total [Hw|Hw]; [discriminate|]. auto.
Qed.

Lemma I2_ret_ok L n t id :
  In id (map kid L) -> I2 L n t -> I2 L n (ERet id 0%Z :: t).
Proof.
  intros Hin [A B C D E F G H I J K]. constructor; auto; simpl.
  - constructor; auto. simpl. apply in_map_iff in Hin. destruct Hin as (k & <- & Hk).
    rewrite Forall_forall in C. auto.
  - eapply Forall_impl; [|exact F]. intros k (F1 & F2 & F3). auto.
  - intros id' q [Hq|Hq]; [discriminate|]. destruct (G _ _ Hq) as (total & G1 & G2). eauto.
  - intros id' t1 t2 [H1|H1] [H2|H2]; try discriminate. eauto.
  - intros id' [Hr|Hr]; [inversion Hr; subst; auto|]. auto.
  - intros id' c' [Hr|Hr] Hc'; [inversion Hr; subst; congruence|]. eauto.
  - intros id' total [Hw|Hw]; [discriminate|]. auto.
Qed.

Lemma sorted_app_last l x :
  StronglySorted lt l -> Forall (fun y => (y < x)%nat) l -> StronglySorted lt (l ++ [x]).
Proof.
  induction 1; intros Hl; simpl. repeat constructor.
  inversion Hl; subst. constructor; auto. apply Forall_app; split; auto.
Qed.

Lemma I2_call_enq L n t tot :
  I2 L n t -> I2 (L ++ [(n, 0, tot)]) (S n) (EWrite n tot :: t).
Proof.
  intros HI. pose proof HI as [A B C D E F G H I J K].
  pose proof (I2_ewrite _ _ _ tot HI) as [A' B' C' D' E' F' G' H' I' J' K'].
  constructor; auto.
  - rewrite map_app. simpl. apply sorted_app_last; auto.
    rewrite Forall_map. exact C.
  - apply Forall_app; split; [exact C' | constructor; [unfold kid; simpl; lia | constructor]].
  - intros i k Hi Hk. apply in_app_or in Hk. destruct Hk as [Hk|[<-|[]]]; eauto.
    simpl in *. eapply cb_ids_fresh; eauto.
  - apply Forall_app; split; auto. constructor; auto. unfold kid, koff, ktot; simpl.
    rewrite (acc_fresh _ _ B); auto. repeat split; auto. lia.
  - intros id Hr. destruct (I' id Hr) as [X|X]; auto. right. rewrite map_app. apply in_or_app; auto.
  - intros id c Hr Hc. destruct (J' id c Hr Hc) as [X Y]. split; auto.
    rewrite map_app. intros Z. apply in_app_or in Z. destruct Z as [Z|[Z|[]]]; auto.
    simpl in Z. subst id. simpl in Hr. destruct Hr as [Hr|Hr]; [discriminate|].
    apply (fresh_no_event _ _ B) in Hr. unfold kid in Hr; simpl in Hr. lia.
Qed.

Lemma In_kid_mid L1 k L2 k' (id' : nat) :
  In k' (L1 ++ k :: L2) -> kid k' = id' ->
  forall k2, kid k2 = kid k -> exists k'', In k'' (L1 ++ k2 :: L2) /\ kid k'' = id'.
Proof.
  intros Hin Hid k2 Hk2. apply in_app_or in Hin. destruct Hin as [Hin|[<-|Hin]].
  - exists k'; split; auto. apply in_or_app; auto.
  - exists k2; split; [apply in_or_app; right; left; auto | congruence].
  - exists k'; split; auto. apply in_or_app; right; right; auto.
Qed.

Lemma I2_chunk L1 L2 n t id off tot m :
  off + m <= tot ->
  I2 (L1 ++ (id, off, tot) :: L2) n t ->
  I2 (L1 ++ (id, off + m, tot) :: L2) n (EChunk id off m :: t).
Proof.
  intros Hm [A B C D E F G H I J K].
  assert (Hids : map kid (L1 ++ (id, off + m, tot) :: L2) = map kid (L1 ++ (id, off, tot) :: L2)).
  { rewrite !map_app. reflexivity. }
  assert (Hidn : (id < n)%nat).
  { rewrite Forall_forall in C. apply (C (id, off, tot)). apply in_or_app; right; left; auto. }
  assert (Hnd : NoDup (map kid (L1 ++ (id, off, tot) :: L2))).
  { clear -A. induction A; constructor; auto. intros X. rewrite Forall_forall in H. apply H in X. lia. }
  constructor; auto; simpl; try rewrite Hids; auto.
  - apply Forall_app in C. destruct C as [C1 C2]. inversion C2; subst.
    apply Forall_app; split; auto.
  - intros i k Hi Hk. apply in_app_or in Hk. destruct Hk as [Hk|[<-|Hk]].
    + apply E; auto. apply in_or_app; auto.
    + apply (E i (id, off, tot)); auto. apply in_or_app; right; left; auto.
    + apply E; auto. apply in_or_app; right; right; auto.
  - rewrite map_app in Hnd. simpl in Hnd. apply NoDup_remove_2 in Hnd.
    apply Forall_app in F. destruct F as [F1 F2]. inversion F2 as [|? ? (Fa & Fb & Fc) F3]; subst.
    apply Forall_app; split; [|constructor].
    + rewrite Forall_forall in *. intros k Hk. destruct (F1 k Hk) as (X & Y & Z).
      destruct (Nat.eqb_spec id (kid k)).
      * exfalso. apply Hnd. apply in_or_app; left. change (In id (map kid L1)). rewrite e. apply in_map; auto.
      * repeat split; auto.
    + unfold kid, koff, ktot in *; simpl in *. rewrite Nat.eqb_refl. repeat split; auto. lia.
    + rewrite Forall_forall in *. intros k Hk. destruct (F3 k Hk) as (X & Y & Z).
      destruct (Nat.eqb_spec id (kid k)).
      * exfalso. apply Hnd. apply in_or_app; right. change (In id (map kid L2)). rewrite e. apply in_map; auto.
      * repeat split; auto.
  - intros id' q [Hq|Hq]; [discriminate|]. destruct (G _ _ Hq) as (total & G1 & G2).
    exists total. split; auto. destruct (Nat.eqb_spec id id'); auto. subst id'.
    exfalso. assert (Hc : In id (cb_ids t)).
    { clear -Hq. induction t as [|e t IH]; simpl in *; [tauto|]. destruct Hq as [->|Hq]; simpl; auto.
      destruct e; simpl; auto. }
    specialize (E id (id, off, tot) Hc). unfold kid in E; simpl in E.
    assert (id < id)%nat; [|lia]. apply E. apply in_or_app; right; left; auto.
  - intros id' t1 t2 [H1|H1] [H2|H2]; try discriminate. eauto.
  - intros id' [Hr|Hr]; [discriminate|]. auto.
  - intros id' c' [Hr|Hr] Hc'; [discriminate|]. eauto.
  - intros id' total [Hw|Hw]; [discriminate|]. destruct (Nat.eqb_spec id id') as [<-|Hne]; [|simpl; auto].
    apply Forall_app in F. destruct F as [_ F2]. inversion F2 as [|? ? (Fa & Fb & Fc) F3]; subst.
    unfold kid, koff, ktot in *; simpl in *. rewrite (H _ _ _ Hw Fb). lia.
Qed.

Lemma I2_try_ok L n t tot m c :
  I2 L n t -> I2 L (S n) (ETryRet n c :: EChunk n 0 m :: ETry n tot :: t).
Proof.
  intros HI.
  assert (H1 : I2 L (S n) (ETry n tot :: t)).
  { apply I2_neutral; simpl; auto. apply I2_bump; auto. }
  apply I2_neutral; simpl; auto.
  destruct HI as [A0 B0 C0 _ _ _ _ _ _ _ _]. destruct H1 as [A B C D E F G H I J K].
  assert (NL : forall k, In k L -> kid k <> n).
  { intros k Hk. rewrite Forall_forall in C0. specialize (C0 k Hk). simpl in C0. lia. }
  constructor; auto.
  - constructor; auto. simpl; lia.
  - rewrite Forall_forall in *. intros k Hk. destruct (F k Hk) as (X & Y & Z). simpl.
    destruct (Nat.eqb_spec n (kid k)); [exfalso; eapply NL; eauto|]. simpl in X. repeat split; auto.
  - intros id q [Hq|Hq]; [discriminate|]. destruct (G _ _ Hq) as (total & G1 & G2).
    exists total. simpl. split; auto. destruct (Nat.eqb_spec n id); auto. subst id.
    destruct Hq as [Hq|Hq]; [discriminate|]. apply (fresh_no_event _ _ B0) in Hq. simpl in Hq. lia.
  - intros id t1 t2 [X|X] [Y|Y]; try discriminate. eauto.
  - intros id [Hr|Hr]; [discriminate|]. auto.
  - intros id c' [Hr|Hr] Hc'; [discriminate|]. eauto.
  - intros id total [Hw|Hw]; [discriminate|]. simpl. destruct (Nat.eqb_spec n id) as [<-|Hne].
    + destruct Hw as [Hw|Hw]; [discriminate|]. apply (fresh_no_event _ _ B0) in Hw. simpl in Hw. lia.
    + exact (K id total Hw).
Qed.

Lemma In_ECb_cb_ids id st q t : In (ECb id st q) t -> In id (cb_ids t).
Proof.
  induction t as [|e t IH]; simpl; [tauto|]. intros [->|H]; simpl; auto. destruct e; simpl; auto.
Qed.

Lemma I2_cb L n t id off tot st q :
  (st = 0%Z -> off = tot) ->
  I2 ((id, off, tot) :: L) n t -> I2 L n (ECb id st q :: t).
Proof.
  intros Hst [A B C D E F G H I J K].
  simpl in A. inversion A as [|? ? A1 A2]; subst. inversion C as [|? ? C1 C2]; subst.
  inversion F as [|? ? (Fa & Fb & Fc) F2]; subst. unfold kid, koff, ktot in *; simpl in *.
  constructor; auto; simpl.
  - constructor; auto. apply Forall_forall. intros i Hi.
    specialize (E i (id, off, tot) Hi (or_introl eq_refl)). simpl in E. lia.
  - intros i k [<-|Hi] Hk.
    + rewrite Forall_forall in A2. apply A2. apply in_map; auto.
    + apply E; auto.
  - eapply Forall_impl; [|exact F2]. intros k (X & Y & Z). auto.
  - intros id' q' [Hq|Hq].
    + inversion Hq; subst. exists tot. split; auto.
    + destruct (G _ _ Hq) as (total & G1 & G2). eauto.
  - intros id' t1 t2 [X|X] [Y|Y]; try discriminate. eauto.
  - intros id' [Hr|Hr]; [discriminate|]. destruct (I _ Hr) as [X|[X|X]]; auto.
  - intros id' c' [Hr|Hr] Hc'; [discriminate|]. destruct (J _ _ Hr Hc') as [X Y]. split.
    + intros [Z|Z]; auto.
    + intros Z; auto.
  - intros id' total [Hw|Hw]; [discriminate|]. auto.
Qed.

Definition Inv2 (s : st) : Prop := I2 (map lkey (live s)) (next_id s) (tr s).

Lemma map_kid_lkey l : map kid (map lkey l) = map r_id l.
Proof. rewrite map_map. reflexivity. Qed.

Lemma map_lkey_set_err c l : map lkey (map (set_err c) l) = map lkey l.
Proof. rewrite map_map. reflexivity. Qed.

Lemma lkey_finish (p c : list req) r r' rest :
  lkey r' = lkey r -> map lkey (p ++ (c ++ [r']) ++ rest) = map lkey (p ++ c ++ r :: rest).
Proof. intros E. rewrite <- !app_assoc. simpl. rewrite !map_app. simpl. rewrite E. reflexivity. Qed.

Lemma Inv2_prim s s' : prim s s' -> Inv1 s -> Inv2 s -> Inv2 s'.
Proof.
  intros P I1 I. unfold Inv2 in *. destruct P; unfold live, call0, finish_head, flush in *; cbn in *.
  - destruct H as (E1 & E2 & E3 & _ & _ & _ & _ & _ & _ & E4 & E5). rewrite E1, E2, E3, E4, E5. exact I.
  - (* chunk *)
    destruct I1 as [_ Hw _ _]. unfold live in Hw. rewrite H in *.
    apply Forall_app3 in Hw. destruct Hw as (_ & _ & Hw). inversion Hw as [|? ? Hr _]; subst.
    destruct (req_update_spec r n Hr H0) as (_ & _ & Ei & Et & Eo & _ & _).
    rewrite !app_assoc in *. rewrite map_app in *. simpl in *.
    unfold lkey at 2. rewrite Ei, Et, Eo.
    apply I2_chunk; auto. destruct Hr as [_ Hr]. lia.
  - (* finish *)
    rewrite H in I.
    match goal with |- I2 (map lkey (_ ++ (_ ++ [?r']) ++ _)) _ _ =>
      assert (E : lkey r' = lkey r) by (destruct (_ =? _)%Z; reflexivity) end.
    rewrite (lkey_finish _ _ _ _ _ E). exact I.
  - (* fail *)
    rewrite H in I.
    match goal with |- I2 (map lkey (_ ++ (_ ++ [?r']) ++ _)) _ _ =>
      assert (E : lkey r' = lkey r) by (destruct (_ =? _)%Z; reflexivity) end.
    rewrite (lkey_finish _ _ _ _ _ E). exact I.
  - (* write_fail *)
    pose proof (check_some_neg _ _ H) as He.
    pose proof I as [_ B C _ _ _ _ _ _ _ _].
    apply I2_eret_fail; [lia | lia | | | apply I2_ewrite; auto].
    + simpl. intros X. apply (cb_ids_fresh _ _ B) in X. lia.
    + intros X. apply in_map_iff in X. destruct X as (k & Ek & Hk).
      rewrite Forall_forall in C. apply C in Hk. lia.
  - (* enqueue *)
    rewrite !app_assoc. rewrite map_app. simpl. rewrite <- !app_assoc. apply I2_call_enq; auto.
  - apply I2_ret_ok; auto. rewrite map_kid_lkey. exact H0.
  - apply I2_neutral; simpl; auto. apply I2_neutral; simpl; auto. apply I2_bump; auto.
  - apply I2_try_ok; auto.
  - apply I2_neutral; simpl; auto.
  - apply I2_neutral; simpl; auto.
  - exact I.
  - rewrite H in I. simpl in I. try rewrite app_nil_r. exact I.
  - (* cb *)
    destruct I1 as [_ Hw _ Hd]. unfold live in *. rewrite H in *. simpl in *.
    inversion Hw as [|? ? [_ Hr] _]; subst. inversion Hd as [|? ? [Hz _] _]; subst.
    assert (Hst : r_err r = 0%Z -> r_off r = r_total r) by (intros X; apply Hz in X; lia).
    destruct (r_freed r); cbn; eapply I2_cb; eauto.
  - apply I2_neutral; simpl; auto.
  - apply I2_neutral; simpl; auto. apply I2_neutral; simpl; auto.
  - apply I2_neutral; simpl; auto. apply I2_neutral; simpl; auto.
  - rewrite app_nil_r. rewrite !map_app in *. rewrite map_lkey_set_err. exact I.
  - apply I2_neutral; simpl; auto.
  - apply I2_neutral; simpl; auto.
  - apply I2_neutral; simpl; auto.
  - (* fd *)
    rewrite H in I. pose proof I as [_ _ C _ _ _ _ _ _ _ _].
    assert (Hid : (r_id r < next_id s)%nat).
    { rewrite Forall_forall in C. apply (C (lkey r)). apply in_map.
      apply in_or_app; right; apply in_or_app; right; left; auto. }
    replace (map lkey (pq s ++ cq s ++ clear_sh r :: rest)) with (map lkey (pq s ++ cq s ++ r :: rest))
      by (rewrite !map_app; reflexivity).
    apply I2_neutral; simpl; auto.
  - (* fdfail *)
    pose proof I as [_ _ C _ _ _ _ _ _ _ _].
    assert (Hid : (r_id r < next_id s)%nat).
    { rewrite Forall_forall in C. apply (C (lkey r)). apply in_map. rewrite H.
      apply in_or_app; right; apply in_or_app; right; left; auto. }
    apply I2_neutral; simpl; auto.
  - (* write2 refused *)
    pose proof (check2_some_neg _ _ H) as He.
    pose proof I as [_ B C _ _ _ _ _ _ _ _].
    apply I2_eret_fail; [lia | lia | | | apply I2_neutral; [simpl; auto | simpl; lia | apply I2_ewrite; auto]].
    + simpl. intros X. apply (cb_ids_fresh _ _ B) in X. lia.
    + intros X. apply in_map_iff in X. destruct X as (k & Ek & Hk).
      rewrite Forall_forall in C. apply C in Hk. lia.
  - (* write2 enqueued *)
    rewrite !app_assoc. rewrite map_app. simpl. rewrite <- !app_assoc.
    apply I2_neutral; [simpl; auto | simpl; lia |]. apply I2_call_enq; auto.
  - (* ENOMEM *)
    pose proof I as [_ B C _ _ _ _ _ _ _ _].
    apply I2_eret_fail; [unfold UV_ENOMEM; lia | lia | | | apply I2_ewrite; auto].
    + simpl. intros X. apply (cb_ids_fresh _ _ B) in X. lia.
    + intros X. apply in_map_iff in X. destruct X as (k & Ek & Hk).
      rewrite Forall_forall in C. apply C in Hk. lia.
  - pose proof I as [_ B C _ _ _ _ _ _ _ _].
    apply I2_eret_fail; [unfold UV_ENOMEM; lia | lia | | | apply I2_neutral; [simpl; auto | simpl; lia | apply I2_ewrite; auto]].
    + simpl. intros X. apply (cb_ids_fresh _ _ B) in X. lia.
    + intros X. apply in_map_iff in X. destruct X as (k & Ek & Hk).
      rewrite Forall_forall in C. apply C in Hk. lia.
  - apply I2_neutral; simpl; auto.
  - apply I2_neutral; simpl; auto.
  - apply I2_neutral; simpl; auto.
  - apply I2_neutral; simpl; auto.
  - apply I2_neutral; simpl; auto.
Qed.

Lemma Inv12_steps s s' : steps s s' -> Inv1 s /\ Inv2 s -> Inv1 s' /\ Inv2 s'.
Proof. induction 1; auto. intros [A B]. apply IHsteps. split; eauto using Inv1_prim, Inv2_prim. Qed.

Lemma Inv2_init blk o sa pw c ip : Inv2 (init blk o sa pw c ip).
Proof.
  unfold Inv2, live. init_cases c; cbn; constructor; simpl; auto; try constructor; try tauto.
Qed.

(* ------------------------------------------------------------------ *)
(* invariant, part 3: the byte stream                                  *)
(* ------------------------------------------------------------------ *)
Fixpoint chunks (t : list event) : list (nat * N * N) :=     (* newest first *)
  match t with
  | [] => []
  | EChunk i o l :: t' => (i, o, l) :: chunks t'
  | _ :: t' => chunks t'
  end.

(* bytes [off, off+len) of request id; a byte is (request, index) *)
Definition bytes_of (id : nat) (off len : N) : list (nat * N) :=
  map (fun i => (id, off + N.of_nat i)) (seq 0 (N.to_nat len)).

Definition expand (cs : list (nat * N * N)) : list (nat * N) :=
  flat_map (fun c => bytes_of (fst (fst c)) (snd (fst c)) (snd c)) cs.

(* everything the OS accepted, in the order it accepted it *)
Definition sent (t : list event) : list (nat * N) := expand (rev (chunks t)).

Lemma map_seq_shift {A} (f : nat -> A) k : forall n s,
  map f (seq (k + s) n) = map (fun i => f (k + i)%nat) (seq s n).
Proof.
  induction n; intros s; simpl; auto. f_equal. rewrite plus_n_Sm. apply IHn.
Qed.

Lemma bytes_of_app id a b : bytes_of id 0 (a + b) = bytes_of id 0 a ++ bytes_of id a b.
Proof.
  unfold bytes_of. rewrite N2Nat.inj_add, seq_app, map_app. f_equal. simpl.
  rewrite <- (Nat.add_0_r (N.to_nat a)) at 1. rewrite map_seq_shift.
  apply map_ext. intros i. f_equal. lia.
Qed.

Lemma bytes_of_0 id off : bytes_of id off 0 = [].
Proof. reflexivity. Qed.

Lemma sent_chunk i o l t : sent (EChunk i o l :: t) = sent t ++ bytes_of i o l.
Proof.
  unfold sent, expand. simpl. rewrite flat_map_app. simpl. rewrite app_nil_r. reflexivity.
Qed.

Lemma flat_map_nil {A B} (g : A -> list B) l : (forall x, In x l -> g x = []) -> flat_map g l = [].
Proof. induction l; simpl; auto. intros H. rewrite (H a), IHl; auto. Qed.

Lemma flat_map_ext_in {A B} (f g : A -> list B) l :
  (forall a, In a l -> f a = g a) -> flat_map f l = flat_map g l.
Proof. induction l; simpl; auto. intros H. rewrite (H a), IHl; auto. Qed.

Lemma flat_map_update {B} (g g' : nat -> list B) n id x :
  (id < n)%nat -> (x = [] \/ forall id', (id < id')%nat -> g id' = []) ->
  g' id = g id ++ x -> (forall id', id' <> id -> g' id' = g id') ->
  flat_map g' (seq 0 n) = flat_map g (seq 0 n) ++ x.
Proof.
  intros Hlt Hz Hid Hne.
  assert (Hsplit : seq 0 n = seq 0 id ++ [id] ++ seq (S id) (n - id - 1)).
  { replace n with (id + (1 + (n - id - 1)))%nat at 1 by lia. rewrite !seq_app. simpl.
    replace (id + 1)%nat with (S id) by lia. reflexivity. }
  rewrite Hsplit, !flat_map_app. simpl. rewrite !app_nil_r, Hid.
  rewrite (flat_map_ext_in g' g (seq 0 id)).
  2: { intros a Ha. apply in_seq in Ha. apply Hne. lia. }
  rewrite (flat_map_ext_in g' g (seq (S id) (n - id - 1))).
  2: { intros a Ha. apply in_seq in Ha. apply Hne. lia. }
  destruct Hz as [->|Hz].
  - rewrite !app_nil_r. reflexivity.
  - rewrite (flat_map_nil g (seq (S id) (n - id - 1))).
    2: { intros a Ha. apply in_seq in Ha. apply Hz. lia. }
    rewrite !app_nil_r, <- !app_assoc. reflexivity.
Qed.

Definition wkey (r : req) : nat * N := (r_id r, req_size r).

Record I3 (W : list (nat * N)) (n : nat) (t : list event) : Prop := {
  k_exp : sent t = flat_map (fun id => bytes_of id 0 (acc t id)) (seq 0 n);
  k_front : Forall (fun w => 0 < snd w -> forall id', (fst w < id')%nat -> acc t id' = 0) W;
  k_try : forall id c, In (ETryRet id c) t -> acc t id = Z.to_N c /\ exists tot, In (ETry id tot) t;
  k_try_le : forall id tot, In (ETry id tot) t -> acc t id <= tot;
  k_disj : forall id t1 t2, In (EWrite id t1) t -> In (ETry id t2) t -> False
}.

Definition no_chunk (e : event) : Prop := match e with EChunk _ _ _ => False | _ => True end.

Lemma acc_no_chunk e t id : no_chunk e -> acc (e :: t) id = acc t id.
Proof. destruct e; simpl; tauto. Qed.
Lemma sent_no_chunk e t : no_chunk e -> sent (e :: t) = sent t.
Proof. destruct e; simpl; try tauto; reflexivity. Qed.

(* an event that is neither a chunk nor about try_write nor a uv_write call *)
Definition plain (e : event) : Prop :=
  match e with EChunk _ _ _ | ETry _ _ | ETryRet _ _ | EWrite _ _ => False | _ => True end.

Lemma I3_plain W n t e : plain e -> I3 W n t -> I3 W n (e :: t).
Proof.
  intros Hp [A B C D E].
  assert (Hn : no_chunk e) by (destruct e; simpl in *; tauto).
  constructor.
  - rewrite sent_no_chunk; auto. rewrite A. apply flat_map_ext. intros. rewrite acc_no_chunk; auto.
  - eapply Forall_impl; [|exact B]. intros w H Hw id' Hid. rewrite acc_no_chunk; auto.
  - intros id c [Hc|Hc]; [subst e; destruct Hp|]. destruct (C _ _ Hc) as [X [tot Y]].
    rewrite acc_no_chunk; auto. split; auto. exists tot; right; auto.
  - intros id tot [Hc|Hc]; [subst e; destruct Hp|]. rewrite acc_no_chunk; auto.
  - intros id t1 t2 [H1|H1]; [subst e; destruct Hp|]. intros [H2|H2]; [subst e; destruct Hp|]. eauto.
Qed.

Lemma I3_bump W n t : Forall (ev_id_lt n) t -> I3 W n t -> I3 W (S n) t.
Proof.
  intros Hf [A B C D E]. constructor; auto.
  rewrite seq_S, flat_map_app. simpl. rewrite (acc_fresh _ _ Hf n); auto. rewrite A, !app_nil_r. reflexivity.
Qed.

Lemma I3_ewrite W n t id tot : Forall (ev_id_lt id) t -> I3 W n t -> I3 W n (EWrite id tot :: t).
Proof.
  intros Hf [A B C D E].
  constructor.
  - rewrite sent_no_chunk; simpl; auto.
  - exact B.
  - intros id' c [Hc|Hc]; [discriminate|]. destruct (C _ _ Hc) as [X [tot' Y]]. split; auto.
    exists tot'; right; auto.
  - intros id' tot' [Hc|Hc]; [discriminate|]. simpl. auto.
  - intros id' t1 t2 [H1|H1] [H2|H2]; try discriminate.
    + inversion H1; subst. apply (fresh_no_event _ _ Hf) in H2. simpl in H2. lia.
    + eauto.
Qed.

Lemma I3_etry W n t id tot : Forall (ev_id_lt id) t -> I3 W n t -> I3 W n (ETry id tot :: t).
Proof.
  intros Hf [A B C D E].
  constructor.
  - rewrite sent_no_chunk; simpl; auto.
  - exact B.
  - intros id' c [Hc|Hc]; [discriminate|]. destruct (C _ _ Hc) as [X [tot' Y]]. split; auto.
    exists tot'; right; auto.
  - intros id' tot' [Hc|Hc].
    + inversion Hc; subst. simpl. rewrite (acc_fresh _ _ Hf); auto. lia.
    + simpl. auto.
  - intros id' t1 t2 [H1|H1] [H2|H2]; try discriminate.
    + inversion H2; subst. apply (fresh_no_event _ _ Hf) in H1. simpl in H1. lia.
    + eauto.
Qed.

Lemma I3_tryret W n t id c :
  acc t id = Z.to_N c -> (exists tot, In (ETry id tot) t) -> I3 W n t -> I3 W n (ETryRet id c :: t).
Proof.
  intros Ha Ht [A B C D E].
  constructor.
  - rewrite sent_no_chunk; simpl; auto.
  - exact B.
  - intros id' c' [Hc'|Hc'].
    + inversion Hc'; subst. simpl. split; auto. destruct Ht as [tot Ht]. exists tot; right; auto.
    + destruct (C _ _ Hc') as [X [tot' Y]]. split; auto. exists tot'; right; auto.
  - intros id' tot' [Hc'|Hc']; [discriminate|]. apply D; auto.
  - intros id' t1 t2 [H1|H1] [H2|H2]; try discriminate. eauto.
Qed.

Lemma I3_chunk_fresh W n t tot m :
  m <= tot -> Forall (ev_id_lt n) t -> Forall (fun w => snd w = 0) W ->
  I3 W (S n) (ETry n tot :: t) -> I3 W (S n) (EChunk n 0 m :: ETry n tot :: t).
Proof.
  intros Hm Hf Hz [A B C D E].
  assert (Hf' : Forall (ev_id_lt (S n)) (ETry n tot :: t)).
  { constructor; [simpl; lia|]. eapply Forall_impl; [|exact Hf]. intros e. apply ev_id_lt_mono. lia. }
  assert (Ha0 : acc t n = 0) by (apply (acc_fresh _ _ Hf); auto).
  constructor.
  - rewrite sent_chunk, A. symmetry.
    apply flat_map_update with (id := n); [lia | right | | ].
    + intros id' Hid. rewrite (acc_fresh _ _ Hf'); auto.
    + cbn [acc]. rewrite Nat.eqb_refl, Ha0, N.add_0_r. reflexivity.
    + intros id' Hne. cbn [acc]. destruct (Nat.eqb_spec n id'); [congruence|]. reflexivity.
  - eapply Forall_impl; [|exact Hz]. intros w Hw Hpos. simpl in *. exfalso. lia.
  - intros id c Hc. destruct Hc as [Hc|Hc]; [discriminate|].
    destruct (C _ _ Hc) as [X [tot' Y]]. split; [|exists tot'; right; auto].
    cbn [acc]. destruct (Nat.eqb_spec n id) as [<-|Hne]; auto.
    destruct Hc as [Hc|Hc]; [discriminate|]. apply (fresh_no_event _ _ Hf) in Hc. simpl in Hc. lia.
  - intros id tot' Ht. destruct Ht as [Ht|Ht]; [discriminate|].
    cbn [acc]. destruct (Nat.eqb_spec n id) as [<-|Hne].
    + rewrite Ha0. destruct Ht as [Ht|Ht].
      * inversion Ht; subst. lia.
      * apply (fresh_no_event _ _ Hf) in Ht. simpl in Ht. lia.
    + apply (D id tot' Ht).
  - intros id t1 t2 [H1|H1] [H2|H2]; try discriminate. eauto.
Qed.

Lemma I3_chunk W n t id rem off tot m :
  m <= rem -> (id < n)%nat -> acc t id = off -> In (EWrite id tot) t ->
  Forall (fun w => (id < fst w)%nat) W ->
  I3 ((id, rem) :: W) n t -> I3 ((id, rem - m) :: W) n (EChunk id off m :: t).
Proof.
  intros Hm Hid Ha Hw Hs [A B C D E]. inversion B as [|? ? B1 B2]; subst. simpl in B1.
  constructor.
  - rewrite sent_chunk, A. symmetry.
    apply flat_map_update with (id := id); auto.
    + destruct (N.eqb_spec m 0) as [->|Hm0]; [left; reflexivity | right].
      intros id' Hid'. rewrite B1; auto. lia.
    + cbn [acc]. rewrite Nat.eqb_refl. rewrite N.add_comm. apply bytes_of_app.
    + intros id' Hne. cbn [acc]. destruct (Nat.eqb_spec id id'); [congruence|]. reflexivity.
  - constructor.
    + simpl. intros Hpos id' Hid'. destruct (Nat.eqb_spec id id'); [lia|]. simpl. apply B1; auto. lia.
    + rewrite Forall_forall in *. intros w Hw' Hpos id' Hid'. specialize (Hs w Hw').
      simpl. destruct (Nat.eqb_spec id id'); [lia|]. simpl. apply (B2 w Hw'); auto.
  - intros id' c Hc. destruct Hc as [Hc|Hc]; [discriminate|].
    destruct (C _ _ Hc) as [X [tot' Y]]. split; [|exists tot'; right; auto].
    cbn [acc]. destruct (Nat.eqb_spec id id') as [<-|Hne]; auto. exfalso; eauto.
  - intros id' tot' Ht. destruct Ht as [Ht|Ht]; [discriminate|].
    cbn [acc]. destruct (Nat.eqb_spec id id') as [<-|Hne]; [exfalso; eauto|]. apply (D id' tot' Ht).
  - intros id' t1 t2 [H1|H1] [H2|H2]; try discriminate. eauto.
Qed.

Definition Inv3 (s : st) : Prop := I3 (map wkey (wq s)) (next_id s) (tr s).

Lemma I3_tail w W n t : I3 (w :: W) n t -> I3 W n t.
Proof. intros [A B C D E]. inversion B; subst. constructor; auto. Qed.

Lemma I3_nil W n t : I3 W n t -> I3 [] n t.
Proof. intros [A B C D E]. constructor; auto. Qed.

Lemma I3_enq W n t tot : Forall (ev_id_lt (S n)) t -> I3 W (S n) t -> I3 (W ++ [(n, tot)]) (S n) t.
Proof.
  intros Hf [A B C D E]. constructor; auto.
  apply Forall_app; split; auto. constructor; auto. simpl. intros _ id' Hid.
  apply (acc_fresh _ _ Hf). lia.
Qed.

Lemma sorted_mid_lt l1 x l2 : StronglySorted lt (l1 ++ x :: l2) -> Forall (lt x) l2.
Proof.
  induction l1; simpl; intros H; inversion H; subst; auto.
Qed.

Lemma sum_rem_zero l : sum_rem l = 0 -> Forall (fun r => req_size r = 0) l.
Proof. induction l; simpl; intros H; constructor; [lia | apply IHl; lia]. Qed.

Lemma fresh_bump n t : Forall (ev_id_lt n) t -> Forall (ev_id_lt (S n)) t.
Proof. intros H. eapply Forall_impl; [|exact H]. intros e. apply ev_id_lt_mono. lia. Qed.

Lemma Inv3_prim s s' : prim s s' -> Inv1 s -> Inv2 s -> Inv3 s -> Inv3 s'.
Proof.
  intros P I1 I2' I. unfold Inv3, Inv2 in *.
  pose proof I2' as [Js Jf Jl _ _ Ja _ _ _ _ _].
  destruct P; unfold live, call0, finish_head, flush in *; cbn in *.
  - destruct H as (E1 & _ & _ & _ & _ & _ & _ & _ & _ & E4 & E5). rewrite E1, E4, E5. exact I.
  - (* chunk *)
    destruct I1 as [_ Hw _ _]. unfold live in Hw. rewrite H in *.
    apply Forall_app3 in Hw. destruct Hw as (_ & _ & Hw). inversion Hw as [|? ? Hr _]; subst.
    destruct (req_update_spec r n Hr H0) as (_ & Es & Ei & _ & _ & _ & _).
    simpl in *. unfold wkey at 1. rewrite Ei, Es.
    rewrite !app_assoc, map_app in Js, Jl, Ja. simpl in Js, Jl, Ja.
    apply Forall_app in Jl. destruct Jl as [_ Jl]. inversion Jl as [|? ? Jl1 _]; subst.
    apply Forall_app in Ja. destruct Ja as [_ Ja]. inversion Ja as [|? ? (Ja1 & Ja2 & _) _]; subst.
    rewrite map_app in Js. simpl in Js. apply sorted_mid_lt in Js.
    unfold kid, koff, ktot, lkey in *; simpl in *.
    eapply I3_chunk; eauto.
    rewrite Forall_map. rewrite Forall_map in Js. rewrite Forall_map in Js. exact Js.
  - rewrite H in I. simpl in I. eapply I3_tail; eauto.
  - rewrite H in I. simpl in I. eapply I3_tail; eauto.
  - apply I3_plain; simpl; auto. apply I3_ewrite; auto. apply I3_bump; auto.
  - rewrite map_app. simpl. apply I3_enq.
    + constructor; [simpl; lia | apply fresh_bump; auto].
    + apply I3_ewrite; auto. apply I3_bump; auto.
  - apply I3_plain; simpl; auto.
  - apply I3_tryret.
    + simpl. rewrite (acc_fresh _ _ Jf); auto. lia.
    + exists (sumN bufs). left; auto.
    + apply I3_etry; auto. apply I3_bump; auto.
  - (* try_ok *)
    assert (Hz : Forall (fun w => snd w = 0) (map wkey (wq s))).
    { destruct I1 as [Hs _ _ _]. rewrite H in Hs. symmetry in Hs. apply sum_rem_zero in Hs.
      unfold live in Hs. apply Forall_app3 in Hs. destruct Hs as (_ & _ & Hs).
      rewrite Forall_map. exact Hs. }
    apply I3_tryret.
    + simpl. rewrite Nat.eqb_refl, (acc_fresh _ _ Jf); auto. lia.
    + exists (sumN bufs). right; left; auto.
    + apply I3_chunk_fresh; auto. apply I3_etry; auto. apply I3_bump; auto.
  - apply I3_plain; simpl; auto.
  - apply I3_plain; simpl; auto.
  - exact I.
  - exact I.
  - destruct (r_freed r); cbn; apply I3_plain; simpl; auto.
  - apply I3_plain; simpl; auto.
  - apply I3_plain; simpl; auto. apply I3_plain; simpl; auto.
  - apply I3_plain; simpl; auto. apply I3_plain; simpl; auto.
  - eapply I3_nil; eauto.
  - apply I3_plain; simpl; auto.
  - apply I3_plain; simpl; auto.
  - apply I3_plain; simpl; auto.
  - (* fd *)
    rewrite H in I. apply I3_plain; [simpl; auto | exact I].
  - apply I3_plain; simpl; auto.
  - apply I3_plain; simpl; auto. apply I3_plain; simpl; auto. apply I3_ewrite; auto. apply I3_bump; auto.
  - rewrite map_app. simpl. apply I3_enq.
    + constructor; [simpl; lia|]. constructor; [simpl; lia | apply fresh_bump; auto].
    + apply I3_plain; simpl; auto. apply I3_ewrite; auto. apply I3_bump; auto.
  - apply I3_plain; simpl; auto. apply I3_ewrite; auto. apply I3_bump; auto.
  - apply I3_plain; simpl; auto. apply I3_plain; simpl; auto. apply I3_ewrite; auto. apply I3_bump; auto.
  - apply I3_plain; simpl; auto.
  - apply I3_plain; simpl; auto.
  - apply I3_plain; simpl; auto.
  - apply I3_plain; simpl; auto.
  - apply I3_plain; simpl; auto.
Qed.

Lemma Inv3_init blk o sa pw c ip : Inv3 (init blk o sa pw c ip).
Proof.
  unfold Inv3. init_cases c; cbn; constructor; simpl; auto; try tauto.
Qed.

Lemma Inv123_steps s s' : steps s s' -> Inv1 s /\ Inv2 s /\ Inv3 s -> Inv1 s' /\ Inv2 s' /\ Inv3 s'.
Proof.
  induction 1; auto. intros (A & B & C). apply IHsteps.
  split; [|split].
  - eapply Inv1_prim; eauto.
  - eapply Inv2_prim; eauto.
  - eapply Inv3_prim; eauto.
Qed.

(* ------------------------------------------------------------------ *)
(* the theorems, on the chronological trace                            *)
(* ------------------------------------------------------------------ *)
Lemma acc_app t1 t2 id : acc (t1 ++ t2) id = acc t1 id + acc t2 id.
Proof. induction t1 as [|e t1 IH]; simpl; auto. destruct e; auto. rewrite IH. lia. Qed.

Lemma acc_rev t id : acc (rev t) id = acc t id.
Proof.
  induction t as [|e t IH]; simpl; auto. rewrite acc_app, IH. destruct e; simpl; lia.
Qed.

Lemma cb_ids_app t1 t2 : cb_ids (t1 ++ t2) = cb_ids t1 ++ cb_ids t2.
Proof. induction t1 as [|e t1 IH]; simpl; auto. destruct e; simpl; auto. rewrite IH; auto. Qed.

Lemma cb_ids_rev t : cb_ids (rev t) = rev (cb_ids t).
Proof.
  induction t as [|e t IH]; simpl; auto. rewrite cb_ids_app, IH. destruct e; simpl; auto using app_nil_r.
Qed.

Lemma chunks_app t1 t2 : chunks (t1 ++ t2) = chunks t1 ++ chunks t2.
Proof. induction t1 as [|e t1 IH]; simpl; auto. destruct e; simpl; auto. rewrite IH; auto. Qed.

Lemma chunks_rev t : chunks (rev t) = rev (chunks t).
Proof.
  induction t as [|e t IH]; simpl; auto. rewrite chunks_app, IH. destruct e; simpl; auto using app_nil_r.
Qed.

Lemma sorted_gt_rev l : StronglySorted gt l -> StronglySorted lt (rev l).
Proof.
  induction 1; simpl. constructor. apply sorted_app_last; auto.
  rewrite Forall_forall in *. intros y Hy. apply in_rev in Hy. apply H0 in Hy. lia.
Qed.

Lemma sorted_lt_NoDup l : StronglySorted lt l -> NoDup l.
Proof.
  induction 1; constructor; auto. intros X. rewrite Forall_forall in H0. apply H0 in X. lia.
Qed.

Section Final.
Variable beh : nat -> list op.
Variables (blk : bool) (o : list answer) (sa : Z) (pw : list bool) (cfg : conn_cfg) (ip : bool) (ops : list op).
Let s := exec beh (init blk o sa pw cfg ip) ops.

Lemma final_inv : Inv1 s /\ Inv2 s /\ Inv3 s /\ pq s = [].
Proof.
  destruct (exec_steps beh blk o sa pw cfg ip ops) as [S P]. fold s in S, P.
  destruct (Inv123_steps _ _ S) as (A & B & C).
  - split; [apply Inv1_init | split; [apply Inv2_init | apply Inv3_init]].
  - auto.
Qed.

Lemma live_final : live s = cq s ++ wq s.
Proof. destruct final_inv as (_ & _ & _ & P). unfold live. rewrite P. reflexivity. Qed.

(* C05_cb_exactly_once_in_order *)
Theorem cb_exactly_once_in_order :
  StronglySorted lt (cb_ids (trace s)) /\
  (forall id, In (ERet id 0%Z) (trace s) ->
     (In id (cb_ids (trace s)) /\ ~ In id (map r_id (cq s ++ wq s))) \/
     (~ In id (cb_ids (trace s)) /\ In id (map r_id (cq s ++ wq s)))) /\
  (forall id c, In (ERet id c) (trace s) -> c <> 0%Z ->
     ~ In id (cb_ids (trace s)) /\ ~ In id (map r_id (cq s ++ wq s))) /\
  NoDup (map r_id (cq s ++ wq s)).
Proof.
  destruct final_inv as (_ & I2' & _ & _). unfold Inv2 in I2'. rewrite live_final in I2'.
  destruct I2' as [A B C D E F G H I J K]. unfold trace. rewrite cb_ids_rev.
  rewrite map_kid_lkey in *.
  assert (Hdisj : forall id, In id (cb_ids (tr s)) -> In id (map r_id (cq s ++ wq s)) -> False).
  { intros id H1 H2. apply in_map_iff in H2. destruct H2 as (r & <- & Hr).
    specialize (E (r_id r) (lkey r) H1 (in_map lkey _ _ Hr)). unfold kid, lkey in E; simpl in E. lia. }
  split; [apply sorted_gt_rev; auto|]. split; [|split].
  - intros id Hr. apply in_rev in Hr. destruct (I id Hr) as [X|X]; [left | right]; split; auto.
    + apply in_rev in X. exact X.
    + intros Y. eapply Hdisj; eauto.
    + intros Y. apply in_rev in Y. eapply Hdisj; eauto.
  - intros id c Hr Hc. apply in_rev in Hr. destruct (J id c Hr Hc) as [X Y]. split; auto.
    intros Z. apply in_rev in Z. auto.
  - apply sorted_lt_NoDup; auto.
Qed.

(* C05_status_zero_only_if_all_accepted *)
Theorem status_zero_only_if_all_accepted :
  forall id tot q, In (EWrite id tot) (trace s) -> In (ECb id 0%Z q) (trace s) ->
  acc (trace s) id = tot.
Proof.
  destruct final_inv as (_ & I2' & _ & _). destruct I2' as [A B C D E F G H I J K].
  intros id tot q Hw Hc. unfold trace in *. rewrite acc_rev. apply in_rev in Hw, Hc.
  destruct (G id q Hc) as (tot' & G1 & G2). rewrite G2. eauto.
Qed.

(* C05_bytes_in_order_once *)
Theorem bytes_in_order_once :
  expand (chunks (trace s)) =
    flat_map (fun id => bytes_of id 0 (acc (trace s) id)) (seq 0 (next_id s)) /\
  (forall id tot, In (EWrite id tot) (trace s) -> acc (trace s) id <= tot) /\
  (forall id tot q, In (EWrite id tot) (trace s) -> In (ECb id 0%Z q) (trace s) ->
     acc (trace s) id = tot) /\
  (forall id tot, In (ETry id tot) (trace s) -> acc (trace s) id <= tot) /\
  (forall id c, In (ETryRet id c) (trace s) -> acc (trace s) id = Z.to_N c).
Proof.
  destruct final_inv as (_ & I2' & I3' & _). destruct I2' as [A B C D E F G H I J K].
  destruct I3' as [X1 X2 X3 X4 X5]. unfold trace. rewrite chunks_rev.
  split; [|split; [|split; [|split]]].
  - unfold sent in X1. rewrite X1. apply flat_map_ext. intros id. rewrite acc_rev. reflexivity.
  - intros id tot Hw. rewrite acc_rev. apply in_rev in Hw. auto.
  - intros id tot q Hw Hc. apply (status_zero_only_if_all_accepted id tot q Hw Hc).
  - intros id tot Ht. rewrite acc_rev. apply in_rev in Ht. auto.
  - intros id c Ht. rewrite acc_rev. apply in_rev in Ht. apply (X3 id c Ht).
Qed.

End Final.

(* ------------------------------------------------------------------ *)
(* uv_try_write never overtakes                                        *)
(* ------------------------------------------------------------------ *)
Lemma sum_rem_pos l r : In r l -> 0 < req_size r -> 0 < sum_rem l.
Proof. induction l; simpl; [tauto|]. intros [->|H] Hp; [lia|]. specialize (IHl H Hp). lia. Qed.

Theorem try_write_never_overtakes_inv s bufs :
  Inv1 s -> (exists r, In r (live s) /\ 0 < req_size r) ->
  api_try s bufs =
    ev (ETryRet (next_id s) UV_EAGAIN) (ev (ETry (next_id s) (sumN bufs)) (set_next_id (S (next_id s)) s)).
Proof.
  intros [Hs _ _ _] (r & Hr & Hp). unfold api_try.
  change (wqs (ev (ETry (next_id s) (sumN bufs)) (set_next_id (S (next_id s)) s))) with (wqs s).
  pose proof (sum_rem_pos _ _ Hr Hp). destruct (N.eqb_spec (wqs s) 0); [lia|].
  rewrite Bool.orb_true_r. reflexivity.
Qed.

(* ------------------------------------------------------------------ *)
(* invariant, part 4: shutdown                                         *)
(* ------------------------------------------------------------------ *)
Definition q_ret (e : event) : Prop :=
  match e with ERet _ c => c = UV_EPIPE \/ c = UV_EBADF | _ => True end.

Definition q_after_cb (e : event) : Prop :=
  match e with EChunk _ _ _ | ECb _ _ _ => False | ERet _ x => x <> 0%Z | _ => True end.

Definition idle (s : st) : Prop := wq s = [] /\ cq s = [] /\ pq s = [].

Record Inv4 (s : st) : Prop := {
  s_shut : In (EShut 0%Z) (tr s) -> writable s = false;
  s_ret : forall l1 l2, tr s = l1 ++ EShut 0%Z :: l2 -> Forall q_ret l1;
  s_sys : forall a, In (ESysShut a) (tr s) -> wq s = [] /\ writable s = false;
  s_nochunk : forall a l1 l2, tr s = l1 ++ ESysShut a :: l2 -> Forall no_chunk l1;
  s_cb : forall c, In (EShutCb c) (tr s) -> idle s /\ writable s = false;
  s_cb_after : forall c l1 l2, tr s = l1 ++ EShutCb c :: l2 -> Forall q_after_cb l1
}.

Lemma after_cons (Q : event -> Prop) X e t :
  (forall l1 l2, t = l1 ++ X :: l2 -> Forall Q l1) -> (In X t -> Q e) ->
  (forall l1 l2, e :: t = l1 ++ X :: l2 -> Forall Q l1).
Proof.
  intros H He l1 l2 E. destruct l1 as [|e' l1]; [constructor|].
  simpl in E. inversion E; subst. constructor.
  - apply He. apply in_or_app; right; left; auto.
  - eapply H; eauto.
Qed.

Lemma check_some_code s e : check_before_write s = Some e -> e = UV_EPIPE \/ e = UV_EBADF.
Proof.
  unfold check_before_write. destruct (fdopen s), (writable s); simpl; intros H; inversion H; auto.
Qed.

Definition hold_ok (e X : event) : Prop :=
  match X with
  | EShut 0%Z => q_ret e
  | ESysShut _ => no_chunk e
  | EShutCb _ => q_after_cb e
  | _ => True
  end.

Definition new_ok (s : st) (e : event) : Prop :=
  match e with
  | EShut 0%Z => writable s = false
  | ESysShut _ => wq s = [] /\ writable s = false
  | EShutCb _ => idle s /\ writable s = false
  | _ => True
  end.

Lemma Inv4_event s e :
  (forall X, In X (tr s) -> hold_ok e X) -> new_ok s e -> Inv4 s -> Inv4 (ev e s).
Proof.
  intros Hold Hnew [A B C D E F]. constructor; cbn.
  - intros [H|H]; auto. subst e. exact Hnew.
  - apply after_cons; [exact B | intros H; apply (Hold _ H)].
  - intros a [H|H]; eauto. subst e. exact Hnew.
  - intros a. apply after_cons; [apply D | intros H; apply (Hold _ H)].
  - intros c [H|H]; [subst e; exact Hnew | apply (E c H)].
  - intros c. apply after_cons; [apply F | intros H; apply (Hold _ H)].
Qed.

(* an event Inv4 does not speak about *)
Definition inert (e : event) : Prop :=
  match e with EShut _ | ESysShut _ | EShutCb _ | EChunk _ _ _ | ERet _ _ | ECb _ _ _ => False | _ => True end.

Lemma Inv4_inert s e : inert e -> Inv4 s -> Inv4 (ev e s).
Proof.
  intros Hi. apply Inv4_event.
  - intros X _. unfold hold_ok. destruct X as [| | | | | | z | | | | | | | | | | | |]; auto; try (destruct e; simpl in *; tauto).
    destruct z; auto. destruct e; simpl in *; tauto.
  - destruct e; simpl in *; tauto.
Qed.

(* a state change that keeps the trace, does not make the stream writable and does not grow the queues *)
Lemma Inv4_state s s' :
  tr s' = tr s -> (writable s = false -> writable s' = false) -> (wq s = [] -> wq s' = []) ->
  (idle s -> idle s') -> Inv4 s -> Inv4 s'.
Proof.
  intros Et Hw Hq Hi [A B C D E F]. constructor; rewrite ?Et; auto.
  - intros a H. destruct (C a H). auto.
  - intros c H. destruct (E c H). auto.
Qed.

(* while the stream is writable there has been no shutdown: anything goes *)
Lemma Inv4_state_w s s' : tr s' = tr s -> writable s = true -> Inv4 s -> Inv4 s'.
Proof.
  intros Et Hw [A B C D E F]. constructor; rewrite ?Et; auto.
  - intros H. rewrite (A H) in Hw. discriminate.
  - intros a H. destruct (C a H) as [_ X]. rewrite X in Hw. discriminate.
  - intros c H. destruct (E c H) as [_ X]. rewrite X in Hw. discriminate.
Qed.

Ltac hold_cases X z a c := destruct X as [| | | | | | z | a | c | | | | | | | | | |]; unfold hold_ok; simpl; auto;
                           [destruct z; simpl; auto | ..].

(* the trace only grows *)
Lemma prim_tr s s' : prim s s' -> exists es, tr s' = es ++ tr s.
Proof.
  intros P. destruct P; unfold call0, finish_head, flush; cbn;
    try (destruct (r_freed r); cbn); try (destruct (_ =? _)%Z; cbn);
    try (first [ exists []; reflexivity | eexists [_]; reflexivity | eexists [_; _]; reflexivity
               | eexists [_; _; _]; reflexivity ]).
  destruct H as (_ & _ & _ & _ & _ & _ & _ & _ & _ & _ & E). exists []. exact E.
Qed.

Lemma steps_tr s s' : steps s s' -> exists es, tr s' = es ++ tr s.
Proof.
  induction 1; [exists []; reflexivity|]. destruct (prim_tr _ _ H) as [e1 E1]. destruct IHsteps as [e2 E2].
  exists (e2 ++ e1). rewrite E2, E1, app_assoc. reflexivity.
Qed.

(* until a connect re-enables a stream that was shut down: a pending shutdown means not writable *)
Definition Inv4r (s : st) : Prop := shutreq s = true -> writable s = false.

Lemma Inv4r_prim s s' : prim s s' -> ~ In EReopen (tr s') -> Inv4r s -> Inv4r s'.
Proof.
  intros P Hn R. unfold Inv4r in *.
  destruct P; unfold call0, finish_head, flush in *; cbn in *; auto;
    try (destruct (r_freed r); cbn; auto; fail); try (destruct (_ =? _)%Z; cbn; auto; fail);
    try discriminate.
  - destruct H as (_ & _ & _ & _ & E1 & E2 & _). rewrite E1, E2. auto.
  - exfalso. apply Hn. left; reflexivity.
Qed.

Lemma Inv4_prim s s' : prim s s' -> ~ In EReopen (tr s') -> Inv4r s -> Inv4 s -> Inv4 s'.
Proof.
  intros P Hnr Rq I. destruct P; unfold call0, finish_head, flush in *.
  - destruct H as (E1 & E2 & E3 & _ & _ & E4 & _ & _ & _ & _ & E5).
    apply (Inv4_state s); auto; try congruence. unfold idle. rewrite E1, E2, E3. auto.
  - (* chunk: impossible after shutdown(2) / the shutdown callback *)
    apply Inv4_event; [ | simpl; auto | ].
    + intros X HX. cbn in HX. hold_cases X z a c.
      * destruct I as [_ _ C _ _ _]. destruct (C a HX) as [Hq _]. rewrite Hq in H. discriminate.
      * destruct I as [_ _ _ _ E _]. destruct (E c HX) as [[Hq _] _]. rewrite Hq in H. discriminate.
    + apply (Inv4_state s); auto; cbn.
      * intros Hq. rewrite Hq in H. discriminate.
      * intros [Hq _]. rewrite Hq in H. discriminate.
  - apply (Inv4_state s); auto; cbn.
    + intros Hq. rewrite Hq in H. discriminate.
    + intros [Hq _]. rewrite Hq in H. discriminate.
  - apply (Inv4_state s); auto; cbn.
    + intros Hq. rewrite Hq in H. discriminate.
    + intros [Hq _]. rewrite Hq in H. discriminate.
  - (* uv_write refused *)
    apply Inv4_event; [ | simpl; auto | ].
    + intros X HX. cbn in HX. destruct HX as [HX|HX]; [subst X; simpl; auto|].
      hold_cases X z a c.
      * apply (check_some_code _ _ H).
      * pose proof (check_some_neg _ _ H). lia.
    + apply Inv4_inert; simpl; auto. apply (Inv4_state s); auto.
  - (* enqueue: the stream is writable, so no shutdown so far *)
    destruct (check_none _ H) as [_ Hw].
    apply (Inv4_state_w (ev (EWrite (next_id s) (sumN bufs)) (set_next_id (S (next_id s)) s))); auto.
    apply Inv4_inert; simpl; auto. apply (Inv4_state s); auto.
  - (* uv_write returned 0 *)
    apply Inv4_event; [ | simpl; auto | exact I].
    intros X HX. hold_cases X z a c.
    + destruct I as [A _ _ _ _ _]. rewrite (A HX) in H. discriminate.
    + destruct I as [_ _ _ _ E _]. destruct (E c HX) as [_ Hw]. rewrite Hw in H. discriminate.
  - apply Inv4_inert; simpl; auto. apply Inv4_inert; simpl; auto. apply (Inv4_state s); auto.
  - (* try_write wrote *)
    apply Inv4_inert; simpl; auto.
    apply Inv4_event; [ | simpl; auto | ].
    + intros X HX. cbn in HX. destruct HX as [HX|HX]; [subst X; simpl; auto|].
      hold_cases X z a c.
      * destruct I as [_ _ C _ _ _]. destruct (C a HX) as [_ Hw]. rewrite Hw in H0. discriminate.
      * destruct I as [_ _ _ _ E _]. destruct (E c HX) as [_ Hw]. rewrite Hw in H0. discriminate.
    + apply Inv4_inert; simpl; auto. apply (Inv4_state s); auto.
  - apply Inv4_event; [ | simpl; auto | exact I].
    intros X HX. hold_cases X z a c.
  - (* uv_shutdown accepted *)
    apply Inv4_event; [ | reflexivity | apply (Inv4_state s); auto].
    intros X HX. hold_cases X z a c.
  - apply (Inv4_state s); auto.
  - (* take *)
    apply (Inv4_state s); auto. unfold idle; cbn. intros (A & B & C). rewrite B. auto.
  - (* write callback: impossible after the shutdown callback *)
    assert (Hni : idle s -> False) by (intros (_ & _ & Hp); rewrite Hp in H; discriminate).
    destruct (r_freed r).
    + apply Inv4_event; [ | simpl; auto | ].
      * intros X HX. cbn in HX. hold_cases X z a c.
        destruct I as [_ _ _ _ E _]. destruct (E c HX) as [Hi _]. auto.
      * apply (Inv4_state s); auto. intros Hi. destruct (Hni Hi).
    + apply Inv4_event; [ | simpl; auto | ].
      * intros X HX. cbn in HX. hold_cases X z a c.
        destruct I as [_ _ _ _ E _]. destruct (E c HX) as [Hi _]. auto.
      * apply (Inv4_state s); auto. intros Hi. destruct (Hni Hi).
  - (* shutdown cancelled by close *)
    apply Inv4_event; [ | split; [repeat split; auto | apply Rq; auto] | apply (Inv4_state s); auto].
    intros X HX. hold_cases X z a' c'.
  - (* shutdown(2) succeeded, callback *)
    apply Inv4_event; [ | split; [repeat split; auto | apply Rq; auto] | ].
    + intros X HX. hold_cases X z a' c'.
    + apply (Inv4_state (ev (ESysShut 0%Z) (set_shutreq false s))); auto.
      apply Inv4_event; [ | split; [auto | apply Rq; auto] | apply (Inv4_state s); auto].
      intros X HX. hold_cases X z a' c'.
  - (* shutdown(2) failed, callback *)
    apply Inv4_event; [ | split; [repeat split; auto | apply Rq; auto] | ].
    + intros X HX. hold_cases X z a' c'.
    + apply Inv4_event; [ | split; [auto | apply Rq; auto] | apply (Inv4_state s); auto].
      intros X HX. hold_cases X z a' c'.
  - (* flush *)
    apply (Inv4_state s); auto. unfold idle; cbn. intros (A & B & C). rewrite A, B. auto.
  - apply Inv4_inert; simpl; auto.
  - apply Inv4_inert; simpl; auto.
  - apply Inv4_inert; simpl; auto. apply (Inv4_state s); auto.
  - (* fd *)
    apply Inv4_inert; simpl; auto. apply (Inv4_state s); auto; cbn.
    + intros Hq. rewrite Hq in H. discriminate.
    + intros [Hq _]. rewrite Hq in H. discriminate.
  - apply Inv4_inert; simpl; auto.
  - (* uv_write2 refused *)
    apply Inv4_event; [ | simpl; auto | ].
    + intros X HX. cbn in HX. destruct HX as [HX|HX]; [subst X; simpl; auto|].
      destruct HX as [HX|HX]; [subst X; simpl; auto|].
      hold_cases X z a c.
      * destruct I as [A _ _ _ _ _]. apply (check2_code_nw s); auto.
      * pose proof (check2_some_neg _ _ H). lia.
    + apply Inv4_inert; simpl; auto. apply Inv4_inert; simpl; auto. apply (Inv4_state s); auto.
  - (* uv_write2 enqueued: the stream is writable *)
    destruct (check2_none _ H) as [_ Hw].
    apply (Inv4_state_w (ev (EWrite2 (next_id s)) (ev (EWrite (next_id s) (sumN bufs)) (set_next_id (S (next_id s)) s)))); auto.
    apply Inv4_inert; simpl; auto. apply Inv4_inert; simpl; auto. apply (Inv4_state s); auto.
  - (* ENOMEM: the stream is writable, so no shutdown so far *)
    destruct (check_none _ H) as [_ Hw].
    apply Inv4_event; [ | simpl; auto | apply Inv4_inert; simpl; auto; apply (Inv4_state s); auto].
    intros X HX. cbn in HX. destruct HX as [HX|HX]; [subst X; simpl; auto|].
    hold_cases X z a c.
    + destruct I as [A _ _ _ _ _]. rewrite (A HX) in Hw. discriminate.
    + unfold UV_ENOMEM; lia.
  - destruct (check2_none _ H) as [_ Hw].
    apply Inv4_event; [ | simpl; auto
                      | apply Inv4_inert; simpl; auto; apply Inv4_inert; simpl; auto; apply (Inv4_state s); auto].
    intros X HX. cbn in HX. destruct HX as [HX|HX]; [subst X; simpl; auto|].
    destruct HX as [HX|HX]; [subst X; simpl; auto|].
    hold_cases X z a c.
    + destruct I as [A _ _ _ _ _]. rewrite (A HX) in Hw. discriminate.
    + unfold UV_ENOMEM; lia.
  - apply Inv4_inert; simpl; auto.
  - exfalso. apply Hnr. left; reflexivity.
  - apply Inv4_inert; simpl; auto. apply (Inv4_state s); auto.
  - apply Inv4_inert; simpl; auto.
  - apply Inv4_inert; simpl; auto.
Qed.

Lemma Inv4_steps s s' : steps s s' -> ~ In EReopen (tr s') -> Inv4r s /\ Inv4 s -> Inv4r s' /\ Inv4 s'.
Proof.
  induction 1 as [|s s1 s2 P S IH]; auto. intros Hn [R I].
  assert (Hn1 : ~ In EReopen (tr s1)).
  { destruct (steps_tr _ _ S) as [es E]. intros X. apply Hn. rewrite E. apply in_or_app; right; exact X. }
  apply IH; auto. split; [eapply Inv4r_prim; eauto | eapply Inv4_prim; eauto].
Qed.

Lemma Inv4r_init blk o sa pw c ip : Inv4r (init blk o sa pw c ip).
Proof. unfold Inv4r. init_cases c; cbn; discriminate. Qed.

Lemma Inv4_init blk o sa pw c ip : Inv4 (init blk o sa pw c ip).
Proof.
  init_cases c; constructor; cbn; try tauto;
    intros; match goal with H : [] = ?l ++ _ :: _ |- _ => destruct l; discriminate end.
Qed.

Lemma rev_split {A} (t : list A) l1 x l2 : rev t = l1 ++ x :: l2 -> t = rev l2 ++ x :: rev l1.
Proof.
  intros H. apply (f_equal (@rev A)) in H. rewrite rev_involutive, rev_app_distr in H.
  simpl in H. rewrite <- app_assoc in H. exact H.
Qed.

Section Final2.
Variable beh : nat -> list op.
Variables (blk : bool) (o : list answer) (sa : Z) (pw : list bool) (cfg : conn_cfg) (ip : bool) (ops : list op).
Let s := exec beh (init blk o sa pw cfg ip) ops.

Lemma final_inv4 : ~ In EReopen (tr s) -> Inv4 s.
Proof.
  intros Hn. destruct (exec_steps beh blk o sa pw cfg ip ops) as [S _].
  apply (Inv4_steps _ _ S Hn). split; [apply Inv4r_init | apply Inv4_init].
Qed.

Lemma cb_ids_nil l : Forall q_after_cb l -> cb_ids l = [].
Proof. induction 1 as [|e l He _ IH]; simpl; auto. destruct e; simpl in *; auto. tauto. Qed.

(* C05_shutdown_last_partial: as long as no connect has set UV_HANDLE_WRITABLE again on a
   stream where it was clear (ghost event EReopen) *)
Theorem shutdown_last :
  ~ In EReopen (trace s) ->
  (forall l1 l2, trace s = l1 ++ EShut 0%Z :: l2 ->
     forall id c, In (ERet id c) l2 -> c = UV_EPIPE \/ c = UV_EBADF) /\
  (forall a l1 l2, trace s = l1 ++ ESysShut a :: l2 -> forall i off n, ~ In (EChunk i off n) l2) /\
  (forall a, In (ESysShut a) (trace s) -> wq s = []) /\
  (forall c l1 l2, trace s = l1 ++ EShutCb c :: l2 ->
     cb_ids l2 = [] /\ (forall i off n, ~ In (EChunk i off n) l2) /\ (forall id, ~ In (ERet id 0%Z) l2)).
Proof.
  intros Hn. assert (Hn' : ~ In EReopen (tr s)) by (intros X; apply Hn; unfold trace; apply in_rev in X; exact X).
  destruct (final_inv4 Hn') as [A B C D E F]. unfold trace. split; [|split; [|split]].
  - intros l1 l2 H id c Hin. apply rev_split in H. apply B in H. rewrite Forall_forall in H.
    apply in_rev in Hin. apply (H _ Hin).
  - intros a l1 l2 H i off n Hin. apply rev_split in H. apply D in H. rewrite Forall_forall in H.
    apply in_rev in Hin. apply (H _ Hin).
  - intros a H. apply in_rev in H. apply (C a H).
  - intros c l1 l2 H. apply rev_split in H. apply F in H. split; [|split].
    + apply Forall_rev in H. rewrite rev_involutive in H. apply cb_ids_nil; auto.
    + intros i off n Hin. rewrite Forall_forall in H. apply in_rev in Hin. apply (H _ Hin).
    + intros id Hin. rewrite Forall_forall in H. apply in_rev in Hin. apply (H _ Hin). reflexivity.
Qed.

End Final2.

(* The callback-order clause on its own: no write callback after the shutdown
   callback (every accepted write was submitted before uv_shutdown succeeded). *)
Definition shutdown_cb_last (t : list event) : Prop :=
  forall l1 l2 c, t = l1 ++ EShutCb c :: l2 -> cb_ids l2 = [].

Theorem shutdown_cb_last_holds beh blk o sa pw cfg ip ops :
  ~ In EReopen (trace (exec beh (init blk o sa pw cfg ip) ops)) ->
  shutdown_cb_last (trace (exec beh (init blk o sa pw cfg ip) ops)).
Proof.
  intros Hn l1 l2 c H. destruct (shutdown_last beh blk o sa pw cfg ip ops Hn) as (_ & _ & _ & X).
  destruct (X c l1 l2 H) as [Y _]. exact Y.
Qed.

(* the input that refuted the clause before the repair of uv__stream_io *)
Definition beh_refute (k : nat) : list op :=
  match k with O => [OWrite [2]; OShutdown] | _ => [] end.

(* ------------------------------------------------------------------ *)
(* progress: a non-empty write queue, or a pending connect, is never   *)
(* left without a wake-up                                              *)
(* ------------------------------------------------------------------ *)
Definition FC (s : st) : Prop := fdopen s = false -> closing s = true.

(* while connecting: POLLOUT is armed, or a delayed error is waiting for the next tick *)
Definition C1 (s : st) : Prop :=
  (derr s = 0%Z /\ armed s = true) \/ ((derr s < 0)%Z /\ derr s <> (- EINPROGRESS)%Z).

Definition Prog (s : st) : Prop :=
  FC s /\
  (closing s = true \/
   if connecting s then C1 s /\ (armed s = true \/ fed s = true)
   else wq s = [] \/ armed s = true \/ fed s = true).

(* what uv__stream_io needs on entry (the watcher may just have left the pending queue) *)
Definition PreIO (s : st) : Prop := FC s /\ (closing s = true \/ (connecting s = true -> C1 s)).

Definition KC (s s' : st) : Prop := (closing s = true -> closing s' = true) /\ (FC s -> FC s').
Definition CD (s s' : st) : Prop := connecting s' = connecting s /\ derr s' = derr s.

Lemma KC_refl s : KC s s. Proof. unfold KC; auto. Qed.
Lemma KC_trans a b c : KC a b -> KC b c -> KC a c. Proof. unfold KC; intuition. Qed.
Lemma CD_refl s : CD s s. Proof. unfold CD; auto. Qed.
Lemma CD_trans a b c : CD a b -> CD b c -> CD a c. Proof. unfold CD; intuition congruence. Qed.

Lemma KC_same s s' : closing s' = closing s -> fdopen s' = fdopen s -> KC s s'.
Proof. unfold KC, FC. intros -> ->. auto. Qed.

Lemma Prog_PreIO s : Prog s -> PreIO s.
Proof.
  intros [F [H|H]]; split; auto. destruct (connecting s); [right; intros _; apply H | right; discriminate].
Qed.

Lemma Prog_same s s' :
  closing s' = closing s -> fdopen s' = fdopen s -> connecting s' = connecting s -> derr s' = derr s ->
  wq s' = wq s -> armed s' = armed s -> fed s' = fed s -> Prog s -> Prog s'.
Proof. unfold Prog, FC, C1. intros -> -> -> -> -> -> ->. auto. Qed.

Lemma write_loop_prog : forall fuel count s,
  let s' := write_loop fuel count s in
  wq s' = [] \/ armed s' = true \/ fed s' = true.
Proof.
  induction fuel as [|f IH]; intros count s; cbn [write_loop].
  - cbn. auto.
  - destruct (wq s) as [|r rest] eqn:Hq; [auto|].
    destruct (r_sh r && negb (sh_open s)); [cbn; auto|].
    destruct (sys_write (oracle s) (offered (skipn (r_widx r) (r_bufs r)))) as [res o'].
    destruct res as [n| |c].
    + destruct (req_done (req_update r n)).
      * destruct count; [|apply IH]. cbn. auto.
      * match goal with |- context [if blocking ?x then _ else _] => destruct (blocking x) end;
          [apply IH | cbn; auto].
    + match goal with |- context [if blocking ?x then _ else _] => destruct (blocking x) end;
        [apply IH | cbn; auto].
    + cbn. auto.
Qed.

Lemma uv_write_queue_frame s :
  closing (uv_write_queue s) = closing s /\ fdopen (uv_write_queue s) = fdopen s /\
  connecting (uv_write_queue s) = connecting s /\ derr (uv_write_queue s) = derr s.
Proof.
  unfold uv_write_queue. destruct (write_loop_sim (write_fuel s) 32 s) as [_ F].
  destruct F as (_ & _ & _ & _ & F1 & _ & F2 & _ & _ & _ & F3 & F4). auto.
Qed.

(* API calls *)
Lemma api_write_kc_cd s bufs : KC s (api_write s bufs) /\ CD s (api_write s bufs).
Proof.
  unfold api_write.
    set (s0 := ev (EWrite (next_id s) (sumN bufs)) (set_next_id (S (next_id s)) s)).
    destruct (check_before_write s0); [split; [apply KC_same | unfold CD]; auto|].
    set (s1 := set_wq _ _).
    destruct (connecting s1); [split; [apply KC_same | unfold CD]; auto|].
    destruct (wqs s0 =? 0); [|split; [apply KC_same | unfold CD]; auto].
    destruct (uv_write_queue_frame s1) as (A & B & C & D).
    split; [apply KC_same; [exact A | exact B] | unfold CD; split; [exact C | exact D]].
Qed.

Lemma api_write2_kc_cd s bufs : KC s (api_write2 s bufs) /\ CD s (api_write2 s bufs).
Proof.
  unfold api_write2.
    set (s0 := ev (EWrite2 (next_id s)) (ev (EWrite (next_id s) (sumN bufs)) (set_next_id (S (next_id s)) s))).
    destruct (check_before_write2 s0); [split; [apply KC_same | unfold CD]; auto|].
    set (s1 := set_wq _ _).
    destruct (connecting s1); [split; [apply KC_same | unfold CD]; auto|].
    destruct (wqs s0 =? 0); [|split; [apply KC_same | unfold CD]; auto].
    destruct (uv_write_queue_frame s1) as (A & B & C & D).
    split; [apply KC_same; [exact A | exact B] | unfold CD; split; [exact C | exact D]].
Qed.

Definition noconn (os : list op) : Prop := Forall (fun o => o <> OConnect) os.

Lemma api_kc_cd s o : o <> OConnect -> KC s (api s o) /\ CD s (api s o).
Proof.
  intros Hne. destruct o; cbn [api].
  - apply api_write_kc_cd.
  - unfold api_try.
    set (s0 := ev (ETry (next_id s) (sumN bufs)) (set_next_id (S (next_id s)) s)).
    destruct (connecting s0 || cancelling s0 || negb (wqs s0 =? 0)); [split; [apply KC_same | unfold CD]; auto|].
    destruct (check_before_write s0); [split; [apply KC_same | unfold CD]; auto|].
    destruct (sys_write (oracle s0) (offered bufs)) as [res o']. destruct res;
      (split; [apply KC_same | unfold CD]; auto).
  - unfold api_shutdown.
    destruct (negb (writable s) || shut s || shutreq s || closing s || closed s);
      [split; [apply KC_same | unfold CD]; auto|].
    cbn. destruct (connecting s); [|destruct (wq s)]; (split; [apply KC_same | unfold CD]; auto).
  - unfold api_close. destruct (closing s) eqn:Hc; [split; [apply KC_refl | apply CD_refl]|].
    split; [|unfold CD; auto]. unfold KC, FC; cbn. auto.
  - apply api_write2_kc_cd.
  - split; [apply KC_same | unfold CD]; auto.
  - unfold api_write_nomem. destruct (check_before_write s); [apply api_write_kc_cd|].
    destruct (needs_alloc bufs); [|apply api_write_kc_cd]. split; [apply KC_same | unfold CD]; auto.
  - unfold api_write2_nomem. destruct (check_before_write2 s); [apply api_write2_kc_cd|].
    destruct (needs_alloc bufs); [|apply api_write2_kc_cd]. split; [apply KC_same | unfold CD]; auto.
  - congruence.
  - split; [apply KC_refl | apply CD_refl].
  - unfold api_close_reset. destruct (closing s) eqn:Hc; [split; [apply KC_refl | apply CD_refl]|].
    destruct (shutreq s); [split; [apply KC_same | unfold CD]; auto|].
    unfold api_close. change (closing (ev (EReset 0%Z) s)) with (closing s). rewrite Hc.
    split; [|unfold CD; auto]. unfold KC, FC; cbn. auto.
Qed.

Lemma Prog_conn_enq s s' :
  connecting s = true -> closing s' = closing s -> fdopen s' = fdopen s -> connecting s' = connecting s ->
  derr s' = derr s -> armed s' = armed s -> fed s' = fed s -> Prog s -> Prog s'.
Proof. unfold Prog, FC, C1. intros Hc -> -> -> -> -> ->. rewrite Hc. auto. Qed.

Lemma api_write_prog s bufs : Prog s -> Prog (api_write s bufs).
Proof.
  intros P. unfold api_write.
    set (s0 := ev (EWrite (next_id s) (sumN bufs)) (set_next_id (S (next_id s)) s)).
    destruct (check_before_write s0); [apply (Prog_same s); auto|].
    set (s1 := set_wq _ _).
    destruct (connecting s1) eqn:Hc; [apply (Prog_conn_enq s); auto|].
    destruct P as [F P]. assert (F1 : FC s1) by exact F.
    destruct (wqs s0 =? 0).
    + destruct (uv_write_queue_frame s1) as (A & B & C & D).
      apply (Prog_same (uv_write_queue s1)); auto.
      split.
      * unfold FC. rewrite A, B. exact F1.
      * right. rewrite C, Hc. apply write_loop_prog.
    + apply (Prog_same (set_armed true s1)); auto.
      split; [exact F1|]. right. change (connecting (set_armed true s1)) with (connecting s1). rewrite Hc.
      right; left; reflexivity.
Qed.

Lemma api_write2_prog s bufs : Prog s -> Prog (api_write2 s bufs).
Proof.
  intros P. unfold api_write2.
    set (s0 := ev (EWrite2 (next_id s)) (ev (EWrite (next_id s) (sumN bufs)) (set_next_id (S (next_id s)) s))).
    destruct (check_before_write2 s0); [apply (Prog_same s); auto|].
    set (s1 := set_wq _ _).
    destruct (connecting s1) eqn:Hc; [apply (Prog_conn_enq s); auto|].
    destruct P as [F P]. assert (F1 : FC s1) by exact F.
    destruct (wqs s0 =? 0).
    + destruct (uv_write_queue_frame s1) as (A & B & C & D).
      apply (Prog_same (uv_write_queue s1)); auto.
      split.
      * unfold FC. rewrite A, B. exact F1.
      * right. rewrite C, Hc. apply write_loop_prog.
    + apply (Prog_same (set_armed true s1)); auto.
      split; [exact F1|]. right. change (connecting (set_armed true s1)) with (connecting s1). rewrite Hc.
      right; left; reflexivity.
Qed.

Lemma api_connect_kc s : KC s (api_connect s).
Proof.
  unfold api_connect.
  destruct (closing s || negb (fdopen s) || connected s); [apply KC_refl|].
  destruct (connecting s); [destruct (is_tcp s); [apply KC_same; reflexivity | apply KC_refl]|].
  destruct (is_tcp (set_connres (tl (connres s)) s)).
  - destruct (writable (set_connres (tl (connres s)) s));
      destruct (conn_pending_ok _); try (orph; apply KC_same; reflexivity);
      destruct (match _ with Some 111%positive => true | _ => false end); orph; apply KC_same; reflexivity.
  - destruct (conn_pending_ok _); [|orph; apply KC_same; reflexivity].
    destruct (negb _ && negb _); orph; apply KC_same; reflexivity.
Qed.

Lemma api_kc s o : KC s (api s o).
Proof.
  destruct o; try (apply api_kc_cd; discriminate). apply api_connect_kc.
Qed.

Lemma api_connect_prog s : Prog s -> Prog (api_connect s).
Proof.
  intros P. unfold api_connect.
  destruct (closing s || negb (fdopen s) || connected s) eqn:Hg; [exact P|].
  assert (Hcl : closing s = false /\ fdopen s = true) by (destruct (closing s), (fdopen s), (connected s); try discriminate; auto).
  destruct Hcl as [Hcl Hfd].
  destruct (connecting s) eqn:Hcg.
  { destruct (is_tcp s); [apply (Prog_same s); auto | exact P]. }
  pose proof P as [F _].
  set (cres := match connres s with [] => None | c :: _ => c end).
  set (sA := set_connres (tl (connres s)) s).
  assert (Hd : conn_pending_ok cres = false ->
               (conn_derr cres < 0)%Z /\ conn_derr cres <> (- EINPROGRESS)%Z).
  { destruct cres as [e|]; cbn; [|discriminate]. intros He. split; [lia|].
    intros X. inversion X; subst. discriminate. }
  assert (G : forall x, closing x = closing s -> fdopen x = fdopen s -> connecting x = true ->
              C1 x -> (armed x = true \/ fed x = true) -> Prog x).
  { intros x E1 E2 E3 HC Haf. split; [unfold FC; rewrite E1, E2; exact F|]. right. rewrite E3. auto. }
  assert (G0 : forall x, closing x = closing s -> fdopen x = fdopen s -> connecting x = false ->
               wq x = wq s -> armed x = armed s -> fed x = fed s -> Prog x).
  { intros x E1 E2 E3 E4 E5 E6. destruct P as [F' [X|X]]; (split; [unfold FC; rewrite E1, E2; exact F'|]);
      [left; rewrite E1; exact X | right]. rewrite E3, E4, E5, E6. rewrite Hcg in X. exact X. }
  change (is_tcp sA) with (is_tcp s). change (writable sA) with (writable s). change (readable sA) with (readable s).
  destruct (is_tcp s).
  - destruct (conn_pending_ok cres) eqn:Hok.
    + destruct (writable s); orph; apply G; try reflexivity; try (left; split; reflexivity); left; reflexivity.
    + destruct (match cres with Some 111%positive => true | _ => false end).
      * destruct (writable s); orph; apply G; try reflexivity; try (right; apply Hd; reflexivity); left; reflexivity.
      * destruct (writable s); apply G0; try reflexivity; exact Hcg.
  - destruct (conn_pending_ok cres) eqn:Hok.
    + destruct (negb (readable s) && negb (writable s)); orph; apply G; try reflexivity;
        try (left; split; reflexivity); left; reflexivity.
    + orph; (apply G; try reflexivity; [right; apply Hd; reflexivity | right; reflexivity]).
Qed.

Lemma api_prog s o : Prog s -> Prog (api s o).
Proof.
  intros P. destruct o; cbn [api].
  - apply api_write_prog; auto.
  - unfold api_try.
    set (s0 := ev (ETry (next_id s) (sumN bufs)) (set_next_id (S (next_id s)) s)).
    destruct (connecting s0 || cancelling s0 || negb (wqs s0 =? 0)); [apply (Prog_same s); auto|].
    destruct (check_before_write s0); [apply (Prog_same s); auto|].
    destruct (sys_write (oracle s0) (offered bufs)) as [res o']. destruct res; apply (Prog_same s); auto.
  - unfold api_shutdown.
    destruct (negb (writable s) || shut s || shutreq s || closing s || closed s); [apply (Prog_same s); auto|].
    cbn. destruct (connecting s) eqn:Hcg; [apply (Prog_same s); auto|].
    destruct (wq s) eqn:Hq; [|apply (Prog_same s); auto].
    destruct P as [F P]. split; [exact F|]. destruct P as [P|P]; [left; exact P | right].
    cbn. rewrite Hcg. auto.
  - unfold api_close. destruct (closing s) eqn:Hc; [exact P|].
    split; [unfold FC; cbn; auto | left; reflexivity].
  - apply api_write2_prog; auto.
  - apply (Prog_same s); auto.
  - unfold api_write_nomem. destruct (check_before_write s); [apply api_write_prog; auto|].
    destruct (needs_alloc bufs); [|apply api_write_prog; auto]. apply (Prog_same s); auto.
  - unfold api_write2_nomem. destruct (check_before_write2 s); [apply api_write2_prog; auto|].
    destruct (needs_alloc bufs); [|apply api_write2_prog; auto]. apply (Prog_same s); auto.
  - apply api_connect_prog; auto.
  - exact P.
  - unfold api_close_reset. destruct (closing s) eqn:Hc; [exact P|].
    destruct (shutreq s); [apply (Prog_same s); auto|].
    unfold api_close. change (closing (ev (EReset 0%Z) s)) with (closing s). rewrite Hc.
    split; [unfold FC; cbn; auto | left; reflexivity].
Qed.

(* while connecting is set nothing but a new connect changes the wake-ups; used where Prog itself
   does not hold (inside the callback of a failed connect) *)
Definition WP (s : st) : Prop :=
  closing s = true \/ (connecting s = true -> C1 s /\ (armed s = true \/ fed s = true)).

Lemma api_connect_c1 s : connecting s = false ->
  connecting (api_connect s) = true ->
  C1 (api_connect s) /\ (armed (api_connect s) = true \/ fed (api_connect s) = true).
Proof.
  intros Hcg. unfold api_connect.
  destruct (closing s || negb (fdopen s) || connected s); [congruence|].
  rewrite Hcg.
  set (cres := match connres s with [] => None | c :: _ => c end).
  set (sA := set_connres (tl (connres s)) s).
  assert (Hd : conn_pending_ok cres = false ->
               (conn_derr cres < 0)%Z /\ conn_derr cres <> (- EINPROGRESS)%Z).
  { destruct cres as [e|]; cbn; [|discriminate]. intros He. split; [lia|].
    intros X. inversion X; subst. discriminate. }
  change (is_tcp sA) with (is_tcp s). change (writable sA) with (writable s). change (readable sA) with (readable s).
  destruct (is_tcp s).
  - destruct (conn_pending_ok cres) eqn:Hok.
    + destruct (writable s); orph; intros _; (split; [left; split; reflexivity | left; reflexivity]).
    + destruct (match cres with Some 111%positive => true | _ => false end).
      * destruct (writable s); orph; intros _; (split; [right; apply Hd; reflexivity | left; reflexivity]).
      * destruct (writable s); cbn; intros X; congruence.
  - destruct (conn_pending_ok cres) eqn:Hok.
    + destruct (negb (readable s) && negb (writable s)); orph; intros _; (split; [left; split; reflexivity | left; reflexivity]).
    + orph; intros _; (split; [right; apply Hd; reflexivity | right; reflexivity]).
Qed.

Lemma api_wp s o : FC s -> WP s -> WP (api s o).
Proof.
  intros F W.
  destruct (connecting s) eqn:Hcg.
  - (* Prog holds in a connecting state as soon as WP does *)
    assert (P : Prog s).
    { split; [exact F|]. destruct W as [W|W]; [left; exact W | right]. rewrite Hcg. exact (W Hcg). }
    destruct (api_prog s o P) as [_ [X|X]]; [left; exact X | right]. intros Hc. rewrite Hc in X. exact X.
  - right. destruct o;
      try (match goal with |- connecting (api s ?o0) = true -> _ =>
             assert (Hne : o0 <> OConnect) by discriminate;
             destruct (api_kc_cd s o0 Hne) as [_ [E _]]; intros Hc; congruence end).
    exact (api_connect_c1 s Hcg).
Qed.

Lemma apis_wp os : forall s, FC s -> WP s -> WP (apis s os) /\ FC (apis s os).
Proof.
  induction os as [|o os IH]; intros s F W; cbn [apis]; [auto|].
  apply IH; [apply api_kc; exact F | apply api_wp; auto].
Qed.

Lemma apis_kc_cd os : noconn os -> forall s, KC s (apis s os) /\ CD s (apis s os).
Proof.
  induction 1 as [|o os Ho Hos IH]; intros s; cbn [apis]; [split; [apply KC_refl | apply CD_refl]|].
  destruct (api_kc_cd s o Ho) as [A B]. destruct (IH (api s o)) as [C D].
  split; eauto using KC_trans, CD_trans.
Qed.

Lemma apis_kc os : forall s, KC s (apis s os).
Proof.
  induction os as [|o os IH]; intros s; cbn [apis]; [apply KC_refl|].
  eapply KC_trans; [apply api_kc | apply IH].
Qed.

Lemma apis_prog os : forall s, Prog s -> Prog (apis s os).
Proof. induction os as [|o os IH]; intros s P; cbn [apis]; auto. apply IH, api_prog; auto. Qed.

Section ProgCb.
Variable beh : nat -> list op.
Hypothesis Hbeh : forall k, noconn (beh k).     (* no connect is started again from a callback *)

Lemma run_cb_kc_cd s : KC s (run_cb beh s) /\ CD s (run_cb beh s).
Proof.
  unfold run_cb. destruct (apis_kc_cd (beh (StreamWrite.cbn s)) (Hbeh _) (set_cbn (S (StreamWrite.cbn s)) s)) as [A B].
  split; [eapply KC_trans; [|exact A]; apply KC_same; reflexivity
         | eapply CD_trans; [|exact B]; unfold CD; auto].
Qed.

Lemma run_cb_prog s : Prog s -> Prog (run_cb beh s).
Proof. intros P. unfold run_cb. apply apis_prog. apply (Prog_same s); auto. Qed.

Lemma run_cb_kc s : KC s (run_cb beh s).
Proof. unfold run_cb. eapply KC_trans; [|apply apis_kc]. apply KC_same; reflexivity. Qed.

Lemma run_cb_wp s : FC s -> WP s -> WP (run_cb beh s) /\ FC (run_cb beh s).
Proof.
  intros F W. unfold run_cb. apply apis_wp; [exact F|].
  destruct W as [W|W]; [left; exact W | right; exact W].
Qed.

Lemma cb_step_same r rest s :
  let s3 := ev (ECb (r_id r) (r_err r)
                    (wqs (if r_freed r then set_pq rest s else set_wqs (wqs (set_pq rest s) - req_size r) (set_pq rest s))))
               (if r_freed r then set_pq rest s else set_wqs (wqs (set_pq rest s) - req_size r) (set_pq rest s)) in
  closing s3 = closing s /\ fdopen s3 = fdopen s /\ connecting s3 = connecting s /\ derr s3 = derr s /\
  wq s3 = wq s /\ armed s3 = armed s /\ fed s3 = fed s.
Proof. destruct (r_freed r); cbn; repeat split. Qed.

Lemma cb_loop_kc_cd l : forall s, KC s (cb_loop beh l s) /\ CD s (cb_loop beh l s).
Proof.
  induction l as [|r rest IH]; intros s; cbn [cb_loop]; [split; [apply KC_refl | apply CD_refl]|].
  cbv zeta. destruct (cb_step_same r rest s) as (E1 & E2 & E3 & E4 & _).
  match goal with |- context [run_cb beh ?x] => set (s3 := x) in * end.
  destruct (run_cb_kc_cd s3) as [A B]. destruct (IH (run_cb beh s3)) as [C D].
  split.
  - eapply KC_trans; [apply (KC_same s s3); assumption|]. eapply KC_trans; eauto.
  - eapply CD_trans; [unfold CD; split; eassumption|]. eapply CD_trans; eauto.
Qed.

Lemma cb_loop_kc l : forall s, KC s (cb_loop beh l s).
Proof.
  induction l as [|r rest IH]; intros s; cbn [cb_loop]; [apply KC_refl|].
  cbv zeta. destruct (cb_step_same r rest s) as (E1 & E2 & _).
  match goal with |- context [run_cb beh ?x] => set (s3 := x) in * end.
  eapply KC_trans; [apply (KC_same s s3); assumption|]. eapply KC_trans; [apply run_cb_kc | apply IH].
Qed.

Lemma cb_loop_prog l : forall s, Prog s -> Prog (cb_loop beh l s).
Proof.
  induction l as [|r rest IH]; intros s P; cbn [cb_loop]; auto.
  cbv zeta. destruct (cb_step_same r rest s) as (E1 & E2 & E3 & E4 & E5 & E6 & E7).
  match goal with |- context [run_cb beh ?x] => set (s3 := x) in * end.
  apply IH, run_cb_prog. apply (Prog_same s); assumption.
Qed.

Lemma write_callbacks_kc_cd s : KC s (write_callbacks beh s) /\ CD s (write_callbacks beh s).
Proof.
  unfold write_callbacks. destruct (cq s) as [|r l]; [split; [apply KC_refl | apply CD_refl]|].
  destruct (cb_loop_kc_cd (r :: l) (set_pq (r :: l) (set_cq [] s))) as [A B].
  split; [eapply KC_trans; [|exact A]; apply KC_same; reflexivity
         | eapply CD_trans; [|exact B]; unfold CD; auto].
Qed.

Lemma write_callbacks_kc s : KC s (write_callbacks beh s).
Proof.
  unfold write_callbacks. destruct (cq s) as [|r l]; [apply KC_refl|].
  eapply KC_trans; [|apply cb_loop_kc]. apply KC_same; reflexivity.
Qed.

Lemma write_callbacks_prog s : Prog s -> Prog (write_callbacks beh s).
Proof.
  intros P. unfold write_callbacks. destruct (cq s) as [|r l]; auto.
  apply cb_loop_prog. apply (Prog_same s); auto.
Qed.

(* uv__drain: flag changes, trace events, one callback *)
Lemma drain_shape s :
  exists s5, (drain beh s = s5 \/ drain beh s = run_cb beh s5) /\
    closing s5 = closing s /\ fdopen s5 = fdopen s /\ connecting s5 = connecting s /\ derr s5 = derr s /\
    wq s5 = wq s /\ fed s5 = fed s /\ (armed s5 = armed s \/ (closing s = false /\ armed s5 = false)) /\
    cq s5 = cq s /\
    (shutreq s5 = false \/ (shutreq s = true /\ shut s = true)).
Proof.
  unfold drain.
  set (s1 := if closing s then s else set_armed false s).
  assert (E1 : closing s1 = closing s /\ fdopen s1 = fdopen s /\ connecting s1 = connecting s /\
               derr s1 = derr s /\ wq s1 = wq s /\ fed s1 = fed s /\
               (armed s1 = armed s \/ (closing s = false /\ armed s1 = false)) /\ cq s1 = cq s).
  { unfold s1. destruct (closing s) eqn:Hc; cbn; repeat split; auto. }
  assert (E2 : shutreq s1 = shutreq s /\ shut s1 = shut s).
  { unfold s1. destruct (closing s); cbn; auto. }
  destruct E2 as [E2 E3].
  destruct (shutreq s1) eqn:Hsr; cbn [negb].
  2: { exists s1. split; [left; reflexivity|]. destruct E1 as (A1 & A2 & A3 & A4 & A5 & A6 & A7 & A8).
       repeat (split; [assumption|]). left; exact Hsr. }
  destruct (closing s1 || negb (shut s1)) eqn:Hcond.
  2: { exists s1. split; [left; reflexivity|]. destruct E1 as (A1 & A2 & A3 & A4 & A5 & A6 & A7 & A8).
       repeat (split; [assumption|]). right. split; [congruence|]. rewrite <- E3.
       destruct (shut s1); [reflexivity|]. rewrite Bool.orb_true_r in Hcond. discriminate. }
  set (s2 := set_shutreq false s1). change (closing s2) with (closing s1).
  assert (Fin : forall s5, closing s5 = closing s1 -> fdopen s5 = fdopen s1 -> connecting s5 = connecting s1 ->
                derr s5 = derr s1 -> wq s5 = wq s1 -> fed s5 = fed s1 -> armed s5 = armed s1 -> cq s5 = cq s1 ->
                shutreq s5 = false ->
                closing s5 = closing s /\ fdopen s5 = fdopen s /\ connecting s5 = connecting s /\ derr s5 = derr s /\
                wq s5 = wq s /\ fed s5 = fed s /\ (armed s5 = armed s \/ (closing s = false /\ armed s5 = false)) /\
                cq s5 = cq s /\
                (shutreq s5 = false \/ (shutreq s = true /\ shut s = true))).
  { intros s5 -> -> -> -> -> -> -> -> Hs5. destruct E1 as (A1 & A2 & A3 & A4 & A5 & A6 & A7 & A8).
    repeat (split; [assumption|]). left; exact Hs5. }
  destruct (closing s1) eqn:Hcl1.
  - exists (ev (EShutCb UV_ECANCELED) s2). split; [right; reflexivity | apply Fin; try reflexivity; exact Hcl1].
  - destruct (shutdown_answer s2 =? 0)%Z.
    + exists (ev (EShutCb 0%Z) (set_shut true (ev (ESysShut (shutdown_answer s2)) s2))).
      split; [right; reflexivity | apply Fin; try reflexivity; exact Hcl1].
    + exists (ev (EShutCb (shutdown_answer s2)) (ev (ESysShut (shutdown_answer s2)) s2)).
      split; [right; reflexivity | apply Fin; try reflexivity; exact Hcl1].
Qed.

Lemma drain_kc s : KC s (drain beh s).
Proof.
  destruct (drain_shape s) as (s5 & [E|E] & A & B & _); rewrite E.
  - apply KC_same; auto.
  - eapply KC_trans; [apply (KC_same s s5); auto | apply run_cb_kc].
Qed.

Lemma drain_prog s : FC s -> connecting s = false -> wq s = [] \/ closing s = true -> Prog (drain beh s).
Proof.
  intros F Hc Hq.
  destruct (drain_shape s) as (s5 & E & A & B & C & D & W & Fe & Ar).
  assert (P5 : Prog s5).
  { split; [unfold FC; rewrite A, B; exact F|]. rewrite A, C, Hc, W.
    destruct Hq as [Hq|Hq]; [right; left; exact Hq | left; exact Hq]. }
  destruct E as [E|E]; rewrite E; [exact P5 | apply run_cb_prog, P5].
Qed.

(* uv__stream_connect *)
Lemma stream_connect_kc s : KC s (stream_connect beh s).
Proof.
  unfold stream_connect.
  match goal with |- context [let '(error, s1) := ?X in _] => destruct X as [error s1] eqn:HX end.
  assert (E1 : closing s1 = closing s /\ fdopen s1 = fdopen s).
  { destruct (negb (derr s =? 0)%Z); [inversion HX; auto|]. destruct (sockerr s); inversion HX; auto. }
  destruct E1 as [E1 E2].
  destruct (error =? - EINPROGRESS)%Z; [apply KC_same; auto|].
  set (s2 := set_connecting false s1).
  match goal with |- context [run_cb beh (ev (EConnCb error) ?x)] => set (s3 := x) end.
  assert (K3 : KC s (ev (EConnCb error) s3)).
  { apply KC_same; unfold s3; destruct (error <? 0)%Z; destruct ((_ : bool) || _); cbn; auto. }
  pose proof (run_cb_kc (ev (EConnCb error) s3)) as K4.
  set (s4 := run_cb beh (ev (EConnCb error) s3)) in *.
  assert (K : KC s s4) by (eapply KC_trans; eauto).
  destruct (negb (fdopen s4)); auto.
  destruct (error <? 0)%Z.
  2: { destruct (cq s4); [exact K|]. eapply KC_trans; [exact K | apply KC_same; reflexivity]. }
  assert (K5 : KC s (write_callbacks beh (flush s4))).
  { eapply KC_trans; [exact K|]. eapply KC_trans; [apply (KC_same s4 (flush s4)); reflexivity|].
    apply write_callbacks_kc. }
  set (s5 := write_callbacks beh (flush s4)) in *.
  destruct (shutreq s5 && negb (connecting s5) && fdopen s5); auto.
  destruct (wq s5); auto. destruct (cq s5); auto.
  eapply KC_trans; [exact K5 | apply drain_kc].
Qed.

Lemma Prog_fed s : Prog s -> Prog (set_fed true s).
Proof.
  intros [F [H|H]]; split; try exact F; [left; exact H | right].
  change (connecting (set_fed true s)) with (connecting s).
  destruct (connecting s); [destruct H as [H1 H2]; split; [exact H1 | right; reflexivity] | right; right; reflexivity].
Qed.

Lemma stream_connect_prog s : FC s -> connecting s = true -> C1 s -> Prog (stream_connect beh s).
Proof.
  intros F Hc HC. unfold stream_connect.
  match goal with |- context [let '(error, s1) := ?X in _] => destruct X as [error s1] eqn:HX end.
  assert (E1 : closing s1 = closing s /\ fdopen s1 = fdopen s /\ connecting s1 = connecting s /\
               wq s1 = wq s /\ armed s1 = armed s /\ fed s1 = fed s /\
               ((error = derr s /\ (derr s < 0)%Z /\ derr s <> (- EINPROGRESS)%Z) \/
                (derr s1 = 0%Z /\ armed s = true))).
  { destruct (Z.eqb_spec (derr s) 0) as [Hd|Hd]; cbn [negb] in HX.
    - assert (Ha : armed s = true) by (destruct HC as [[_ X]|[X _]]; [exact X | lia]).
      destruct (sockerr s); inversion HX; subst; cbn; repeat split; auto.
    - inversion HX; subst; cbn. repeat split; auto. left.
      destruct HC as [[X _]|[X Y]]; [contradiction | auto]. }
  destruct E1 as (Ec & Ef & Eco & Ew & Ea & Efe & Hcase).
  assert (F1 : FC s1) by (unfold FC; rewrite Ec, Ef; exact F).
  destruct (Z.eqb_spec error (- EINPROGRESS)) as [He|He].
  { destruct Hcase as [(X & _ & Y)|[Hd Ha]]; [congruence|].
    split; [exact F1|]. right. rewrite Eco, Hc. split; [left; rewrite Ea; auto | left; rewrite Ea; exact Ha]. }
  set (s2 := set_connecting false s1).
  match goal with |- context [run_cb beh (ev (EConnCb error) ?x)] => set (s3 := x) end.
  assert (E3 : closing s3 = closing s1 /\ fdopen s3 = fdopen s1 /\ connecting s3 = false /\ wq s3 = wq s1).
  { unfold s3. destruct (error <? 0)%Z; destruct ((_ : bool) || _); cbn; auto. }
  destruct E3 as (E3c & E3f & E3co & E3w).
  assert (F3 : FC (ev (EConnCb error) s3)) by (unfold FC; cbn; rewrite E3c, E3f; exact F1).
  destruct (Z.ltb_spec error 0) as [Hneg|Hpos].
  - (* failed: whatever the callback does, the queue is flushed afterwards *)
    assert (W3 : WP (ev (EConnCb error) s3)).
    { right. change (connecting (ev (EConnCb error) s3)) with (connecting s3). rewrite E3co. discriminate. }
    destruct (run_cb_wp (ev (EConnCb error) s3) F3 W3) as [W4 F4].
    set (s4 := run_cb beh (ev (EConnCb error) s3)) in *.
    destruct (fdopen s4) eqn:Hfd; cbn [negb].
    + assert (Pf : Prog (flush s4)).
      { split; [exact F4|]. destruct W4 as [W4|W4]; [left; exact W4 | right].
        change (connecting (flush s4)) with (connecting s4).
        destruct (connecting s4) eqn:Hc4; [exact (W4 eq_refl) | left; reflexivity]. }
      pose proof (write_callbacks_prog _ Pf) as P5.
      set (s5 := write_callbacks beh (flush s4)) in *.
      destruct (connecting s5) eqn:Hc5.
      * rewrite Bool.andb_false_r. cbn. exact P5.
      * destruct (shutreq s5 && negb false && fdopen s5); auto.
        destruct (wq s5) eqn:Hq5; auto. destruct (cq s5); auto.
        apply drain_prog; [apply P5 | exact Hc5 | left; exact Hq5].
    + split; [exact F4 | left; apply F4; exact Hfd].
  - (* connected: POLLOUT stays armed iff something is queued or a shutdown is pending *)
    assert (Ha : armed s1 = true).
    { destruct Hcase as [(X & Y & _)|[_ Ha]]; [lia | rewrite Ea; exact Ha]. }
    assert (Ha3 : wq s1 = [] \/ armed s3 = true).
    { unfold s3. destruct (Z.ltb_spec error 0); [lia|]. cbn [orb].
      change (wq s2) with (wq s1). destruct (wq s1) eqn:Hq; [left; reflexivity|]. right. cbn. exact Ha. }
    assert (P3 : Prog (ev (EConnCb error) s3)).
    { split; [exact F3|]. right.
      change (connecting (ev (EConnCb error) s3)) with (connecting s3). rewrite E3co.
      change (wq (ev (EConnCb error) s3)) with (wq s3). change (armed (ev (EConnCb error) s3)) with (armed s3).
      rewrite E3w. destruct Ha3 as [X|X]; [left; exact X | right; left; exact X]. }
    pose proof (run_cb_prog _ P3) as P4.
    destruct (negb (fdopen (run_cb beh (ev (EConnCb error) s3)))); [exact P4|].
    destruct (cq (run_cb beh (ev (EConnCb error) s3))); [exact P4 | apply Prog_fed, P4].
Qed.

Lemma stream_io_kc s : KC s (stream_io beh s).
Proof.
  unfold stream_io. destruct (connecting s); [apply stream_connect_kc|].
  destruct (uv_write_queue_frame s) as (A & B & _).
  assert (K1 : KC s (uv_write_queue s)) by (apply KC_same; auto).
  pose proof (write_callbacks_kc (uv_write_queue s)) as K2.
  set (s2 := write_callbacks beh (uv_write_queue s)) in *.
  assert (K : KC s s2) by (eapply KC_trans; eauto).
  destruct (connecting s2); auto.
  destruct (wq s2); auto. destruct (cq s2); auto.
  eapply KC_trans; [exact K | apply drain_kc].
Qed.

Lemma stream_io_prog s : PreIO s -> Prog (stream_io beh s).
Proof.
  intros [F H].
  destruct H as [Hcl|H].
  { destruct (stream_io_kc s) as [A B]. split; [apply B; exact F | left; apply A; exact Hcl]. }
  unfold stream_io. destruct (connecting s) eqn:Hc; [apply stream_connect_prog; auto|].
  destruct (uv_write_queue_frame s) as (A & B & C & D).
  assert (P1 : Prog (uv_write_queue s)).
  { split; [unfold FC; rewrite A, B; exact F|]. right. rewrite C, Hc. apply write_loop_prog. }
  pose proof (write_callbacks_prog _ P1) as P2.
  set (s2 := write_callbacks beh (uv_write_queue s)) in *.
  destruct (connecting s2) eqn:Hc2; auto.
  destruct (wq s2) eqn:Hq; auto. destruct (cq s2); auto.
  apply drain_prog; [apply P2 | exact Hc2 | left; exact Hq].
Qed.

Lemma destroy_prog s : FC s -> closing s = true -> Prog (destroy beh s).
Proof.
  intros F Hc. unfold destroy.
  set (s0 := set_closed true s).
  match goal with |- context [flush ?x] => set (sc1 := x) end.
  assert (K1 : KC s sc1).
  { unfold sc1. destruct (connecting s0); [|apply KC_same; reflexivity].
    eapply KC_trans; [apply (KC_same s (ev (EConnCb UV_ECANCELED) (set_cancelling true (set_connecting false s0)))); reflexivity|].
    eapply KC_trans; [apply run_cb_kc|]. apply KC_same; reflexivity. }
  pose proof (write_callbacks_kc (flush sc1)) as K2.
  pose proof (drain_kc (write_callbacks beh (flush sc1))) as K3.
  assert (K : KC s (drain beh (write_callbacks beh (flush sc1)))).
  { eapply KC_trans; [exact K1|]. eapply KC_trans; [apply (KC_same sc1 (flush sc1)); reflexivity|].
    eapply KC_trans; eauto. }
  destruct K as [Ka Kb]. split; [unfold FC; cbn; apply Kb; exact F | left; cbn; apply Ka; exact Hc].
Qed.

Lemma run_pending_prog s : Prog s -> Prog (run_pending beh s).
Proof.
  intros P. unfold run_pending. destruct (fed s); auto.
  apply stream_io_prog. destruct (Prog_PreIO _ P) as [F H]. split; [exact F | exact H].
Qed.

Lemma pending_rounds_prog k : forall s, Prog s -> Prog (pending_rounds beh k s).
Proof.
  induction k as [|k IH]; intros s P; cbn [pending_rounds]; auto.
  destruct (fed s); auto. apply IH, run_pending_prog, P.
Qed.

Lemma run_iter_prog s : Prog s -> Prog (run_iter beh s).
Proof.
  intros P. unfold run_iter.
  pose proof (run_pending_prog s P) as A.
  set (s1 := run_pending beh s) in *.
  set (s1' := set_pollw (tl (pollw s1)) s1).
  assert (P1 : Prog s1') by (apply (Prog_same s1); auto).
  match goal with |- context [if armed s1' && ?w then _ else _] => set (b := armed s1' && w) end.
  assert (P2 : Prog (if b then stream_io beh s1' else s1')).
  { destruct b; auto. apply stream_io_prog, Prog_PreIO, P1. }
  pose proof (pending_rounds_prog 8 _ P2) as P3.
  match goal with |- context [if closing ?x && _ then _ else _] => set (s3 := x) in * end.
  destruct (closing s3 && negb (closed s3)) eqn:Hc; auto.
  apply andb_prop in Hc. destruct Hc as [Hc _]. apply destroy_prog; [apply P3 | exact Hc].
Qed.

Lemma step_prog s o : Prog s -> Prog (step beh s o).
Proof.
  intros P. unfold step. apply (Prog_same (match o with ORun => run_iter beh s | _ => api s o end)); auto.
  destruct o; try (apply api_prog; auto; fail). apply run_iter_prog; auto.
Qed.

Lemma exec_prog os : forall s, Prog s -> Prog (exec beh s os).
Proof.
  induction os as [|o os IH]; intros s P; cbn [exec]; auto. apply IH, step_prog; auto.
Qed.

End ProgCb.

Lemma Prog_init blk o sa pw c ip : Prog (init blk o sa pw c ip).
Proof.
  destruct c as [[[[tcp cres] so] cr]|]; unfold init.
  - destruct (conn_pending_ok cres) eqn:Hp.
    + split; [unfold FC; cbn; discriminate|]. right; cbn. split; [left; auto | auto].
    + assert (Hd : (conn_derr cres < 0)%Z /\ conn_derr cres <> (- EINPROGRESS)%Z).
      { destruct cres as [e|]; [|discriminate]. simpl in *. split; [lia|].
        intros X. inversion X; subst. discriminate. }
      destruct tcp; (split; [unfold FC; cbn; discriminate|]); right; cbn; (split; [right; exact Hd | auto]).
  - split; [unfold FC; cbn; discriminate|]. right; cbn. auto.
Qed.

(* C05_progress: for every script - connect retries from any callback included - a non-empty write
   queue or a pending connect on a stream that is not closing has POLLOUT armed or its watcher in the
   pending queue *)
Theorem progress beh blk o sa pw c ip ops :
  let s := exec beh (init blk o sa pw c ip) ops in
  wq s <> [] \/ connecting s = true -> closing s = false -> armed s = true \/ fed s = true.
Proof.
  intros s Hq Hc.
  assert (P : Prog s) by (apply exec_prog; apply Prog_init).
  destruct P as [_ [P|P]]; [congruence|].
  destruct (connecting s); [apply P|]. destruct Hq as [Hq|Hq]; [|discriminate].
  destruct P as [P|P]; [contradiction | exact P].
Qed.

(* the input on which a connect started from a write callback was stranded by uv__drain before the
   repair of uv__stream_io (repo commit 5ec9be1): now the retried connect completes *)
Definition beh_strand (k : nat) : list op := match k with 1%nat => [OConnect; OConnect] | _ => [] end.

Example connect_from_write_cb_former_witness :
  trace (exec beh_strand (init false [AErr 32] 0%Z []
                            (Some (true, Some 115%positive, [111%Z; 0%Z], [Some 103%positive; Some 115%positive])) false)
              [ORun; OWrite [1]; ORun; ORun]) =
    [EConnCb (-111); EQ 0; EWrite 0 1; ERet 0 0; EQ 1; ECb 0 (-32) 0; EConnect (-103); EConnect 0;
     EConnCb 0; EQ 0; EQ 0].
Proof. vm_compute. reflexivity. Qed.

(* uv_try_write while a connect is pending *)
Theorem try_write_while_connecting s bufs :
  connecting s = true ->
  api_try s bufs =
    ev (ETryRet (next_id s) UV_EAGAIN) (ev (ETry (next_id s) (sumN bufs)) (set_next_id (S (next_id s)) s)).
Proof.
  intros H. unfold api_try.
  change (connecting (ev (ETry (next_id s) (sumN bufs)) (set_next_id (S (next_id s)) s))) with (connecting s).
  rewrite H. reflexivity.
Qed.

(* uv_write while a connect is pending queues without a system call *)
Theorem write_while_connecting s bufs :
  connecting s = true -> check_before_write s = None ->
  oracle (api_write s bufs) = oracle s /\ armed (api_write s bufs) = armed s /\
  wq (api_write s bufs) = wq s ++ [mkReq (next_id s) (sumN bufs) bufs O 0 0%Z false false].
Proof.
  intros H Hc. unfold api_write.
  change (check_before_write (ev (EWrite (next_id s) (sumN bufs)) (set_next_id (S (next_id s)) s)))
    with (check_before_write s). rewrite Hc. cbv zeta.
  match goal with |- context [if connecting ?x then _ else _] =>
    change (connecting x) with (connecting s) end.
  rewrite H. repeat split; reflexivity.
Qed.

(* ------------------------------------------------------------------ *)
(* a pending uv_shutdown keeps a wake-up until uv__drain carries it out *)
(* (scripts in which no connect is started again on the handle)        *)
(* ------------------------------------------------------------------ *)
Definition shutdown_progress (s : st) : Prop :=
  shutreq s = true -> closing s = false -> armed s = true \/ fed s = true.

Definition SP (s : st) : Prop :=
  closing s = true \/ shutreq s = false \/ armed s = true \/ fed s = true.
Definition NS (s : st) : Prop := shutreq s = true -> shut s = false.
Definition CC (s : st) : Prop := connecting s = true -> cq s = [].
(* finished requests wait for a run of the pending queue; nothing finishes while connecting *)
Definition B3 (s : st) : Prop :=
  closing s = true \/ (NS s /\ (cq s = [] \/ fed s = true) /\ CC s).

Lemma write_loop_q : forall fuel count s,
  let s' := write_loop fuel count s in
  (armed s = true \/ fed s = true -> armed s' = true \/ fed s' = true) /\
  (fed s' = true \/ (cq s' = cq s /\ fed s' = fed s)).
Proof.
  induction fuel as [|f IH]; intros count s; cbn [write_loop].
  - cbn. split; auto.
  - destruct (wq s) as [|r rest] eqn:Hq; [split; auto|].
    destruct (r_sh r && negb (sh_open s)); [cbn; split; auto|].
    destruct (sys_write (oracle s) (offered (skipn (r_widx r) (r_bufs r)))) as [res o'].
    destruct res as [n| |c].
    + destruct (req_done (req_update r n)).
      * destruct count; [cbn; split; auto|].
        match goal with |- context [write_loop f ?c0 ?x] => destruct (IH c0 x) as [A B] end.
        split; [intros _; apply A; right; reflexivity|].
        left. destruct B as [B|[_ B]]; [exact B | rewrite B; reflexivity].
      * match goal with |- context [if blocking ?x then _ else _] => destruct (blocking x) end.
        -- match goal with |- context [write_loop f count ?x] => destruct (IH count x) as [A B] end.
           split.
           ++ intros H. apply A. destruct (r_sh r); exact H.
           ++ destruct B as [B|[B1 B2]]; [left; exact B | right]. rewrite B1, B2. destruct (r_sh r); split; reflexivity.
        -- cbn. split; [auto|]. right. destruct (r_sh r); split; reflexivity.
    + match goal with |- context [if blocking ?x then _ else _] => destruct (blocking x) end.
      * match goal with |- context [write_loop f count ?x] => destruct (IH count x) as [A B] end.
        split.
        -- intros H. apply A. destruct (r_sh r); exact H.
        -- destruct B as [B|[B1 B2]]; [left; exact B | right]. rewrite B1, B2. destruct (r_sh r); split; reflexivity.
      * cbn. split; [auto|]. right. destruct (r_sh r); split; reflexivity.
    + cbn. split; auto.
Qed.

Lemma uv_write_queue_q s :
  shutreq (uv_write_queue s) = shutreq s /\ shut (uv_write_queue s) = shut s /\
  (armed s = true \/ fed s = true -> armed (uv_write_queue s) = true \/ fed (uv_write_queue s) = true) /\
  (fed (uv_write_queue s) = true \/ (cq (uv_write_queue s) = cq s /\ fed (uv_write_queue s) = fed s)).
Proof.
  unfold uv_write_queue. destruct (write_loop_sim (write_fuel s) 32 s) as [_ F].
  destruct F as (_ & F1 & _ & F2 & _). destruct (write_loop_q (write_fuel s) 32 s) as [A B]. auto.
Qed.

Lemma B3_same s s' :
  closing s' = closing s -> shutreq s' = shutreq s -> shut s' = shut s -> cq s' = cq s -> fed s' = fed s ->
  connecting s' = connecting s -> B3 s -> B3 s'.
Proof. unfold B3, NS, CC. intros -> -> -> -> -> ->. auto. Qed.

Lemma SP_same s s' :
  closing s' = closing s -> shutreq s' = shutreq s -> armed s' = armed s -> fed s' = fed s -> SP s -> SP s'.
Proof. unfold SP. intros -> -> -> ->. auto. Qed.

(* the common part of uv_write / uv_write2 after the checks *)
Lemma enq_b3_sp (s0 s1 : st) (ret : st -> st) :
  closing s1 = closing s0 -> shutreq s1 = shutreq s0 -> shut s1 = shut s0 -> cq s1 = cq s0 -> fed s1 = fed s0 ->
  connecting s1 = connecting s0 -> armed s1 = armed s0 ->
  forall e : bool,
  let s2 := if connecting s1 then s1 else if e then uv_write_queue s1 else set_armed true s1 in
  (B3 s0 -> B3 s2) /\ (SP s0 -> SP s2).
Proof.
  intros E1 E2 E3 E4 E5 E6 E7 e. cbv zeta.
  destruct (connecting s1) eqn:Hc.
  - split; [apply B3_same; auto; congruence | apply SP_same; auto].
  - destruct e.
    + destruct (uv_write_queue_frame s1) as (A & _ & C & _).
      destruct (uv_write_queue_q s1) as (Q1 & Q2 & Q3 & Q4).
      split.
      * intros [H|(N & Q & Cc)]; [left; rewrite A, E1; exact H | right].
        split; [unfold NS in *; rewrite Q1, Q2, E2, E3; exact N|].
        split; [|unfold CC; rewrite C, Hc; discriminate].
        destruct Q4 as [X|[X Y]]; [right; exact X|]. rewrite X, Y, E4, E5. exact Q.
      * unfold SP. rewrite A, Q1, E1, E2. intros [H|[H|H]]; auto.
        right; right. apply Q3. rewrite E7, E5. exact H.
    + split.
      * apply B3_same; cbn; auto. congruence.
      * unfold SP; cbn. auto.
Qed.

Lemma api_b3_sp s o : o <> OConnect -> Prog s -> (B3 s -> B3 (api s o)) /\ (SP s -> SP (api s o)).
Proof.
  intros Hne P. destruct o; cbn [api].
  - unfold api_write.
    set (s0 := ev (EWrite (next_id s) (sumN bufs)) (set_next_id (S (next_id s)) s)).
    destruct (check_before_write s0); [split; [apply B3_same | apply SP_same]; auto|].
    set (s1 := set_wq _ _).
    destruct (enq_b3_sp s s1 (fun x => x) eq_refl eq_refl eq_refl eq_refl eq_refl eq_refl eq_refl (wqs s0 =? 0)) as [A B].
    split; intros H; [apply (B3_same _ _ eq_refl eq_refl eq_refl eq_refl eq_refl eq_refl (A H))
                     | apply (SP_same _ _ eq_refl eq_refl eq_refl eq_refl (B H))].
  - unfold api_try.
    set (s0 := ev (ETry (next_id s) (sumN bufs)) (set_next_id (S (next_id s)) s)).
    destruct (connecting s0 || cancelling s0 || negb (wqs s0 =? 0)); [split; [apply B3_same | apply SP_same]; auto|].
    destruct (check_before_write s0); [split; [apply B3_same | apply SP_same]; auto|].
    destruct (sys_write (oracle s0) (offered bufs)) as [res o']. destruct res;
      (split; [apply B3_same | apply SP_same]; auto).
  - unfold api_shutdown.
    destruct (negb (writable s) || shut s || shutreq s || closing s || closed s) eqn:Hcond;
      [split; [apply B3_same | apply SP_same]; auto|].
    assert (Hs : shut s = false /\ closing s = false).
    { destruct (writable s), (shut s), (shutreq s), (closing s); try discriminate; auto. }
    destruct Hs as [Hs Hcl]. cbn. destruct (connecting s) eqn:Hcn.
    + split.
      * intros [H|(N & Q & Cc)]; [congruence | right]. cbn. split; [intros _; exact Hs|]. split; [exact Q | exact Cc].
      * intros _. unfold SP; cbn. destruct P as [_ [X|X]]; [congruence|]. rewrite Hcn in X. destruct X as [_ X]; auto.
    + destruct (wq s) eqn:Hq.
      * split.
        -- intros [H|(N & Q & Cc)]; [congruence | right]. cbn. split; [intros _; exact Hs|]. split; [right; reflexivity | exact Cc].
        -- intros _. unfold SP; cbn. auto.
      * split.
        -- intros [H|(N & Q & Cc)]; [congruence | right]. cbn. split; [intros _; exact Hs|]. split; [exact Q | exact Cc].
        -- intros _. unfold SP; cbn. destruct P as [_ [X|X]]; [congruence|].
           rewrite Hcn in X. destruct X as [X|X]; [congruence | auto].
  - unfold api_close. destruct (closing s) eqn:Hc; [auto|]. split; intros _; [left | left]; reflexivity.
  - unfold api_write2.
    set (s0 := ev (EWrite2 (next_id s)) (ev (EWrite (next_id s) (sumN bufs)) (set_next_id (S (next_id s)) s))).
    destruct (check_before_write2 s0); [split; [apply B3_same | apply SP_same]; auto|].
    set (s1 := set_wq _ _).
    destruct (enq_b3_sp s s1 (fun x => x) eq_refl eq_refl eq_refl eq_refl eq_refl eq_refl eq_refl (wqs s0 =? 0)) as [A B].
    split; intros H; [apply (B3_same _ _ eq_refl eq_refl eq_refl eq_refl eq_refl eq_refl (A H))
                     | apply (SP_same _ _ eq_refl eq_refl eq_refl eq_refl (B H))].
  - split; [apply B3_same | apply SP_same]; auto.
  - unfold api_write_nomem. destruct (check_before_write s) eqn:Hc.
    + unfold api_write. change (check_before_write (ev (EWrite (next_id s) (sumN bufs)) (set_next_id (S (next_id s)) s)))
        with (check_before_write s). rewrite Hc. split; [apply B3_same | apply SP_same]; auto.
    + destruct (needs_alloc bufs); [split; [apply B3_same | apply SP_same]; auto|].
      unfold api_write.
      set (s0 := ev (EWrite (next_id s) (sumN bufs)) (set_next_id (S (next_id s)) s)).
      destruct (check_before_write s0); [split; [apply B3_same | apply SP_same]; auto|].
      set (s1 := set_wq _ _).
      destruct (enq_b3_sp s s1 (fun x => x) eq_refl eq_refl eq_refl eq_refl eq_refl eq_refl eq_refl (wqs s0 =? 0)) as [A B].
      split; intros H; [apply (B3_same _ _ eq_refl eq_refl eq_refl eq_refl eq_refl eq_refl (A H))
                       | apply (SP_same _ _ eq_refl eq_refl eq_refl eq_refl (B H))].
  - unfold api_write2_nomem. destruct (check_before_write2 s) eqn:Hc.
    + unfold api_write2.
      change (check_before_write2 (ev (EWrite2 (next_id s)) (ev (EWrite (next_id s) (sumN bufs)) (set_next_id (S (next_id s)) s))))
        with (check_before_write2 s). rewrite Hc. split; [apply B3_same | apply SP_same]; auto.
    + destruct (needs_alloc bufs); [split; [apply B3_same | apply SP_same]; auto|].
      unfold api_write2.
      set (s0 := ev (EWrite2 (next_id s)) (ev (EWrite (next_id s) (sumN bufs)) (set_next_id (S (next_id s)) s))).
      destruct (check_before_write2 s0); [split; [apply B3_same | apply SP_same]; auto|].
      set (s1 := set_wq _ _).
      destruct (enq_b3_sp s s1 (fun x => x) eq_refl eq_refl eq_refl eq_refl eq_refl eq_refl eq_refl (wqs s0 =? 0)) as [A B].
      split; intros H; [apply (B3_same _ _ eq_refl eq_refl eq_refl eq_refl eq_refl eq_refl (A H))
                       | apply (SP_same _ _ eq_refl eq_refl eq_refl eq_refl (B H))].
  - congruence.
  - auto.
  - unfold api_close_reset. destruct (closing s) eqn:Hc; [auto|].
    destruct (shutreq s); [split; [apply B3_same | apply SP_same]; auto|].
    unfold api_close. change (closing (ev (EReset 0%Z) s)) with (closing s). rewrite Hc.
    split; intros _; left; reflexivity.
Qed.

Lemma apis_b3_sp os : noconn os -> forall s, Prog s ->
  (B3 s -> B3 (apis s os)) /\ (SP s -> SP (apis s os)).
Proof.
  induction 1 as [|o os Ho Hos IH]; intros s P; cbn [apis]; [auto|].
  destruct (api_b3_sp s o Ho P) as [A B].
  destruct (IH (api s o) (api_prog s o P)) as [C D]. auto.
Qed.

(* ------------------------------------------------------------------ *)
(* invariant, part 5: the descriptor of a uv_write2 goes out once      *)
(* ------------------------------------------------------------------ *)
Fixpoint nfd (t : list event) (id : nat) : nat :=      (* accepted sendmsg calls that carried id's descriptor *)
  match t with
  | [] => O
  | EFd i :: t' => ((if Nat.eqb i id then 1 else 0) + nfd t' id)%nat
  | _ :: t' => nfd t' id
  end.

Definition boring (e : event) : Prop :=
  match e with EFd _ | EChunk _ _ _ | EWrite2 _ | EFdFail _ => False | _ => True end.

Record I5 (W : list req) (t : list event) : Prop := {
  f_pending : Forall (fun r => r_sh r = true ->
                 In (EWrite2 (r_id r)) t /\ nfd t (r_id r) = O /\
                 (forall off len, ~ In (EChunk (r_id r) off len) t)) W;
  f_sent : Forall (fun r => r_sh r = false -> In (EWrite2 (r_id r)) t -> nfd t (r_id r) = 1%nat) W;
  f_marked : forall id, (0 < nfd t id)%nat -> In (EWrite2 id) t;
  f_once : forall id, (nfd t id <= 1)%nat;
  (* t is newest first: l2 is what happened before *)
  f_before : forall id l1 l2 off len, t = l1 ++ EChunk id off len :: l2 -> In (EWrite2 id) t -> nfd l2 id = 1%nat;
  f_first : forall id l1 l2, t = l1 ++ EFd id :: l2 -> forall off len, ~ In (EChunk id off len) l2;
  f_nofail_after : forall id l1 l2, t = l1 ++ EFdFail id :: l2 -> nfd l2 id = O
}.

Lemma cons_split {A} (e X : A) t l1 l2 :
  e :: t = l1 ++ X :: l2 -> (l1 = [] /\ e = X /\ t = l2) \/ (exists l1', l1 = e :: l1' /\ t = l1' ++ X :: l2).
Proof.
  destruct l1 as [|a l1]; simpl; intros H; inversion H; subst; [left; auto | right; eauto].
Qed.

Lemma nfd_cons_other e t id : (forall i, e <> EFd i) -> nfd (e :: t) id = nfd t id.
Proof. destruct e; simpl; auto. intros H. exfalso. eapply H; eauto. Qed.

Lemma nfd_fresh n t : Forall (ev_id_lt n) t -> forall id, (n <= id)%nat -> nfd t id = O.
Proof.
  induction 1 as [|e t He Ht IH]; intros id Hid; simpl; auto.
  destruct e; auto. simpl in He. destruct (Nat.eqb_spec id0 id); [lia|]. simpl. auto.
Qed.

Lemma I5_boring W t e : boring e -> I5 W t -> I5 W (e :: t).
Proof.
  intros Hb [A B C D E F G].
  assert (Hn : forall id, nfd (e :: t) id = nfd t id).
  { intros id. apply nfd_cons_other. intros i ->. destruct Hb. }
  assert (Hin : forall X, ~ boring X -> In X (e :: t) -> In X t).
  { intros X HX [->|H]; [contradiction | exact H]. }
  constructor.
  - eapply Forall_impl; [|exact A]. intros r H Hs. destruct (H Hs) as (H1 & H2 & H3).
    split; [right; exact H1 | split; [rewrite Hn; exact H2|]].
    intros off len X. apply (H3 off len). apply Hin; simpl; auto.
  - eapply Forall_impl; [|exact B]. intros r H Hs Hw. rewrite Hn. apply H; [exact Hs|]. apply Hin; [simpl; auto | exact Hw].
  - intros id H. rewrite Hn in H. right. apply C; auto.
  - intros id. rewrite Hn. apply D.
  - intros id l1 l2 off len H Hw. destruct (cons_split _ _ _ _ _ H) as [(_ & X & _)|(l1' & -> & H')].
    + subst e. destruct Hb.
    + eapply E; [exact H' | apply Hin; [simpl; auto | exact Hw]].
  - intros id l1 l2 H. destruct (cons_split _ _ _ _ _ H) as [(_ & X & _)|(l1' & -> & H')].
    + subst e. destruct Hb.
    + eapply F; eauto.
  - intros id l1 l2 H. destruct (cons_split _ _ _ _ _ H) as [(_ & X & _)|(l1' & -> & H')].
    + subst e. destruct Hb.
    + eapply G; eauto.
Qed.

Lemma I5_sub W W' t :
  (forall r', In r' W' -> exists r, In r W /\ r_id r' = r_id r /\ r_sh r' = r_sh r) -> I5 W t -> I5 W' t.
Proof.
  intros Hs [A B C D E F G]. rewrite Forall_forall in A, B. constructor; auto; apply Forall_forall; intros r' Hr'.
  - destruct (Hs r' Hr') as (r & Hr & Ei & Es). rewrite Ei, Es. apply A; auto.
  - destruct (Hs r' Hr') as (r & Hr & Ei & Es). rewrite Ei, Es. apply B; auto.
Qed.

Lemma I5_mark W t n :
  (forall r, In r W -> r_id r <> n) -> (forall off len, ~ In (EChunk n off len) t) ->
  I5 W t -> I5 W (EWrite2 n :: t).
Proof.
  intros Hw Hc [A B C D E F G].
  assert (Hn : forall id, nfd (EWrite2 n :: t) id = nfd t id) by reflexivity.
  rewrite Forall_forall in A, B.
  constructor.
  - apply Forall_forall. intros r Hr Hs. destruct (A r Hr Hs) as (H1 & H2 & H3).
    split; [right; exact H1 | split; [exact H2|]]. intros off len [X|X]; [discriminate | eapply H3; eauto].
  - apply Forall_forall. intros r Hr Hs [X|X]; [inversion X; exfalso; eapply Hw; eauto | apply B; auto].
  - intros id H. right. apply C; auto.
  - exact D.
  - intros id l1 l2 off len H Hin. destruct (cons_split _ _ _ _ _ H) as [(_ & X & _)|(l1' & -> & H')]; [discriminate|].
    destruct Hin as [X|X]; [|eapply E; eauto].
    injection X as Hid. exfalso. apply (Hc off len). rewrite H', Hid. apply in_or_app; right; left; reflexivity.
  - intros id l1 l2 H. destruct (cons_split _ _ _ _ _ H) as [(_ & X & _)|(l1' & -> & H')]; [discriminate|]. eapply F; eauto.
  - intros id l1 l2 H. destruct (cons_split _ _ _ _ _ H) as [(_ & X & _)|(l1' & -> & H')]; [discriminate|]. eapply G; eauto.
Qed.

Lemma I5_grow W t r :
  (r_sh r = true -> In (EWrite2 (r_id r)) t /\ nfd t (r_id r) = O /\ (forall off len, ~ In (EChunk (r_id r) off len) t)) ->
  (r_sh r = false -> ~ In (EWrite2 (r_id r)) t) ->
  I5 W t -> I5 (W ++ [r]) t.
Proof.
  intros H1 H2 [A B C D E F G]. constructor; auto; apply Forall_app; split; auto; constructor; auto.
  intros Hs Hw. exfalso. apply (H2 Hs Hw).
Qed.

Lemma I5_fd r rest t :
  r_sh r = true -> (forall r', In r' rest -> r_id r' <> r_id r) ->
  I5 (r :: rest) t -> I5 (clear_sh r :: rest) (EFd (r_id r) :: t).
Proof.
  intros Hs Hd [A B C D E F G].
  inversion A as [|? ? Ar A']; subst. inversion B as [|? ? Br B']; subst.
  destruct (Ar Hs) as (A1 & A2 & A3).
  assert (Hn : forall id, id <> r_id r -> nfd (EFd (r_id r) :: t) id = nfd t id).
  { intros id Hne. simpl. destruct (Nat.eqb_spec (r_id r) id); [congruence | reflexivity]. }
  assert (Hn1 : nfd (EFd (r_id r) :: t) (r_id r) = 1%nat) by (simpl; rewrite Nat.eqb_refl, A2; reflexivity).
  rewrite Forall_forall in A', B'.
  constructor.
  - constructor; [intros X; discriminate X|]. apply Forall_forall. intros r' Hr' Hs'.
    destruct (A' r' Hr' Hs') as (X1 & X2 & X3). split; [right; exact X1 | split].
    + rewrite Hn; auto.
    + intros off len [Y|Y]; [discriminate | eapply X3; eauto].
  - constructor; [intros _ _; exact Hn1|]. apply Forall_forall. intros r' Hr' Hs' [Y|Y]; [discriminate|].
    rewrite Hn; auto.
  - intros id H. right. destruct (Nat.eq_dec id (r_id r)) as [->|Hne]; [exact A1|]. rewrite Hn in H; auto.
  - intros id. destruct (Nat.eq_dec id (r_id r)) as [->|Hne]; [rewrite Hn1; auto | rewrite Hn; auto].
  - intros id l1 l2 off len H Hin. destruct (cons_split _ _ _ _ _ H) as [(_ & X & _)|(l1' & -> & H')]; [discriminate|].
    destruct Hin as [X|X]; [discriminate|]. eapply E; eauto.
  - intros id l1 l2 H. destruct (cons_split _ _ _ _ _ H) as [(_ & X & Ht)|(l1' & -> & H')].
    + inversion X; subst. exact A3.
    + eapply F; eauto.
  - intros id l1 l2 H. destruct (cons_split _ _ _ _ _ H) as [(_ & X & _)|(l1' & -> & H')]; [discriminate|]. eapply G; eauto.
Qed.

Lemma I5_chunk r r' rest t off n :
  r_sh r = false -> r_id r' = r_id r -> r_sh r' = false ->
  (forall r'', In r'' rest -> r_id r'' <> r_id r) ->
  I5 (r :: rest) t -> I5 (r' :: rest) (EChunk (r_id r) off n :: t).
Proof.
  intros Hs Ei Es' Hd [A B C D E F G].
  inversion A as [|? ? Ar A']; subst. inversion B as [|? ? Br B']; subst.
  assert (Hn : forall id, nfd (EChunk (r_id r) off n :: t) id = nfd t id) by reflexivity.
  rewrite Forall_forall in A', B'.
  constructor.
  - constructor; [intros X; congruence|]. apply Forall_forall. intros r'' Hr'' Hs''.
    destruct (A' r'' Hr'' Hs'') as (X1 & X2 & X3). split; [right; exact X1 | split; [exact X2|]].
    intros o l [Y|Y]; [inversion Y; exfalso; eapply Hd; eauto | eapply X3; eauto].
  - constructor.
    + intros _ [Y|Y]; [discriminate|]. rewrite Ei in *. apply Br; auto.
    + apply Forall_forall. intros r'' Hr'' Hs'' [Y|Y]; [discriminate|]. apply B'; auto.
  - intros id H. right. apply C; auto.
  - exact D.
  - intros id l1 l2 o l H Hin. destruct Hin as [Y|Hin]; [discriminate|].
    destruct (cons_split _ _ _ _ _ H) as [(_ & X & Ht)|(l1' & -> & H')].
    + inversion X; subst. apply Br; auto.
    + eapply E; eauto.
  - intros id l1 l2 H. destruct (cons_split _ _ _ _ _ H) as [(_ & X & _)|(l1' & -> & H')]; [discriminate|]. eapply F; eauto.
  - intros id l1 l2 H. destruct (cons_split _ _ _ _ _ H) as [(_ & X & _)|(l1' & -> & H')]; [discriminate|]. eapply G; eauto.
Qed.

Lemma I5_fdfail r rest t : r_sh r = true -> I5 (r :: rest) t -> I5 (r :: rest) (EFdFail (r_id r) :: t).
Proof.
  intros Hs [A B C D E F G]. pose proof A as A0. inversion A0 as [|? ? Ar _]; subst. destruct (Ar Hs) as (_ & A2 & _).
  assert (Hn : forall id, nfd (EFdFail (r_id r) :: t) id = nfd t id) by reflexivity.
  rewrite Forall_forall in A, B.
  constructor; auto.
  - apply Forall_forall. intros r' Hr' Hs'. destruct (A r' Hr' Hs') as (X1 & X2 & X3).
    split; [right; exact X1 | split; [exact X2|]]. intros o l [Y|Y]; [discriminate | eapply X3; eauto].
  - apply Forall_forall. intros r' Hr' Hs' [Y|Y]; [discriminate|]. apply B; auto.
  - intros id H. right. apply C; auto.
  - intros id l1 l2 o l H Hin. destruct Hin as [Y|Hin]; [discriminate|].
    destruct (cons_split _ _ _ _ _ H) as [(_ & X & _)|(l1' & -> & H')]; [discriminate|]. eapply E; eauto.
  - intros id l1 l2 H. destruct (cons_split _ _ _ _ _ H) as [(_ & X & _)|(l1' & -> & H')]; [discriminate|]. eapply F; eauto.
  - intros id l1 l2 H. destruct (cons_split _ _ _ _ _ H) as [(_ & X & Ht)|(l1' & -> & H')].
    + inversion X; subst. exact A2.
    + eapply G; eauto.
Qed.

(* a chunk of a request that is not a uv_write2 (fresh try_write id) *)
Lemma I5_plainchunk W t n off m :
  (forall r, In r W -> r_id r <> n) -> ~ In (EWrite2 n) t ->
  I5 W t -> I5 W (EChunk n off m :: t).
Proof.
  intros Hw Hm [A B C D E F G]. rewrite Forall_forall in A, B.
  constructor; auto.
  - apply Forall_forall. intros r Hr Hs. destruct (A r Hr Hs) as (X1 & X2 & X3).
    split; [right; exact X1 | split; [exact X2|]].
    intros o l [Y|Y]; [inversion Y; exfalso; eapply Hw; eauto | eapply X3; eauto].
  - apply Forall_forall. intros r Hr Hs [Y|Y]; [discriminate|]. apply B; auto.
  - intros id H. right. apply C; auto.
  - intros id l1 l2 o l H Hin. destruct Hin as [Y|Hin]; [discriminate|].
    destruct (cons_split _ _ _ _ _ H) as [(_ & X & _)|(l1' & -> & H')].
    + inversion X; subst. contradiction.
    + eapply E; eauto.
  - intros id l1 l2 H. destruct (cons_split _ _ _ _ _ H) as [(_ & X & _)|(l1' & -> & H')]; [discriminate|]. eapply F; eauto.
  - intros id l1 l2 H. destruct (cons_split _ _ _ _ _ H) as [(_ & X & _)|(l1' & -> & H')]; [discriminate|]. eapply G; eauto.
Qed.

Definition Inv5 (s : st) : Prop := I5 (wq s) (tr s).

Lemma req_update_sh r n : r_sh (req_update r n) = false.
Proof. unfold req_update. destruct (upd_loop _ _). reflexivity. Qed.

Lemma sorted_head_distinct (l1 : list req) r rest :
  StronglySorted lt (map r_id (l1 ++ r :: rest)) -> forall r', In r' rest -> r_id r' <> r_id r.
Proof.
  intros H r' Hr'. rewrite map_app in H. simpl in H. apply sorted_mid_lt in H.
  rewrite Forall_forall in H. specialize (H (r_id r') (in_map r_id _ _ Hr')). lia.
Qed.

Lemma no_event_fresh n t e : Forall (ev_id_lt n) t -> ~ ev_id_lt n e -> ~ In e t.
Proof. intros H Hn X. apply Hn. eapply fresh_no_event; eauto. Qed.

Lemma Inv5_prim s s' : prim s s' -> Inv2 s -> Inv5 s -> Inv5 s'.
Proof.
  intros P I2' I. unfold Inv5, Inv2 in *.
  pose proof I2' as [Js Jf Jl _ _ _ _ _ _ _ _].
  assert (Hlt : forall r, In r (wq s) -> (r_id r < next_id s)%nat).
  { intros r Hr. rewrite Forall_forall in Jl. apply (Jl (lkey r)). apply in_map. unfold live.
    apply in_or_app; right; apply in_or_app; right; exact Hr. }
  assert (Hnd : forall r rest, wq s = r :: rest -> forall r', In r' rest -> r_id r' <> r_id r).
  { intros r rest Hq. unfold live in Js. rewrite Hq, map_kid_lkey in Js. rewrite app_assoc in Js.
    eapply sorted_head_distinct; eauto. }
  assert (Hnew : forall r, In r (wq s) -> r_id r <> next_id s) by (intros r Hr; specialize (Hlt r Hr); lia).
  assert (Hnochunk : forall t0, (forall e, In e t0 -> In e (tr s) \/ boring e) ->
                     forall off len, ~ In (EChunk (next_id s) off len) t0).
  { intros t0 Ht0 off len X. destruct (Ht0 _ X) as [Y|Y]; [|destruct Y].
    apply (fresh_no_event _ _ Jf) in Y. simpl in Y. lia. }
  destruct P; unfold call0, finish_head, flush in *; cbn in *.
  - destruct H as (E1 & _ & _ & _ & _ & _ & _ & _ & _ & _ & E5). rewrite E1, E5. exact I.
  - (* chunk *)
    rewrite H in I. apply I5_chunk; auto using req_update_id, req_update_sh. eapply Hnd; eauto.
  - rewrite H in I. eapply I5_sub; [|exact I]. intros r' Hr'. exists r'. simpl; auto.
  - rewrite H in I. eapply I5_sub; [|exact I]. intros r' Hr'. exists r'. simpl; auto.
  - apply I5_boring; simpl; auto. apply I5_boring; simpl; auto.
  - (* enqueue without a handle *)
    apply I5_grow; cbn.
    + discriminate.
    + intros _ [X|X]; [discriminate|]. apply (fresh_no_event _ _ Jf) in X. simpl in X. lia.
    + apply I5_boring; simpl; auto.
  - apply I5_boring; simpl; auto.
  - apply I5_boring; simpl; auto. apply I5_boring; simpl; auto.
  - (* try_write wrote: a fresh id that is no uv_write2 *)
    apply I5_boring; simpl; auto. apply I5_plainchunk; auto.
    + intros [X|X]; [discriminate|]. apply (fresh_no_event _ _ Jf) in X. simpl in X. lia.
    + apply I5_boring; simpl; auto.
  - apply I5_boring; simpl; auto.
  - apply I5_boring; simpl; auto.
  - exact I.
  - exact I.
  - destruct (r_freed r); cbn; apply I5_boring; simpl; auto.
  - apply I5_boring; simpl; auto.
  - apply I5_boring; simpl; auto. apply I5_boring; simpl; auto.
  - apply I5_boring; simpl; auto. apply I5_boring; simpl; auto.
  - eapply I5_sub; [|exact I]. intros r' [].
  - apply I5_boring; simpl; auto.
  - apply I5_boring; simpl; auto.
  - apply I5_boring; simpl; auto.
  - (* fd *)
    rewrite H in I. apply I5_fd; auto. eapply Hnd; eauto.
  - rewrite H in I. rewrite H. apply I5_fdfail; auto.
  - (* uv_write2 refused *)
    apply I5_boring; simpl; auto. apply I5_mark; auto.
    + apply Hnochunk. intros e0 [<-|He]; [right; simpl; auto | left; exact He].
    + apply I5_boring; simpl; auto.
  - (* uv_write2 enqueued *)
    apply I5_grow; cbn.
    + intros _. split; [left; reflexivity | split].
      * apply (nfd_fresh _ _ Jf); auto.
      * intros off len [X|[X|X]]; try discriminate. apply (fresh_no_event _ _ Jf) in X. simpl in X. lia.
    + discriminate.
    + apply I5_mark; auto.
      * apply Hnochunk. intros e0 [<-|He]; [right; simpl; auto | left; exact He].
      * apply I5_boring; simpl; auto.
  - apply I5_boring; simpl; auto. apply I5_boring; simpl; auto.
  - apply I5_boring; simpl; auto. apply I5_mark; auto.
    + apply Hnochunk. intros e0 [<-|He]; [right; simpl; auto | left; exact He].
    + apply I5_boring; simpl; auto.
  - apply I5_boring; simpl; auto.
  - apply I5_boring; simpl; auto.
  - apply I5_boring; simpl; auto.
  - apply I5_boring; simpl; auto.
  - apply I5_boring; simpl; auto.
Qed.

Lemma Inv5_init blk o sa pw c ip : Inv5 (init blk o sa pw c ip).
Proof.
  unfold Inv5. init_cases c; cbn; constructor; simpl; auto; try lia; try tauto;
    intros; match goal with H : [] = ?l ++ _ :: _ |- _ => destruct l; discriminate end.
Qed.

Lemma Inv1235_steps s s' : steps s s' -> Inv1 s /\ Inv2 s /\ Inv5 s -> Inv1 s' /\ Inv2 s' /\ Inv5 s'.
Proof.
  induction 1; auto. intros (A & B & C). apply IHsteps.
  split; [|split].
  - eapply Inv1_prim; eauto.
  - eapply Inv2_prim; eauto.
  - eapply Inv5_prim; eauto.
Qed.

Lemma nfd_app a b id : nfd (a ++ b) id = (nfd a id + nfd b id)%nat.
Proof. induction a as [|e a IH]; simpl; auto. destruct e; auto. rewrite IH. lia. Qed.

Lemma nfd_rev t id : nfd (rev t) id = nfd t id.
Proof. induction t as [|e t IH]; simpl; auto. rewrite nfd_app, IH. destruct e; simpl; lia. Qed.

(* C05_send_handle_once, on the chronological trace *)
Theorem send_handle_once beh blk o sa pw cfg ip ops :
  let t := trace (exec beh (init blk o sa pw cfg ip) ops) in
  (* at most one accepted sendmsg carries the descriptor of a request, and only a uv_write2 request has one *)
  (forall id, (nfd t id <= 1)%nat) /\
  (forall id, (0 < nfd t id)%nat -> In (EWrite2 id) t) /\
  (* it is the first accepted one: no chunk of the request before it, every chunk of a uv_write2 request after it *)
  (forall id l1 l2, t = l1 ++ EFd id :: l2 -> forall off len, ~ In (EChunk id off len) l1) /\
  (forall id l1 l2 off len, t = l1 ++ EChunk id off len :: l2 -> In (EWrite2 id) t -> nfd l1 id = 1%nat) /\
  (* attempts that failed with the descriptor attached (EAGAIN, error) all come before it *)
  (forall id l1 l2, t = l1 ++ EFdFail id :: l2 -> nfd l1 id = O).
Proof.
  intros t. unfold t, trace.
  destruct (exec_steps beh blk o sa pw cfg ip ops) as [S _].
  destruct (Inv1235_steps _ _ S) as (_ & _ & I).
  { split; [apply Inv1_init | split; [apply Inv2_init | apply Inv5_init]]. }
  destruct I as [A B C D E F G].
  split; [|split; [|split; [|split]]].
  - intros id. rewrite nfd_rev. apply D.
  - intros id H. rewrite nfd_rev in H. apply in_rev. rewrite rev_involutive. apply C; auto.
  - intros id l1 l2 H off len X. apply rev_split in H. apply (F _ _ _ H off len). apply in_rev in X. exact X.
  - intros id l1 l2 off len H X. apply rev_split in H. rewrite <- nfd_rev. eapply E; eauto.
    apply in_rev in X. exact X.
  - intros id l1 l2 H. apply rev_split in H. rewrite <- nfd_rev. eapply G; eauto.
Qed.

(* what the OS accepts in one call fits the `int` that uv__try_write / uv_try_write return *)
Lemma sys_write_fits_int o : forall off n o', sys_write o off = (WN n, o') -> (Z.of_N n <= 2147483647)%Z.
Proof.
  induction o as [|a o IH]; intros off n o' H; cbn [sys_write] in H.
  - inversion H; subst. unfold MAX_RW_COUNT. lia.
  - destruct a as [m|e].
    + inversion H; subst. unfold MAX_RW_COUNT. lia.
    + destruct (Pos.eqb e 4); [eauto|].
      destruct (Pos.eqb e 11 || Pos.eqb e 105); inversion H.
Qed.

(* ------------------------------------------------------------------ *)
(* uv_write / uv_write2 failing with UV_ENOMEM change nothing          *)
(* ------------------------------------------------------------------ *)
(* every field of the stream except the trace and the call counter *)
Definition same_stream (s s' : st) : Prop :=
  wq s' = wq s /\ cq s' = cq s /\ pq s' = pq s /\ wqs s' = wqs s /\ shutreq s' = shutreq s /\
  writable s' = writable s /\ shut s' = shut s /\ closing s' = closing s /\ closed s' = closed s /\
  blocking s' = blocking s /\ fdopen s' = fdopen s /\ armed s' = armed s /\ fed s' = fed s /\
  oracle s' = oracle s /\ shutans s' = shutans s /\ pollw s' = pollw s /\ StreamWrite.cbn s' = StreamWrite.cbn s /\
  connecting s' = connecting s /\ derr s' = derr s /\ sockerr s' = sockerr s /\ ipc s' = ipc s /\
  sh_open s' = sh_open s.

Theorem write_enomem_is_noop s bufs :
  check_before_write s = None -> needs_alloc bufs = true ->
  same_stream s (api_write_nomem s bufs) /\
  tr (api_write_nomem s bufs) = ERet (next_id s) UV_ENOMEM :: EWrite (next_id s) (sumN bufs) :: tr s /\
  next_id (api_write_nomem s bufs) = S (next_id s).
Proof.
  intros Hc Ha. unfold api_write_nomem. rewrite Hc, Ha. unfold same_stream. repeat split.
Qed.

Theorem write2_enomem_is_noop s bufs :
  check_before_write2 s = None -> needs_alloc bufs = true ->
  same_stream s (api_write2_nomem s bufs) /\
  tr (api_write2_nomem s bufs) =
    ERet (next_id s) UV_ENOMEM :: EWrite2 (next_id s) :: EWrite (next_id s) (sumN bufs) :: tr s /\
  next_id (api_write2_nomem s bufs) = S (next_id s).
Proof.
  intros Hc Ha. unfold api_write2_nomem. rewrite Hc, Ha. unfold same_stream. repeat split.
Qed.

(* ... and with four buffers or fewer nothing is allocated: the call is an ordinary one *)
Theorem write_nomem_small s bufs : needs_alloc bufs = false -> api_write_nomem s bufs = api_write s bufs.
Proof. intros Ha. unfold api_write_nomem. rewrite Ha. destruct (check_before_write s); reflexivity. Qed.

(* ------------------------------------------------------------------ *)
(* shutdown progress, continued: callbacks and the loop                *)
(* ------------------------------------------------------------------ *)
Lemma api_write_sr x bufs : shutreq (api_write x bufs) = shutreq x /\ shut (api_write x bufs) = shut x.
Proof.
  unfold api_write.
  set (s0 := ev (EWrite (next_id x) (sumN bufs)) (set_next_id (S (next_id x)) x)).
  destruct (check_before_write s0); [split; reflexivity|].
  set (s1 := set_wq _ _). destruct (connecting s1); [split; reflexivity|].
  destruct (wqs s0 =? 0); [|split; reflexivity].
  destruct (uv_write_queue_q s1) as (Q1 & Q2 & _). split; [exact Q1 | exact Q2].
Qed.

Lemma api_write2_sr x bufs : shutreq (api_write2 x bufs) = shutreq x /\ shut (api_write2 x bufs) = shut x.
Proof.
  unfold api_write2.
  set (s0 := ev (EWrite2 (next_id x)) (ev (EWrite (next_id x) (sumN bufs)) (set_next_id (S (next_id x)) x))).
  destruct (check_before_write2 s0); [split; reflexivity|].
  set (s1 := set_wq _ _). destruct (connecting s1); [split; reflexivity|].
  destruct (wqs s0 =? 0); [|split; reflexivity].
  destruct (uv_write_queue_q s1) as (Q1 & Q2 & _). split; [exact Q1 | exact Q2].
Qed.

Lemma api_ns x o : o <> OConnect -> NS x -> NS (api x o).
Proof.
  intros Hne N. unfold NS in *. destruct o; cbn [api]; try congruence; auto.
  - destruct (api_write_sr x bufs) as [A B]. rewrite A, B. exact N.
  - unfold api_try.
    repeat match goal with |- context [match ?c with _ => _ end] => destruct c end; cbn; exact N.
  - unfold api_shutdown.
    destruct (negb (writable x) || shut x || shutreq x || closing x || closed x) eqn:Hcond; [exact N|].
    assert (Hs : shut x = false) by (destruct (writable x), (shut x), (shutreq x), (closing x); try discriminate; auto).
    cbn. intros _. destruct (connecting x); [|destruct (wq x)]; cbn; exact Hs.
  - unfold api_close. destruct (closing x); [exact N | cbn; exact N].
  - destruct (api_write2_sr x bufs) as [A B]. rewrite A, B. exact N.
  - unfold api_write_nomem. destruct (check_before_write x); [|destruct (needs_alloc bufs); [exact N|]];
      destruct (api_write_sr x bufs) as [A B]; rewrite A, B; exact N.
  - unfold api_write2_nomem. destruct (check_before_write2 x); [|destruct (needs_alloc bufs); [exact N|]];
      destruct (api_write2_sr x bufs) as [A B]; rewrite A, B; exact N.
  - unfold api_close_reset. destruct (closing x); [exact N|].
    destruct (shutreq x) eqn:Hs; [cbn; rewrite Hs; exact N|].
    unfold api_close. destruct (closing (ev (EReset 0%Z) x)); cbn; rewrite Hs; discriminate.
Qed.

Lemma apis_ns os : noconn os -> forall x, NS x -> NS (apis x os).
Proof. induction 1 as [|o os Ho Hos IH]; intros x N; cbn [apis]; auto. apply IH, api_ns; auto. Qed.

Section ShutProg.
Variable beh : nat -> list op.
Hypothesis Hbeh : forall k, noconn (beh k).

Lemma run_cb_b3_sp s : Prog s -> (B3 s -> B3 (run_cb beh s)) /\ (SP s -> SP (run_cb beh s)).
Proof.
  intros P. unfold run_cb.
  set (s1 := set_cbn (S (StreamWrite.cbn s)) s).
  assert (P1 : Prog s1) by (apply (Prog_same s); auto).
  destruct (apis_b3_sp (beh (StreamWrite.cbn s)) (Hbeh _) s1 P1) as [A B].
  split; intros H; [apply A; apply (B3_same s); auto | apply B; apply (SP_same s); auto].
Qed.

Lemma cb_loop_b3 l : forall s, Prog s -> B3 s -> B3 (cb_loop beh l s).
Proof.
  induction l as [|r rest IH]; intros s P Hb; cbn [cb_loop]; auto.
  cbv zeta. destruct (cb_step_same r rest s) as (E1 & E2 & E3 & E4 & E5 & E6 & E7).
  match goal with |- context [run_cb beh ?x] => set (s3 := x) in * end.
  assert (P3 : Prog s3) by (apply (Prog_same s); assumption).
  assert (B3' : B3 s3).
  { apply (B3_same s); auto; unfold s3; destruct (r_freed r); reflexivity. }
  apply IH; [apply run_cb_prog; auto | apply (run_cb_b3_sp s3 P3); auto].
Qed.

Lemma write_callbacks_b3 s : Prog s -> closing s = true \/ (NS s /\ CC s) -> B3 (write_callbacks beh s).
Proof.
  intros P H. unfold write_callbacks. destruct (cq s) as [|r l] eqn:Hc.
  - destruct H as [H|[N C]]; [left; exact H | right]. split; [exact N | split; [left; exact Hc | exact C]].
  - apply cb_loop_b3; [apply (Prog_same s); auto|].
    destruct H as [H|[N C]]; [left; exact H | right]. cbn. split; [exact N | split; [left; reflexivity|]].
    unfold CC. cbn. intros _. reflexivity.
Qed.

Lemma drain_b3_sp s :
  FC s -> connecting s = false -> closing s = true \/ (wq s = [] /\ cq s = [] /\ NS s) ->
  B3 (drain beh s) /\ SP (drain beh s).
Proof.
  intros F Hc H.
  destruct (drain_shape beh s) as (s5 & E & A & B & C & D & W & Fe & Ar & Q & Sh).
  assert (P5 : Prog s5).
  { split; [unfold FC; rewrite A, B; exact F|]. rewrite A, C, Hc, W.
    destruct H as [H|(H & _)]; [left; exact H | right; left; exact H]. }
  assert (B5 : B3 s5 /\ SP s5).
  { destruct H as [H|(Hq & Hcq & N)].
    - split; left; rewrite A; exact H.
    - assert (Hsr : shutreq s5 = false).
      { destruct Sh as [X|[X Y]]; [exact X|]. rewrite (N X) in Y. discriminate. }
      split.
      + right. split; [unfold NS; rewrite Hsr; discriminate|]. split; [left; rewrite Q; exact Hcq|].
        unfold CC. rewrite C, Hc. discriminate.
      + right; left; exact Hsr. }
  destruct B5 as [B5 S5].
  destruct E as [E|E]; rewrite E; [split; assumption|].
  destruct (run_cb_b3_sp s5 P5) as [X Y]. split; auto.
Qed.

Lemma B3_fed s : B3 s -> B3 (set_fed true s).
Proof.
  intros [H|(N & _ & C)]; [left; exact H | right]. split; [exact N | split; [right; reflexivity | exact C]].
Qed.

Lemma SP_fed s : SP s -> SP (set_fed true s).
Proof. intros _. right; right; right. reflexivity. Qed.

Lemma stream_connect_b3_sp s :
  FC s -> connecting s = true -> C1 s -> closing s = true \/ (NS s /\ CC s) ->
  B3 (stream_connect beh s) /\ SP (stream_connect beh s).
Proof.
  intros F Hc HC H.
  destruct H as [Hcl|[N Cc]].
  { destruct (stream_connect_kc beh s) as [K _]. split; left; apply K; exact Hcl. }
  unfold stream_connect.
  match goal with |- context [let '(error, s1) := ?X in _] => destruct X as [error s1] eqn:HX end.
  assert (E1 : closing s1 = closing s /\ fdopen s1 = fdopen s /\ connecting s1 = connecting s /\
               wq s1 = wq s /\ armed s1 = armed s /\ fed s1 = fed s /\ cq s1 = cq s /\
               shutreq s1 = shutreq s /\ shut s1 = shut s /\
               ((error = derr s /\ (derr s < 0)%Z /\ derr s <> (- EINPROGRESS)%Z) \/
                (derr s1 = 0%Z /\ armed s = true))).
  { destruct (Z.eqb_spec (derr s) 0) as [Hd|Hd]; cbn [negb] in HX.
    - assert (Ha : armed s = true) by (destruct HC as [[_ X]|[X _]]; [exact X | lia]).
      destruct (sockerr s); inversion HX; subst; cbn; repeat split; auto.
    - inversion HX; subst; cbn. repeat split; auto. left.
      destruct HC as [[X _]|[X Y]]; [contradiction | auto]. }
  destruct E1 as (Ec & Ef & Eco & Ew & Ea & Efe & Ecq & Esr & Esh & Hcase).
  assert (Hcq : cq s1 = []) by (rewrite Ecq; apply Cc; exact Hc).
  destruct (Z.eqb_spec error (- EINPROGRESS)) as [He|He].
  { destruct Hcase as [(X & _ & Y)|[Hd Ha]]; [congruence|]. split.
    - right. split; [unfold NS; rewrite Esr, Esh; exact N|]. split; [left; exact Hcq|].
      unfold CC. intros _. exact Hcq.
    - right; right; left. rewrite Ea; exact Ha. }
  set (s2 := set_connecting false s1).
  match goal with |- context [run_cb beh (ev (EConnCb error) ?x)] => set (s3 := x) end.
  assert (E3 : closing s3 = closing s1 /\ fdopen s3 = fdopen s1 /\ connecting s3 = false /\ wq s3 = wq s1 /\
               cq s3 = cq s1 /\ shutreq s3 = shutreq s1 /\ shut s3 = shut s1 /\ fed s3 = fed s1).
  { unfold s3. destruct (error <? 0)%Z; destruct ((_ : bool) || _); cbn; repeat split. }
  destruct E3 as (E3c & E3f & E3co & E3w & E3q & E3r & E3s & E3fe).
  set (s3e := ev (EConnCb error) s3).
  assert (F3 : FC s3e) by (unfold FC; cbn; rewrite E3c, E3f, Ec, Ef; exact F).
  assert (B3e : B3 s3e).
  { right. split; [unfold NS; cbn; rewrite E3r, E3s, Esr, Esh; exact N|].
    split; [left; cbn; rewrite E3q; exact Hcq|]. unfold CC; cbn. rewrite E3co. discriminate. }
  destruct (run_cb_kc_cd beh Hbeh s3e) as [[K4a K4b] [K4c _]].
  destruct (Z.ltb_spec error 0) as [Hneg|Hpos].
  - (* failed *)
    set (s4 := run_cb beh s3e) in *.
    assert (F4 : FC s4) by (apply K4b; exact F3).
    destruct (fdopen s4) eqn:Hfd; cbn [negb].
    2: { split; left; apply F4; exact Hfd. }
    assert (Hc4 : connecting (flush s4) = false).
    { change (connecting (flush s4)) with (connecting s4). rewrite K4c. exact E3co. }
    assert (Pf : Prog (flush s4)) by (split; [exact F4|]; right; rewrite Hc4; left; reflexivity).
    pose proof (write_callbacks_prog beh _ Pf) as P5.
    (* NS survives the callback although Prog does not hold inside it: uv_shutdown only sets the flags *)
    assert (N4 : closing s4 = true \/ NS s4).
    { right. unfold s4, run_cb. apply apis_ns; [apply Hbeh|].
      unfold NS in *.
      change (shutreq (set_cbn (S (StreamWrite.cbn s3e)) s3e)) with (shutreq s3).
      change (shut (set_cbn (S (StreamWrite.cbn s3e)) s3e)) with (shut s3).
      rewrite E3r, E3s, Esr, Esh. exact N. }
    assert (Bf : closing (flush s4) = true \/ (NS (flush s4) /\ CC (flush s4))).
    { destruct N4 as [X|X]; [left; exact X | right]. split; [exact X|]. unfold CC. rewrite Hc4. discriminate. }
    pose proof (write_callbacks_b3 _ Pf Bf) as B5.
    destruct (write_callbacks_kc_cd beh Hbeh (flush s4)) as [_ [Cc5 _]].
    set (s5 := write_callbacks beh (flush s4)) in *.
    assert (Hc5 : connecting s5 = false) by (rewrite Cc5; exact Hc4).
    assert (S5dflt : shutreq s5 = false \/ closing s5 = true \/ wq s5 <> [] \/ cq s5 <> [] -> SP s5).
    { intros [X|[X|[X|X]]].
      - right; left; exact X.
      - left; exact X.
      - destruct P5 as [_ [Y|Y]]; [left; exact Y|]. rewrite Hc5 in Y. destruct Y as [Y|Y]; [contradiction|].
        right; right; exact Y.
      - destruct B5 as [Y|(_ & [Y|Y] & _)]; [left; exact Y | contradiction | right; right; right; exact Y]. }
    destruct (shutreq s5 && negb (connecting s5) && fdopen s5) eqn:Hcond.
    + destruct (wq s5) eqn:Hq5; [|split; [exact B5 | apply S5dflt; right; right; left; try rewrite Hq5; discriminate]].
      destruct (cq s5) eqn:Hcq5; [|split; [exact B5 | apply S5dflt; right; right; right; try rewrite Hcq5; discriminate]].
      apply drain_b3_sp; [apply P5 | exact Hc5|].
      destruct B5 as [Y|(Y & _)]; [left; exact Y | right; auto].
    + split; [exact B5|]. apply S5dflt.
      destruct (shutreq s5); [|left; reflexivity]. rewrite Hc5 in Hcond. cbn in Hcond.
      right; left. destruct P5 as [F5 _]. apply F5. exact Hcond.
  - (* connected: POLLOUT stays armed when something is queued or a shutdown is pending *)
    assert (Ha : armed s1 = true).
    { destruct Hcase as [(X & Y & _)|[_ Ha]]; [lia | rewrite Ea; exact Ha]. }
    assert (Ha3 : (wq s1 = [] /\ shutreq s1 = false) \/ armed s3 = true).
    { unfold s3. destruct (Z.ltb_spec error 0); [lia|]. cbn [orb].
      change (wq s2) with (wq s1). change (shutreq s2) with (shutreq s1).
      destruct (wq s1) eqn:Hq; [|right; cbn; exact Ha].
      destruct (shutreq s1); cbn; [right; exact Ha | left; auto]. }
    assert (P3 : Prog s3e).
    { split; [exact F3|]. right.
      change (connecting s3e) with (connecting s3). rewrite E3co.
      change (wq s3e) with (wq s3). change (armed s3e) with (armed s3).
      rewrite E3w. destruct Ha3 as [[X _]|X]; [left; exact X | right; left; exact X]. }
    assert (S3 : SP s3e).
    { destruct Ha3 as [[_ X]|X]; [right; left; change (shutreq s3e) with (shutreq s3); rewrite E3r; exact X
                                | right; right; left; exact X]. }
    destruct (run_cb_b3_sp s3e P3) as [X Y].
    destruct (negb (fdopen (run_cb beh s3e))); [split; auto|].
    destruct (cq (run_cb beh s3e)); [split; auto|].
    split; [apply B3_fed | apply SP_fed]; auto.
Qed.

Lemma stream_io_b3_sp s :
  PreIO s -> closing s = true \/ (NS s /\ CC s) -> B3 (stream_io beh s) /\ SP (stream_io beh s).
Proof.
  intros [F H] Hn.
  destruct H as [Hcl|H].
  { destruct (stream_io_kc beh s) as [K _]. split; left; apply K; exact Hcl. }
  unfold stream_io. destruct (connecting s) eqn:Hc; [apply stream_connect_b3_sp; auto|].
  destruct (uv_write_queue_frame s) as (A & B & C & D).
  destruct (uv_write_queue_q s) as (Q1 & Q2 & _ & _).
  assert (P1 : Prog (uv_write_queue s)).
  { split; [unfold FC; rewrite A, B; exact F|]. right. rewrite C, Hc. apply write_loop_prog. }
  assert (Hn1 : closing (uv_write_queue s) = true \/ (NS (uv_write_queue s) /\ CC (uv_write_queue s))).
  { destruct Hn as [X|[N _]]; [left; rewrite A; exact X | right]. split.
    - unfold NS. rewrite Q1, Q2. exact N.
    - unfold CC. rewrite C, Hc. discriminate. }
  pose proof (write_callbacks_prog beh _ P1) as P2.
  pose proof (write_callbacks_b3 _ P1 Hn1) as B2.
  destruct (write_callbacks_kc_cd beh Hbeh (uv_write_queue s)) as [_ [Cc _]].
  set (s2 := write_callbacks beh (uv_write_queue s)) in *.
  assert (Hc2 : connecting s2 = false) by (rewrite Cc, C; exact Hc).
  rewrite Hc2. destruct (wq s2) eqn:Hq.
  - destruct (cq s2) eqn:Hcq.
    + apply drain_b3_sp; [apply P2 | exact Hc2|].
      destruct B2 as [Y|(Y & _)]; [left; exact Y | right; auto].
    + split; [exact B2|]. destruct B2 as [Y|(_ & [Y|Y] & _)]; [left; exact Y | congruence | right; right; right; exact Y].
  - split; [exact B2|]. destruct P2 as [_ [Y|Y]]; [left; exact Y|]. rewrite Hc2, Hq in Y.
    destruct Y as [Y|Y]; [discriminate | right; right; exact Y].
Qed.

Definition Q3 (s : st) : Prop := Prog s /\ B3 s /\ SP s.

Lemma B3_weak s : B3 s -> closing s = true \/ (NS s /\ CC s).
Proof. intros [H|(N & _ & C)]; auto. Qed.

Lemma run_pending_q3 s : Q3 s -> Q3 (run_pending beh s).
Proof.
  intros (P & B & S). unfold run_pending. destruct (fed s); [|split; [|split]; assumption].
  assert (Pre : PreIO (set_fed false s)) by (destruct (Prog_PreIO _ P) as [F H]; split; [exact F | exact H]).
  assert (Hn : closing (set_fed false s) = true \/ (NS (set_fed false s) /\ CC (set_fed false s))) by (apply (B3_weak s B)).
  split; [apply (stream_io_prog beh); auto | apply stream_io_b3_sp; auto].
Qed.

Lemma pending_rounds_q3 k : forall s, Q3 s -> Q3 (pending_rounds beh k s).
Proof.
  induction k as [|k IH]; intros s H; cbn [pending_rounds]; auto.
  destruct (fed s); auto. apply IH, run_pending_q3, H.
Qed.

Lemma destroy_closing s : closing s = true -> closing (destroy beh s) = true.
Proof.
  intros Hc. unfold destroy.
  set (s0 := set_closed true s).
  match goal with |- context [flush ?x] => set (sc1 := x) end.
  assert (K1 : KC s sc1).
  { unfold sc1. destruct (connecting s0); [|apply KC_same; reflexivity].
    eapply KC_trans; [apply (KC_same s (ev (EConnCb UV_ECANCELED) (set_cancelling true (set_connecting false s0)))); reflexivity|].
    eapply KC_trans; [apply run_cb_kc|]. apply KC_same; reflexivity. }
  pose proof (write_callbacks_kc beh (flush sc1)) as K2.
  pose proof (drain_kc beh (write_callbacks beh (flush sc1))) as K3.
  change (closing (drain beh (write_callbacks beh (flush sc1))) = true).
  destruct K1 as [K1 _]. destruct K2 as [K2 _]. destruct K3 as [K3 _].
  apply K3, K2. change (closing (flush sc1)) with (closing sc1). apply K1. exact Hc.
Qed.

Lemma run_iter_q3 s : Q3 s -> Q3 (run_iter beh s).
Proof.
  intros H. unfold run_iter.
  pose proof (run_pending_q3 s H) as A.
  set (s1 := run_pending beh s) in *.
  set (s1' := set_pollw (tl (pollw s1)) s1).
  assert (H1 : Q3 s1').
  { destruct A as (P & B & S). split; [apply (Prog_same s1); auto | split; [apply (B3_same s1); auto | apply (SP_same s1); auto]]. }
  match goal with |- context [if armed s1' && ?w then _ else _] => set (b := armed s1' && w) end.
  assert (H2 : Q3 (if b then stream_io beh s1' else s1')).
  { destruct b; auto. destruct H1 as (P & B & S).
    split; [apply (stream_io_prog beh), Prog_PreIO, P | apply stream_io_b3_sp; [apply Prog_PreIO, P | apply B3_weak, B]]. }
  pose proof (pending_rounds_q3 8 _ H2) as H3.
  match goal with |- context [if closing ?x && _ then _ else _] => set (s3 := x) in * end.
  destruct (closing s3 && negb (closed s3)) eqn:Hc; auto.
  apply andb_prop in Hc. destruct Hc as [Hc _].
  destruct H3 as (P3 & _ & _).
  pose proof (destroy_prog beh s3 (proj1 P3) Hc) as Pd.
  pose proof (destroy_closing s3 Hc) as Hcd.
  split; [exact Pd | split; left; exact Hcd].
Qed.

Lemma step_q3 s o : o <> OConnect -> Q3 s -> Q3 (step beh s o).
Proof.
  intros Hne (P & B & S). unfold step.
  set (s' := match o with ORun => run_iter beh s | _ => api s o end).
  assert (H : Q3 s').
  { unfold s'. destruct o; try congruence;
      try (destruct (api_b3_sp s _ Hne P) as [X Y]; split; [apply api_prog; auto | split; auto]; fail).
    apply run_iter_q3. split; [|split]; assumption. }
  destruct H as (P' & B' & S').
  split; [apply (Prog_same s'); auto | split; [apply (B3_same s'); auto | apply (SP_same s'); auto]].
Qed.

Lemma exec_q3 os : noconn os -> forall s, Q3 s -> Q3 (exec beh s os).
Proof.
  induction 1 as [|o os Ho Hos IH]; intros s H; cbn [exec]; auto. apply IH, step_q3; auto.
Qed.

End ShutProg.

Lemma Q3_init blk o sa pw c ip : Q3 (init blk o sa pw c ip).
Proof.
  split; [apply Prog_init|]. init_cases c; split;
    try (right; cbn; repeat split; auto; try discriminate; unfold NS, CC; cbn; auto; fail);
    try (right; left; reflexivity).
Qed.

(* C05_shutdown_progress (scripts without a connect retry): a pending uv_shutdown is never
   left without a wake-up, so uv__drain gets to carry it out *)
Theorem shutdown_progress_holds beh blk o sa pw c ip ops :
  noconn ops -> (forall k, noconn (beh k)) ->
  shutdown_progress (exec beh (init blk o sa pw c ip) ops).
Proof.
  intros Hops Hbeh. destruct (exec_q3 beh Hbeh ops Hops _ (Q3_init blk o sa pw c ip)) as (_ & _ & S).
  intros Hs Hc. destruct S as [S|[S|S]]; [congruence | congruence | exact S].
Qed.

(* ------------------------------------------------------------------ *)
(* every accepted uv_shutdown gets exactly one callback, after the     *)
(* callbacks of all writes accepted before it (all scripts)            *)
(* ------------------------------------------------------------------ *)
Fixpoint nsh0 (t : list event) : nat :=        (* uv_shutdown calls that returned 0 *)
  match t with
  | [] => O
  | EShut c :: t' => ((if Z.eqb c 0 then 1 else 0) + nsh0 t')%nat
  | _ :: t' => nsh0 t'
  end.

Fixpoint nshcb (t : list event) : nat :=       (* shutdown callbacks *)
  match t with
  | [] => O
  | EShutCb _ :: t' => S (nshcb t')
  | _ :: t' => nshcb t'
  end.

(* accepted = called back + (1 if one is pending) *)
Definition Inv6 (s : st) : Prop :=
  nsh0 (tr s) = (nshcb (tr s) + (if shutreq s then 1 else 0))%nat.

Lemma Inv6_prim s s' : prim s s' -> Inv6 s -> Inv6 s'.
Proof.
  intros P I. unfold Inv6 in *.
  destruct P; unfold call0, finish_head, flush in *; cbn in *;
    try (destruct (r_freed r); cbn; lia); try (destruct (_ =? _)%Z; cbn; lia); try lia.
  - destruct H as (_ & _ & _ & _ & E1 & _ & _ & _ & _ & _ & E2). rewrite E1, E2. exact I.
  - rewrite H0 in I. lia.
  - rewrite H in I. lia.
  - rewrite H in I. lia.
  - rewrite H in I. destruct (a =? 0)%Z; lia.
Qed.

Lemma Inv6_steps s s' : steps s s' -> Inv6 s -> Inv6 s'.
Proof. induction 1; eauto using Inv6_prim. Qed.

Lemma Inv6_init blk o sa pw c ip : Inv6 (init blk o sa pw c ip).
Proof. unfold Inv6. init_cases c; reflexivity. Qed.

(* when the shutdown callback runs, every write accepted so far has had its callback *)
Definition P7 (t : list event) : Prop :=
  forall c l1 l2, t = l1 ++ EShutCb c :: l2 -> forall id, In (ERet id 0%Z) l2 -> In id (cb_ids l2).

Lemma P7_cons e t : (forall c, e <> EShutCb c) -> P7 t -> P7 (e :: t).
Proof.
  intros He H c l1 l2 E. destruct (cons_split _ _ _ _ _ E) as [(_ & X & _)|(l1' & -> & E')].
  - exfalso. eapply He; eauto.
  - eapply H; eauto.
Qed.

Lemma P7_shutcb c t : (forall id, In (ERet id 0%Z) t -> In id (cb_ids t)) -> P7 t -> P7 (EShutCb c :: t).
Proof.
  intros Hall H c' l1 l2 E. destruct (cons_split _ _ _ _ _ E) as [(_ & X & Ht)|(l1' & -> & E')].
  - subst l2. exact Hall.
  - eapply H; eauto.
Qed.

Definition Inv7 (s : st) : Prop := P7 (tr s).

Lemma Inv7_prim s s' : prim s s' -> Inv2 s -> Inv7 s -> Inv7 s'.
Proof.
  intros P I2' I. unfold Inv7 in *.
  assert (Hall : wq s = [] -> cq s = [] -> pq s = [] ->
                 forall id, In (ERet id 0%Z) (tr s) -> In id (cb_ids (tr s))).
  { intros Hq Hc Hp id Hr. destruct I2' as [_ _ _ _ _ _ _ _ J _ _]. destruct (J id Hr) as [X|X]; [exact X|].
    unfold live in X. rewrite Hq, Hc, Hp in X. destruct X. }
  destruct P; unfold call0, finish_head, flush in *; cbn in *;
    try (destruct (r_freed r); cbn); try (destruct (_ =? _)%Z; cbn);
    repeat (apply P7_cons; [intros; discriminate|]); try exact I.
  - destruct H as (_ & _ & _ & _ & _ & _ & _ & _ & _ & _ & E). rewrite E. exact I.
  - apply P7_shutcb; auto.
  - apply P7_shutcb; [|apply P7_cons; [intros; discriminate | exact I]].
    intros id [X|X]; [discriminate|]. cbn. apply Hall; auto.
  - apply P7_shutcb; [|apply P7_cons; [intros; discriminate | exact I]].
    intros id [X|X]; [discriminate|]. cbn. apply Hall; auto.
Qed.

Lemma Inv7_init blk o sa pw c ip : Inv7 (init blk o sa pw c ip).
Proof.
  unfold Inv7, P7. init_cases c; cbn; intros ? l1 ? E; destruct l1; discriminate.
Qed.

Lemma Inv127_steps s s' : steps s s' -> Inv1 s /\ Inv2 s /\ Inv7 s -> Inv1 s' /\ Inv2 s' /\ Inv7 s'.
Proof.
  induction 1; auto. intros (A & B & C). apply IHsteps.
  split; [|split].
  - eapply Inv1_prim; eauto.
  - eapply Inv2_prim; eauto.
  - eapply Inv7_prim; eauto.
Qed.

Lemma nsh0_app a b : nsh0 (a ++ b) = (nsh0 a + nsh0 b)%nat.
Proof. induction a as [|e a IH]; simpl; auto. destruct e; auto. rewrite IH. lia. Qed.
Lemma nsh0_rev t : nsh0 (rev t) = nsh0 t.
Proof. induction t as [|e t IH]; simpl; auto. rewrite nsh0_app, IH. destruct e; simpl; lia. Qed.
Lemma nshcb_app a b : nshcb (a ++ b) = (nshcb a + nshcb b)%nat.
Proof. induction a as [|e a IH]; simpl; auto. destruct e; auto. rewrite IH. lia. Qed.
Lemma nshcb_rev t : nshcb (rev t) = nshcb t.
Proof. induction t as [|e t IH]; simpl; auto. rewrite nshcb_app, IH. destruct e; simpl; lia. Qed.

(* C05_shutdown_cb_exactly_once *)
Theorem shutdown_cb_exactly_once beh blk o sa pw cfg ip ops :
  let s := exec beh (init blk o sa pw cfg ip) ops in
  nsh0 (trace s) = (nshcb (trace s) + (if shutreq s then 1 else 0))%nat /\
  (forall c l1 l2, trace s = l1 ++ EShutCb c :: l2 ->
     forall id, In (ERet id 0%Z) l1 -> In id (cb_ids l1)).
Proof.
  intros s. destruct (exec_steps beh blk o sa pw cfg ip ops) as [S _]. fold s in S.
  split.
  - unfold trace. rewrite nsh0_rev, nshcb_rev. apply (Inv6_steps _ _ S). apply Inv6_init.
  - destruct (Inv127_steps _ _ S) as (_ & _ & I7).
    { split; [apply Inv1_init | split; [apply Inv2_init | apply Inv7_init]]. }
    intros c l1 l2 E id Hr. unfold trace in E. apply rev_split in E.
    apply in_rev in Hr. specialize (I7 c _ _ E id Hr). rewrite cb_ids_rev in I7.
    apply in_rev in I7. try rewrite rev_involutive in I7. exact I7.
Qed.

(* the inputs on which a shutdown was stranded before the repair of uv__stream_connect *)
Example shutdown_while_connecting_former_witnesses :
  trace (exec (fun _ => []) (init false [] 0%Z [] (Some (true, Some 115%positive, [0%Z], [])) false)
              [OShutdown; ORun; ORun]) =
    [EShut 0; EQ 0; EConnCb 0; EQ 0; ESysShut 0; EShutCb 0; EQ 0] /\
  trace (exec (fun _ => []) (init false [] 0%Z [] (Some (true, Some 115%positive, [111%Z], [])) false)
              [OWrite [3]; OShutdown; ORun; ORun]) =
    [EWrite 0 3; ERet 0 0; EQ 3; EShut 0; EQ 3; EConnCb (-111); ECb 0 UV_ECANCELED 0;
     ESysShut (-107); EShutCb (-107); EQ 0; EQ 0].
Proof. split; vm_compute; reflexivity. Qed.

(* C05_shutdown_last_refuted: after uv_shutdown, a uv_tcp_connect retried on the handle (here it even
   fails at once) ors UV_HANDLE_WRITABLE back in, and uv_write is accepted again *)
Theorem shutdown_last_refuted :
  exists beh cfg ops l1 l2 id,
    trace (exec beh (init false [AErr 32] 0%Z [] cfg false) ops) = l1 ++ EShut 0%Z :: l2 /\
    In (ERet id 0%Z) l2.
Proof.
  exists (fun _ => []), (Some (true, Some 115%positive, [111%Z], [Some 22%positive])),
         [OShutdown; ORun; OConnect; OWrite [4]; ORun], [],
         [EQ 0; EConnCb (-111); ESysShut (-107); EShutCb (-107); EQ 0; EReopen; EConnect (-22);
          EQ 0; EWrite 0 4; ERet 0 0; EQ 4; ECb 0 (-32) 0; EQ 0], O.
  split; [vm_compute; reflexivity | simpl; tauto].
Qed.

(* ------------------------------------------------------------------ *)
(* every connect request accepted with 0 completes exactly once        *)
(* ------------------------------------------------------------------ *)
Fixpoint nconn0 (t : list event) : nat :=      (* uv_tcp_connect / uv_pipe_connect calls accepted (0) *)
  match t with
  | [] => O
  | EConnect c :: t' => ((if Z.eqb c 0 then 1 else 0) + nconn0 t')%nat
  | _ :: t' => nconn0 t'
  end.

Fixpoint nconncb (t : list event) : nat :=     (* connect callbacks *)
  match t with
  | [] => O
  | EConnCb _ :: t' => S (nconncb t')
  | _ :: t' => nconncb t'
  end.

(* accepted (+ the one the script starts with) = called back + (1 if one is pending) *)
Definition Inv8 (k : nat) (s : st) : Prop :=
  (nconn0 (tr s) + k = nconncb (tr s) + (if connecting s then 1 else 0))%nat.

Lemma Inv8_prim k s s' : prim s s' -> Inv8 k s -> Inv8 k s'.
Proof.
  intros P I. unfold Inv8 in *.
  destruct P; unfold call0, finish_head, flush in *; cbn in *;
    try (destruct (r_freed r); cbn; lia); try lia.
  - destruct H as (_ & _ & _ & _ & _ & _ & _ & _ & _ & _ & E2). rewrite E2, H0. exact I.
  - rewrite H in I. lia.
  - destruct (Z.eqb_spec c 0); [contradiction | lia].
  - rewrite H in I. lia.
Qed.

Lemma Inv8_steps k s s' : steps s s' -> Inv8 k s -> Inv8 k s'.
Proof. induction 1; eauto using Inv8_prim. Qed.

Definition started (c : conn_cfg) : nat := match c with Some _ => 1%nat | None => O end.

Lemma Inv8_init blk o sa pw c ip : Inv8 (started c) (init blk o sa pw c ip).
Proof. unfold Inv8. init_cases c; reflexivity. Qed.

Lemma nconn0_app a b : nconn0 (a ++ b) = (nconn0 a + nconn0 b)%nat.
Proof. induction a as [|e a IH]; simpl; auto. destruct e; auto. rewrite IH. lia. Qed.
Lemma nconn0_rev t : nconn0 (rev t) = nconn0 t.
Proof. induction t as [|e t IH]; simpl; auto. rewrite nconn0_app, IH. destruct e; simpl; lia. Qed.
Lemma nconncb_app a b : nconncb (a ++ b) = (nconncb a + nconncb b)%nat.
Proof. induction a as [|e a IH]; simpl; auto. destruct e; auto. rewrite IH. lia. Qed.
Lemma nconncb_rev t : nconncb (rev t) = nconncb t.
Proof. induction t as [|e t IH]; simpl; auto. rewrite nconncb_app, IH. destruct e; simpl; lia. Qed.

(* C05_connect_exactly_once: at all times, for every script - connects started at top level, from a
   write callback, from a connect callback, with or without a shutdown pending -
   accepted connects = connect callbacks + (1 if one is pending); with [progress] the pending one
   always has a wake-up, and uv_close cancels it (its callback then runs from uv__stream_destroy) *)
Theorem connect_exactly_once beh blk o sa pw cfg ip ops :
  let s := exec beh (init blk o sa pw cfg ip) ops in
  (nconn0 (trace s) + started cfg = nconncb (trace s) + (if connecting s then 1 else 0))%nat /\
  (connecting s = true -> closing s = false -> armed s = true \/ fed s = true).
Proof.
  intros s. split.
  - destruct (exec_steps beh blk o sa pw cfg ip ops) as [S _]. fold s in S.
    unfold trace. rewrite nconn0_rev, nconncb_rev. apply (Inv8_steps _ _ _ S). apply Inv8_init.
  - intros Hc. apply (progress beh blk o sa pw cfg ip ops). right. exact Hc.
Qed.

(* ------------------------------------------------------------------ *)
(* finished requests keep a wake-up until their callbacks run          *)
(* ------------------------------------------------------------------ *)
(* a request in write_completed_queue has the watcher in the pending queue, or a connect is pending
   (whose completion hands the wake-up back - uv__io_feed in uv__stream_connect - or, when it
   fails, runs uv__write_callbacks itself; [Prog] gives the pending connect its wake-up) *)
Definition LB0 (s : st) : Prop :=
  closing s = true \/ cq s = [] \/ fed s = true \/ connecting s = true.

Lemma LB0_same s s' :
  closing s' = closing s -> cq s' = cq s -> fed s' = fed s -> connecting s' = connecting s -> LB0 s -> LB0 s'.
Proof. unfold LB0. intros -> -> -> ->. auto. Qed.

Lemma LB0_nil s : cq s = [] -> LB0 s.
Proof. intros H. right; left. exact H. Qed.

Lemma enq_lb (s0 s1 : st) :
  closing s1 = closing s0 -> cq s1 = cq s0 -> fed s1 = fed s0 -> connecting s1 = connecting s0 ->
  forall e : bool,
  let s2 := if connecting s1 then s1 else if e then uv_write_queue s1 else set_armed true s1 in
  LB0 s0 -> LB0 s2.
Proof.
  intros E1 E4 E5 E6 e. cbv zeta.
  destruct (connecting s1) eqn:Hc.
  - apply LB0_same; auto. congruence.
  - destruct e.
    + destruct (uv_write_queue_frame s1) as (A & _ & C & _).
      destruct (uv_write_queue_q s1) as (_ & _ & _ & Q4).
      intros [H|[H|[H|H]]].
      * left. rewrite A, E1. exact H.
      * destruct Q4 as [X|[X Y]]; [right; right; left; exact X | right; left; rewrite X, E4; exact H].
      * destruct Q4 as [X|[X Y]]; right; right; left; [exact X | rewrite Y, E5; exact H].
      * congruence.
    + apply LB0_same; cbn; auto. congruence.
Qed.

Lemma api_lb0 s o : o <> OConnect -> LB0 s -> LB0 (api s o).
Proof.
  intros Hne. destruct o; cbn [api].
  - unfold api_write.
    set (s0 := ev (EWrite (next_id s) (sumN bufs)) (set_next_id (S (next_id s)) s)).
    destruct (check_before_write s0); [apply LB0_same; auto|].
    set (s1 := set_wq _ _).
    intros H. apply (LB0_same _ _ eq_refl eq_refl eq_refl eq_refl
                       (enq_lb s s1 eq_refl eq_refl eq_refl eq_refl (wqs s0 =? 0) H)).
  - unfold api_try.
    set (s0 := ev (ETry (next_id s) (sumN bufs)) (set_next_id (S (next_id s)) s)).
    destruct (connecting s0 || cancelling s0 || negb (wqs s0 =? 0)); [apply LB0_same; auto|].
    destruct (check_before_write s0); [apply LB0_same; auto|].
    destruct (sys_write (oracle s0) (offered bufs)) as [res o']. destruct res; apply LB0_same; auto.
  - unfold api_shutdown.
    destruct (negb (writable s) || shut s || shutreq s || closing s || closed s); [apply LB0_same; auto|].
    cbn. destruct (connecting s) eqn:Hcn; [apply LB0_same; auto|].
    destruct (wq s); [|apply LB0_same; auto].
    intros _. right; right; left. reflexivity.
  - unfold api_close. destruct (closing s) eqn:Hc; [auto|]. intros _. left. reflexivity.
  - unfold api_write2.
    set (s0 := ev (EWrite2 (next_id s)) (ev (EWrite (next_id s) (sumN bufs)) (set_next_id (S (next_id s)) s))).
    destruct (check_before_write2 s0); [apply LB0_same; auto|].
    set (s1 := set_wq _ _).
    intros H. apply (LB0_same _ _ eq_refl eq_refl eq_refl eq_refl
                       (enq_lb s s1 eq_refl eq_refl eq_refl eq_refl (wqs s0 =? 0) H)).
  - apply LB0_same; auto.
  - unfold api_write_nomem. destruct (check_before_write s) eqn:Hc.
    + unfold api_write. change (check_before_write (ev (EWrite (next_id s) (sumN bufs)) (set_next_id (S (next_id s)) s)))
        with (check_before_write s). rewrite Hc. apply LB0_same; auto.
    + destruct (needs_alloc bufs); [apply LB0_same; auto|].
      unfold api_write.
      set (s0 := ev (EWrite (next_id s) (sumN bufs)) (set_next_id (S (next_id s)) s)).
      destruct (check_before_write s0); [apply LB0_same; auto|].
      set (s1 := set_wq _ _).
      intros H. apply (LB0_same _ _ eq_refl eq_refl eq_refl eq_refl
                         (enq_lb s s1 eq_refl eq_refl eq_refl eq_refl (wqs s0 =? 0) H)).
  - unfold api_write2_nomem. destruct (check_before_write2 s) eqn:Hc.
    + unfold api_write2.
      change (check_before_write2 (ev (EWrite2 (next_id s)) (ev (EWrite (next_id s) (sumN bufs)) (set_next_id (S (next_id s)) s))))
        with (check_before_write2 s). rewrite Hc. apply LB0_same; auto.
    + destruct (needs_alloc bufs); [apply LB0_same; auto|].
      unfold api_write2.
      set (s0 := ev (EWrite2 (next_id s)) (ev (EWrite (next_id s) (sumN bufs)) (set_next_id (S (next_id s)) s))).
      destruct (check_before_write2 s0); [apply LB0_same; auto|].
      set (s1 := set_wq _ _).
      intros H. apply (LB0_same _ _ eq_refl eq_refl eq_refl eq_refl
                         (enq_lb s s1 eq_refl eq_refl eq_refl eq_refl (wqs s0 =? 0) H)).
  - congruence.
  - auto.
  - unfold api_close_reset. destruct (closing s) eqn:Hc; [auto|].
    destruct (shutreq s); [apply LB0_same; auto|].
    unfold api_close. change (closing (ev (EReset 0%Z) s)) with (closing s). rewrite Hc.
    intros _. left. reflexivity.
Qed.

(* an accepted connect is pending afterwards: whatever waits in write_completed_queue waits with it *)
Lemma api_connect_lb s : LB0 s -> LB0 (api_connect s).
Proof.
  intros H. unfold api_connect.
  destruct (closing s || negb (fdopen s) || connected s); [exact H|].
  destruct (connecting s) eqn:Hcg.
  { destruct (is_tcp s); [apply (LB0_same s); auto | exact H]. }
  set (cres := match connres s with [] => None | c :: _ => c end).
  set (sA := set_connres (tl (connres s)) s).
  change (is_tcp sA) with (is_tcp s). change (writable sA) with (writable s). change (readable sA) with (readable s).
  assert (St : forall x, connecting x = true -> LB0 (orphan x)).
  { intros x Hx. right; right; right. destruct (orphan_cases x) as [-> | [l ->]]; exact Hx. }
  destruct (is_tcp s).
  - destruct (conn_pending_ok cres).
    + destruct (writable s); apply St; reflexivity.
    + destruct (match cres with Some 111%positive => true | _ => false end).
      * destruct (writable s); apply St; reflexivity.
      * destruct (writable s); apply (LB0_same s); auto.
  - destruct (conn_pending_ok cres).
    + destruct (negb (readable s) && negb (writable s)); apply St; reflexivity.
    + apply St; reflexivity.
Qed.

Lemma api_lb s o : LB0 s -> LB0 (api s o).
Proof.
  intros H. destruct o; try (apply api_lb0; [discriminate | exact H]).
  apply api_connect_lb; exact H.
Qed.

Lemma apis_lb os : forall s, LB0 s -> LB0 (apis s os).
Proof. induction os as [|o os IH]; intros s H; cbn [apis]; auto. apply IH, api_lb, H. Qed.

Section Delivery.
Variable beh : nat -> list op.

Lemma run_cb_lb s : LB0 s -> LB0 (run_cb beh s).
Proof. intros H. unfold run_cb. apply apis_lb. apply (LB0_same s); auto. Qed.

Lemma cb_loop_lb l : forall s, LB0 s -> LB0 (cb_loop beh l s).
Proof.
  induction l as [|r rest IH]; intros s H; cbn [cb_loop]; auto.
  cbv zeta. apply IH, run_cb_lb.
  apply (LB0_same s); auto; destruct (r_freed r); reflexivity.
Qed.

(* after uv__write_callbacks the completed queue is empty, or a callback finished new requests
   (which feeds the watcher), or started a connect - whatever the state before *)
Lemma write_callbacks_lb s : LB0 (write_callbacks beh s).
Proof.
  unfold write_callbacks. destruct (cq s) as [|r l] eqn:Hc.
  - apply LB0_nil. exact Hc.
  - apply cb_loop_lb. apply LB0_nil. reflexivity.
Qed.

Lemma drain_lb s : closing s = true \/ cq s = [] -> LB0 (drain beh s).
Proof.
  intros H.
  destruct (drain_shape beh s) as (s5 & E & A & _ & _ & _ & _ & _ & _ & Q & _).
  assert (L5 : LB0 s5).
  { destruct H as [H|H]; [left; rewrite A; exact H | apply LB0_nil; rewrite Q; exact H]. }
  destruct E as [E|E]; rewrite E; [exact L5 | apply run_cb_lb; exact L5].
Qed.

(* uv__stream_connect re-establishes the invariant on every path, whatever waited on entry *)
Lemma stream_connect_lb s : FC s -> connecting s = true -> LB0 (stream_connect beh s).
Proof.
  intros F Hc. unfold stream_connect.
  match goal with |- context [let '(error, s1) := ?X in _] => destruct X as [error s1] eqn:HX end.
  assert (E1 : closing s1 = closing s /\ fdopen s1 = fdopen s /\ connecting s1 = connecting s).
  { destruct (negb (derr s =? 0)%Z); [inversion HX; auto|]. destruct (sockerr s); inversion HX; auto. }
  destruct E1 as (Ec & Ef & Eco).
  destruct (error =? - EINPROGRESS)%Z; [right; right; right; rewrite Eco; exact Hc|].
  set (s2 := set_connecting false s1).
  match goal with |- context [run_cb beh (ev (EConnCb error) ?x)] => set (s3 := x) end.
  assert (F3 : FC (ev (EConnCb error) s3)).
  { assert (E3 : closing s3 = closing s1 /\ fdopen s3 = fdopen s1).
    { unfold s3. destruct (error <? 0)%Z; destruct ((_ : bool) || _); cbn; auto. }
    destruct E3 as [E3c E3f]. unfold FC. cbn. rewrite E3c, E3f, Ec, Ef. exact F. }
  assert (F4 : FC (run_cb beh (ev (EConnCb error) s3))) by (apply (proj2 (run_cb_kc beh _)); exact F3).
  set (s4 := run_cb beh (ev (EConnCb error) s3)) in *.
  destruct (fdopen s4) eqn:Hfd; cbn [negb]; [|left; apply F4; exact Hfd].
  destruct (error <? 0)%Z.
  - pose proof (write_callbacks_lb (flush s4)) as L5.
    set (s5 := write_callbacks beh (flush s4)) in *.
    destruct (shutreq s5 && negb (connecting s5) && fdopen s5); [|exact L5].
    destruct (wq s5); [|exact L5]. destruct (cq s5) eqn:Hcq5; [|exact L5].
    apply drain_lb. right. exact Hcq5.
  - destruct (cq s4) eqn:Hcq; [apply LB0_nil; exact Hcq | right; right; left; reflexivity].
Qed.

Lemma stream_io_lb s : FC s -> LB0 (stream_io beh s).
Proof.
  intros F.
  unfold stream_io. destruct (connecting s) eqn:Hc; [apply stream_connect_lb; auto|].
  pose proof (write_callbacks_lb (uv_write_queue s)) as L2.
  set (s2 := write_callbacks beh (uv_write_queue s)) in *.
  destruct (connecting s2) eqn:Hc2; [exact L2|].
  destruct (wq s2); [|exact L2]. destruct (cq s2) eqn:Hcq; [|exact L2].
  apply drain_lb. right. exact Hcq.
Qed.

Definition Q8 (s : st) : Prop := Prog s /\ LB0 s.

Lemma run_pending_q8 s : Q8 s -> Q8 (run_pending beh s).
Proof.
  intros (P & H). split; [apply run_pending_prog; exact P|].
  unfold run_pending. destruct (fed s); [|exact H].
  apply stream_io_lb. exact (proj1 P).
Qed.

Lemma pending_rounds_q8 k : forall s, Q8 s -> Q8 (pending_rounds beh k s).
Proof.
  induction k as [|k IH]; intros s H; cbn [pending_rounds]; auto.
  destruct (fed s); auto. apply IH, run_pending_q8, H.
Qed.

Lemma run_iter_q8 s : Q8 s -> Q8 (run_iter beh s).
Proof.
  intros H. split; [apply run_iter_prog; apply H|].
  unfold run_iter.
  pose proof (run_pending_q8 s H) as A.
  set (s1 := run_pending beh s) in *.
  set (s1' := set_pollw (tl (pollw s1)) s1).
  assert (H1 : Q8 s1').
  { destruct A as (P1 & L1). split; [apply (Prog_same s1); auto | apply (LB0_same s1); auto]. }
  match goal with |- context [if armed s1' && ?w then _ else _] => set (b := armed s1' && w) end.
  assert (H2 : Q8 (if b then stream_io beh s1' else s1')).
  { destruct b; auto. destruct H1 as (P1 & L1).
    split; [apply stream_io_prog, Prog_PreIO, P1 | apply stream_io_lb; exact (proj1 P1)]. }
  pose proof (pending_rounds_q8 8 _ H2) as H3.
  match goal with |- context [if closing ?x && _ then _ else _] => set (s3 := x) in * end.
  destruct (closing s3 && negb (closed s3)) eqn:Hc; [|apply H3].
  apply andb_prop in Hc. destruct Hc as [Hc _].
  left. apply destroy_closing. exact Hc.
Qed.

Lemma step_q8 s o : Q8 s -> Q8 (step beh s o).
Proof.
  intros H. split; [apply step_prog; apply H|].
  unfold step.
  set (s' := match o with ORun => run_iter beh s | _ => api s o end).
  assert (L' : LB0 s').
  { unfold s'. destruct o; try (apply api_lb; apply H). apply run_iter_q8. exact H. }
  apply (LB0_same s'); auto.
Qed.

Lemma exec_q8 os : forall s, Q8 s -> Q8 (exec beh s os).
Proof. induction os as [|o os IH]; intros s H; cbn [exec]; auto. apply IH, step_q8, H. Qed.

End Delivery.

Lemma Q8_init blk o sa pw c ip : Q8 (init blk o sa pw c ip).
Proof. split; [apply Prog_init|]. apply LB0_nil. init_cases c; reflexivity. Qed.

(* C05_cb_delivered: for every script - connects started at any time, also while finished requests
   wait for their callbacks - a request in write_completed_queue on a stream that is not closing has
   the watcher in the pending queue (the next loop iteration runs its callback), or a connect is
   pending, which has a wake-up of its own and whose completion delivers: on success
   uv__stream_connect feeds the watcher, on failure it runs uv__write_callbacks *)
Theorem cb_delivered beh blk o sa pw c ip ops :
  let s := exec beh (init blk o sa pw c ip) ops in
  cq s <> [] -> closing s = false ->
  fed s = true \/ (connecting s = true /\ (armed s = true \/ fed s = true)).
Proof.
  intros s Hq Hcl.
  destruct (exec_q8 beh ops _ (Q8_init blk o sa pw c ip)) as (P & H). fold s in P, H.
  destruct H as [H|[H|[H|H]]]; [congruence | contradiction | left; exact H | right].
  split; [exact H|]. destruct P as [_ [P|P]]; [congruence|]. rewrite H in P. apply P.
Qed.

(* the input on which the callback was lost before the repair of uv__stream_connect (known finding
   write_callback_lost_when_connect_started_before_delivery, now repaired): the callback runs in the
   iteration after the connect callback *)
Example cb_delivered_former_witness :
  trace (exec (fun _ => []) (init false [AErr 32] 0%Z []
                               (Some (true, Some 115%positive, [111%Z; 0%Z], [Some 103%positive; Some 115%positive])) false)
              [ORun; ORun; OWrite [1]; OConnect; OConnect; ORun; ORun; ORun]) =
    [EConnCb (-111); EQ 0; EQ 0; EWrite 0 1; ERet 0 0; EQ 1; EConnect (-103); EQ 1; EConnect 0; EOrphan [0%nat];
     EQ 1; EConnCb 0; ECb 0 (-32) 0; EQ 0; EQ 0; EQ 0].
Proof. vm_compute. reflexivity. Qed.

(* ------------------------------------------------------------------ *)
(* a refused uv_tcp_close_reset changes nothing                        *)
(* ------------------------------------------------------------------ *)
Theorem close_reset_refused_is_noop s :
  closing s = false -> shutreq s = true ->
  same_stream s (api_close_reset s) /\ tr (api_close_reset s) = EReset UV_EINVAL :: tr s /\
  next_id (api_close_reset s) = next_id s.
Proof.
  intros Hc Hs. unfold api_close_reset. rewrite Hc, Hs. unfold same_stream. repeat split.
Qed.

(* ... and an accepted one is uv_close *)
Theorem close_reset_accepted_is_close s :
  closing s = false -> shutreq s = false ->
  api_close_reset s = api_close (ev (EReset 0%Z) s).
Proof. intros Hc Hs. unfold api_close_reset. rewrite Hc, Hs. reflexivity. Qed.
