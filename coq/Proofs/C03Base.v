(* C03, part 0: vocabulary and the basic facts about API calls made from
   callbacks.  [cbs] extracts the (tag, handle) pairs of the callback events of
   a trace.  API calls never emit a callback event (no re-entrancy), so a
   [callback] emits exactly one. *)
From UV Require Import Lib.Base Model.Heap Model.Timer Model.LoopCore.

Local Open Scope Z_scope.

(* ---- callback events of a trace ---- *)
Fixpoint cbs (evs : list levent) : list (nat * nat) :=
  match evs with
  | [] => []
  | VCb t i _ :: r => (t, i) :: cbs r
  | _ :: r => cbs r
  end.

Definition cb_tags (evs : list levent) : list nat := map fst (cbs evs).
Definition cb_ids (evs : list levent) : list nat := map snd (cbs evs).

Lemma cbs_app a b : cbs (a ++ b) = cbs a ++ cbs b.
Proof.
  induction a as [|e a IH]; [reflexivity|].
  destruct e; simpl; rewrite IH; reflexivity.
Qed.

Lemma cb_tags_app a b : cb_tags (a ++ b) = cb_tags a ++ cb_tags b.
Proof. unfold cb_tags. rewrite cbs_app, map_app. reflexivity. Qed.

Lemma cb_ids_app a b : cb_ids (a ++ b) = cb_ids a ++ cb_ids b.
Proof. unfold cb_ids. rewrite cbs_app, map_app. reflexivity. Qed.

Lemma cb_tags_of_cbs evs : cbs evs = [] -> cb_tags evs = [].
Proof. unfold cb_tags. intros ->. reflexivity. Qed.

Lemma cb_ids_of_cbs evs : cbs evs = [] -> cb_ids evs = [].
Proof. unfold cb_ids. intros ->. reflexivity. Qed.

(* ---- record simplification ---- *)
Ltac lcbn :=
  cbn [ts clock hs nact nreq closing idle_q prepare_q check_q lq async_q alq
       wq_pending efd wq works stop_flag cbcount metrics io_dirty
       set_ts set_clock set_hs set_nact set_nreq set_closing set_idle set_prepare
       set_check set_lq set_async set_alq set_wqp set_efd set_wq set_works set_stop
       set_cbcount set_metrics set_dirty upd_h fst snd
       now counter hp tms ready].

Ltac lcbn_in H :=
  cbn [ts clock hs nact nreq closing idle_q prepare_q check_q lq async_q alq
       wq_pending efd wq works stop_flag cbcount metrics io_dirty
       set_ts set_clock set_hs set_nact set_nreq set_closing set_idle set_prepare
       set_check set_lq set_async set_alq set_wqp set_efd set_wq set_works set_stop
       set_cbcount set_metrics set_dirty upd_h fst snd
       now counter hp tms ready] in H.

(* break the [if]s / pair-[let]s of the head of a goal *)
Ltac break1 :=
  match goal with
  | |- context [let '(_, _) := ?x in _] => destruct x eqn:?
  | |- context [if ?c then _ else _] => destruct c eqn:?
  end.

Ltac break_if :=
  match goal with
  | |- context [if ?c then _ else _] => destruct c eqn:?
  end.

(* ---- API calls emit no callback event ---- *)
Lemma lapi_no_cb s o : cbs (snd (lapi s o)) = [].
Proof.
  destruct o; unfold lapi; cbv beta iota;
    try (destruct k); repeat break1; reflexivity.
Qed.

Lemma lapis_no_cb os : forall s, cbs (snd (lapis s os)) = [].
Proof.
  induction os as [|o os IH]; intros s; [reflexivity|].
  cbn [lapis]. pose proof (lapi_no_cb s o) as H1.
  destruct (lapi s o) as [s1 e1]. pose proof (IH s1) as H2.
  destruct (lapis s1 os) as [s2 e2]. cbn [snd] in *.
  rewrite cbs_app, H1, H2. reflexivity.
Qed.

(* the operations a callback performs *)
Definition cb_ops (s : lstate) (beh : nat -> list lop) : list lop :=
  let k := cbcount s in
  if Nat.eqb k cap then LStopLoop :: close_all (set_cbcount s (S k))
  else if Nat.ltb cap k then []
  else beh k.

Lemma callback_eq s beh tag i :
  callback s beh tag i =
  (fst (lapis (set_cbcount s (S (cbcount s))) (cb_ops s beh)),
   VCb tag i (now (ts s)) :: VAlive (loop_alive s) ::
   snd (lapis (set_cbcount s (S (cbcount s))) (cb_ops s beh))).
Proof.
  unfold callback, cb_ops.
  destruct (lapis _ _) as [s2 evs]. reflexivity.
Qed.

Lemma callback_cbs s beh tag i : cbs (snd (callback s beh tag i)) = [(tag, i)].
Proof.
  rewrite callback_eq. cbn [snd cbs]. rewrite lapis_no_cb. reflexivity.
Qed.

(* ---- subsequences ---- *)
Inductive subseq {A} : list A -> list A -> Prop :=
| ss_nil : subseq [] []
| ss_skip x l1 l2 : subseq l1 l2 -> subseq l1 (x :: l2)
| ss_keep x l1 l2 : subseq l1 l2 -> subseq (x :: l1) (x :: l2).

Lemma subseq_refl {A} (l : list A) : subseq l l.
Proof. induction l; [apply ss_nil | apply ss_keep; assumption]. Qed.

Lemma subseq_nil {A} (l : list A) : subseq [] l.
Proof. induction l; [apply ss_nil | apply ss_skip; assumption]. Qed.

Lemma subseq_trans {A} (a b c : list A) : subseq a b -> subseq b c -> subseq a c.
Proof.
  intros Hab Hbc. revert a Hab. induction Hbc as [|x l1 l2 H IH|x l1 l2 H IH]; intros a Hab.
  - exact Hab.
  - constructor. apply IH. exact Hab.
  - inversion Hab; subst.
    + apply ss_skip. apply IH. assumption.
    + apply ss_keep. apply IH. assumption.
Qed.

Lemma subseq_filter {A} (f : A -> bool) l : subseq (filter f l) l.
Proof.
  induction l as [|x l IH]; simpl; [constructor|].
  destruct (f x); constructor; exact IH.
Qed.

Lemma subseq_in {A} (a b : list A) x : subseq a b -> In x a -> In x b.
Proof.
  induction 1; simpl; intros Hin; auto.
  destruct Hin; auto.
Qed.

Lemma subseq_nodup {A} (a b : list A) : subseq a b -> NoDup b -> NoDup a.
Proof.
  induction 1; intros Hn; auto.
  - inversion Hn; auto.
  - inversion Hn; subst. constructor; auto.
    intros Hin. eapply subseq_in in Hin; eauto.
Qed.

Lemma subseq_length {A} (a b : list A) : subseq a b -> (length a <= length b)%nat.
Proof. induction 1; simpl; lia. Qed.

Lemma subseq_cons_l {A} (x : A) a b : subseq (x :: a) b -> subseq a b.
Proof.
  intros H. eapply subseq_trans; [|exact H]. constructor. apply subseq_refl.
Qed.
