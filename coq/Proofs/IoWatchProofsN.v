(* C14: callbacks only for started handles, only from batches fetched after the
   start, only with requested and reported events (invariant NI). *)
From UV Require Import Lib.Base Model.IoWatch Proofs.IoWatchProofs.
Local Open Scope Z_scope.

Record NI (s : state) : Prop := mkNI {
  n_pev : forall i, mand (h_pev (hget s i)) ERRHUP = m0;
  n_reg : forall fd i, reg s fd = Some i ->
            (i < length (hs s))%nat /\ h_fd (hget s i) = fd /\ mzero (h_pev (hget s i)) = false /\
            (h_kind (hget s i) = KPoll ->
               exists k, g_start (hget s i) = Some k /\ (k <= npw s)%nat /\
                         h_pev (hget s i) = g_req (hget s i));
  n_batch : forall f orig rep, In (f, orig, rep) (batch s) ->
            f = -1 \/ (f = orig /\ forall i, reg s f = Some i -> h_kind (hget s i) = KPoll ->
                                   exists k, g_start (hget s i) = Some k /\ (k < npw s)%nat);
  n_pend : forall i, In i (pend s) \/ In i (prun s) -> h_kind (hget s i) = KRaw
}.

(* the part of a handle NI looks at *)
Definition nview (h : handle) := (h_kind h, h_fd h, h_pev h, g_req h, g_start h).

Lemma NI_ext s s' :
  length (hs s') = length (hs s) -> (forall i, nview (hget s' i) = nview (hget s i)) ->
  reg s' = reg s -> batch s' = batch s -> npw s' = npw s -> pend s' = pend s -> prun s' = prun s ->
  NI s -> NI s'.
Proof.
  intros Hl Hv Hr Hb Hn Hp Hq [A B C D].
  assert (Hk : forall i, h_kind (hget s' i) = h_kind (hget s i)) by (intro i; pose proof (Hv i) as X; unfold nview in X; congruence).
  assert (Hf : forall i, h_fd (hget s' i) = h_fd (hget s i)) by (intro i; pose proof (Hv i) as X; unfold nview in X; congruence).
  assert (Hpe : forall i, h_pev (hget s' i) = h_pev (hget s i)) by (intro i; pose proof (Hv i) as X; unfold nview in X; congruence).
  assert (Hgr : forall i, g_req (hget s' i) = g_req (hget s i)) by (intro i; pose proof (Hv i) as X; unfold nview in X; congruence).
  assert (Hgs : forall i, g_start (hget s' i) = g_start (hget s i)) by (intro i; pose proof (Hv i) as X; unfold nview in X; congruence).
  constructor.
  - intro i. rewrite Hpe. apply A.
  - intros fd i H. rewrite Hr in H. rewrite Hl, Hf, Hpe, Hk, Hgs, Hgr, Hn. apply B; auto.
  - intros f orig rep H. rewrite Hb in H. destruct (C _ _ _ H) as [|[E F]]; auto. right. split; auto.
    intros i Hi. rewrite Hr in Hi. rewrite Hk, Hgs, Hn. apply F; auto.
  - intros i H. rewrite Hp, Hq in H. rewrite Hk. apply D; auto.
Qed.

Lemma NI_init r st : NI (sinit r st).
Proof.
  constructor; cbn; intros.
  - unfold hget. cbn. destruct i; reflexivity.
  - discriminate.
  - contradiction.
  - destruct H; contradiction.
Qed.

(* uv__io_stop: of all events, or of some events of a bare watcher *)
Lemma NI_io_stop s i ev : NI s -> (i < length (hs s))%nat ->
  h_kind (hget s i) = KRaw \/ ev = ALLEV ->
  NI (io_stop s i ev) /\ (ev = ALLEV -> forall fd, reg (io_stop s i ev) fd <> Some i).
Proof.
  intros [A B C D] Hl Hk.
  destruct (io_stop_same s i ev) as [[Sb [Sn [Sp [Sq _]]]] _].
  assert (Hself := io_stop_self s i ev Hl). cbv zeta in Hself.
  assert (Hreg := fun fd => io_stop_reg s i ev fd Hl). cbv zeta in Hreg.
  assert (Hview : forall j, j <> i -> hget (io_stop s i ev) j = hget s j) by (intros; apply io_stop_other; auto).
  assert (Hz : ev = ALLEV -> mzero (mdiff (h_pev (hget s i)) ev) = true).
  { intros ->. rewrite mdiff_all by apply A. reflexivity. }
  assert (Hki : h_kind (hget (io_stop s i ev) i) = h_kind (hget s i) /\
                g_start (hget (io_stop s i ev) i) = g_start (hget s i)).
  { rewrite Hself. destruct (mzero _); cbn; auto. }
  assert (Hnot : mzero (mdiff (h_pev (hget s i)) ev) = true -> forall fd, reg (io_stop s i ev) fd <> Some i).
  { intros Hm fd Hc. rewrite Hreg, Hm in Hc. cbn [andb] in Hc.
    destruct (Z.eqb_spec fd (h_fd (hget s i))) as [Heq|Hne]; cbn [andb] in Hc.
    - rewrite Heq in Hc. destruct (reg s (h_fd (hget s i))) as [j|] eqn:Hr; [|discriminate].
      destruct (Nat.eqb_spec i j); [discriminate|]. congruence.
    - apply B in Hc. destruct Hc as [_ [Hc _]]. congruence. }
  assert (Hsub : forall fd j, reg (io_stop s i ev) fd = Some j -> reg s fd = Some j).
  { intros fd j Hc. rewrite Hreg in Hc. destruct (_ && _ && _); [discriminate|auto]. }
  split; [|intros He; apply Hnot; auto].
  constructor.
  - intro j. destruct (Nat.eq_dec j i) as [->|Hn]; [|rewrite Hview by auto; apply A].
    rewrite Hself. destruct (mzero _); cbn; auto; apply mdiff_errhup; apply A.
  - intros fd j Hc. rewrite io_stop_length, Sn.
    destruct (Nat.eq_dec j i) as [->|Hn].
    + destruct (mzero (mdiff (h_pev (hget s i)) ev)) eqn:Hm.
      * exfalso. eapply Hnot; eauto.
      * destruct Hk as [Hk|Hk]; [|exfalso; specialize (Hz Hk); congruence].
        apply Hsub in Hc. destruct (B _ _ Hc) as [B1 [B2 _]].
        rewrite Hself. cbn. split_all; auto. congruence.
    + rewrite Hview by auto. apply B. apply Hsub; auto.
  - intros f orig rep Hin. rewrite Sb in Hin. destruct (C _ _ _ Hin) as [|[E F]]; auto. right. split; auto.
    intros j Hc. rewrite Sn. destruct (Nat.eq_dec j i) as [->|Hn].
    + destruct Hki as [K1 K2]. rewrite K1, K2. apply F. apply Hsub; auto.
    + rewrite Hview by auto. apply F. apply Hsub; auto.
  - intros j Hj. rewrite Sp, Sq in Hj. destruct (Nat.eq_dec j i) as [->|Hn].
    + destruct Hki as [K1 _]. rewrite K1. apply D; auto.
    + rewrite Hview by auto. apply D; auto.
Qed.

Lemma NI_hupd_view s i f : (forall h, nview (f h) = nview h) -> NI s -> NI (hupd s i f).
Proof.
  intros Hf. apply NI_ext; try reflexivity.
  - apply hupd_length.
  - intro j. rewrite hget_hupd. destruct (_ && _); auto.
Qed.

Lemma NI_hupd_unreg s i f :
  NI s -> (forall fd, reg s fd <> Some i) ->
  (forall h, h_kind (f h) = h_kind h) -> (forall h, h_pev (f h) = h_pev h) ->
  NI (hupd s i f).
Proof.
  intros [A B C D] Hu Hk Hp.
  assert (Hv : forall j, j <> i -> hget (hupd s i f) j = hget s j) by (intros; apply hget_hupd_other; auto).
  assert (Hki : forall j, h_kind (hget (hupd s i f) j) = h_kind (hget s j)).
  { intro j. rewrite hget_hupd. destruct (_ && _); auto. }
  assert (Hpi : forall j, h_pev (hget (hupd s i f) j) = h_pev (hget s j)).
  { intro j. rewrite hget_hupd. destruct (_ && _); auto. }
  constructor.
  - intro j. rewrite Hpi. apply A.
  - intros fd j Hc. cbn [reg hupd set_hs] in Hc. rewrite hupd_length.
    assert (j <> i) by (intros ->; eapply Hu; eauto). rewrite Hv by auto. apply B; auto.
  - intros ff orig rep Hin. cbn [batch hupd set_hs] in Hin. destruct (C _ _ _ Hin) as [|[E F]]; auto.
    right. split; auto. intros j Hc. cbn [reg hupd set_hs] in Hc.
    assert (j <> i) by (intros ->; eapply Hu; eauto). rewrite Hv by auto. apply F; auto.
  - intros j Hj. cbn [pend prun hupd set_hs] in Hj. rewrite Hki. apply D; auto.
Qed.

Lemma NI_invalidate s fd : NI s -> NI (invalidate s fd) /\
  (forall f orig rep, In (f, orig, rep) (batch (invalidate s fd)) -> f = -1 \/ f <> fd).
Proof.
  intros [A B C D].
  destruct (invalidate_same s fd) as [Sh [Sr [_ [Sb [Sn [Sp [Sq _]]]]]]]. cbv zeta in *.
  assert (Hg : forall j, hget (invalidate s fd) j = hget s j) by (intro j; unfold hget; rewrite Sh; auto).
  split.
  - constructor.
    + intro j. rewrite Hg. apply A.
    + intros f j Hc. rewrite Sr in Hc. rewrite Sh, Hg, Sn. apply B; auto.
    + intros f orig rep Hin. rewrite Sb in Hin. apply In_inv_batch in Hin. destruct Hin as [|[_ Hin]]; auto.
      destruct (C _ _ _ Hin) as [|[E F]]; auto. right. split; auto. intros j Hc. rewrite Sr in Hc.
      rewrite Hg, Sn. apply F; auto.
    + intros j Hj. rewrite Sp, Sq in Hj. rewrite Hg. apply D; auto.
  - intros f orig rep Hin. rewrite Sb in Hin. apply In_inv_batch in Hin. destruct Hin as [|[? _]]; auto.
Qed.

(* uv__poll_stop: the handle is out of the registry, its ghost says "stopped",
   and nothing is left in the batch for its descriptor number *)
Lemma NI_poll_stop s i : NI s -> (i < length (hs s))%nat ->
  let s' := poll_stop s i in
  NI s' /\ (forall fd, reg s' fd <> Some i) /\
  (forall f orig rep, In (f, orig, rep) (batch s') -> f = -1 \/ f <> h_fd (hget s i)) /\
  length (hs s') = length (hs s) /\ npw s' = npw s /\
  (forall fd, reg s' fd = Some i -> False) /\
  (forall fd j, reg s' fd = Some j -> reg s fd = Some j) /\
  h_pev (hget s' i) = m0 /\ h_ev (hget s' i) = m0 /\ h_fd (hget s' i) = h_fd (hget s i) /\
  h_kind (hget s' i) = h_kind (hget s i).
Proof.
  intros Hn Hl. cbv zeta. unfold poll_stop.
  destruct (NI_io_stop s i ALLEV Hn Hl (or_intror eq_refl)) as [H1 H2]. specialize (H2 eq_refl).
  set (s1 := io_stop s i ALLEV) in *.
  set (s2 := hupd s1 i (fun h => h_set_ghost (h_set_active h false) (g_req h) None)).
  assert (Hl1 : length (hs s1) = length (hs s)) by apply io_stop_length.
  assert (H3 : NI s2).
  { apply NI_hupd_unreg; auto. }
  assert (Hself : hget s1 i = h_set_ev (h_set_pev (hget s i) m0) m0).
  { unfold s1. rewrite io_stop_self by auto. cbv zeta. rewrite mdiff_all by apply Hn. reflexivity. }
  assert (Hs2 : hget s2 i = h_set_ghost (h_set_active (hget s1 i) false) (g_req (hget s1 i)) None).
  { unfold s2. rewrite hget_hupd_same by lia. reflexivity. }
  assert (Hfd : h_fd (hget s2 i) = h_fd (hget s i)) by (rewrite Hs2, Hself; reflexivity).
  destruct (NI_invalidate s2 (h_fd (hget s2 i)) H3) as [H4 H5].
  destruct (invalidate_same s2 (h_fd (hget s2 i))) as [Sh [Sr [_ [Sb [Sn _]]]]]. cbv zeta in *.
  assert (Hg : forall j, hget (invalidate s2 (h_fd (hget s2 i))) j = hget s2 j) by (intro j; unfold hget at 1; rewrite Sh; reflexivity).
  split_all.
  - exact H4.
  - intros fd. rewrite Sr. unfold s2. cbn [reg hupd set_hs]. apply H2.
  - intros f orig rep Hin. rewrite <- Hfd. eapply H5; eauto.
  - rewrite Sh. unfold s2. rewrite hupd_length. auto.
  - rewrite Sn. unfold s2. cbn [npw hupd set_hs]. unfold s1. apply (io_stop_same s i ALLEV).
  - intros fd Hc. rewrite Sr in Hc. unfold s2 in Hc. cbn [reg hupd set_hs] in Hc. eapply H2; eauto.
  - intros fd j Hc. rewrite Sr in Hc. unfold s2 in Hc. cbn [reg hupd set_hs] in Hc. unfold s1 in Hc.
    rewrite io_stop_reg in Hc by auto. cbv zeta in Hc. destruct (_ && _ && _); [discriminate|auto].
  - rewrite Hg, Hs2, Hself. reflexivity.
  - rewrite Hg, Hs2, Hself. reflexivity.
  - rewrite Hg. auto.
  - rewrite Hg, Hs2, Hself. reflexivity.
Qed.

Lemma meqb_sym a b : meqb a b = meqb b a.
Proof. mk_destruct a; mk_destruct b; unfold meqb; cbn. bools; reflexivity. Qed.

(* uv_poll_start *)
Lemma NI_poll_start s i m : NI s -> (i < length (hs s))%nat -> h_kind (hget s i) = KPoll ->
  NI (fst (poll_start s i m)).
Proof.
  intros Hn Hl Hk. unfold poll_start.
  destruct (match reg s (h_fd (hget s i)) with Some j => negb (Nat.eqb i j) | None => false end) eqn:Ho;
    [exact Hn|].
  destruct (NI_poll_stop s i Hn Hl) as [H1 [H2 [H3 [H4 [H5 [_ [H7 [H8 [H9 [H10 H11]]]]]]]]]].
  cbv zeta in *. set (s1 := poll_stop s i) in *.
  destruct (mzero m); [exact H1|]. cbn [fst].
  set (ev := mand m ALLEV).
  set (s2 := io_start s1 i ev).
  assert (Hl1 : (i < length (hs s1))%nat) by lia.
  assert (Hnone : reg s1 (h_fd (hget s1 i)) = None).
  { rewrite H10. destruct (reg s1 (h_fd (hget s i))) as [j|] eqn:Hr; auto. exfalso.
    pose proof (H7 _ _ Hr) as Hr0. rewrite Hr0 in Ho. destruct (Nat.eqb_spec i j); [|discriminate].
    subst j. eapply H2; eauto. }
  assert (Hself : hget s2 i = h_set_pev (hget s1 i) ev).
  { unfold s2. rewrite io_start_self by auto. rewrite H8, mor_m0_l. reflexivity. }
  assert (Hreg : forall fd, reg s2 fd = if meqb m0 ev then reg s1 fd
                                        else if fd =? h_fd (hget s i) then Some i else reg s1 fd).
  { intro fd. unfold s2. rewrite io_start_reg by auto. cbv zeta. rewrite H8, H9, mor_m0_l, Hnone, H10. reflexivity. }
  destruct (io_start_same s1 i ev) as [[Sb [Sn [Sp [Sq _]]]] _]. fold s2 in Sb, Sn, Sp, Sq.
  assert (Hoth : forall j, j <> i -> hget s2 j = hget s1 j) by (intros; apply io_start_other; auto).
  assert (Hl2 : length (hs s2) = length (hs s1)) by apply io_start_length.
  set (s3 := hupd s2 i (fun h => h_set_ghost (h_set_active h true) (mand m ALLEV) (Some (npw s2)))).
  assert (Hs3 : hget s3 i = h_set_ghost (h_set_active (hget s2 i) true) ev (Some (npw s2))).
  { unfold s3. rewrite hget_hupd_same by lia. reflexivity. }
  assert (Hoth3 : forall j, j <> i -> hget s3 j = hget s1 j).
  { intros. unfold s3. rewrite hget_hupd_other by auto. auto. }
  destruct H1 as [A B C D].
  constructor.
  - intro j. destruct (Nat.eq_dec j i) as [->|Hne]; [|rewrite Hoth3 by auto; apply A].
    rewrite Hs3, Hself. cbn. apply mand_allev_errhup.
  - intros fd j Hc. unfold s3 in Hc. cbn [reg hupd set_hs] in Hc. rewrite Hreg in Hc.
    unfold s3 at 1. rewrite hupd_length, Hl2. cbn [npw hupd set_hs s3]. rewrite Sn.
    destruct (meqb m0 ev) eqn:Hm.
    + assert (j <> i) by (intros ->; eapply H2; eauto). rewrite Hoth3 by auto. apply B; auto.
    + destruct (Z.eqb_spec fd (h_fd (hget s i))) as [Hfd|Hfd].
      * inversion Hc; subst j. rewrite Hs3, Hself. cbn. rewrite H10. split_all; auto.
        -- unfold mzero. rewrite meqb_sym. auto.
        -- intros _. exists (npw s1). split_all; auto.
      * assert (j <> i) by (intros ->; eapply H2; eauto). rewrite Hoth3 by auto. apply B; auto.
  - intros f orig rep Hin. unfold s3 in Hin. cbn [batch hupd set_hs] in Hin. rewrite Sb in Hin.
    destruct (H3 _ _ _ Hin) as [|Hf]; auto. destruct (C _ _ _ Hin) as [|[E F]]; auto. right. split; auto.
    intros j Hc. unfold s3 in Hc. cbn [reg hupd set_hs] in Hc. rewrite Hreg in Hc.
    cbn [npw hupd set_hs s3]. rewrite Sn.
    assert (Hc1 : reg s1 f = Some j).
    { destruct (meqb m0 ev); auto. destruct (Z.eqb_spec f (h_fd (hget s i))); [contradiction|auto]. }
    assert (j <> i) by (intros ->; eapply H2; eauto). rewrite Hoth3 by auto. apply F; auto.
  - intros j Hj. unfold s3 in Hj. cbn [pend prun hupd set_hs] in Hj. rewrite Sp, Sq in Hj.
    destruct (Nat.eq_dec j i) as [->|Hne]; [|rewrite Hoth3 by auto; apply D; auto].
    rewrite Hs3, Hself. cbn. apply D; auto.
Qed.

(* uv__io_start on a bare watcher *)
Lemma NI_io_start_raw s i ev : NI s -> (i < length (hs s))%nat -> h_kind (hget s i) = KRaw ->
  mzero ev = false -> mand ev ERRHUP = m0 -> NI (io_start s i ev).
Proof.
  intros [A B C D] Hl Hk Hz He.
  destruct (io_start_same s i ev) as [[Sb [Sn [Sp [Sq _]]]] _].
  assert (Hself := io_start_self s i ev Hl).
  assert (Hreg := fun fd => io_start_reg s i ev fd Hl). cbv zeta in Hreg.
  assert (Hoth : forall j, j <> i -> hget (io_start s i ev) j = hget s j) by (intros; apply io_start_other; auto).
  assert (Hcases : forall fd j, reg (io_start s i ev) fd = Some j -> reg s fd = Some j \/ (j = i /\ fd = h_fd (hget s i))).
  { intros fd j Hc. rewrite Hreg in Hc. destruct (meqb _ _); auto. destruct (reg s (h_fd (hget s i))); auto.
    destruct (Z.eqb_spec fd (h_fd (hget s i))); auto. inversion Hc; auto. }
  constructor.
  - intro j. destruct (Nat.eq_dec j i) as [->|Hne]; [|rewrite Hoth by auto; apply A].
    rewrite Hself. cbn. apply mor_errhup; auto.
  - intros fd j Hc. rewrite io_start_length, Sn. destruct (Nat.eq_dec j i) as [->|Hne].
    + rewrite Hself. cbn. rewrite Hk. split_all; auto.
      * destruct (Hcases _ _ Hc) as [Hc'|[_ ->]]; auto. apply B in Hc'. tauto.
      * apply mor_nonzero; auto.
      * discriminate.
    + rewrite Hoth by auto. destruct (Hcases _ _ Hc) as [Hc'|[? _]]; [|contradiction]. apply B; auto.
  - intros f orig rep Hin. rewrite Sb in Hin. destruct (C _ _ _ Hin) as [|[E F]]; auto. right. split; auto.
    intros j Hc. rewrite Sn. destruct (Nat.eq_dec j i) as [->|Hne].
    + rewrite Hself. cbn. rewrite Hk. discriminate.
    + rewrite Hoth by auto. destruct (Hcases _ _ Hc) as [Hc'|[? _]]; [|contradiction]. apply F; auto.
  - intros j Hj. rewrite Sp, Sq in Hj. destruct (Nat.eq_dec j i) as [->|Hne].
    + rewrite Hself. cbn. auto.
    + rewrite Hoth by auto. apply D; auto.
Qed.

(* a new handle *)
Lemma NI_append s x : NI s -> h_pev x = m0 -> NI (set_hs s (hs s ++ [x])).
Proof.
  intros [A B C D] Hx.
  assert (Hold : forall j, (j < length (hs s))%nat -> hget (set_hs s (hs s ++ [x])) j = hget s j).
  { intros j Hj. unfold hget. cbn. apply app_nth1; auto. }
  assert (Hk : forall j, h_kind (hget s j) = KRaw -> (j < length (hs s))%nat).
  { intros j Hj. destruct (Nat.lt_ge_cases j (length (hs s))); auto. rewrite hget_oob in Hj by auto. discriminate. }
  constructor.
  - intro j. unfold hget. cbn. destruct (Nat.lt_ge_cases j (length (hs s))) as [Hj|Hj].
    + rewrite app_nth1 by auto. apply A.
    + rewrite app_nth2 by auto. destruct (j - length (hs s))%nat as [|[|n]]; cbn; try rewrite Hx; reflexivity.
  - intros fd j Hc. cbn [reg set_hs] in Hc. destruct (B _ _ Hc) as [B1 B2]. rewrite Hold by auto.
    cbn [hs set_hs npw]. rewrite app_length. cbn. split; [lia|auto].
  - intros f orig rep Hin. cbn [batch set_hs] in Hin. destruct (C _ _ _ Hin) as [|[E F]]; auto. right. split; auto.
    intros j Hc. cbn [reg set_hs] in Hc. destruct (B _ _ Hc) as [B1 _]. rewrite Hold by auto. apply F; auto.
  - intros j Hj. cbn [pend prun set_hs] in Hj. pose proof (D _ Hj) as Dk. rewrite Hold; auto.
Qed.
