(* C14: callbacks only for started handles, only from batches fetched after the
   start, only with requested and reported events (invariant NI). *)
From UV Require Import Lib.Base Model.IoWatch Proofs.IoWatchProofs.
Local Open Scope Z_scope.

Record NI (s : state) : Prop := mkNI {
  n_pev : forall i, mand (h_pev (hget s i)) ERRHUP = m0;
  n_reg : forall fd i, reg s fd = Some i ->
            (i < length (hs s))%nat /\ h_fd (hget s i) = fd /\ mzero (h_pev (hget s i)) = false /\
            (h_kind (hget s i) = KPoll ->
               exists k, g_start (hget s i) = Some k /\ (k <= npw s)%nat /\
                         h_pev (hget s i) = g_req (hget s i));
  n_batch : forall f orig rep, In (f, orig, rep) (batch s) ->
            f = -1 \/ (f = orig /\ forall i, reg s f = Some i -> h_kind (hget s i) = KPoll ->
                                   exists k, g_start (hget s i) = Some k /\ (k < npw s)%nat);
  n_pend : forall i, In i (pend s) \/ In i (prun s) -> h_kind (hget s i) = KRaw
}.

(* the part of a handle NI looks at *)
Definition nview (h : handle) := (h_kind h, h_fd h, h_pev h, g_req h, g_start h).

Lemma NI_ext s s' :
  length (hs s') = length (hs s) -> (forall i, nview (hget s' i) = nview (hget s i)) ->
  reg s' = reg s -> batch s' = batch s -> npw s' = npw s -> pend s' = pend s -> prun s' = prun s ->
  NI s -> NI s'.
Proof.
  intros Hl Hv Hr Hb Hn Hp Hq [A B C D].
  assert (Hk : forall i, h_kind (hget s' i) = h_kind (hget s i)) by (intro i; pose proof (Hv i) as X; unfold nview in X; congruence).
  assert (Hf : forall i, h_fd (hget s' i) = h_fd (hget s i)) by (intro i; pose proof (Hv i) as X; unfold nview in X; congruence).
  assert (Hpe : forall i, h_pev (hget s' i) = h_pev (hget s i)) by (intro i; pose proof (Hv i) as X; unfold nview in X; congruence).
  assert (Hgr : forall i, g_req (hget s' i) = g_req (hget s i)) by (intro i; pose proof (Hv i) as X; unfold nview in X; congruence).
  assert (Hgs : forall i, g_start (hget s' i) = g_start (hget s i)) by (intro i; pose proof (Hv i) as X; unfold nview in X; congruence).
  constructor.
  - intro i. rewrite Hpe. apply A.
  - intros fd i H. rewrite Hr in H. rewrite Hl, Hf, Hpe, Hk, Hgs, Hgr, Hn. apply B; auto.
  - intros f orig rep H. rewrite Hb in H. destruct (C _ _ _ H) as [|[E F]]; auto. right. split; auto.
    intros i Hi. rewrite Hr in Hi. rewrite Hk, Hgs, Hn. apply F; auto.
  - intros i H. rewrite Hp, Hq in H. rewrite Hk. apply D; auto.
Qed.

Lemma NI_init r st : NI (sinit r st).
Proof.
  constructor; cbn; intros.
  - unfold hget. cbn. destruct i; reflexivity.
  - discriminate.
  - contradiction.
  - destruct H; contradiction.
Qed.

(* uv__io_stop: of all events, or of some events of a bare watcher *)
Lemma NI_io_stop s i ev : NI s -> (i < length (hs s))%nat ->
  h_kind (hget s i) = KRaw \/ ev = ALLEV ->
  NI (io_stop s i ev) /\ (ev = ALLEV -> forall fd, reg (io_stop s i ev) fd <> Some i).
Proof.
  intros [A B C D] Hl Hk.
  destruct (io_stop_same s i ev) as [[Sb [Sn [Sp [Sq _]]]] _].
  assert (Hself := io_stop_self s i ev Hl). cbv zeta in Hself.
  assert (Hreg := fun fd => io_stop_reg s i ev fd Hl). cbv zeta in Hreg.
  assert (Hview : forall j, j <> i -> hget (io_stop s i ev) j = hget s j) by (intros; apply io_stop_other; auto).
  assert (Hz : ev = ALLEV -> mzero (mdiff (h_pev (hget s i)) ev) = true).
  { intros ->. rewrite mdiff_all by apply A. reflexivity. }
  assert (Hki : h_kind (hget (io_stop s i ev) i) = h_kind (hget s i) /\
                g_start (hget (io_stop s i ev) i) = g_start (hget s i)).
  { rewrite Hself. destruct (mzero _); cbn; auto. }
  assert (Hnot : mzero (mdiff (h_pev (hget s i)) ev) = true -> forall fd, reg (io_stop s i ev) fd <> Some i).
  { intros Hm fd Hc. rewrite Hreg, Hm in Hc. cbn [andb] in Hc.
    destruct (Z.eqb_spec fd (h_fd (hget s i))) as [Heq|Hne]; cbn [andb] in Hc.
    - rewrite Heq in Hc. destruct (reg s (h_fd (hget s i))) as [j|] eqn:Hr; [|discriminate].
      destruct (Nat.eqb_spec i j); [discriminate|]. congruence.
    - apply B in Hc. destruct Hc as [_ [Hc _]]. congruence. }
  assert (Hsub : forall fd j, reg (io_stop s i ev) fd = Some j -> reg s fd = Some j).
  { intros fd j Hc. rewrite Hreg in Hc. destruct (_ && _ && _); [discriminate|auto]. }
  split; [|intros He; apply Hnot; auto].
  constructor.
  - intro j. destruct (Nat.eq_dec j i) as [->|Hn]; [|rewrite Hview by auto; apply A].
    rewrite Hself. destruct (mzero _); cbn; auto; apply mdiff_errhup; apply A.
  - intros fd j Hc. rewrite io_stop_length, Sn.
    destruct (Nat.eq_dec j i) as [->|Hn].
    + destruct (mzero (mdiff (h_pev (hget s i)) ev)) eqn:Hm.
      * exfalso. eapply Hnot; eauto.
      * destruct Hk as [Hk|Hk]; [|exfalso; specialize (Hz Hk); congruence].
        apply Hsub in Hc. destruct (B _ _ Hc) as [B1 [B2 _]].
        rewrite Hself. cbn. split_all; auto. congruence.
    + rewrite Hview by auto. apply B. apply Hsub; auto.
  - intros f orig rep Hin. rewrite Sb in Hin. destruct (C _ _ _ Hin) as [|[E F]]; auto. right. split; auto.
    intros j Hc. rewrite Sn. destruct (Nat.eq_dec j i) as [->|Hn].
    + destruct Hki as [K1 K2]. rewrite K1, K2. apply F. apply Hsub; auto.
    + rewrite Hview by auto. apply F. apply Hsub; auto.
  - intros j Hj. rewrite Sp, Sq in Hj. destruct (Nat.eq_dec j i) as [->|Hn].
    + destruct Hki as [K1 _]. rewrite K1. apply D; auto.
    + rewrite Hview by auto. apply D; auto.
Qed.

Lemma NI_hupd_view s i f : (forall h, nview (f h) = nview h) -> NI s -> NI (hupd s i f).
Proof.
  intros Hf. apply NI_ext; try reflexivity.
  - apply hupd_length.
  - intro j. rewrite hget_hupd. destruct (_ && _); auto.
Qed.

Lemma NI_hupd_unreg s i f :
  NI s -> (forall fd, reg s fd <> Some i) ->
  (forall h, h_kind (f h) = h_kind h) -> (forall h, h_pev (f h) = h_pev h) ->
  NI (hupd s i f).
Proof.
  intros [A B C D] Hu Hk Hp.
  assert (Hv : forall j, j <> i -> hget (hupd s i f) j = hget s j) by (intros; apply hget_hupd_other; auto).
  assert (Hki : forall j, h_kind (hget (hupd s i f) j) = h_kind (hget s j)).
  { intro j. rewrite hget_hupd. destruct (_ && _); auto. }
  assert (Hpi : forall j, h_pev (hget (hupd s i f) j) = h_pev (hget s j)).
  { intro j. rewrite hget_hupd. destruct (_ && _); auto. }
  constructor.
  - intro j. rewrite Hpi. apply A.
  - intros fd j Hc. cbn [reg hupd set_hs] in Hc. rewrite hupd_length.
    assert (j <> i) by (intros ->; eapply Hu; eauto). rewrite Hv by auto. apply B; auto.
  - intros ff orig rep Hin. cbn [batch hupd set_hs] in Hin. destruct (C _ _ _ Hin) as [|[E F]]; auto.
    right. split; auto. intros j Hc. cbn [reg hupd set_hs] in Hc.
    assert (j <> i) by (intros ->; eapply Hu; eauto). rewrite Hv by auto. apply F; auto.
  - intros j Hj. cbn [pend prun hupd set_hs] in Hj. rewrite Hki. apply D; auto.
Qed.

Lemma NI_invalidate s fd : NI s -> NI (invalidate s fd) /\
  (forall f orig rep, In (f, orig, rep) (batch (invalidate s fd)) -> f = -1 \/ f <> fd).
Proof.
  intros [A B C D].
  destruct (invalidate_same s fd) as [Sh [Sr [_ [Sb [Sn [Sp [Sq _]]]]]]]. cbv zeta in *.
  assert (Hg : forall j, hget (invalidate s fd) j = hget s j) by (intro j; unfold hget; rewrite Sh; auto).
  split.
  - constructor.
    + intro j. rewrite Hg. apply A.
    + intros f j Hc. rewrite Sr in Hc. rewrite Sh, Hg, Sn. apply B; auto.
    + intros f orig rep Hin. rewrite Sb in Hin. apply In_inv_batch in Hin. destruct Hin as [|[_ Hin]]; auto.
      destruct (C _ _ _ Hin) as [|[E F]]; auto. right. split; auto. intros j Hc. rewrite Sr in Hc.
      rewrite Hg, Sn. apply F; auto.
    + intros j Hj. rewrite Sp, Sq in Hj. rewrite Hg. apply D; auto.
  - intros f orig rep Hin. rewrite Sb in Hin. apply In_inv_batch in Hin. destruct Hin as [|[? _]]; auto.
Qed.

Lemma NI_iuw s fd : NI s -> NI (invalidate_unless_watched s fd) /\
  (reg s fd = None ->
   forall f orig rep, In (f, orig, rep) (batch (invalidate_unless_watched s fd)) -> f = -1 \/ f <> fd).
Proof.
  intros Hn. destruct (iuw_cases s fd) as [[Hr ->]|[Hr ->]].
  - split; auto; intros; congruence.
  - destruct (NI_invalidate s fd Hn). split; auto.
Qed.

(* uv__poll_stop: the handle is out of the registry, its ghost says "stopped", and -
   unless another watcher is registered under its descriptor number - nothing is left
   in the batch for that number *)
Lemma NI_poll_stop s i : NI s -> (i < length (hs s))%nat ->
  let s' := poll_stop s i in
  NI s' /\ (forall fd, reg s' fd <> Some i) /\
  (reg s' (h_fd (hget s i)) = None ->
   forall f orig rep, In (f, orig, rep) (batch s') -> f = -1 \/ f <> h_fd (hget s i)) /\
  length (hs s') = length (hs s) /\ npw s' = npw s /\
  (forall fd, reg s' fd = Some i -> False) /\
  (forall fd j, reg s' fd = Some j -> reg s fd = Some j) /\
  h_pev (hget s' i) = m0 /\ h_ev (hget s' i) = m0 /\ h_fd (hget s' i) = h_fd (hget s i) /\
  h_kind (hget s' i) = h_kind (hget s i) /\ g_start (hget s' i) = None.
Proof.
  intros Hn Hl. cbv zeta. unfold poll_stop.
  destruct (NI_io_stop s i ALLEV Hn Hl (or_intror eq_refl)) as [H1 H2]. specialize (H2 eq_refl).
  set (s1 := io_stop s i ALLEV) in *.
  set (s2 := hupd s1 i (fun h => h_set_ghost (h_set_active h false) (g_req h) None)).
  assert (Hl1 : length (hs s1) = length (hs s)) by apply io_stop_length.
  assert (H3 : NI s2).
  { apply NI_hupd_unreg; auto. }
  assert (Hself : hget s1 i = h_set_ev (h_set_pev (hget s i) m0) m0).
  { unfold s1. rewrite io_stop_self by auto. cbv zeta. rewrite mdiff_all by apply Hn. reflexivity. }
  assert (Hs2 : hget s2 i = h_set_ghost (h_set_active (hget s1 i) false) (g_req (hget s1 i)) None).
  { unfold s2. rewrite hget_hupd_same by lia. reflexivity. }
  assert (Hfd : h_fd (hget s2 i) = h_fd (hget s i)) by (rewrite Hs2, Hself; reflexivity).
  destruct (NI_iuw s2 (h_fd (hget s2 i)) H3) as [H4 H5].
  destruct (iuw_same s2 (h_fd (hget s2 i))) as [Sh [Sr [_ [Sn _]]]]. cbv zeta in *.
  assert (Hg : forall j, hget (invalidate_unless_watched s2 (h_fd (hget s2 i))) j = hget s2 j)
    by (intro j; unfold hget at 1; rewrite Sh; reflexivity).
  split_all.
  - exact H4.
  - intros fd. rewrite Sr. unfold s2. cbn [reg hupd set_hs]. apply H2.
  - intros Hnone f orig rep Hin. rewrite <- Hfd. eapply H5; eauto. rewrite Sr, <- Hfd in Hnone. exact Hnone.
  - rewrite Sh. unfold s2. rewrite hupd_length. auto.
  - rewrite Sn. unfold s2. cbn [npw hupd set_hs]. unfold s1. apply (io_stop_same s i ALLEV).
  - intros fd Hc. rewrite Sr in Hc. unfold s2 in Hc. cbn [reg hupd set_hs] in Hc. eapply H2; eauto.
  - intros fd j Hc. rewrite Sr in Hc. unfold s2 in Hc. cbn [reg hupd set_hs] in Hc. unfold s1 in Hc.
    rewrite io_stop_reg in Hc by auto. cbv zeta in Hc. destruct (_ && _ && _); [discriminate|auto].
  - rewrite Hg, Hs2, Hself. reflexivity.
  - rewrite Hg, Hs2, Hself. reflexivity.
  - rewrite Hg. auto.
  - rewrite Hg, Hs2, Hself. reflexivity.
  - rewrite Hg, Hs2. reflexivity.
Qed.

Lemma meqb_sym a b : meqb a b = meqb b a.
Proof. mk_destruct a; mk_destruct b; unfold meqb; cbn. bools; reflexivity. Qed.

(* uv_poll_start *)
Lemma NI_poll_start s i m : NI s -> (i < length (hs s))%nat -> h_kind (hget s i) = KPoll ->
  NI (fst (poll_start s i m)).
Proof.
  intros Hn Hl Hk. unfold poll_start.
  destruct (match reg s (h_fd (hget s i)) with Some j => negb (Nat.eqb i j) | None => false end) eqn:Ho;
    [exact Hn|].
  destruct (NI_poll_stop s i Hn Hl) as [H1 [H2 [H3 [H4 [H5 [_ [H7 [H8 [H9 [H10 [H11 _]]]]]]]]]]].
  cbv zeta in *. set (s1 := poll_stop s i) in *.
  destruct (mzero m); [exact H1|]. cbn [fst].
  set (ev := mand m ALLEV).
  set (s2 := io_start s1 i ev).
  assert (Hl1 : (i < length (hs s1))%nat) by lia.
  assert (Hnone : reg s1 (h_fd (hget s1 i)) = None).
  { rewrite H10. destruct (reg s1 (h_fd (hget s i))) as [j|] eqn:Hr; auto. exfalso.
    pose proof (H7 _ _ Hr) as Hr0. rewrite Hr0 in Ho. destruct (Nat.eqb_spec i j); [|discriminate].
    subst j. eapply H2; eauto. }
  pose proof Hnone as Hnone'. rewrite H10 in Hnone'. specialize (H3 Hnone').
  assert (Hself : hget s2 i = h_set_pev (hget s1 i) ev).
  { unfold s2. rewrite io_start_self by auto. rewrite H8, mor_m0_l. reflexivity. }
  assert (Hreg : forall fd, reg s2 fd = if meqb m0 ev then reg s1 fd
                                        else if fd =? h_fd (hget s i) then Some i else reg s1 fd).
  { intro fd. unfold s2. rewrite io_start_reg by auto. cbv zeta. rewrite H8, H9, mor_m0_l, Hnone, H10. reflexivity. }
  destruct (io_start_same s1 i ev) as [[Sb [Sn [Sp [Sq _]]]] _]. fold s2 in Sb, Sn, Sp, Sq.
  assert (Hoth : forall j, j <> i -> hget s2 j = hget s1 j) by (intros; apply io_start_other; auto).
  assert (Hl2 : length (hs s2) = length (hs s1)) by apply io_start_length.
  set (s3 := hupd s2 i (fun h => h_set_ghost (h_set_active h true) ev (Some (npw s2)))).
  assert (Hs3 : hget s3 i = h_set_ghost (h_set_active (hget s2 i) true) ev (Some (npw s2))).
  { unfold s3. rewrite hget_hupd_same by lia. reflexivity. }
  assert (Hoth3 : forall j, j <> i -> hget s3 j = hget s1 j).
  { intros. unfold s3. rewrite hget_hupd_other by auto. auto. }
  destruct H1 as [A B C D].
  constructor.
  - intro j. destruct (Nat.eq_dec j i) as [->|Hne]; [|rewrite Hoth3 by auto; apply A].
    rewrite Hs3, Hself. cbn. apply mand_allev_errhup.
  - intros fd j Hc. unfold s3 in Hc. cbn [reg hupd set_hs] in Hc. rewrite Hreg in Hc.
    unfold s3 at 1. rewrite hupd_length, Hl2. cbn [npw hupd set_hs s3]. rewrite Sn.
    destruct (meqb m0 ev) eqn:Hm.
    + assert (j <> i) by (intros ->; eapply H2; eauto). rewrite Hoth3 by auto. apply B; auto.
    + destruct (Z.eqb_spec fd (h_fd (hget s i))) as [Hfd|Hfd].
      * inversion Hc; subst j. rewrite Hs3, Hself. cbn. rewrite H10. split_all; auto;
          try (unfold mzero; rewrite meqb_sym; auto; fail).
        intros _. exists (npw s1). rewrite Sn. split_all; auto.
      * assert (j <> i) by (intros ->; eapply H2; eauto). rewrite Hoth3 by auto. apply B; auto.
  - intros f orig rep Hin. unfold s3 in Hin. cbn [batch hupd set_hs] in Hin. rewrite Sb in Hin.
    destruct (H3 _ _ _ Hin) as [|Hf]; auto. destruct (C _ _ _ Hin) as [|[E F]]; auto. right. split; auto.
    intros j Hc. unfold s3 in Hc. cbn [reg hupd set_hs] in Hc. rewrite Hreg in Hc.
    cbn [npw hupd set_hs s3]. rewrite Sn.
    assert (Hc1 : reg s1 f = Some j).
    { destruct (meqb m0 ev); auto. destruct (Z.eqb_spec f (h_fd (hget s i))); [contradiction|auto]. }
    assert (j <> i) by (intros ->; eapply H2; eauto). rewrite Hoth3 by auto. apply F; auto.
  - intros j Hj. unfold s3 in Hj. cbn [pend prun hupd set_hs] in Hj. rewrite Sp, Sq in Hj.
    destruct (Nat.eq_dec j i) as [->|Hne]; [|rewrite Hoth3 by auto; apply D; auto].
    rewrite Hs3, Hself. cbn. apply D; auto.
Qed.

(* uv__io_start on a bare watcher *)
Lemma NI_io_start_raw s i ev : NI s -> (i < length (hs s))%nat -> h_kind (hget s i) = KRaw ->
  mzero ev = false -> mand ev ERRHUP = m0 -> NI (io_start s i ev).
Proof.
  intros [A B C D] Hl Hk Hz He.
  destruct (io_start_same s i ev) as [[Sb [Sn [Sp [Sq _]]]] _].
  assert (Hself := io_start_self s i ev Hl).
  assert (Hreg := fun fd => io_start_reg s i ev fd Hl). cbv zeta in Hreg.
  assert (Hoth : forall j, j <> i -> hget (io_start s i ev) j = hget s j) by (intros; apply io_start_other; auto).
  assert (Hcases : forall fd j, reg (io_start s i ev) fd = Some j -> reg s fd = Some j \/ (j = i /\ fd = h_fd (hget s i))).
  { intros fd j Hc. rewrite Hreg in Hc. destruct (meqb _ _); auto. destruct (reg s (h_fd (hget s i))); auto.
    destruct (Z.eqb_spec fd (h_fd (hget s i))); auto. inversion Hc; subst; right; auto. }
  constructor.
  - intro j. destruct (Nat.eq_dec j i) as [->|Hne]; [|rewrite Hoth by auto; apply A].
    rewrite Hself. cbn. apply mor_errhup; auto.
  - intros fd j Hc. rewrite io_start_length, Sn. destruct (Nat.eq_dec j i) as [->|Hne].
    + rewrite Hself. cbn. rewrite Hk. split_all; auto.
      * destruct (Hcases _ _ Hc) as [Hc'|[_ ->]]; auto. apply B in Hc'. tauto.
      * apply mor_nonzero; auto.
      * discriminate.
    + rewrite Hoth by auto. destruct (Hcases _ _ Hc) as [Hc'|[? _]]; [|contradiction]. apply B; auto.
  - intros f orig rep Hin. rewrite Sb in Hin. destruct (C _ _ _ Hin) as [|[E F]]; auto. right. split; auto.
    intros j Hc. rewrite Sn. destruct (Nat.eq_dec j i) as [->|Hne].
    + rewrite Hself. cbn. rewrite Hk. discriminate.
    + rewrite Hoth by auto. destruct (Hcases _ _ Hc) as [Hc'|[? _]]; [|contradiction]. apply F; auto.
  - intros j Hj. rewrite Sp, Sq in Hj. destruct (Nat.eq_dec j i) as [->|Hne].
    + rewrite Hself. cbn. auto.
    + rewrite Hoth by auto. apply D; auto.
Qed.

(* a new handle *)
Lemma NI_append s x : NI s -> h_pev x = m0 -> NI (set_hs s (hs s ++ [x])).
Proof.
  intros [A B C D] Hx.
  assert (Hold : forall j, (j < length (hs s))%nat -> hget (set_hs s (hs s ++ [x])) j = hget s j).
  { intros j Hj. unfold hget. cbn. apply app_nth1; auto. }
  assert (Hk : forall j, h_kind (hget s j) = KRaw -> (j < length (hs s))%nat).
  { intros j Hj. destruct (Nat.lt_ge_cases j (length (hs s))); auto. rewrite hget_oob in Hj by auto. discriminate. }
  constructor.
  - intro j. unfold hget. cbn. destruct (Nat.lt_ge_cases j (length (hs s))) as [Hj|Hj].
    + rewrite app_nth1 by auto. apply A.
    + rewrite app_nth2 by auto. destruct (j - length (hs s))%nat as [|[|n]]; cbn; try rewrite Hx; reflexivity.
  - intros fd j Hc. cbn [reg set_hs] in Hc. destruct (B _ _ Hc) as [B1 B2]. rewrite Hold by auto.
    cbn [hs set_hs npw]. rewrite app_length. cbn. split; [lia|auto].
  - intros f orig rep Hin. cbn [batch set_hs] in Hin. destruct (C _ _ _ Hin) as [|[E F]]; auto. right. split; auto.
    intros j Hc. cbn [reg set_hs] in Hc. destruct (B _ _ Hc) as [B1 _]. rewrite Hold by auto. apply F; auto.
  - intros j Hj. cbn [pend prun set_hs] in Hj. pose proof (D _ Hj) as Dk. rewrite Hold; auto.
Qed.

Lemma NI_same s s' :
  hs s' = hs s -> reg s' = reg s -> batch s' = batch s -> npw s' = npw s -> pend s' = pend s ->
  prun s' = prun s -> NI s -> NI s'.
Proof.
  intros Hh Hr Hb Hn Hp Hq. apply NI_ext; auto.
  - rewrite Hh; auto.
  - intro i. unfold hget. rewrite Hh. reflexivity.
Qed.

Lemma NI_queues s p q : NI s -> (forall j, In j p -> In j (pend s) \/ In j (prun s)) ->
  (forall j, In j q -> In j (pend s) \/ In j (prun s)) -> NI (set_prun (set_pend s p) q).
Proof.
  intros [A B C D] Hp Hq. constructor; auto.
  intros j [Hj|Hj]; cbn in Hj; apply D; auto.
Qed.

Lemma NI_batch_sub s b : NI s -> (forall e, In e b -> In e (batch s)) -> NI (set_batch s b).
Proof. intros [A B C D] Hb. constructor; auto. intros f orig rep Hin. cbn in Hin. apply (C f orig rep). auto. Qed.

Lemma io_check_fd_same s fd :
  let s' := fst (io_check_fd s fd) in
  hs s' = hs s /\ reg s' = reg s /\ wq s' = wq s /\ batch s' = batch s /\ npw s' = npw s /\
  pend s' = pend s /\ prun s' = prun s /\ sq s' = sq s /\ ring s' = ring s /\ strict s' = strict s /\
  fdt s' = fdt s /\ pairs s' = pairs s.
Proof.
  unfold io_check_fd.
  pose proof (epoll_ctl_same s CAdd fd ONLY_IN) as X. cbv zeta in X.
  destruct (epoll_ctl s CAdd fd ONLY_IN) as [s1 e1]. cbn [fst] in X.
  destruct X as [X1 [X2 [X3 [[X4 [X5 [X6 [X7 [X8 [X9 [X10 X11]]]]]]] [X12 X13]]]]].
  destruct (_ || _).
  - pose proof (epoll_ctl_same s1 CDel fd ONLY_IN) as Y. cbv zeta in Y.
    destruct (epoll_ctl s1 CDel fd ONLY_IN) as [s2 e2]. cbn [fst] in Y.
    destruct Y as [Y1 [Y2 [Y3 [[Y4 [Y5 [Y6 [Y7 [Y8 [Y9 [Y10 Y11]]]]]]] [Y12 Y13]]]]].
    destruct (e2 =? 0); cbn; split_all; congruence.
  - cbn; split_all; congruence.
Qed.

(* what every poll callback event of a run satisfies *)
Definition EN (e : event) : Prop :=
  match e with
  | ECb i st ev req efd rep hfd gs n =>
      (exists k, gs = Some k /\ (k < n)%nat) /\ efd = hfd /\
      ((st = 0 /\ ev <> m0 /\ msub ev req /\ (m_err rep = true \/ m_hup rep = true \/ msub ev rep)) \/
       (st = UV_EBADF /\ ev = m0 /\ m_err rep = true))
  | _ => True
  end.

Lemma valid_lt s i : valid s i = true -> (i < length (hs s))%nat.
Proof. unfold valid. intros H. apply andb_prop in H. destruct H as [H _]. apply Nat.ltb_lt; auto. Qed.

Lemma NI_api fdo s o : NI s -> NI (fst (api fdo s o)) /\ Forall EN (snd (api fdo s o)).
Proof.
  intros Hn. unfold api. destruct (aborted s); [split; [auto|repeat constructor]|].
  destruct o.
  - (* OOpen *)
    case_all; cbn [fst snd]; (split; [|repeat constructor]); auto;
      (eapply NI_same; [..|exact Hn]; unfold k_open; reflexivity).
  - (* ODup *)
    case_all; cbn [fst snd]; (split; [|repeat constructor]); auto;
      (eapply NI_same; [..|exact Hn]; unfold k_dup; case_all; reflexivity).
  - (* OCloseFd *)
    case_all; cbn [fst snd]; (split; [|repeat constructor]); auto;
      (eapply NI_same; [..|exact Hn]; unfold k_close; case_all; reflexivity).
  - split; [auto|constructor].
  - (* OInit *)
    destruct (_ || _ || _); [split; [auto|repeat constructor]|].
    unfold poll_init. destruct (fd_exists s (slots s sl)).
    + cbn [fst snd]. split; [|repeat constructor]. apply NI_append; auto.
    + destruct (io_check_fd s (slots s sl)) as [s1 rc] eqn:Hc.
      assert (Hn1 : NI s1).
      { pose proof (io_check_fd_same s (slots s sl)) as X. rewrite Hc in X. cbv zeta in X. cbn [fst] in X.
        destruct X as [X1 [X2 [_ [X4 [X5 [X6 [X7 _]]]]]]]. eapply NI_same; [..|exact Hn]; auto. }
      destruct (rc =? 0); cbn [fst snd]; (split; [|repeat constructor]); apply NI_append; auto.
  - (* ORawInit *)
    destruct (_ || _ || _); [split; [auto|repeat constructor]|]. cbn [fst snd]. split; [|repeat constructor].
    unfold raw_init. apply NI_append; auto.
  - (* OStart *)
    destruct (valid s h && _) eqn:Hv; [|split; [auto|repeat constructor]].
    apply andb_prop in Hv. destruct Hv as [Hv _]. apply valid_lt in Hv.
    destruct (h_kind (hget s h)) eqn:Hk.
    + pose proof (NI_poll_start s h (mand m ALLEV) Hn Hv Hk) as X.
      destruct (poll_start s h (mand m ALLEV)) as [s1 rc]. cbn [fst snd] in *. split; [auto|repeat constructor].
    + destruct (mzero (mand m ALLEV)) eqn:Hz; cbn [fst snd]; (split; [|repeat constructor]); auto.
      apply NI_io_start_raw; auto. apply mand_allev_errhup.
  - (* OStop *)
    destruct (valid s h) eqn:Hv; [|split; [auto|repeat constructor]]. apply valid_lt in Hv.
    destruct (h_kind (hget s h)) eqn:Hk.
    + cbn [fst snd]. split; [|repeat constructor]. apply (NI_poll_stop s h Hn Hv).
    + destruct (mzero (mand m ALLEV)); cbn [fst snd]; (split; [|repeat constructor]); auto.
      apply NI_io_stop; auto.
  - (* OClose *)
    destruct (valid s h) eqn:Hv; [|split; [auto|repeat constructor]]. apply valid_lt in Hv.
    destruct (h_kind (hget s h)) eqn:Hk; cbn [fst snd]; (split; [|repeat constructor]).
    + apply NI_hupd_view; [intros; reflexivity|]. apply (NI_poll_stop s h Hn Hv).
    + apply NI_hupd_view; [intros; reflexivity|]. unfold io_close.
      apply NI_invalidate.
      destruct (NI_io_stop s h ALLEV Hn Hv (or_intror eq_refl)) as [X _].
      destruct (io_stop_same s h ALLEV) as [[_ [_ [Sp [Sq _]]]] _].
      apply NI_queues; auto; intros j Hj; apply In_remove_id in Hj; destruct Hj as [Hj _];
        rewrite Sp, Sq; rewrite ?Sp in Hj; rewrite ?Sq in Hj; auto.
  - (* OFeed *)
    destruct (valid s h && is_raw (hget s h)) eqn:Hv; [|split; [auto|repeat constructor]].
    cbn [fst snd]. split; [|repeat constructor]. apply andb_prop in Hv. destruct Hv as [_ Hr].
    unfold io_feed. destruct (_ || _); auto. destruct Hn as [A B C D]. constructor; auto.
    intros j Hj. change (hget (set_pend s (pend s ++ [h])) j) with (hget s j).
    destruct Hj as [Hj|Hj]; cbn in Hj.
    + apply in_app_or in Hj. destruct Hj as [Hj|[<-|[]]]; auto.
      unfold is_raw, kind_eqb in Hr. destruct (h_kind (hget s h)); auto; discriminate.
    + auto.
  - (* OActive *)
    case_all; cbn [fst snd]; (split; [auto|repeat constructor]).
  - (* OForeign *)
    destruct (_ =? _); cbn [fst snd]; (split; [auto|repeat constructor]).
  - split; [auto|constructor].
Qed.

(* ---- the steps of uv__io_poll / uv__run_pending -------------------------------------- *)
Lemma NI_epoll_ctl s op fd m : NI s -> NI (fst (epoll_ctl s op fd m)).
Proof.
  intros Hn. pose proof (epoll_ctl_same s op fd m) as X. cbv zeta in X.
  destruct X as [X1 [X2 [_ [[X4 [X5 [X6 [X7 _]]]] _]]]]. eapply NI_same; [..|exact Hn]; auto.
Qed.

Lemma NI_set_aborted s b : NI s -> NI (set_aborted s b).
Proof. apply NI_same; reflexivity. Qed.
Lemma NI_set_sq s q : NI s -> NI (set_sq s q).
Proof. apply NI_same; reflexivity. Qed.
Lemma NI_set_wq s q : NI s -> NI (set_wq s q).
Proof. apply NI_same; reflexivity. Qed.

Lemma NI_reg_loop q : forall s, NI s -> NI (reg_loop s q).
Proof.
  induction q as [|i r IH]; intros s Hn; cbn [reg_loop]; auto.
  set (s1 := hupd s i (fun h => h_set_ev h (h_pev h))).
  assert (H1 : NI s1) by (apply NI_hupd_view; auto; intros; reflexivity).
  destruct (ring s1).
  - apply IH. apply NI_set_sq; auto.
  - set (op := if mzero (h_ev (hget s i)) then CAdd else CMod).
    pose proof (NI_epoll_ctl s1 op (h_fd (hget s i)) (h_pev (hget s i)) H1) as H2.
    destruct (epoll_ctl s1 op (h_fd (hget s i)) (h_pev (hget s i))) as [s2 e]. cbn [fst] in H2.
    destruct (e =? 0); [apply IH; auto|].
    pose proof (NI_epoll_ctl s2 CMod (h_fd (hget s i)) (h_pev (hget s i)) H2) as H3.
    destruct (epoll_ctl s2 CMod (h_fd (hget s i)) (h_pev (hget s i))) as [s3 e2]. cbn [fst] in H3.
    destruct (e2 =? 0); apply IH; auto. apply NI_set_aborted; auto.
Qed.

Lemma NI_flush_entries l : forall s retry, NI s -> NI (fst (flush_entries s l retry)).
Proof.
  induction l as [|[[op fd] m] r IH]; intros s retry Hn; cbn [flush_entries]; auto.
  pose proof (NI_epoll_ctl s op fd m Hn) as H1.
  destruct (epoll_ctl s op fd m) as [s1 e]. cbn [fst] in H1.
  destruct (e =? 0); [apply IH; auto|].
  destruct op; [destruct (e =? EEXIST)| |]; apply IH; auto; apply NI_set_aborted; auto.
Qed.

Lemma NI_ctl_flush s : NI s -> NI (ctl_flush s).
Proof.
  intros Hn. unfold ctl_flush.
  pose proof (NI_flush_entries (sq s) (set_sq s []) [] (NI_set_sq _ _ Hn)) as H.
  destruct (flush_entries (set_sq s []) (sq s) []) as [s1 retry]. cbn [fst] in H. apply NI_set_sq; auto.
Qed.

Lemma NI_poll_prepare s : NI s -> NI (poll_prepare s).
Proof.
  intros Hn. unfold poll_prepare.
  pose proof (NI_reg_loop (wq s) _ (NI_set_wq s [] Hn)) as H1.
  destruct (ring _); auto. unfold ctl_flush_all. destruct (sq _); auto.
  pose proof (NI_ctl_flush _ H1) as H2. destruct (sq (ctl_flush _)); auto. apply NI_ctl_flush; auto.
Qed.

Lemma NI_poll_fetch s ans : NI s -> NI (poll_fetch s ans).
Proof.
  intros [A B C D]. unfold poll_fetch. constructor; auto.
  - intros fd i Hc. cbn in Hc. destruct (B _ _ Hc) as [B1 [B2 [B3 B4]]]. split_all; auto.
    intros Hk. destruct (B4 Hk) as [k [K1 [K2 K3]]]. exists k. cbn. split_all; auto.
  - intros f orig rep Hin. cbn in Hin. apply in_map_iff in Hin. destruct Hin as [[f' r'] [He _]].
    inversion He; subst. right. split; auto. intros i Hc Hk. cbn in Hc.
    destruct (B _ _ Hc) as [_ [_ [_ B4]]]. destruct (B4 Hk) as [k [K1 [K2 _]]]. exists k. cbn. split; auto. lia.
Qed.

(* the mask handed to the watcher by the dispatch loop *)
Definition disp_ev (rep pev : mask) : mask :=
  let ev1 := mand rep (mor pev ERRHUP) in
  if meqb ev1 ONLY_ERR || meqb ev1 ONLY_HUP then mor ev1 (mand pev ALLEV) else ev1.

Lemma disp_ev_ebadf rep pev : m_err (disp_ev rep pev) = true -> m_err rep = true.
Proof.
  unfold disp_ev. mk_destruct rep; mk_destruct pev.
  destruct m_err; [reflexivity|]. bools; cbn; intros; auto.
Qed.

Lemma disp_ev_ok rep pev :
  mand pev ERRHUP = m0 -> mzero pev = false -> mzero (disp_ev rep pev) = false ->
  m_err (disp_ev rep pev) && negb (m_pri (disp_ev rep pev)) = false ->
  mand (disp_ev rep pev) ALLEV <> m0 /\ msub (mand (disp_ev rep pev) ALLEV) pev /\
  (m_err rep = true \/ m_hup rep = true \/ msub (mand (disp_ev rep pev) ALLEV) rep).
Proof.
  unfold disp_ev, msub, mzero. mk_destruct rep; mk_destruct pev.
  destruct m_err0; [cbn; discriminate|]. destruct m_hup0; [cbn; discriminate|].
  destruct m_in, m_pri, m_out, m_err, m_hup, m_rdhup, m_in0, m_pri0, m_out0, m_rdhup0; cbn;
    intros; try discriminate; split_all; auto; try discriminate.
Qed.

Lemma dispatch_target_call s fd orig rep i ev o2 r2 :
  dispatch_target s (fd, orig, rep) = TCall i ev o2 r2 ->
  fd <> -1 /\ reg s fd = Some i /\ ev = disp_ev rep (h_pev (hget s i)) /\ mzero ev = false /\
  o2 = orig /\ r2 = rep.
Proof.
  unfold dispatch_target. destruct (Z.eqb_spec fd (-1)); [discriminate|].
  destruct (reg s fd) as [j|]; [|discriminate].
  fold (disp_ev rep (h_pev (hget s j))).
  destruct (mzero (disp_ev rep (h_pev (hget s j)))) eqn:Hz; [discriminate|].
  intros H. inversion H; subst. auto 10.
Qed.

Lemma NI_disp s e rest : NI s -> batch s = e :: rest ->
  match dispatch_target (set_batch s rest) e with
  | TSkip => NI (set_batch s rest)
  | TDel fd => NI (fst (epoll_ctl (set_batch s rest) CDel fd m0))
  | TCall i ev orig rep =>
      NI (fst (cb_pre (set_batch s rest) i ev orig rep)) /\
      EN (snd (cb_pre (set_batch s rest) i ev orig rep))
  end.
Proof.
  intros Hn Hb.
  assert (H0 : NI (set_batch s rest)).
  { apply NI_batch_sub; auto. intros x Hx. rewrite Hb. right; auto. }
  destruct (dispatch_target (set_batch s rest) e) as [|fd|i ev o2 r2] eqn:Ht; auto.
  - apply NI_epoll_ctl; auto.
  - destruct e as [[fd orig] rep].
    apply dispatch_target_call in Ht. destruct Ht as [Hfd [Hr [Hev [Hz [-> ->]]]]].
    set (s0 := set_batch s rest) in *.
    change (reg s0 fd) with (reg s fd) in Hr. change (hget s0 i) with (hget s i) in Hev.
    destruct Hn as [A B C D].
    destruct (B _ _ Hr) as [Hl [Hf [Hp Hpoll]]].
    assert (Hin : In (fd, orig, rep) (batch s)) by (rewrite Hb; left; auto).
    destruct (C _ _ _ Hin) as [|[Ho F]]; [contradiction|].
    unfold cb_pre. change (hget s0 i) with (hget s i). change (npw s0) with (npw s).
    destruct (h_kind (hget s i)) eqn:Hk; [|cbn; auto].
    destruct (Hpoll eq_refl) as [k [K1 [K2 K3]]].
    destruct (F i Hr Hk) as [k' [K1' K2']].
    destruct (m_err ev && negb (m_pri ev)) eqn:Heb; cbn [fst snd].
    + split.
      * destruct (NI_io_stop s0 i ALLEV H0 Hl (or_intror eq_refl)) as [X1 X2].
        apply NI_iuw. apply NI_hupd_unreg; auto.
      * cbn. split_all; eauto; try congruence. right. split_all; auto.
        apply andb_prop in Heb. destruct Heb as [Heb _]. subst ev. eapply disp_ev_ebadf; eauto.
    + split; auto. cbn. split_all; eauto; try congruence. left.
      subst ev. rewrite <- K3.
      destruct (disp_ev_ok rep (h_pev (hget s i)) (A i) Hp Hz Heb) as [X1 [X2 X3]]. auto.
Qed.

Lemma NI_pend_step s i rest : NI s -> prun s = i :: rest ->
  NI (fst (cb_pre (set_prun s rest) i ONLY_OUT (-1) m0)) /\
  EN (snd (cb_pre (set_prun s rest) i ONLY_OUT (-1) m0)).
Proof.
  intros Hn Hb. destruct Hn as [A B C D].
  assert (Hk : h_kind (hget s i) = KRaw) by (apply D; right; rewrite Hb; left; auto).
  unfold cb_pre. change (hget (set_prun s rest) i) with (hget s i). rewrite Hk. cbn. split; auto.
  constructor; auto. intros j [Hj|Hj]; cbn in Hj; apply D; auto. right. rewrite Hb. right; auto.
Qed.

(* ---- the theorem ------------------------------------------------------------------------ *)
Theorem run_NI : forall fdo pw beh os s s' evs,
  NI s -> run fdo pw beh s os = (s', evs) -> NI s' /\ Forall EN evs.
Proof.
  intros fdo pw beh. apply (run_gen NI EN fdo pw beh).
  - intros; apply NI_api; auto.
  - intros s n. apply NI_same; reflexivity.
  - apply NI_disp.
  - apply NI_pend_step.
  - intros s [A B C D]. constructor; auto. intros j [[]|Hj]. cbn in Hj. apply D; auto.
  - intros s [A B C D]. constructor; auto. intros j [Hj|[]]. cbn in Hj. apply D; auto.
  - intros s ans Hn _. split; [exact Logic.I|]. apply NI_poll_fetch. apply NI_poll_prepare; auto.
  - intros s Hn _. apply NI_poll_prepare; auto.
  - intros s Hn. apply NI_batch_sub; auto. intros e [].
  - exact Logic.I.
  - exact Logic.I.
Qed.

Theorem callbacks_ok : forall fdo pw beh os rng strct,
  Forall EN (snd (run fdo pw beh (sinit rng strct) os)).
Proof.
  intros. destruct (run fdo pw beh (sinit rng strct) os) as [s' evs] eqn:H.
  eapply run_NI in H; [|apply NI_init]. apply H.
Qed.
