(* C18 proofs, part 7: inet_ntop6 prints exactly the canonical text of the
   independent printer spec_print6 (Spec/InetSpec.v). *)
From UV Require Import Lib.Base Model.Inet Spec.InetSpec Proofs.InetProofs4 Proofs.InetProofs4c
  Proofs.InetProofs6 Proofs.InetProofs6rt.
Local Open Scope N_scope.

Arguments hex_u16 : simpl never.
Arguments fmt4 : simpl never.
Arguments dec_u8 : simpl never.
Arguments is_zero : simpl never.
Arguments nlen : simpl never.
Arguments spec_hex : simpl never.
Arguments spec_print4 : simpl never.

Lemma hex_u16_spec w : w < 65536 -> hex_u16 w = spec_hex w.
Proof.
  intros Hw. unfold hex_u16, spec_hex. cbn [digits_fuel].
  change sdig with hexdig.
  destruct (w <? 16) eqn:E1; [reflexivity|]. apply N.ltb_ge in E1.
  destruct (w <? 256) eqn:E2.
  - apply N.ltb_lt in E2.
    assert (Ed : w / 16 <? 16 = true) by (apply N.ltb_lt; lia). rewrite Ed. reflexivity.
  - apply N.ltb_ge in E2.
    assert (Ed : w / 16 <? 16 = false) by (apply N.ltb_ge; lia). rewrite Ed.
    destruct (w <? 4096) eqn:E3.
    + apply N.ltb_lt in E3.
      assert (Ed2 : w / 16 / 16 <? 16 = true) by (apply N.ltb_lt; lia). rewrite Ed2.
      replace (w / 16 / 16) with (w / 256) by lia. reflexivity.
    + apply N.ltb_ge in E3.
      assert (Ed2 : w / 16 / 16 <? 16 = false) by (apply N.ltb_ge; lia). rewrite Ed2.
      assert (Ed3 : w / 16 / 16 / 16 <? 16 = true) by (apply N.ltb_lt; lia). rewrite Ed3.
      replace (w / 16 / 16 / 16) with (w / 4096) by lia.
      replace (w / 16 / 16) with (w / 256) by lia. reflexivity.
Qed.

Lemma fmt4_spec a b c d :
  a < 256 -> b < 256 -> c < 256 -> d < 256 -> fmt4 [a; b; c; d] = spec_print4 [a; b; c; d].
Proof.
  intros. unfold fmt4, spec_print4, byte_at. cbn [nth map join].
  rewrite !dec_u8_spec by assumption. cbn [app]. reflexivity.
Qed.

(* the spec's run search depends only on the zero/non-zero shape *)
Fixpoint zrun_b (zs : list bool) : nat :=
  match zs with
  | z :: t => if z then S (zrun_b t) else O
  | [] => O
  end.

Fixpoint longest_run_b (zs : list bool) (i : nat) (best : nat * nat) : nat * nat :=
  match zs with
  | [] => best
  | z :: t =>
      let r := zrun_b zs in
      longest_run_b t (S i) (if (snd best <? r)%nat then (i, r) else best)
  end.

Lemma zrun_shape ws : zrun ws = zrun_b (map is_zero ws).
Proof. induction ws as [|w t IH]; [reflexivity|]. cbn [zrun map zrun_b]. unfold is_zero at 1. rewrite IH. reflexivity. Qed.

Lemma longest_run_shape ws : forall i best,
  longest_run ws i best = longest_run_b (map is_zero ws) i best.
Proof.
  induction ws as [|w t IH]; intros; [reflexivity|].
  cbn [longest_run longest_run_b map].
  change (zrun_b (is_zero w :: map is_zero t)) with (zrun_b (map is_zero (w :: t))).
  rewrite <- zrun_shape. apply IH.
Qed.

(* model search and spec search agree on all 2^8 shapes *)
Definition run_rel (zs : list bool) : bool :=
  let '(b, l) := longest_run_b zs 0 (0%nat, 0%nat) in
  let '(bb, bl) := best_run zs in
  if (l <? 2)%nat then (bb =? -1)%Z
  else (bb =? Z.of_nat b)%Z && (bl =? Z.of_nat l)%Z && (b + l <=? 8)%nat.

Lemma run_rel_ok z0 z1 z2 z3 z4 z5 z6 z7 : run_rel [z0; z1; z2; z3; z4; z5; z6; z7] = true.
Proof. destruct z0, z1, z2, z3, z4, z5, z6, z7; vm_compute; reflexivity. Qed.

Ltac spec_eval :=
  cbn [negb andb orb Nat.eqb Nat.ltb Nat.leb Nat.add Nat.sub firstn skipn map join app nth fst snd].

Ltac canon_tac :=
  eval_tac;
  repeat match goal with |- context [(?a <? ?b)%Z] =>
    let v := eval vm_compute in (a <? b)%Z in change (a <? b)%Z with v end;
  eval_tac; spec_eval;
  try match goal with |- context [?w =? 65535] => destruct (w =? 65535) eqn:? end;
  try match goal with |- context [?w =? 1] => destruct (w =? 1) eqn:? end;
  spec_eval; rewrite ?app_nil_r;
  rewrite ?hex_u16_spec by assumption; rewrite ?fmt4_spec by assumption;
  repeat first [rewrite <- app_assoc | progress cbn [app]]; reflexivity.

Lemma canon_bytes a0 a1 a2 a3 a4 a5 a6 a7 a8 a9 a10 a11 a12 a13 a14 a15 :
  Forall (fun x => x < 256) [a0; a1; a2; a3; a4; a5; a6; a7; a8; a9; a10; a11; a12; a13; a14; a15] ->
  text6 [a0; a1; a2; a3; a4; a5; a6; a7; a8; a9; a10; a11; a12; a13; a14; a15] =
  spec_print6 [a0; a1; a2; a3; a4; a5; a6; a7; a8; a9; a10; a11; a12; a13; a14; a15]
              (words_of [a0; a1; a2; a3; a4; a5; a6; a7; a8; a9; a10; a11; a12; a13; a14; a15]).
Proof.
  intros HF.
  repeat match goal with H : Forall _ (_ :: _) |- _ => inversion H; clear H; subst end.
  match goal with H : Forall _ [] |- _ => clear H end.
  unfold text6, spec_print6. cbn [firstn words_of map nth skipn].
  assert (W0 : a0 * 256 + a1 < 65536) by lia. assert (W1 : a2 * 256 + a3 < 65536) by lia.
  assert (W2 : a4 * 256 + a5 < 65536) by lia. assert (W3 : a6 * 256 + a7 < 65536) by lia.
  assert (W4 : a8 * 256 + a9 < 65536) by lia. assert (W5 : a10 * 256 + a11 < 65536) by lia.
  assert (W6 : a12 * 256 + a13 < 65536) by lia. assert (W7 : a14 * 256 + a15 < 65536) by lia.
  remember (a0 * 256 + a1) as w0. remember (a2 * 256 + a3) as w1.
  remember (a4 * 256 + a5) as w2. remember (a6 * 256 + a7) as w3.
  remember (a8 * 256 + a9) as w4. remember (a10 * 256 + a11) as w5.
  remember (a12 * 256 + a13) as w6. remember (a14 * 256 + a15) as w7.
  rewrite longest_run_shape. cbn [map].
  pose proof (run_rel_ok (is_zero w0) (is_zero w1) (is_zero w2) (is_zero w3)
                         (is_zero w4) (is_zero w5) (is_zero w6) (is_zero w7)) as Hrel.
  unfold run_rel in Hrel.
  destruct (longest_run_b [is_zero w0; is_zero w1; is_zero w2; is_zero w3;
                           is_zero w4; is_zero w5; is_zero w6; is_zero w7] 0 (0%nat, 0%nat)) as [b l].
  destruct (best_run [is_zero w0; is_zero w1; is_zero w2; is_zero w3;
                      is_zero w4; is_zero w5; is_zero w6; is_zero w7]) as [bb bl].
  destruct (l <? 2)%nat eqn:El.
  - apply Z.eqb_eq in Hrel. subst bb. canon_tac.
  - rewrite !andb_true_iff in Hrel. destruct Hrel as [[Hb Hl] Hs8].
    apply Z.eqb_eq in Hb, Hl. apply Nat.leb_le in Hs8. apply Nat.ltb_ge in El. subst bb bl.
    assert (Hbb : (b = 0 \/ b = 1 \/ b = 2 \/ b = 3 \/ b = 4 \/ b = 5 \/ b = 6)%nat) by lia.
    assert (Hbl : (l = 2 \/ l = 3 \/ l = 4 \/ l = 5 \/ l = 6 \/ l = 7 \/ l = 8)%nat) by lia.
    destruct Hbb as [->|[->|[->|[->|[->|[->| ->]]]]]];
      destruct Hbl as [->|[->|[->|[->|[->|[->| ->]]]]]]; try (exfalso; lia).
    all: cbn [Z.of_nat Pos.of_succ_nat Pos.succ].
    all: canon_tac.
Qed.

Theorem text6_canonical a : bytes16 a -> text6 a = spec_print6 a (words_of a).
Proof.
  intros [Hl HF].
  do 16 (destruct a as [|? a]; [discriminate|]). destruct a; [|discriminate].
  apply canon_bytes. exact HF.
Qed.

(* inet_ntop6 / uv_inet_ntop print exactly the canonical text *)
Theorem ntop6_canonical a size :
  bytes16 a -> 46 <= size ->
  uv_inet_ntop AF_INET6 a size = (0%Z, spec_print6 a (words_of a) ++ [0]).
Proof.
  intros Hb Hs. unfold uv_inet_ntop. cbn [Z.eqb AF_INET AF_INET6 Pos.eqb].
  destruct (ntop6_spec a size Hb) as (Hlen & _ & H). rewrite H by lia.
  rewrite (text6_canonical a Hb). reflexivity.
Qed.
