(* C18 proofs, part 6: the %zone split of uv_inet_pton and uv_ip6_addr. *)
From UV Require Import Lib.Base Model.Inet Spec.InetSpec Proofs.InetProofs4 Proofs.InetProofs6.
Local Open Scope N_scope.

Lemma strchr_absent t c : ~ In c t -> strchr t c = None.
Proof.
  induction t as [|x t IH]; intros H; [reflexivity|]. simpl.
  destruct (x =? c) eqn:E.
  - apply N.eqb_eq in E. subst. exfalso. apply H. left; reflexivity.
  - rewrite IH; [reflexivity|]. intros Hi. apply H. right; exact Hi.
Qed.

(* ------------------------------------------------------------------ *)
(* the %zone split                                                     *)
(* ------------------------------------------------------------------ *)
Lemma cstr_app_stop a r : ~ In 0 a -> cstr (a ++ r) = a ++ cstr r.
Proof.
  induction a as [|x a IH]; intros H; [reflexivity|]. simpl.
  destruct (x =? 0) eqn:E.
  - apply N.eqb_eq in E. subst. exfalso. apply H. left; reflexivity.
  - f_equal. apply IH. intros Hi. apply H. right; exact Hi.
Qed.

Lemma strchr_app_hit a c r : ~ In c a -> strchr (a ++ c :: r) c = Some (length a).
Proof.
  induction a as [|x a IH]; intros H; simpl.
  - rewrite N.eqb_refl. reflexivity.
  - destruct (x =? c) eqn:E.
    + apply N.eqb_eq in E. subst. exfalso. apply H. left; reflexivity.
    + rewrite IH; [reflexivity|]. intros Hi. apply H. right; exact Hi.
Qed.

Lemma uv_inet_pton6_plain a : ~ In 0 a -> ~ In 37 a -> uv_inet_pton AF_INET6 a = inet_pton6 a.
Proof.
  intros H0 H37. unfold uv_inet_pton. cbn [Z.eqb AF_INET AF_INET6 Pos.eqb].
  rewrite cstr_id by exact H0. rewrite strchr_absent by exact H37. reflexivity.
Qed.

(* uv_inet_pton: the part before '%' is what is parsed, up to 45 characters *)
Theorem uv_inet_pton6_zone a z :
  ~ In 0 a -> ~ In 37 a ->
  uv_inet_pton AF_INET6 (a ++ 37 :: z) =
  if (45 <? length a)%nat then (UV_EINVAL, []) else inet_pton6 a.
Proof.
  intros H0 H37. unfold uv_inet_pton. cbn [Z.eqb AF_INET AF_INET6 Pos.eqb].
  rewrite cstr_app_stop by exact H0. simpl cstr.
  rewrite strchr_app_hit by exact H37.
  destruct (45 <? length a)%nat; [reflexivity|].
  rewrite firstn_len_app by reflexivity. reflexivity.
Qed.

(* uv_ip6_addr (after 4b6f164): the part before '%' is what is parsed, up to 45
   characters; longer parts are rejected *)
Theorem ip6_addr_zone a z port :
  ~ In 0 a -> ~ In 37 a ->
  uv_ip6_addr (a ++ 37 :: z) port =
  if (45 <? length a)%nat then (UV_EINVAL, (htons port, repeat 0 16))
  else addr_result (inet_pton6 a) port 16.
Proof.
  intros H0 H37. unfold uv_ip6_addr.
  rewrite cstr_app_stop by exact H0. simpl cstr.
  rewrite strchr_app_hit by exact H37.
  destruct (45 <? length a)%nat eqn:E.
  - apply Nat.ltb_lt in E. assert (E' : (46 <=? length a)%nat = true) by (apply Nat.leb_le; lia).
    rewrite E'. reflexivity.
  - apply Nat.ltb_ge in E. assert (E' : (46 <=? length a)%nat = false) by (apply Nat.leb_gt; lia).
    rewrite E'. rewrite firstn_len_app by reflexivity.
    rewrite uv_inet_pton6_plain by assumption. reflexivity.
Qed.

(* without a zone nothing changes *)
Theorem ip6_addr_plain a port :
  ~ In 0 a -> ~ In 37 a -> uv_ip6_addr a port = addr_result (inet_pton6 a) port 16.
Proof.
  intros H0 H37. unfold uv_ip6_addr. rewrite cstr_id by exact H0.
  rewrite strchr_absent by exact H37. rewrite uv_inet_pton6_plain by assumption. reflexivity.
Qed.

(* History: uv_ip6_addr as it was before commit 4b6f164 (address_part[40], longer
   parts cut to 39 characters) parsed a different address. *)
Definition uv_ip6_addr_pre_4b6f164 (ip : list N) (port : Z) : Z * (list N * list N) :=
  let s := cstr ip in
  match strchr s 37 with
  | Some z =>
      let sz := if (40 <=? z)%nat then 39%nat else z in
      addr_result (uv_inet_pton AF_INET6 (firstn sz s)) port 16
  | None => addr_result (uv_inet_pton AF_INET6 s) port 16
  end.

(* "1111:2222:3333:4444:5555:6666:12.2.3.123" *)
Definition zone_witness : list N :=
  [49;49;49;49;58; 50;50;50;50;58; 51;51;51;51;58; 52;52;52;52;58; 53;53;53;53;58;
   54;54;54;54;58; 49;50;46;50;46;51;46;49;50;51].

Lemma ip6_addr_zone_history :
  inet_pton6 zone_witness = (0%Z, [17;17;34;34;51;51;68;68;85;85;102;102;12;2;3;123]) /\
  uv_ip6_addr_pre_4b6f164 (zone_witness ++ 37 :: [108; 111]) 80 =
    (0%Z, (htons 80, [17;17;34;34;51;51;68;68;85;85;102;102;12;2;3;12])) /\
  uv_ip6_addr (zone_witness ++ 37 :: [108; 111]) 80 =
    (0%Z, (htons 80, [17;17;34;34;51;51;68;68;85;85;102;102;12;2;3;123])).
Proof. repeat split; vm_compute; reflexivity. Qed.
