(* C03, part 1: the order of the phases.  Each phase function emits callback
   events of its own tag only; an iteration is the concatenation of its
   phases; uv_run is an optional timer pass followed by iterations. *)
From UV Require Import Lib.Base Model.Heap Model.Timer Model.LoopCore Proofs.C03Base Proofs.UvRunAlt.

Definition T45 (t : nat) : Prop := t = 4%nat \/ t = 5%nat.

(* idle* prepare* (async|after_work)* check* close* timer* *)
Definition phase_word (l : list nat) : Prop :=
  exists l1 l2 l3 l4 l5 l6,
    l = l1 ++ l2 ++ l3 ++ l4 ++ l5 ++ l6 /\
    Forall (eq 1%nat) l1 /\ Forall (eq 2%nat) l2 /\ Forall T45 l3 /\
    Forall (eq 3%nat) l4 /\ Forall (eq 6%nat) l5 /\ Forall (eq 0%nat) l6.

Lemma callback_tags s beh tag i : cb_tags (snd (callback s beh tag i)) = [tag].
Proof. unfold cb_tags. rewrite callback_cbs. reflexivity. Qed.

Lemma callback_ids s beh tag i : cb_ids (snd (callback s beh tag i)) = [i].
Proof. unfold cb_ids. rewrite callback_cbs. reflexivity. Qed.

Lemma callback_tags' s beh tag i s' e :
  callback s beh tag i = (s', e) -> cb_tags e = [tag].
Proof. intros H. pose proof (callback_tags s beh tag i) as T. rewrite H in T. exact T. Qed.

Lemma callback_ids' s beh tag i s' e :
  callback s beh tag i = (s', e) -> cb_ids e = [i].
Proof. intros H. pose proof (callback_ids s beh tag i) as T. rewrite H in T. exact T. Qed.

(* ---- one lemma per phase function ---- *)
Lemma run_lq_tags fuel : forall s beh k tag,
  Forall (eq tag) (cb_tags (snd (run_lq fuel s beh k tag))).
Proof.
  induction fuel as [|f IH]; intros s beh k tag; cbn [run_lq]; [constructor|].
  destruct (lq s) as [|i rest]; [constructor|].
  destruct (callback _ beh tag i) as [s3 e1] eqn:E1.
  pose proof (IH s3 beh k tag) as H2.
  destruct (run_lq f s3 beh k tag) as [s4 e2]. cbn [snd] in *.
  rewrite cb_tags_app, (callback_tags' _ _ _ _ _ _ E1).
  constructor; [reflexivity|exact H2].
Qed.

Lemma run_watchers_tags s beh k tag :
  Forall (eq tag) (cb_tags (snd (run_watchers s beh k tag))).
Proof. unfold run_watchers. apply run_lq_tags. Qed.

Lemma run_wq_tags l : forall s beh,
  Forall (eq 5%nat) (cb_tags (snd (run_wq l s beh))).
Proof.
  induction l as [|w rest IH]; intros s beh; cbn [run_wq]; [constructor|].
  match goal with |- context [if ?c then _ else _] => destruct c end.
  - destruct (callback _ beh 5%nat w) as [s3 e1] eqn:E1.
    pose proof (IH s3 beh) as H2. destruct (run_wq rest s3 beh) as [s4 e2]. cbn [snd] in *.
    rewrite cb_tags_app, (callback_tags' _ _ _ _ _ _ E1). constructor; [reflexivity|exact H2].
  - match goal with |- context [run_wq rest ?s0 beh] =>
      pose proof (IH s0 beh) as H2; destruct (run_wq rest s0 beh) as [s4 e2] end.
    cbn [snd] in *. exact H2.
Qed.

Lemma run_alq_tags fuel : forall s beh,
  Forall (eq 4%nat) (cb_tags (snd (run_alq fuel s beh))).
Proof.
  induction fuel as [|f IH]; intros s beh; cbn [run_alq]; [constructor|].
  destruct (alq s) as [|i rest]; [constructor|]. cbv zeta.
  match goal with |- context [if ?c then _ else _] => destruct c end;
    [match goal with |- context [if ?c then _ else _] => destruct c end|].
  - destruct (callback _ beh 4%nat i) as [s4 e1] eqn:E1.
    pose proof (IH s4 beh) as H2. destruct (run_alq f s4 beh) as [s5 e2]. cbn [snd] in *.
    rewrite cb_tags_app, (callback_tags' _ _ _ _ _ _ E1). constructor; [reflexivity|exact H2].
  - match goal with |- context [run_alq f ?s0 beh] =>
      pose proof (IH s0 beh) as H2; destruct (run_alq f s0 beh) as [s5 e2] end.
    cbn [snd] in *. exact H2.
  - match goal with |- context [run_alq f ?s0 beh] =>
      pose proof (IH s0 beh) as H2; destruct (run_alq f s0 beh) as [s5 e2] end.
    cbn [snd] in *. exact H2.
Qed.

Lemma Forall_eq_T45_4 l : Forall (eq 4%nat) l -> Forall T45 l.
Proof. apply Forall_impl. intros a <-. left; reflexivity. Qed.
Lemma Forall_eq_T45_5 l : Forall (eq 5%nat) l -> Forall T45 l.
Proof. apply Forall_impl. intros a <-. right; reflexivity. Qed.

Lemma io_poll_tags s beh timeout :
  Forall T45 (cb_tags (snd (io_poll s beh timeout))).
Proof.
  unfold io_poll. destruct (efd s).
  - cbv zeta.
    match goal with |- context [if ?c then ?a else ?b] =>
      assert (H1 : Forall (eq 5%nat) (cb_tags (snd (if c then a else b))));
      [destruct c; [apply run_wq_tags|constructor]|
       destruct (if c then a else b) as [s2 e1]] end.
    match goal with |- context [run_alq ?n ?s0 beh] =>
      pose proof (run_alq_tags n s0 beh) as H2; destruct (run_alq n s0 beh) as [s4 e2] end.
    cbn [snd] in *. change (cb_tags (vpoll s (if metrics s then 0%Z else timeout) :: e1 ++ e2))
      with (cb_tags (e1 ++ e2)).
    rewrite cb_tags_app. apply Forall_app. split.
    + apply Forall_eq_T45_5; exact H1.
    + apply Forall_eq_T45_4; exact H2.
  - repeat match goal with |- context [if ?c then _ else _] => destruct c end; constructor.
Qed.

Lemma run_closing_tags l : forall s beh,
  Forall (eq 6%nat) (cb_tags (snd (run_closing l s beh))).
Proof.
  induction l as [|i rest IH]; intros s beh; cbn [run_closing]; [constructor|].
  destruct (callback _ beh 6%nat i) as [s3 e1] eqn:E1.
  pose proof (IH s3 beh) as H2. destruct (run_closing rest s3 beh) as [s4 e2]. cbn [snd] in *.
  rewrite cb_tags_app, (callback_tags' _ _ _ _ _ _ E1). constructor; [reflexivity|exact H2].
Qed.

Lemma l_fire_tags fuel : forall s beh,
  Forall (eq 0%nat) (cb_tags (snd (l_fire fuel s beh))).
Proof.
  induction fuel as [|f IH]; intros s beh; cbn [l_fire]; [constructor|].
  destruct (ready (ts s)) as [|i rest]; [constructor|]. cbv zeta.
  destruct (callback _ beh 0%nat i) as [s2 e1] eqn:E1.
  pose proof (IH s2 beh) as H2. destruct (l_fire f s2 beh) as [s3 e2]. cbn [snd] in *.
  rewrite cb_tags_app, (callback_tags' _ _ _ _ _ _ E1). constructor; [reflexivity|exact H2].
Qed.

Lemma l_run_timers_tags s beh :
  Forall (eq 0%nat) (cb_tags (snd (l_run_timers s beh))).
Proof. unfold l_run_timers. apply l_fire_tags. Qed.

(* ---- an iteration, unfolded into its phases ---- *)
Definition poll_timeout (s s2 : lstate) (mode : nat) : Z :=
  if (Nat.eqb mode 1 && match idle_q s with [] => true | _ => false end) || Nat.eqb mode 0
  then backend_timeout s2 else 0%Z.

Definition iter_phases (s : lstate) (beh : nat -> list lop) (mode : nat)
       (s' : lstate) (evs : list levent) : Prop :=
  exists s1 e1 s2 e2 s3 e3 s4 e4 s5 e5 e6,
    run_watchers s beh KIdle 1 = (s1, e1) /\
    run_watchers s1 beh KPrepare 2 = (s2, e2) /\
    io_poll (set_dirty s2 false) beh (poll_timeout s s2 mode) = (s3, e3) /\
    run_watchers s3 beh KCheck 3 = (s4, e4) /\
    run_closing (closing s4) (set_closing s4 []) beh = (s5, e5) /\
    l_run_timers (update_time s5) beh = (s', e6) /\
    evs = e1 ++ e2 ++ e3 ++ e4 ++ e5 ++ e6.

Lemma iteration_phases s beh mode s' evs :
  iteration s beh mode = (s', evs) -> iter_phases s beh mode s' evs.
Proof.
  unfold iteration, iter_phases. intros H.
  destruct (run_watchers s beh KIdle 1) as [s1 e1] eqn:E1.
  destruct (run_watchers s1 beh KPrepare 2) as [s2 e2] eqn:E2.
  fold (poll_timeout s s2 mode) in H.
  destruct (io_poll (set_dirty s2 false) beh (poll_timeout s s2 mode)) as [s3 e3] eqn:E3.
  destruct (run_watchers s3 beh KCheck 3) as [s4 e4] eqn:E4.
  destruct (run_closing (closing s4) (set_closing s4 []) beh) as [s5 e5] eqn:E5.
  destruct (l_run_timers (update_time s5) beh) as [s7 e6] eqn:E6.
  inversion H; subst.
  exists s1, e1, s2, e2, s3, e3, s4, e4, s5, e5, e6. repeat split; assumption.
Qed.

Lemma snd_eq {A B} (x : A * B) a b : x = (a, b) -> snd x = b.
Proof. intros ->. reflexivity. Qed.

Theorem iteration_phase_order s beh mode s' evs :
  iteration s beh mode = (s', evs) -> phase_word (cb_tags evs).
Proof.
  intros H. destruct (iteration_phases _ _ _ _ _ H)
    as (s1 & e1 & s2 & e2 & s3 & e3 & s4 & e4 & s5 & e5 & e6 & H1 & H2 & H3 & H4 & H5 & H6 & ->).
  exists (cb_tags e1), (cb_tags e2), (cb_tags e3), (cb_tags e4), (cb_tags e5), (cb_tags e6).
  rewrite !cb_tags_app. split; [reflexivity|].
  rewrite <- (snd_eq _ _ _ H1), <- (snd_eq _ _ _ H2), <- (snd_eq _ _ _ H3),
          <- (snd_eq _ _ _ H4), <- (snd_eq _ _ _ H5), <- (snd_eq _ _ _ H6).
  repeat split.
  - apply run_watchers_tags.
  - apply run_watchers_tags.
  - apply io_poll_tags.
  - apply run_watchers_tags.
  - apply run_closing_tags.
  - apply l_run_timers_tags.
Qed.

(* ---- the loop: a sequence of iterations ---- *)
Inductive loop_iters (beh : nat -> list lop) (mode : nat)
  : lstate -> list (list levent) -> lstate -> Prop :=
| li_fuel s : loop_iters beh mode s [] s
| li_last s s1 e :
    iteration s beh mode = (s1, e) ->
    mode <> 0%nat \/ loop_alive s1 = false \/ stop_flag s1 = true ->
    loop_iters beh mode s [e] s1
| li_step s s1 e its s' :
    iteration s beh mode = (s1, e) ->
    mode = 0%nat -> loop_alive s1 = true -> stop_flag s1 = false ->
    loop_iters beh mode s1 its s' ->
    loop_iters beh mode s (e :: its) s'.

Lemma run_loop_iters fuel : forall s beh mode s' evs r,
  run_loop fuel s beh mode = (s', evs, r) ->
  exists its, loop_iters beh mode s its s' /\ evs = concat its /\ r = loop_alive s'.
Proof.
  induction fuel as [|f IH]; intros s beh mode s' evs r H; cbn [run_loop] in H.
  - inversion H; subst. exists []. repeat split. constructor.
  - destruct (iteration s beh mode) as [s1 e1] eqn:E1.
    destruct (Nat.eqb_spec mode 0) as [Hm|Hm]; cbn [negb] in H.
    + destruct (loop_alive s1) eqn:Ha; cbn [andb] in H.
      * destruct (stop_flag s1) eqn:Hs; cbn [negb] in H.
        -- inversion H; subst s' evs r. exists [e1]. cbn [concat]. rewrite app_nil_r.
           repeat split; auto. apply li_last; auto.
        -- destruct (run_loop f s1 beh mode) as [[s2 e2] r2] eqn:E2.
           inversion H; subst s2 evs r2.
           destruct (IH _ _ _ _ _ _ E2) as (its & Hits & -> & ->).
           exists (e1 :: its). repeat split; auto. eapply li_step; eauto.
      * inversion H; subst s' evs r. exists [e1]. cbn [concat]. rewrite app_nil_r.
        repeat split; auto. apply li_last; auto.
    + inversion H; subst s' evs r. exists [e1]. cbn [concat]. rewrite app_nil_r.
      repeat split; auto. apply li_last; auto.
Qed.

Lemma loop_iters_words beh mode s its s' :
  loop_iters beh mode s its s' -> Forall phase_word (map cb_tags its).
Proof.
  induction 1; cbn [map]; repeat constructor; eauto using iteration_phase_order.
Qed.

(* uv_run: (one timer pass, DEFAULT only) then iterations, then the result *)
Definition uv_start (s : lstate) (beh : nat -> list lop) (sa : lstate) : Prop :=
  let s0 := if loop_alive s then s else update_time s in
  sa = s0 \/ sa = fst (l_run_timers (update_time s0) beh).

Theorem uv_run_trace fuel s beh mode s' evs :
  uv_run fuel s beh mode = (s', evs) ->
  exists e0 its r sa sb,
    evs = e0 ++ concat its ++ [VRun r] /\
    Forall (eq 0%nat) (cb_tags e0) /\
    (mode <> 0%nat -> e0 = []) /\
    uv_start s beh sa /\
    loop_iters beh mode sa its sb /\
    Forall phase_word (map cb_tags its) /\
    s' = set_stop sb false.
Proof.
  rewrite uv_run_alt_eq. unfold uv_run_alt, uv_start. intros H.
  set (r := loop_alive s) in *.
  set (s0 := if r then s else update_time s) in *.
  destruct (Nat.eqb mode 0 && r && negb (stop_flag s0)) eqn:Ec.
  - destruct (l_run_timers (update_time s0) beh) as [s1 e0] eqn:E0.
    destruct (r && negb (stop_flag s1)) eqn:Ec2.
    + destruct (run_loop fuel s1 beh mode) as [[s2 e1] r'] eqn:E1.
      inversion H; subst.
      destruct (run_loop_iters _ _ _ _ _ _ _ E1) as (its & Hits & -> & ->).
      exists e0, its, (loop_alive s2), s1, s2. repeat split; auto.
      * rewrite <- (snd_eq _ _ _ E0). apply l_run_timers_tags.
      * intros Hm. apply Nat.eqb_neq in Hm. rewrite Hm in Ec. discriminate.
      * eapply loop_iters_words; eauto.
    + inversion H; subst.
      eexists e0, [], _, s1, s1. split; [reflexivity|]. repeat split; auto.
      * rewrite <- (snd_eq _ _ _ E0). apply l_run_timers_tags.
      * intros Hm. apply Nat.eqb_neq in Hm. rewrite Hm in Ec. discriminate.
      * constructor.
      * constructor.
  - destruct (r && negb (stop_flag s0)) eqn:Ec2.
    + destruct (run_loop fuel s0 beh mode) as [[s2 e1] r'] eqn:E1.
      inversion H; subst.
      destruct (run_loop_iters _ _ _ _ _ _ _ E1) as (its & Hits & -> & ->).
      exists [], its, (loop_alive s2), s0, s2. repeat split; auto.
      * constructor.
      * eapply loop_iters_words; eauto.
    + inversion H; subst.
      eexists [], [], _, s0, s0. split; [reflexivity|]. repeat split; auto; constructor.
Qed.
