(* C18 proofs, part 8: soundness of inet_pton6 with respect to the RFC 4291
   grammar of Spec/InetSpec.v: whatever is accepted is a text of the grammar
   and the bytes produced are the grammar's value. *)
From UV Require Import Lib.Base Model.Inet Spec.InetSpec Proofs.InetProofs4 Proofs.InetProofs6.
Local Open Scope N_scope.

(* ------------------------------------------------------------------ *)
(* hex digits                                                          *)
(* ------------------------------------------------------------------ *)
Definition hv (c : N) : N := match hexval c with Some d => d | None => 0 end.
Definition isx (c : N) : Prop := hexval c <> None.
Definition hstep (v c : N) : N := v * 16 + hv c.

Lemma hexval_xdigit c d : hexval c = Some d -> xdigit_val c d /\ d < 16.
Proof.
  unfold hexval, xdigit_val.
  destruct ((48 <=? c) && (c <=? 57)) eqn:E1.
  { apply andb_true_iff in E1. rewrite !N.leb_le in E1. intros H; inversion H; subst. split; [left|]; lia. }
  destruct ((97 <=? c) && (c <=? 102)) eqn:E2.
  { apply andb_true_iff in E2. rewrite !N.leb_le in E2. intros H; inversion H; subst.
    split; [right; left|]; lia. }
  destruct ((65 <=? c) && (c <=? 70)) eqn:E3.
  { apply andb_true_iff in E3. rewrite !N.leb_le in E3. intros H; inversion H; subst.
    split; [right; right|]; lia. }
  discriminate.
Qed.

Lemma isx_xdigit c : isx c -> xdigit_val c (hv c) /\ hv c < 16.
Proof.
  unfold isx, hv. destruct (hexval c) as [d|] eqn:E; [|congruence]. intros _.
  apply hexval_xdigit. exact E.
Qed.

Lemma h16_digits_fold ds :
  ds <> [] -> Forall isx ds -> h16_digits ds (fold_left hstep ds 0).
Proof.
  induction ds as [|c ds IH] using rev_ind; [congruence|]. intros _ HF.
  apply Forall_app in HF. destruct HF as [HF Hc]. inversion Hc as [|? ? Hc' _]; subst.
  rewrite fold_left_app. cbn [fold_left]. unfold hstep at 1.
  destruct ds as [|c0 ds].
  - cbn [fold_left app]. replace (0 * 16 + hv c) with (hv c) by lia.
    apply h16_one. apply isx_xdigit. exact Hc'.
  - apply h16_snoc; [apply IH; [discriminate|exact HF]|]. apply isx_xdigit. exact Hc'.
Qed.

Lemma fold_hstep_bound ds : Forall isx ds -> (length ds <= 4)%nat -> fold_left hstep ds 0 < 65536.
Proof.
  intros HF Hl.
  assert (Hb : forall c, isx c -> hv c < 16) by (intros c Hc; apply isx_xdigit; exact Hc).
  destruct ds as [|c1 [|c2 [|c3 [|c4 [|c5 ds]]]]]; cbn [fold_left]; unfold hstep;
    repeat match goal with H : Forall _ (_ :: _) |- _ => inversion H; clear H; subst end;
    repeat match goal with H : isx ?c |- _ => apply Hb in H end;
    try lia.
  simpl in Hl. lia.
Qed.

(* ------------------------------------------------------------------ *)
(* one token of the loop                                               *)
(* ------------------------------------------------------------------ *)
Lemma in_tok s : forall ct out cp seen val b,
  seen <= 4 ->
  pton6_loop s ct out cp seen val = (0%Z, b) ->
  exists ds rest, s = ds ++ rest /\ Forall isx ds /\ seen + nlen ds <= 4 /\
    let seen' := seen + nlen ds in
    let val' := fold_left hstep ds val in
    match rest with
    | [] => pton6_finish out cp seen' val' = (0%Z, b)
    | c :: r =>
        (c = 58 /\
         ((seen' = 0 /\ cp = None /\
           pton6_loop r r out (Some (length out)) 0 val' = (0%Z, b)) \/
          (seen' <> 0 /\ r <> [] /\ nlen out + 2 <= 16 /\
           pton6_loop r r (out ++ [(val' / 256) mod 256; val' mod 256]) cp 0 0 = (0%Z, b)))) \/
        (c = 46 /\ nlen out + 4 <= 16 /\
         exists q, inet_pton4 ct = (0%Z, q) /\ pton6_finish (out ++ q) cp 0 val' = (0%Z, b))
    end.
Proof.
  induction s as [|ch s IH]; intros ct out cp seen val b Hs H.
  - exists [], []. cbn [app nlen length fold_left]. rewrite N.add_0_r.
    repeat split; auto. 
  - cbn [pton6_loop] in H. destruct (hexval ch) as [d|] eqn:Ex.
    + destruct (4 <? seen + 1) eqn:E4; [exfalso; exact (res_neq _ H)|]. apply N.ltb_ge in E4.
      apply IH in H; [|lia]. destruct H as (ds & rest & -> & HF & Hl & Hr).
      exists (ch :: ds), rest. split; [reflexivity|]. split.
      { constructor; [unfold isx; congruence|exact HF]. }
      rewrite nlen_cons. split; [lia|].
      cbv zeta in *. cbn [fold_left].
      replace (hstep val ch) with (val * 16 + d) by (unfold hstep, hv; rewrite Ex; reflexivity).
      replace (seen + (1 + nlen ds)) with (seen + 1 + nlen ds) by lia. exact Hr.
    + exists [], (ch :: s). cbn [app nlen length fold_left]. rewrite N.add_0_r.
      split; [reflexivity|]. split; [constructor|]. split; [lia|].
      destruct (ch =? 58) eqn:E58.
      * apply N.eqb_eq in E58. left. split; [exact E58|].
        destruct (seen =? 0) eqn:E0.
        -- apply N.eqb_eq in E0. subst seen. left. destruct cp; [exfalso; exact (res_neq _ H)|]. auto.
        -- apply N.eqb_neq in E0. right. destruct s as [|c2 s2]; [exfalso; exact (res_neq _ H)|].
           destruct (16 <? nlen out + 2) eqn:E16; [exfalso; exact (res_neq _ H)|].
           apply N.ltb_ge in E16. repeat split; auto. discriminate.
      * destruct ((ch =? 46) && (nlen out + 4 <=? 16)) eqn:E46; [|exfalso; exact (res_neq _ H)].
        apply andb_true_iff in E46. destruct E46 as [Ea Eb]. apply N.eqb_eq in Ea. apply N.leb_le in Eb.
        right. split; [exact Ea|]. split; [exact Eb|].
        destruct (inet_pton4 ct) as [rc q] eqn:E4. destruct rc; try (exfalso; exact (res_neq _ H)).
        exists q. auto.
Qed.

Lemma pton4_dot_first r : inet_pton4 (46 :: r) = (UV_EINVAL, []).
Proof. reflexivity. Qed.

(* what the loop does from the start of a token (seen = 0, val = 0, curtok = s) *)
Lemma tok s out cp b :
  pton6_loop s s out cp 0 0 = (0%Z, b) ->
  (s = [] /\ pton6_finish out cp 0 0 = (0%Z, b)) \/
  (exists h v rest, s = h ++ rest /\ h16_text h v /\ v < 65536 /\ nlen out + 2 <= 16 /\
     ((rest = [] /\ pton6_finish (out ++ [v / 256; v mod 256]) cp 0 0 = (0%Z, b)) \/
      (exists r, rest = 58 :: r /\ r <> [] /\
                 pton6_loop r r (out ++ [v / 256; v mod 256]) cp 0 0 = (0%Z, b)))) \/
  (exists r, s = 58 :: r /\ cp = None /\
             pton6_loop r r out (Some (length out)) 0 0 = (0%Z, b)) \/
  (exists q, dotted_quad s q /\ nlen out + 4 <= 16 /\
             pton6_finish (out ++ q) cp 0 0 = (0%Z, b)).
Proof.
  intros H. apply in_tok in H; [|lia].
  destruct H as (ds & rest & Es & HF & Hl & Hr). cbv zeta in Hr. rewrite N.add_0_l in *.
  destruct ds as [|c0 ds0].
  - (* no hex digit at the start of the token *)
    cbn [app fold_left nlen length] in *. subst rest.
    destruct s as [|c r]; [left; auto|].
    destruct Hr as [(-> & [(_ & Hc & Hr) | (Hne & _)]) | (-> & _ & q & Hq & _)].
    + right; right; left. exists r. auto.
    + exfalso. apply Hne. reflexivity.
    + rewrite pton4_dot_first in Hq. exfalso. exact (res_neq _ Hq).
  - set (h := c0 :: ds0) in *. set (v := fold_left hstep h 0) in *.
    assert (Hlen : (length h <= 4)%nat) by (unfold nlen in Hl; lia).
    assert (Hv : v < 65536) by (apply fold_hstep_bound; assumption).
    assert (Hh : h16_text h v) by (split; [apply h16_digits_fold; [discriminate|exact HF]|exact Hlen]).
    assert (Hne : nlen h <> 0) by (unfold nlen, h; simpl; lia).
    assert (Ehi : (v / 256) mod 256 = v / 256) by (apply N.mod_small; lia).
    destruct rest as [|c r].
    + (* the token ends the string *)
      rewrite app_nil_r in Es. 
      unfold pton6_finish in Hr. apply N.eqb_neq in Hne. rewrite Hne in Hr.
      destruct (16 <? nlen out + 2) eqn:E16; [exfalso; exact (res_neq _ Hr)|]. apply N.ltb_ge in E16.
      right; left. exists h, v, []. rewrite app_nil_r. repeat split; auto; try apply Hh.
      left. split; [reflexivity|]. unfold pton6_finish. cbn [N.eqb]. rewrite <- Ehi. exact Hr.
    + destruct Hr as [(-> & [(H0 & _) | (_ & Hr1 & Hr2 & Hr3)]) | (-> & H4 & q & Hq & Hf)].
      * exfalso. apply Hne. exact H0.
      * right; left. exists h, v, (58 :: r). repeat split; auto; try apply Hh.
        right. exists r. rewrite <- Ehi. auto.
      * right; right; right. exists q. split; [|split; [exact H4|exact Hf]].
        apply pton4_sound. exact Hq.
Qed.

(* ------------------------------------------------------------------ *)
(* the hand-written shift, for every position of the gap               *)
(* ------------------------------------------------------------------ *)
Lemma shift_spec out c :
  (c <= length out)%nat -> (length out < 16)%nat ->
  shift_loop (length out - c) 1 (length out - c) c (out ++ repeat 0 (16 - length out)) =
  firstn c out ++ repeat 0 (16 - length out) ++ skipn c out.
Proof.
  intros Hc Hl.
  do 16 (destruct out as [|? out];
         [do 16 (destruct c as [|c]; [reflexivity|]); simpl in Hc; lia|]).
  simpl in Hl. lia.
Qed.

Lemma finish_some out c b :
  pton6_finish out (Some c) 0 0 = (0%Z, b) ->
  (length out < 16)%nat -> (c <= length out)%nat ->
  b = firstn c out ++ repeat 0 (16 - length out) ++ skipn c out.
Proof.
  unfold pton6_finish. cbn [N.eqb]. intros H Hl Hc.
  destruct (nlen out =? 16); [exfalso; exact (res_neq _ H)|].
  inversion H. apply shift_spec; assumption.
Qed.

Lemma finish_some_len out c b :
  pton6_finish out (Some c) 0 0 = (0%Z, b) -> nlen out <> 16.
Proof.
  unfold pton6_finish. cbn [N.eqb]. intros H.
  destruct (nlen out =? 16) eqn:E; [exfalso; exact (res_neq _ H)|]. apply N.eqb_neq. exact E.
Qed.

Lemma finish_none out b :
  pton6_finish out None 0 0 = (0%Z, b) -> length out = 16%nat /\ b = out.
Proof.
  unfold pton6_finish. cbn [N.eqb]. intros H.
  destruct (nlen out =? 16) eqn:E; [|exfalso; exact (res_neq _ H)].
  apply N.eqb_eq in E. unfold nlen in E. assert (length out = 16%nat) by lia.
  split; [assumption|congruence].
Qed.

(* ------------------------------------------------------------------ *)
(* list and grammar helpers                                            *)
(* ------------------------------------------------------------------ *)
Lemma firstn_app_le {A} (l x : list A) c : (c <= length l)%nat -> firstn c (l ++ x) = firstn c l.
Proof.
  intros H. rewrite firstn_app. replace (c - length l)%nat with 0%nat by lia.
  simpl. apply app_nil_r.
Qed.

Lemma skipn_app_le {A} (l x : list A) c : (c <= length l)%nat -> skipn c (l ++ x) = skipn c l ++ x.
Proof.
  intros H. rewrite skipn_app. replace (c - length l)%nat with 0%nat by lia. reflexivity.
Qed.

Lemma bytes_of_words_app a b : bytes_of_words (a ++ b) = bytes_of_words a ++ bytes_of_words b.
Proof. induction a as [|w a IH]; [reflexivity|]. simpl. rewrite IH. reflexivity. Qed.

Lemma bytes_of_words_zeros k : bytes_of_words (repeat 0 k) = repeat 0 (2 * k).
Proof.
  induction k as [|k IH]; [reflexivity|]. replace (2 * S k)%nat with (S (S (2 * k))) by lia.
  simpl repeat. simpl bytes_of_words. rewrite IH. reflexivity.
Qed.

Lemma bytes_of_words_len ws : length (bytes_of_words ws) = (2 * length ws)%nat.
Proof. induction ws as [|w t IH]; [reflexivity|]. simpl. lia. Qed.

Lemma dotted_quad_bytes s q :
  dotted_quad s q -> exists a b c d, q = [a; b; c; d] /\ a <= 255 /\ b <= 255 /\ c <= 255 /\ d <= 255.
Proof.
  intros (s0 & s1 & s2 & s3 & v0 & v1 & v2 & v3 & _ & O0 & O1 & O2 & O3 & ->).
  exists v0, v1, v2, v3. split; [reflexivity|].
  destruct O0 as (_ & _ & _ & _ & ?), O1 as (_ & _ & _ & _ & ?),
           O2 as (_ & _ & _ & _ & ?), O3 as (_ & _ & _ & _ & ?). auto.
Qed.

Lemma bw_quad a b c d : a <= 255 -> b <= 255 -> c <= 255 -> d <= 255 ->
  bytes_of_words [a * 256 + b; c * 256 + d] = [a; b; c; d].
Proof. intros. cbn [bytes_of_words]. repeat f_equal; lia. Qed.

Lemma xdigit_ne58 c d : xdigit_val c d -> c <> 58.
Proof. unfold xdigit_val. lia. Qed.

Lemma h16_digits_head s v : h16_digits s v -> exists c t, s = c :: t /\ c <> 58.
Proof.
  induction 1 as [c d Hx | s v c d Hs IH Hx].
  - exists c, []. split; [reflexivity|]. eapply xdigit_ne58; eauto.
  - destruct IH as (c0 & t & -> & Hc). exists c0, (t ++ [c]). auto.
Qed.

Lemma h16_head s v : h16_text s v -> exists c t, s = c :: t /\ c <> 58.
Proof. intros [H _]. eapply h16_digits_head; eauto. Qed.

Lemma dotted_head s q : dotted_quad s q -> exists c t, s = c :: t /\ c <> 58.
Proof.
  intros (s0 & s1 & s2 & s3 & v0 & v1 & v2 & v3 & -> & (Hne & HF & _) & _).
  destruct s0 as [|c t]; [congruence|]. inversion HF as [|? ? Hc _]; subst.
  exists c, (t ++ 46 :: s1 ++ 46 :: s2 ++ 46 :: s3). split; [reflexivity|].
  unfold digit in Hc. lia.
Qed.

Lemma tseq_head s ws : tseq_text s ws -> exists c t, s = c :: t /\ c <> 58.
Proof.
  induction 1 as [s v H | s a b c d H | s v t ws H _ _].
  - eapply h16_head; eauto.
  - eapply dotted_head; eauto.
  - destruct (h16_head _ _ H) as (c0 & t0 & -> & Hc). exists c0, (t0 ++ 58 :: t). auto.
Qed.

Lemma hseq_head s ws : hseq_text s ws -> exists c t, s = c :: t /\ c <> 58.
Proof.
  induction 1 as [s v H | s v t ws H _ _].
  - eapply h16_head; eauto.
  - destruct (h16_head _ _ H) as (c0 & t0 & -> & Hc). exists c0, (t0 ++ 58 :: t). auto.
Qed.

Lemma opt_tseq_ne s ws : opt_tseq s ws -> s <> [] -> tseq_text s ws.
Proof. intros [[-> _]|H] Hne; [congruence|exact H]. Qed.

(* ------------------------------------------------------------------ *)
(* after the "::" : the rest is an optional tail sequence              *)
(* ------------------------------------------------------------------ *)
Lemma after_gap : forall n s, n = length s -> forall out c b,
  (c <= length out)%nat -> (length out <= 16)%nat ->
  pton6_loop s s out (Some c) 0 0 = (0%Z, b) ->
  exists ws, opt_tseq s ws /\ (length out + 2 * length ws < 16)%nat /\
    b = firstn c out ++ repeat 0 (16 - length out - 2 * length ws) ++ skipn c out ++
        bytes_of_words ws.
Proof.
  induction n as [n IH] using lt_wf_ind. intros s En out c b Hc Hl H.
  apply tok in H.
  destruct H as [(-> & Hf) | [(h & v & rest & -> & Hh & Hv & Ho & Hr) | [(r & _ & Hcp & _) | (q & Hq & Ho & Hf)]]].
  - (* end of string right after "::" *)
    pose proof (finish_some_len _ _ _ Hf) as Hn. unfold nlen in Hn.
    exists []. split; [left; auto|]. split; [simpl; lia|].
    rewrite (finish_some _ _ _ Hf) by lia. simpl. rewrite app_nil_r, Nat.sub_0_r. reflexivity.
  - unfold nlen in Ho.
    destruct Hr as [(-> & Hf) | (r & -> & Hrne & Hr)].
    + pose proof (finish_some_len _ _ _ Hf) as Hn. unfold nlen in Hn. rewrite app_length in Hn. simpl in Hn.
      exists [v]. rewrite app_nil_r. split; [right; apply tseq_h16; exact Hh|]. split; [simpl; lia|].
      rewrite (finish_some _ _ _ Hf) by (rewrite app_length; simpl; lia).
      rewrite firstn_app_le, skipn_app_le by lia. rewrite app_length. cbn [length].
      replace (16 - (length out + 2))%nat with (16 - length out - 2)%nat by lia.
      rewrite <- ?app_assoc. reflexivity.
    + eapply IH in Hr; [| | reflexivity | |].
      * destruct Hr as (ws & Hws & Hlen & ->).
        apply opt_tseq_ne in Hws; [|exact Hrne].
        exists (v :: ws). split; [right; apply tseq_cons; assumption|].
        rewrite app_length in *. simpl length in *. split; [lia|].
        rewrite firstn_app_le, skipn_app_le by lia.
        replace (16 - (length out + 2) - 2 * length ws)%nat
          with (16 - length out - 2 * S (length ws))%nat by lia.
        rewrite <- ?app_assoc. reflexivity.
      * rewrite En, app_length. simpl. lia.
      * rewrite app_length. simpl. lia.
      * rewrite app_length. simpl. lia.
  - discriminate.
  - destruct (dotted_quad_bytes _ _ Hq) as (x0 & x1 & x2 & x3 & -> & B0 & B1 & B2 & B3).
    unfold nlen in Ho.
    pose proof (finish_some_len _ _ _ Hf) as Hn. unfold nlen in Hn. rewrite app_length in Hn. simpl in Hn.
    exists [x0 * 256 + x1; x2 * 256 + x3]. split; [right; apply tseq_v4; exact Hq|].
    split; [simpl; lia|].
    rewrite (finish_some _ _ _ Hf) by (rewrite app_length; simpl; lia).
    rewrite firstn_app_le, skipn_app_le by lia. rewrite app_length. cbn [length].
    rewrite bw_quad by assumption.
    replace (16 - (length out + 4))%nat with (16 - length out - 2 * 2)%nat by lia.
    rewrite <- ?app_assoc. reflexivity.
Qed.

(* ------------------------------------------------------------------ *)
(* before any "::"                                                     *)
(* ------------------------------------------------------------------ *)
Lemma before_gap : forall n s, n = length s -> forall out b,
  (length out <= 16)%nat ->
  pton6_loop s s out None 0 0 = (0%Z, b) ->
  (exists ws, opt_tseq s ws /\ (length out + 2 * length ws = 16)%nat /\
              b = out ++ bytes_of_words ws) \/
  (exists s1 s2 ws1 ws2,
     ((s1 = [] /\ ws1 = [] /\ s = 58 :: s2) \/ (hseq_text s1 ws1 /\ s = s1 ++ 58 :: 58 :: s2)) /\
     opt_tseq s2 ws2 /\ (length out + 2 * length ws1 + 2 * length ws2 < 16)%nat /\
     b = out ++ bytes_of_words ws1 ++
         repeat 0 (16 - length out - 2 * length ws1 - 2 * length ws2) ++ bytes_of_words ws2).
Proof.
  induction n as [n IH] using lt_wf_ind. intros s En out b Hl H.
  apply tok in H.
  destruct H as [(-> & Hf) | [(h & v & rest & -> & Hh & Hv & Ho & Hr) | [(r & -> & _ & Hr) | (q & Hq & Ho & Hf)]]].
  - apply finish_none in Hf. destruct Hf as [Hlen ->].
    left. exists []. split; [left; auto|]. split; [simpl; lia|]. rewrite app_nil_r. reflexivity.
  - unfold nlen in Ho.
    destruct Hr as [(-> & Hf) | (r & -> & Hrne & Hr)].
    + apply finish_none in Hf. destruct Hf as [Hlen ->]. rewrite app_length in Hlen. cbn [length] in Hlen.
      left. exists [v]. rewrite app_nil_r. split; [right; apply tseq_h16; exact Hh|].
      split; [simpl; lia|]. reflexivity.
    + eapply IH in Hr; [| | reflexivity |].
      * rewrite app_length in Hr. cbn [length] in Hr.
        destruct Hr as [(ws & Hws & Hlen & ->) | (s1 & s2 & ws1 & ws2 & Hs1 & Hws2 & Hlen & ->)].
        -- apply opt_tseq_ne in Hws; [|exact Hrne].
           left. exists (v :: ws). split; [right; apply tseq_cons; assumption|].
           split; [simpl; lia|]. rewrite <- app_assoc. reflexivity.
        -- right. destruct Hs1 as [(-> & -> & ->) | (Hs1 & ->)].
           ++ exists h, s2, [v], ws2. split; [right; split; [apply hseq_one; exact Hh|reflexivity]|].
              split; [exact Hws2|]. cbn [length] in *. split; [lia|].
              rewrite <- app_assoc. cbn [bytes_of_words app].
              replace (16 - (length out + 2) - 2 * 0 - 2 * length ws2)%nat
                with (16 - length out - 2 * 1 - 2 * length ws2)%nat by lia.
              reflexivity.
           ++ exists (h ++ 58 :: s1), s2, (v :: ws1), ws2.
              split; [right; split; [apply hseq_cons; assumption|rewrite <- app_assoc; reflexivity]|].
              split; [exact Hws2|]. cbn [length] in *. split; [lia|].
              rewrite <- app_assoc. cbn [bytes_of_words app].
              replace (16 - (length out + 2) - 2 * length ws1 - 2 * length ws2)%nat
                with (16 - length out - 2 * S (length ws1) - 2 * length ws2)%nat by lia.
              reflexivity.
      * rewrite En, app_length. simpl. lia.
      * rewrite app_length. simpl. lia.
  - (* the second colon of "::" *)
    eapply after_gap in Hr; [|reflexivity|apply Nat.le_refl|exact Hl].
    destruct Hr as (ws & Hws & Hlen & ->).
    right. exists [], r, [], ws. split; [left; auto|]. split; [exact Hws|].
    cbn [length bytes_of_words app]. split; [lia|].
    rewrite firstn_all, skipn_all. cbn [app].
    replace (16 - length out - 2 * 0 - 2 * length ws)%nat
      with (16 - length out - 2 * length ws)%nat by lia.
    reflexivity.
  - destruct (dotted_quad_bytes _ _ Hq) as (x0 & x1 & x2 & x3 & -> & B0 & B1 & B2 & B3).
    apply finish_none in Hf. destruct Hf as [Hlen ->]. rewrite app_length in Hlen. cbn [length] in Hlen.
    left. exists [x0 * 256 + x1; x2 * 256 + x3]. split; [right; apply tseq_v4; exact Hq|].
    split; [simpl; lia|]. rewrite bw_quad by assumption. reflexivity.
Qed.

(* ------------------------------------------------------------------ *)
(* soundness                                                           *)
(* ------------------------------------------------------------------ *)
Theorem pton6_sound s b : inet_pton6 s = (0%Z, b) -> ip6_text s b.
Proof.
  unfold inet_pton6. intros H.
  assert (Hgap : forall s2 ws2 : list N, opt_tseq s2 ws2 -> forall (s1 : list N) ws1,
            opt_hseq s1 ws1 ->
            (0 + 2 * length ws1 + 2 * length ws2 < 16)%nat ->
            ip6_text (s1 ++ 58 :: 58 :: s2)
              ([] ++ bytes_of_words ws1 ++
               repeat 0 (16 - 0 - 2 * length ws1 - 2 * length ws2) ++ bytes_of_words ws2)).
  { intros s2 ws2 H2 s1 ws1 H1 Hlen. right. exists s1, s2, ws1, ws2.
    split; [reflexivity|]. split; [exact H1|]. split; [exact H2|]. split; [lia|].
    rewrite !bytes_of_words_app, bytes_of_words_zeros. cbn [app].
    replace (2 * (8 - length ws1 - length ws2))%nat
      with (16 - 0 - 2 * length ws1 - 2 * length ws2)%nat by lia.
    reflexivity. }
  destruct s as [|c s1].
  - (* empty string *)
    eapply before_gap in H; [|reflexivity|simpl; lia].
    destruct H as [(ws & [[_ ->] | Hws] & Hlen & _) | (s1 & s2 & ws1 & ws2 & [(_ & _ & E) | (Hs1 & E)] & _)].
    + simpl in Hlen. lia.
    + destruct (tseq_head _ _ Hws) as (? & ? & E & _). discriminate.
    + discriminate.
    + destruct (hseq_head _ _ Hs1) as (? & ? & -> & _). discriminate.
  - destruct (c =? 58) eqn:Ec.
    + apply N.eqb_eq in Ec. subst c.
      destruct s1 as [|c1 s2]; [exfalso; exact (res_neq _ H)|].
      destruct (c1 =? 58) eqn:Ec1; [|exfalso; exact (res_neq _ H)].
      apply N.eqb_eq in Ec1. subst c1.
      eapply before_gap in H; [|reflexivity|simpl; lia].
      destruct H as [(ws & [[E _] | Hws] & _) | (t1 & t2 & ws1 & ws2 & [(-> & -> & E) | (Hs1 & E)] & Hws2 & Hlen & ->)].
      * discriminate.
      * destruct (tseq_head _ _ Hws) as (? & ? & E & Hne). inversion E; subst. congruence.
      * inversion E; subst. apply (Hgap t2 ws2 Hws2 [] []); [left; auto|exact Hlen].
      * destruct (hseq_head _ _ Hs1) as (? & ? & -> & Hne). inversion E; subst. congruence.
    + apply N.eqb_neq in Ec.
      eapply before_gap in H; [|reflexivity|simpl; lia].
      destruct H as [(ws & Hws & Hlen & ->) | (t1 & t2 & ws1 & ws2 & [(_ & _ & E) | (Hs1 & E)] & Hws2 & Hlen & ->)].
      * left. exists ws. split; [apply opt_tseq_ne; [exact Hws|discriminate]|].
        simpl in Hlen. split; [lia|reflexivity].
      * inversion E; subst. congruence.
      * rewrite E. apply Hgap; [exact Hws2|right; exact Hs1|exact Hlen].
Qed.

Theorem uv_inet_pton6_sound src b :
  uv_inet_pton AF_INET6 src = (0%Z, b) ->
  exists a, ip6_text a b /\
    (cstr src = a \/ exists z, cstr src = a ++ 37 :: z).
Proof.
  unfold uv_inet_pton. cbn [Z.eqb AF_INET AF_INET6 Pos.eqb].
  destruct (strchr (cstr src) 37) as [len|] eqn:E.
  - destruct (45 <? len)%nat; [intros H; exfalso; exact (res_neq _ H)|].
    intros H. exists (firstn len (cstr src)). split; [apply pton6_sound; exact H|].
    right. exists (skipn (S len) (cstr src)).
    clear H. revert len E. induction (cstr src) as [|x t IH]; intros len E; [discriminate|].
    simpl in E. destruct (x =? 37) eqn:Ex.
    + apply N.eqb_eq in Ex. inversion E; subst. reflexivity.
    + destruct (strchr t 37) as [k|] eqn:Ek; [|discriminate]. inversion E; subst.
      simpl. f_equal. apply IH. reflexivity.
  - intros H. exists (cstr src). split; [apply pton6_sound; exact H|]. left; reflexivity.
Qed.
