(* uv__utf8_decode1 (Model/Idna.v) against table 3-7 (Spec/Utf8Spec.v): the current
   decoder accepts exactly the well-formed sequences; the decoder before commit
   a779eb0 ([..._before]) was sound but accepted ill-formed input. *)
From UV Require Import Lib.Base Model.Idna Spec.Utf8Spec Proofs.IdnaBits.
Local Open Scope N_scope.

Ltac cmp :=
  repeat match goal with
  | |- context [?a <? ?b] => destruct (N.ltb_spec a b); try lia
  | |- context [?a <=? ?b] => destruct (N.leb_spec a b); try lia
  | |- context [?a =? ?b] => destruct (N.eqb_spec a b); try lia
  end.

(* ---- which arm of the switch runs ---- *)
Lemma slow2_before a d r : 192 <= a <= 223 ->
  utf8_decode1_slow_before_a779eb0 (d :: r) a = utf8_tail_before_a779eb0 128 0 128 (N.lor 128 (N.land a 31)) d r.
Proof.
  intros Ha. unfold utf8_decode1_slow_before_a779eb0.
  destruct (N.ltb_spec 247 a); [lia|].
  destruct (N.ltb_spec 239 a); [lia|].
  destruct (N.ltb_spec 223 a); [lia|].
  destruct (N.ltb_spec 191 a); [|lia].
  destruct r as [|x [|y r]]; reflexivity.
Qed.

Lemma slow3_before a c d r : 224 <= a <= 239 ->
  utf8_decode1_slow_before_a779eb0 (c :: d :: r) a = utf8_tail_before_a779eb0 2048 0 (N.lor 128 (N.land a 15)) c d r.
Proof.
  intros Ha. unfold utf8_decode1_slow_before_a779eb0.
  destruct (N.ltb_spec 247 a); [lia|].
  destruct (N.ltb_spec 239 a); [lia|].
  destruct (N.ltb_spec 223 a); [|lia].
  destruct r as [|x r]; reflexivity.
Qed.

Lemma slow4_before a b c d r : 240 <= a <= 247 ->
  utf8_decode1_slow_before_a779eb0 (b :: c :: d :: r) a = utf8_tail_before_a779eb0 65536 (N.land a 7) b c d r.
Proof.
  intros Ha. unfold utf8_decode1_slow_before_a779eb0.
  destruct (N.ltb_spec 247 a); [lia|].
  destruct (N.ltb_spec 239 a); [|lia].
  reflexivity.
Qed.

(* ---- lines 117-134 on three continuation bytes ---- *)
Definition tail_value (a b c d : N) : N :=
  a * 262144 + (b - 128) * 4096 + (c - 128) * 64 + (d - 128).

Lemma tail_cont_before min a b c d r :
  a < 8 -> 128 <= b <= 191 -> 128 <= c <= 191 -> 128 <= d <= 191 ->
  utf8_tail_before_a779eb0 min a b c d r =
    let v := tail_value a b c d in
    if v <? min then (UINT_MAX, r)
    else if 1114111 <? v then (UINT_MAX, r)
    else if (55296 <=? v) && (v <=? 57343) then (UINT_MAX, r)
    else (v, r).
Proof.
  intros Ha Hb Hc Hd. unfold utf8_tail_before_a779eb0.
  rewrite (xor_test_cont b c d Hb Hc Hd). cbn [N.eqb Pos.eqb negb].
  rewrite !land63, shl18, shl12, shl6.
  replace (b mod 64) with (b - 128) by lia.
  replace (c mod 64) with (c - 128) by lia.
  replace (d mod 64) with (d - 128) by lia.
  rewrite (lor_add18 a ((b - 128) * 4096)) by lia.
  replace (a * 262144 + (b - 128) * 4096) with ((a * 64 + (b - 128)) * 4096) by lia.
  rewrite (lor_add12 _ ((c - 128) * 64)) by lia.
  replace ((a * 64 + (b - 128)) * 4096 + (c - 128) * 64)
    with (((a * 64 + (b - 128)) * 64 + (c - 128)) * 64) by lia.
  rewrite (lor_add6 _ (d - 128)) by lia.
  replace (((a * 64 + (b - 128)) * 64 + (c - 128)) * 64 + (d - 128))
    with (tail_value a b c d) by (unfold tail_value; lia).
  reflexivity.
Qed.

(* ---- soundness: every well-formed sequence decodes to its scalar value and
        the pointer advances by exactly its length ---- *)
Theorem utf8_decode_sound_before bs v rest :
  utf8_wf bs v -> utf8_decode1_before_a779eb0 (bs ++ rest) = (v, rest).
Proof.
  intros H. destruct H; unfold rng in *; cbn [app utf8_decode1_before_a779eb0].
  - destruct (N.ltb_spec b1 128); [reflexivity|lia].
  - destruct (N.ltb_spec b1 128); [lia|].
    rewrite slow2_before by lia. rewrite land31.
    rewrite lor128 by lia.
    rewrite tail_cont_before by lia. cbv zeta. unfold tail_value, v2.
    replace (0 * 262144 + (128 - 128) * 4096 + (128 + b1 mod 32 - 128) * 64 + (b2 - 128))
      with ((b1 - 192) * 64 + (b2 - 128)) by lia.
    cmp. reflexivity.
  - destruct (N.ltb_spec b1 128); [lia|]. subst b1.
    rewrite slow3_before by lia. change (N.lor 128 (N.land 224 15)) with 128.
    rewrite tail_cont_before by lia. cbv zeta. unfold tail_value, v3. cmp; cbn [andb]; try lia.
    f_equal; lia.
  - destruct (N.ltb_spec b1 128); [lia|].
    rewrite slow3_before by lia. rewrite land15, lor128 by lia.
    rewrite tail_cont_before by lia. cbv zeta. unfold tail_value, v3.
    replace (0 * 262144 + (128 + b1 mod 16 - 128) * 4096 + (b2 - 128) * 64 + (b3 - 128))
      with ((b1 - 224) * 4096 + (b2 - 128) * 64 + (b3 - 128)) by lia.
    cmp; cbn [andb]; try lia. reflexivity.
  - destruct (N.ltb_spec b1 128); [lia|]. subst b1.
    rewrite slow3_before by lia. change (N.lor 128 (N.land 237 15)) with 141.
    rewrite tail_cont_before by lia. cbv zeta. unfold tail_value, v3. cmp; cbn [andb]; try lia.
    f_equal; lia.
  - destruct (N.ltb_spec b1 128); [lia|].
    rewrite slow3_before by lia. rewrite land15, lor128 by lia.
    rewrite tail_cont_before by lia. cbv zeta. unfold tail_value, v3.
    replace (0 * 262144 + (128 + b1 mod 16 - 128) * 4096 + (b2 - 128) * 64 + (b3 - 128))
      with ((b1 - 224) * 4096 + (b2 - 128) * 64 + (b3 - 128)) by lia.
    cmp; cbn [andb]; try lia. reflexivity.
  - destruct (N.ltb_spec b1 128); [lia|]. subst b1.
    rewrite slow4_before by lia. change (N.land 240 7) with 0.
    rewrite tail_cont_before by lia. cbv zeta. unfold tail_value, v4. cmp; cbn [andb]; try lia.
    f_equal; lia.
  - destruct (N.ltb_spec b1 128); [lia|].
    rewrite slow4_before by lia. rewrite land7.
    rewrite tail_cont_before by lia. cbv zeta. unfold tail_value, v4.
    replace (b1 mod 8 * 262144) with ((b1 - 240) * 262144) by lia.
    cmp; cbn [andb]; try lia. reflexivity.
  - destruct (N.ltb_spec b1 128); [lia|]. subst b1.
    rewrite slow4_before by lia. change (N.land 244 7) with 4.
    rewrite tail_cont_before by lia. cbv zeta. unfold tail_value, v4. cmp; cbn [andb]; try lia.
    f_equal; lia.
Qed.

(* the value of a well-formed sequence is a scalar value below 2^32-1, so
   "decodes to its scalar value" also says "is not reported as an error" *)
Lemma utf8_wf_scalar bs v : utf8_wf bs v -> scalar v.
Proof.
  unfold scalar. intros H; destruct H; unfold rng in *; unfold v2, v3, v4; lia.
Qed.

Lemma utf8_wf_length bs v : utf8_wf bs v -> (1 <= length bs <= 4)%nat.
Proof. intros H; destruct H; cbn; lia. Qed.

(* ------------------------------------------------------------------ *)
(* The full statement, its refutation for the decoder before a779eb0,  *)
(* and its proof for the current decoder.                              *)
(* ------------------------------------------------------------------ *)

(* "a sequence is accepted exactly when it starts with a well-formed one" *)
Definition utf8_decode_iff_wellformed (dec : list N -> N * list N) : Prop :=
  forall s, s <> [] -> Forall byte s ->
    (fst (dec s) <> UINT_MAX <-> utf8_wf_prefix s).

Lemma not_wf_prefix_E4_41_41 : ~ utf8_wf_prefix [228; 65; 65].
Proof.
  intros (bs & v & rest & E & W).
  destruct W; unfold rng in *; cbn in E; injection E; intros; subst; lia.
Qed.

Lemma not_wf_prefix_F1_80_80 : ~ utf8_wf_prefix [241; 128; 128].
Proof.
  intros (bs & v & rest & E & W).
  destruct W; unfold rng in *; cbn in E; try (injection E; intros; subst; lia).
  all: discriminate E.
Qed.

Lemma bytes3 a b c : a < 256 -> b < 256 -> c < 256 -> Forall byte [a; b; c].
Proof. intros; repeat constructor; assumption. Qed.

Theorem utf8_before_a779eb0_accepts_illformed :
  (exists s, s <> [] /\ Forall byte s /\
     ~ (fst (utf8_decode1_before_a779eb0 s) <> UINT_MAX <-> utf8_wf_prefix s)) /\
  (* E4 41 41: the xor of two equal non-continuation bytes passes the test *)
  (utf8_decode1_before_a779eb0 [228; 65; 65] = (16449, []) /\ ~ utf8_wf_prefix [228; 65; 65]) /\
  (* F1 80 80 at the end of the input: a truncated four-byte form is read as
     a three-byte form *)
  (utf8_decode1_before_a779eb0 [241; 128; 128] = (4096, []) /\ ~ utf8_wf_prefix [241; 128; 128]) /\
  ~ utf8_decode_iff_wellformed utf8_decode1_before_a779eb0.
Proof.
  assert (A : utf8_decode1_before_a779eb0 [228; 65; 65] = (16449, [])) by (vm_compute; reflexivity).
  assert (B : utf8_decode1_before_a779eb0 [241; 128; 128] = (4096, [])) by (vm_compute; reflexivity).
  assert (F : Forall byte [228; 65; 65]) by (apply bytes3; reflexivity).
  assert (W : ~ (fst (utf8_decode1_before_a779eb0 [228; 65; 65]) <> UINT_MAX <-> utf8_wf_prefix [228; 65; 65])).
  { intros [H _]. apply not_wf_prefix_E4_41_41. apply H. rewrite A. cbn. discriminate. }
  split; [|split; [|split; [|]]].
  - exists [228; 65; 65]. split; [discriminate|]. split; [exact F|exact W].
  - split; [exact A|exact not_wf_prefix_E4_41_41].
  - split; [exact B|exact not_wf_prefix_F1_80_80].
  - intros H. apply W. apply H; [discriminate|exact F].
Qed.

(* ---- the current decoder ---- *)
Lemma combine a b c d :
  a < 8 -> 128 <= b <= 191 -> 128 <= c <= 191 -> 128 <= d <= 191 ->
  N.lor (N.lor (N.lor (N.shiftl a 18) (N.shiftl (N.land b 63) 12)) (N.shiftl (N.land c 63) 6))
        (N.land d 63) = tail_value a b c d.
Proof.
  intros Ha Hb Hc Hd.
  rewrite !land63, shl18, shl12, shl6.
  replace (b mod 64) with (b - 128) by lia.
  replace (c mod 64) with (c - 128) by lia.
  replace (d mod 64) with (d - 128) by lia.
  rewrite (lor_add18 a ((b - 128) * 4096)) by lia.
  replace (a * 262144 + (b - 128) * 4096) with ((a * 64 + (b - 128)) * 4096) by lia.
  rewrite (lor_add12 _ ((c - 128) * 64)) by lia.
  replace ((a * 64 + (b - 128)) * 4096 + (c - 128) * 64)
    with (((a * 64 + (b - 128)) * 64 + (c - 128)) * 64) by lia.
  rewrite (lor_add6 _ (d - 128)) by lia.
  unfold tail_value; lia.
Qed.

Lemma tail_cont min a b c d r :
  a < 8 -> 128 <= b <= 191 -> 128 <= c <= 191 -> 128 <= d <= 191 ->
  utf8_tail min a b c d r =
    let v := tail_value a b c d in
    if v <? min then (UINT_MAX, r)
    else if 1114111 <? v then (UINT_MAX, r)
    else if (55296 <=? v) && (v <=? 57343) then (UINT_MAX, r)
    else (v, r).
Proof.
  intros Ha Hb Hc Hd. unfold utf8_tail.
  rewrite !land192_cont' by lia.
  replace ((128 <=? b) && (b <=? 191)) with true by (symmetry; apply andb_true_iff; split; apply N.leb_le; lia).
  replace ((128 <=? c) && (c <=? 191)) with true by (symmetry; apply andb_true_iff; split; apply N.leb_le; lia).
  replace ((128 <=? d) && (d <=? 191)) with true by (symmetry; apply andb_true_iff; split; apply N.leb_le; lia).
  cbn [andb negb]. rewrite combine by assumption. reflexivity.
Qed.

Lemma tail_inv min a b c d r :
  a < 8 -> b < 256 -> c < 256 -> d < 256 ->
  fst (utf8_tail min a b c d r) <> UINT_MAX ->
  128 <= b <= 191 /\ 128 <= c <= 191 /\ 128 <= d <= 191 /\
  utf8_tail min a b c d r = (tail_value a b c d, r) /\
  min <= tail_value a b c d <= 1114111 /\
  ~ (55296 <= tail_value a b c d <= 57343).
Proof.
  intros Ha Hb Hc Hd H.
  assert (C : (128 <= b <= 191 /\ 128 <= c <= 191 /\ 128 <= d <= 191) \/
              ~ (128 <= b <= 191 /\ 128 <= c <= 191 /\ 128 <= d <= 191)) by lia.
  destruct C as [(Cb & Cc & Cd)|C].
  - rewrite tail_cont in * by assumption. cbv zeta in *.
    destruct (N.ltb_spec (tail_value a b c d) min); [cbn in H; congruence|].
    destruct (N.ltb_spec 1114111 (tail_value a b c d)); [cbn in H; congruence|].
    destruct (N.leb_spec 55296 (tail_value a b c d));
      destruct (N.leb_spec (tail_value a b c d) 57343); cbn [andb] in *;
      try (cbn in H; congruence); repeat split; try assumption; try lia.
  - exfalso. apply H. unfold utf8_tail. rewrite !land192_cont' by assumption.
    destruct (N.leb_spec 128 b); destruct (N.leb_spec b 191);
    destruct (N.leb_spec 128 c); destruct (N.leb_spec c 191);
    destruct (N.leb_spec 128 d); destruct (N.leb_spec d 191); cbn [andb negb fst]; try reflexivity; lia.
Qed.

Lemma slow2 a d r : 192 <= a <= 223 ->
  utf8_decode1_slow (d :: r) a = utf8_tail 128 0 128 (N.lor 128 (N.land a 31)) d r.
Proof.
  intros Ha. unfold utf8_decode1_slow.
  destruct (N.ltb_spec 247 a); [lia|].
  destruct (N.ltb_spec 239 a); [lia|].
  destruct (N.ltb_spec 223 a); [lia|].
  destruct (N.ltb_spec 191 a); [|lia].
  destruct r as [|x [|y r]]; reflexivity.
Qed.

Lemma slow3 a c d r : 224 <= a <= 239 ->
  utf8_decode1_slow (c :: d :: r) a = utf8_tail 2048 0 (N.lor 128 (N.land a 15)) c d r.
Proof.
  intros Ha. unfold utf8_decode1_slow.
  destruct (N.ltb_spec 247 a); [lia|].
  destruct (N.ltb_spec 239 a); [lia|].
  destruct (N.ltb_spec 223 a); [|lia].
  destruct r as [|x r]; reflexivity.
Qed.

Lemma slow4 a b c d r : 240 <= a <= 247 ->
  utf8_decode1_slow (b :: c :: d :: r) a = utf8_tail 65536 (N.land a 7) b c d r.
Proof.
  intros Ha. unfold utf8_decode1_slow.
  destruct (N.ltb_spec 247 a); [lia|].
  destruct (N.ltb_spec 239 a); [|lia].
  reflexivity.
Qed.

Theorem utf8_decode_sound bs v rest :
  utf8_wf bs v -> utf8_decode1 (bs ++ rest) = (v, rest).
Proof.
  intros H. destruct H; unfold rng in *; cbn [app utf8_decode1].
  - destruct (N.ltb_spec b1 128); [reflexivity|lia].
  - destruct (N.ltb_spec b1 128); [lia|].
    rewrite slow2 by lia. rewrite land31.
    rewrite lor128 by lia.
    rewrite tail_cont by lia. cbv zeta. unfold tail_value, v2.
    replace (0 * 262144 + (128 - 128) * 4096 + (128 + b1 mod 32 - 128) * 64 + (b2 - 128))
      with ((b1 - 192) * 64 + (b2 - 128)) by lia.
    cmp. reflexivity.
  - destruct (N.ltb_spec b1 128); [lia|]. subst b1.
    rewrite slow3 by lia. change (N.lor 128 (N.land 224 15)) with 128.
    rewrite tail_cont by lia. cbv zeta. unfold tail_value, v3. cmp; cbn [andb]; try lia.
    f_equal; lia.
  - destruct (N.ltb_spec b1 128); [lia|].
    rewrite slow3 by lia. rewrite land15, lor128 by lia.
    rewrite tail_cont by lia. cbv zeta. unfold tail_value, v3.
    replace (0 * 262144 + (128 + b1 mod 16 - 128) * 4096 + (b2 - 128) * 64 + (b3 - 128))
      with ((b1 - 224) * 4096 + (b2 - 128) * 64 + (b3 - 128)) by lia.
    cmp; cbn [andb]; try lia. reflexivity.
  - destruct (N.ltb_spec b1 128); [lia|]. subst b1.
    rewrite slow3 by lia. change (N.lor 128 (N.land 237 15)) with 141.
    rewrite tail_cont by lia. cbv zeta. unfold tail_value, v3. cmp; cbn [andb]; try lia.
    f_equal; lia.
  - destruct (N.ltb_spec b1 128); [lia|].
    rewrite slow3 by lia. rewrite land15, lor128 by lia.
    rewrite tail_cont by lia. cbv zeta. unfold tail_value, v3.
    replace (0 * 262144 + (128 + b1 mod 16 - 128) * 4096 + (b2 - 128) * 64 + (b3 - 128))
      with ((b1 - 224) * 4096 + (b2 - 128) * 64 + (b3 - 128)) by lia.
    cmp; cbn [andb]; try lia. reflexivity.
  - destruct (N.ltb_spec b1 128); [lia|]. subst b1.
    rewrite slow4 by lia. change (N.land 240 7) with 0.
    rewrite tail_cont by lia. cbv zeta. unfold tail_value, v4. cmp; cbn [andb]; try lia.
    f_equal; lia.
  - destruct (N.ltb_spec b1 128); [lia|].
    rewrite slow4 by lia. rewrite land7.
    rewrite tail_cont by lia. cbv zeta. unfold tail_value, v4.
    replace (b1 mod 8 * 262144) with ((b1 - 240) * 262144) by lia.
    cmp; cbn [andb]; try lia. reflexivity.
  - destruct (N.ltb_spec b1 128); [lia|]. subst b1.
    rewrite slow4 by lia. change (N.land 244 7) with 4.
    rewrite tail_cont by lia. cbv zeta. unfold tail_value, v4. cmp; cbn [andb]; try lia.
    f_equal; lia.
Qed.

Lemma form2 a d r : 192 <= a <= 223 -> d < 256 ->
  fst (utf8_tail 128 0 128 (N.lor 128 (N.land a 31)) d r) <> UINT_MAX ->
  exists v, utf8_wf [a; d] v.
Proof.
  intros Ha Hd H. rewrite land31, lor128 in H by lia.
  apply tail_inv in H; try lia.
  destruct H as (_ & _ & Cd & _ & Hv & _). unfold tail_value in Hv.
  exists (v2 a d). apply wf_C2_DF; unfold rng; lia.
Qed.

Lemma form3 a c d r : 224 <= a <= 239 -> c < 256 -> d < 256 ->
  fst (utf8_tail 2048 0 (N.lor 128 (N.land a 15)) c d r) <> UINT_MAX ->
  exists v, utf8_wf [a; c; d] v.
Proof.
  intros Ha Hc Hd H. rewrite land15, lor128 in H by lia.
  apply tail_inv in H; try lia.
  destruct H as (_ & Cc & Cd & _ & Hv & Hs). unfold tail_value in Hv, Hs.
  exists (v3 a c d).
  assert (C : a = 224 \/ 225 <= a <= 236 \/ a = 237 \/ 238 <= a <= 239) by lia.
  destruct C as [C|[C|[C|C]]].
  - apply wf_E0; unfold rng; lia.
  - apply wf_E1_EC; unfold rng; lia.
  - apply wf_ED; unfold rng; lia.
  - apply wf_EE_EF; unfold rng; lia.
Qed.

Lemma form4 a b c d r : 240 <= a <= 247 -> b < 256 -> c < 256 -> d < 256 ->
  fst (utf8_tail 65536 (N.land a 7) b c d r) <> UINT_MAX ->
  exists v, utf8_wf [a; b; c; d] v.
Proof.
  intros Ha Hb Hc Hd H. rewrite land7 in H.
  apply tail_inv in H; try lia.
  destruct H as (Cb & Cc & Cd & _ & Hv & Hs). unfold tail_value in Hv, Hs.
  exists (v4 a b c d).
  assert (C : a = 240 \/ 241 <= a <= 243 \/ a = 244 \/ 245 <= a) by lia.
  destruct C as [C|[C|[C|C]]].
  - apply wf_F0; unfold rng; lia.
  - apply wf_F1_F3; unfold rng; lia.
  - apply wf_F4; unfold rng; lia.
  - exfalso. lia.
Qed.

Theorem utf8_decode_complete s :
  s <> [] -> Forall byte s -> fst (utf8_decode1 s) <> UINT_MAX -> utf8_wf_prefix s.
Proof.
  intros Hne HB H. destruct s as [|a rest]; [congruence|]. clear Hne.
  inversion HB as [|? ? Ba Brest]; subst. unfold byte in Ba.
  cbn [utf8_decode1] in H.
  destruct (N.ltb_spec a 128) as [La|La].
  { exists [a], a, rest. split; [reflexivity|]. apply wf_00_7F; unfold rng; lia. }
  assert (W2 : forall d r, rest = d :: r -> 192 <= a <= 223 ->
            fst (utf8_tail 128 0 128 (N.lor 128 (N.land a 31)) d r) <> UINT_MAX ->
            utf8_wf_prefix (a :: rest)).
  { intros d r -> Ha T. inversion Brest; subst.
    destruct (form2 a d r Ha ltac:(assumption) T) as [v Wv].
    exists [a; d], v, r. split; [reflexivity|exact Wv]. }
  assert (W3 : forall c d r, rest = c :: d :: r -> 224 <= a <= 239 ->
            fst (utf8_tail 2048 0 (N.lor 128 (N.land a 15)) c d r) <> UINT_MAX ->
            utf8_wf_prefix (a :: rest)).
  { intros c d r -> Ha T. inversion Brest as [|? ? Bc Br]; subst. inversion Br; subst.
    destruct (form3 a c d r Ha ltac:(assumption) ltac:(assumption) T) as [v Wv].
    exists [a; c; d], v, r. split; [reflexivity|exact Wv]. }
  assert (W4 : forall b c d r, rest = b :: c :: d :: r -> 240 <= a <= 247 ->
            fst (utf8_tail 65536 (N.land a 7) b c d r) <> UINT_MAX ->
            utf8_wf_prefix (a :: rest)).
  { intros b c d r -> Ha T. inversion Brest as [|? ? Bb Br]; subst.
    inversion Br as [|? ? Bc Br']; subst. inversion Br'; subst.
    destruct (form4 a b c d r Ha ltac:(assumption) ltac:(assumption) ltac:(assumption) T) as [v Wv].
    exists [a; b; c; d], v, r. split; [reflexivity|exact Wv]. }
  unfold utf8_decode1_slow in H.
  destruct (N.ltb_spec 247 a); [cbn in H; congruence|].
  destruct (N.ltb_spec 239 a); destruct (N.ltb_spec 223 a); destruct (N.ltb_spec 191 a); try lia;
    destruct rest as [|x [|y [|z r]]]; cbn [fst] in H; try congruence;
    first [ eapply W4; [reflexivity|lia|exact H]
          | eapply W3; [reflexivity|lia|exact H]
          | eapply W2; [reflexivity|lia|exact H] ].
Qed.

Theorem utf8_decode1_iff_wellformed : utf8_decode_iff_wellformed utf8_decode1.
Proof.
  intros s Hne HB. split.
  - apply utf8_decode_complete; assumption.
  - intros (bs & v & rest & -> & W). rewrite (utf8_decode_sound bs v rest W). cbn [fst].
    pose proof (utf8_wf_scalar bs v W) as [Hv _]. unfold UINT_MAX. lia.
Qed.

(* On well-formed input the decoder agrees with the one before a779eb0 (the repair
   changed nothing there). *)
Corollary utf8_decode_agrees_before bs v rest :
  utf8_wf bs v -> utf8_decode1 (bs ++ rest) = utf8_decode1_before_a779eb0 (bs ++ rest).
Proof. intros W. rewrite (utf8_decode_sound_before bs v rest W). apply utf8_decode_sound; exact W. Qed.
