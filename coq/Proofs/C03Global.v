(* C03, part 5: the queue invariant QInv holds in every reachable state.
   The only steps that could break it are the handle_stop calls of the timer
   pass (uv__run_timers), which are applied to the handles named by the timer
   heap and the ready queue; that these are timer handles is part of the loop
   invariant LInvG of Proofs/LoopCoreInv.v (C01), which is carried along. *)
From UV Require Import Lib.Base Model.Heap Model.Timer Model.LoopCore
  Proofs.TimerProofs Proofs.LoopCoreInv
  Proofs.C03Base Proofs.C03Order Proofs.C03Step Proofs.C03Proofs Proofs.C03Once.

Local Open Scope Z_scope.

Lemma is_timer_not_wk s i : is_timer (hget s i) = true -> is_wk (h_kind (hget s i)) = false.
Proof. unfold is_timer. destruct (h_kind (hget s i)); cbn; congruence. Qed.

Lemma QInv_timer_frame s s' i :
  qs s' = qs s -> Fr (eq i) s s' -> is_timer (hget s i) = true -> QInv s -> QInv s'.
Proof.
  intros Hq HF Ht Q.
  refine (proj1 (Pres_frame (eq i) KIdle s s' Hq HF _ eq_refl Q)).
  intros j <-. apply is_timer_not_wk; exact Ht.
Qed.

Lemma l_collect_QInv fuel : forall s pend wpend,
  LInvG s pend wpend -> QInv s -> QInv (l_collect fuel s).
Proof.
  induction fuel as [|f IH]; intros s pend wpend Hinv Q; cbn [l_collect]; [exact Q|].
  destruct (heap_min (hp (ts s))) as [k|] eqn:Em; [|exact Q].
  destruct (Z.ltb_spec (now (ts s)) (k_timeout k)); [exact Q|].
  pose proof Hinv as [HI _]. pose proof (hi_ti _ _ HI) as T.
  assert (Hk : In k (els (ts s))).
  { unfold heap_min in Em. destruct (h_tree (hp (ts s))); simpl in *; [discriminate|].
    inversion Em; subst. left; reflexivity. }
  destruct (ti_e1 _ T k Hk) as (Hit & Ha & Hto & Hsid).
  assert (Hi : (k_id k < length (hs s))%nat) by (rewrite <- (hi_len _ _ HI); exact Hit).
  destruct (timer_stop_effect (ts s) (k_id k) T Hit) as (Ea & Hnr & Hnow & Hctr & Hlen & Hrd & Hfld & Hoth).
  pose proof (LInvG_l_timer_stop s pend wpend (k_id k) Hi Hinv) as I1.
  pose proof (l_timer_stop_step s (k_id k) Hi) as Hst.
  pose proof (hstep_hget _ _ _ _ _ _ _ Hi Hst) as Hg.
  pose proof Hst as (A1 & _ & A3 & _).
  assert (Htm : is_timer (hget s (k_id k)) = true).
  { destruct (hi_sync _ _ HI (k_id k) Hi) as (S1 & _). rewrite Ha in S1.
    symmetry in S1. apply andb_prop in S1. apply S1. }
  assert (Q1 : QInv (l_timer_stop s (k_id k))).
  { apply (QInv_timer_frame s _ (k_id k)); auto.
    - apply qs_l_timer_stop.
    - apply Fr_l_timer_stop. }
  set (s1 := l_timer_stop s (k_id k)) in *.
  assert (Hl1 : length (hs s1) = length (hs s)) by (rewrite A1; apply upd_length).
  cbv zeta. eapply IH.
  - apply LInvG_push_ready; [exact I1| | | | |].
    + lia.
    + rewrite A3. exact Ea.
    + rewrite A3. exact Hnr.
    + rewrite A3. destruct (Hfld (k_id k)) as (B1 & _). rewrite B1, Hto, Hnow. lia.
    + rewrite Hg. unfold is_timer in *. cbn [h_kind with_active]. exact Htm.
  - apply (QInv_same s1); [reflexivity|reflexivity|exact Q1].
Qed.

Lemma l_fire_QInv fuel : forall s pend wpend beh,
  LInvG s pend wpend -> QInv s -> QInv (fst (l_fire fuel s beh)).
Proof.
  induction fuel as [|f IH]; intros s pend wpend beh Hinv Q; cbn [l_fire]; [exact Q|].
  destruct (ready (ts s)) as [|i rest] eqn:Er; [exact Q|].
  pose proof Hinv as [HI _]. pose proof (hi_ti _ _ HI) as T.
  assert (Hin : In i (ready (ts s))) by (rewrite Er; left; reflexivity).
  destruct (ti_r _ T i Hin) as (Hit & _).
  assert (Hi : (i < length (hs s))%nat) by (rewrite <- (hi_len _ _ HI); exact Hit).
  pose proof (hi_ready _ _ HI i Hin) as Hk.
  pose proof (LInvG_pop_ready s pend wpend i rest Hinv Er) as I0.
  cbv zeta.
  set (s0 := set_ts s _) in *.
  assert (Q0 : QInv s0) by (apply (QInv_same s); [reflexivity|reflexivity|exact Q]).
  pose proof (LInvG_l_timer_again s0 pend wpend i Hi Hk I0) as I1.
  assert (Q1 : QInv (fst (l_timer_again s0 i))).
  { apply (QInv_timer_frame s0 _ i); auto.
    - apply qs_l_timer_again.
    - apply Fr_l_timer_again. }
  pose proof (LInvG_callback _ pend wpend beh 0 i I1) as I2.
  pose proof (callback_QInv _ beh 0 i Q1) as Q2.
  destruct (callback (fst (l_timer_again s0 i)) beh 0 i) as [s2 e1]. cbn [fst] in I2, Q2.
  pose proof (IH s2 pend wpend beh I2 Q2) as Q3.
  destruct (l_fire f s2 beh) as [s3 e2]. exact Q3.
Qed.

Lemma l_run_timers_QInv s pend wpend beh :
  LInvG s pend wpend -> QInv s -> QInv (fst (l_run_timers s beh)).
Proof.
  intros Hinv Q. unfold l_run_timers.
  eapply l_fire_QInv; [apply LInvG_l_collect; exact Hinv|].
  eapply l_collect_QInv; eauto.
Qed.

(* ---- the global invariant ---- *)
Definition GInv (s : lstate) : Prop := LInvG s [] [] /\ QInv s.

Lemma QInv_init t0 m : QInv (linit t0 m).
Proof.
  split.
  - intros k i Hi. destruct k; destruct Hi.
  - intros k. destruct k; constructor.
Qed.

Lemma GInv_init t0 m : GInv (linit t0 m).
Proof. split; [apply LInvG_init|apply QInv_init]. Qed.

Lemma GInv_ClockInv s : GInv s -> ClockInv s.
Proof. intros [[HI _] _]. exact (hi_clock _ _ HI). Qed.

Lemma GInv_update_time s : GInv s -> GInv (update_time s).
Proof.
  intros [I Q]. split; [apply LInvG_update_time; exact I|].
  apply (QInv_same s); [reflexivity|reflexivity|exact Q].
Qed.

Lemma GInv_l_run_timers s beh : GInv s -> GInv (fst (l_run_timers s beh)).
Proof.
  intros [I Q]. split; [apply LInvG_l_run_timers; exact I|].
  eapply l_run_timers_QInv; eauto.
Qed.

Lemma GInv_iteration s beh mode : GInv s -> GInv (fst (iteration s beh mode)).
Proof.
  intros [Hinv Q]. split; [apply LInvG_iteration; exact Hinv|].
  destruct (iteration s beh mode) as [s' evs] eqn:E. cbn [fst].
  destruct (iteration_phases _ _ _ _ _ E)
    as (s1 & e1 & s2 & e2 & s3 & e3 & s4 & e4 & s5 & e5 & e6 & H1 & H2 & H3 & H4 & H5 & H6 & _).
  pose proof (LInvG_run_watchers s [] [] beh KIdle 1 Hinv) as I1.
  pose proof (run_watchers_QInv s beh KIdle 1 Q) as Q1. rewrite H1 in I1, Q1. cbn [fst] in I1, Q1.
  pose proof (LInvG_run_watchers s1 [] [] beh KPrepare 2 I1) as I2.
  pose proof (run_watchers_QInv s1 beh KPrepare 2 Q1) as Q2. rewrite H2 in I2, Q2. cbn [fst] in I2, Q2.
  assert (I2' : LInvG (set_dirty s2 false) [] []) by (eapply LInvG_core; [|exact I2]; reflexivity).
  assert (Q2' : QInv (set_dirty s2 false)) by (apply (QInv_same s2); [reflexivity|reflexivity|exact Q2]).
  pose proof (LInvG_io_poll _ [] beh (poll_timeout s s2 mode) I2') as I3.
  pose proof (io_poll_QInv _ beh (poll_timeout s s2 mode) Q2') as Q3.
  rewrite H3 in I3, Q3. cbn [fst] in I3, Q3.
  pose proof (LInvG_run_watchers s3 [] [] beh KCheck 3 I3) as I4.
  pose proof (run_watchers_QInv s3 beh KCheck 3 Q3) as Q4. rewrite H4 in I4, Q4. cbn [fst] in I4, Q4.
  pose proof (LInvG_run_closing (closing s4) (set_closing s4 []) [] [] beh
                (LInvG_detach_closing _ _ I4)) as I5.
  assert (Q4' : QInv (set_closing s4 [])) by (apply (QInv_same s4); [reflexivity|reflexivity|exact Q4]).
  pose proof (run_closing_QInv (closing s4) (set_closing s4 []) beh Q4') as Q5.
  rewrite H5 in I5, Q5. cbn [fst] in I5, Q5.
  assert (Q5' : QInv (update_time s5)) by (apply (QInv_same s5); [reflexivity|reflexivity|exact Q5]).
  pose proof (l_run_timers_QInv _ [] [] beh (LInvG_update_time _ _ _ I5) Q5') as Q7.
  rewrite H6 in Q7. exact Q7.
Qed.

Lemma GInv_loop_iters beh mode s its s' :
  loop_iters beh mode s its s' -> GInv s -> GInv s'.
Proof.
  induction 1; intros G; auto.
  - rewrite <- (fst_eq _ _ _ H). apply GInv_iteration; exact G.
  - apply IHloop_iters. rewrite <- (fst_eq _ _ _ H). apply GInv_iteration; exact G.
Qed.

Lemma GInv_uv_start s beh sa : GInv s -> uv_start s beh sa -> GInv sa.
Proof.
  unfold uv_start. intros G.
  assert (G0 : GInv (if loop_alive s then s else update_time s)).
  { destruct (loop_alive s); [exact G|apply GInv_update_time; exact G]. }
  intros [-> | ->]; [exact G0|]. apply GInv_l_run_timers. apply GInv_update_time. exact G0.
Qed.

Lemma GInv_uv_run fuel s beh mode : GInv s -> GInv (fst (uv_run fuel s beh mode)).
Proof.
  intros G. destruct (uv_run fuel s beh mode) as [s' evs] eqn:E. cbn [fst].
  destruct (uv_run_trace _ _ _ _ _ _ E) as (e0 & its & r & sa & sb & _ & _ & _ & Hst & Hit & _ & ->).
  pose proof (GInv_loop_iters _ _ _ _ _ Hit (GInv_uv_start _ _ _ G Hst)) as [I Q].
  split.
  - eapply LInvG_core; [|exact I]. reflexivity.
  - apply (QInv_same sb); [reflexivity|reflexivity|exact Q].
Qed.

Lemma GInv_lapi s o : GInv s -> GInv (fst (lapi s o)).
Proof. intros [I Q]. split; [apply LInvG_lapi; exact I|apply lapi_QInv; exact Q]. Qed.

Lemma GInv_lrun os : forall s beh, GInv s -> GInv (fst (lrun s os beh)).
Proof.
  induction os as [|o os IH]; intros s beh G; [exact G|].
  assert (Hgen : forall s1 e1, lapi s o = (s1, e1) ->
            GInv (fst (let '(s2, e2) := lrun s1 os beh in (s2, e1 ++ e2)))).
  { intros s1 e1 E. pose proof (GInv_lapi s o G) as G1. rewrite E in G1. cbn [fst] in G1.
    pose proof (IH s1 beh G1) as H. destruct (lrun s1 os beh). exact H. }
  destruct o; cbn [lrun];
    try (destruct (lapi s _) as [s1 e1]; exact (Hgen s1 e1 eq_refl)).
  - pose proof (GInv_uv_run run_fuel s beh mode G) as G1.
    destruct (uv_run run_fuel s beh mode) as [s1 e1]. cbn [fst] in G1.
    pose proof (IH s1 beh G1) as H. destruct (lrun s1 os beh). exact H.
  - pose proof (IH s beh G) as H. destruct (lrun s os beh). exact H.
Qed.

Theorem GInv_reachable t0 m os beh : GInv (fst (lrun (linit t0 m) os beh)).
Proof. apply GInv_lrun. apply GInv_init. Qed.

Theorem QInv_reachable t0 m os beh : QInv (fst (lrun (linit t0 m) os beh)).
Proof. exact (proj2 (GInv_reachable t0 m os beh)). Qed.

(* ---- every iteration of every run from a reachable state ---- *)
Definition once_iter (e : list levent) : Prop :=
  NoDup (ids_of 1 e) /\ NoDup (ids_of 2 e) /\ NoDup (ids_of 3 e).

Lemma loop_iters_once beh mode s its s' :
  loop_iters beh mode s its s' -> GInv s -> Forall once_iter its.
Proof.
  induction 1; intros G.
  - constructor.
  - constructor; [|constructor].
    destruct (iteration_once _ _ _ _ _ (proj2 G) H)
      as (? & ? & ? & ? & ? & ? & _ & _ & _ & N1 & _ & N2 & _ & N3 & _).
    repeat split; assumption.
  - constructor.
    + destruct (iteration_once _ _ _ _ _ (proj2 G) H)
        as (? & ? & ? & ? & ? & ? & _ & _ & _ & N1 & _ & N2 & _ & N3 & _).
      repeat split; assumption.
    + apply IHloop_iters. rewrite <- (fst_eq _ _ _ H). apply GInv_iteration; exact G.
Qed.

Theorem uv_run_once fuel s beh mode s' evs :
  GInv s -> uv_run fuel s beh mode = (s', evs) ->
  exists e0 its r,
    evs = e0 ++ concat its ++ [VRun r] /\
    Forall (eq 0%nat) (cb_tags e0) /\ (mode <> 0%nat -> e0 = []) /\
    Forall phase_word (map cb_tags its) /\
    Forall once_iter its.
Proof.
  intros G E.
  destruct (uv_run_trace _ _ _ _ _ _ E) as (e0 & its & r & sa & sb & Ev & T0 & M0 & Hst & Hit & W & _).
  exists e0, its, r. repeat split; auto.
  eapply loop_iters_once; [exact Hit|]. eapply GInv_uv_start; eauto.
Qed.
