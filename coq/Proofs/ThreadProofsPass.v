(* C20 part F: the blocking wrappers are pure pass-throughs.  Given the POSIX contract of
   the pthread function the table [passthrough] maps a wrapper to (Section hypotheses), the
   wrapper has the contract the property demands.  A wrong table entry (e.g. uv_rwlock_rdlock
   -> pthread_rwlock_wrlock) makes these proofs fail; a wrong call in the C code makes the
   pass-through correspondence of checks/c20.py fail. *)
From UV Require Import Lib.Base Model.Thread.

Local Open Scope Z_scope.

Section RwPass.
  (* abstract rwlock: number of readers inside, writer inside.  None = the caller blocks. *)
  Variable pthread_rw : pfn -> nat * bool -> option (nat * bool).
  Hypothesis posix_rdlock : forall n w,
    pthread_rw PRwRdlock (n, w) = if w then None else Some (S n, false).
  Hypothesis posix_wrlock : forall n w,
    pthread_rw PRwWrlock (n, w) = if w || negb (Nat.eqb n 0) then None else Some (O, true).
  Hypothesis posix_unlock : forall n w,
    pthread_rw PRwUnlock (n, w) = Some (if w then (O, false) else (pred n, false)).

  Definition uv_rw (f : uvfn) := pthread_rw (passthrough f).

  Fixpoint rd_many (k : nat) (s : nat * bool) : option (nat * bool) :=
    match k with
    | O => Some s
    | S k' => match uv_rw UvRwlockRdlock s with Some s' => rd_many k' s' | None => None end
    end.

  Lemma rd_many_from k : forall n, rd_many k (n, false) = Some ((k + n)%nat, false).
  Proof.
    induction k as [|k IH]; intros n; cbn [rd_many]; [reflexivity|].
    unfold uv_rw. cbn [passthrough]. rewrite posix_rdlock, IH. f_equal. f_equal. lia.
  Qed.

  Theorem rwlock_rdlock_shared :
    (* a reader is admitted whatever the number of readers already inside *)
    (forall n, uv_rw UvRwlockRdlock (n, false) = Some (S n, false)) /\
    (* k readers enter one after the other without anybody leaving: all k are inside *)
    (forall k, rd_many k (O, false) = Some (k, false)) /\
    (* a reader blocks exactly while a writer is inside *)
    (forall n w, uv_rw UvRwlockRdlock (n, w) = None <-> w = true) /\
    (* a writer blocks exactly while anybody is inside, and is alone afterwards *)
    (forall n w, uv_rw UvRwlockWrlock (n, w) = None <-> (w = true \/ n <> O)) /\
    (uv_rw UvRwlockWrlock (O, false) = Some (O, true)) /\
    (* both unlock wrappers release *)
    (forall n, uv_rw UvRwlockRdunlock (S n, false) = Some (n, false)) /\
    (uv_rw UvRwlockWrunlock (O, true) = Some (O, false)).
  Proof.
    split; [|split; [|split; [|split; [|split; [|split]]]]].
    - intros n. unfold uv_rw. cbn [passthrough]. rewrite posix_rdlock. reflexivity.
    - intros k. rewrite rd_many_from. f_equal. f_equal. lia.
    - intros n w. unfold uv_rw. cbn [passthrough]. rewrite posix_rdlock.
      destruct w; split; intros; try reflexivity; discriminate.
    - intros n w. unfold uv_rw. cbn [passthrough]. rewrite posix_wrlock.
      destruct w; cbn [orb]; [split; auto|].
      destruct n; cbn [Nat.eqb negb]; split; intros H; try discriminate; auto.
      destruct H as [H|H]; [discriminate | contradiction].
    - unfold uv_rw. cbn [passthrough]. rewrite posix_wrlock. reflexivity.
    - intros n. unfold uv_rw. cbn [passthrough]. rewrite posix_unlock. reflexivity.
    - unfold uv_rw. cbn [passthrough]. rewrite posix_unlock. reflexivity.
  Qed.
End RwPass.

Section MutexPass.
  Variable pthread_mx : pfn -> bool -> option bool.      (* state: held; None = blocks *)
  Hypothesis posix_lock : forall h, pthread_mx PMutexLock h = if h then None else Some true.
  Hypothesis posix_unlock : forall h, pthread_mx PMutexUnlock h = Some false.
  Definition uv_mx (f : uvfn) := pthread_mx (passthrough f).

  Theorem mutex_lock_exclusive :
    (forall h, uv_mx UvMutexLock h = None <-> h = true) /\
    uv_mx UvMutexLock false = Some true /\
    (forall h, uv_mx UvMutexUnlock h = Some false).
  Proof.
    split; [|split].
    - intros h. unfold uv_mx. cbn [passthrough]. rewrite posix_lock.
      destruct h; split; intros; try reflexivity; discriminate.
    - unfold uv_mx. cbn [passthrough]. apply posix_lock.
    - intros h. unfold uv_mx. cbn [passthrough]. apply posix_unlock.
  Qed.
End MutexPass.

Section SemPass.
  Variable pthread_sem : pfn -> Z -> option Z.            (* state: value; None = blocks *)
  Hypothesis posix_post : forall v, pthread_sem PSemPost v = Some (v + 1).
  Hypothesis posix_wait : forall v, pthread_sem PSemWait v = if v =? 0 then None else Some (v - 1).
  Definition uv_sm (f : uvfn) := pthread_sem (passthrough f).

  Fixpoint wait_many (k : nat) (v : Z) : option Z :=
    match k with
    | O => Some v
    | S k' => match uv_sm UvSemWait v with Some v' => wait_many k' v' | None => None end
    end.

  Lemma wait_step k v :
    wait_many (S k) v = if v =? 0 then None else wait_many k (v - 1).
  Proof.
    cbn [wait_many]. unfold uv_sm. cbn [passthrough]. rewrite posix_wait.
    destruct (v =? 0); reflexivity.
  Qed.

  Lemma wait_many_pass k : forall v, 0 <= v -> wait_many k (Z.of_nat k + v) = Some v.
  Proof.
    induction k as [|k IH]; intros v Hv.
    - cbn [wait_many]. f_equal; lia.
    - rewrite wait_step.
      assert (E : (Z.of_nat (S k) + v =? 0) = false) by lia. rewrite E.
      replace (Z.of_nat (S k) + v - 1) with (Z.of_nat k + v) by lia. apply IH; lia.
  Qed.

  Lemma wait_many_block k : wait_many (S k) (Z.of_nat k) = None.
  Proof.
    induction k as [|k IH].
    - rewrite wait_step. reflexivity.
    - rewrite wait_step.
      assert (E : (Z.of_nat (S k) =? 0) = false) by lia. rewrite E.
      replace (Z.of_nat (S k) - 1) with (Z.of_nat k) by lia. exact IH.
  Qed.

  (* initial value k admits exactly k waiters: the first k pass, the next one blocks *)
  Theorem sem_admits_exactly k :
    wait_many k (Z.of_nat k) = Some 0 /\ wait_many (S k) (Z.of_nat k) = None /\
    (forall v, uv_sm UvSemPost v = Some (v + 1)).
  Proof.
    split; [|split].
    - replace (Z.of_nat k) with (Z.of_nat k + 0) by lia. apply wait_many_pass; lia.
    - apply wait_many_block.
    - intros v. unfold uv_sm. cbn [passthrough]. apply posix_post.
  Qed.
End SemPass.

Section OncePass.
  (* pthread_once on one guard: state = already run; result = (callback runs now, state) *)
  Variable pthread_once_sem : pfn -> bool -> bool * bool.
  Hypothesis posix_once : forall d, pthread_once_sem POnce d = (negb d, true).
  Definition uv_once_sem := pthread_once_sem (passthrough UvOnce).

  Fixpoint once_runs (n : nat) (d : bool) : Z :=
    match n with
    | O => 0
    | S n' => let (r, d') := uv_once_sem d in (if r then 1 else 0) + once_runs n' d'
    end.

  Lemma once_runs_done n : once_runs n true = 0.
  Proof.
    induction n as [|m IH]; [reflexivity|]. cbn [once_runs]. unfold uv_once_sem.
    cbn [passthrough]. rewrite posix_once. cbn [negb]. rewrite IH. reflexivity.
  Qed.

  (* however many calls race on a fresh guard (in whatever order pthread serialises them),
     the callback runs exactly once *)
  Theorem once_exactly_once n : once_runs (S n) false = 1.
  Proof.
    cbn [once_runs]. unfold uv_once_sem. cbn [passthrough]. rewrite posix_once. cbn [negb].
    rewrite once_runs_done. reflexivity.
  Qed.
End OncePass.

Section KeyPass.
  (* thread-specific data of one key: a map thread -> value *)
  Variable pthread_set : pfn -> nat -> Z -> (nat -> Z) -> (nat -> Z).
  Variable pthread_get : pfn -> nat -> (nat -> Z) -> Z.
  Hypothesis posix_set : forall t v m t',
    pthread_set PSetspecific t v m t' = if Nat.eqb t t' then v else m t'.
  Hypothesis posix_get : forall t m, pthread_get PGetspecific t m = m t.
  Definition uv_key_set_sem := pthread_set (passthrough UvKeySet).
  Definition uv_key_get_sem := pthread_get (passthrough UvKeyGet).

  Theorem key_private t t' v m :
    uv_key_get_sem t (uv_key_set_sem t v m) = v /\
    (t <> t' -> uv_key_get_sem t' (uv_key_set_sem t v m) = uv_key_get_sem t' m).
  Proof.
    unfold uv_key_get_sem, uv_key_set_sem. cbn [passthrough]. rewrite !posix_get, !posix_set.
    rewrite Nat.eqb_refl. split; [reflexivity|]. intros H.
    apply Nat.eqb_neq in H. rewrite H. reflexivity.
  Qed.
End KeyPass.

(* the table covers the 34 wrappers and distinguishes the blocking from the trying call *)
Theorem passthrough_table_facts :
  length all_uvfn = 34%nat /\
  passthrough UvRwlockRdlock <> passthrough UvRwlockWrlock /\
  passthrough UvRwlockRdlock <> passthrough UvRwlockTryrdlock /\
  passthrough UvRwlockWrlock <> passthrough UvRwlockTrywrlock /\
  passthrough UvMutexLock <> passthrough UvMutexTrylock /\
  passthrough UvSemWait <> passthrough UvSemTrywait /\
  passthrough UvCondSignal <> passthrough UvCondBroadcast /\
  passthrough UvCondWait <> passthrough UvCondTimedwait.
Proof. cbn. repeat split; discriminate. Qed.

(* what the init wrappers ask for *)
Theorem init_requests debug arg :
  init_request debug UvRwlockInit arg = IRwlock PTHREAD_RWLOCK_PREFER_READER /\
  init_request debug UvCondInit arg = ICond CLOCK_MONOTONIC /\
  init_request debug UvMutexInitRecursive arg = IMutex PTHREAD_MUTEX_RECURSIVE /\
  init_request false UvMutexInit arg = IMutex PTHREAD_MUTEX_NORMAL /\
  init_request true UvMutexInit arg = IMutex PTHREAD_MUTEX_ERRORCHECK /\   (* only where the constant is a macro *)
  init_request debug UvSemInit arg = ISem 0 arg /\
  init_request debug UvBarrierInit arg = IBarrier arg.
Proof. repeat split. Qed.

Section RwKind.
  (* pthread_rwlock_rdlock/tryrdlock as a function of the lock's kind: readers inside,
     writer inside, writers queued in wrlock.  glibc: with the reader-preferring (default)
     kind a reader is refused only by a writer that HOLDS the lock; with a writer-preferring
     kind also by a queued writer while readers hold it. *)
  Variable admits : Z -> nat -> bool -> nat -> bool.
  Hypothesis posix_kind : forall k n w q,
    admits k n w q = negb w && ((k =? PTHREAD_RWLOCK_PREFER_READER) || Nat.eqb q 0 || Nat.eqb n 0).

  Definition uv_rwlock_kind debug :=
    match init_request debug UvRwlockInit 0 with IRwlock k => k | _ => -1 end.

  (* a lock made by uv_rwlock_init admits a further reader whenever no writer holds it --
     in particular while a writer is queued behind the readers already inside *)
  Theorem rwlock_admits_readers_with_writer_queued debug n w q :
    admits (uv_rwlock_kind debug) n w q = negb w.
  Proof.
    unfold uv_rwlock_kind. cbn [init_request]. rewrite posix_kind.
    unfold PTHREAD_RWLOCK_PREFER_READER. cbn. destruct w; reflexivity.
  Qed.
End RwKind.
