(* Bit-level facts about bytes used by the idna.c proofs: masks, shifts and
   ors of disjoint fields as arithmetic, and a reflection principle for
   statements about all bytes. *)
From UV Require Import Lib.Base.
Local Open Scope N_scope.

(* ---- bounded universal quantification by computation ---- *)
Fixpoint forall_below (n : nat) (P : N -> bool) : bool :=
  match n with
  | O => true
  | S k => P (N.of_nat k) && forall_below k P
  end.

Lemma forall_below_ok n P :
  forall_below n P = true -> forall x, x < N.of_nat n -> P x = true.
Proof.
  induction n as [|k IH]; intros H x Hx.
  - simpl in Hx. lia.
  - cbn [forall_below] in H. apply andb_true_iff in H. destruct H as [H0 H1].
    destruct (N.eq_dec x (N.of_nat k)) as [->|Hne]; [exact H0|].
    apply IH; [exact H1|lia].
Qed.

Definition byte (b : N) : Prop := b < 256.

(* ---- or of disjoint fields is addition ---- *)
Lemma lor_add x y k : y < 2 ^ k -> N.lor (x * 2 ^ k) y = x * 2 ^ k + y.
Proof.
  intros Hy.
  assert (Hp : 2 ^ k <> 0) by (apply N.pow_nonzero; lia).
  pose proof (N.lor_ldiff_and (x * 2 ^ k + y) (N.ones k)) as H.
  rewrite N.ldiff_ones_r, N.land_ones, N.shiftr_div_pow2, N.shiftl_mul_pow2 in H.
  replace ((x * 2 ^ k + y) / 2 ^ k) with x in H.
  2:{ symmetry. rewrite N.add_comm, N.div_add by exact Hp. rewrite N.div_small by exact Hy. lia. }
  replace ((x * 2 ^ k + y) mod 2 ^ k) with y in H.
  2:{ symmetry. rewrite N.add_comm, N.mod_add by exact Hp. apply N.mod_small; exact Hy. }
  exact H.
Qed.

Lemma lor_add6 x y : y < 64 -> N.lor (x * 64) y = x * 64 + y.
Proof. apply (lor_add x y 6). Qed.
Lemma lor_add12 x y : y < 4096 -> N.lor (x * 4096) y = x * 4096 + y.
Proof. apply (lor_add x y 12). Qed.
Lemma lor_add18 x y : y < 262144 -> N.lor (x * 262144) y = x * 262144 + y.
Proof. apply (lor_add x y 18). Qed.
Lemma lor_add10 x y : y < 1024 -> N.lor (x * 1024) y = x * 1024 + y.
Proof. apply (lor_add x y 10). Qed.

Lemma shl6 a : N.shiftl a 6 = a * 64.   Proof. rewrite N.shiftl_mul_pow2. reflexivity. Qed.
Lemma shl10 a : N.shiftl a 10 = a * 1024. Proof. rewrite N.shiftl_mul_pow2. reflexivity. Qed.
Lemma shl12 a : N.shiftl a 12 = a * 4096. Proof. rewrite N.shiftl_mul_pow2. reflexivity. Qed.
Lemma shl18 a : N.shiftl a 18 = a * 262144. Proof. rewrite N.shiftl_mul_pow2. reflexivity. Qed.
Lemma shr6 a : N.shiftr a 6 = a / 64.   Proof. rewrite N.shiftr_div_pow2. reflexivity. Qed.
Lemma shr10 a : N.shiftr a 10 = a / 1024. Proof. rewrite N.shiftr_div_pow2. reflexivity. Qed.
Lemma shr12 a : N.shiftr a 12 = a / 4096. Proof. rewrite N.shiftr_div_pow2. reflexivity. Qed.
Lemma shr18 a : N.shiftr a 18 = a / 262144. Proof. rewrite N.shiftr_div_pow2. reflexivity. Qed.

(* ---- low masks are remainders ---- *)
Lemma land_low a k : N.land a (N.ones k) = a mod 2 ^ k.
Proof. apply N.land_ones. Qed.
Lemma land63 a : N.land a 63 = a mod 64.       Proof. exact (land_low a 6). Qed.
Lemma land31 a : N.land a 31 = a mod 32.       Proof. exact (land_low a 5). Qed.
Lemma land15 a : N.land a 15 = a mod 16.       Proof. exact (land_low a 4). Qed.
Lemma land7 a : N.land a 7 = a mod 8.          Proof. exact (land_low a 3). Qed.
Lemma land1023 a : N.land a 1023 = a mod 1024. Proof. exact (land_low a 10). Qed.
Lemma land2047 a : N.land 2047 a = a mod 2048.
Proof. rewrite N.land_comm. exact (land_low a 11). Qed.
Lemma land65535 a : N.land 65535 a = a mod 65536.
Proof. rewrite N.land_comm. exact (land_low a 16). Qed.
Lemma land2097151 a : N.land a 2097151 = a mod 2097152.
Proof. exact (land_low a 21). Qed.

(* ---- the 0xC0 mask on a byte ---- *)
Lemma land192_byte b : b < 256 -> N.land b 192 = b / 64 * 64.
Proof.
  intros Hb.
  pose proof (forall_below_ok 256 (fun b => N.land b 192 =? b / 64 * 64)) as H.
  apply N.eqb_eq. apply H; [vm_compute; reflexivity|exact Hb].
Qed.

Lemma land192_cont b : b < 256 -> (N.land b 192 =? 128) = (128 <=? b) && (b <=? 191).
Proof.
  intros Hb. rewrite land192_byte by exact Hb.
  destruct (N.eqb_spec (b / 64 * 64) 128); destruct (N.leb_spec 128 b); destruct (N.leb_spec b 191);
    cbn; try reflexivity; lia.
Qed.

Lemma land192_cont' b : b < 256 -> (N.land 192 b =? 128) = (128 <=? b) && (b <=? 191).
Proof. rewrite N.land_comm. apply land192_cont. Qed.

(* 0x80 | x for x < 64, 0xC0 | x for x < 32, ... *)
Lemma lor128 x : x < 128 -> N.lor 128 x = 128 + x.
Proof. intros. exact (lor_add 1 x 7 H). Qed.
Lemma lor192 x : x < 64 -> N.lor 192 x = 192 + x.
Proof. intros. exact (lor_add 3 x 6 H). Qed.
Lemma lor224 x : x < 32 -> N.lor 224 x = 224 + x.
Proof. intros. exact (lor_add 7 x 5 H). Qed.
Lemma lor240 x : x < 16 -> N.lor 240 x = 240 + x.
Proof. intros. exact (lor_add 15 x 4 H). Qed.

(* the xor test of uv__utf8_decode1_slow on three continuation bytes: the two
   top bits of b ^ c ^ d are (b >> 6) ^ (c >> 6) ^ (d >> 6) = 2 ^ 2 ^ 2 = 2 *)
Lemma xor_test_cont b c d :
  128 <= b <= 191 -> 128 <= c <= 191 -> 128 <= d <= 191 ->
  N.land 192 (N.lxor (N.lxor b c) d) = 128.
Proof.
  intros Hb Hc Hd. set (x := N.lxor (N.lxor b c) d).
  assert (Hx : x / 64 = 2).
  { rewrite <- shr6. unfold x. rewrite !N.shiftr_lxor, !shr6.
    replace (b / 64) with 2 by lia. replace (c / 64) with 2 by lia. replace (d / 64) with 2 by lia.
    reflexivity. }
  rewrite N.land_comm, land192_byte by lia. lia.
Qed.
