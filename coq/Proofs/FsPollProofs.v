(* Proofs about Model/FsPoll.v (C17, fs_poll half). *)
From UV Require Import Lib.Base Model.FsPoll.

Local Open Scope Z_scope.

(* ------------------------------------------------------------------ *)
(* lists                                                              *)
(* ------------------------------------------------------------------ *)
Lemma nth_upd_same {A} (n : nat) (f : A -> A) (l : list A) (d : A) :
  (n < length l)%nat -> nth n (upd n f l) d = f (nth n l d).
Proof.
  revert n; induction l as [|y ys IH]; intros [|n] H; simpl in *; try lia; auto.
  apply IH; lia.
Qed.

Lemma nth_upd_other {A} (n m : nat) (f : A -> A) (l : list A) (d : A) :
  n <> m -> nth m (upd n f l) d = nth m l d.
Proof.
  revert n m; induction l as [|y ys IH]; intros [|n] [|m] H; simpl; auto; try congruence.
Qed.

Lemma nth_upd_out {A} (n : nat) (f : A -> A) (l : list A) :
  (length l <= n)%nat -> upd n f l = l.
Proof.
  revert n; induction l as [|y ys IH]; intros [|n] H; simpl in *; auto; try lia.
  f_equal; apply IH; lia.
Qed.

(* ------------------------------------------------------------------ *)
(* statbuf_eq                                                         *)
(* ------------------------------------------------------------------ *)
Definition same_compared (a b : statbuf) : Prop :=
  sb_ctim_ns a = sb_ctim_ns b /\ sb_mtim_ns a = sb_mtim_ns b /\ sb_btim_ns a = sb_btim_ns b /\
  sb_ctim_s a = sb_ctim_s b /\ sb_mtim_s a = sb_mtim_s b /\ sb_btim_s a = sb_btim_s b /\
  sb_size a = sb_size b /\ sb_mode a = sb_mode b /\ sb_uid a = sb_uid b /\ sb_gid a = sb_gid b /\
  sb_ino a = sb_ino b /\ sb_dev a = sb_dev b /\ sb_flags a = sb_flags b /\ sb_gen a = sb_gen b.

Lemma statbuf_eq_spec a b : statbuf_eq a b = true <-> same_compared a b.
Proof.
  unfold statbuf_eq, same_compared. rewrite !andb_true_iff, !Z.eqb_eq. tauto.
Qed.

Lemma statbuf_eq_refl a : statbuf_eq a a = true.
Proof. apply statbuf_eq_spec. unfold same_compared. tauto. Qed.

Lemma statbuf_eq_trans a b c : statbuf_eq a b = true -> statbuf_eq b c = true -> statbuf_eq a c = true.
Proof.
  rewrite !statbuf_eq_spec. unfold same_compared. intuition congruence.
Qed.

Lemma statbuf_eq_sym a b : statbuf_eq a b = true -> statbuf_eq b a = true.
Proof. rewrite !statbuf_eq_spec. unfold same_compared. intuition congruence. Qed.

(* ------------------------------------------------------------------ *)
(* accessors                                                          *)
(* ------------------------------------------------------------------ *)
Lemma getc_upd_same s c f : (c < length (cs s))%nat -> getc (upd_c s c f) c = f (getc s c).
Proof. intros H. unfold getc, upd_c, set_cs. cbn [cs]. apply nth_upd_same; auto. Qed.

Lemma getc_upd_other s c c' f : c <> c' -> getc (upd_c s c f) c' = getc s c'.
Proof. intros H. unfold getc, upd_c, set_cs. cbn [cs]. apply nth_upd_other; auto. Qed.

Lemma geth_upd_same s h f : (h < length (hs s))%nat -> geth (upd_h s h f) h = f (geth s h).
Proof. intros H. unfold geth, upd_h, set_hs. cbn [hs]. apply nth_upd_same; auto. Qed.

Lemma geth_upd_other s h h' f : h <> h' -> geth (upd_h s h f) h' = geth s h'.
Proof. intros H. unfold geth, upd_h, set_hs. cbn [hs]. apply nth_upd_other; auto. Qed.

Lemma len_cs_upd_c s c f : length (cs (upd_c s c f)) = length (cs s).
Proof. unfold upd_c, set_cs. cbn [cs]. apply upd_length. Qed.

Lemma len_hs_upd_h s h f : length (hs (upd_h s h f)) = length (hs s).
Proof. unfold upd_h, set_hs. cbn [hs]. apply upd_length. Qed.

(* the fields of a context that only poll_cb/timer_cb write *)
Definition core (x : ctx) := (c_parent x, c_busy x, c_interval x, c_cb x, c_path x, c_sb x).

Definition polls_of (l : list event) : list event :=
  filter (fun e => match e with EPoll _ _ _ _ _ _ => true | _ => false end) l.

Lemma polls_of_app a b : polls_of (a ++ b) = polls_of a ++ polls_of b.
Proof. unfold polls_of. apply filter_app. Qed.

(* API calls never touch the core of an existing context, never remove a
   context, and produce no poll callback *)
Lemma close_timer_core s c c' : core (getc (close_timer s c) c') = core (getc s c').
Proof.
  unfold close_timer, set_closingq, getc. cbn [cs upd_c set_cs].
  destruct (Nat.eq_dec c c') as [->|N].
  - destruct (Nat.lt_ge_cases c' (length (cs s))) as [L|L].
    + rewrite nth_upd_same by auto. reflexivity.
    + rewrite nth_upd_out by auto. reflexivity.
  - rewrite nth_upd_other by auto. reflexivity.
Qed.

Lemma close_timer_len s c : length (cs (close_timer s c)) = length (cs s).
Proof. unfold close_timer, set_closingq. cbn [cs upd_c set_cs]. apply upd_length. Qed.

Lemma do_stop_core s h c' : core (getc (do_stop s h) c') = core (getc s c').
Proof.
  unfold do_stop. destruct (negb (h_active (geth s h))); auto.
  destruct (h_chain (geth s h)) as [|c l].
  - reflexivity.
  - destruct (timer_active (c_timer (getc s c))).
    + change (getc (upd_h (close_timer s c) h (h_set_active false)) c') with (getc (close_timer s c) c').
      apply close_timer_core.
    + reflexivity.
Qed.

Lemma do_stop_len s h : length (cs (do_stop s h)) = length (cs s).
Proof.
  unfold do_stop. destruct (negb (h_active (geth s h))); auto.
  destruct (h_chain (geth s h)) as [|c l]; [reflexivity|].
  destruct (timer_active (c_timer (getc s c))); [|reflexivity].
  change (cs (upd_h (close_timer s c) h (h_set_active false))) with (cs (close_timer s c)).
  apply close_timer_len.
Qed.

Lemma do_close_core s h c' : core (getc (do_close s h) c') = core (getc s c').
Proof.
  unfold do_close.
  set (s1 := do_stop (upd_h s h h_set_closing) h).
  assert (E : core (getc s1 c') = core (getc s c')) by (unfold s1; rewrite do_stop_core; reflexivity).
  destruct (h_chain (geth s1 h)); auto.
Qed.

Lemma do_close_len s h : length (cs (do_close s h)) = length (cs s).
Proof.
  unfold do_close.
  set (s1 := do_stop (upd_h s h h_set_closing) h).
  assert (E : length (cs s1) = length (cs s)) by (unfold s1; rewrite do_stop_len; reflexivity).
  destruct (h_chain (geth s1 h)); auto.
Qed.

Lemma do_start_core s h cb p iv fl c' :
  (c' < length (cs s))%nat ->
  core (getc (fst (do_start s h cb p iv fl)) c') = core (getc s c') /\
  (length (cs s) <= length (cs (fst (do_start s h cb p iv fl))))%nat.
Proof.
  intros L. unfold do_start. destruct (h_active (geth s h)); [split; auto|].
  destruct fl as [|[|[|[|fl]]]]; cbn [fst]; unfold getc; cbn [cs upd_h set_hs set_inflight set_hq set_cs];
    rewrite ?app_length, ?app_nth1 by auto; split; auto; lia.
Qed.

(* uv_walk + close-all: whatever do_close and set_ut keep, the walk keeps *)
Lemma len_hs_do_stop s h : length (hs (do_stop s h)) = length (hs s).
Proof.
  unfold do_stop. destruct (negb (h_active (geth s h))); auto.
  rewrite len_hs_upd_h. destruct (h_chain (geth s h)); auto.
  destruct (timer_active _); reflexivity.
Qed.

Lemma len_hs_do_close s h : length (hs (do_close s h)) = length (hs s).
Proof.
  unfold do_close. set (s1 := do_stop _ h).
  assert (E : length (hs s1) = length (hs s)) by (unfold s1; rewrite len_hs_do_stop; apply len_hs_upd_h).
  destruct (h_chain (geth s1 h)); exact E.
Qed.

Lemma walk_targets_lt s h : In h (walk_targets s) -> (h < length (hs s))%nat.
Proof.
  unfold walk_targets, uv_walk, handle_queue. intros I. apply in_flat_map in I.
  destruct I as (it & I1 & I2). apply filter_In in I1. destruct I1 as [I1 N].
  apply in_app_iff in I1. destruct I1 as [I1|I1].
  - apply in_map_iff in I1. destruct I1 as (h0 & <- & I1). cbn in I2. destruct I2 as [<-|[]].
    apply filter_In in I1. destruct I1 as [I1 _]. apply in_seq in I1. lia.
  - apply in_map_iff in I1. destruct I1 as (c & <- & _). cbn in N. discriminate.
Qed.

Lemma do_walk_inv (P : st -> Prop) :
  (forall s h, (h < length (hs s))%nat -> P s -> P (do_close s h)) ->
  (forall s l, P s -> P (set_ut s l)) ->
  forall s, P s -> P (do_walk s).
Proof.
  intros Pc Pu s H. unfold do_walk.
  assert (X : forall l s0, Forall (fun h => (h < length (hs s0))%nat) l -> P s0 ->
              P (fold_left (fun s h => if h_closing (geth s h) then s else do_close s h) l s0)).
  { induction l as [|h l IH]; intros s0 F H0; cbn [fold_left]; auto.
    inversion F as [|a b Fh Fl]; subst.
    destruct (h_closing (geth s0 h)); [apply IH; auto|].
    apply IH; [|apply Pc; auto].
    rewrite len_hs_do_close. exact Fl. }
  set (s1 := fold_left _ (walk_targets s) s).
  assert (H1 : P s1).
  { apply X; auto. apply Forall_forall. intros h I. apply walk_targets_lt; auto. }
  destruct (ut s1); auto.
Qed.

Lemma api_core s o c' :
  (c' < length (cs s))%nat ->
  core (getc (fst (api s o)) c') = core (getc s c') /\
  (length (cs s) <= length (cs (fst (api s o))))%nat /\
  polls_of (snd (api s o)) = [].
Proof.
  intros L. destruct o; cbn [api]; try (split; [|split]; auto; fail).
  - destruct (valid s h && negb (h_closing (geth s h))); [|split; [|split]; auto].
    pose proof (do_start_core s h cb path interval fail c' L) as [A B].
    destruct (do_start s h cb path interval fail) as [s' r]. cbn [fst snd] in *. auto.
  - destruct (valid s h && negb (h_closed (geth s h))); cbn [fst snd]; [|split; [|split]; auto].
    rewrite do_stop_core, do_stop_len. auto.
  - destruct (valid s h && negb (h_closing (geth s h))); cbn [fst snd]; [|split; [|split]; auto].
    rewrite do_close_core, do_close_len. auto.
  - cbn [fst snd].
    pose proof (do_walk_inv (fun s' => core (getc s' c') = core (getc s c') /\ length (cs s') = length (cs s))) as W.
    destruct (W) with (s := s) as [A B]; auto.
    + intros s0 h _ [A B]. rewrite do_close_core, do_close_len. auto.
    + rewrite A, B. auto.
Qed.

Lemma apis_core os : forall s c',
  (c' < length (cs s))%nat ->
  core (getc (fst (apis s os)) c') = core (getc s c') /\
  (length (cs s) <= length (cs (fst (apis s os))))%nat /\
  polls_of (snd (apis s os)) = [].
Proof.
  induction os as [|o os IH]; intros s c' L; cbn [apis].
  - auto.
  - pose proof (api_core s o c' L) as (A & B & C).
    destruct (api s o) as [s1 e1]. cbn [fst snd] in *.
    assert (L1 : (c' < length (cs s1))%nat) by lia.
    pose proof (IH s1 c' L1) as (A' & B' & C').
    destruct (apis s1 os) as [s2 e2]. cbn [fst snd] in *.
    split; [congruence|]. split; [lia|]. rewrite polls_of_app, C, C'. reflexivity.
Qed.

(* ------------------------------------------------------------------ *)
(* C17_poll_cb_iff_differs                                            *)
(* ------------------------------------------------------------------ *)
(* what the context remembers of its previous poll *)
Definition last_status (x : ctx) : option Z :=
  if c_busy x =? 0 then None else if 0 <? c_busy x then Some 0 else Some (c_busy x).

(* "this poll differs from the previous one": in status, or (both good) in a compared field;
   the first poll of a context differs only when it fails *)
Definition differs (x : ctx) (r : Z) (sb : statbuf) : bool :=
  match last_status x with
  | None => negb (r =? 0)
  | Some 0 => negb (r =? 0) || negb (statbuf_eq (c_sb x) sb)
  | Some e => negb (r =? e)
  end.

Lemma user_cb_facts s ev beh cnt c' :
  (c' < length (cs s))%nat ->
  let '(s', e, n) := user_cb s ev beh cnt in
  core (getc s' c') = core (getc s c') /\ (length (cs s) <= length (cs s'))%nat /\
  polls_of e = polls_of [ev] /\ n = S cnt.
Proof.
  intros L. unfold user_cb.
  pose proof (apis_core (beh cnt) s c' L) as (A & B & C).
  destruct (apis s (beh cnt)) as [s' e]. cbn [fst snd] in *.
  split; auto. split; auto. split; auto.
  change (ev :: e) with ([ev] ++ e). rewrite polls_of_app, C, app_nil_r. reflexivity.
Qed.

Lemma core_upd_inflight s c b c' :
  core (getc (upd_c s c (c_set_inflight b)) c') = core (getc s c').
Proof.
  destruct (Nat.eq_dec c c') as [->|N].
  - destruct (Nat.lt_ge_cases c' (length (cs s))) as [L|L].
    + rewrite getc_upd_same by auto. reflexivity.
    + unfold getc, upd_c, set_cs. cbn [cs]. rewrite nth_upd_out by auto. reflexivity.
  - rewrite getc_upd_other by auto. reflexivity.
Qed.

(* poll_cb = the reporting part followed by the [out:] part *)
Definition mid (fx : bool) (s0 : st) (c : nat) (res : sres) (beh : nat -> list op) (cnt : nat)
  : st * list event * nat :=
  let x := getc s0 c in
  let h := c_parent x in
  if gone fx s0 h c then (s0, [], cnt) else
  let '(r, sb) := res in
  if negb (r =? 0) then
    if negb (c_busy x =? r) then
      let '(s', e, n) := user_cb s0 (EPoll h (c_cb x) (c_path x) r (c_sb x) zero_sb) beh cnt in
      (upd_c s' c (c_set_busy r), e, n)
    else (s0, [], cnt)
  else
    let '(s', e, n) :=
      if negb (c_busy x =? 0) && ((c_busy x <? 0) || negb (statbuf_eq (c_sb x) sb))
      then user_cb s0 (EPoll h (c_cb x) (c_path x) 0 (c_sb x) sb) beh cnt
      else (s0, [], cnt) in
    (upd_c s' c (fun y => c_set_busy 1 (c_set_sb sb y)), e, n).

Definition out_part (fx : bool) (s1 : st) (h c : nat) : st :=
  if gone fx s1 h c then close_timer s1 c
  else
    let y := getc s1 c in
    let iv := c_interval y in
    let t := iv - ((now s1 - c_start y) mod iv) in
    set_tctr (upd_c s1 c (c_set_timer (TArmed (now s1 + t) (tctr s1)))) (tctr s1 + 1).

Lemma poll_cb_split fx s c res beh cnt :
  poll_cb fx s c res beh cnt =
  let s0 := upd_c s c (c_set_inflight false) in
  let '(s1, ev, n) := mid fx s0 c res beh cnt in
  (out_part fx s1 (c_parent (getc s0 c)) c, ev, n).
Proof.
  unfold poll_cb, mid, out_part. cbv zeta.
  set (s0 := upd_c s c (c_set_inflight false)).
  set (h := c_parent (getc s0 c)).
  destruct (gone fx s0 h c) eqn:G0.
  - rewrite G0. reflexivity.
  - destruct res as [r sb].
    destruct (negb (r =? 0)).
    + destruct (negb (c_busy (getc s0 c) =? r)).
      * destruct (user_cb s0 _ beh cnt) as [[s' e] n].
        destruct (gone fx (upd_c s' c (c_set_busy r)) h c); reflexivity.
      * rewrite G0. reflexivity.
    + destruct (negb (c_busy (getc s0 c) =? 0) && _).
      * destruct (user_cb s0 _ beh cnt) as [[s' e] n].
        match goal with |- context [gone fx (upd_c ?a c ?f) h c] =>
          destruct (gone fx (upd_c a c f) h c) end; reflexivity.
      * match goal with |- context [gone fx (upd_c ?a c ?f) h c] =>
          destruct (gone fx (upd_c a c f) h c) end; reflexivity.
Qed.

Lemma out_part_core fx s1 h c c' :
  core (getc (out_part fx s1 h c) c') = core (getc s1 c') /\
  length (cs (out_part fx s1 h c)) = length (cs s1).
Proof.
  unfold out_part. destruct (gone fx s1 h c).
  - split; [apply close_timer_core|apply close_timer_len].
  - unfold set_tctr, getc. cbn [cs upd_c set_cs]. rewrite upd_length. split; auto.
    destruct (Nat.eq_dec c c') as [->|N].
    + destruct (Nat.lt_ge_cases c' (length (cs s1))) as [L|L].
      * rewrite nth_upd_same by auto. reflexivity.
      * rewrite nth_upd_out by auto. reflexivity.
    + rewrite nth_upd_other by auto. reflexivity.
Qed.

Theorem poll_cb_iff_differs :
  forall fx s c r sb beh cnt,
  r <= 0 -> (c < length (cs s))%nat ->
  let x := getc s c in
  gone fx (upd_c s c (c_set_inflight false)) (c_parent x) c = false ->
  let '(s', evs, _) := poll_cb fx s c (r, sb) beh cnt in
  polls_of evs =
    (if differs x r sb
     then [EPoll (c_parent x) (c_cb x) (c_path x) r (c_sb x) (if r =? 0 then sb else zero_sb)]
     else []) /\
  c_busy (getc s' c) = (if r =? 0 then 1 else r) /\
  c_sb (getc s' c) = (if r =? 0 then sb else c_sb x).
Proof.
  intros fx s c r sb beh cnt Hr L x G.
  rewrite poll_cb_split. cbv zeta.
  set (s0 := upd_c s c (c_set_inflight false)) in *.
  assert (L0 : (c < length (cs s0))%nat) by (unfold s0; rewrite len_cs_upd_c; auto).
  assert (X0 : core (getc s0 c) = core x) by (unfold s0, x; apply core_upd_inflight).
  unfold core in X0. injection X0 as Ep Eb Ei Ec Epa Es.
  assert (M : let '(s1, ev, n) := mid fx s0 c (r, sb) beh cnt in
              polls_of ev =
                (if differs x r sb
                 then [EPoll (c_parent x) (c_cb x) (c_path x) r (c_sb x) (if r =? 0 then sb else zero_sb)]
                 else []) /\
              c_busy (getc s1 c) = (if r =? 0 then 1 else r) /\
              c_sb (getc s1 c) = (if r =? 0 then sb else c_sb x)).
  { unfold mid. rewrite Ep, G, Eb, Es, Ec, Epa.
    unfold differs, last_status.
    destruct (Z.eqb_spec r 0) as [R0|R0]; cbn [negb].
    - subst r.
      destruct (Z.eqb_spec (c_busy x) 0) as [B0|B0]; cbn [negb andb].
      + rewrite getc_upd_same by auto. cbn. auto.
      + destruct (0 <? c_busy x) eqn:Pos.
        * assert (Hlt : (c_busy x <? 0) = false) by lia. rewrite Hlt. cbn [orb].
          destruct (statbuf_eq (c_sb x) sb) eqn:SE; cbn [negb].
          -- rewrite getc_upd_same by auto. cbn. auto.
          -- pose proof (user_cb_facts s0 (EPoll (c_parent x) (c_cb x) (c_path x) 0 (c_sb x) sb) beh cnt c L0) as F.
             destruct (user_cb s0 _ beh cnt) as [[s' e] n].
             destruct F as (F1 & F2 & F3 & F4).
             rewrite getc_upd_same by lia. rewrite F3. cbn. auto.
        * assert (Hlt : (c_busy x <? 0) = true) by lia. rewrite Hlt. cbn [orb].
          assert (Hd : match c_busy x with 0 => negb (statbuf_eq (c_sb x) sb) | _ => negb (0 =? c_busy x) end = true).
          { destruct (c_busy x); try lia; reflexivity. }
          rewrite Hd.
          pose proof (user_cb_facts s0 (EPoll (c_parent x) (c_cb x) (c_path x) 0 (c_sb x) sb) beh cnt c L0) as F.
          destruct (user_cb s0 _ beh cnt) as [[s' e] n].
          destruct F as (F1 & F2 & F3 & F4).
          rewrite getc_upd_same by lia. rewrite F3. cbn. auto.
    - assert (Hd : (match (if c_busy x =? 0 then None else if 0 <? c_busy x then Some 0 else Some (c_busy x)) with
                    | None => true
                    | Some 0 => true || negb (statbuf_eq (c_sb x) sb)
                    | Some e => negb (r =? e)
                    end) = negb (c_busy x =? r)).
      { destruct (Z.eqb_spec (c_busy x) 0) as [B0|B0].
        - rewrite B0. destruct (Z.eqb_spec 0 r); [lia|reflexivity].
        - destruct (0 <? c_busy x) eqn:Pos.
          + cbn. destruct (Z.eqb_spec (c_busy x) r); [lia|reflexivity].
          + destruct (c_busy x) eqn:Bx; lia. }
      rewrite Hd.
      destruct (c_busy x =? r) eqn:BR; cbn [negb].
      + fold (getc s0 c). rewrite Eb, Es. repeat split; auto. lia.
      + pose proof (user_cb_facts s0 (EPoll (c_parent x) (c_cb x) (c_path x) r (c_sb x) zero_sb) beh cnt c L0) as F.
        destruct (user_cb s0 _ beh cnt) as [[s' e] n].
        destruct F as (F1 & F2 & F3 & F4).
        unfold core in F1. injection F1 as G1 G2 G3 G4 G5 G6.
        rewrite getc_upd_same by lia. rewrite F3. cbn. rewrite G6, Es. auto. }
  destruct (mid fx s0 c (r, sb) beh cnt) as [[s1 ev] n].
  destruct M as (M1 & M2 & M3).
  pose proof (out_part_core fx s1 (c_parent (getc s0 c)) c c) as [O1 O2].
  unfold core in O1. injection O1 as Q1 Q2 Q3 Q4 Q5 Q6.
  rewrite Q2, Q6. auto.
Qed.

(* ------------------------------------------------------------------ *)
(* C17_chain: the sequence of reports of one context                  *)
(* ------------------------------------------------------------------ *)
(* what poll_cb_iff_differs shows poll_cb to do with the two remembered
   fields, as a function of the stat answers of one context *)
Definition mem : Type := (Z * statbuf)%type.        (* busy_polling, statbuf *)
Definition mem_ctx (m : mem) : ctx := mkCtx 0 (fst m) 1 0 0 0 (snd m) TIdle false false.
Definition mem_next (m : mem) (res : sres) : mem :=
  (if fst res =? 0 then 1 else fst res, if fst res =? 0 then snd res else snd m).

Definition report : Type := (Z * statbuf * statbuf)%type.   (* status, prev, curr *)

Fixpoint reports (m : mem) (rs : list sres) : list report :=
  match rs with
  | [] => []
  | res :: rs' =>
      (if differs (mem_ctx m) (fst res) (snd res)
       then [(fst res, snd m, if fst res =? 0 then snd res else zero_sb)] else [])
      ++ reports (mem_next m res) rs'
  end.

(* [chained sb l]: the first report's prev agrees with sb in every compared
   field, and every later prev agrees with the curr of the latest good report
   before it (an error report leaves the remembered statbuf alone) *)
Fixpoint chained (sb0 : statbuf) (l : list report) : Prop :=
  match l with
  | [] => True
  | (r, p, c) :: l' => statbuf_eq p sb0 = true /\ chained (if r =? 0 then c else p) l'
  end.

Definition chained_from_first (l : list report) : Prop :=
  match l with
  | [] => True
  | (r, p, c) :: l' => chained (if r =? 0 then c else p) l'
  end.

Lemma chained_congr l : forall a b, statbuf_eq a b = true -> chained a l -> chained b l.
Proof.
  destruct l as [|[[r p] c] l]; cbn; auto.
  intros a b E [H1 H2]. split; auto. eapply statbuf_eq_trans; eauto.
Qed.

Lemma reports_chained rs : forall m, fst m <> 0 -> chained (snd m) (reports m rs).
Proof.
  induction rs as [|[r sb] rs IH]; intros [busy sb0] Hb; cbn [reports fst snd]; [exact I|].
  cbn [fst snd] in Hb.
  assert (Hn : fst (mem_next (busy, sb0) (r, sb)) <> 0).
  { unfold mem_next. cbn [fst snd]. destruct (Z.eqb_spec r 0); lia. }
  pose proof (IH _ Hn) as IH'. unfold mem_next in IH' at 1. cbn [fst snd] in IH'.
  destruct (differs (mem_ctx (busy, sb0)) r sb) eqn:D.
  - cbn [app chained]. split; [apply statbuf_eq_refl|].
    destruct (r =? 0); exact IH'.
  - cbn [app].
    destruct (Z.eqb_spec r 0) as [R|R]; [|exact IH'].
    (* a good poll without a report: the new statbuf agrees with the old one *)
    unfold differs, last_status, mem_ctx in D. cbn [c_busy c_sb fst snd] in D.
    destruct (Z.eqb_spec busy 0); [lia|].
    destruct (0 <? busy) eqn:P.
    + subst r. cbn in D. apply negb_false_iff in D.
      eapply chained_congr; [|exact IH']. apply statbuf_eq_sym; exact D.
    + subst r. destruct busy; lia.
Qed.

Theorem reports_chain : forall rs m, chained_from_first (reports m rs).
Proof.
  induction rs as [|[r sb] rs IH]; intros m; cbn [reports fst snd]; [exact I|].
  destruct (differs (mem_ctx m) r sb).
  - cbn [app chained_from_first].
    assert (Hn : fst (mem_next m (r, sb)) <> 0).
    { unfold mem_next. cbn [fst snd]. destruct (Z.eqb_spec r 0); lia. }
    pose proof (reports_chained rs _ Hn) as C. unfold mem_next in C at 1. cbn [fst snd] in C.
    destruct (r =? 0); exact C.
  - cbn [app]. apply IH.
Qed.

(* the abstraction is what poll_cb does: restated from poll_cb_iff_differs *)
Theorem poll_cb_is_mem_step :
  forall fx s c r sb beh cnt,
  r <= 0 -> (c < length (cs s))%nat ->
  let x := getc s c in
  let m := (c_busy x, c_sb x) in
  gone fx (upd_c s c (c_set_inflight false)) (c_parent x) c = false ->
  let '(s', evs, _) := poll_cb fx s c (r, sb) beh cnt in
  map (fun e => match e with EPoll _ _ _ st p q => (st, p, q) | _ => (0, zero_sb, zero_sb) end)
      (polls_of evs) = reports m [(r, sb)] /\
  (c_busy (getc s' c), c_sb (getc s' c)) = mem_next m (r, sb).
Proof.
  intros fx s c r sb beh cnt Hr L x m G.
  pose proof (poll_cb_iff_differs fx s c r sb beh cnt Hr L G) as P.
  destruct (poll_cb fx s c (r, sb) beh cnt) as [[s' evs] n].
  destruct P as (P1 & P2 & P3). fold x in P1, P3.
  split.
  - rewrite P1. cbn [reports fst snd]. rewrite app_nil_r.
    assert (E : differs (mem_ctx m) r sb = differs x r sb) by reflexivity.
    rewrite E. destruct (differs x r sb); reflexivity.
  - unfold mem_next, m. cbn [fst snd]. rewrite P2, P3. reflexivity.
Qed.

(* ------------------------------------------------------------------ *)
(* C17_old_ctx_silent: the invariant of the repaired variant          *)
(* ------------------------------------------------------------------ *)
Definition armed (s : st) (c : nat) : Prop := timer_active (c_timer (getc s c)) = true.

(* c is the current context of an active handle that is not closing *)
Definition cur (s : st) (c : nat) : Prop :=
  is_head s (c_parent (getc s c)) c = true /\
  h_active (geth s (c_parent (getc s c))) = true /\
  h_closing (geth s (c_parent (getc s c))) = false.

(* only the current context of an active handle has its timer armed: no
   other context will ever submit another stat *)
Definition Silent (s : st) : Prop := forall c, armed s c -> cur s c.

Definition ChainOK (s : st) : Prop :=
  forall h c, In c (h_chain (geth s h)) -> (c < length (cs s))%nat /\ c_parent (getc s c) = h.

Definition SI (s : st) : Prop := Silent s /\ ChainOK s.

Lemma getc_upd_c s c f c' :
  getc (upd_c s c f) c' =
  if Nat.eqb c c' && Nat.ltb c (length (cs s)) then f (getc s c') else getc s c'.
Proof.
  unfold getc, upd_c, set_cs. cbn [cs].
  destruct (Nat.eqb_spec c c') as [->|N]; cbn [andb].
  - destruct (Nat.ltb_spec c' (length (cs s))).
    + apply nth_upd_same; auto.
    + rewrite nth_upd_out by auto. reflexivity.
  - apply nth_upd_other; auto.
Qed.

Lemma geth_upd_h s h f h' :
  geth (upd_h s h f) h' =
  if Nat.eqb h h' && Nat.ltb h (length (hs s)) then f (geth s h') else geth s h'.
Proof.
  unfold geth, upd_h, set_hs. cbn [hs].
  destruct (Nat.eqb_spec h h') as [->|N]; cbn [andb].
  - destruct (Nat.ltb_spec h' (length (hs s))).
    + apply nth_upd_same; auto.
    + rewrite nth_upd_out by auto. reflexivity.
  - apply nth_upd_other; auto.
Qed.

Lemma armed_lt s c : armed s c -> (c < length (cs s))%nat.
Proof.
  unfold armed, getc. intros A. destruct (Nat.lt_ge_cases c (length (cs s))); auto.
  rewrite nth_overflow in A by auto. discriminate.
Qed.

Lemma is_head_in s h c : is_head s h c = true -> In c (h_chain (geth s h)).
Proof.
  unfold is_head. destruct (h_chain (geth s h)) as [|c0 l]; [discriminate|].
  intros E. apply Nat.eqb_eq in E. subst. left; reflexivity.
Qed.

(* a state that differs only outside [hs] and [cs] *)
Lemma SI_same s s' : hs s' = hs s -> cs s' = cs s -> SI s -> SI s'.
Proof.
  intros Eh Ec [S C]. split.
  - intros c A. unfold armed, cur, is_head, getc, geth in *. rewrite Eh, Ec in *. apply S; auto.
  - intros h c I. unfold ChainOK, getc, geth in *. rewrite Eh, Ec in *. apply C; auto.
Qed.

(* a context update that keeps the parent and arms nothing *)
Lemma SI_upd_c s c f :
  (forall x, c_parent (f x) = c_parent x) ->
  (forall x, timer_active (c_timer (f x)) = true -> timer_active (c_timer x) = true) ->
  SI s -> SI (upd_c s c f).
Proof.
  intros Fp Ft [S C]. split.
  - intros c' A. unfold armed in A. rewrite getc_upd_c in A.
    assert (A' : armed s c').
    { unfold armed. destruct (Nat.eqb c c' && Nat.ltb c (length (cs s))); auto. }
    specialize (S c' A'). unfold cur in *. rewrite getc_upd_c.
    assert (P : c_parent (if Nat.eqb c c' && Nat.ltb c (length (cs s)) then f (getc s c') else getc s c')
                = c_parent (getc s c')).
    { destruct (Nat.eqb c c' && Nat.ltb c (length (cs s))); auto. }
    rewrite P. exact S.
  - intros h c' I. change (geth (upd_c s c f) h) with (geth s h) in I.
    destruct (C h c' I) as [L P]. rewrite len_cs_upd_c. split; auto.
    rewrite getc_upd_c. destruct (Nat.eqb c c' && Nat.ltb c (length (cs s))); auto.
    rewrite Fp; auto.
Qed.

Lemma SI_close_timer s c : SI s -> SI (close_timer s c).
Proof.
  intros H. unfold close_timer.
  apply (SI_same (upd_c s c (c_set_timer TClosing))); try reflexivity.
  apply SI_upd_c; auto. cbn. discriminate.
Qed.

Lemma cur_transfer s s' c :
  c_parent (getc s' c) = c_parent (getc s c) ->
  geth s' (c_parent (getc s c)) = geth s (c_parent (getc s c)) ->
  cur s c -> cur s' c.
Proof.
  intros P G. unfold cur, is_head. rewrite P, G. auto.
Qed.

Lemma getc_app s x c : (c < length (cs s))%nat -> getc (set_cs s (cs s ++ [x])) c = getc s c.
Proof. intros L. unfold getc, set_cs. cbn [cs]. apply app_nth1; auto. Qed.

Lemma SI_start_ok s h nc l1 l2 :
  SI s -> h_active (geth s h) = false -> c_parent nc = h -> timer_active (c_timer nc) = false ->
  SI (upd_h (set_inflight (set_hq (set_cs s (cs s ++ [nc])) l1) l2) h
            (fun x => h_set_active true (h_set_chain (length (cs s) :: h_chain x) x))).
Proof.
  intros [S C] Ha Pn Tn.
  set (s1 := set_inflight (set_hq (set_cs s (cs s ++ [nc])) l1) l2).
  assert (G1 : forall c, getc (upd_h s1 h (fun x => h_set_active true (h_set_chain (length (cs s) :: h_chain x) x))) c
                         = getc (set_cs s (cs s ++ [nc])) c) by reflexivity.
  split.
  - intros c A. pose proof (armed_lt _ _ A) as L.
    unfold armed in A. rewrite G1 in A.
    cbn [cs upd_h set_hs s1 set_inflight set_hq set_cs] in L. rewrite app_length in L. cbn in L.
    destruct (Nat.eq_dec c (length (cs s))) as [->|N].
    + unfold getc, set_cs in A. cbn [cs] in A. rewrite nth_middle in A. congruence.
    + assert (L' : (c < length (cs s))%nat) by lia.
      rewrite getc_app in A by auto.
      pose proof (S c A) as Cu.
      assert (Hne : c_parent (getc s c) <> h).
      { intros E. destruct Cu as (_ & Ac & _). rewrite E in Ac. congruence. }
      apply (cur_transfer s); auto.
      * rewrite G1, getc_app by auto. reflexivity.
      * rewrite geth_upd_h.
        destruct (Nat.eqb_spec h (c_parent (getc s c))); [congruence|]. reflexivity.
  - intros h' c I. cbn [cs upd_h set_hs s1 set_inflight set_hq set_cs]. rewrite app_length. cbn [length].
    rewrite geth_upd_h in I. cbn [hs s1 set_inflight set_hq set_cs] in I.
    rewrite G1.
    assert (Old : In c (h_chain (geth s h')) ->
                  (c < length (cs s) + 1)%nat /\ c_parent (getc (set_cs s (cs s ++ [nc])) c) = h').
    { intros I'. destruct (C h' c I') as [L P]. split; [lia|]. rewrite getc_app; auto. }
    destruct (Nat.eqb_spec h h') as [->|N]; cbn [andb] in I; auto.
    destruct (Nat.ltb h' (length (hs s))); auto.
    cbn [h_set_active h_set_chain h_chain] in I. destruct I as [<-|I]; auto.
    split; [lia|]. unfold getc, set_cs. cbn [cs]. rewrite nth_middle. exact Pn.
Qed.

Lemma SI_start_fail s nc l1 :
  SI s -> timer_active (c_timer nc) = false -> SI (set_hq (set_cs s (cs s ++ [nc])) l1).
Proof.
  intros [S C] Tn.
  assert (G1 : forall c, getc (set_hq (set_cs s (cs s ++ [nc])) l1) c = getc (set_cs s (cs s ++ [nc])) c)
    by reflexivity.
  split.
  - intros c A. pose proof (armed_lt _ _ A) as L. unfold armed in A. rewrite G1 in A.
    cbn [cs set_hq set_cs] in L. rewrite app_length in L. cbn in L.
    destruct (Nat.eq_dec c (length (cs s))) as [->|N].
    + unfold getc, set_cs in A. cbn [cs] in A. rewrite nth_middle in A. congruence.
    + rewrite getc_app in A by lia.
      apply (cur_transfer s); auto. rewrite G1, getc_app by lia. reflexivity.
  - intros h' c I. change (geth (set_hq (set_cs s (cs s ++ [nc])) l1) h') with (geth s h') in I.
    destruct (C h' c I) as [L P]. cbn [cs set_hq set_cs]. rewrite app_length. split; [lia|].
    rewrite G1, getc_app; auto.
Qed.

Lemma SI_do_start s h cb p iv fl : SI s -> SI (fst (do_start s h cb p iv fl)).
Proof.
  intros H. unfold do_start. destruct (h_active (geth s h)) eqn:Ha; [exact H|].
  destruct fl as [|[|[|[|fl]]]]; cbn [fst].
  - apply SI_start_ok; auto.
  - exact H.
  - apply (SI_start_fail s _ (hq s)); auto.
  - apply SI_start_fail; auto.
  - apply SI_start_ok; auto.
Qed.

Lemma ChainOK_ext s s' :
  (forall h, incl (h_chain (geth s' h)) (h_chain (geth s h))) ->
  (length (cs s) <= length (cs s'))%nat ->
  (forall c, (c < length (cs s))%nat -> c_parent (getc s' c) = c_parent (getc s c)) ->
  ChainOK s -> ChainOK s'.
Proof.
  intros Hi Hl Hp C h c I. destruct (C h c (Hi h c I)) as [L P]. split; [lia|]. rewrite Hp; auto.
Qed.

Lemma chain_upd_h_keep s h f h' :
  (forall x, h_chain (f x) = h_chain x) -> h_chain (geth (upd_h s h f) h') = h_chain (geth s h').
Proof.
  intros F. rewrite geth_upd_h. destruct (Nat.eqb h h' && Nat.ltb h (length (hs s))); auto.
Qed.

Lemma parent_close_timer s c0 c : c_parent (getc (close_timer s c0) c) = c_parent (getc s c).
Proof.
  change (getc (close_timer s c0) c) with (getc (upd_c s c0 (c_set_timer TClosing)) c).
  rewrite getc_upd_c. destruct (Nat.eqb c0 c && Nat.ltb c0 (length (cs s))); reflexivity.
Qed.

Lemma SI_do_stop_gen s h :
  (forall c, armed s c -> c_parent (getc s c) <> h -> cur s c) ->
  (forall c, armed s c -> c_parent (getc s c) = h ->
             is_head s h c = true /\ h_active (geth s h) = true) ->
  ChainOK s -> SI (do_stop s h).
Proof.
  intros H1 H2 HC. unfold do_stop.
  destruct (h_active (geth s h)) eqn:Ha; cbn [negb].
  2:{ split; auto. intros c A. destruct (Nat.eq_dec (c_parent (getc s c)) h) as [E|E]; auto.
      destruct (H2 c A E) as [_ X]. congruence. }
  destruct (h_chain (geth s h)) as [|c0 l] eqn:Ch.
  - split.
    + intros c A. change (armed s c) in A.
      destruct (Nat.eq_dec (c_parent (getc s c)) h) as [E|E].
      * destruct (H2 c A E) as [X _]. unfold is_head in X. rewrite Ch in X. discriminate.
      * apply (cur_transfer s); auto. rewrite geth_upd_h.
        destruct (Nat.eqb_spec h (c_parent (getc s c))); [congruence|reflexivity].
    + eapply ChainOK_ext; [| | |exact HC]; auto.
      intros h'. rewrite chain_upd_h_keep by reflexivity. apply incl_refl.
  - assert (CO : ChainOK (upd_h (close_timer s c0) h (h_set_active false))).
    { eapply ChainOK_ext; [| | |exact HC].
      - intros h'. rewrite chain_upd_h_keep by reflexivity. apply incl_refl.
      - change (cs (upd_h (close_timer s c0) h (h_set_active false))) with (cs (close_timer s c0)).
        rewrite close_timer_len. auto.
      - intros c _. apply parent_close_timer. }
    assert (CO' : ChainOK (upd_h s h (h_set_active false))).
    { eapply ChainOK_ext; [| | |exact HC]; auto.
      intros h'. rewrite chain_upd_h_keep by reflexivity. apply incl_refl. }
    destruct (timer_active (c_timer (getc s c0))) eqn:T; split; auto.
    + intros c A. unfold armed in A.
      change (getc (upd_h (close_timer s c0) h (h_set_active false)) c)
        with (getc (upd_c s c0 (c_set_timer TClosing)) c) in A.
      rewrite getc_upd_c in A.
      destruct (Nat.eqb c0 c && Nat.ltb c0 (length (cs s))) eqn:Cond; [discriminate|].
      change (armed s c) in A.
      destruct (Nat.eq_dec (c_parent (getc s c)) h) as [E|E].
      * exfalso. destruct (H2 c A E) as [X _]. unfold is_head in X. rewrite Ch in X.
        apply Nat.eqb_eq in X. subst c0. pose proof (armed_lt _ _ A) as L.
        rewrite Nat.eqb_refl in Cond. cbn in Cond. apply Nat.ltb_ge in Cond. lia.
      * apply (cur_transfer s); auto.
        -- apply parent_close_timer.
        -- rewrite geth_upd_h. destruct (Nat.eqb_spec h (c_parent (getc s c))); [congruence|reflexivity].
    + intros c A. change (armed s c) in A.
      destruct (Nat.eq_dec (c_parent (getc s c)) h) as [E|E].
      * exfalso. destruct (H2 c A E) as [X _]. unfold is_head in X. rewrite Ch in X.
        apply Nat.eqb_eq in X. subst c0. unfold armed in A. congruence.
      * apply (cur_transfer s); auto. rewrite geth_upd_h.
        destruct (Nat.eqb_spec h (c_parent (getc s c))); [congruence|reflexivity].
Qed.

Lemma SI_do_stop s h : SI s -> SI (do_stop s h).
Proof.
  intros [S C]. apply SI_do_stop_gen; auto.
  intros c A E. destruct (S c A) as (X & Y & _). rewrite E in *. auto.
Qed.

Lemma SI_do_close s h : SI s -> SI (do_close s h).
Proof.
  intros [S C]. unfold do_close.
  set (s0 := upd_h s h h_set_closing).
  assert (G : forall h', h_chain (geth s0 h') = h_chain (geth s h') /\
                         h_active (geth s0 h') = h_active (geth s h')).
  { intros h'. unfold s0. rewrite geth_upd_h.
    destruct (Nat.eqb h h' && Nat.ltb h (length (hs s))); auto. }
  assert (S1 : SI (do_stop s0 h)).
  { apply SI_do_stop_gen.
    - intros c A E. change (armed s c) in A. apply (cur_transfer s); auto.
      unfold s0. rewrite geth_upd_h.
      change (getc s0 c) with (getc s c) in E.
      destruct (Nat.eqb_spec h (c_parent (getc s c))); [congruence|reflexivity].
    - intros c A E. change (armed s c) in A. change (getc s0 c) with (getc s c) in E.
      destruct (S c A) as (X & Y & _). rewrite E in *.
      unfold is_head in *. destruct (G h) as [G1 G2]. rewrite G1, G2. auto.
    - eapply ChainOK_ext; [| | |exact C]; auto.
      intros h'. destruct (G h') as [G1 _]. rewrite G1. apply incl_refl. }
  destruct (h_chain (geth (do_stop s0 h) h)); auto.
Qed.

Lemma SI_init_handle s x : h_chain x = [] -> SI s -> SI (set_hs s (hs s ++ [x])).
Proof.
  intros Hx [S C].
  assert (G : forall h', (h' < length (hs s))%nat -> geth (set_hs s (hs s ++ [x])) h' = geth s h').
  { intros h' L. unfold geth, set_hs. cbn [hs]. apply app_nth1; auto. }
  assert (LT : forall h', h_active (geth s h') = true -> (h' < length (hs s))%nat).
  { intros h' A. unfold geth in A. destruct (Nat.lt_ge_cases h' (length (hs s))); auto.
    rewrite nth_overflow in A by auto. discriminate. }
  split.
  - intros c A. change (armed s c) in A. pose proof (S c A) as Cu.
    apply (cur_transfer s); auto. apply G. apply LT. apply Cu.
  - intros h' c I. change (cs (set_hs s (hs s ++ [x]))) with (cs s).
    change (getc (set_hs s (hs s ++ [x])) c) with (getc s c).
    destruct (Nat.lt_ge_cases h' (length (hs s))) as [L|L].
    + rewrite G in I by auto. apply C; auto.
    + unfold geth, set_hs in I. cbn [hs] in I.
      destruct (Nat.eq_dec h' (length (hs s))) as [->|N].
      * rewrite nth_middle, Hx in I. destruct I.
      * rewrite nth_overflow in I by (rewrite app_length; cbn; lia). destruct I.
Qed.

Lemma SI_api s o : SI s -> SI (fst (api s o)).
Proof.
  intros H. destruct o; cbn [api fst]; auto.
  - apply SI_init_handle; auto.
  - destruct (valid s h && negb (h_closing (geth s h))); auto.
    pose proof (SI_do_start s h cb path interval fail H) as X.
    destruct (do_start s h cb path interval fail); auto.
  - destruct (valid s h && negb (h_closed (geth s h))); cbn [fst]; auto. apply SI_do_stop; auto.
  - destruct (valid s h && negb (h_closing (geth s h))); cbn [fst]; auto. apply SI_do_close; auto.
  - cbn [fst]. apply (do_walk_inv SI).
    + intros s0 h0 _ H0. apply SI_do_close; auto.
    + intros s0 l H0. eapply SI_same; [| |exact H0]; reflexivity.
    + exact H.
Qed.

Lemma SI_apis os : forall s, SI s -> SI (fst (apis s os)).
Proof.
  induction os as [|o os IH]; intros s H; cbn [apis]; auto.
  pose proof (SI_api s o H) as X. destruct (api s o) as [s1 e1]. cbn [fst] in X.
  pose proof (IH s1 X) as Y. destruct (apis s1 os) as [s2 e2]. exact Y.
Qed.

Lemma SI_user_cb s ev beh cnt : SI s -> SI (fst (fst (user_cb s ev beh cnt))).
Proof.
  intros H. unfold user_cb. pose proof (SI_apis (beh cnt) s H) as X.
  destruct (apis s (beh cnt)); exact X.
Qed.

Lemma SI_mid fx s0 c res beh cnt : SI s0 -> SI (fst (fst (mid fx s0 c res beh cnt))).
Proof.
  intros H. unfold mid.
  destruct (gone fx s0 (c_parent (getc s0 c)) c); auto.
  destruct res as [r sb].
  destruct (negb (r =? 0)).
  - destruct (negb (c_busy (getc s0 c) =? r)); auto.
    pose proof (SI_user_cb s0 (EPoll (c_parent (getc s0 c)) (c_cb (getc s0 c)) (c_path (getc s0 c)) r
                                     (c_sb (getc s0 c)) zero_sb) beh cnt H) as X.
    destruct (user_cb s0 _ beh cnt) as [[s' e] n]. cbn [fst] in *.
    apply SI_upd_c; auto.
  - destruct (negb (c_busy (getc s0 c) =? 0) && _).
    + pose proof (SI_user_cb s0 (EPoll (c_parent (getc s0 c)) (c_cb (getc s0 c)) (c_path (getc s0 c)) 0
                                       (c_sb (getc s0 c)) sb) beh cnt H) as X.
      destruct (user_cb s0 _ beh cnt) as [[s' e] n]. cbn [fst] in *.
      apply SI_upd_c; auto.
    + cbn [fst]. apply SI_upd_c; auto.
Qed.

Lemma SI_arm s c h due seq v :
  SI s -> is_head s h c = true -> h_active (geth s h) = true -> h_closing (geth s h) = false ->
  SI (set_tctr (upd_c s c (c_set_timer (TArmed due seq))) v).
Proof.
  intros [S C] Hh Ha Hc.
  destruct (C h c (is_head_in _ _ _ Hh)) as [L P].
  apply (SI_same (upd_c s c (c_set_timer (TArmed due seq)))); try reflexivity.
  split.
  - intros c' A. unfold armed in A. rewrite getc_upd_c in A.
    unfold cur. rewrite getc_upd_c.
    change (geth (upd_c s c (c_set_timer (TArmed due seq)))) with (geth s).
    unfold is_head. change (geth (upd_c s c (c_set_timer (TArmed due seq)))) with (geth s).
    destruct (Nat.eqb_spec c c') as [->|N]; cbn [andb] in *.
    + destruct (Nat.ltb c' (length (cs s))).
      * cbn [c_set_timer c_parent]. rewrite P. unfold is_head in Hh. auto.
      * apply (S c' A).
    + apply (S c' A).
  - eapply ChainOK_ext; [| | |exact C].
    + intros h'. apply incl_refl.
    + rewrite len_cs_upd_c. auto.
    + intros c' _. rewrite getc_upd_c. destruct (Nat.eqb c c' && Nat.ltb c (length (cs s))); reflexivity.
Qed.

Lemma SI_out_part s1 h c : SI s1 -> SI (out_part true s1 h c).
Proof.
  intros H. unfold out_part. destruct (gone true s1 h c) eqn:G.
  - apply SI_close_timer; auto.
  - unfold gone in G. cbn [andb] in G.
    apply orb_false_iff in G. destruct G as [G Hh]. apply orb_false_iff in G. destruct G as [Ha Hc].
    apply negb_false_iff in Ha. apply negb_false_iff in Hh.
    eapply SI_arm; eauto.
Qed.

Lemma SI_poll_cb s c res beh cnt : SI s -> SI (fst (fst (poll_cb true s c res beh cnt))).
Proof.
  intros H. rewrite poll_cb_split. cbv zeta.
  assert (H0 : SI (upd_c s c (c_set_inflight false))) by (apply SI_upd_c; auto).
  pose proof (SI_mid true _ c res beh cnt H0) as X.
  destruct (mid true (upd_c s c (c_set_inflight false)) c res beh cnt) as [[s1 ev] n]. cbn [fst] in *.
  apply SI_out_part; auto.
Qed.

Lemma SI_work_done l : forall s beh cnt, SI s -> SI (fst (fst (work_done true l s beh cnt))).
Proof.
  induction l as [|[c r] l IH]; intros s beh cnt H; cbn [work_done]; auto.
  pose proof (SI_poll_cb s c r beh cnt H) as X.
  destruct (poll_cb true s c r beh cnt) as [[s1 e1] n1]. cbn [fst] in X.
  pose proof (IH s1 beh n1 X) as Y.
  destruct (work_done true l s1 beh n1) as [[s2 e2] n2]. exact Y.
Qed.

Lemma SI_upd_h_keep s h f :
  (forall x, h_chain (f x) = h_chain x /\ h_active (f x) = h_active x /\ h_closing (f x) = h_closing x) ->
  SI s -> SI (upd_h s h f).
Proof.
  intros F [S C].
  assert (G : forall h', h_chain (geth (upd_h s h f) h') = h_chain (geth s h') /\
                         h_active (geth (upd_h s h f) h') = h_active (geth s h') /\
                         h_closing (geth (upd_h s h f) h') = h_closing (geth s h')).
  { intros h'. rewrite geth_upd_h. destruct (Nat.eqb h h' && Nat.ltb h (length (hs s))); auto. }
  split.
  - intros c A. change (armed s c) in A. destruct (S c A) as (X & Y & Z).
    unfold cur, is_head in *. change (getc (upd_h s h f) c) with (getc s c).
    destruct (G (c_parent (getc s c))) as (G1 & G2 & G3). rewrite G1, G2, G3. auto.
  - eapply ChainOK_ext; [| | |exact C]; auto.
    intros h'. destruct (G h') as (G1 & _). rewrite G1. apply incl_refl.
Qed.

(* freeing context c after its parent's chain has been shortened *)
Lemma SI_free_generic s X c :
  cs X = cs s ->
  (forall h', h_active (geth X h') = h_active (geth s h') /\
              h_closing (geth X h') = h_closing (geth s h') /\
              incl (h_chain (geth X h')) (h_chain (geth s h')) /\
              (forall c', c' <> c -> is_head s h' c' = true -> is_head X h' c' = true)) ->
  SI s -> SI (upd_c X c c_set_freed).
Proof.
  intros Ec HX [S C].
  assert (Gc : forall c', getc X c' = getc s c') by (intros; unfold getc; rewrite Ec; reflexivity).
  split.
  - intros c' A. unfold armed in A. rewrite getc_upd_c in A.
    destruct (Nat.eqb c c' && Nat.ltb c (length (cs X))) eqn:Cond; [discriminate|].
    rewrite Gc in A. change (armed s c') in A.
    assert (N : c' <> c).
    { intros ->. rewrite Nat.eqb_refl in Cond. cbn in Cond. apply Nat.ltb_ge in Cond.
      pose proof (armed_lt _ _ A). rewrite Ec in Cond. lia. }
    destruct (S c' A) as (P & Q & R).
    unfold cur. rewrite getc_upd_c, Cond, Gc.
    destruct (HX (c_parent (getc s c'))) as (Y1 & Y2 & _ & Y4).
    change (geth (upd_c X c c_set_freed)) with (geth X).
    unfold is_head. change (geth (upd_c X c c_set_freed)) with (geth X). fold (is_head X (c_parent (getc s c')) c').
    rewrite Y1, Y2. auto.
  - intros h' c' I. change (geth (upd_c X c c_set_freed) h') with (geth X h') in I.
    destruct (HX h') as (_ & _ & Y3 & _).
    destruct (C h' c' (Y3 c' I)) as [L P]. rewrite len_cs_upd_c, Ec. split; auto.
    rewrite getc_upd_c, Gc. destruct (Nat.eqb c c' && Nat.ltb c (length (cs X))); auto.
Qed.

Lemma incl_remove_nat c l : incl (remove_nat c l) l.
Proof. intros x I. unfold remove_nat in I. apply filter_In in I. apply I. Qed.

Lemma SI_timer_close_cb s c : SI s -> SI (timer_close_cb s c).
Proof.
  intros H. unfold timer_close_cb.
  set (h := c_parent (getc s c)).
  set (s0 := set_hq s (remove_nat c (hq s))).
  assert (Triv : forall h', h_active (geth s0 h') = h_active (geth s h') /\
                 h_closing (geth s0 h') = h_closing (geth s h') /\
                 incl (h_chain (geth s0 h')) (h_chain (geth s h')) /\
                 (forall c', c' <> c -> is_head s h' c' = true -> is_head s0 h' c' = true)).
  { intros h'. repeat split; auto. apply incl_refl. }
  change (geth s0 h) with (geth s h).
  destruct (h_chain (geth s h)) as [|c0 rest] eqn:Ch.
  - apply (SI_free_generic s); auto.
  - destruct (Nat.eqb_spec c0 c) as [E|E].
    + (* the head leaves *)
      assert (G : forall f h', geth (upd_h s0 h f) h' =
                  if Nat.eqb h h' && Nat.ltb h (length (hs s)) then f (geth s h') else geth s h').
      { intros f h'. rewrite geth_upd_h. reflexivity. }
      assert (K : SI (upd_c (upd_h s0 h (h_set_chain rest)) c c_set_freed)).
      { apply (SI_free_generic s); auto. intros h'. unfold is_head. rewrite !G.
        destruct (Nat.eqb_spec h h') as [<-|N]; cbn [andb];
          [|repeat split; auto; try apply incl_refl].
        destruct (Nat.ltb h (length (hs s))); [|repeat split; auto; try apply incl_refl].
        cbn [h_set_chain h_active h_closing h_chain]. repeat split; auto.
        - rewrite Ch. apply incl_tl, incl_refl.
        - intros c' N Hh. rewrite Ch in Hh. apply Nat.eqb_eq in Hh. congruence. }
      destruct rest as [|r1 rest'].
      * destruct (h_closing (geth (upd_h s0 h (h_set_chain [])) h)); auto.
      * exact K.
    + apply (SI_free_generic s); auto. intros h'. unfold is_head. rewrite !geth_upd_h.
      change (hs s0) with (hs s). change (geth s0 h') with (geth s h').
      destruct (Nat.eqb_spec h h') as [<-|N]; cbn [andb];
        [|repeat split; auto; try apply incl_refl].
      destruct (Nat.ltb h (length (hs s))); [|repeat split; auto; try apply incl_refl].
      cbn [h_set_chain h_active h_closing h_chain]. repeat split; auto.
      * rewrite Ch. intros x [<-|I]; [left; auto|right; eapply incl_remove_nat; eauto].
      * intros c' N Hh. rewrite Ch in Hh. exact Hh.
Qed.

Lemma SI_run_closing q : forall s beh cnt, SI s -> SI (fst (fst (run_closing q s beh cnt))).
Proof.
  induction q as [|[c|h] q IH]; intros s beh cnt H; cbn [run_closing]; auto.
  - apply IH. apply SI_timer_close_cb; auto.
  - assert (H1 : SI (upd_h s h h_set_closed)) by (apply SI_upd_h_keep; auto).
    pose proof (SI_user_cb _ (EClosed h (live_of s h)) beh cnt H1) as X.
    destruct (user_cb (upd_h s h h_set_closed) (EClosed h (live_of s h)) beh cnt) as [[s1 e1] n1]. cbn [fst] in X.
    pose proof (IH s1 beh n1 X) as Y.
    destruct (run_closing q s1 beh n1) as [[s2 e2] n2]. exact Y.
Qed.

Lemma SI_timer_fire fx s c : SI s -> SI (timer_fire fx s c).
Proof.
  intros H. unfold timer_fire.
  destruct (fx && _); [apply SI_close_timer; exact H|].
  eapply SI_same; [| |apply (SI_upd_c s c (fun x => c_set_inflight true (c_set_start (now s) (c_set_timer TIdle x))))];
    try reflexivity; auto.
  cbn. discriminate.
Qed.

(* an invariant that the four ingredients of the timer pass keep is kept by the pass *)
Lemma fire_ready_inv (P : st -> Prop) fx beh :
  (forall s l, P s -> P (set_ut s l)) ->
  (forall s c, P s -> P (timer_fire fx s c)) ->
  (forall s os, P s -> P (fst (apis s os))) ->
  forall l s cnt, P s -> P (fst (fst (fire_ready fx beh l s cnt))).
Proof.
  intros Pu Pf Pa. induction l as [|[c|id] l IH]; intros s cnt H; cbn [fire_ready]; auto.
  destruct (ut_has s id); [|apply IH; exact H].
  assert (H0 : P (ut_remove s id)) by (apply Pu; exact H).
  pose proof (Pa _ (beh cnt) H0) as X. destruct (apis (ut_remove s id) (beh cnt)) as [s1 e1]. cbn [fst] in X.
  pose proof (IH s1 (S cnt) X) as Y. destruct (fire_ready fx beh l s1 (S cnt)) as [[s2 e2] n2]. exact Y.
Qed.

Lemma collect_inv (P : st -> Prop) :
  (forall s c, P s -> P (upd_c s c (c_set_timer TReady))) ->
  forall items s, P s -> P (collect s items).
Proof.
  intros Pr items. unfold collect.
  induction items as [|[c|id] l IH]; intros s0 H0; cbn [fold_left]; auto.
Qed.

Lemma run_timers_inv (P : st -> Prop) fx beh :
  (forall s c, P s -> P (upd_c s c (c_set_timer TReady))) ->
  (forall s l, P s -> P (set_ut s l)) ->
  (forall s c, P s -> P (timer_fire fx s c)) ->
  (forall s os, P s -> P (fst (apis s os))) ->
  forall s cnt, P s -> P (fst (fst (run_timers fx beh s cnt))).
Proof.
  intros Pr Pu Pf Pa s cnt H. unfold run_timers.
  apply fire_ready_inv; auto. apply collect_inv; auto.
Qed.

Lemma SI_run_timers fx beh s cnt : SI s -> SI (fst (fst (run_timers fx beh s cnt))).
Proof.
  apply (run_timers_inv SI).
  - intros s0 c H. apply SI_upd_c; auto. cbn. discriminate.
  - intros s0 l H. eapply SI_same; [| |exact H]; reflexivity.
  - intros s0 c H. apply SI_timer_fire; auto.
  - intros s0 os H. apply SI_apis; auto.
Qed.

Lemma SI_iteration s beh cnt : SI s -> SI (fst (fst (iteration true s beh cnt))).
Proof.
  intros H. unfold iteration. cbv zeta.
  set (s0 := set_now s (clock s)).
  assert (H0 : SI (set_done s0 [])) by (eapply SI_same; [| |exact H]; reflexivity).
  pose proof (SI_work_done (done s0) _ beh cnt H0) as X.
  destruct (work_done true (done s0) (set_done s0 []) beh cnt) as [[s1 e1] n1]. cbn [fst] in X.
  assert (H1 : SI (set_closingq s1 [])) by (eapply SI_same; [| |exact X]; reflexivity).
  pose proof (SI_run_closing (closingq s1) _ beh n1 H1) as Y.
  destruct (run_closing (closingq s1) (set_closingq s1 []) beh n1) as [[s2 e2] n2]. cbn [fst] in *.
  assert (H2 : SI (set_now s2 (clock s2))) by (eapply SI_same; [| |exact Y]; reflexivity).
  pose proof (SI_run_timers true beh _ n2 H2) as Z.
  destruct (run_timers true beh (set_now s2 (clock s2)) n2) as [[s3 e3] n3]. exact Z.
Qed.

Lemma SI_release s res : SI s -> SI (fst (release s res)).
Proof. intros H. unfold release. cbn [fst]. eapply SI_same; [| |exact H]; reflexivity. Qed.

Lemma SI_drain fuel : forall s res beh cnt, SI s -> SI (fst (fst (drain true fuel s res beh cnt))).
Proof.
  induction fuel as [|f IH]; intros s res beh cnt H; cbn [drain]; auto.
  pose proof (SI_release s res H) as X. destruct (release s res) as [s1 e1]. cbn [fst] in X.
  pose proof (SI_iteration s1 beh cnt X) as Y.
  destruct (iteration true s1 beh cnt) as [[s2 e2] n2]. cbn [fst] in Y.
  destruct (alive s2); auto.
  pose proof (IH s2 res beh n2 Y) as Z.
  destruct (drain true f s2 res beh n2) as [[s3 e3] n3]. exact Z.
Qed.

Lemma SI_init t0 : SI (init t0).
Proof.
  split.
  - intros c A. unfold armed, getc in A. cbn in A. destruct c; discriminate.
  - intros h c I. unfold geth in I. cbn in I. destruct h; destruct I.
Qed.

Theorem SI_run os : forall s beh cnt, SI s -> SI (fst (run true s os beh cnt)).
Proof.
  induction os as [|o os IH]; intros s beh cnt H; [exact H|].
  destruct o; cbn [run].
  all: try (match goal with
            | Hs : SI ?s0, IHx : forall s beh cnt, SI s -> _ |- context [api ?s0 ?o] =>
                let X := fresh "X" in let Y := fresh "Y" in
                pose proof (SI_api s0 o Hs) as X;
                destruct (api s0 o) as [s1 e1]; cbn [fst] in X;
                pose proof (IHx s1 beh cnt X) as Y; destruct (run true s1 os beh cnt); exact Y
            end).
  - pose proof (SI_release s res H) as X. destruct (release s res) as [s1 e1]. cbn [fst] in X.
    pose proof (IH s1 beh cnt X) as Y. destruct (run true s1 os beh cnt); exact Y.
  - apply IH. eapply SI_same; [| |exact H]; reflexivity.
  - pose proof (SI_iteration s beh cnt H) as X.
    destruct (iteration true s beh cnt) as [[s1 e1] n1]. cbn [fst] in X.
    pose proof (IH s1 beh n1 X) as Y. destruct (run true s1 os beh n1); exact Y.
  - apply IH. eapply SI_same; [| |exact H]; reflexivity.
  - assert (H' : SI (set_ut s [])) by (eapply SI_same; [| |exact H]; reflexivity).
    pose proof (SI_drain drain_fuel _ res beh cnt H') as X.
    destruct (drain true drain_fuel (set_ut s []) res beh cnt) as [[s1 e1] n1]. cbn [fst] in X.
    pose proof (IH s1 beh n1 X) as Y. destruct (run true s1 os beh n1); exact Y.
Qed.

(* ------------------------------------------------------------------ *)
(* C17_old_ctx_silent and its refutation on the code as it is          *)
(* ------------------------------------------------------------------ *)
(* the full statement, for a variant of the model: in every state reached by
   any script, with any callback behaviour, only the current context of an
   active handle has its timer armed (nothing else will stat again) ... *)
Definition old_ctx_silent_stmt (fx : bool) : Prop :=
  forall t0 os beh, Silent (fst (run fx (init t0) os beh 0)).

(* ... and a context that is not the current context of an active, not closing
   handle makes no callback and tears itself down when its stat completes *)
Definition old_ctx_no_callback_stmt (fx : bool) : Prop :=
  forall s c res beh cnt,
  let h := c_parent (getc s c) in
  (is_head s h c = false \/ h_active (geth s h) = false \/ h_closing (geth s h) = true) ->
  poll_cb fx s c res beh cnt = (close_timer (upd_c s c (c_set_inflight false)) c, [], cnt).

Theorem old_ctx_silent_fixed : old_ctx_silent_stmt true.
Proof. intros t0 os beh. apply (SI_run os (init t0) beh 0 (SI_init t0)). Qed.

Theorem old_ctx_no_callback_fixed : old_ctx_no_callback_stmt true.
Proof.
  intros s c res beh cnt h Hc. rewrite poll_cb_split. cbv zeta.
  set (s0 := upd_c s c (c_set_inflight false)).
  assert (P : c_parent (getc s0 c) = h).
  { pose proof (core_upd_inflight s c false c) as X. unfold core in X. injection X as X _ _ _ _ _. exact X. }
  assert (G : gone true s0 h c = true).
  { unfold gone, is_head. change (geth s0 h) with (geth s h). fold (is_head s h c).
    destruct Hc as [Hc|[Hc|Hc]]; rewrite Hc; cbn; auto.
    - destruct (negb (h_active (geth s h))); destruct (h_closing (geth s h)); reflexivity.
    - destruct (negb (h_active (geth s h))); reflexivity. }
  unfold mid. rewrite P, G. unfold out_part. rewrite G. reflexivity.
Qed.

(* the witness: start A (callback 1, path 0); stop; start B (callback 2, path 1)
   while A's first stat is in flight; both stats complete; one interval later
   path 0 has changed *)
Definition w_sbA : statbuf := mkSb 1 1 1 1 1 1 1 1 1 1 1 1 0 0 1.
Definition w_sbA' : statbuf := mkSb 2 2 1 1 1 1 2 1 1 1 1 1 0 0 1.
Definition w_sbB : statbuf := mkSb 1 1 1 1 1 1 1 1 1 1 2 1 0 0 1.
Definition w_res1 (p : nat) : sres := match p with O => (0, w_sbA) | _ => (0, w_sbB) end.
Definition w_res2 (p : nat) : sres := match p with O => (0, w_sbA') | _ => (0, w_sbB) end.
Definition w_restart : list op :=
  [OInit; OStart 0 1 0 10 0; OStop 0; OStart 0 2 1 10 0; ORelease w_res1; ORun; OAdvance 10; ORun;
   ORelease w_res2; ORun].
Definition w_nobeh : nat -> list op := fun _ => [].

Theorem restart_in_flight_refuted :
  ~ old_ctx_silent_stmt false /\
  (* the old callback is called with the old path's stat results although the handle
     was restarted with callback 2 on path 1 *)
  In (EPoll 0 1 0 0 w_sbA w_sbA') (snd (run false (init 1000) w_restart w_nobeh 0)) /\
  (* the old path is polled again after the restart *)
  snd (run false (init 1000) w_restart w_nobeh 0) =
    [ERet 0; ERet 0; ERet 0; EStat 0; EStat 1; EIter; EIter; EStat 0; EStat 1; EIter;
     EPoll 0 1 0 0 w_sbA w_sbA'] /\
  (* the repaired variant on the same script *)
  snd (run true (init 1000) w_restart w_nobeh 0) =
    [ERet 0; ERet 0; ERet 0; EStat 0; EStat 1; EIter; EIter; EStat 1; EIter].
Proof.
  split; [|split; [|split]].
  - intros H. specialize (H 1000 w_restart w_nobeh 0%nat).
    unfold armed, cur in H. vm_compute in H. destruct (H eq_refl) as [X _]. discriminate.
  - vm_compute. right; right; right; right; right; right; right; right; right; right; left. reflexivity.
  - vm_compute. reflexivity.
  - vm_compute. reflexivity.
Qed.

Theorem old_ctx_no_callback_refuted : ~ old_ctx_no_callback_stmt false.
Proof.
  intros H.
  (* the state in which A's second stat completes *)
  set (s := fst (run false (init 1000)
                    [OInit; OStart 0 1 0 10 0; OStop 0; OStart 0 2 1 10 0; ORelease w_res1; ORun;
                     OAdvance 10; ORun] w_nobeh 0)).
  specialize (H s 0%nat (0, w_sbA') w_nobeh 0%nat).
  assert (Hc : is_head s (c_parent (getc s 0)) 0 = false) by (vm_compute; reflexivity).
  specialize (H (or_introl Hc)).
  assert (E : length (snd (fst (poll_cb false s 0 (0, w_sbA') w_nobeh 0))) = 1%nat)
    by (vm_compute; reflexivity).
  rewrite H in E. cbn [fst snd length] in E. discriminate.
Qed.

(* ------------------------------------------------------------------ *)
(* close / free / uv_loop_close                                        *)
(* ------------------------------------------------------------------ *)
(* after every handle has been closed and the loop has run until it is not
   alive: the close callback of every handle has run, no context is left,
   uv_loop_close succeeds *)
Definition close_all (s : st) : st := fst (apis s (map OClose (seq 0 (length (hs s))))).

Definition closes_clean_stmt (fx : bool) : Prop :=
  forall t0 os beh res,
  (forall k, Forall (fun o => match o with OInit => False | _ => True end) (beh k)) ->
  loop_close (fst (fst (drain fx drain_fuel (close_all (set_ut (fst (run fx (init t0) os beh 0)) [])) res beh 0))) = 0 /\
  live_ctx (fst (fst (drain fx drain_fuel (close_all (set_ut (fst (run fx (init t0) os beh 0)) [])) res beh 0))) = 0%nat.

Definition w_close : list op :=
  [OInit; OStart 0 1 0 10 0; OStop 0; OStart 0 2 1 10 0; ORelease w_res1; ORun].

Lemma w_close_busy :
  loop_close (fst (fst (drain false drain_fuel (close_all (set_ut (fst (run false (init 1000) w_close w_nobeh 0)) []))
                              w_res1 w_nobeh 0))) = UV_EBUSY.
Proof. vm_compute. reflexivity. Qed.

Theorem closes_clean_refuted :
  ~ closes_clean_stmt false /\
  snd (run false (init 1000) (w_close ++ [OClose 0; ODrain w_res1]) w_nobeh 0) =
    [ERet 0; ERet 0; ERet 0; EStat 0; EStat 1; EIter; EIter; EFinal UV_EBUSY 1] /\
  snd (run true (init 1000) (w_close ++ [OClose 0; ODrain w_res1]) w_nobeh 0) =
    [ERet 0; ERet 0; ERet 0; EStat 0; EStat 1; EIter; EIter; EIter; EClosed 0 0; EFinal 0 0].
Proof.
  split; [|split].
  - intros H.
    assert (B : forall k, Forall (fun o => match o with OInit => False | _ => True end) (w_nobeh k))
      by (intros; constructor).
    destruct (H 1000 w_close w_nobeh w_res1 B) as [X _].
    rewrite w_close_busy in X. discriminate.
  - vm_compute. reflexivity.
  - vm_compute. reflexivity.
Qed.

(* what holds in both variants (partial): a context is freed by its own
   timer_close_cb and by nothing else that timer_close_cb does; when the last
   context of a closing handle goes, the handle becomes close-pending, and
   uv_close makes it pending at once only when it has no context *)
Lemma freed_only_own s c c' :
  c' <> c -> c_freed (getc (timer_close_cb s c) c') = c_freed (getc s c').
Proof.
  intros N. unfold timer_close_cb.
  match goal with |- c_freed (getc (upd_c ?X c c_set_freed) c') = _ =>
    rewrite (getc_upd_c X c c_set_freed c'); set (Y := X) end.
  destruct (Nat.eqb_spec c c'); [congruence|]. cbn [andb].
  assert (E : cs Y = cs s).
  { unfold Y. destruct (h_chain (geth (set_hq s (remove_nat c (hq s))) (c_parent (getc s c)))) as [|c0 rest];
      [reflexivity|].
    destruct (Nat.eqb c0 c); [|reflexivity].
    destruct rest; [|reflexivity].
    match goal with |- cs (if ?b then _ else _) = _ => destruct b end; reflexivity. }
  unfold getc. rewrite E. reflexivity.
Qed.

Lemma last_ctx_makes_pending s c h :
  h = c_parent (getc s c) -> (h < length (hs s))%nat ->
  h_chain (geth s h) = [c] -> h_closing (geth s h) = true ->
  In (CHandle h) (closingq (timer_close_cb s c)) /\ h_chain (geth (timer_close_cb s c) h) = [].
Proof.
  intros Eh L Ch Cl. unfold timer_close_cb. rewrite <- Eh.
  change (geth (set_hq s (remove_nat c (hq s))) h) with (geth s h). rewrite Ch, Nat.eqb_refl.
  set (s' := upd_h (set_hq s (remove_nat c (hq s))) h (h_set_chain [])).
  assert (G : geth s' h = h_set_chain [] (geth s h)).
  { unfold s'. rewrite geth_upd_h, Nat.eqb_refl. cbn [andb hs set_hq].
    destruct (Nat.ltb_spec h (length (hs s))); [reflexivity|lia]. }
  rewrite G. cbn [h_set_chain h_closing]. rewrite Cl.
  split.
  - cbn. left; reflexivity.
  - change (geth (upd_c (set_closingq s' (CHandle h :: closingq s')) c c_set_freed) h) with (geth s' h).
    rewrite G. reflexivity.
Qed.

Lemma close_pending_iff_no_ctx s h :
  In (CHandle h) (closingq (do_close s h)) ->
  ~ In (CHandle h) (closingq s) ->
  h_chain (geth (do_close s h) h) = [].
Proof.
  unfold do_close. set (s1 := do_stop (upd_h s h h_set_closing) h).
  destruct (h_chain (geth s1 h)) eqn:Ch.
  - intros _ _. change (geth (set_closingq s1 (CHandle h :: closingq s1)) h) with (geth s1 h). exact Ch.
  - intros I N. exfalso. apply N. clear N.
    unfold s1, do_stop in I.
    destruct (negb (h_active (geth (upd_h s h h_set_closing) h))); [exact I|].
    destruct (h_chain (geth (upd_h s h h_set_closing) h)) as [|c0 l0]; [exact I|].
    destruct (timer_active (c_timer (getc (upd_h s h h_set_closing) c0))); [|exact I].
    cbn in I. destruct I as [I|I]; [discriminate|exact I].
Qed.

(* stop while the interval timer is already in the ready queue of the running timer pass: the
   timer is left alone (it still fires and submits the stat whose completion cleans up) *)
Lemma stop_in_ready_state s h c rest :
  h_active (geth s h) = true -> h_chain (geth s h) = c :: rest -> c_timer (getc s c) = TReady ->
  do_stop s h = upd_h s h (h_set_active false).
Proof.
  intros A Ch T. unfold do_stop. rewrite A, Ch, T. reflexivity.
Qed.

(* ... and timer_cb, later in the same pass, tears such a context down (current code, 56a9a49) *)
Lemma timer_cb_tears_down s c :
  let h := c_parent (getc s c) in
  h_active (geth s h) = false \/ is_head s h c = false ->
  timer_fire true s c = close_timer s c.
Proof.
  intros h Hc. unfold timer_fire. fold h.
  destruct Hc as [Hc|Hc]; rewrite Hc; cbn [negb andb orb]; [reflexivity|].
  destruct (negb (h_active (geth s h))); reflexivity.
Qed.

(* history: before 56a9a49 timer_cb submitted a stat for it *)
Lemma timer_cb_old_stats s c :
  timer_fire false s c =
  set_inflight (upd_c s c (fun x => c_set_inflight true (c_set_start (now s) (c_set_timer TIdle x))))
               (inflight s ++ [c]).
Proof. reflexivity. Qed.

(* the failing input of the repaired finding: start (callback 1, path 0, 10 ms); a timer of the
   script due at the same loop time, started first; its callback: stop; start (callback 2, path 1) *)
Definition w_pass : list op :=
  [OInit; OStart 0 1 0 10 0; OTimer 1 10; ORelease w_res1; ORun; OAdvance 10; ORun; ORelease w_res1; ORun;
   OClose 0; ODrain w_res1].
Definition w_beh (k : nat) : list op := match k with O => [OStop 0; OStart 0 2 1 10 0] | _ => [] end.

Lemma w_pass_traces :
  snd (run true (init 1000) w_pass w_beh 0) =
    [ERet 0; EStat 0; EIter; EIter; EUser 1; ERet 0; ERet 0; EStat 1; EIter; EIter; EIter;
     EClosed 0 0; EFinal 0 0] /\
  snd (run false (init 1000) w_pass w_beh 0) =
    [ERet 0; EStat 0; EIter; EIter; EUser 1; ERet 0; ERet 0; EStat 1; EStat 0; EIter; EIter;
     EFinal UV_EBUSY 1].
Proof. split; vm_compute; reflexivity. Qed.

(* uv_walk shows the program's handles only: every fs_poll handle that is initialised and not
   closed, no context timer (they carry UV_HANDLE_INTERNAL) *)
Lemma walk_sees_only_user_handles s :
  uv_walk s = map QH (filter (fun h => negb (h_closed (geth s h))) (seq 0 (length (hs s)))) /\
  (forall c, ~ In (QT c) (uv_walk s)) /\
  walk_targets s = filter (fun h => negb (h_closed (geth s h))) (seq 0 (length (hs s))).
Proof.
  assert (A : forall l, filter (fun it => negb (internal it)) (map QH l) = map QH l).
  { induction l as [|x l IH]; cbn; [reflexivity|]. rewrite IH. reflexivity. }
  assert (B : forall l, filter (fun it => negb (internal it)) (map QT l) = []).
  { induction l as [|x l IH]; cbn; auto. }
  assert (C : forall l, flat_map (fun it => match it with QH h => [h] | QT _ => [] end) (map QH l) = l).
  { induction l as [|x l IH]; cbn; [reflexivity|]. rewrite IH. reflexivity. }
  assert (E : uv_walk s = map QH (filter (fun h => negb (h_closed (geth s h))) (seq 0 (length (hs s))))).
  { unfold uv_walk, handle_queue. rewrite filter_app, A, B, app_nil_r. reflexivity. }
  split; [exact E|]. split.
  - intros c I. rewrite E in I. apply in_map_iff in I. destruct I as (h & X & _). discriminate.
  - unfold walk_targets. rewrite E. apply C.
Qed.
