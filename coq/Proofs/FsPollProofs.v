(* Proofs about Model/FsPoll.v (C17, fs_poll half). *)
From UV Require Import Lib.Base Model.FsPoll.

Local Open Scope Z_scope.

(* ------------------------------------------------------------------ *)
(* lists                                                              *)
(* ------------------------------------------------------------------ *)
Lemma nth_upd_same {A} (n : nat) (f : A -> A) (l : list A) (d : A) :
  (n < length l)%nat -> nth n (upd n f l) d = f (nth n l d).
Proof.
  revert n; induction l as [|y ys IH]; intros [|n] H; simpl in *; try lia; auto.
  apply IH; lia.
Qed.

Lemma nth_upd_other {A} (n m : nat) (f : A -> A) (l : list A) (d : A) :
  n <> m -> nth m (upd n f l) d = nth m l d.
Proof.
  revert n m; induction l as [|y ys IH]; intros [|n] [|m] H; simpl; auto; try congruence.
Qed.

Lemma nth_upd_out {A} (n : nat) (f : A -> A) (l : list A) :
  (length l <= n)%nat -> upd n f l = l.
Proof.
  revert n; induction l as [|y ys IH]; intros [|n] H; simpl in *; auto; try lia.
  f_equal; apply IH; lia.
Qed.

(* ------------------------------------------------------------------ *)
(* statbuf_eq                                                         *)
(* ------------------------------------------------------------------ *)
Definition same_compared (a b : statbuf) : Prop :=
  sb_ctim_ns a = sb_ctim_ns b /\ sb_mtim_ns a = sb_mtim_ns b /\ sb_btim_ns a = sb_btim_ns b /\
  sb_ctim_s a = sb_ctim_s b /\ sb_mtim_s a = sb_mtim_s b /\ sb_btim_s a = sb_btim_s b /\
  sb_size a = sb_size b /\ sb_mode a = sb_mode b /\ sb_uid a = sb_uid b /\ sb_gid a = sb_gid b /\
  sb_ino a = sb_ino b /\ sb_dev a = sb_dev b /\ sb_flags a = sb_flags b /\ sb_gen a = sb_gen b.

Lemma statbuf_eq_spec a b : statbuf_eq a b = true <-> same_compared a b.
Proof.
  unfold statbuf_eq, same_compared. rewrite !andb_true_iff, !Z.eqb_eq. tauto.
Qed.

Lemma statbuf_eq_refl a : statbuf_eq a a = true.
Proof. apply statbuf_eq_spec. unfold same_compared. tauto. Qed.

Lemma statbuf_eq_trans a b c : statbuf_eq a b = true -> statbuf_eq b c = true -> statbuf_eq a c = true.
Proof.
  rewrite !statbuf_eq_spec. unfold same_compared. intuition congruence.
Qed.

Lemma statbuf_eq_sym a b : statbuf_eq a b = true -> statbuf_eq b a = true.
Proof. rewrite !statbuf_eq_spec. unfold same_compared. intuition congruence. Qed.

(* ------------------------------------------------------------------ *)
(* accessors                                                          *)
(* ------------------------------------------------------------------ *)
Lemma getc_upd_same s c f : (c < length (cs s))%nat -> getc (upd_c s c f) c = f (getc s c).
Proof. intros H. unfold getc, upd_c, set_cs. cbn [cs]. apply nth_upd_same; auto. Qed.

Lemma getc_upd_other s c c' f : c <> c' -> getc (upd_c s c f) c' = getc s c'.
Proof. intros H. unfold getc, upd_c, set_cs. cbn [cs]. apply nth_upd_other; auto. Qed.

Lemma geth_upd_same s h f : (h < length (hs s))%nat -> geth (upd_h s h f) h = f (geth s h).
Proof. intros H. unfold geth, upd_h, set_hs. cbn [hs]. apply nth_upd_same; auto. Qed.

Lemma geth_upd_other s h h' f : h <> h' -> geth (upd_h s h f) h' = geth s h'.
Proof. intros H. unfold geth, upd_h, set_hs. cbn [hs]. apply nth_upd_other; auto. Qed.

Lemma len_cs_upd_c s c f : length (cs (upd_c s c f)) = length (cs s).
Proof. unfold upd_c, set_cs. cbn [cs]. apply upd_length. Qed.

Lemma len_hs_upd_h s h f : length (hs (upd_h s h f)) = length (hs s).
Proof. unfold upd_h, set_hs. cbn [hs]. apply upd_length. Qed.

(* the fields of a context that only poll_cb/timer_cb write *)
Definition core (x : ctx) := (c_parent x, c_busy x, c_interval x, c_cb x, c_path x, c_sb x).

Definition polls_of (l : list event) : list event :=
  filter (fun e => match e with EPoll _ _ _ _ _ _ => true | _ => false end) l.

Lemma polls_of_app a b : polls_of (a ++ b) = polls_of a ++ polls_of b.
Proof. unfold polls_of. apply filter_app. Qed.

(* API calls never touch the core of an existing context, never remove a
   context, and produce no poll callback *)
Lemma close_timer_core s c c' : core (getc (close_timer s c) c') = core (getc s c').
Proof.
  unfold close_timer, set_closingq, getc. cbn [cs upd_c set_cs].
  destruct (Nat.eq_dec c c') as [->|N].
  - destruct (Nat.lt_ge_cases c' (length (cs s))) as [L|L].
    + rewrite nth_upd_same by auto. reflexivity.
    + rewrite nth_upd_out by auto. reflexivity.
  - rewrite nth_upd_other by auto. reflexivity.
Qed.

Lemma close_timer_len s c : length (cs (close_timer s c)) = length (cs s).
Proof. unfold close_timer, set_closingq. cbn [cs upd_c set_cs]. apply upd_length. Qed.

Lemma do_stop_core s h c' : core (getc (do_stop s h) c') = core (getc s c').
Proof.
  unfold do_stop. destruct (negb (h_active (geth s h))); auto.
  destruct (h_chain (geth s h)) as [|c l].
  - reflexivity.
  - destruct (timer_active (c_timer (getc s c))).
    + change (getc (upd_h (close_timer s c) h (h_set_active false)) c') with (getc (close_timer s c) c').
      apply close_timer_core.
    + reflexivity.
Qed.

Lemma do_stop_len s h : length (cs (do_stop s h)) = length (cs s).
Proof.
  unfold do_stop. destruct (negb (h_active (geth s h))); auto.
  destruct (h_chain (geth s h)) as [|c l]; [reflexivity|].
  destruct (timer_active (c_timer (getc s c))); [|reflexivity].
  change (cs (upd_h (close_timer s c) h (h_set_active false))) with (cs (close_timer s c)).
  apply close_timer_len.
Qed.

Lemma do_close_core s h c' : core (getc (do_close s h) c') = core (getc s c').
Proof.
  unfold do_close.
  set (s1 := do_stop (upd_h s h h_set_closing) h).
  assert (E : core (getc s1 c') = core (getc s c')) by (unfold s1; rewrite do_stop_core; reflexivity).
  destruct (h_chain (geth s1 h)); auto.
Qed.

Lemma do_close_len s h : length (cs (do_close s h)) = length (cs s).
Proof.
  unfold do_close.
  set (s1 := do_stop (upd_h s h h_set_closing) h).
  assert (E : length (cs s1) = length (cs s)) by (unfold s1; rewrite do_stop_len; reflexivity).
  destruct (h_chain (geth s1 h)); auto.
Qed.

Lemma do_start_core s h cb p iv fl c' :
  (c' < length (cs s))%nat ->
  core (getc (fst (do_start s h cb p iv fl)) c') = core (getc s c') /\
  (length (cs s) <= length (cs (fst (do_start s h cb p iv fl))))%nat.
Proof.
  intros L. unfold do_start. destruct (h_active (geth s h)); [split; auto|].
  destruct fl as [|[|[|fl]]]; cbn [fst]; unfold getc; cbn [cs upd_h set_hs set_inflight set_hq set_cs];
    rewrite ?app_length, ?app_nth1 by auto; split; auto; lia.
Qed.

Lemma api_core s o c' :
  (c' < length (cs s))%nat ->
  core (getc (fst (api s o)) c') = core (getc s c') /\
  (length (cs s) <= length (cs (fst (api s o))))%nat /\
  polls_of (snd (api s o)) = [].
Proof.
  intros L. destruct o; cbn [api]; try (split; [|split]; auto; fail).
  - destruct (valid s h && negb (h_closing (geth s h))); [|split; [|split]; auto].
    pose proof (do_start_core s h cb path interval fail c' L) as [A B].
    destruct (do_start s h cb path interval fail) as [s' r]. cbn [fst snd] in *. auto.
  - destruct (valid s h && negb (h_closed (geth s h))); cbn [fst snd]; [|split; [|split]; auto].
    rewrite do_stop_core, do_stop_len. auto.
  - destruct (valid s h && negb (h_closing (geth s h))); cbn [fst snd]; [|split; [|split]; auto].
    rewrite do_close_core, do_close_len. auto.
Qed.

Lemma apis_core os : forall s c',
  (c' < length (cs s))%nat ->
  core (getc (fst (apis s os)) c') = core (getc s c') /\
  (length (cs s) <= length (cs (fst (apis s os))))%nat /\
  polls_of (snd (apis s os)) = [].
Proof.
  induction os as [|o os IH]; intros s c' L; cbn [apis].
  - auto.
  - pose proof (api_core s o c' L) as (A & B & C).
    destruct (api s o) as [s1 e1]. cbn [fst snd] in *.
    assert (L1 : (c' < length (cs s1))%nat) by lia.
    pose proof (IH s1 c' L1) as (A' & B' & C').
    destruct (apis s1 os) as [s2 e2]. cbn [fst snd] in *.
    split; [congruence|]. split; [lia|]. rewrite polls_of_app, C, C'. reflexivity.
Qed.

(* ------------------------------------------------------------------ *)
(* C17_poll_cb_iff_differs                                            *)
(* ------------------------------------------------------------------ *)
(* what the context remembers of its previous poll *)
Definition last_status (x : ctx) : option Z :=
  if c_busy x =? 0 then None else if 0 <? c_busy x then Some 0 else Some (c_busy x).

(* "this poll differs from the previous one": in status, or (both good) in a compared field;
   the first poll of a context differs only when it fails *)
Definition differs (x : ctx) (r : Z) (sb : statbuf) : bool :=
  match last_status x with
  | None => negb (r =? 0)
  | Some 0 => negb (r =? 0) || negb (statbuf_eq (c_sb x) sb)
  | Some e => negb (r =? e)
  end.

Lemma user_cb_facts s ev beh cnt c' :
  (c' < length (cs s))%nat ->
  let '(s', e, n) := user_cb s ev beh cnt in
  core (getc s' c') = core (getc s c') /\ (length (cs s) <= length (cs s'))%nat /\
  polls_of e = polls_of [ev] /\ n = S cnt.
Proof.
  intros L. unfold user_cb.
  pose proof (apis_core (beh cnt) s c' L) as (A & B & C).
  destruct (apis s (beh cnt)) as [s' e]. cbn [fst snd] in *.
  split; auto. split; auto. split; auto.
  change (ev :: e) with ([ev] ++ e). rewrite polls_of_app, C, app_nil_r. reflexivity.
Qed.

Lemma core_upd_inflight s c b c' :
  core (getc (upd_c s c (c_set_inflight b)) c') = core (getc s c').
Proof.
  destruct (Nat.eq_dec c c') as [->|N].
  - destruct (Nat.lt_ge_cases c' (length (cs s))) as [L|L].
    + rewrite getc_upd_same by auto. reflexivity.
    + unfold getc, upd_c, set_cs. cbn [cs]. rewrite nth_upd_out by auto. reflexivity.
  - rewrite getc_upd_other by auto. reflexivity.
Qed.

(* poll_cb = the reporting part followed by the [out:] part *)
Definition mid (fx : bool) (s0 : st) (c : nat) (res : sres) (beh : nat -> list op) (cnt : nat)
  : st * list event * nat :=
  let x := getc s0 c in
  let h := c_parent x in
  if gone fx s0 h c then (s0, [], cnt) else
  let '(r, sb) := res in
  if negb (r =? 0) then
    if negb (c_busy x =? r) then
      let '(s', e, n) := user_cb s0 (EPoll h (c_cb x) (c_path x) r (c_sb x) zero_sb) beh cnt in
      (upd_c s' c (c_set_busy r), e, n)
    else (s0, [], cnt)
  else
    let '(s', e, n) :=
      if negb (c_busy x =? 0) && ((c_busy x <? 0) || negb (statbuf_eq (c_sb x) sb))
      then user_cb s0 (EPoll h (c_cb x) (c_path x) 0 (c_sb x) sb) beh cnt
      else (s0, [], cnt) in
    (upd_c s' c (fun y => c_set_busy 1 (c_set_sb sb y)), e, n).

Definition out_part (fx : bool) (s1 : st) (h c : nat) : st :=
  if gone fx s1 h c then close_timer s1 c
  else
    let y := getc s1 c in
    let iv := c_interval y in
    let t := iv - ((now s1 - c_start y) mod iv) in
    set_tctr (upd_c s1 c (c_set_timer (TArmed (now s1 + t) (tctr s1)))) (tctr s1 + 1).

Lemma poll_cb_split fx s c res beh cnt :
  poll_cb fx s c res beh cnt =
  let s0 := upd_c s c (c_set_inflight false) in
  let '(s1, ev, n) := mid fx s0 c res beh cnt in
  (out_part fx s1 (c_parent (getc s0 c)) c, ev, n).
Proof.
  unfold poll_cb, mid, out_part. cbv zeta.
  set (s0 := upd_c s c (c_set_inflight false)).
  set (h := c_parent (getc s0 c)).
  destruct (gone fx s0 h c) eqn:G0.
  - rewrite G0. reflexivity.
  - destruct res as [r sb].
    destruct (negb (r =? 0)).
    + destruct (negb (c_busy (getc s0 c) =? r)).
      * destruct (user_cb s0 _ beh cnt) as [[s' e] n].
        destruct (gone fx (upd_c s' c (c_set_busy r)) h c); reflexivity.
      * rewrite G0. reflexivity.
    + destruct (negb (c_busy (getc s0 c) =? 0) && _).
      * destruct (user_cb s0 _ beh cnt) as [[s' e] n].
        match goal with |- context [gone fx (upd_c ?a c ?f) h c] =>
          destruct (gone fx (upd_c a c f) h c) end; reflexivity.
      * match goal with |- context [gone fx (upd_c ?a c ?f) h c] =>
          destruct (gone fx (upd_c a c f) h c) end; reflexivity.
Qed.

Lemma out_part_core fx s1 h c c' :
  core (getc (out_part fx s1 h c) c') = core (getc s1 c') /\
  length (cs (out_part fx s1 h c)) = length (cs s1).
Proof.
  unfold out_part. destruct (gone fx s1 h c).
  - split; [apply close_timer_core|apply close_timer_len].
  - unfold set_tctr, getc. cbn [cs upd_c set_cs]. rewrite upd_length. split; auto.
    destruct (Nat.eq_dec c c') as [->|N].
    + destruct (Nat.lt_ge_cases c' (length (cs s1))) as [L|L].
      * rewrite nth_upd_same by auto. reflexivity.
      * rewrite nth_upd_out by auto. reflexivity.
    + rewrite nth_upd_other by auto. reflexivity.
Qed.

Theorem poll_cb_iff_differs :
  forall fx s c r sb beh cnt,
  r <= 0 -> (c < length (cs s))%nat ->
  let x := getc s c in
  gone fx (upd_c s c (c_set_inflight false)) (c_parent x) c = false ->
  let '(s', evs, _) := poll_cb fx s c (r, sb) beh cnt in
  polls_of evs =
    (if differs x r sb
     then [EPoll (c_parent x) (c_cb x) (c_path x) r (c_sb x) (if r =? 0 then sb else zero_sb)]
     else []) /\
  c_busy (getc s' c) = (if r =? 0 then 1 else r) /\
  c_sb (getc s' c) = (if r =? 0 then sb else c_sb x).
Proof.
  intros fx s c r sb beh cnt Hr L x G.
  rewrite poll_cb_split. cbv zeta.
  set (s0 := upd_c s c (c_set_inflight false)) in *.
  assert (L0 : (c < length (cs s0))%nat) by (unfold s0; rewrite len_cs_upd_c; auto).
  assert (X0 : core (getc s0 c) = core x) by (unfold s0, x; apply core_upd_inflight).
  unfold core in X0. injection X0 as Ep Eb Ei Ec Epa Es.
  assert (M : let '(s1, ev, n) := mid fx s0 c (r, sb) beh cnt in
              polls_of ev =
                (if differs x r sb
                 then [EPoll (c_parent x) (c_cb x) (c_path x) r (c_sb x) (if r =? 0 then sb else zero_sb)]
                 else []) /\
              c_busy (getc s1 c) = (if r =? 0 then 1 else r) /\
              c_sb (getc s1 c) = (if r =? 0 then sb else c_sb x)).
  { unfold mid. rewrite Ep, G, Eb, Es, Ec, Epa.
    unfold differs, last_status.
    destruct (Z.eqb_spec r 0) as [R0|R0]; cbn [negb].
    - subst r.
      destruct (Z.eqb_spec (c_busy x) 0) as [B0|B0]; cbn [negb andb].
      + rewrite getc_upd_same by auto. cbn. auto.
      + destruct (0 <? c_busy x) eqn:Pos.
        * assert (Hlt : (c_busy x <? 0) = false) by lia. rewrite Hlt. cbn [orb].
          destruct (statbuf_eq (c_sb x) sb) eqn:SE; cbn [negb].
          -- rewrite getc_upd_same by auto. cbn. auto.
          -- pose proof (user_cb_facts s0 (EPoll (c_parent x) (c_cb x) (c_path x) 0 (c_sb x) sb) beh cnt c L0) as F.
             destruct (user_cb s0 _ beh cnt) as [[s' e] n].
             destruct F as (F1 & F2 & F3 & F4).
             rewrite getc_upd_same by lia. rewrite F3. cbn. auto.
        * assert (Hlt : (c_busy x <? 0) = true) by lia. rewrite Hlt. cbn [orb].
          assert (Hd : match c_busy x with 0 => negb (statbuf_eq (c_sb x) sb) | _ => negb (0 =? c_busy x) end = true).
          { destruct (c_busy x); try lia; reflexivity. }
          rewrite Hd.
          pose proof (user_cb_facts s0 (EPoll (c_parent x) (c_cb x) (c_path x) 0 (c_sb x) sb) beh cnt c L0) as F.
          destruct (user_cb s0 _ beh cnt) as [[s' e] n].
          destruct F as (F1 & F2 & F3 & F4).
          rewrite getc_upd_same by lia. rewrite F3. cbn. auto.
    - assert (Hd : (match (if c_busy x =? 0 then None else if 0 <? c_busy x then Some 0 else Some (c_busy x)) with
                    | None => true
                    | Some 0 => true || negb (statbuf_eq (c_sb x) sb)
                    | Some e => negb (r =? e)
                    end) = negb (c_busy x =? r)).
      { destruct (Z.eqb_spec (c_busy x) 0) as [B0|B0].
        - rewrite B0. destruct (Z.eqb_spec 0 r); [lia|reflexivity].
        - destruct (0 <? c_busy x) eqn:Pos.
          + cbn. destruct (Z.eqb_spec (c_busy x) r); [lia|reflexivity].
          + destruct (c_busy x) eqn:Bx; lia. }
      rewrite Hd.
      destruct (c_busy x =? r) eqn:BR; cbn [negb].
      + fold (getc s0 c). rewrite Eb, Es. repeat split; auto. lia.
      + pose proof (user_cb_facts s0 (EPoll (c_parent x) (c_cb x) (c_path x) r (c_sb x) zero_sb) beh cnt c L0) as F.
        destruct (user_cb s0 _ beh cnt) as [[s' e] n].
        destruct F as (F1 & F2 & F3 & F4).
        unfold core in F1. injection F1 as G1 G2 G3 G4 G5 G6.
        rewrite getc_upd_same by lia. rewrite F3. cbn. rewrite G6, Es. auto. }
  destruct (mid fx s0 c (r, sb) beh cnt) as [[s1 ev] n].
  destruct M as (M1 & M2 & M3).
  pose proof (out_part_core fx s1 (c_parent (getc s0 c)) c c) as [O1 O2].
  unfold core in O1. injection O1 as Q1 Q2 Q3 Q4 Q5 Q6.
  rewrite Q2, Q6. auto.
Qed.

(* ------------------------------------------------------------------ *)
(* C17_chain: the sequence of reports of one context                  *)
(* ------------------------------------------------------------------ *)
(* what poll_cb_iff_differs shows poll_cb to do with the two remembered
   fields, as a function of the stat answers of one context *)
Definition mem : Type := (Z * statbuf)%type.        (* busy_polling, statbuf *)
Definition mem_ctx (m : mem) : ctx := mkCtx 0 (fst m) 1 0 0 0 (snd m) TIdle false false.
Definition mem_next (m : mem) (res : sres) : mem :=
  (if fst res =? 0 then 1 else fst res, if fst res =? 0 then snd res else snd m).

Definition report : Type := (Z * statbuf * statbuf)%type.   (* status, prev, curr *)

Fixpoint reports (m : mem) (rs : list sres) : list report :=
  match rs with
  | [] => []
  | res :: rs' =>
      (if differs (mem_ctx m) (fst res) (snd res)
       then [(fst res, snd m, if fst res =? 0 then snd res else zero_sb)] else [])
      ++ reports (mem_next m res) rs'
  end.

(* [chained sb l]: the first report's prev agrees with sb in every compared
   field, and every later prev agrees with the curr of the latest good report
   before it (an error report leaves the remembered statbuf alone) *)
Fixpoint chained (sb0 : statbuf) (l : list report) : Prop :=
  match l with
  | [] => True
  | (r, p, c) :: l' => statbuf_eq p sb0 = true /\ chained (if r =? 0 then c else p) l'
  end.

Definition chained_from_first (l : list report) : Prop :=
  match l with
  | [] => True
  | (r, p, c) :: l' => chained (if r =? 0 then c else p) l'
  end.

Lemma chained_congr l : forall a b, statbuf_eq a b = true -> chained a l -> chained b l.
Proof.
  destruct l as [|[[r p] c] l]; cbn; auto.
  intros a b E [H1 H2]. split; auto. eapply statbuf_eq_trans; eauto.
Qed.

Lemma reports_chained rs : forall m, fst m <> 0 -> chained (snd m) (reports m rs).
Proof.
  induction rs as [|[r sb] rs IH]; intros [busy sb0] Hb; cbn [reports fst snd]; [exact I|].
  cbn [fst snd] in Hb.
  assert (Hn : fst (mem_next (busy, sb0) (r, sb)) <> 0).
  { unfold mem_next. cbn [fst snd]. destruct (Z.eqb_spec r 0); lia. }
  pose proof (IH _ Hn) as IH'. unfold mem_next in IH' at 1. cbn [fst snd] in IH'.
  destruct (differs (mem_ctx (busy, sb0)) r sb) eqn:D.
  - cbn [app chained]. split; [apply statbuf_eq_refl|].
    destruct (r =? 0); exact IH'.
  - cbn [app].
    destruct (Z.eqb_spec r 0) as [R|R]; [|exact IH'].
    (* a good poll without a report: the new statbuf agrees with the old one *)
    unfold differs, last_status, mem_ctx in D. cbn [c_busy c_sb fst snd] in D.
    destruct (Z.eqb_spec busy 0); [lia|].
    destruct (0 <? busy) eqn:P.
    + subst r. cbn in D. apply negb_false_iff in D.
      eapply chained_congr; [|exact IH']. apply statbuf_eq_sym; exact D.
    + subst r. destruct busy; lia.
Qed.

Theorem reports_chain : forall rs m, chained_from_first (reports m rs).
Proof.
  induction rs as [|[r sb] rs IH]; intros m; cbn [reports fst snd]; [exact I|].
  destruct (differs (mem_ctx m) r sb).
  - cbn [app chained_from_first].
    assert (Hn : fst (mem_next m (r, sb)) <> 0).
    { unfold mem_next. cbn [fst snd]. destruct (Z.eqb_spec r 0); lia. }
    pose proof (reports_chained rs _ Hn) as C. unfold mem_next in C at 1. cbn [fst snd] in C.
    destruct (r =? 0); exact C.
  - cbn [app]. apply IH.
Qed.

(* the abstraction is what poll_cb does: restated from poll_cb_iff_differs *)
Theorem poll_cb_is_mem_step :
  forall fx s c r sb beh cnt,
  r <= 0 -> (c < length (cs s))%nat ->
  let x := getc s c in
  let m := (c_busy x, c_sb x) in
  gone fx (upd_c s c (c_set_inflight false)) (c_parent x) c = false ->
  let '(s', evs, _) := poll_cb fx s c (r, sb) beh cnt in
  map (fun e => match e with EPoll _ _ _ st p q => (st, p, q) | _ => (0, zero_sb, zero_sb) end)
      (polls_of evs) = reports m [(r, sb)] /\
  (c_busy (getc s' c), c_sb (getc s' c)) = mem_next m (r, sb).
Proof.
  intros fx s c r sb beh cnt Hr L x m G.
  pose proof (poll_cb_iff_differs fx s c r sb beh cnt Hr L G) as P.
  destruct (poll_cb fx s c (r, sb) beh cnt) as [[s' evs] n].
  destruct P as (P1 & P2 & P3). fold x in P1, P3.
  split.
  - rewrite P1. cbn [reports fst snd]. rewrite app_nil_r.
    assert (E : differs (mem_ctx m) r sb = differs x r sb) by reflexivity.
    rewrite E. destruct (differs x r sb); reflexivity.
  - unfold mem_next, m. cbn [fst snd]. rewrite P2, P3. reflexivity.
Qed.
