(* C07: proofs about Model/Connect.v *)
From UV Require Import Lib.Base Model.Connect.
Local Open Scope Z_scope.

(* ---- uv__check_before_write and its callers ---- *)
Lemma write2_checked s h :
  w_fd s >= 0 -> w_writable s = true ->
  (w_pipe s && w_ipc s = false -> write2 s (Some h) = UV_EINVAL_) /\
  (w_pipe s && w_ipc s = true -> h_fd h < 0 -> write2 s (Some h) = UV_EBADF) /\
  (write2 s (Some h) = 0 -> w_pipe s && w_ipc s = true /\ h_fd h >= 0).
Proof.
  intros Hfd Hw. unfold write2, check_before_write.
  destruct (Z.ltb_spec (w_fd s) 0); [lia|]. rewrite Hw. cbn [negb].
  destruct (w_pipe s && w_ipc s) eqn:E; cbn [negb].
  - destruct (Z.ltb_spec (h_fd h) 0).
    + split; [discriminate|]. split; [reflexivity|]. unfold UV_EBADF. discriminate.
    + split; [discriminate|]. split; [lia|]. intros _. split; [reflexivity|lia].
  - split; [reflexivity|]. split; [discriminate|]. unfold UV_EINVAL_. discriminate.
Qed.

Lemma try_write2_fixed_checked s h sys :
  w_fd s >= 0 -> w_writable s = true -> w_connecting s = false -> w_wqs s = 0 ->
  (w_pipe s && w_ipc s = false -> try_write2 true s (Some h) sys = UV_EINVAL_) /\
  (w_pipe s && w_ipc s = true -> h_fd h < 0 -> try_write2 true s (Some h) sys = UV_EBADF) /\
  (try_write2 true s (Some h) sys >= 0 -> w_pipe s && w_ipc s = true /\ h_fd h >= 0).
Proof.
  intros Hfd Hw Hc Hq. unfold try_write2. rewrite Hc, Hq. cbn [orb negb Z.eqb].
  destruct (write2_checked s h Hfd Hw) as (W1 & W2 & W3). unfold write2 in *.
  destruct (w_pipe s && w_ipc s) eqn:E.
  - split; [discriminate|]. split.
    + intros _ Hh. rewrite (W2 eq_refl Hh). reflexivity.
    + intros Hr. split; [reflexivity|].
      destruct (Z.ltb_spec (h_fd h) 0) as [Hh|Hh]; [|lia].
      rewrite (W2 eq_refl Hh) in Hr. cbn in Hr. unfold UV_EBADF in Hr. lia.
  - rewrite (W1 eq_refl). cbn. split; [reflexivity|]. split; [discriminate|].
    unfold UV_EINVAL_. lia.
Qed.

Lemma try_write2_unchecked_refuted :
  exists s h sys, w_fd s >= 0 /\ w_writable s = true /\ w_connecting s = false /\ w_wqs s = 0 /\
    w_pipe s && w_ipc s = false /\ try_write2 false s (Some h) sys = 1.
Proof.
  exists (mkW 5 true false false false 0), (mkH 7 false), 1. cbn. repeat split; lia.
Qed.

(* what does hold for the pinned uv_try_write2: everything uv__check_before_write checks
   without looking at the handle, and a closing handle is refused by uv__try_write *)
Lemma try_write2_partial s sh sys :
  (w_connecting s = true \/ w_wqs s <> 0 -> try_write2 false s sh sys = UV_EAGAIN_) /\
  (w_connecting s = false -> w_wqs s = 0 -> w_fd s < 0 -> try_write2 false s sh sys = UV_EBADF) /\
  (w_connecting s = false -> w_wqs s = 0 -> w_fd s >= 0 -> w_writable s = false ->
     try_write2 false s sh sys = UV_EPIPE) /\
  (forall h, sh = Some h -> h_closing h = true -> try_write2 false s sh sys < 0).
Proof.
  unfold try_write2, check_before_write. repeat split.
  - intros [H|H]; [rewrite H; reflexivity|].
    destruct (Z.eqb_spec (w_wqs s) 0); [contradiction|]. rewrite orb_true_r. reflexivity.
  - intros Hc Hq Hf. rewrite Hc, Hq. cbn [orb negb Z.eqb].
    destruct (Z.ltb_spec (w_fd s) 0); [reflexivity|lia].
  - intros Hc Hq Hf Hw. rewrite Hc, Hq, Hw. cbn [orb negb Z.eqb].
    destruct (Z.ltb_spec (w_fd s) 0); [lia|reflexivity].
  - intros h -> Hcl. destruct (w_connecting s || negb (w_wqs s =? 0)); [unfold UV_EAGAIN_; lia|].
    destruct (w_fd s <? 0); [cbn; unfold UV_EBADF; lia|].
    destruct (w_writable s); cbn; [|unfold UV_EPIPE; lia].
    unfold try_write. rewrite Hcl. unfold UV_EBADF; lia.
Qed.

(* ------------------------------------------------------------------ *)
(* connect requests: exactly one callback *)
Definition rets (tr : list cev) : list nat :=
  flat_map (fun e => match e with CRet r _ => [r] | _ => [] end) tr.
Definition subs (tr : list cev) : list nat :=
  flat_map (fun e => match e with CRet r c => if c =? 0 then [r] else [] | _ => [] end) tr.
Definition cbs (tr : list cev) : list nat :=
  flat_map (fun e => match e with CCb r _ _ => [r] | _ => [] end) tr.
Definition losts (tr : list cev) : list nat :=
  flat_map (fun e => match e with CLost r => [r] | _ => [] end) tr.
Definition cnt (l : list nat) (r : nat) : nat := count_occ Nat.eq_dec l r.
Definition pend (s : cstream) (r : nat) : nat :=
  match c_req s with Some r' => if Nat.eqb r' r then 1%nat else 0%nat | None => 0%nat end.

Definition status_ok (e : cev) : Prop :=
  match e with
  | CCb _ st SrcCancel => st = UV_ECANCELED
  | CCb _ st SrcDelayed => st <> 0
  | _ => True
  end.

Lemma cnt_app a b r : cnt (a ++ b) r = (cnt a r + cnt b r)%nat.
Proof. apply count_occ_app. Qed.
Lemma cnt_single a r : cnt [a] r = if Nat.eqb a r then 1%nat else 0%nat.
Proof.
  unfold cnt; cbn. destruct (Nat.eq_dec a r) as [E|E], (Nat.eqb_spec a r); try reflexivity; contradiction.
Qed.

Definition wf (x : cst) : Prop :=
  (forall r, c_req (cs x) = Some r -> (r < nreq x)%nat) /\
  (c_closed (cs x) = true -> c_req (cs x) = None /\ c_closing (cs x) = true).

Record Good (x : cst) (e : list cev) (x' : cst) : Prop := {
  g_wf : wf x';
  g_n : (nreq x <= nreq x')%nat;
  g_fresh : Forall (fun r => nreq x <= r < nreq x')%nat (rets e);
  g_nodup : NoDup (rets e);
  g_cnt : forall r, (cnt (cbs e) r + cnt (losts e) r + pend (cs x') r = cnt (subs e) r + pend (cs x) r)%nat;
  g_tcp : c_tcp (cs x') = c_tcp (cs x);
  g_closing : c_closing (cs x) = true -> c_closing (cs x') = true;
  g_closed : c_closed (cs x) = true -> c_closed (cs x') = true;
  g_lost : c_tcp (cs x) = true -> losts e = [];
  g_st : Forall status_ok e
}.

Lemma Good_same x x' :
  wf x' -> nreq x' = nreq x -> c_req (cs x') = c_req (cs x) -> c_tcp (cs x') = c_tcp (cs x) ->
  (c_closing (cs x) = true -> c_closing (cs x') = true) ->
  (c_closed (cs x) = true -> c_closed (cs x') = true) -> Good x [] x'.
Proof.
  intros W N R T C1 C2. constructor; auto; try (cbn; constructor); try lia.
  intros r. unfold pend. rewrite R. cbn. reflexivity.
Qed.

Lemma Good_refl x : wf x -> Good x [] x.
Proof. intros W. apply Good_same; auto. Qed.

Lemma rets_app a b : rets (a ++ b) = rets a ++ rets b. Proof. apply flat_map_app. Qed.
Lemma subs_app a b : subs (a ++ b) = subs a ++ subs b. Proof. apply flat_map_app. Qed.
Lemma cbs_app a b : cbs (a ++ b) = cbs a ++ cbs b. Proof. apply flat_map_app. Qed.
Lemma losts_app a b : losts (a ++ b) = losts a ++ losts b. Proof. apply flat_map_app. Qed.

Lemma NoDup_app_aux {A} (a b : list A) :
  NoDup a -> NoDup b -> (forall x, In x a -> In x b -> False) -> NoDup (a ++ b).
Proof.
  induction a as [|x a IH]; intros Na Nb D; cbn; [exact Nb|].
  inversion Na as [|? ? Hx Na']; subst. constructor.
  - rewrite in_app_iff. intros [H|H]; [contradiction|]. apply (D x); [left; reflexivity|exact H].
  - apply IH; auto. intros y Ha Hb. apply (D y); [right; exact Ha|exact Hb].
Qed.

Lemma Good_trans x1 e1 x2 e2 x3 : Good x1 e1 x2 -> Good x2 e2 x3 -> Good x1 (e1 ++ e2) x3.
Proof.
  intros G1 G2. constructor.
  - apply G2.
  - pose proof (g_n _ _ _ G1). pose proof (g_n _ _ _ G2). lia.
  - rewrite rets_app. apply Forall_app. pose proof (g_n _ _ _ G1). pose proof (g_n _ _ _ G2). split.
    + eapply Forall_impl; [|apply (g_fresh _ _ _ G1)]. cbn. intros; lia.
    + eapply Forall_impl; [|apply (g_fresh _ _ _ G2)]. cbn. intros; lia.
  - rewrite rets_app. apply NoDup_app_aux; [apply G1|apply G2|].
    intros r H1 H2. pose proof (g_fresh _ _ _ G1) as F1. pose proof (g_fresh _ _ _ G2) as F2.
    rewrite Forall_forall in F1, F2. specialize (F1 _ H1). specialize (F2 _ H2). cbn in *. lia.
  - intros r. rewrite cbs_app, losts_app, subs_app, !cnt_app.
    pose proof (g_cnt _ _ _ G1 r). pose proof (g_cnt _ _ _ G2 r). lia.
  - rewrite (g_tcp _ _ _ G2). apply G1.
  - intros H. apply G2, G1, H.
  - intros H. apply G2, G1, H.
  - intros H. rewrite losts_app, (g_lost _ _ _ G1 H), (g_lost _ _ _ G2); [reflexivity|].
    rewrite (g_tcp _ _ _ G1). exact H.
  - apply Forall_app. split; [apply G1|apply G2].
Qed.
