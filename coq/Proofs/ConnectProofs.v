(* C07: proofs about Model/Connect.v *)
From UV Require Import Lib.Base Model.Connect.
Local Open Scope Z_scope.

(* ---- uv__check_before_write and its callers ---- *)
Lemma write2_checked s h :
  w_fd s >= 0 -> w_writable s = true ->
  (w_pipe s && w_ipc s = false -> write2 s (Some h) = UV_EINVAL_) /\
  (w_pipe s && w_ipc s = true -> h_fd h < 0 -> write2 s (Some h) = UV_EBADF) /\
  (write2 s (Some h) = 0 -> w_pipe s && w_ipc s = true /\ h_fd h >= 0).
Proof.
  intros Hfd Hw. unfold write2, check_before_write.
  destruct (Z.ltb_spec (w_fd s) 0); [lia|]. rewrite Hw. cbn [negb].
  destruct (w_pipe s && w_ipc s) eqn:E; cbn [negb].
  - destruct (Z.ltb_spec (h_fd h) 0).
    + split; [discriminate|]. split; [reflexivity|]. unfold UV_EBADF. discriminate.
    + split; [discriminate|]. split; [lia|]. intros _. split; [reflexivity|lia].
  - split; [reflexivity|]. split; [discriminate|]. unfold UV_EINVAL_. discriminate.
Qed.

Lemma try_write2_fixed_checked s h sys :
  w_fd s >= 0 -> w_writable s = true -> w_connecting s = false -> w_wqs s = 0 ->
  (w_pipe s && w_ipc s = false -> try_write2 true s (Some h) sys = UV_EINVAL_) /\
  (w_pipe s && w_ipc s = true -> h_fd h < 0 -> try_write2 true s (Some h) sys = UV_EBADF) /\
  (try_write2 true s (Some h) sys >= 0 -> w_pipe s && w_ipc s = true /\ h_fd h >= 0).
Proof.
  intros Hfd Hw Hc Hq. unfold try_write2. rewrite Hc, Hq. cbn [orb negb Z.eqb].
  destruct (write2_checked s h Hfd Hw) as (W1 & W2 & W3). unfold write2 in *.
  destruct (w_pipe s && w_ipc s) eqn:E.
  - split; [discriminate|]. split.
    + intros _ Hh. rewrite (W2 eq_refl Hh). reflexivity.
    + intros Hr. split; [reflexivity|].
      destruct (Z.ltb_spec (h_fd h) 0) as [Hh|Hh]; [|lia].
      rewrite (W2 eq_refl Hh) in Hr. cbn in Hr. unfold UV_EBADF in Hr. lia.
  - rewrite (W1 eq_refl). cbn. split; [reflexivity|]. split; [discriminate|].
    unfold UV_EINVAL_. lia.
Qed.

Lemma try_write2_unchecked_refuted :
  exists s h sys, w_fd s >= 0 /\ w_writable s = true /\ w_connecting s = false /\ w_wqs s = 0 /\
    w_pipe s && w_ipc s = false /\ try_write2 false s (Some h) sys = 1.
Proof.
  exists (mkW 5 true false false false 0), (mkH 7 false), 1. cbn. repeat split; lia.
Qed.

(* what does hold for the pinned uv_try_write2: everything uv__check_before_write checks
   without looking at the handle, and a closing handle is refused by uv__try_write *)
Lemma try_write2_partial s sh sys :
  (w_connecting s = true \/ w_wqs s <> 0 -> try_write2 false s sh sys = UV_EAGAIN_) /\
  (w_connecting s = false -> w_wqs s = 0 -> w_fd s < 0 -> try_write2 false s sh sys = UV_EBADF) /\
  (w_connecting s = false -> w_wqs s = 0 -> w_fd s >= 0 -> w_writable s = false ->
     try_write2 false s sh sys = UV_EPIPE) /\
  (forall h, sh = Some h -> h_closing h = true -> try_write2 false s sh sys < 0).
Proof.
  unfold try_write2, check_before_write. repeat split.
  - intros [H|H]; [rewrite H; reflexivity|].
    destruct (Z.eqb_spec (w_wqs s) 0); [contradiction|]. rewrite orb_true_r. reflexivity.
  - intros Hc Hq Hf. rewrite Hc, Hq. cbn [orb negb Z.eqb].
    destruct (Z.ltb_spec (w_fd s) 0); [reflexivity|lia].
  - intros Hc Hq Hf Hw. rewrite Hc, Hq, Hw. cbn [orb negb Z.eqb].
    destruct (Z.ltb_spec (w_fd s) 0); [lia|reflexivity].
  - intros h -> Hcl. destruct (w_connecting s || negb (w_wqs s =? 0)); [unfold UV_EAGAIN_; lia|].
    destruct (w_fd s <? 0); [cbn; unfold UV_EBADF; lia|].
    destruct (w_writable s); cbn; [|unfold UV_EPIPE; lia].
    unfold try_write. rewrite Hcl. unfold UV_EBADF; lia.
Qed.

(* ------------------------------------------------------------------ *)
(* connect requests: exactly one callback *)
Definition rets (tr : list cev) : list nat :=
  flat_map (fun e => match e with CRet r _ => [r] | _ => [] end) tr.
Definition subs (tr : list cev) : list nat :=
  flat_map (fun e => match e with CRet r c => if c =? 0 then [r] else [] | _ => [] end) tr.
Definition cbs (tr : list cev) : list nat :=
  flat_map (fun e => match e with CCb r _ _ => [r] | _ => [] end) tr.
Definition losts (tr : list cev) : list nat :=
  flat_map (fun e => match e with CLost r => [r] | _ => [] end) tr.
Definition cnt (l : list nat) (r : nat) : nat := count_occ Nat.eq_dec l r.
Definition pend (x : cst) (r : nat) : nat :=
  (match c_req (cs x) with Some r' => if Nat.eqb r' r then 1%nat else 0%nat | None => 0%nat end
   + cnt (cchain x) r)%nat.

Definition status_ok (e : cev) : Prop :=
  match e with
  | CCb _ st SrcCancel => st = UV_ECANCELED
  | CCb _ st SrcDelayed => st <> 0
  | CCb _ st SrcRejected => st = UV_EALREADY
  | _ => True
  end.

Lemma cnt_app a b r : cnt (a ++ b) r = (cnt a r + cnt b r)%nat.
Proof. apply count_occ_app. Qed.
Lemma cnt_single a r : cnt [a] r = if Nat.eqb a r then 1%nat else 0%nat.
Proof.
  unfold cnt; cbn. destruct (Nat.eq_dec a r) as [E|E], (Nat.eqb_spec a r); try reflexivity; contradiction.
Qed.

Definition wf (x : cst) : Prop :=
  (forall r, c_req (cs x) = Some r -> (r < nreq x)%nat) /\
  (c_closed (cs x) = true -> c_req (cs x) = None /\ c_closing (cs x) = true) /\
  (c_req (cs x) = None -> cchain x = []) /\
  (cpfix x = false -> cchain x = []).

Lemma wf_keep x x' :
  wf x -> c_req (cs x') = c_req (cs x) -> (nreq x <= nreq x')%nat ->
  c_closed (cs x') = c_closed (cs x) -> (c_closing (cs x) = true -> c_closing (cs x') = true) ->
  cchain x' = cchain x -> cpfix x' = cpfix x -> wf x'.
Proof.
  intros (W1 & W2 & W3 & W4) R N D C Ch P. unfold wf. rewrite R, D, Ch, P. repeat split; auto.
  - intros r Hr. specialize (W1 _ Hr). lia.
  - apply W2, H.
  - apply C. apply W2, H.
Qed.

(* [din]/[dout]: requests taken off connect_req->queue that are owed a callback before /
   after the step (uv__stream_connect and uv__stream_destroy move them to a local queue) *)
(* how many requests the handle owes a callback: connect_req and those linked behind it *)
Definition pendn (x : cst) : nat :=
  ((match c_req (cs x) with Some _ => 1 | None => 0 end) + length (cchain x))%nat.

Record GoodD (din dout : list nat) (x : cst) (e : list cev) (x' : cst) : Prop := {
  g_wf : wf x';
  g_n : (nreq x <= nreq x')%nat;
  g_fresh : Forall (fun r => nreq x <= r < nreq x')%nat (rets e);
  g_nodup : NoDup (rets e);
  g_cnt : forall r, (cnt (cbs e) r + cnt (losts e) r + pend x' r + cnt dout r
                     = cnt (subs e) r + pend x r + cnt din r)%nat;
  g_tcp : c_tcp (cs x') = c_tcp (cs x);
  g_closing : c_closing (cs x) = true -> c_closing (cs x') = true;
  g_closed : c_closed (cs x) = true -> c_closed (cs x') = true;
  g_lost : c_tcp (cs x) = true \/ cpfix x = true -> losts e = [];
  g_st : Forall status_ok e;
  g_pfix : cpfix x' = cpfix x;
  (* uv__req_register / uv__req_unregister: one registration per request owed a callback
     (plus, in the unrepaired pipe code, one per overwritten request) *)
  g_reg : (pendn x + length din <= creg x)%nat ->
          (pendn x' + length dout <= creg x')%nat /\
          (creg x' + pendn x + length din = creg x + pendn x' + length dout + length (losts e))%nat /\
          (creg x' + length (cbs e) = creg x + length (subs e))%nat
}.
Notation Good := (GoodD [] []).

Lemma cnt_nil r : cnt [] r = 0%nat. Proof. reflexivity. Qed.

Lemma Good_frame d din dout x e x' : GoodD din dout x e x' -> GoodD (din ++ d) (dout ++ d) x e x'.
Proof.
  intros G. constructor; try apply G.
  - intros r. rewrite !cnt_app. pose proof (g_cnt _ _ _ _ _ G r). lia.
  - rewrite !app_length. intros H. destruct (g_reg _ _ _ _ _ G) as (A & B & C); lia.
Qed.

Lemma Good_same x x' :
  wf x -> nreq x' = nreq x -> c_req (cs x') = c_req (cs x) -> c_tcp (cs x') = c_tcp (cs x) ->
  (c_closing (cs x) = true -> c_closing (cs x') = true) ->
  c_closed (cs x') = c_closed (cs x) -> cchain x' = cchain x -> cpfix x' = cpfix x ->
  creg x' = creg x -> Good x [] x'.
Proof.
  intros W N R T C1 C2 Ch P Rg.
  assert (W' : wf x') by (eapply wf_keep; eauto; lia).
  constructor.
  - exact W'.
  - lia.
  - cbn; constructor.
  - cbn; constructor.
  - intros r. unfold pend. rewrite R, Ch. cbn. reflexivity.
  - exact T.
  - exact C1.
  - rewrite C2. auto.
  - intros _. reflexivity.
  - constructor.
  - exact P.
  - intros H. unfold pendn in *. rewrite R, Ch, Rg. cbn. lia.
Qed.

Lemma Good_refl x : wf x -> Good x [] x.
Proof. intros W. apply Good_same; auto. Qed.

Lemma rets_app a b : rets (a ++ b) = rets a ++ rets b. Proof. apply flat_map_app. Qed.
Lemma subs_app a b : subs (a ++ b) = subs a ++ subs b. Proof. apply flat_map_app. Qed.
Lemma cbs_app a b : cbs (a ++ b) = cbs a ++ cbs b. Proof. apply flat_map_app. Qed.
Lemma losts_app a b : losts (a ++ b) = losts a ++ losts b. Proof. apply flat_map_app. Qed.

Lemma NoDup_app_aux {A} (a b : list A) :
  NoDup a -> NoDup b -> (forall x, In x a -> In x b -> False) -> NoDup (a ++ b).
Proof.
  induction a as [|x a IH]; intros Na Nb D; cbn; [exact Nb|].
  inversion Na as [|? ? Hx Na']; subst. constructor.
  - rewrite in_app_iff. intros [H|H]; [contradiction|]. apply (D x); [left; reflexivity|exact H].
  - apply IH; auto. intros y Ha Hb. apply (D y); [right; exact Ha|exact Hb].
Qed.

Lemma Good_trans d1 d2 d3 x1 e1 x2 e2 x3 :
  GoodD d1 d2 x1 e1 x2 -> GoodD d2 d3 x2 e2 x3 -> GoodD d1 d3 x1 (e1 ++ e2) x3.
Proof.
  intros G1 G2. constructor.
  - apply (g_wf _ _ _ _ _ G2).
  - pose proof (g_n _ _ _ _ _ G1). pose proof (g_n _ _ _ _ _ G2). lia.
  - rewrite rets_app. apply Forall_app. pose proof (g_n _ _ _ _ _ G1). pose proof (g_n _ _ _ _ _ G2). split.
    + eapply Forall_impl; [|apply (g_fresh _ _ _ _ _ G1)]. cbn. intros; lia.
    + eapply Forall_impl; [|apply (g_fresh _ _ _ _ _ G2)]. cbn. intros; lia.
  - rewrite rets_app. apply NoDup_app_aux; [apply (g_nodup _ _ _ _ _ G1)|apply (g_nodup _ _ _ _ _ G2)|].
    intros r H1 H2. pose proof (g_fresh _ _ _ _ _ G1) as F1. pose proof (g_fresh _ _ _ _ _ G2) as F2.
    rewrite Forall_forall in F1, F2. specialize (F1 _ H1). specialize (F2 _ H2). cbn in *. lia.
  - intros r. rewrite cbs_app, losts_app, subs_app, !cnt_app.
    pose proof (g_cnt _ _ _ _ _ G1 r). pose proof (g_cnt _ _ _ _ _ G2 r). lia.
  - rewrite (g_tcp _ _ _ _ _ G2). apply (g_tcp _ _ _ _ _ G1).
  - intros H. apply (g_closing _ _ _ _ _ G2), (g_closing _ _ _ _ _ G1), H.
  - intros H. apply (g_closed _ _ _ _ _ G2), (g_closed _ _ _ _ _ G1), H.
  - intros H. rewrite losts_app, (g_lost _ _ _ _ _ G1 H), (g_lost _ _ _ _ _ G2); [reflexivity|].
    rewrite (g_tcp _ _ _ _ _ G1), (g_pfix _ _ _ _ _ G1). exact H.
  - apply Forall_app. split; [apply (g_st _ _ _ _ _ G1)|apply (g_st _ _ _ _ _ G2)].
  - rewrite (g_pfix _ _ _ _ _ G2). apply (g_pfix _ _ _ _ _ G1).
  - intros H. destruct (g_reg _ _ _ _ _ G1 H) as (A1 & B1 & C1). destruct (g_reg _ _ _ _ _ G2 A1) as (A2 & B2 & C2).
    split; [exact A2|]. rewrite losts_app, cbs_app, subs_app, !app_length. lia.
Qed.

(* ---- primitive steps ---- *)
Lemma Good_ret_fail x x' c :
  wf x -> c <> 0 -> nreq x' = S (nreq x) -> c_req (cs x') = c_req (cs x) ->
  c_tcp (cs x') = c_tcp (cs x) -> c_closing (cs x') = c_closing (cs x) ->
  c_closed (cs x') = c_closed (cs x) -> cchain x' = cchain x -> cpfix x' = cpfix x ->
  creg x' = creg x -> Good x [CRet (nreq x) c] x'.
Proof.
  intros W Hc N R T C1 C2 Ch P Rg. constructor.
  - eapply wf_keep; eauto; try lia.
  - lia.
  - cbn. repeat constructor; lia.
  - cbn. repeat constructor. intros [].
  - intros r. unfold pend. rewrite R, Ch. cbn. destruct (Z.eqb_spec c 0); [contradiction|]. reflexivity.
  - exact T.
  - rewrite C1; auto.
  - rewrite C2; auto.
  - reflexivity.
  - repeat constructor.
  - exact P.
  - unfold pendn. rewrite R, Ch, Rg. cbn. destruct (Z.eqb_spec c 0); [contradiction|]. cbn. lia.
Qed.

Definition lost_of (s : cstream) : list cev := match c_req s with Some r0 => [CLost r0] | None => [] end.

(* a request becomes connect_req; in the unrepaired pipe code this may overwrite another *)
Lemma Good_ret_ok x x' :
  wf x -> nreq x' = S (nreq x) -> c_req (cs x') = Some (nreq x) ->
  (c_tcp (cs x) = true \/ cpfix x = true -> c_req (cs x) = None) ->
  c_tcp (cs x') = c_tcp (cs x) -> c_closing (cs x') = c_closing (cs x) ->
  c_closed (cs x') = false -> c_closed (cs x) = false -> cchain x' = cchain x -> cpfix x' = cpfix x ->
  creg x' = S (creg x) -> Good x (lost_of (cs x) ++ [CRet (nreq x) 0]) x'.
Proof.
  intros (W1 & W2 & W3 & W4) N R Ht T C1 C2 C3 Ch P Rg.
  assert (Hch : cchain x = []).
  { destruct (cpfix x) eqn:E; [|apply W4; reflexivity]. apply W3, Ht. right; reflexivity. }
  constructor.
  - unfold wf. rewrite R, C2, Ch, Hch. repeat split; try discriminate; auto.
    intros r Hr. inversion Hr; subst. lia.
  - lia.
  - unfold lost_of. destruct (c_req (cs x)); cbn; repeat constructor; lia.
  - unfold lost_of. destruct (c_req (cs x)); cbn; repeat constructor; intros [].
  - intros r. unfold pend, lost_of. rewrite R, Ch, Hch.
    destruct (c_req (cs x)) as [r0|]; cbn;
      repeat match goal with |- context [Nat.eq_dec ?a ?b] => destruct (Nat.eq_dec a b) end;
      repeat match goal with |- context [Nat.eqb ?a ?b] => destruct (Nat.eqb_spec a b) end;
      try reflexivity; try lia; congruence.
  - exact T.
  - rewrite C1; auto.
  - rewrite C3; discriminate.
  - intros H. unfold lost_of. rewrite (Ht H). reflexivity.
  - unfold lost_of. destruct (c_req (cs x)); repeat constructor.
  - exact P.
  - unfold pendn, lost_of. rewrite R, Ch, Hch, Rg. destruct (c_req (cs x)); cbn; lia.
Qed.

(* repaired uv_pipe_connect while a connect is pending: the request is linked behind it *)
Lemma Good_chain x x' :
  wf x -> nreq x' = S (nreq x) -> c_req (cs x') = c_req (cs x) -> c_req (cs x) <> None ->
  cpfix x = true -> c_tcp (cs x') = c_tcp (cs x) -> c_closing (cs x') = c_closing (cs x) ->
  c_closed (cs x') = c_closed (cs x) -> cchain x' = cchain x ++ [nreq x] -> cpfix x' = cpfix x ->
  creg x' = S (creg x) -> Good x [CRet (nreq x) 0] x'.
Proof.
  intros (W1 & W2 & W3 & W4) N R Rn Pf T C1 C2 Ch P Rg. constructor.
  - unfold wf. rewrite R, C2, C1, Ch, P, Pf. repeat split; auto.
    + intros r Hr. specialize (W1 _ Hr). lia.
    + apply W2, H.
    + apply W2, H.
    + intros H. contradiction.
    + discriminate.
  - lia.
  - cbn. repeat constructor; lia.
  - cbn. repeat constructor. intros [].
  - intros r. unfold pend. rewrite R, Ch, cnt_app, cnt_single. cbn.
    destruct (Nat.eq_dec (nreq x) r), (Nat.eqb_spec (nreq x) r); try contradiction; lia.
  - exact T.
  - rewrite C1; auto.
  - rewrite C2; auto.
  - reflexivity.
  - repeat constructor.
  - exact P.
  - unfold pendn. rewrite R, Ch, Rg, app_length. cbn. lia.
Qed.

(* connect_req completes: its callback is owed no more, the linked requests are moved out *)
Lemma Good_cb x x' r st src :
  wf x -> c_req (cs x) = Some r -> c_req (cs x') = None -> cchain x' = [] -> nreq x' = nreq x ->
  c_tcp (cs x') = c_tcp (cs x) ->
  (c_closing (cs x) = true -> c_closing (cs x') = true) ->
  (c_closed (cs x) = true -> c_closed (cs x') = true) ->
  (c_closed (cs x') = true -> c_closing (cs x') = true) -> cpfix x' = cpfix x ->
  creg x' = pred (creg x) ->
  status_ok (CCb r st src) -> GoodD [] (cchain x) x [CCb r st src] x'.
Proof.
  intros (W1 & W2 & W3 & W4) R R' Ch N T C1 C2 C3 P Rg S. constructor; auto.
  - unfold wf. rewrite R', Ch. repeat split; auto; discriminate.
  - lia.
  - cbn. constructor.
  - cbn. constructor.
  - intros r0. unfold pend. rewrite R, R', Ch. cbn.
    destruct (Nat.eq_dec r r0), (Nat.eqb_spec r r0); try contradiction; lia.
  - unfold pendn. rewrite R, R', Ch, Rg. cbn. lia.
Qed.

(* a moved-out request is unregistered and gets its callback *)
Lemma Good_reject1 x q t st src :
  wf x -> status_ok (CCb q st src) ->
  GoodD (q :: t) t x [CCb q st src]
        (mkCs (cs x) (co x) (nreq x) (ccbn x) (cchain x) (cpfix x) (pred (creg x)) (cax x)).
Proof.
  intros W S. constructor.
  - exact W.
  - cbn; lia.
  - cbn. constructor.
  - cbn. constructor.
  - intros r. unfold pend, cnt. cbn. destruct (Nat.eq_dec q r); lia.
  - reflexivity.
  - auto.
  - auto.
  - intros _. reflexivity.
  - repeat constructor. exact S.
  - reflexivity.
  - unfold pendn. cbn. intros H. lia.
Qed.

Lemma Good_event x ev :
  match ev with CClosed | CReg _ | CUsable _ | CWcb | CScb | CTry _ => True | _ => False end -> wf x -> Good x [ev] x.
Proof.
  intros E W. destruct ev; try contradiction;
    (constructor; [exact W|lia|cbn; constructor|cbn; constructor|intros r; cbn; reflexivity|reflexivity|
                   auto|auto|intros _; reflexivity|repeat constructor|reflexivity|cbn; intros H; lia]).
Qed.

Lemma wf_not_closed x : wf x -> c_closing (cs x) = false -> c_closed (cs x) = false.
Proof.
  intros (_ & W2 & _) H. destruct (c_closed (cs x)); [|reflexivity].
  destruct (W2 eq_refl) as (_ & C). congruence.
Qed.

(* ---- the API calls ---- *)
Lemma tcp_connect_good x x' e :
  wf x -> c_closing (cs x) = false -> c_tcp (cs x) = true ->
  tcp_connect x = (x', e) -> Good x e x'.
Proof.
  intros W Hc Ht H. pose proof (wf_not_closed x W Hc) as Hd.
  unfold tcp_connect in H. destruct (c_req (cs x)) as [r0|] eqn:R.
  { inversion H; subst. apply Good_ret_fail; cbn; auto. unfold UV_EALREADY; lia. }
  assert (Out : forall tcp fd dl fed cl cd o wr, tcp = c_tcp (cs x) -> cl = c_closing (cs x) ->
            cd = c_closed (cs x) ->
            Good x [CRet (nreq x) 0]
              (mkCs (mkC tcp fd (Some (nreq x)) dl true fed cl cd) o (S (nreq x)) (ccbn x) (cchain x) (cpfix x) (S (creg x)) wr)).
  { intros tcp fd dl fed cl cd o wr T1 T2 T3.
    pose proof (Good_ret_ok x (mkCs (mkC tcp fd (Some (nreq x)) dl true fed cl cd)
                    o (S (nreq x)) (ccbn x) (cchain x) (cpfix x) (S (creg x)) wr) W) as G.
    unfold lost_of in G. rewrite R in G. cbn [app] in G.
    apply G; cbn; auto; congruence. }
  destruct (c_delayed (cs x) =? 0); cbn [negb] in H.
  2: { inversion H; subst. apply Out; reflexivity. }
  destruct (if c_fd (cs x) then (0, o_sock (co x)) else next_z (o_sock (co x))) as [serr so'].
  destruct (Z.eqb_spec serr 0) as [Es|Es]; cbn [negb] in H.
  2: { inversion H; subst. apply Good_ret_fail; cbn; auto. }
  destruct (connect_loop (o_conn (co x))) as [a cn'].
  destruct ((a =? 0) || (a =? UV_EINPROGRESS)) eqn:Ea.
  { inversion H; subst. apply Out; reflexivity. }
  destruct (Z.eqb_spec a UV_ECONNREFUSED).
  { inversion H; subst. apply Out; reflexivity. }
  inversion H; subst. apply Good_ret_fail; cbn; auto.
  apply orb_false_elim in Ea. destruct Ea as (Ea & _). destruct (Z.eqb_spec a 0); [discriminate|assumption].
Qed.

Lemma bind_busy_good b x x' e : wf x -> bind_busy b x = (x', e) -> Good x e x'.
Proof.
  intros W H. unfold bind_busy in H.
  destruct (if c_fd (cs x) then (0, o_sock (co x)) else next_z (o_sock (co x))) as [serr so'].
  destruct (negb (serr =? 0)); inversion H; subst; apply Good_same; cbn; auto.
Qed.

Lemma pipe_body_spec x flags n z x' e res :
  pipe_connect2_body x flags n z = (x', e, res) ->
  nreq x' = nreq x /\ ccbn x' = ccbn x /\ c_tcp (cs x') = c_tcp (cs x) /\
  c_closing (cs x') = c_closing (cs x) /\ c_closed (cs x') = c_closed (cs x) /\
  cchain x' = cchain x /\ cpfix x' = cpfix x /\
  match res with
  | Some err => x' = x /\ e = [] /\ err <> 0
  | None => c_req (cs x') = Some (nreq x) /\ e = lost_of (cs x) /\ creg x' = S (creg x)
  end.
Proof.
  intros H. unfold pipe_connect2_body in H.
  assert (Inv : (x, @nil cev, Some UV_EINVAL_) = (x', e, res) ->
     nreq x' = nreq x /\ ccbn x' = ccbn x /\ c_tcp (cs x') = c_tcp (cs x) /\
     c_closing (cs x') = c_closing (cs x) /\ c_closed (cs x') = c_closed (cs x) /\
     cchain x' = cchain x /\ cpfix x' = cpfix x /\
     match res with Some err => x' = x /\ e = [] /\ err <> 0
                  | None => c_req (cs x') = Some (nreq x) /\ e = lost_of (cs x) /\ creg x' = S (creg x) end).
  { intros H'. inversion H'; subst. repeat split; auto. unfold UV_EINVAL_; lia. }
  destruct (negb (Z.land flags (Z.lnot 1) =? 0)); [apply (Inv H)|].
  destruct (Nat.eqb n 0); [apply (Inv H)|].
  destruct z; [apply (Inv H)|].
  destruct (negb (Z.land flags 1 =? 0) && Nat.ltb 108 n); [apply (Inv H)|].
  destruct (if negb (c_fd (cs x)) then next_z (o_sock (co x)) else (0, o_sock (co x))) as [serr so'].
  unfold pipe_out in H.
  destruct (serr <? 0).
  { inversion H; subst. cbn. repeat split; reflexivity. }
  destruct (connect_loop (o_conn (co x))) as [a cn'].
  destruct ((a =? 0) || (a =? UV_EINPROGRESS)); inversion H; subst; cbn; repeat split; reflexivity.
Qed.

Lemma pending_spec s : pending s = true <-> c_req s <> None.
Proof. unfold pending. destruct (c_req s); split; try discriminate; auto; intros H; contradiction. Qed.

Lemma guard_none x : cpfix x && pending (cs x) = false -> cpfix x = true -> c_req (cs x) = None.
Proof.
  intros G P. rewrite P in G. cbn in G. unfold pending in G. destruct (c_req (cs x)); [discriminate|reflexivity].
Qed.

Lemma pipe_connect2_good x flags n z x' e :
  wf x -> c_closing (cs x) = false -> c_tcp (cs x) = false ->
  pipe_connect2 x flags n z = (x', e) -> Good x e x'.
Proof.
  intros W Hc Ht H. pose proof (wf_not_closed x W Hc) as Hd. unfold pipe_connect2 in H.
  destruct (cpfix x && pending (cs x)) eqn:G.
  { inversion H; subst. apply Good_ret_fail; cbn; auto. unfold UV_EALREADY; lia. }
  destruct (pipe_connect2_body x flags n z) as [[x1 e1] res] eqn:B.
  destruct (pipe_body_spec _ _ _ _ _ _ _ B) as (N & _ & T & C1 & C2 & Ch & P & R).
  destruct res as [err|].
  - destruct R as (-> & -> & Herr). inversion H; subst. cbn [app].
    apply Good_ret_fail; cbn; auto.
  - destruct R as (R & -> & Rg). inversion H; subst.
    apply Good_ret_ok; cbn; auto; try congruence.
    intros [F|F]; [congruence|apply (guard_none _ G F)].
Qed.

Lemma pipe_connect_good x n x' e :
  wf x -> c_closing (cs x) = false -> c_tcp (cs x) = false ->
  pipe_connect x n = (x', e) -> Good x e x'.
Proof.
  intros W Hc Ht H. pose proof (wf_not_closed x W Hc) as Hd. unfold pipe_connect in H.
  destruct (cpfix x && pending (cs x)) eqn:G.
  { inversion H; subst. apply andb_prop in G. destruct G as (G1 & G2).
    apply Good_chain; cbn; auto. apply pending_spec, G2. }
  destruct (pipe_connect2_body x 0 n false) as [[x1 e1] res] eqn:B.
  destruct (pipe_body_spec _ _ _ _ _ _ _ B) as (N & _ & T & C1 & C2 & Ch & P & R).
  destruct res as [err|].
  - destruct R as (-> & -> & Herr). unfold pipe_out in H. inversion H; subst. cbn [app].
    change (match c_req (cs x) with Some r0 => [CLost r0] | None => [] end) with (lost_of (cs x)).
    apply Good_ret_ok; cbn; auto; try congruence.
    intros [F|F]; [congruence|apply (guard_none _ G F)].
  - destruct R as (R & -> & Rg). inversion H; subst.
    apply Good_ret_ok; cbn; auto; try congruence.
    intros [F|F]; [congruence|apply (guard_none _ G F)].
Qed.

Lemma cclose_good x x' e : wf x -> cclose x = (x', e) -> Good x e x'.
Proof.
  intros W H. unfold cclose in H. destruct (c_closing (cs x)) eqn:C; inversion H; subst.
  - apply Good_refl, W.
  - apply Good_same; cbn; auto.
Qed.

Lemma aux_op_good x o x' e : wf x -> aux_op x o = (x', e) -> Good x e x'.
Proof.
  intros W H. unfold aux_op in H.
  destruct (c_closing (cs x) || negb (c_fd (cs x))); [inversion H; subst; apply Good_refl, W|].
  destruct o; try (inversion H; subst; apply Good_refl, W).
  - destruct (negb (wr_is (a_wr (cax x))) || negb (pending (cs x) || a_cn (cax x))); [inversion H; subst; apply Good_refl, W|].
    destruct (pending (cs x)); [inversion H; subst; apply Good_same; cbn; auto|].
    destruct (Nat.eqb (a_wq (cax x)) 0); inversion H; subst; apply Good_same; cbn; auto.
  - destruct (negb (wr_is (a_wr (cax x))) || a_sh (cax x)); [inversion H; subst; apply Good_refl, W|].
    inversion H; subst. destruct (negb (pending (cs x)) && Nat.eqb (a_wq (cax x)) 0); apply Good_same; cbn; auto.
  - destruct (pending (cs x)); inversion H; subst; [apply Good_refl, W|apply Good_same; cbn; auto].
Qed.

Lemma cexec_simple_good x o x' e : wf x -> cexec_simple x o = (x', e) -> Good x e x'.
Proof.
  intros W H. unfold cexec_simple in H.
  destruct o; try (eapply aux_op_good; eassumption); try (eapply cclose_good; eassumption);
    try (destruct (c_closing (cs x) || negb (c_fd (cs x)) || negb (pending (cs x))); inversion H; subst;
         [apply Good_refl, W|apply Good_event; [exact I|exact W]]);
    try (inversion H; subst; apply Good_refl, W);
    (destruct (c_closing (cs x)) eqn:C; [inversion H; subst; apply Good_refl, W|]);
    (destruct (c_tcp (cs x)) eqn:T; cbn [andb] in H; try (inversion H; subst; apply Good_refl, W)).
  - eapply tcp_connect_good; eauto.
  - destruct (negb (pending (cs x))); [eapply bind_busy_good; eauto|inversion H; subst; apply Good_refl, W].
  - destruct (negb (pending (cs x))); [eapply bind_busy_good; eauto|inversion H; subst; apply Good_refl, W].
  - eapply pipe_connect_good; eauto.
  - eapply pipe_connect2_good; eauto.
Qed.

Lemma cexec_cb_good os : forall x x' e, wf x -> cexec_cb x os = (x', e) -> Good x e x'.
Proof.
  induction os as [|o r IH]; intros x x' e W H; cbn [cexec_cb] in H.
  - inversion H; subst. apply Good_refl, W.
  - destruct (cexec_simple x o) as [x1 e1] eqn:E1. destruct (cexec_cb x1 r) as [x2 e2] eqn:E2.
    inversion H; subst. pose proof (cexec_simple_good _ _ _ _ W E1) as G1.
    eapply Good_trans; [exact G1|]. change (CReg (creg x1) :: e2) with ([CReg (creg x1)] ++ e2).
    eapply Good_trans; [apply Good_event; [exact I|apply (g_wf _ _ _ _ _ G1)]|].
    apply IH; [apply (g_wf _ _ _ _ _ G1)|exact E2].
Qed.

Lemma run_cb_good x beh x' e : wf x -> run_cb x beh = (x', e) -> Good x e x'.
Proof.
  intros W H. unfold run_cb in H.
  assert (W' : wf (mkCs (cs x) (co x) (nreq x) (S (ccbn x)) (cchain x) (cpfix x) (creg x) (cax x))) by exact W.
  pose proof (cexec_cb_good _ _ _ _ W' H) as G.
  replace e with ([] ++ e) by reflexivity. eapply Good_trans; [|exact G].
  apply Good_same; cbn; auto.
Qed.

Lemma reject_good beh st src ch : forall x x' e,
  wf x -> (forall q, status_ok (CCb q st src)) -> reject ch st src x beh = (x', e) -> GoodD ch [] x e x'.
Proof.
  induction ch as [|q t IH]; intros x x' e W S H; cbn [reject] in H.
  - inversion H; subst. apply Good_refl, W.
  - match type of H with (let (_, _) := run_cb ?y beh in _) = _ => destruct (run_cb y beh) as [x1 e1] eqn:E1 end.
    destruct (reject t st src x1 beh) as [x2 e2] eqn:E2.
    pose proof (Good_reject1 x q t st src W (S q)) as G0.
    pose proof (run_cb_good _ _ _ _ (g_wf _ _ _ _ _ G0) E1) as G1.
    pose proof (IH _ _ _ (g_wf _ _ _ _ _ G1) S E2) as G2.
    pose proof (Good_trans _ _ _ _ _ _ _ _ G0
                  (Good_trans _ _ _ _ _ _ _ _ (Good_frame t _ _ _ _ _ G1) G2)) as G.
    inversion H; subst. exact G.
Qed.

Lemma run_cb_w_good x beh x' e : wf x -> run_cb_w x beh = (x', e) -> Good x e x'.
Proof.
  intros W H. unfold run_cb_w in H.
  assert (W' : wf (mkCs (cs x) (co x) (nreq x) (S (ccbn x)) (cchain x) (cpfix x) (creg x) (cax x))) by exact W.
  pose proof (cexec_cb_good _ _ _ _ W' H) as G.
  replace e with ([] ++ e) by reflexivity. eapply Good_trans; [|exact G].
  apply Good_same; cbn; auto.
Qed.

Lemma write_cbs_good beh n : forall x x' e, wf x -> write_cbs n x beh = (x', e) -> Good x e x'.
Proof.
  induction n as [|n IH]; intros x x' e W H; cbn [write_cbs] in H.
  - inversion H; subst. apply Good_refl, W.
  - destruct (run_cb_w x beh) as [x1 e1] eqn:E1. destruct (write_cbs n x1 beh) as [x2 e2] eqn:E2.
    inversion H; subst. change (CWcb :: e1 ++ e2) with ([CWcb] ++ e1 ++ e2).
    eapply Good_trans; [apply Good_event; [exact I|exact W]|].
    pose proof (run_cb_w_good _ _ _ _ W E1) as G1.
    eapply Good_trans; [exact G1|]. apply IH; [apply (g_wf _ _ _ _ _ G1)|exact E2].
Qed.

Lemma flush_cbs_good x beh x' e : wf x -> flush_cbs x beh = (x', e) -> Good x e x'.
Proof.
  intros W H. unfold flush_cbs in H.
  replace e with ([] ++ e) by reflexivity. eapply Good_trans; [|eapply write_cbs_good; [|exact H]; exact W].
  apply Good_same; cbn; auto.
Qed.

Lemma drain_if_idle_good x x' e : wf x -> drain_if_idle x = (x', e) -> Good x e x'.
Proof.
  intros W H. unfold drain_if_idle in H.
  destruct (negb (pending (cs x)) && Nat.eqb (a_wq (cax x)) 0 && Nat.eqb (a_wc (cax x)) 0);
    [|inversion H; subst; apply Good_refl, W].
  inversion H; subst.
  match goal with |- GoodD [] [] x ?ev ?y => assert (G1 : Good x [] y) by (apply Good_same; cbn; auto) end.
  destruct (a_sh (cax x)).
  - replace [CScb] with ([] ++ [CScb]) by reflexivity. eapply Good_trans; [exact G1|].
    apply Good_event; [exact I|apply (g_wf _ _ _ _ _ G1)].
  - exact G1.
Qed.

Lemma after_failed_good b x beh x' e : wf x -> after_failed_connect b x beh = (x', e) -> Good x e x'.
Proof.
  intros W H. unfold after_failed_connect in H. destruct (b && c_fd (cs x)).
  2: { destruct (negb b && c_fd (cs x) && negb (Nat.eqb (a_wc (cax x)) 0)); inversion H; subst;
       [apply Good_same; cbn; auto|apply Good_refl, W]. }
  destruct (flush_cbs x beh) as [x1 e1] eqn:E1. pose proof (flush_cbs_good _ _ _ _ W E1) as G1.
  destruct (a_sh (cax x1) && c_fd (cs x1)); [|inversion H; subst; exact G1].
  destruct (drain_if_idle x1) as [x2 e2] eqn:E2. inversion H; subst.
  eapply Good_trans; [exact G1|]. eapply drain_if_idle_good; [apply (g_wf _ _ _ _ _ G1)|exact E2].
Qed.

Lemma stream_connect_good x beh x' e : wf x -> stream_connect x beh = (x', e) -> Good x e x'.
Proof.
  intros W H. unfold stream_connect in H. destruct (c_req (cs x)) as [r|] eqn:R.
  2: { inversion H; subst. apply Good_refl, W. }
  assert (Step : forall (error : Z) (src : csrc) (s1 : cstream) (o' : corc) (po : bool) (ax : aux),
     c_tcp s1 = c_tcp (cs x) -> c_req s1 = c_req (cs x) -> c_closing s1 = c_closing (cs x) ->
     c_closed s1 = c_closed (cs x) -> status_ok (CCb r error src) ->
     (if error =? UV_EINPROGRESS then (mkCs s1 o' (nreq x) (ccbn x) (cchain x) (cpfix x) (creg x) (cax x), [])
      else let (x1, e1) := run_cb (mkCs (mkC (c_tcp s1) (c_fd s1) None (c_delayed s1) po (c_fed s1)
                                             (c_closing s1) (c_closed s1))
                                        o' (nreq x) (ccbn x) [] (cpfix x) (pred (creg x)) ax) beh in
           let (x2, e2) := reject (cchain x) UV_EALREADY SrcRejected x1 beh in
           let (x3, e3) := after_failed_connect (error <? 0) x2 beh in
           (x3, CCb r error src ::
                (if error =? 0 then [CUsable (match a_wr (cax x) with Some false => false | _ => true end)] else [])
                ++ e1 ++ e2 ++ e3)) = (x', e) ->
     Good x e x').
  { intros error src s1 o' po ax T1 T2 T3 T4 St H'.
    destruct (error =? UV_EINPROGRESS).
    - inversion H'; subst. apply Good_same; cbn; auto; congruence.
    - destruct (run_cb (mkCs (mkC (c_tcp s1) (c_fd s1) None (c_delayed s1) po (c_fed s1)
                                  (c_closing s1) (c_closed s1)) o' (nreq x) (ccbn x) [] (cpfix x) (pred (creg x)) ax) beh)
        as [x1 e1] eqn:Er.
      destruct (reject (cchain x) UV_EALREADY SrcRejected x1 beh) as [x2 e2] eqn:Ej.
      destruct (after_failed_connect (error <? 0) x2 beh) as [x3 e3] eqn:Ea.
      assert (G1 : GoodD [] (cchain x) x [CCb r error src]
                 (mkCs (mkC (c_tcp s1) (c_fd s1) None (c_delayed s1) po (c_fed s1)
                            (c_closing s1) (c_closed s1)) o' (nreq x) (ccbn x) [] (cpfix x) (pred (creg x)) ax)).
      { apply Good_cb; cbn; auto; try congruence.
        destruct W as (_ & W2 & _). rewrite T4, T3. intros Hd. apply (W2 Hd). }
      set (FL := (if error =? 0 then [CUsable (match a_wr (cax x) with Some false => false | _ => true end)] else [])) in *.
      assert (GF : GoodD (cchain x) (cchain x) (mkCs (mkC (c_tcp s1) (c_fd s1) None (c_delayed s1) po (c_fed s1)
                            (c_closing s1) (c_closed s1)) o' (nreq x) (ccbn x) [] (cpfix x) (pred (creg x)) ax) FL
                         (mkCs (mkC (c_tcp s1) (c_fd s1) None (c_delayed s1) po (c_fed s1)
                            (c_closing s1) (c_closed s1)) o' (nreq x) (ccbn x) [] (cpfix x) (pred (creg x)) ax)).
      { subst FL. destruct (error =? 0).
        - apply (Good_frame (cchain x) [] []). apply Good_event; [exact I|apply (g_wf _ _ _ _ _ G1)].
        - apply (Good_frame (cchain x) [] []). apply Good_refl, (g_wf _ _ _ _ _ G1). }
      pose proof (run_cb_good _ _ _ _ (g_wf _ _ _ _ _ G1) Er) as G2.
      assert (G3 : GoodD (cchain x) [] x1 e2 x2).
      { eapply reject_good; [apply (g_wf _ _ _ _ _ G2)| |exact Ej]. intros q. reflexivity. }
      pose proof (after_failed_good _ _ _ _ _ (g_wf _ _ _ _ _ G3) Ea) as G4.
      pose proof (Good_trans _ _ _ _ _ _ _ _ G1
                    (Good_trans _ _ _ _ _ _ _ _ GF
                       (Good_trans _ _ _ _ _ _ _ _ (Good_frame (cchain x) _ _ _ _ _ G2)
                          (Good_trans _ _ _ _ _ _ _ _ G3 G4)))) as G.
      cbn [app] in G.
      inversion H'; subst. exact G. }
  cbv zeta in H.
  destruct (Z.eqb_spec (c_delayed (cs x)) 0) as [Ed|Ed]; cbn [negb] in H.
  - destruct (next_z (o_so (co x))) as [er so'] eqn:En. eapply Step; [..|exact H]; auto. exact I.
  - eapply Step; [..|exact H]; cbn; auto.
Qed.

Lemma stream_io_good x beh x' e : wf x -> stream_io x beh = (x', e) -> Good x e x'.
Proof.
  intros W H. unfold stream_io in H. destruct (c_req (cs x)) eqn:R.
  - eapply stream_connect_good; eauto.
  - cbv zeta in H.
    match type of H with (let (_, _) := flush_cbs ?y beh in _) = _ =>
      assert (G0 : Good x [] y) by (apply Good_same; cbn; auto);
      destruct (flush_cbs y beh) as [x1 e1] eqn:E1 end.
    pose proof (flush_cbs_good _ _ _ _ (g_wf _ _ _ _ _ G0) E1) as G1.
    destruct (drain_if_idle x1) as [x2 e2] eqn:E2. inversion H; subst.
    replace (e1 ++ e2) with ([] ++ e1 ++ e2) by reflexivity.
    eapply Good_trans; [exact G0|]. eapply Good_trans; [exact G1|].
    eapply drain_if_idle_good; [apply (g_wf _ _ _ _ _ G1)|exact E2].
Qed.

Lemma unfeed_good x : wf x -> Good x [] (unfeed x).
Proof. intros W. apply Good_same; cbn; auto. Qed.

Lemma run_pending_good x beh x' e : wf x -> run_pending x beh = (x', e) -> Good x e x'.
Proof.
  intros W H. unfold run_pending in H. destruct (c_fed (cs x)).
  - replace e with ([] ++ e) by reflexivity. eapply Good_trans; [apply unfeed_good, W|].
    eapply stream_io_good; [apply (g_wf _ _ _ _ _ (unfeed_good x W))|exact H].
  - inversion H; subst. apply Good_refl, W.
Qed.

Lemma drain_good beh n : forall x x' e, wf x -> drain n x beh = (x', e) -> Good x e x'.
Proof.
  induction n as [|n IH]; intros x x' e W H; cbn [drain] in H.
  - inversion H; subst. apply Good_refl, W.
  - destruct (c_fed (cs x)); [|inversion H; subst; apply Good_refl, W].
    destruct (stream_io (unfeed x) beh) as [x1 e1] eqn:E1.
    destruct (drain n x1 beh) as [x2 e2] eqn:E2. inversion H; subst.
    pose proof (stream_io_good _ _ _ _ (g_wf _ _ _ _ _ (unfeed_good x W)) E1) as G1.
    replace (e1 ++ e2) with ([] ++ e1 ++ e2) by reflexivity.
    eapply Good_trans; [apply unfeed_good, W|]. eapply Good_trans; [exact G1|].
    apply IH; [apply (g_wf _ _ _ _ _ G1)|exact E2].
Qed.

Lemma Good_event_closed x : wf x -> Good x [CClosed] x.
Proof. intros W. apply Good_event; [exact I|exact W]. Qed.

Lemma destroy_good x beh x' e : wf x -> destroy x beh = (x', e) -> Good x e x'.
Proof.
  intros W H. unfold destroy in H.
  assert (Part : exists x2 ec,
     match c_req (cs x) with
     | Some r => let (x1, e1) := run_cb (mkCs (mkC (c_tcp (cs x)) (c_fd (cs x)) None (c_delayed (cs x)) (c_pollout (cs x))
                                                  (c_fed (cs x)) true true)
                                             (co x) (nreq x) (ccbn x) [] (cpfix x) (pred (creg x)) (cax x)) beh in
                 let (x2, e2) := reject (cchain x) UV_ECANCELED SrcCancel x1 beh in
                 (x2, CCb r UV_ECANCELED SrcCancel :: e1 ++ e2)
     | None => (mkCs (mkC (c_tcp (cs x)) (c_fd (cs x)) None (c_delayed (cs x)) (c_pollout (cs x)) (c_fed (cs x)) true true)
                     (co x) (nreq x) (ccbn x) (cchain x) (cpfix x) (creg x) (cax x), [])
     end = (x2, ec) /\ Good x ec x2).
  { destruct (c_req (cs x)) as [r|] eqn:R.
    - match goal with |- context [run_cb ?y beh] => destruct (run_cb y beh) as [x1 e1] eqn:Er end.
      destruct (reject (cchain x) UV_ECANCELED SrcCancel x1 beh) as [x2 e2] eqn:Ej.
      exists x2, (CCb r UV_ECANCELED SrcCancel :: e1 ++ e2). split; [reflexivity|].
      match type of Er with run_cb ?y beh = _ =>
        assert (G1 : GoodD [] (cchain x) x [CCb r UV_ECANCELED SrcCancel] y) by (apply Good_cb; cbn; auto) end.
      pose proof (run_cb_good _ _ _ _ (g_wf _ _ _ _ _ G1) Er) as G2.
      assert (G3 : GoodD (cchain x) [] x1 e2 x2).
      { eapply reject_good; [apply (g_wf _ _ _ _ _ G2)| |exact Ej]. intros q. reflexivity. }
      exact (Good_trans _ _ _ _ _ _ _ _ G1
               (Good_trans _ _ _ _ _ _ _ _ (Good_frame (cchain x) _ _ _ _ _ G2) G3)).
    - eexists _, _. split; [reflexivity|].
      destruct W as (W1 & W2 & W3 & W4).
      match goal with |- GoodD [] [] x [] ?y => assert (W' : wf y) end.
      { unfold wf; cbn. repeat split; auto; try discriminate; try (apply W3, R). }
      constructor; auto; try (cbn; constructor); try lia.
      + intros q. unfold pend; cbn. rewrite R. reflexivity.
      + unfold pendn in *; cbn in *. rewrite R in *. lia.
      + unfold pendn in *; cbn in *. rewrite R in *. lia. }
  destruct Part as (x2 & ec & Ep & G12). rewrite Ep in H.
  destruct (flush_cbs x2 beh) as [x3 e3] eqn:E3.
  pose proof (flush_cbs_good _ _ _ _ (g_wf _ _ _ _ _ G12) E3) as G3.
  inversion H; subst.
  match goal with |- GoodD [] [] x _ ?y => assert (G4 : Good x3 [] y) by (apply Good_same; cbn; auto; apply (g_wf _ _ _ _ _ G3)) end.
  eapply Good_trans; [exact G12|]. eapply Good_trans; [exact G3|].
  replace ((if a_sh (cax x3) then [CScb] else []) ++ [CClosed])
    with ([] ++ (if a_sh (cax x3) then [CScb] else []) ++ [CClosed]) by reflexivity.
  eapply Good_trans; [exact G4|].
  destruct (a_sh (cax x3)).
  - eapply Good_trans; [apply Good_event; [exact I|apply (g_wf _ _ _ _ _ G4)]|].
    apply Good_event; [exact I|apply (g_wf _ _ _ _ _ G4)].
  - apply Good_event; [exact I|apply (g_wf _ _ _ _ _ G4)].
Qed.

Lemma run_iter_good x beh x' e : wf x -> run_iter x beh = (x', e) -> Good x e x'.
Proof.
  intros W H. unfold run_iter in H.
  destruct (next_b (o_ready (co x))) as [rdy rd'].
  match type of H with (let (_, _) := run_pending ?y beh in _) = _ =>
    assert (G0 : Good x [] y) by (apply Good_same; cbn; auto);
    destruct (run_pending y beh) as [x1 e1] eqn:E1 end.
  pose proof (run_pending_good _ _ _ _ (g_wf _ _ _ _ _ G0) E1) as G1.
  match type of H with (let (_, _) := ?t in _) = _ => destruct t as [x2 e2] eqn:E2 end.
  assert (G2 : Good x1 e2 x2).
  { destruct (c_pollout (cs x1) && rdy && negb (c_closing (cs x1))).
    - eapply stream_io_good; [apply (g_wf _ _ _ _ _ G1)|exact E2].
    - inversion E2; subst. apply Good_refl, (g_wf _ _ _ _ _ G1). }
  destruct (drain 8 x2 beh) as [x3 e3] eqn:E3.
  pose proof (drain_good _ _ _ _ _ (g_wf _ _ _ _ _ G2) E3) as G3.
  match type of H with (let (_, _) := ?t in _) = _ => destruct t as [x4 e4] eqn:E4 end.
  assert (G4 : Good x3 e4 x4).
  { destruct (c_closing (cs x3) && negb (c_closed (cs x3))).
    - eapply destroy_good; [apply (g_wf _ _ _ _ _ G3)|exact E4].
    - inversion E4; subst. apply Good_refl, (g_wf _ _ _ _ _ G3). }
  inversion H; subst. replace (e1 ++ e2 ++ e3 ++ e4) with ([] ++ e1 ++ e2 ++ e3 ++ e4) by reflexivity.
  eapply Good_trans; [exact G0|]. eapply Good_trans; [exact G1|].
  eapply Good_trans; [exact G2|]. eapply Good_trans; [exact G3|exact G4].
Qed.

Lemma cstep_good x o beh x' e : wf x -> cstep x o beh = (x', e) -> Good x e x'.
Proof.
  intros W H. destruct o; cbn [cstep] in H; try (eapply cexec_simple_good; eassumption).
  eapply run_iter_good; eassumption.
Qed.

Lemma crun_good beh os : forall x x' e, wf x -> crun x os beh = (x', e) -> Good x e x'.
Proof.
  induction os as [|o r IH]; intros x x' e W H; cbn [crun] in H.
  - inversion H; subst. apply Good_refl, W.
  - destruct (cstep x o beh) as [x1 e1] eqn:E1. destruct (crun x1 r beh) as [x2 e2] eqn:E2.
    inversion H; subst. pose proof (cstep_good _ _ _ _ _ W E1) as G1.
    eapply Good_trans; [exact G1|]. change (CReg (creg x1) :: e2) with ([CReg (creg x1)] ++ e2).
    eapply Good_trans; [apply Good_event; [exact I|apply (g_wf _ _ _ _ _ G1)]|].
    apply IH; [apply (g_wf _ _ _ _ _ G1)|exact E2].
Qed.

Lemma cinit_wf pfix tcp o : wf (cinit pfix tcp o).
Proof. unfold wf; cbn. repeat split; auto; discriminate. Qed.

(* ---- top level ---- *)
Lemma subs_in_rets t r : In r (subs t) -> In r (rets t).
Proof.
  induction t as [|e t IH]; cbn; [auto|]. destruct e; cbn; auto.
  destruct (c =? 0); cbn; [intros [H|H]; auto|auto].
Qed.

Lemma subs_nodup t : NoDup (rets t) -> NoDup (subs t).
Proof.
  induction t as [|e t IH]; cbn; intros N; [constructor|]. destruct e; cbn in *; auto.
  inversion N as [|? ? Hn N']; subst. destruct (c =? 0); cbn; [|auto].
  constructor; [|auto]. intros H. apply Hn, subs_in_rets, H.
Qed.

Lemma ret0_in_subs t r : In (CRet r 0) t -> In r (subs t).
Proof.
  intros H. unfold subs. apply in_flat_map. exists (CRet r 0). split; [exact H|]. cbn. left; reflexivity.
Qed.

(* every request whose submitting call returned 0 is in exactly one of three
   states: called back once, still owed its callback (connect_req or linked behind it),
   or overwritten (unrepaired pipe code only) *)
Theorem connect_counting pfix tcp o os beh :
  let '(x, tr) := crun (cinit pfix tcp o) os beh in
  wf x /\ Forall status_ok tr /\ (tcp = true \/ pfix = true -> losts tr = []) /\
  forall r, In (CRet r 0) tr -> (cnt (cbs tr) r + cnt (losts tr) r + pend x r = 1)%nat.
Proof.
  destruct (crun (cinit pfix tcp o) os beh) as [x tr] eqn:E.
  pose proof (crun_good _ _ _ _ _ (cinit_wf pfix tcp o) E) as G.
  split; [apply (g_wf _ _ _ _ _ G)|]. split; [apply (g_st _ _ _ _ _ G)|].
  split; [apply (g_lost _ _ _ _ _ G)|].
  intros r Hr. pose proof (g_cnt _ _ _ _ _ G r) as C. rewrite !cnt_nil in C.
  unfold pend at 2 in C. cbn in C. rewrite !Nat.add_0_r in C. rewrite C.
  apply (proj1 (NoDup_count_occ' Nat.eq_dec (subs tr))).
  - apply subs_nodup, (g_nodup _ _ _ _ _ G).
  - apply ret0_in_subs, Hr.
Qed.

Lemma crun_app beh a : forall x b,
  crun x (a ++ b) beh = let (x1, e1) := crun x a beh in let (x2, e2) := crun x1 b beh in (x2, e1 ++ e2).
Proof.
  induction a as [|o a IH]; intros x b; cbn [app crun].
  - destruct (crun x b beh); reflexivity.
  - destruct (cstep x o beh) as [x1 e1]. rewrite IH. destruct (crun x1 a beh) as [x2 e2].
    destruct (crun x2 b beh) as [x3 e3]. rewrite <- app_assoc. reflexivity.
Qed.

Lemma destroy_closed x beh : wf x -> c_closed (cs (fst (destroy x beh))) = true.
Proof.
  intros W. unfold destroy. destruct (c_req (cs x)) as [r|] eqn:R.
  - match goal with |- context [run_cb ?y beh] =>
      assert (G1 : GoodD [] (cchain x) x [CCb r UV_ECANCELED SrcCancel] y) by (apply Good_cb; cbn; auto);
      destruct (run_cb y beh) as [x1 e1] eqn:Er end.
    pose proof (run_cb_good _ _ _ _ (g_wf _ _ _ _ _ G1) Er) as G2.
    destruct (reject (cchain x) UV_ECANCELED SrcCancel x1 beh) as [x2 e2] eqn:Ej.
    assert (G3 : GoodD (cchain x) [] x1 e2 x2).
    { exact (reject_good beh UV_ECANCELED SrcCancel (cchain x) x1 x2 e2 (g_wf _ _ _ _ _ G2) (fun q => eq_refl) Ej). }
    destruct (flush_cbs x2 beh) as [x3 e3] eqn:E3.
    pose proof (flush_cbs_good _ _ _ _ (g_wf _ _ _ _ _ G3) E3) as G4.
    cbn [fst cs]. apply (g_closed _ _ _ _ _ G4), (g_closed _ _ _ _ _ G3), (g_closed _ _ _ _ _ G2). reflexivity.
  - match goal with |- context [flush_cbs ?y beh] =>
      assert (Wy : wf y) by (destruct W as (W1 & W2 & W3 & W4); unfold wf; cbn; repeat split; auto; try discriminate; try (apply W3, R));
      destruct (flush_cbs y beh) as [x3 e3] eqn:E3 end.
    pose proof (flush_cbs_good _ _ _ _ Wy E3) as G4.
    cbn [fst cs]. apply (g_closed _ _ _ _ _ G4). reflexivity.
Qed.

Lemma run_iter_closes x beh :
  wf x -> c_closing (cs x) = true -> c_closed (cs (fst (run_iter x beh))) = true.
Proof.
  intros W Hc. unfold run_iter.
  destruct (next_b (o_ready (co x))) as [rdy rd'].
  match goal with |- context [run_pending ?y beh] =>
    assert (G0 : Good x [] y) by (apply Good_same; cbn; auto);
    destruct (run_pending y beh) as [x1 e1] eqn:E1 end.
  pose proof (run_pending_good _ _ _ _ (g_wf _ _ _ _ _ G0) E1) as G1.
  match goal with |- context [let (_, _) := ?t in _] => destruct t as [x2 e2] eqn:E2 end.
  assert (G2 : Good x1 e2 x2).
  { destruct (c_pollout (cs x1) && rdy && negb (c_closing (cs x1))).
    - eapply stream_io_good; [apply (g_wf _ _ _ _ _ G1)|exact E2].
    - inversion E2; subst. apply Good_refl, (g_wf _ _ _ _ _ G1). }
  destruct (drain 8 x2 beh) as [x3 e3] eqn:E3.
  pose proof (drain_good _ _ _ _ _ (g_wf _ _ _ _ _ G2) E3) as G3.
  assert (C3 : c_closing (cs x3) = true).
  { apply (g_closing _ _ _ _ _ G3), (g_closing _ _ _ _ _ G2), (g_closing _ _ _ _ _ G1),
      (g_closing _ _ _ _ _ G0), Hc. }
  rewrite C3. cbn [andb]. destruct (c_closed (cs x3)) eqn:D3; cbn [negb].
  - cbn [fst]. exact D3.
  - pose proof (destroy_closed x3 beh (g_wf _ _ _ _ _ G3)) as D. destruct (destroy x3 beh). exact D.
Qed.

(* C07_connect_once: after the handle has been closed and the loop has run once more,
   every request accepted with 0 that was not overwritten got exactly one callback; nothing
   is overwritten on tcp handles, nor on pipes in the repaired variant *)
Theorem connect_once pfix tcp o os beh :
  let '(x, tr) := crun (cinit pfix tcp o) (os ++ [CClose; CRun]) beh in
  c_closed (cs x) = true /\ c_req (cs x) = None /\ cchain x = [] /\
  (tcp = true \/ pfix = true -> losts tr = []) /\
  forall r, In (CRet r 0) tr -> ~ In r (losts tr) -> cnt (cbs tr) r = 1%nat.
Proof.
  pose proof (connect_counting pfix tcp o (os ++ [CClose; CRun]) beh) as H.
  rewrite crun_app in *.
  destruct (crun (cinit pfix tcp o) os beh) as [x1 e1] eqn:E1.
  pose proof (crun_good _ _ _ _ _ (cinit_wf pfix tcp o) E1) as G1.
  cbn [crun cstep] in *.
  destruct (cexec_simple x1 CClose) as [x2 e2] eqn:E2.
  pose proof (cexec_simple_good _ _ _ _ (g_wf _ _ _ _ _ G1) E2) as G2.
  assert (C2 : c_closing (cs x2) = true).
  { cbn in E2. unfold cclose in E2. destruct (c_closing (cs x1)) eqn:C; inversion E2; subst; auto. }
  pose proof (run_iter_closes x2 beh (g_wf _ _ _ _ _ G2) C2) as D.
  destruct (run_iter x2 beh) as [x3 e3]. cbn [fst] in D.
  destruct H as (W & _ & L & Hc).
  assert (R : c_req (cs x3) = None) by (destruct W as (_ & W2 & _); apply (W2 D)).
  assert (Ch : cchain x3 = []) by (destruct W as (_ & _ & W3 & _); apply (W3 R)).
  split; [exact D|]. split; [exact R|]. split; [exact Ch|]. split; [exact L|].
  intros r Hr Hl. specialize (Hc r Hr). unfold pend in Hc. rewrite R, Ch in Hc. cbn in Hc.
  unfold cnt in *. rewrite (proj1 (count_occ_not_In Nat.eq_dec _ _) Hl) in Hc. lia.
Qed.

(* the unrepaired pipe code: the first of two uv_pipe_connect2 calls never completes *)
Lemma connect_once_refuted :
  exists o os beh r,
    let '(x, tr) := crun (cinit false false o) (os ++ [CClose; CRun]) beh in
    In (CRet r 0) tr /\ c_closed (cs x) = true /\ cnt (cbs tr) r = 0%nat.
Proof.
  exists (mkO [] [0; -2] [] []), [CPipe2 0 40 false; CPipe2 0 40 false; CRun], (fun _ => []), 0%nat.
  vm_compute. repeat split. left; reflexivity.
Qed.

(* status: a callback with status 0 can only come from an SO_ERROR answer of 0 *)
Lemma status_zero_from_oracle pfix tcp o os beh r src :
  In (CCb r 0 src) (snd (crun (cinit pfix tcp o) os beh)) -> src = SrcSo.
Proof.
  intros H. pose proof (connect_counting pfix tcp o os beh) as C.
  destruct (crun (cinit pfix tcp o) os beh) as [x tr]. destruct C as (_ & S & _).
  rewrite Forall_forall in S. specialize (S _ H). cbn in *.
  destruct src; [reflexivity|contradiction| |]; unfold UV_ECANCELED, UV_EALREADY in S; discriminate.
Qed.

(* ... and an SO_ERROR answer of 0 (no delayed error) completes the request with 0 *)
Lemma established_status_zero x beh r rest :
  c_req (cs x) = Some r -> c_delayed (cs x) = 0 -> o_so (co x) = 0 :: rest ->
  exists e, snd (stream_connect x beh) = CCb r 0 SrcSo :: e.
Proof.
  intros R D O. unfold stream_connect. rewrite R, D, O. cbn -[after_failed_connect].
  match goal with |- context [run_cb ?y beh] => destruct (run_cb y beh) as [x1 e1] end.
  match goal with |- context [reject ?c ?s ?k ?y beh] => destruct (reject c s k y beh) as [x2 e2] end.
  match goal with |- context [after_failed_connect ?b ?y beh] => destruct (after_failed_connect b y beh) as [x3 e3] end.
  cbn. eexists; reflexivity.
Qed.

(* close before completion: the request is completed with UV_ECANCELED by the
   next loop iteration *)
Lemma close_cancels x beh r :
  wf x -> c_closing (cs x) = false -> c_req (cs x) = Some r ->
  exists e, snd (crun x [CClose; CRun] beh) = CReg (creg x) :: CCb r UV_ECANCELED SrcCancel :: e.
Proof.
  intros W Hc R. pose proof (wf_not_closed x W Hc) as Hd.
  cbn [crun cstep cexec_simple]. unfold cclose. rewrite Hc. cbn [app].
  unfold run_iter. cbn [co cs upd_s o_ready].
  destruct (next_b (o_ready (co x))) as [rdy rd'].
  unfold run_pending. cbn [cs c_fed c_pollout c_closing andb negb].
  cbn [drain cs c_fed]. cbn [c_closing c_closed]. rewrite Hd. cbn [negb andb].
  unfold destroy. cbn [cs c_req upd_s]. rewrite R.
  match goal with |- context [run_cb ?y beh] => destruct (run_cb y beh) as [x1 e1] end.
  match goal with |- context [reject ?c ?s ?k ?y beh] => destruct (reject c s k y beh) as [x2 e2] end.
  match goal with |- context [flush_cbs ?y beh] => destruct (flush_cbs y beh) as [x3 e3] end.
  cbn. eexists; reflexivity.
Qed.

(* ---- request accounting (loop->active_reqs.count) ---- *)
(* in every reachable state the number of registrations = accepted connects not yet
   called back = requests owed a callback (connect_req and those linked behind it) plus
   the overwritten ones; nothing is ever overwritten on tcp handles or in the repaired
   pipe variant *)
Theorem connect_accounting pfix tcp o os beh :
  let '(x, tr) := crun (cinit pfix tcp o) os beh in
  (creg x + length (cbs tr) = length (subs tr))%nat /\
  creg x = (pendn x + length (losts tr))%nat /\
  (tcp = true \/ pfix = true -> creg x = pendn x).
Proof.
  pose proof (connect_counting pfix tcp o os beh) as C.
  destruct (crun (cinit pfix tcp o) os beh) as [x tr] eqn:E.
  pose proof (crun_good _ _ _ _ _ (cinit_wf pfix tcp o) E) as G.
  destruct (g_reg _ _ _ _ _ G) as (_ & B & D); [cbn; lia|]. cbn in B, D.
  split; [lia|]. split; [lia|].
  intros H. destruct C as (_ & _ & L & _). rewrite (L H) in B. cbn in B. lia.
Qed.

(* ... and once everything is closed and the loop has run, nothing is registered (tcp,
   repaired pipes); in the unrepaired pipe code exactly the overwritten requests are *)
Theorem connect_accounting_end pfix tcp o os beh :
  let '(x, tr) := crun (cinit pfix tcp o) (os ++ [CClose; CRun]) beh in
  creg x = length (losts tr) /\ (tcp = true \/ pfix = true -> creg x = 0%nat).
Proof.
  pose proof (connect_once pfix tcp o os beh) as O.
  pose proof (connect_accounting pfix tcp o (os ++ [CClose; CRun]) beh) as A.
  destruct (crun (cinit pfix tcp o) (os ++ [CClose; CRun]) beh) as [x tr].
  destruct O as (_ & R & Ch & L & _). destruct A as (_ & A & _).
  unfold pendn in A. rewrite R, Ch in A. cbn in A. split; [exact A|].
  intros H. rewrite A, (L H). reflexivity.
Qed.

(* a connect call that returns an error registers nothing and leaves the pending request alone *)
Lemma failed_connect_registers_nothing x x' e r c :
  (tcp_connect x = (x', e) \/ exists f n z, pipe_connect2 x f n z = (x', e)) ->
  In (CRet r c) e -> c <> 0 ->
  creg x' = creg x /\ c_req (cs x') = c_req (cs x) /\ cchain x' = cchain x.
Proof.
  intros [H|(f & n & z & H)] Hin Hc.
  - unfold tcp_connect in H. destruct (c_req (cs x)) eqn:R.
    { inversion H; subst. cbn. auto. }
    destruct (c_delayed (cs x) =? 0); cbn [negb] in H.
    2: { inversion H; subst. destruct Hin as [Hin|[]]. inversion Hin; subst. exfalso; apply Hc; reflexivity. }
    destruct (if c_fd (cs x) then (0, o_sock (co x)) else next_z (o_sock (co x))) as [serr so'].
    destruct (negb (serr =? 0)); [inversion H; subst; cbn; auto|].
    destruct (connect_loop (o_conn (co x))) as [a cn'].
    destruct ((a =? 0) || (a =? UV_EINPROGRESS)).
    { inversion H; subst. destruct Hin as [Hin|[]]. inversion Hin; subst. exfalso; apply Hc; reflexivity. }
    destruct (a =? UV_ECONNREFUSED).
    { inversion H; subst. destruct Hin as [Hin|[]]. inversion Hin; subst. exfalso; apply Hc; reflexivity. }
    inversion H; subst. cbn. auto.
  - unfold pipe_connect2 in H. destruct (cpfix x && pending (cs x)).
    { inversion H; subst. cbn. auto. }
    destruct (pipe_connect2_body x f n z) as [[x1 e1] res] eqn:B.
    destruct (pipe_body_spec _ _ _ _ _ _ _ B) as (_ & _ & _ & _ & _ & _ & _ & R).
    destruct res as [err|].
    + destruct R as (-> & -> & _). inversion H; subst. cbn. auto.
    + destruct R as (_ & -> & _). inversion H; subst.
      apply in_app_or in Hin. destruct Hin as [Hin|[Hin|[]]].
      * unfold lost_of in Hin. destruct (c_req (cs x)); [destruct Hin as [Hin|[]]; discriminate|contradiction].
      * inversion Hin; subst. exfalso; apply Hc; reflexivity.
Qed.

(* ---- a stream whose connect completes with status 0 has been opened ---- *)
(* invariant: a pending request without a delayed error went through a connect(2) that
   was performed, and that path set READABLE | WRITABLE (maybe_new_socket for tcp;
   uv__stream_open for pipes, since ff67af1 also when the socket came from a failed attempt).
   Side condition on the oracle: socket(2) never fails with EINPROGRESS (a delayed
   EINPROGRESS would be swallowed by uv__stream_connect). *)
Definition noinp (v : Z) : Prop := v <> UV_EINPROGRESS.
Definition I5 (x : cst) : Prop :=
  (c_req (cs x) <> None -> c_delayed (cs x) = 0 -> a_wr (cax x) <> Some false) /\
  noinp (c_delayed (cs x)) /\ Forall noinp (o_sock (co x)).
Definition flag_ok (e : cev) : Prop := match e with CUsable b => b = true | _ => True end.
Definition P5 (x' : cst) (e : list cev) : Prop := I5 x' /\ Forall flag_ok e.

Lemma wr_on_ok w : wr_on w <> Some false.
Proof. destruct w; cbn; discriminate. Qed.

Lemma next_z_noinp l a r : Forall noinp l -> next_z l = (a, r) -> noinp a /\ Forall noinp r.
Proof.
  intros F H. destruct l; cbn in H; inversion H; subst.
  - split; [unfold noinp, UV_EINPROGRESS; lia|constructor].
  - inversion F; subst. split; assumption.
Qed.

Lemma P5_app x1 e1 x2 e2 : P5 x1 e1 -> P5 x2 e2 -> P5 x2 (e1 ++ e2).
Proof. intros (_ & F1) (I & F2). split; [exact I|apply Forall_app; split; assumption]. Qed.

Lemma I5_same x x' :
  I5 x -> c_req (cs x') = c_req (cs x) -> c_delayed (cs x') = c_delayed (cs x) -> a_wr (cax x') = a_wr (cax x) ->
  o_sock (co x') = o_sock (co x) -> I5 x'.
Proof. unfold I5. intros I R D W O. rewrite R, D, W, O. exact I. Qed.

Lemma P5_same x : I5 x -> P5 x [].
Proof. intros I. split; [exact I|constructor]. Qed.

Lemma tcp_connect_I5 x x' e : I5 x -> tcp_connect x = (x', e) -> P5 x' e.
Proof.
  intros (I1 & I2 & I3) H. unfold tcp_connect in H. destruct (c_req (cs x)) eqn:R.
  { inversion H; subst. split; [|repeat constructor]. unfold I5; cbn. rewrite R. auto. }
  destruct (Z.eqb_spec (c_delayed (cs x)) 0) as [D|D]; cbn [negb] in H.
  2: { inversion H; subst. split; [|repeat constructor]. unfold I5; cbn. repeat split; auto; try (intros _ D0; contradiction). }
  assert (S : exists serr so', (if c_fd (cs x) then (0, o_sock (co x)) else next_z (o_sock (co x))) = (serr, so')
                              /\ Forall noinp so').
  { destruct (c_fd (cs x)); [eexists _, _; split; [reflexivity|exact I3]|].
    destruct (next_z (o_sock (co x))) as [a r] eqn:E. destruct (next_z_noinp _ _ _ I3 E). eexists _, _; split; [reflexivity|assumption]. }
  destruct S as (serr & so' & Es & Fs). rewrite Es in H.
  destruct (negb (serr =? 0)).
  { inversion H; subst. split; [|repeat constructor]. unfold I5; cbn. rewrite R. repeat split; auto; try (intros C; contradiction). }
  destruct (connect_loop (o_conn (co x))) as [a cn'].
  destruct ((a =? 0) || (a =? UV_EINPROGRESS)).
  { inversion H; subst. split; [|repeat constructor]. unfold I5; cbn. repeat split; auto; try (intros; apply wr_on_ok). }
  destruct (a =? UV_ECONNREFUSED); inversion H; subst; (split; [|repeat constructor]); unfold I5; cbn.
  - repeat split; auto; [intros _ C; discriminate|unfold noinp; discriminate].
  - try rewrite R. repeat split; auto; try (intros C; contradiction).
Qed.

Lemma bind_busy_I5 b x x' e : I5 x -> c_req (cs x) = None -> bind_busy b x = (x', e) -> P5 x' e.
Proof.
  intros (I1 & I2 & I3) R H. unfold bind_busy in H.
  assert (S : exists serr so', (if c_fd (cs x) then (0, o_sock (co x)) else next_z (o_sock (co x))) = (serr, so')
                              /\ Forall noinp so').
  { destruct (c_fd (cs x)); [eexists _, _; split; [reflexivity|exact I3]|].
    destruct (next_z (o_sock (co x))) as [a r] eqn:E. destruct (next_z_noinp _ _ _ I3 E). eexists _, _; split; [reflexivity|assumption]. }
  destruct S as (serr & so' & Es & Fs). rewrite Es in H.
  destruct (negb (serr =? 0)); inversion H; subst; (split; [|repeat constructor]); unfold I5; cbn; rewrite R;
    repeat split; auto; try (intros C; contradiction).
  destruct b; unfold noinp; discriminate.
Qed.

Lemma pipe_body_I5 x flags n z x' e res :
  I5 x -> pipe_connect2_body x flags n z = (x', e, res) ->
  Forall flag_ok e /\ match res with Some _ => x' = x | None => I5 x' end.
Proof.
  intros (I1 & I2 & I3) H. unfold pipe_connect2_body in H.
  destruct (negb (Z.land flags (Z.lnot 1) =? 0)); [inversion H; subst; split; [constructor|reflexivity]|].
  destruct (Nat.eqb n 0); [inversion H; subst; split; [constructor|reflexivity]|].
  destruct z; [inversion H; subst; split; [constructor|reflexivity]|].
  destruct (negb (Z.land flags 1 =? 0) && Nat.ltb 108 n); [inversion H; subst; split; [constructor|reflexivity]|].
  assert (S : exists serr so', (if negb (c_fd (cs x)) then next_z (o_sock (co x)) else (0, o_sock (co x))) = (serr, so')
                              /\ noinp serr /\ Forall noinp so').
  { destruct (negb (c_fd (cs x))).
    - destruct (next_z (o_sock (co x))) as [a r] eqn:E. destruct (next_z_noinp _ _ _ I3 E).
      eexists _, _; split; [reflexivity|split; assumption].
    - eexists _, _; split; [reflexivity|split; [unfold noinp; discriminate|exact I3]]. }
  destruct S as (serr & so' & Es & Ns & Fs). rewrite Es in H.
  unfold pipe_out in H.
  destruct (Z.ltb_spec serr 0).
  { inversion H; subst. split; [destruct (c_req (cs x)); repeat constructor|].
    unfold I5; cbn. repeat split; auto; try (intros _ D; lia). }
  destruct (connect_loop (o_conn (co x))) as [a cn'].
  destruct ((a =? 0) || (a =? UV_EINPROGRESS)) eqn:Ea; inversion H; subst.
  - split; [destruct (c_req (cs x)); repeat constructor|]. unfold I5; cbn. repeat split; auto.
    + intros; apply wr_on_ok.
    + unfold noinp; discriminate.
  - split; [destruct (c_req (cs x)); repeat constructor|]. unfold I5; cbn. repeat split; auto.
    + intros _ D. subst a. discriminate Ea.
    + unfold noinp. intros D. subst a. rewrite orb_true_r in Ea. discriminate.
Qed.

Lemma pipe_connect2_I5 x flags n z x' e : I5 x -> pipe_connect2 x flags n z = (x', e) -> P5 x' e.
Proof.
  intros I H. unfold pipe_connect2 in H. destruct (cpfix x && pending (cs x)).
  { inversion H; subst. split; [eapply I5_same; eauto|repeat constructor]. }
  destruct (pipe_connect2_body x flags n z) as [[x1 e1] res] eqn:B.
  destruct (pipe_body_I5 _ _ _ _ _ _ _ I B) as (F & R).
  destruct res; inversion H; subst; (split; [|apply Forall_app; split; [exact F|repeat constructor]]).
  - eapply I5_same; eauto.
  - eapply I5_same; [exact R| | | |]; reflexivity.
Qed.

Lemma pipe_connect_I5 x n x' e : I5 x -> pipe_connect x n = (x', e) -> P5 x' e.
Proof.
  intros I H. unfold pipe_connect in H. destruct (cpfix x && pending (cs x)).
  { inversion H; subst. split; [eapply I5_same; eauto|repeat constructor]. }
  destruct (pipe_connect2_body x 0 n false) as [[x1 e1] res] eqn:B.
  destruct (pipe_body_I5 _ _ _ _ _ _ _ I B) as (F & R).
  destruct res as [err|].
  - subst x1. unfold pipe_out in H. inversion H; subst.
    split; [|apply Forall_app; split; [exact F|destruct (c_req (cs x)); repeat constructor]].
    (* the validation error (UV_EINVAL) becomes the delayed error *)
    assert (Herr : err = UV_EINVAL_).
    { unfold pipe_connect2_body in B. cbn in B. destruct (Nat.eqb n 0); [inversion B; reflexivity|].
      cbn in B. destruct (if negb (c_fd (cs x)) then next_z (o_sock (co x)) else (0, o_sock (co x))) as [serr so'].
      unfold pipe_out in B. destruct (serr <? 0); [inversion B|]. destruct (connect_loop (o_conn (co x))) as [a cn'].
      destruct ((a =? 0) || (a =? UV_EINPROGRESS)); inversion B. }
    destruct I as (I1 & I2 & I3). subst err. unfold I5; cbn. repeat split; auto.
    + intros _ D. discriminate.
    + unfold noinp; discriminate.
  - inversion H; subst. split; [eapply I5_same; [exact R| | | |]; reflexivity|].
    apply Forall_app; split; [exact F|repeat constructor].
Qed.

Lemma aux_op_I5 x o x' e : I5 x -> aux_op x o = (x', e) -> P5 x' e.
Proof.
  intros I H. unfold aux_op in H.
  destruct (c_closing (cs x) || negb (c_fd (cs x))); [inversion H; subst; apply P5_same, I|].
  destruct I as (I1 & I2 & I3).
  assert (Keep : forall s a, c_req s = c_req (cs x) -> c_delayed s = c_delayed (cs x) ->
            (a_wr a = a_wr (cax x) \/ a_wr a = None) ->
            P5 (mkCs s (co x) (nreq x) (ccbn x) (cchain x) (cpfix x) (creg x) a) []).
  { intros s a Rs Ds Wa. split; [|constructor]. unfold I5; cbn. rewrite Rs, Ds. repeat split; auto.
    intros C D. destruct Wa as [-> | ->]; [apply I1; assumption|discriminate]. }
  destruct o; try (inversion H; subst; apply P5_same; repeat split; assumption).
  - destruct (negb (wr_is (a_wr (cax x))) || negb (pending (cs x) || a_cn (cax x))); [inversion H; subst; apply P5_same; repeat split; assumption|].
    destruct (pending (cs x)); [inversion H; subst; apply Keep; auto|].
    destruct (Nat.eqb (a_wq (cax x)) 0); inversion H; subst; apply Keep; auto.
  - destruct (negb (wr_is (a_wr (cax x))) || a_sh (cax x)); [inversion H; subst; apply P5_same; repeat split; assumption|].
    inversion H; subst. destruct (negb (pending (cs x)) && Nat.eqb (a_wq (cax x)) 0); apply Keep; auto.
  - destruct (pending (cs x)); inversion H; subst; [apply P5_same; repeat split; assumption|apply Keep; auto].
Qed.

Lemma cexec_simple_I5 x o x' e : I5 x -> cexec_simple x o = (x', e) -> P5 x' e.
Proof.
  intros I H. unfold cexec_simple in H.
  assert (Same : (x, @nil cev) = (x', e) -> P5 x' e) by (intros E; inversion E; subst; apply P5_same, I).
  assert (Pn : pending (cs x) = false -> c_req (cs x) = None).
  { unfold pending. destruct (c_req (cs x)); [discriminate|reflexivity]. }
  destruct o.
  - destruct (c_closing (cs x)); [apply Same, H|]. destruct (c_tcp (cs x)); [|apply Same, H].
    eapply tcp_connect_I5; eauto.
  - destruct (c_closing (cs x)); [apply Same, H|].
    destruct (c_tcp (cs x)); cbn [andb] in H; [|apply Same, H].
    destruct (pending (cs x)) eqn:E; cbn [negb] in H; [apply Same, H|]. eapply bind_busy_I5; eauto.
  - destruct (c_closing (cs x)); [apply Same, H|].
    destruct (c_tcp (cs x)); cbn [andb] in H; [|apply Same, H].
    destruct (pending (cs x)) eqn:E; cbn [negb] in H; [apply Same, H|]. eapply bind_busy_I5; eauto.
  - destruct (c_closing (cs x)); [apply Same, H|]. destruct (c_tcp (cs x)); [apply Same, H|].
    eapply pipe_connect_I5; eauto.
  - destruct (c_closing (cs x)); [apply Same, H|]. destruct (c_tcp (cs x)); [apply Same, H|].
    eapply pipe_connect2_I5; eauto.
  - eapply aux_op_I5; eauto.
  - eapply aux_op_I5; eauto.
  - eapply aux_op_I5; eauto.
  - destruct (c_closing (cs x) || negb (c_fd (cs x)) || negb (pending (cs x))); inversion H; subst;
      [apply P5_same, I|split; [exact I|repeat constructor]].
  - unfold cclose in H. destruct (c_closing (cs x)); inversion H; subst; [apply P5_same, I|].
    split; [|constructor]. eapply I5_same; [exact I| | | |]; reflexivity.
  - apply Same, H.
Qed.

Lemma cexec_cb_I5 os : forall x x' e, I5 x -> cexec_cb x os = (x', e) -> P5 x' e.
Proof.
  induction os as [|o r IH]; intros x x' e I H; cbn [cexec_cb] in H.
  - inversion H; subst. apply P5_same, I.
  - destruct (cexec_simple x o) as [x1 e1] eqn:E1. destruct (cexec_cb x1 r) as [x2 e2] eqn:E2.
    inversion H; subst. pose proof (cexec_simple_I5 _ _ _ _ I E1) as P1.
    pose proof (IH _ _ _ (proj1 P1) E2) as P2.
    apply (P5_app x1); [exact P1|]. split; [apply P2|constructor; [exact Logic.I|apply P2]].
Qed.

Lemma run_cb_I5 x beh x' e : I5 x -> run_cb x beh = (x', e) -> P5 x' e.
Proof. intros I H. unfold run_cb in H. eapply cexec_cb_I5; [|exact H]. exact I. Qed.

Lemma reject_I5 beh st src ch : forall x x' e, I5 x -> reject ch st src x beh = (x', e) -> P5 x' e.
Proof.
  induction ch as [|q t IH]; intros x x' e I H; cbn [reject] in H.
  - inversion H; subst. apply P5_same, I.
  - match type of H with (let (_, _) := run_cb ?y beh in _) = _ =>
      assert (Iy : I5 y) by exact I; destruct (run_cb y beh) as [x1 e1] eqn:E1 end.
    destruct (reject t st src x1 beh) as [x2 e2] eqn:E2. inversion H; subst.
    pose proof (run_cb_I5 _ _ _ _ Iy E1) as P1.
    pose proof (IH _ _ _ (proj1 P1) E2) as P2.
    split; [apply P2|]. constructor; [exact Logic.I|]. apply Forall_app; split; [apply P1|apply P2].
Qed.

Lemma run_cb_w_I5 x beh x' e : I5 x -> run_cb_w x beh = (x', e) -> P5 x' e.
Proof. intros I H. unfold run_cb_w in H. eapply cexec_cb_I5; [|exact H]. exact I. Qed.

Lemma write_cbs_I5 beh n : forall x x' e, I5 x -> write_cbs n x beh = (x', e) -> P5 x' e.
Proof.
  induction n as [|n IH]; intros x x' e I H; cbn [write_cbs] in H.
  - inversion H; subst. apply P5_same, I.
  - destruct (run_cb_w x beh) as [x1 e1] eqn:E1. destruct (write_cbs n x1 beh) as [x2 e2] eqn:E2.
    inversion H; subst. pose proof (run_cb_w_I5 _ _ _ _ I E1) as P1. pose proof (IH _ _ _ (proj1 P1) E2) as P2.
    split; [apply P2|]. constructor; [exact Logic.I|]. apply Forall_app; split; [apply P1|apply P2].
Qed.

Lemma flush_cbs_I5 x beh x' e : I5 x -> flush_cbs x beh = (x', e) -> P5 x' e.
Proof.
  intros I H. unfold flush_cbs in H. eapply write_cbs_I5; [|exact H].
  eapply I5_same; [exact I| | | |]; reflexivity.
Qed.

Lemma drain_if_idle_I5 x x' e : I5 x -> drain_if_idle x = (x', e) -> P5 x' e.
Proof.
  intros I H. unfold drain_if_idle in H.
  destruct (negb (pending (cs x)) && Nat.eqb (a_wq (cax x)) 0 && Nat.eqb (a_wc (cax x)) 0);
    [|inversion H; subst; apply P5_same, I].
  inversion H; subst. split; [eapply I5_same; [exact I| | | |]; reflexivity|].
  destruct (a_sh (cax x)); repeat constructor.
Qed.

Lemma after_failed_I5 b x beh x' e : I5 x -> after_failed_connect b x beh = (x', e) -> P5 x' e.
Proof.
  intros I H. unfold after_failed_connect in H. destruct (b && c_fd (cs x)).
  2: { destruct (negb b && c_fd (cs x) && negb (Nat.eqb (a_wc (cax x)) 0)); inversion H; subst;
       [split; [eapply I5_same; [exact I| | | |]; reflexivity|constructor]|apply P5_same, I]. }
  destruct (flush_cbs x beh) as [x1 e1] eqn:E1. pose proof (flush_cbs_I5 _ _ _ _ I E1) as P1.
  destruct (a_sh (cax x1) && c_fd (cs x1)); [|inversion H; subst; exact P1].
  destruct (drain_if_idle x1) as [x2 e2] eqn:E2. inversion H; subst.
  apply (P5_app x1); [exact P1|]. eapply drain_if_idle_I5; [apply P1|exact E2].
Qed.

Lemma stream_connect_I5 x beh x' e : I5 x -> stream_connect x beh = (x', e) -> P5 x' e.
Proof.
  intros I H. unfold stream_connect in H. destruct (c_req (cs x)) as [r|] eqn:R.
  2: { inversion H; subst. apply P5_same, I. }
  destruct I as (I1 & I2 & I3).
  assert (Fin : forall (error : Z) (src : csrc) s1 o',
     c_req s1 = None -> noinp (c_delayed s1) -> Forall noinp (o_sock o') ->
     (error = 0 -> a_wr (cax x) <> Some false) ->
     forall ax, a_wr ax = a_wr (cax x) ->
     (let (x1, e1) := run_cb (mkCs s1 o' (nreq x) (ccbn x) [] (cpfix x) (pred (creg x)) ax) beh in
      let (x2, e2) := reject (cchain x) UV_EALREADY SrcRejected x1 beh in
      let (x3, e3) := after_failed_connect (error <? 0) x2 beh in
      (x3, CCb r error src ::
           (if error =? 0 then [CUsable (match a_wr (cax x) with Some false => false | _ => true end)] else [])
           ++ e1 ++ e2 ++ e3)) = (x', e) -> P5 x' e).
  { intros error src s1 o' Rs Ns Fs Hw ax Hax H'.
    match type of H' with (let (_, _) := run_cb ?y beh in _) = _ =>
      assert (Iy : I5 y) by (unfold I5; cbn; rewrite Rs; repeat split; auto; intros C; contradiction);
      destruct (run_cb y beh) as [x1 e1] eqn:E1 end.
    destruct (reject (cchain x) UV_EALREADY SrcRejected x1 beh) as [x2 e2] eqn:E2.
    destruct (after_failed_connect (error <? 0) x2 beh) as [x3 e3] eqn:E3. inversion H'; subst.
    pose proof (run_cb_I5 _ _ _ _ Iy E1) as P1.
    pose proof (reject_I5 _ _ _ _ _ _ _ (proj1 P1) E2) as P2.
    pose proof (after_failed_I5 _ _ _ _ _ (proj1 P2) E3) as P3.
    split; [apply P3|]. constructor; [exact Logic.I|]. apply Forall_app. split.
    - destruct (Z.eqb_spec error 0) as [E0|E0]; [|constructor]. constructor; [|constructor]. cbn.
      specialize (Hw E0). destruct (a_wr (cax x)) as [[|]|]; try reflexivity. contradiction.
    - apply Forall_app; split; [apply P1|]. apply Forall_app; split; [apply P2|apply P3]. }
  cbv zeta in H.
  destruct (Z.eqb_spec (c_delayed (cs x)) 0) as [Ed|Ed]; cbn [negb] in H.
  - destruct (next_z (o_so (co x))) as [er so'].
    destruct (er =? UV_EINPROGRESS).
    + inversion H; subst. split; [|constructor]. unfold I5; cbn. rewrite R. repeat split; auto.
      intros _ _. apply I1; [rewrite R; discriminate|exact Ed].
    + eapply Fin; [..|exact H]; cbn; auto; try (destruct (er =? 0); reflexivity).
      intros _. apply I1; [rewrite R; discriminate|exact Ed].
  - destruct (Z.eqb_spec (c_delayed (cs x)) UV_EINPROGRESS) as [Ei|Ei]; [contradiction|].
    eapply Fin; [..|exact H]; cbn; auto; try (unfold noinp; discriminate); try (intros E0; contradiction);
      try (destruct (c_delayed (cs x) =? 0); reflexivity).
Qed.

Lemma stream_io_I5 x beh x' e : I5 x -> stream_io x beh = (x', e) -> P5 x' e.
Proof.
  intros I H. unfold stream_io in H. destruct (c_req (cs x)) eqn:R.
  - eapply stream_connect_I5; eauto.
  - cbv zeta in H.
    match type of H with (let (_, _) := flush_cbs ?y beh in _) = _ =>
      assert (I0 : I5 y) by (destruct I as (I1 & I2 & I3); unfold I5; cbn; repeat split; auto; intros C; contradiction);
      destruct (flush_cbs y beh) as [x1 e1] eqn:E1 end.
    pose proof (flush_cbs_I5 _ _ _ _ I0 E1) as P1.
    destruct (drain_if_idle x1) as [x2 e2] eqn:E2. inversion H; subst.
    apply (P5_app x1); [exact P1|]. eapply drain_if_idle_I5; [apply P1|exact E2].
Qed.

Lemma unfeed_I5 x : I5 x -> I5 (unfeed x).
Proof. intros I. eapply I5_same; [exact I| | | |]; reflexivity. Qed.

Lemma drain_I5 beh n : forall x x' e, I5 x -> drain n x beh = (x', e) -> P5 x' e.
Proof.
  induction n as [|n IH]; intros x x' e I H; cbn [drain] in H.
  - inversion H; subst. apply P5_same, I.
  - destruct (c_fed (cs x)); [|inversion H; subst; apply P5_same, I].
    destruct (stream_io (unfeed x) beh) as [x1 e1] eqn:E1.
    destruct (drain n x1 beh) as [x2 e2] eqn:E2. inversion H; subst.
    pose proof (stream_io_I5 _ _ _ _ (unfeed_I5 x I) E1) as P1.
    apply (P5_app x1); [exact P1|]. eapply IH; [apply P1|exact E2].
Qed.

Lemma destroy_tail_I5 x2 ec beh x' e :
  P5 x2 ec ->
  (let (x3, e3) := flush_cbs x2 beh in
   (mkCs (cs x3) (co x3) (nreq x3) (ccbn x3) (cchain x3) (cpfix x3) (creg x3)
         (mkA (a_wr (cax x3)) (a_wq (cax x3)) (a_wc (cax x3)) false (a_cn (cax x3))),
    ec ++ e3 ++ (if a_sh (cax x3) then [CScb] else []) ++ [CClosed])) = (x', e) -> P5 x' e.
Proof.
  intros P12 H. destruct (flush_cbs x2 beh) as [x3 e3] eqn:E3.
  pose proof (flush_cbs_I5 _ _ _ _ (proj1 P12) E3) as P3. inversion H; subst.
  split.
  - eapply I5_same; [apply P3| | | |]; reflexivity.
  - apply Forall_app; split; [apply P12|]. apply Forall_app; split; [apply P3|].
    destruct (a_sh (cax x3)); repeat constructor.
Qed.

Lemma destroy_I5 x beh x' e : I5 x -> destroy x beh = (x', e) -> P5 x' e.
Proof.
  intros (I1 & I2 & I3) H. unfold destroy in H. cbv zeta in H.
  destruct (c_req (cs x)) as [r|] eqn:R.
  - match type of H with context [run_cb ?y beh] =>
      assert (Iy : I5 y) by (unfold I5; cbn; repeat split; auto; intros C; contradiction);
      destruct (run_cb y beh) as [x1 e1] eqn:E1 end.
    destruct (reject (cchain x) UV_ECANCELED SrcCancel x1 beh) as [x2 e2] eqn:E2.
    pose proof (run_cb_I5 _ _ _ _ Iy E1) as P1.
    pose proof (reject_I5 _ _ _ _ _ _ _ (proj1 P1) E2) as P2.
    eapply destroy_tail_I5; [|exact H].
    split; [apply P2|]. constructor; [exact Logic.I|]. apply Forall_app; split; [apply P1|apply P2].
  - eapply destroy_tail_I5; [|exact H].
    split; [|constructor]. unfold I5; cbn. repeat split; auto; try (intros C; contradiction).
Qed.

Lemma run_iter_I5 x beh x' e : I5 x -> run_iter x beh = (x', e) -> P5 x' e.
Proof.
  intros I H. unfold run_iter in H.
  destruct (next_b (o_ready (co x))) as [rdy rd'].
  match type of H with (let (_, _) := run_pending ?y beh in _) = _ =>
    assert (I0 : I5 y) by (eapply I5_same; [exact I| | | |]; reflexivity);
    destruct (run_pending y beh) as [x1 e1] eqn:E1 end.
  assert (P1 : P5 x1 e1).
  { unfold run_pending in E1. destruct (c_fed (cs _)).
    - eapply stream_io_I5; [apply unfeed_I5, I0|exact E1].
    - inversion E1; subst. apply P5_same, I0. }
  match type of H with (let (_, _) := ?t in _) = _ => destruct t as [x2 e2] eqn:E2 end.
  assert (P2 : P5 x2 e2).
  { destruct (c_pollout (cs x1) && rdy && negb (c_closing (cs x1))).
    - eapply stream_io_I5; [apply P1|exact E2].
    - inversion E2; subst. apply P5_same, P1. }
  destruct (drain 8 x2 beh) as [x3 e3] eqn:E3.
  pose proof (drain_I5 _ _ _ _ _ (proj1 P2) E3) as P3.
  match type of H with (let (_, _) := ?t in _) = _ => destruct t as [x4 e4] eqn:E4 end.
  assert (P4 : P5 x4 e4).
  { destruct (c_closing (cs x3) && negb (c_closed (cs x3))).
    - eapply destroy_I5; [apply P3|exact E4].
    - inversion E4; subst. apply P5_same, P3. }
  inversion H; subst. apply (P5_app x1); [exact P1|]. apply (P5_app x2); [exact P2|].
  apply (P5_app x3); [exact P3|exact P4].
Qed.

Lemma crun_I5 beh os : forall x x' e, I5 x -> crun x os beh = (x', e) -> P5 x' e.
Proof.
  induction os as [|o r IH]; intros x x' e I H; cbn [crun] in H.
  - inversion H; subst. apply P5_same, I.
  - destruct (cstep x o beh) as [x1 e1] eqn:E1. destruct (crun x1 r beh) as [x2 e2] eqn:E2.
    inversion H; subst.
    assert (P1 : P5 x1 e1).
    { destruct o; cbn [cstep] in E1; try (eapply cexec_simple_I5; eassumption). eapply run_iter_I5; eassumption. }
    pose proof (IH _ _ _ (proj1 P1) E2) as P2.
    apply (P5_app x1); [exact P1|]. split; [apply P2|constructor; [exact Logic.I|apply P2]].
Qed.

(* whenever a connect callback reports status 0 the stream has been opened (readable and
   writable unless the script itself shut it down or started reading), for the first
   attempt and for retries on the same handle alike *)
Theorem connected_stream_usable pfix tcp o os beh :
  Forall noinp (o_sock o) ->
  ~ In (CUsable false) (snd (crun (cinit pfix tcp o) os beh)).
Proof.
  intros Fo. destruct (crun (cinit pfix tcp o) os beh) as [x tr] eqn:E.
  assert (I0 : I5 (cinit pfix tcp o)).
  { unfold I5; cbn. repeat split; auto; try (intros C; contradiction). unfold noinp; discriminate. }
  destruct (crun_I5 _ _ _ _ _ I0 E) as (_ & F). cbn. intros Hin.
  rewrite Forall_forall in F. specialize (F _ Hin). cbn in F. discriminate.
Qed.

(* ... and every status-0 callback is followed by that observation *)
Lemma usable_observed x beh r e :
  c_req (cs x) = Some r -> snd (stream_connect x beh) = CCb r 0 SrcSo :: e ->
  exists b e', e = CUsable b :: e'.
Proof.
  intros R H. unfold stream_connect in H. rewrite R in H.
  destruct (negb (c_delayed (cs x) =? 0)).
  - destruct (c_delayed (cs x) =? UV_EINPROGRESS); [discriminate|].
    match type of H with context [run_cb ?y beh] => destruct (run_cb y beh) as [x1 e1] end.
    match type of H with context [reject ?c ?s ?k ?y beh] => destruct (reject c s k y beh) as [x2 e2] end.
    match type of H with context [after_failed_connect ?b ?y beh] => destruct (after_failed_connect b y beh) as [x3 e3] end.
    cbn in H. inversion H.
  - destruct (next_z (o_so (co x))) as [er so'].
    destruct (er =? UV_EINPROGRESS); [discriminate|].
    match type of H with context [run_cb ?y beh] => destruct (run_cb y beh) as [x1 e1] end.
    match type of H with context [reject ?c ?s ?k ?y beh] => destruct (reject c s k y beh) as [x2 e2] end.
    match type of H with context [after_failed_connect ?b ?y beh] => destruct (after_failed_connect b y beh) as [x3 e3] end.
    cbn in H. inversion H; subst. cbn. eexists _, _; reflexivity.
Qed.
