(* C17, fs_poll: the close callback of a handle never runs while a context of that handle is
   allocated (C17_close_waits_for_stat at trace level, current code fx = true). *)
From UV Require Import Lib.Base Model.FsPoll Proofs.FsPollProofs Proofs.FsPollDrainProofs.

Local Open Scope Z_scope.

(* a context that is not freed is linked in its parent's chain *)
Definition LIC (s : st) : Prop :=
  forall c, live s c -> In c (h_chain (geth s (c_parent (getc s c)))).
(* a handle in the closing list (or its detached part) is closing and has no context *)
Definition PE (extc : list citem) (s : st) : Prop :=
  forall h, In (CHandle h) (closingq s) \/ In (CHandle h) extc ->
            h_chain (geth s h) = [] /\ h_closing (geth s h) = true.
Definition R5 extc s := LIC s /\ PE extc s.

Lemma R5_same extc s s' :
  hs s' = hs s -> cs s' = cs s -> closingq s' = closingq s -> R5 extc s -> R5 extc s'.
Proof.
  intros Eh Ec Eq [L P]. unfold R5, LIC, PE, live, getc, geth in *. rewrite Eh, Ec, Eq. auto.
Qed.

Lemma R5_upd_c_inert extc s c f :
  (forall x, c_parent (f x) = c_parent x) -> (forall x, c_freed (f x) = c_freed x) ->
  R5 extc s -> R5 extc (upd_c s c f).
Proof.
  intros Fp Ff [L P]. split; [|exact P].
  intros c' [Lc F]. rewrite len_cs_upd_c in Lc. rewrite getc_upd_c in *.
  change (geth (upd_c s c f)) with (geth s).
  destruct (Nat.eqb c c' && Nat.ltb c (length (cs s))); [rewrite Ff in F; rewrite Fp|];
    apply L; split; auto.
Qed.

Lemma PE_cons_ctimer extc s c : PE extc s -> PE extc (set_closingq s (CTimer c :: closingq s)).
Proof.
  intros P h [[X|X]|X]; [discriminate| |]; apply (P h); auto.
Qed.

Lemma R5_close_timer extc s c : R5 extc s -> R5 extc (close_timer s c).
Proof.
  intros H. unfold close_timer.
  pose proof (R5_upd_c_inert extc s c (c_set_timer TClosing) (fun _ => eq_refl) (fun _ => eq_refl) H) as [L P].
  split; [exact L|]. exact (PE_cons_ctimer extc (upd_c s c (c_set_timer TClosing)) c P).
Qed.

Lemma R5_arm extc s c due seq v : R5 extc s -> R5 extc (set_tctr (upd_c s c (c_set_timer (TArmed due seq))) v).
Proof.
  intros H. eapply R5_same; [| | |apply (R5_upd_c_inert extc s c (c_set_timer (TArmed due seq))); eauto]; reflexivity.
Qed.

Lemma R5_upd_h_flags extc s h f :
  (forall x, h_chain (f x) = h_chain x /\ (h_closing x = true -> h_closing (f x) = true)) ->
  R5 extc s -> R5 extc (upd_h s h f).
Proof.
  intros F [L P].
  assert (E : forall h', h_chain (geth (upd_h s h f) h') = h_chain (geth s h') /\
                         (h_closing (geth s h') = true -> h_closing (geth (upd_h s h f) h') = true)).
  { intros h'. rewrite geth_upd_h. destruct (Nat.eqb h h' && Nat.ltb h (length (hs s))); auto. }
  split.
  - intros c Lc. change (getc (upd_h s h f) c) with (getc s c).
    destruct (E (c_parent (getc s c))) as [E1 _]. rewrite E1. apply L. exact Lc.
  - intros h' I. change (closingq (upd_h s h f)) with (closingq s) in I.
    destruct (P h' I) as [P1 P2]. destruct (E h') as [E1 E2]. rewrite E1. auto.
Qed.

Lemma R5_push_chandle extc s h :
  h_chain (geth s h) = [] -> h_closing (geth s h) = true ->
  R5 extc s -> R5 extc (set_closingq s (CHandle h :: closingq s)).
Proof.
  intros Ch Cl [L P]. split; [exact L|].
  intros h' [[X|X]|X]; [injection X as <-; auto| |]; apply (P h'); auto.
Qed.

Lemma R5_do_stop extc s h : R5 extc s -> R5 extc (do_stop s h).
Proof.
  intros H. unfold do_stop. destruct (negb (h_active (geth s h))); auto.
  apply R5_upd_h_flags; [intros x; split; auto|].
  destruct (h_chain (geth s h)) as [|c0 l]; auto.
  destruct (timer_active (c_timer (getc s c0))); auto. apply R5_close_timer; auto.
Qed.

Lemma R5_do_close extc s h : (h < length (hs s))%nat -> R5 extc s -> R5 extc (do_close s h).
Proof.
  intros Lh H. unfold do_close.
  set (s0 := upd_h s h h_set_closing).
  assert (H0 : R5 extc s0) by (apply R5_upd_h_flags; auto).
  pose proof (R5_do_stop extc s0 h H0) as H1.
  destruct (do_stop_flags s0 h) as (_ & F1 & _).
  set (s1 := do_stop s0 h) in *.
  destruct (h_chain (geth s1 h)) eqn:Ch; auto.
  apply R5_push_chandle; auto.
  rewrite F1. unfold s0. rewrite geth_upd_h, Nat.eqb_refl. cbn [andb].
  destruct (Nat.ltb_spec h (length (hs s))); [reflexivity|lia].
Qed.

Lemma R5_init_handle extc s : R5 extc s -> R5 extc (set_hs s (hs s ++ [mkH false false false []])).
Proof.
  intros [L P].
  set (s' := set_hs s (hs s ++ [mkH false false false []])).
  assert (E : forall h', (h' < length (hs s))%nat -> geth s' h' = geth s h').
  { intros h' Lh. unfold geth, s', set_hs. cbn [hs]. apply app_nth1; auto. }
  assert (Lt : forall h', h_chain (geth s h') <> [] \/ h_closing (geth s h') = true -> (h' < length (hs s))%nat).
  { intros h' X. destruct (Nat.lt_ge_cases h' (length (hs s))); auto.
    unfold geth in X. rewrite nth_overflow in X by auto. cbn in X. destruct X; [congruence|discriminate]. }
  split.
  - intros c Lc. change (getc s' c) with (getc s c).
    pose proof (L c Lc) as I.
    rewrite E; auto. apply Lt. left. intros X. rewrite X in I. destruct I.
  - intros h' I. change (closingq s') with (closingq s) in I. destruct (P h' I) as [P1 P2].
    rewrite E; auto.
Qed.

Lemma R5_start_ok extc s h nc l1 :
  (h < length (hs s))%nat -> h_closing (geth s h) = false -> c_parent nc = h ->
  R5 extc s ->
  R5 extc (upd_h (set_inflight (set_hq (set_cs s (cs s ++ [nc])) l1) (inflight s ++ [length (cs s)])) h
                 (fun x => h_set_active true (h_set_chain (length (cs s) :: h_chain x) x))).
Proof.
  intros Lh Nc Pn [L P].
  set (c := length (cs s)). set (s' := upd_h _ h _).
  assert (Gc : forall c', (c' < c)%nat -> getc s' c' = getc s c').
  { intros c' Lc. unfold getc, s'. cbn [cs upd_h set_hs set_inflight set_hq set_cs]. apply app_nth1; auto. }
  assert (Gn : getc s' c = nc).
  { unfold getc, s'. cbn [cs upd_h set_hs set_inflight set_hq set_cs]. apply nth_middle. }
  assert (Gh : forall h', geth s' h' = if Nat.eqb h h'
                          then h_set_active true (h_set_chain (c :: h_chain (geth s h')) (geth s h'))
                          else geth s h').
  { intros h'. unfold s'. rewrite geth_upd_h. cbn [hs set_inflight set_hq set_cs].
    destruct (Nat.eqb h h'); auto. cbn [andb]. destruct (Nat.ltb_spec h (length (hs s))); [reflexivity|lia]. }
  split.
  - intros c' [Lc F]. unfold s' in Lc. cbn [cs upd_h set_hs set_inflight set_hq set_cs] in Lc.
    rewrite app_length in Lc. cbn in Lc.
    destruct (Nat.eq_dec c' c) as [->|Ne].
    + rewrite Gn, Pn, Gh, Nat.eqb_refl. cbn. left. reflexivity.
    + assert (Lc' : (c' < c)%nat) by (unfold c; lia).
      rewrite Gc in F by auto. rewrite Gc by auto.
      pose proof (L c' (conj Lc' F)) as I. rewrite Gh.
      destruct (Nat.eqb h (c_parent (getc s c'))) eqn:E; auto.
      cbn. right. exact I.
  - intros h' I. change (closingq s') with (closingq s) in I. destruct (P h' I) as [P1 P2].
    rewrite Gh. destruct (Nat.eqb_spec h h') as [<-|Ne]; [congruence|auto].
Qed.

Lemma R5_start_fail extc s nc : c_freed nc = true -> R5 extc s -> R5 extc (set_cs s (cs s ++ [nc])).
Proof.
  intros Fn [L P]. split; [|exact P].
  intros c' [Lc F]. cbn [cs set_cs] in Lc. rewrite app_length in Lc. cbn in Lc.
  destruct (Nat.eq_dec c' (length (cs s))) as [->|Ne].
  - unfold getc, set_cs in F. cbn [cs] in F. rewrite nth_middle in F. congruence.
  - rewrite getc_app in * by lia. apply L. split; auto. lia.
Qed.

Lemma R5_do_start extc s h cb p iv fl :
  (h < length (hs s))%nat -> h_closing (geth s h) = false ->
  R5 extc s -> R5 extc (fst (do_start s h cb p iv fl)).
Proof.
  intros Lh Nc H. unfold do_start. destruct (h_active (geth s h)); [exact H|].
  destruct fl as [|[|[|[|fl]]]]; cbn [fst].
  - exact (R5_start_ok extc s h
             (c_set_inflight true (mkCtx h 0 (if iv =? 0 then 1 else iv) (now s) cb p zero_sb TIdle false false))
             (hq s ++ [length (cs s)]) Lh Nc eq_refl H).
  - exact H.
  - apply R5_start_fail; auto.
  - eapply R5_same; [| | |apply (R5_start_fail extc s); eauto]; reflexivity.
  - exact (R5_start_ok extc s h
             (c_set_inflight true (mkCtx h 0 (if iv =? 0 then 1 else iv) (now s) cb p zero_sb TIdle false false))
             (hq s ++ [length (cs s)]) Lh Nc eq_refl H).
Qed.

Lemma R5_api extc s o : R5 extc s -> R5 extc (fst (api s o)).
Proof.
  intros H. destruct o; cbn [api fst]; auto.
  - apply R5_init_handle; auto.
  - destruct (valid s h && negb (h_closing (geth s h))) eqn:G; auto.
    apply andb_true_iff in G. destruct G as [V G]. apply negb_true_iff in G.
    unfold valid in V. apply Nat.ltb_lt in V.
    pose proof (R5_do_start extc s h cb path interval fail V G H) as X.
    destruct (do_start s h cb path interval fail); auto.
  - destruct (valid s h && negb (h_closed (geth s h))); cbn [fst]; auto. apply R5_do_stop; auto.
  - destruct (valid s h && negb (h_closing (geth s h))) eqn:G; cbn [fst]; auto.
    apply andb_true_iff in G. destruct G as [V _]. unfold valid in V. apply Nat.ltb_lt in V.
    apply R5_do_close; auto.
  - cbn [fst]. apply (do_walk_inv (R5 extc)).
    + intros s0 h0 L0 H0. apply R5_do_close; auto.
    + intros s0 l H0. eapply R5_same; [| | |exact H0]; reflexivity.
    + exact H.
Qed.

Lemma R5_apis extc os : forall s, R5 extc s -> R5 extc (fst (apis s os)).
Proof.
  induction os as [|o os IH]; intros s H; cbn [apis]; auto.
  pose proof (R5_api extc s o H) as X. destruct (api s o) as [s1 e1]. cbn [fst] in X.
  pose proof (IH s1 X) as Y. destruct (apis s1 os) as [s2 e2]. exact Y.
Qed.

Lemma R5_user_cb extc s ev beh cnt : R5 extc s -> R5 extc (fst (fst (user_cb s ev beh cnt))).
Proof.
  intros H. unfold user_cb. pose proof (R5_apis extc (beh cnt) s H) as X. destruct (apis s (beh cnt)); exact X.
Qed.

Lemma R5_poll_cb extc fx s c res beh cnt : R5 extc s -> R5 extc (fst (fst (poll_cb fx s c res beh cnt))).
Proof.
  intros H. rewrite poll_cb_split. cbv zeta.
  set (s0 := upd_c s c (c_set_inflight false)).
  assert (H0 : R5 extc s0) by (apply R5_upd_c_inert; auto).
  assert (M : R5 extc (fst (fst (mid fx s0 c res beh cnt)))).
  { unfold mid. destruct (gone fx s0 (c_parent (getc s0 c)) c); auto.
    destruct res as [r sb]. destruct (negb (r =? 0)).
    - destruct (negb (c_busy (getc s0 c) =? r)); auto.
      pose proof (R5_user_cb extc s0 (EPoll (c_parent (getc s0 c)) (c_cb (getc s0 c)) (c_path (getc s0 c)) r
                                       (c_sb (getc s0 c)) zero_sb) beh cnt H0) as X.
      destruct (user_cb s0 _ beh cnt) as [[s' e] n]. cbn [fst] in *. apply R5_upd_c_inert; auto.
    - destruct (negb (c_busy (getc s0 c) =? 0) && _).
      + pose proof (R5_user_cb extc s0 (EPoll (c_parent (getc s0 c)) (c_cb (getc s0 c)) (c_path (getc s0 c)) 0
                                       (c_sb (getc s0 c)) sb) beh cnt H0) as X.
        destruct (user_cb s0 _ beh cnt) as [[s' e] n]. cbn [fst] in *. apply R5_upd_c_inert; auto.
      + cbn [fst]. apply R5_upd_c_inert; auto. }
  destruct (mid fx s0 c res beh cnt) as [[s1 ev] n]. cbn [fst] in *.
  unfold out_part. destruct (gone fx s1 (c_parent (getc s0 c)) c).
  - apply R5_close_timer; auto.
  - apply R5_arm; auto.
Qed.

Lemma R5_work_done extc fx l : forall s beh cnt, R5 extc s -> R5 extc (fst (fst (work_done fx l s beh cnt))).
Proof.
  induction l as [|[c r] l IH]; intros s beh cnt H; cbn [work_done]; auto.
  pose proof (R5_poll_cb extc fx s c r beh cnt H) as X.
  destruct (poll_cb fx s c r beh cnt) as [[s1 e1] n1]. cbn [fst] in X.
  pose proof (IH s1 beh n1 X) as Y. destruct (work_done fx l s1 beh n1) as [[s2 e2] n2]. exact Y.
Qed.

(* ---------------- timer_close_cb ---------------- *)
Lemma R5_free_generic q s X c :
  cs X = cs s ->
  (forall h', (h_closing (geth s h') = true -> h_closing (geth X h') = true) /\
              (forall c', c' <> c -> In c' (h_chain (geth s h')) -> In c' (h_chain (geth X h'))) /\
              (h_chain (geth s h') = [] -> h_chain (geth X h') = [])) ->
  (forall x, In x (closingq X) ->
             In x (closingq s) \/
             exists h, x = CHandle h /\ h_chain (geth X h) = [] /\ h_closing (geth X h) = true) ->
  R5 (CTimer c :: q) s -> R5 q (upd_c X c c_set_freed).
Proof.
  intros Ec HX HQ [L P].
  set (s' := upd_c X c c_set_freed).
  assert (Gc : forall c', c' <> c -> getc s' c' = getc s c').
  { intros c' Ne. unfold s'. rewrite getc_upd_c. destruct (Nat.eqb_spec c c'); [congruence|].
    cbn [andb]. unfold getc. rewrite Ec. reflexivity. }
  split.
  - intros c' [Lc F]. unfold s' in Lc. rewrite len_cs_upd_c, Ec in Lc.
    assert (Ne : c' <> c).
    { intros ->. unfold s' in F. rewrite getc_upd_c, Nat.eqb_refl, Ec in F.
      destruct (Nat.ltb_spec c (length (cs s))); [cbn in F; discriminate|lia]. }
    rewrite Gc in * by auto. change (geth s') with (geth X).
    destruct (HX (c_parent (getc s c'))) as (_ & H2 & _). apply H2; auto. apply L. split; auto.
  - intros h' I. change (closingq s') with (closingq X) in I. change (geth s' h') with (geth X h').
    destruct (HX h') as (H1 & _ & H3).
    destruct I as [I|I].
    + destruct (HQ _ I) as [I'|(h0 & E & A & B)].
      * destruct (P h') as [P1 P2]; auto.
      * injection E as <-. auto.
    + destruct (P h') as [P1 P2]; [right; right; exact I|]. auto.
Qed.

Lemma in_remove_nat c c' l : c' <> c -> In c' l -> In c' (remove_nat c l).
Proof.
  intros Ne I. unfold remove_nat. apply filter_In. split; auto.
  destruct (Nat.eqb_spec c c'); [congruence|reflexivity].
Qed.

Lemma R5_timer_close_cb q s c : R5 (CTimer c :: q) s -> R5 q (timer_close_cb s c).
Proof.
  intros H. unfold timer_close_cb.
  set (h := c_parent (getc s c)).
  set (s0 := set_hq s (remove_nat c (hq s))).
  change (geth s0 h) with (geth s h).
  assert (Keep : forall h', (h_closing (geth s h') = true -> h_closing (geth s h') = true) /\
              (forall c', c' <> c -> In c' (h_chain (geth s h')) -> In c' (h_chain (geth s h'))) /\
              (h_chain (geth s h') = [] -> h_chain (geth s h') = [])) by (intros; auto).
  destruct (h_chain (geth s h)) as [|c0 rest] eqn:Ch.
  - apply (R5_free_generic q s); auto.
  - assert (Lh : (h < length (hs s))%nat).
    { unfold geth in Ch. destruct (Nat.lt_ge_cases h (length (hs s))); auto.
      rewrite nth_overflow in Ch by auto. discriminate. }
    assert (Gh : forall f h', geth (upd_h s0 h f) h' = if Nat.eqb h h' then f (geth s h') else geth s h').
    { intros f h'. rewrite geth_upd_h. change (hs s0) with (hs s). change (geth s0 h') with (geth s h').
      destruct (Nat.eqb h h'); auto. cbn [andb].
      destruct (Nat.ltb_spec h (length (hs s))); [reflexivity|lia]. }
    destruct (Nat.eqb_spec c0 c) as [E|E].
    + subst c0.
      assert (HX : forall h', (h_closing (geth s h') = true -> h_closing (geth (upd_h s0 h (h_set_chain rest)) h') = true) /\
              (forall c', c' <> c -> In c' (h_chain (geth s h')) -> In c' (h_chain (geth (upd_h s0 h (h_set_chain rest)) h'))) /\
              (h_chain (geth s h') = [] -> h_chain (geth (upd_h s0 h (h_set_chain rest)) h') = [])).
      { intros h'. rewrite Gh. destruct (Nat.eqb_spec h h') as [<-|Ne]; [|apply Keep].
        cbn [h_set_chain h_chain h_closing]. rewrite Ch. split; [auto|]. split; [|discriminate].
        intros c' Ne [X|X]; [congruence|exact X]. }
      destruct rest as [|r1 rest'].
      * destruct (h_closing (geth (upd_h s0 h (h_set_chain [])) h)) eqn:Cl.
        -- apply (R5_free_generic q s); auto.
           intros x [X|X]; [|left; exact X].
           right. exists h. split; [auto|]. split; [|exact Cl].
           change (geth (set_closingq (upd_h s0 h (h_set_chain [])) (CHandle h :: closingq (upd_h s0 h (h_set_chain [])))) h)
             with (geth (upd_h s0 h (h_set_chain [])) h).
           rewrite Gh, Nat.eqb_refl. reflexivity.
        -- apply (R5_free_generic q s); auto.
      * apply (R5_free_generic q s); auto.
    + apply (R5_free_generic q s); auto.
      intros h'. rewrite Gh. destruct (Nat.eqb_spec h h') as [<-|Ne]; [|apply Keep].
      cbn [h_set_chain h_chain h_closing]. rewrite Ch. split; [auto|]. split; [|discriminate].
      intros c' Ne [X|X]; [left; exact X|right; apply in_remove_nat; auto].
Qed.

Lemma R5_set_closed q s h : R5 (CHandle h :: q) s -> R5 q (upd_h s h h_set_closed).
Proof.
  intros H.
  pose proof (R5_upd_h_flags (CHandle h :: q) s h h_set_closed (fun x => conj eq_refl (fun e => e)) H) as [L P].
  split; [exact L|]. intros h' I. apply P. destruct I; auto. right; right; auto.
Qed.

Lemma R5_timer_fire fx extc s c : R5 extc s -> R5 extc (timer_fire fx s c).
Proof.
  intros H. unfold timer_fire.
  destruct (fx && _); [apply R5_close_timer; exact H|].
  eapply R5_same; [| | |apply (R5_upd_c_inert extc s c (fun x => c_set_inflight true (c_set_start (now s) (c_set_timer TIdle x))))];
    try reflexivity; auto.
Qed.

Lemma R5_run_timers fx extc beh s cnt : R5 extc s -> R5 extc (fst (fst (run_timers fx beh s cnt))).
Proof.
  apply (run_timers_inv (R5 extc)).
  - intros s0 c H. apply R5_upd_c_inert; auto.
  - intros s0 l H. eapply R5_same; [| | |exact H]; reflexivity.
  - intros s0 c H. apply R5_timer_fire; auto.
  - intros s0 os H. apply R5_apis; auto.
Qed.

(* ---------------- the events ---------------- *)
Definition okev (e : event) : Prop := match e with EClosed _ n => n = 0%nat | _ => True end.

Lemma apis_ok os : forall s, Forall okev (snd (apis s os)).
Proof.
  induction os as [|o os IH]; intros s; cbn [apis]; [constructor|].
  assert (A : Forall okev (snd (api s o))).
  { destruct o; cbn [api];
      repeat match goal with |- context [if ?b then _ else _] => destruct b end;
      try (destruct (do_start s h cb path interval fail));
      unfold observe; cbn [snd]; repeat constructor. }
  destruct (api s o) as [s1 e1]. specialize (IH s1). destruct (apis s1 os) as [s2 e2].
  cbn [snd] in *. apply Forall_app. auto.
Qed.

Lemma user_cb_ok s ev beh cnt : okev ev -> Forall okev (snd (fst (user_cb s ev beh cnt))).
Proof.
  intros O. unfold user_cb. pose proof (apis_ok (beh cnt) s) as X.
  destruct (apis s (beh cnt)). cbn [fst snd] in *. constructor; auto.
Qed.

Lemma poll_cb_ok fx s c res beh cnt : Forall okev (snd (fst (poll_cb fx s c res beh cnt))).
Proof.
  rewrite poll_cb_split. cbv zeta.
  set (s0 := upd_c s c (c_set_inflight false)).
  assert (M : Forall okev (snd (fst (mid fx s0 c res beh cnt)))).
  { unfold mid. destruct (gone fx s0 (c_parent (getc s0 c)) c); [constructor|].
    destruct res as [r sb]. destruct (negb (r =? 0)).
    - destruct (negb (c_busy (getc s0 c) =? r)); [|constructor].
      pose proof (user_cb_ok s0 (EPoll (c_parent (getc s0 c)) (c_cb (getc s0 c)) (c_path (getc s0 c)) r
                                       (c_sb (getc s0 c)) zero_sb) beh cnt I) as X.
      destruct (user_cb s0 _ beh cnt) as [[s' e] n]. exact X.
    - destruct (negb (c_busy (getc s0 c) =? 0) && _); [|constructor].
      pose proof (user_cb_ok s0 (EPoll (c_parent (getc s0 c)) (c_cb (getc s0 c)) (c_path (getc s0 c)) 0
                                       (c_sb (getc s0 c)) sb) beh cnt I) as X.
      destruct (user_cb s0 _ beh cnt) as [[s' e] n]. exact X. }
  destruct (mid fx s0 c res beh cnt) as [[s1 ev] n]. exact M.
Qed.

Lemma work_done_ok fx l : forall s beh cnt, Forall okev (snd (fst (work_done fx l s beh cnt))).
Proof.
  induction l as [|[c r] l IH]; intros s beh cnt; cbn [work_done]; [constructor|].
  pose proof (poll_cb_ok fx s c r beh cnt) as X.
  destruct (poll_cb fx s c r beh cnt) as [[s1 e1] n1].
  specialize (IH s1 beh n1). destruct (work_done fx l s1 beh n1) as [[s2 e2] n2].
  cbn [fst snd] in *. apply Forall_app. auto.
Qed.

Lemma fire_ready_ok fx beh l : forall s cnt, Forall okev (snd (fst (fire_ready fx beh l s cnt))).
Proof.
  induction l as [|[c|id] l IH]; intros s cnt; cbn [fire_ready]; [constructor|apply IH|].
  destruct (ut_has s id); [|apply IH].
  pose proof (apis_ok (beh cnt) (ut_remove s id)) as X. destruct (apis (ut_remove s id) (beh cnt)) as [s1 e1].
  specialize (IH s1 (S cnt)). destruct (fire_ready fx beh l s1 (S cnt)) as [[s2 e2] n2].
  cbn [fst snd] in *. constructor; [exact I|]. apply Forall_app. auto.
Qed.

Lemma run_timers_ok fx beh s cnt : Forall okev (snd (fst (run_timers fx beh s cnt))).
Proof. unfold run_timers. apply fire_ready_ok. Qed.

(* a handle that is in the closing list has no allocated context *)
Lemma live_of_zero q s h : R5 (CHandle h :: q) s -> live_of s h = 0%nat.
Proof.
  intros [L P]. destruct (P h) as [Ch _]; [right; left; reflexivity|].
  unfold live_of.
  destruct (filter (fun x => negb (c_freed x) && Nat.eqb (c_parent x) h) (cs s)) as [|x l] eqn:F; auto.
  exfalso.
  assert (I : In x (filter (fun x => negb (c_freed x) && Nat.eqb (c_parent x) h) (cs s))) by (rewrite F; left; auto).
  apply filter_In in I. destruct I as [I C]. apply andb_true_iff in C. destruct C as [C1 C2].
  apply negb_true_iff in C1. apply Nat.eqb_eq in C2.
  destruct (In_nth _ _ dflt_ctx I) as (n & Ln & En).
  assert (Lv : live s n) by (split; auto; unfold getc; rewrite En; exact C1).
  pose proof (L n Lv) as X. unfold getc in X. rewrite En, C2, Ch in X. destruct X.
Qed.

Lemma run_closing_ok ext q : forall s beh cnt,
  R ext q None s -> R5 q s ->
  R5 [] (fst (fst (run_closing q s beh cnt))) /\ Forall okev (snd (fst (run_closing q s beh cnt))).
Proof.
  induction q as [|[c|h] q IH]; intros s beh cnt H H5; cbn [run_closing].
  - split; [exact H5|constructor].
  - apply IH; [|apply R5_timer_close_cb; exact H5].
    destruct H as [S H]. split; [apply SI_timer_close_cb; auto|].
    apply R4_timer_close_cb; auto. apply S.
  - pose proof (live_of_zero q s h H5) as Z.
    assert (H1 : R ext q None (upd_h s h h_set_closed)).
    { destruct H as [S H]. split; [apply SI_upd_h_keep; auto|]. apply R4_set_closed; auto. }
    assert (H51 : R5 q (upd_h s h h_set_closed)) by (apply R5_set_closed; exact H5).
    pose proof (R_user_cb ext q None _ (EClosed h (live_of s h)) beh cnt H1) as X.
    pose proof (R5_user_cb q _ (EClosed h (live_of s h)) beh cnt H51) as X5.
    pose proof (user_cb_ok (upd_h s h h_set_closed) (EClosed h (live_of s h)) beh cnt Z) as O.
    destruct (user_cb (upd_h s h h_set_closed) (EClosed h (live_of s h)) beh cnt) as [[s1 e1] n1].
    cbn [fst snd] in *.
    pose proof (IH s1 beh n1 X X5) as [Y5 YO].
    destruct (run_closing q s1 beh n1) as [[s2 e2] n2]. cbn [fst snd] in *.
    split; [exact Y5|]. apply Forall_app. auto.
Qed.

Lemma iteration_ok s beh cnt :
  R [] [] None s -> R5 [] s ->
  R5 [] (fst (fst (iteration true s beh cnt))) /\ Forall okev (snd (fst (iteration true s beh cnt))).
Proof.
  intros H H5. unfold iteration. cbv zeta.
  set (s0 := set_now s (clock s)).
  assert (H0 : R (map fst (done s0)) [] None (set_done s0 [])).
  { destruct H as [S (N & C & I & G)]. split; [eapply SI_same; [| |exact S]; reflexivity|].
    split; [exact N|]. split; [exact C|]. split; [|exact G].
    intros c L. destruct (I c L) as [X|[X|[X|[X|[X|[X|X]]]]]]; unfold J; auto 10. }
  assert (H50 : R5 [] (set_done s0 [])) by (eapply R5_same; [| | |exact H5]; reflexivity).
  pose proof (R_work_done [] (done s0) _ beh cnt H0) as X.
  pose proof (R5_work_done [] true (done s0) _ beh cnt H50) as X5.
  pose proof (work_done_ok true (done s0) (set_done s0 []) beh cnt) as XO.
  destruct (work_done true (done s0) (set_done s0 []) beh cnt) as [[s1 e1] n1]. cbn [fst snd] in *.
  assert (H1 : R [] (closingq s1) None (set_closingq s1 [])).
  { destruct X as [S (N & C & I & G)]. split; [eapply SI_same; [| |exact S]; reflexivity|].
    split; [exact N|]. split; [exact C|]. split.
    - intros c L. destruct (I c L) as [Y|[Y|[Y|[Y|[Y|[Y|Y]]]]]]; unfold J; auto 10.
    - intros h P. destruct (G h P) as [Y|Y]; auto. }
  assert (H51 : R5 (closingq s1) (set_closingq s1 [])).
  { destruct X5 as [L P]. split; [exact L|]. intros h [[]|I]. apply (P h). left. exact I. }
  pose proof (run_closing_ok [] (closingq s1) _ beh n1 H1 H51) as [Y5 YO].
  destruct (run_closing (closingq s1) (set_closingq s1 []) beh n1) as [[s2 e2] n2]. cbn [fst snd] in *.
  assert (H52 : R5 [] (set_now s2 (clock s2))) by (eapply R5_same; [| | |exact Y5]; reflexivity).
  pose proof (R5_run_timers true [] beh _ n2 H52) as Z5.
  pose proof (run_timers_ok true beh (set_now s2 (clock s2)) n2) as ZO.
  destruct (run_timers true beh (set_now s2 (clock s2)) n2) as [[s3 e3] n3]. cbn [fst snd] in *.
  split; [exact Z5|]. apply Forall_app. split; auto. apply Forall_app. auto.
Qed.

Lemma drain_ok fuel : forall s res beh cnt,
  R [] [] None s -> R5 [] s ->
  R5 [] (fst (fst (drain true fuel s res beh cnt))) /\ Forall okev (snd (fst (drain true fuel s res beh cnt))).
Proof.
  induction fuel as [|f IH]; intros s res beh cnt H H5; cbn [drain]; [split; [exact H5|constructor]|].
  pose proof (R_release s res H) as X.
  assert (X5 : R5 [] (fst (release s res))) by (eapply R5_same; [| | |exact H5]; reflexivity).
  assert (XO : Forall okev (snd (release s res))).
  { unfold release. cbn [snd]. apply Forall_forall. intros e I. apply in_map_iff in I.
    destruct I as (c & <- & _). exact I. }
  destruct (release s res) as [s1 e1]. cbn [fst snd] in *.
  pose proof (R_iteration s1 beh cnt X) as Y.
  pose proof (iteration_ok s1 beh cnt X X5) as [Y5 YO].
  destruct (iteration true s1 beh cnt) as [[s2 e2] n2]. cbn [fst snd] in *.
  destruct (alive s2).
  - pose proof (IH s2 res beh n2 Y Y5) as [Z5 ZO].
    destruct (drain true f s2 res beh n2) as [[s3 e3] n3]. cbn [fst snd] in *.
    split; [exact Z5|]. apply Forall_app. split; auto. constructor; [exact I|]. apply Forall_app. auto.
  - cbn [fst snd]. split; [exact Y5|]. apply Forall_app. split; auto. constructor; [exact I|auto].
Qed.

Lemma R5_init t0 : R5 [] (init t0).
Proof.
  split.
  - intros c [L _]. cbn in L. lia.
  - intros h [[]|[]].
Qed.

Lemma run_ok os : forall s beh cnt,
  R [] [] None s -> R5 [] s -> Forall okev (snd (run true s os beh cnt)).
Proof.
  induction os as [|o os IH]; intros s beh cnt H H5; [constructor|].
  destruct o; cbn [run].
  all: try (match goal with
            | |- context [api ?s0 ?o] =>
                pose proof (R_api [] [] None s0 o H) as X;
                pose proof (R5_api [] s0 o H5) as X5;
                pose proof (apis_ok [o] s0) as XO; cbn [apis] in XO;
                destruct (api s0 o) as [s1 e1]; cbn [fst snd] in *; rewrite app_nil_r in XO;
                pose proof (IH s1 beh cnt X X5) as Y; destruct (run true s1 os beh cnt) as [s2 e2];
                cbn [snd] in *; apply Forall_app; auto
            end).
  - pose proof (R_release s res H) as X.
    assert (X5 : R5 [] (fst (release s res))) by (eapply R5_same; [| | |exact H5]; reflexivity).
    assert (XO : Forall okev (snd (release s res))).
    { unfold release. cbn [snd]. apply Forall_forall. intros e I. apply in_map_iff in I.
      destruct I as (c & <- & _). exact I. }
    destruct (release s res) as [s1 e1]. cbn [fst snd] in *.
    pose proof (IH s1 beh cnt X X5) as Y. destruct (run true s1 os beh cnt) as [s2 e2].
    cbn [snd] in *. apply Forall_app; auto.
  - apply IH.
    + destruct H as [S H]. split; [eapply SI_same; [| |exact S]; reflexivity|].
      eapply R4_same; [| | | | |exact H]; reflexivity.
    + eapply R5_same; [| | |exact H5]; reflexivity.
  - pose proof (R_iteration s beh cnt H) as X.
    pose proof (iteration_ok s beh cnt H H5) as [X5 XO].
    destruct (iteration true s beh cnt) as [[s1 e1] n1]. cbn [fst snd] in *.
    pose proof (IH s1 beh n1 X X5) as Y. destruct (run true s1 os beh n1) as [s2 e2].
    cbn [snd] in *. constructor; [exact I|]. apply Forall_app; auto.
  - apply IH.
    + destruct H as [S H]. split; [eapply SI_same; [| |exact S]; reflexivity|].
      eapply R4_same; [| | | | |exact H]; reflexivity.
    + eapply R5_same; [| | |exact H5]; reflexivity.
  - assert (H' : R [] [] None (set_ut s [])).
    { destruct H as [S H]. split; [eapply SI_same; [| |exact S]; reflexivity|].
      eapply R4_same; [| | | | |exact H]; reflexivity. }
    assert (H5' : R5 [] (set_ut s [])) by (eapply R5_same; [| | |exact H5]; reflexivity).
    pose proof (R_drain drain_fuel _ res beh cnt H') as X.
    pose proof (drain_ok drain_fuel _ res beh cnt H' H5') as [X5 XO].
    destruct (drain true drain_fuel (set_ut s []) res beh cnt) as [[s1 e1] n1]. cbn [fst snd] in *.
    pose proof (IH s1 beh n1 X X5) as Y. destruct (run true s1 os beh n1) as [s2 e2].
    cbn [snd] in *. apply Forall_app. split; auto. constructor; [exact I|auto].
Qed.

(* C17_close_waits_for_stat: in the trace of every script, with any callback behaviour, every
   close callback of an fs_poll handle is made when no context of that handle is allocated --
   in particular no stat of the handle is in flight and none will be submitted *)
Theorem close_waits_for_stat :
  forall t0 os beh,
  Forall (fun e => match e with EClosed _ n => n = 0%nat | _ => True end)
         (snd (run true (init t0) os beh 0)).
Proof. intros. apply run_ok; [apply R_init|apply R5_init]. Qed.
