From UV Require Import Lib.Base Model.ThreadPool Proofs.ThreadPoolDefs.
From Coq Require Import Permutation.

(* C08, layer A: every request is in exactly one place; trace counters.
   The invariant is stated on the "view" of a state (the components InvA looks at), the
   atomic actions are lemmas on views, and the step function is glued onto them. *)

(* ---------------- lists ---------------- *)
Lemma rem_In r x L : In x (rem r L) <-> In x L /\ x <> r.
Proof.
  unfold rem. rewrite filter_In. split; intros [H1 H2]; split; auto.
  - intros ->. rewrite Nat.eqb_refl in H2. discriminate.
  - destruct (Nat.eqb_spec x r); [contradiction|reflexivity].
Qed.

Lemma rem_NoDup r L : NoDup L -> NoDup (rem r L).
Proof. apply NoDup_filter. Qed.

Lemma rem_app r a b : rem r (a ++ b) = rem r a ++ rem r b.
Proof. apply filter_app. Qed.

Lemma rem_notin r L : ~ In r L -> rem r L = L.
Proof.
  induction L as [|a L IH]; cbn; intros H; [reflexivity|].
  destruct (Nat.eqb_spec a r); cbn.
  - subst. exfalso. apply H. left. reflexivity.
  - f_equal. apply IH. intros H1. apply H. right. exact H1.
Qed.

Lemma wq_reqs_app a b : wq_reqs (a ++ b) = wq_reqs a ++ wq_reqs b.
Proof. apply flat_map_app. Qed.

Lemma wq_reqs_remw r q : wq_reqs (remw r q) = rem r (wq_reqs q).
Proof.
  induction q as [|i q IH]; [reflexivity|].
  destruct i as [x| |]; cbn.
  - destruct (Nat.eqb_spec x r); cbn; [exact IH | f_equal; exact IH].
  - exact IH.
  - exact IH.
Qed.

Lemma mem_In r L : mem r L = true <-> In r L.
Proof.
  unfold mem. rewrite existsb_exists. split.
  - intros [x [H1 H2]]. apply Nat.eqb_eq in H2. subst. exact H1.
  - intros H. exists r. split; [exact H | apply Nat.eqb_refl].
Qed.

Lemma is_work_In r q : existsb (is_work r) q = true <-> In r (wq_reqs q).
Proof.
  induction q as [|i q IH]; cbn.
  - split; [discriminate | contradiction].
  - destruct i as [x| |]; cbn.
    + rewrite orb_true_iff, IH, Nat.eqb_eq. tauto.
    + exact IH.
    + exact IH.
Qed.

Lemma NoDup_snoc_mid (a b : list nat) r :
  NoDup (a ++ b) -> ~ In r (a ++ b) -> NoDup ((a ++ [r]) ++ b).
Proof.
  intros H1 H2. rewrite <- app_assoc. cbn.
  eapply Permutation_NoDup; [apply Permutation_middle|].
  constructor; assumption.
Qed.

Lemma In_snoc_mid (a b : list nat) r x :
  In x ((a ++ [r]) ++ b) <-> x = r \/ In x (a ++ b).
Proof.
  rewrite !in_app_iff. cbn. intuition.
Qed.

(* ---------------- trace ---------------- *)
Lemma nwork_cons r e tr :
  nwork r (e :: tr) = (if is_work_ev r e then 1 else 0) + nwork r tr.
Proof. unfold nwork. cbn. destruct (is_work_ev r e); reflexivity. Qed.

Lemma ndone_cons r e tr :
  ndone r (e :: tr) = (if is_done_ev r e then 1 else 0) + ndone r tr.
Proof. unfold ndone. cbn. destruct (is_done_ev r e); reflexivity. Qed.

Lemma nwork_in r tr : 1 <= nwork r tr -> exists t, In (EWork r t) tr.
Proof.
  induction tr as [|e tr IH]; [cbn; lia|].
  rewrite nwork_cons. destruct (is_work_ev r e) eqn:E.
  - intros _. destruct e; cbn in E; try discriminate.
    apply Nat.eqb_eq in E. subst. eexists. left. reflexivity.
  - intros H. destruct IH as [t Ht]; [lia|]. exists t. right. exact Ht.
Qed.

Lemma nwork_work r0 r t tr :
  nwork r0 (EWork r t :: tr) = (if Nat.eqb r0 r then 1 else 0) + nwork r0 tr.
Proof. rewrite nwork_cons. cbn. rewrite (Nat.eqb_sym r r0). reflexivity. Qed.

Lemma ndone_done r0 r t st tr :
  ndone r0 (EDone r t st :: tr) = (if Nat.eqb r0 r then 1 else 0) + ndone r0 tr.
Proof. rewrite ndone_cons. cbn. rewrite (Nat.eqb_sym r r0). reflexivity. Qed.

Definition neutral (e : event) : Prop :=
  match e with
  | ESync _ _ | EAlive _ _ => True
  | ECancel _ _ code => code <> 0%Z
  | _ => False
  end.

(* ---------------- the invariant on views ---------------- *)
Definition st_of (rq : nat -> req) r := r_st (rq r).

Record IV (c : config) (q : list nat) (n : nat) (rq : nat -> req) (rn : nat -> option nat)
          (lps : nat -> loopst) (tr : list event) : Prop := mkIV {
  v_nodup_q : NoDup q;
  v_queued : forall r, In r q <-> r_st (rq r) = Queued;
  v_nodup_l : forall l, NoDup (l_wq (lps l) ++ l_local (lps l));
  v_loopq : forall l r, In r (l_wq (lps l) ++ l_local (lps l)) <->
              (r_loop (rq r) = l /\ (r_st (rq r) = Finished \/ r_st (rq r) = Cancelled));
  v_local : forall l, l_in_done (lps l) = false -> l_local (lps l) = [];
  v_running : forall r w, r_st (rq r) = Running w <-> rn w = Some r;
  v_limbo : forall r, r_st (rq r) = Limbo -> l_pc (lps (r_loop (rq r))) = LCancel3 r;
  v_ctwo : forall l r, l_pc (lps l) = LCancel2 r ->
              r_loop (rq r) = l /\
              (r_st (rq r) = Queued \/ (exists w, r_st (rq r) = Running w) \/
               r_st (rq r) = Finished \/ r_st (rq r) = Cancelled);
  v_cthree : forall l r, l_pc (lps l) = LCancel3 r -> r_loop (rq r) = l /\ r_st (rq r) = Limbo;
  v_work : forall r, work_matches (rq r);
  v_free : forall r, n <= r -> r_st (rq r) = RFree;
  v_nwork : forall r, nwork r tr = nwork_expected (r_st (rq r));
  v_ndone : forall r, ndone r tr = ndone_expected (r_st (rq r));
  v_done_ev : forall r t st, In (EDone r t st) tr -> r_st (rq r) = Done st /\ t = r_loop (rq r);
  v_work_ev : forall r t, In (EWork r t) tr -> c_loops c <= t < c_loops c + c_n c;
  v_submit_ev : forall r l k, In (ESubmit r l k) tr -> r_loop (rq r) = l /\ r < n /\ l < c_loops c;
  v_cancel_ev : forall r, (exists t, In (ECancel r t 0%Z) tr) ->
              r_st (rq r) = Limbo \/ r_st (rq r) = Cancelled \/ r_st (rq r) = Done UV_ECANCELED;
  v_cancelled_ev : forall r, r_st (rq r) = Cancelled \/ r_st (rq r) = Done UV_ECANCELED ->
              exists t, In (ECancel r t 0%Z) tr;
  v_ordered : ordered tr;
  v_wd : forall l, l_pc (lps l) = LWorkDone \/ l_pc (lps l) = LDrain -> l_in_done (lps l) = false
}.

Lemma IV_ext c q n rq rn lps tr q' n' rq' rn' lps' tr' :
  IV c q n rq rn lps tr ->
  q' = q -> n' = n -> (forall r, rq' r = rq r) -> (forall w, rn' w = rn w) ->
  (forall l, lps' l = lps l) -> tr' = tr ->
  IV c q' n' rq' rn' lps' tr'.
Proof.
  intros H -> -> Hr Hw Hl ->.
  destruct H. constructor; intros; rewrite ?Hr, ?Hl, ?Hw in *; eauto.
Qed.

Lemma IV_neutral c q n rq rn lps tr e :
  neutral e -> IV c q n rq rn lps tr -> IV c q n rq rn lps (e :: tr).
Proof.
  intros He H. destruct H. constructor; auto.
  - intros r. rewrite nwork_cons. destruct e; cbn in He |- *; try contradiction; auto.
  - intros r. rewrite ndone_cons. destruct e; cbn in He |- *; try contradiction; auto.
  - intros r t st [E|E]; [subst; contradiction | auto].
  - intros r t [E|E]; [subst; contradiction | eauto].
  - intros r l k [E|E]; [subst; contradiction | eauto].
  - intros r [t [E|E]]; [subst; cbn in He; congruence | eauto].
  - intros r Hr. destruct (v_cancelled_ev0 r Hr) as [t Ht]. exists t. right. exact Ht.
  - cbn. split; [|assumption]. destruct e; cbn in He; try contradiction; exact I.
Qed.

Ltac dupd :=
  unfold updf in *;
  match goal with
  | |- context[Nat.eqb ?a ?b] => destruct (Nat.eqb_spec a b); try subst
  | H : context[Nat.eqb ?a ?b] |- _ => destruct (Nat.eqb_spec a b); try subst
  end.

Ltac dupv :=
  unfold updf in *;
  match goal with
  | |- context[Nat.eqb ?a ?b] => destruct (Nat.eqb_spec a b); try subst a
  | H : context[Nat.eqb ?a ?b] |- _ => destruct (Nat.eqb_spec a b); try subst a
  end.

Definition with_st (x : req) st := mkReq (r_loop x) (r_kind x) (r_work x) st.
Definition with_ws (x : req) wf st := mkReq (r_loop x) (r_kind x) wf st.

(* changes of a loop record that do not move requests *)
Lemma IV_loop c q n rq rn lps tr l x' :
  IV c q n rq rn lps tr ->
  l_wq x' ++ l_local x' = l_wq (lps l) ++ l_local (lps l) ->
  (l_in_done x' = false -> l_local x' = []) ->
  (forall r, l_pc (lps l) <> LCancel3 r) ->
  (forall r, l_pc x' <> LCancel2 r) -> (forall r, l_pc x' <> LCancel3 r) ->
  (l_pc x' = LWorkDone \/ l_pc x' = LDrain -> l_in_done x' = false) ->
  IV c q n rq rn (updf lps l x') tr.
Proof.
  intros H H1 H2 H3 H4 H5 H6. destruct H. constructor; auto.
  - intros l0. dupd; [rewrite H1|]; auto.
  - intros l0 r. dupd; [rewrite H1|]; auto.
  - intros l0. dupd; auto.
  - intros r Hr. dupd; auto. apply v_limbo0 in Hr. exfalso. eapply H3; eauto.
  - intros l0 r Hr. dupd; auto. exfalso. eapply H4; eauto.
  - intros l0 r Hr. dupd; auto. exfalso. eapply H5; eauto.
  - intros l0. dupd; auto.
Qed.

(* a worker takes request r from the queues and runs it *)
Lemma IV_start c q n rq rn lps tr r w t :
  IV c q n rq rn lps tr -> In r q -> rn w = None ->
  c_loops c <= t < c_loops c + c_n c ->
  IV c (rem r q) n (updf rq r (with_st (rq r) (Running w))) (updf rn w (Some r)) lps
     (EWork r t :: tr).
Proof.
  intros H Hq Hw Ht. destruct H.
  assert (Hst : r_st (rq r) = Queued) by (apply v_queued0; exact Hq).
  constructor.
  - apply rem_NoDup; assumption.
  - intros r0. rewrite rem_In, v_queued0. dupd; cbn; intuition congruence.
  - assumption.
  - intros l r0. rewrite v_loopq0. dupd; cbn; intuition congruence.
  - assumption.
  - intros r0 w0. unfold updf.
    destruct (Nat.eqb_spec r0 r), (Nat.eqb_spec w0 w); subst; cbn.
    + intuition congruence.
    + split; [congruence|]. intros E. apply v_running0 in E. congruence.
    + split; [|congruence]. intros E. apply v_running0 in E. congruence.
    + apply v_running0.
  - intros r0. dupd; cbn; [congruence | apply v_limbo0].
  - intros l r0 Hl. apply v_ctwo0 in Hl. dupd; cbn; [|assumption].
    split; [tauto|]. right. left. eexists. reflexivity.
  - intros l r0 Hl. apply v_cthree0 in Hl. dupd; cbn; [|assumption]. destruct Hl. congruence.
  - intros r0. dupd; [|apply v_work0]. specialize (v_work0 r). unfold work_matches in *. cbn.
    rewrite Hst in v_work0. exact v_work0.
  - intros r0 Hn. apply v_free0 in Hn. dupd; cbn; [congruence|assumption].
  - intros r0. rewrite nwork_work, v_nwork0. dupd; cbn; [rewrite Hst|]; reflexivity.
  - intros r0. rewrite ndone_cons. cbn. rewrite v_ndone0. dupd; cbn; [rewrite Hst|]; reflexivity.
  - intros r0 t0 st [E|E]; [discriminate|]. apply v_done_ev0 in E. dupd; cbn; [|assumption].
    destruct E. congruence.
  - intros r0 t0 [E|E]; [injection E as -> ->; assumption | eauto].
  - intros r0 l k [E|E]; [discriminate|]. apply v_submit_ev0 in E. dupd; cbn; assumption.
  - intros r0 [t0 [E|E]]; [discriminate|].
    assert (X := v_cancel_ev0 r0 (ex_intro _ t0 E)). dupd; cbn; [|assumption].
    intuition congruence.
  - intros r0 Hr. dupd; cbn in Hr.
    + intuition congruence.
    + destruct (v_cancelled_ev0 r0 Hr) as [t0 E]. exists t0. right. exact E.
  - cbn. split; [exact I | assumption].
  - assumption.
Qed.

(* the work function returned: the worker appends r to the wq of its loop *)
Lemma IV_complete c q n rq rn lps tr r w l x' :
  IV c q n rq rn lps tr -> rn w = Some r -> l = r_loop (rq r) ->
  l_wq x' = l_wq (lps l) ++ [r] -> l_local x' = l_local (lps l) ->
  l_in_done x' = l_in_done (lps l) -> l_pc x' = l_pc (lps l) ->
  IV c q n (updf rq r (with_ws (rq r) WNull Finished)) (updf rn w None) (updf lps l x') tr.
Proof.
  intros H Hw Hl E1 E2 E3 E4. destruct H.
  assert (Hst : r_st (rq r) = Running w) by (apply v_running0; exact Hw).
  assert (Hnl : forall l0, ~ In r (l_wq (lps l0) ++ l_local (lps l0))).
  { intros l0 X. apply v_loopq0 in X. intuition congruence. }
  constructor.
  - assumption.
  - intros r0. rewrite v_queued0. dupd; cbn; intuition congruence.
  - intros l0. unfold updf. destruct (Nat.eqb_spec l0 l); [|auto]. rewrite E1, E2.
    apply NoDup_snoc_mid; auto.
  - intros l0 r0. unfold updf.
    destruct (Nat.eqb_spec l0 l) as [->|Nl], (Nat.eqb_spec r0 r) as [->|Nr]; cbn.
    + rewrite E1, E2, In_snoc_mid. intuition.
    + rewrite E1, E2, In_snoc_mid, v_loopq0. intuition.
    + split; [intros X; exfalso; eapply Hnl; eauto | intros [X _]; congruence].
    + apply v_loopq0.
  - intros l0. dupd; [|auto]. rewrite E2, E3. auto.
  - intros r0 w0. unfold updf.
    destruct (Nat.eqb_spec r0 r) as [->|Nr], (Nat.eqb_spec w0 w) as [->|Nw]; cbn.
    + split; discriminate.
    + split; [discriminate|]. intros X. apply v_running0 in X. congruence.
    + split; [|discriminate]. intros X. apply v_running0 in X. congruence.
    + apply v_running0.
  - intros r0. unfold updf. destruct (Nat.eqb_spec r0 r) as [->|Nr]; cbn; [discriminate|].
    intros X. apply v_limbo0 in X. destruct (Nat.eqb_spec (r_loop (rq r0)) l) as [e|]; [|exact X].
    rewrite e in X. rewrite E4. exact X.
  - intros l0 r0. unfold updf. destruct (Nat.eqb_spec l0 l) as [->|Nl].
    + rewrite E4. intros X. apply v_ctwo0 in X.
      destruct (Nat.eqb_spec r0 r) as [->|Nr]; cbn; [|exact X]. split; [tauto|]. auto.
    + intros X. apply v_ctwo0 in X.
      destruct (Nat.eqb_spec r0 r) as [->|Nr]; cbn; [|exact X]. split; [tauto|]. auto.
  - intros l0 r0. unfold updf. destruct (Nat.eqb_spec l0 l) as [->|Nl].
    + rewrite E4. intros X. apply v_cthree0 in X.
      destruct (Nat.eqb_spec r0 r) as [->|Nr]; cbn; [|exact X]. destruct X. congruence.
    + intros X. apply v_cthree0 in X.
      destruct (Nat.eqb_spec r0 r) as [->|Nr]; cbn; [|exact X]. destruct X. congruence.
  - intros r0. dupd; [|apply v_work0]. reflexivity.
  - intros r0 Hn. apply v_free0 in Hn. dupd; cbn; [congruence|assumption].
  - intros r0. rewrite v_nwork0. dupd; cbn; [rewrite Hst|]; reflexivity.
  - intros r0. rewrite v_ndone0. dupd; cbn; [rewrite Hst|]; reflexivity.
  - intros r0 t0 st E. apply v_done_ev0 in E. dupd; cbn; [|assumption]. destruct E. congruence.
  - assumption.
  - intros r0 l0 k E. apply v_submit_ev0 in E. dupd; cbn; assumption.
  - intros r0 E. apply v_cancel_ev0 in E. dupd; cbn; [|assumption]. intuition congruence.
  - intros r0 Hr. dupd; cbn in Hr; [intuition congruence | auto].
  - assumption.
  - intros l0. dupd; [|auto]. rewrite E3, E4. auto.
Qed.

(* uv__work_submit of the fresh request n *)
Lemma IV_submit c q n rq rn lps tr q' l k :
  IV c q n rq rn lps tr -> Permutation q' (n :: q) -> l < c_loops c ->
  IV c q' (S n) (updf rq n (mkReq l k WFn Queued)) rn lps (ESubmit n l k :: tr).
Proof.
  intros H Hp Hl. destruct H.
  assert (Hst : r_st (rq n) = RFree) by (apply v_free0; lia).
  assert (Hin : forall x, In x q' <-> x = n \/ In x q).
  { intros x. split; intros X.
    - apply (Permutation_in _ Hp) in X. destruct X; auto.
    - apply (Permutation_in _ (Permutation_sym Hp)). destruct X; [left|right]; auto. }
  constructor.
  - apply (Permutation_NoDup (Permutation_sym Hp)). constructor; [|assumption].
    intros X. apply v_queued0 in X. congruence.
  - intros r0. rewrite Hin, v_queued0. dupd; cbn; intuition congruence.
  - assumption.
  - intros l0 r0. rewrite v_loopq0. dupd; cbn; intuition congruence.
  - assumption.
  - intros r0 w0. rewrite <- v_running0. dupd; cbn; [|tauto]. split; congruence.
  - intros r0. dupd; cbn; [discriminate | apply v_limbo0].
  - intros l0 r0 X. apply v_ctwo0 in X. dupd; cbn; [|assumption].
    destruct X as [_ [X|[[w X]|[X|X]]]]; congruence.
  - intros l0 r0 X. apply v_cthree0 in X. dupd; cbn; [|assumption]. destruct X. congruence.
  - intros r0. dupd; [|apply v_work0]. reflexivity.
  - intros r0 Hn. dupd; [lia|]. apply v_free0. lia.
  - intros r0. rewrite nwork_cons. cbn. rewrite v_nwork0. dupd; cbn; [rewrite Hst|]; reflexivity.
  - intros r0. rewrite ndone_cons. cbn. rewrite v_ndone0. dupd; cbn; [rewrite Hst|]; reflexivity.
  - intros r0 t0 st [E|E]; [discriminate|]. apply v_done_ev0 in E. dupd; cbn; [|assumption].
    destruct E. congruence.
  - intros r0 t0 [E|E]; [discriminate | eauto].
  - intros r0 l0 k0 [E|E].
    + injection E as -> -> ->. unfold updf. rewrite Nat.eqb_refl. cbn. repeat split; lia.
    + apply v_submit_ev0 in E. destruct E as [E1 [E2 E3]]. dupd; [lia|]. repeat split; auto.
  - intros r0 [t0 [E|E]]; [discriminate|].
    assert (X := v_cancel_ev0 r0 (ex_intro _ t0 E)). dupd; cbn; [|assumption].
    intuition congruence.
  - intros r0 Hr. dupd; cbn in Hr.
    + intuition congruence.
    + destruct (v_cancelled_ev0 r0 Hr) as [t0 E]. exists t0. right. exact E.
  - cbn. split; [exact I | assumption].
  - assumption.
Qed.

(* uv_cancel: the request is valid; take the global mutex *)
Lemma IV_cancel_enter c q n rq rn lps tr l r x' :
  IV c q n rq rn lps tr -> l_pc (lps l) = LReady ->
  l_wq x' = l_wq (lps l) -> l_local x' = l_local (lps l) -> l_in_done x' = l_in_done (lps l) ->
  l_pc x' = LCancel2 r -> r_loop (rq r) = l ->
  match r_st (rq r) with Done _ => false | RFree => false | _ => true end = true ->
  IV c q n rq rn (updf lps l x') tr.
Proof.
  intros H Hpc E1 E2 E3 E4 Hl Hv. destruct H. constructor; auto.
  - intros l0. dupd; [rewrite E1, E2|]; auto.
  - intros l0 r0. dupd; [rewrite E1, E2|]; auto.
  - intros l0. dupd; [rewrite E2, E3|]; auto.
  - intros r0 X. apply v_limbo0 in X. dupd; [congruence|assumption].
  - intros l0 r0 X. dupd; [|auto]. rewrite E4 in X. injection X as ->. split; [reflexivity|].
    destruct (r_st (rq r0)) eqn:E; try discriminate; eauto.
    apply v_limbo0 in E. congruence.
  - intros l0 r0 X. dupd; [congruence|auto].
  - intros l0 X. dupd; [|auto]. rewrite E4 in X. destruct X; discriminate.
Qed.

(* the test of uv__work_cancel, lines 288-289 *)
Lemma IV_cancel_cond c q n rq rn lps tr l r :
  IV c q n rq rn lps tr -> l_pc (lps l) = LCancel2 r ->
  ((In r q \/ In r (l_wq (lps l)) \/ In r (l_local (lps l))) /\ r_work (rq r) <> WNull) <->
  (r_st (rq r) = Queued \/ r_st (rq r) = Cancelled).
Proof.
  intros H Hpc. destruct H. destruct (v_ctwo0 _ _ Hpc) as [Hl _].
  assert (W := v_work0 r). unfold work_matches in W.
  split.
  - intros [[X|X] Hw].
    + left. apply v_queued0. exact X.
    + assert (Y : In r (l_wq (lps l) ++ l_local (lps l))) by (apply in_app_iff; exact X).
      apply v_loopq0 in Y. destruct Y as [_ [Y|Y]]; [|auto]. rewrite Y in W. contradiction.
  - intros [X|X]; rewrite X in W.
    + split; [|congruence]. left. apply v_queued0. exact X.
    + split; [|congruence]. right. apply in_app_iff. apply v_loopq0. auto.
Qed.

Lemma IV_cancel_yes c q n rq rn lps tr l r x' :
  IV c q n rq rn lps tr -> l_pc (lps l) = LCancel2 r ->
  (r_st (rq r) = Queued \/ r_st (rq r) = Cancelled) ->
  l_wq x' = rem r (l_wq (lps l)) -> l_local x' = rem r (l_local (lps l)) ->
  l_in_done x' = l_in_done (lps l) -> l_pc x' = LCancel3 r ->
  IV c (rem r q) n (updf rq r (with_ws (rq r) WCancelled Limbo)) rn (updf lps l x') tr.
Proof.
  intros H Hpc Hst E1 E2 E3 E4. destruct H. destruct (v_ctwo0 _ _ Hpc) as [Hl _]. subst l.
  constructor.
  - apply rem_NoDup; assumption.
  - intros r0. rewrite rem_In, v_queued0. dupd; cbn; intuition congruence.
  - intros l0. dupd; [|auto]. rewrite E1, E2, <- rem_app. apply rem_NoDup. auto.
  - intros l0 r0. unfold updf.
    destruct (Nat.eqb_spec l0 (r_loop (rq r))) as [->|Nl], (Nat.eqb_spec r0 r) as [->|Nr]; cbn.
    + rewrite E1, E2, <- rem_app, rem_In. intuition congruence.
    + rewrite E1, E2, <- rem_app, rem_In, v_loopq0. intuition.
    + rewrite v_loopq0. intuition congruence.
    + apply v_loopq0.
  - intros l0. dupd; [|auto]. rewrite E2, E3. intros X. rewrite (v_local0 _ X). reflexivity.
  - intros r0 w0. rewrite <- v_running0. dupd; cbn; [|tauto].
    split; [discriminate|]. intros X. destruct Hst; congruence.
  - intros r0. unfold updf. destruct (Nat.eqb_spec r0 r) as [->|Nr]; cbn.
    + rewrite Nat.eqb_refl. auto.
    + intros X. apply v_limbo0 in X.
      destruct (Nat.eqb_spec (r_loop (rq r0)) (r_loop (rq r))) as [e|]; [|exact X].
      rewrite e in X. congruence.
  - intros l0 r0 X. unfold updf in X. destruct (Nat.eqb_spec l0 (r_loop (rq r))); [congruence|].
    apply v_ctwo0 in X. dupd; cbn; [|assumption]. destruct X. congruence.
  - intros l0 r0 X. unfold updf in X. destruct (Nat.eqb_spec l0 (r_loop (rq r))) as [->|].
    + rewrite E4 in X. injection X as ->. unfold updf. rewrite Nat.eqb_refl. cbn. auto.
    + apply v_cthree0 in X. dupd; cbn; [|assumption]. destruct X. congruence.
  - intros r0. dupd; [|apply v_work0]. reflexivity.
  - intros r0 Hn. apply v_free0 in Hn. dupd; cbn; [destruct Hst; congruence|assumption].
  - intros r0. rewrite v_nwork0. dupd; cbn; [destruct Hst as [X|X]; rewrite X|]; reflexivity.
  - intros r0. rewrite v_ndone0. dupd; cbn; [destruct Hst as [X|X]; rewrite X|]; reflexivity.
  - intros r0 t0 st E. apply v_done_ev0 in E. dupd; cbn; [|assumption].
    destruct E. destruct Hst; congruence.
  - assumption.
  - intros r0 l0 k E. apply v_submit_ev0 in E. dupd; cbn; assumption.
  - intros r0 E. apply v_cancel_ev0 in E. dupd; cbn; [auto|assumption].
  - intros r0 Hr. dupd; cbn in Hr; [intuition congruence | auto].
  - assumption.
  - intros l0 X. dupd; [|auto]. rewrite E4 in X. destruct X; discriminate.
Qed.

(* uv__work_cancel, lines 300-305 *)
Lemma IV_cancel3 c q n rq rn lps tr l r x' :
  IV c q n rq rn lps tr -> l_pc (lps l) = LCancel3 r ->
  l_wq x' = l_wq (lps l) ++ [r] -> l_local x' = l_local (lps l) ->
  l_in_done x' = l_in_done (lps l) -> l_pc x' = LReady ->
  IV c q n (updf rq r (with_st (rq r) Cancelled)) rn (updf lps l x') (ECancel r l 0%Z :: tr).
Proof.
  intros H Hpc E1 E2 E3 E4. destruct H. destruct (v_cthree0 _ _ Hpc) as [Hl Hst]. subst l.
  assert (Hnl : forall l0, ~ In r (l_wq (lps l0) ++ l_local (lps l0))).
  { intros l0 X. apply v_loopq0 in X. intuition congruence. }
  constructor.
  - assumption.
  - intros r0. rewrite v_queued0. dupd; cbn; intuition congruence.
  - intros l0. unfold updf. destruct (Nat.eqb_spec l0 (r_loop (rq r))); [|auto]. rewrite E1, E2.
    apply NoDup_snoc_mid; auto.
  - intros l0 r0. unfold updf.
    destruct (Nat.eqb_spec l0 (r_loop (rq r))) as [->|Nl], (Nat.eqb_spec r0 r) as [->|Nr]; cbn.
    + rewrite E1, E2, In_snoc_mid. intuition.
    + rewrite E1, E2, In_snoc_mid, v_loopq0. intuition.
    + split; [intros X; exfalso; eapply Hnl; eauto | intros [X _]; congruence].
    + apply v_loopq0.
  - intros l0. dupd; [|auto]. rewrite E2, E3. auto.
  - intros r0 w0. rewrite <- v_running0. dupd; cbn; [|tauto]. split; congruence.
  - intros r0. unfold updf. destruct (Nat.eqb_spec r0 r) as [->|Nr]; cbn; [discriminate|].
    intros X. apply v_limbo0 in X.
    destruct (Nat.eqb_spec (r_loop (rq r0)) (r_loop (rq r))) as [e|]; [|exact X].
    rewrite e in X. congruence.
  - intros l0 r0 X. unfold updf in X. destruct (Nat.eqb_spec l0 (r_loop (rq r))); [congruence|].
    apply v_ctwo0 in X. dupd; cbn; [|assumption]. destruct X as [_ [X|[[w X]|[X|X]]]]; congruence.
  - intros l0 r0 X. unfold updf in X. destruct (Nat.eqb_spec l0 (r_loop (rq r))); [congruence|].
    apply v_cthree0 in X. dupd; cbn; [|assumption]. destruct X. congruence.
  - intros r0. dupd; [|apply v_work0]. specialize (v_work0 r). unfold work_matches in *. cbn.
    rewrite Hst in v_work0. exact v_work0.
  - intros r0 Hn. apply v_free0 in Hn. dupd; cbn; [congruence|assumption].
  - intros r0. rewrite nwork_cons. cbn. rewrite v_nwork0. dupd; cbn; [rewrite Hst|]; reflexivity.
  - intros r0. rewrite ndone_cons. cbn. rewrite v_ndone0. dupd; cbn; [rewrite Hst|]; reflexivity.
  - intros r0 t0 st [E|E]; [discriminate|]. apply v_done_ev0 in E. dupd; cbn; [|assumption].
    destruct E. congruence.
  - intros r0 t0 [E|E]; [discriminate | eauto].
  - intros r0 l0 k [E|E]; [discriminate|]. apply v_submit_ev0 in E. dupd; cbn; assumption.
  - intros r0 [t0 E]. unfold updf. destruct (Nat.eqb_spec r0 r) as [->|Nr]; cbn; [auto|].
    destruct E as [E|E]; [congruence|]. apply v_cancel_ev0. eauto.
  - intros r0 Hr. unfold updf in Hr. destruct (Nat.eqb_spec r0 r) as [e|Nr]; [subst r0|]; cbn in Hr.
    + eexists. left. reflexivity.
    + destruct (v_cancelled_ev0 r0 Hr) as [t0 E]. exists t0. right. exact E.
  - cbn. split; [exact I | assumption].
  - intros l0 X. dupd; [|auto]. rewrite E4 in X. destruct X; discriminate.
Qed.

(* one round of the loop of uv__work_done: pop r, run its callback *)
Lemma IV_deliver1 c q n rq rn lps tr l r rest x' status :
  IV c q n rq rn lps tr -> l_pc (lps l) = LReady -> l_local (lps l) = r :: rest ->
  l_wq x' = l_wq (lps l) -> l_local x' = rest -> l_in_done x' = true -> l_pc x' = LReady ->
  status = match r_work (rq r) with WCancelled => UV_ECANCELED | _ => 0%Z end ->
  IV c q n (updf rq r (with_st (rq r) (Done status))) rn (updf lps l x') (EDone r l status :: tr).
Proof.
  intros H Hpc Hloc E1 E2 E3 E4 Hs. destruct H.
  assert (Hin : In r (l_wq (lps l) ++ l_local (lps l))).
  { rewrite Hloc. apply in_app_iff. right. left. reflexivity. }
  destruct (proj1 (v_loopq0 _ _) Hin) as [Hl Hst].
  assert (Hnd := v_nodup_l0 l). rewrite Hloc in Hnd.
  assert (W := v_work0 r). unfold work_matches in W.
  assert (Hcase : (r_st (rq r) = Finished /\ status = 0%Z /\ r_work (rq r) = WNull) \/
                  (r_st (rq r) = Cancelled /\ status = UV_ECANCELED /\ r_work (rq r) = WCancelled)).
  { destruct Hst as [X|X]; rewrite X in W; rewrite W in Hs; auto. }
  clear Hs W.
  constructor.
  - assumption.
  - intros r0. rewrite v_queued0. dupv; cbn; intuition congruence.
  - intros l0. dupv; [|auto]. rewrite E1, E2. eapply NoDup_remove_1; eauto.
  - intros l0 r0. unfold updf.
    destruct (Nat.eqb_spec l0 l) as [->|Nl], (Nat.eqb_spec r0 r) as [->|Nr]; cbn.
    + rewrite E1, E2. split; [|intros [_ [X|X]]; discriminate].
      intros X. exfalso. eapply NoDup_remove_2; eauto.
    + rewrite E1, E2, <- v_loopq0, Hloc, !in_app_iff. cbn. intuition congruence.
    + rewrite v_loopq0. intuition congruence.
    + apply v_loopq0.
  - intros l0. dupv; [|auto]. congruence.
  - intros r0 w0. rewrite <- v_running0. dupv; cbn; [|tauto]. split; [discriminate|].
    destruct Hst; congruence.
  - intros r0. unfold updf. destruct (Nat.eqb_spec r0 r) as [->|Nr]; cbn; [discriminate|].
    intros X. apply v_limbo0 in X.
    destruct (Nat.eqb_spec (r_loop (rq r0)) l) as [e|]; [|exact X].
    rewrite e in X. congruence.
  - intros l0 r0 X. unfold updf in X. destruct (Nat.eqb_spec l0 l); [congruence|].
    apply v_ctwo0 in X. dupv; cbn; [|assumption]. destruct X. congruence.
  - intros l0 r0 X. unfold updf in X. destruct (Nat.eqb_spec l0 l); [congruence|].
    apply v_cthree0 in X. dupv; cbn; [|assumption]. destruct X. congruence.
  - intros r0. dupv; [|apply v_work0]. unfold work_matches. cbn.
    destruct Hcase as [[_ [X Y]]|[_ [X Y]]]; auto.
  - intros r0 Hn. apply v_free0 in Hn. dupv; cbn; [destruct Hst; congruence|assumption].
  - intros r0. rewrite nwork_cons. cbn. rewrite v_nwork0. dupv; cbn; [|reflexivity].
    destruct Hcase as [[X [Y _]]|[X [Y _]]]; rewrite X, Y; reflexivity.
  - intros r0. rewrite ndone_done. rewrite v_ndone0. dupv; cbn; [|reflexivity].
    destruct Hst as [X|X]; rewrite X; reflexivity.
  - intros r0 t0 st [E|E].
    + injection E as -> -> ->. unfold updf. rewrite Nat.eqb_refl. cbn. auto.
    + apply v_done_ev0 in E. dupv; cbn; [|assumption]. destruct E. destruct Hst; congruence.
  - intros r0 t0 [E|E]; [discriminate | eauto].
  - intros r0 l0 k [E|E]; [discriminate|]. apply v_submit_ev0 in E. dupv; cbn; assumption.
  - intros r0 [t0 [E|E]]; [discriminate|].
    assert (X := v_cancel_ev0 r0 (ex_intro _ t0 E)). dupv; cbn; [|assumption].
    destruct Hcase as [[Y _]|[_ [Y _]]]; [intuition congruence|]. rewrite Y. auto.
  - intros r0 Hr. unfold updf in Hr. destruct (Nat.eqb_spec r0 r) as [e|Nr]; [subst r0|]; cbn in Hr.
    + destruct Hcase as [[_ [Y _]]|[Y _]].
      * rewrite Y in Hr. destruct Hr; discriminate.
      * destruct (v_cancelled_ev0 r (or_introl Y)) as [t0 E]. exists t0. right. exact E.
    + destruct (v_cancelled_ev0 r0 Hr) as [t0 E]. exists t0. right. exact E.
  - cbn. split; [|assumption]. split.
    + intros X. destruct Hcase as [[Y _]|[_ [Y _]]]; [|rewrite Y in X; discriminate].
      apply nwork_in. rewrite v_nwork0, Y. cbn. lia.
    + intros X. destruct Hcase as [[_ [Y _]]|[Y [Z _]]]; [contradiction|]. split; auto.
  - intros l0 X. dupv; [|auto]. rewrite E4 in X. destruct X; discriminate.
Qed.

Lemma IV_neutrals c q n rq rn lps tr evs :
  Forall neutral evs -> IV c q n rq rn lps tr -> IV c q n rq rn lps (evs ++ tr).
Proof.
  intros Hf H. induction Hf as [|e evs He Hf IH]; [exact H|].
  cbn. apply IV_neutral; assumption.
Qed.

(* ---------------- the view of a state ---------------- *)
Definition Q (s : state) : list nat := wq_reqs (wq s) ++ sp s.
Definition runof_f (f : nat -> wpc) (w : nat) : option nat :=
  match f w with WRun r _ => Some r | _ => None end.
Definition runof (s : state) := runof_f (wk s).
Definition InvX (c : config) (s : state) : Prop :=
  IV c (Q s) (nreq s) (reqs s) (runof s) (lp s) (trace s).

Lemma InvX_InvA c s : InvX c s -> InvA c s.
Proof.
  intros H. destruct H. constructor; auto.
  intros r w. rewrite v_running0. unfold runof, runof_f. destruct (wk s w); split.
  all: try discriminate.
  all: try (intros [b X]; discriminate).
  - intros X. injection X as ->. eexists. reflexivity.
  - intros [b X]. injection X as -> _. reflexivity.
Qed.

Lemma InvX_init c progs : InvX c (init c progs).
Proof.
  constructor; cbn; intros; try discriminate; try contradiction; auto.
  - constructor.
  - split; [contradiction|discriminate].
  - unfold init_loop. cbn. constructor.
  - unfold init_loop in *. cbn in *. split; [contradiction|]. intros [_ [X|X]]; discriminate.
  - unfold runof, runof_f. cbn. split; discriminate.
  - unfold init_loop in *. cbn in *. destruct (nth l progs []); discriminate.
  - unfold init_loop in *. cbn in *. destruct (nth l progs []); discriminate.
  - destruct H as [t []].
  - destruct H; discriminate.
Qed.

(* neutral changes of a state: everything the view shows is kept, except the queues *)
Definition shape (s s' : state) : Prop :=
  nreq s' = nreq s /\ reqs s' = reqs s /\ lp s' = lp s /\
  (forall w, runof s' w = runof s w) /\
  exists evs, trace s' = evs ++ trace s /\ Forall neutral evs.

Lemma shape_refl s : shape s s.
Proof. repeat split; auto. exists []. split; [reflexivity|constructor]. Qed.

Lemma shape_trans a b d : shape a b -> shape b d -> shape a d.
Proof.
  intros [A1 [A2 [A3 [A4 [e1 [A5 A6]]]]]] [B1 [B2 [B3 [B4 [e2 [B5 B6]]]]]].
  repeat split; try congruence.
  exists (e2 ++ e1). split; [rewrite B5, A5, app_assoc; reflexivity|].
    apply Forall_app. split; assumption.
Qed.

Lemma shape_emit s e : neutral e -> shape s (emit s e).
Proof.
  intros He. repeat split; auto. exists [e]. split; [reflexivity|]. constructor; [exact He|constructor].
Qed.
Lemma shape_sync s t o : shape s (sync_ev s t o).
Proof. apply shape_emit. exact I. Qed.
Lemma shape_set_wq s v : shape s (set_wq s v).
Proof. repeat split; auto. exists []. split; [reflexivity|constructor]. Qed.
Lemma shape_set_sp s v : shape s (set_sp s v).
Proof. repeat split; auto. exists []. split; [reflexivity|constructor]. Qed.
Lemma shape_set_idle s v : shape s (set_idle s v).
Proof. repeat split; auto. exists []. split; [reflexivity|constructor]. Qed.
Lemma shape_set_running s v : shape s (set_running s v).
Proof. repeat split; auto. exists []. split; [reflexivity|constructor]. Qed.
Lemma shape_set_gmutex s v : shape s (set_gmutex s v).
Proof. repeat split; auto. exists []. split; [reflexivity|constructor]. Qed.

Definition not_run (p : wpc) : Prop := match p with WRun _ _ => False | _ => True end.

Lemma shape_set_worker s w p : runof s w = None -> not_run p -> shape s (set_worker s w p).
Proof.
  intros Hw Hp. repeat split; auto.
  - intros w0. unfold runof, runof_f, set_worker, updf. cbn.
    destruct (Nat.eqb_spec w0 w); [subst|reflexivity].
    destruct p; cbn in Hp; try contradiction; symmetry; exact Hw.
  - exists []. split; [reflexivity|constructor].
Qed.

Lemma signal_facts c t aux s :
  shape s (signal c t aux s) /\ wq (signal c t aux s) = wq s /\ sp (signal c t aux s) = sp s.
Proof.
  unfold signal. cbn [wk sync_ev emit].
  destruct (waiters (c_n c) (wk s)) as [|a ws] eqn:E.
  - split; [apply shape_sync|split; reflexivity].
  - split; [|split; reflexivity].
    eapply shape_trans; [apply shape_sync|]. apply shape_set_worker; [|exact I].
    set (k := Nat.modulo aux (length (a :: ws))).
    assert (Hin : In (nth k (a :: ws) 0) (a :: ws)).
    { apply nth_In. apply Nat.mod_upper_bound. cbn. lia. }
    remember (nth k (a :: ws) 0) as x eqn:Ex. clear Ex.
    rewrite <- E in Hin. unfold waiters in Hin. apply filter_In in Hin. destruct Hin as [_ Hu].
    unfold runof, runof_f. cbn [wk sync_ev emit].
    destruct (wk s x); try reflexivity. discriminate.
Qed.

Lemma signal_if_idle_facts c t aux s :
  shape s (signal_if_idle c t aux s) /\ wq (signal_if_idle c t aux s) = wq s /\
  sp (signal_if_idle c t aux s) = sp s.
Proof.
  unfold signal_if_idle. destruct (Nat.ltb 0 (idle s)); [apply signal_facts|].
  split; [apply shape_refl|split; reflexivity].
Qed.

Lemma InvX_shape c s s' : shape s s' -> Q s' = Q s -> InvX c s -> InvX c s'.
Proof.
  intros [A1 [A2 [A3 [A4 [evs [A5 A6]]]]]] HQ H. unfold InvX.
  eapply IV_ext; [apply (IV_neutrals _ _ _ _ _ _ _ evs A6 H)| | | | | |]; auto.
  - intros r. rewrite A2. reflexivity.
  - intros l. rewrite A3. reflexivity.
Qed.

Lemma rem_mid r (a b : list nat) : NoDup (a ++ r :: b) -> rem r (a ++ r :: b) = a ++ b.
Proof.
  intros H. assert (H2 := NoDup_remove_2 _ _ _ H). rewrite in_app_iff in H2.
  rewrite rem_app. cbn. rewrite Nat.eqb_refl. cbn.
  change (filter (fun x : nat => negb (x =? r)) b) with (rem r b).
  rewrite (rem_notin r a), (rem_notin r b); tauto.
Qed.

(* ---------------- workers ---------------- *)
Lemma InvX_start c t w r slow s s2 :
  InvX c s -> In r (Q s) -> runof s w = None -> c_loops c <= t < c_loops c + c_n c ->
  shape s s2 -> Q s2 = rem r (Q s) -> InvX c (start_work t w r slow s2).
Proof.
  intros H Hin Hw Ht [A1 [A2 [A3 [A4 [evs [A5 A6]]]]]] HQ. unfold InvX.
  eapply IV_ext;
    [apply (IV_start c (Q s) (nreq s) (reqs s) (runof s) (lp s)
                     (ESync t SUnlock :: evs ++ trace s) r w t);
     [apply IV_neutral; [exact I|]; apply IV_neutrals; assumption | assumption ..] | ..].
  - exact HQ.
  - exact A1.
  - intros r0. cbn. rewrite A2. reflexivity.
  - intros w0. unfold runof, runof_f. cbn. unfold updf.
    destruct (Nat.eqb_spec w0 w); [reflexivity | apply A4].
  - intros l. cbn. rewrite A3. reflexivity.
  - cbn. rewrite A5. reflexivity.
Qed.

Lemma runof_set_worker s w p w0 :
  runof (set_worker s w p) w0 = updf (runof s) w (match p with WRun r _ => Some r | _ => None end) w0.
Proof. unfold runof, runof_f, set_worker, updf. cbn. destruct (Nat.eqb w0 w); reflexivity. Qed.

Lemma InvX_wloop c t w aux :
  c_loops c <= t < c_loops c + c_n c ->
  forall fuel s, InvX c s -> runof s w = None -> InvX c (wloop fuel c t w aux s).
Proof.
  intros Ht fuel. induction fuel as [|fuel IH]; intros s H Hw; cbn [wloop].
  - destruct (wait_pred c s).
    + apply InvX_shape with (s := s); [|reflexivity|exact H].
      eapply shape_trans; [apply shape_set_idle|]. eapply shape_trans; [apply shape_sync|].
      apply shape_set_worker; [exact Hw|exact I].
    + apply InvX_shape with (s := s); [|reflexivity|exact H].
      eapply shape_trans; [apply shape_sync|]. apply shape_set_worker; [exact Hw|exact I].
  - destruct (wait_pred c s).
    { apply InvX_shape with (s := s); [|reflexivity|exact H].
      eapply shape_trans; [apply shape_set_idle|]. eapply shape_trans; [apply shape_sync|].
      apply shape_set_worker; [exact Hw|exact I]. }
    destruct (wq s) as [|i rest] eqn:Ewq; [exact H|].
    assert (Hnd : NoDup (Q s)) by (destruct H; assumption).
    destruct i as [r| |].
    + (* fast work *)
      apply InvX_start with (s := s); auto.
      * unfold Q. rewrite Ewq. left. reflexivity.
      * apply shape_set_wq.
      * unfold Q in *. rewrite Ewq in *.
        change (wq_reqs rest ++ sp s = rem r ((r :: wq_reqs rest) ++ sp s)).
        change (NoDup ((r :: wq_reqs rest) ++ sp s)) in Hnd.
        symmetry. apply (rem_mid r [] (wq_reqs rest ++ sp s)). exact Hnd.
    + destruct (Nat.leb (threshold (c_n c)) (running s)).
      * apply IH; [|exact Hw]. apply InvX_shape with (s := s); [apply shape_set_wq| |exact H].
        unfold Q. cbn. rewrite Ewq, wq_reqs_app. cbn. rewrite app_nil_r. reflexivity.
      * destruct (sp s) as [|r sp'] eqn:Esp.
        { apply IH; [|exact Hw]. apply InvX_shape with (s := s); [apply shape_set_wq| |exact H].
          unfold Q. cbn. rewrite Ewq. reflexivity. }
        assert (HQ : Q s = wq_reqs rest ++ r :: sp').
        { unfold Q. rewrite Ewq, Esp. reflexivity. }
        apply InvX_start with (s := s); auto.
        -- rewrite HQ. apply in_app_iff. right. left. reflexivity.
        -- destruct sp' as [|r2 sp2].
           ++ eapply shape_trans; [apply shape_set_wq|]. eapply shape_trans; [apply shape_set_running|].
              apply shape_set_sp.
           ++ eapply shape_trans; [|apply signal_if_idle_facts].
              eapply shape_trans; [apply shape_set_wq|]. eapply shape_trans; [apply shape_set_running|].
              eapply shape_trans; [apply shape_set_sp|]. apply shape_set_wq.
        -- rewrite HQ in *. rewrite rem_mid by assumption.
           destruct sp' as [|r2 sp2].
           ++ reflexivity.
           ++ unfold Q. destruct (signal_if_idle_facts c t aux
                 (set_wq (set_sp (set_running (set_wq s rest) (S (running s))) (r2 :: sp2))
                    (wq (set_sp (set_running (set_wq s rest) (S (running s))) (r2 :: sp2)) ++ [ISlowMsg])))
                 as [_ [X1 X2]].
              rewrite X1, X2. cbn. rewrite wq_reqs_app. cbn. rewrite app_nil_r. reflexivity.
    + apply InvX_shape with (s := s); [| |exact H].
      * eapply shape_trans; [apply signal_facts|]. eapply shape_trans; [apply shape_sync|].
        apply shape_set_worker; [|exact I].
        destruct (signal_facts c t aux s) as [[_ [_ [_ [X _]]]] _].
        unfold runof, runof_f in *. cbn. rewrite X. exact Hw.
      * unfold Q. cbn. destruct (signal_facts c t aux s) as [_ [X1 X2]]. rewrite X1, X2. reflexivity.
Qed.

Lemma InvX_complete c t w r slow s :
  InvX c s -> wk s w = WRun r slow -> InvX c (complete t w r slow s).
Proof.
  intros H Ew. unfold InvX.
  set (l := r_loop (reqs s r)).
  eapply IV_ext;
    [apply (IV_complete c (Q s) (nreq s) (reqs s) (runof s) (lp s)
              (ESync t (SUnlockQ l) :: ESync t (SLockQ l) :: trace s) r w l
              (lset_pending (lset_wq (lp s l) (l_wq (lp s l) ++ [r])) true));
     [apply IV_neutral; [exact I|]; apply IV_neutral; [exact I|]; exact H | ..] | ..];
    try reflexivity.
  - unfold runof, runof_f. rewrite Ew. reflexivity.
  - intros r0. cbn. unfold updf, with_ws. rewrite Nat.eqb_refl.
    destruct (Nat.eqb r0 r); reflexivity.
  - intros w0. unfold complete. cbv zeta. rewrite runof_set_worker. reflexivity.
Qed.

Lemma Some_inj {A} (a b : A) : Some a = Some b -> a = b.
Proof. congruence. Qed.

Lemma InvX_wstep c t w aux s s' :
  c_loops c <= t < c_loops c + c_n c -> InvX c s -> wstep c t w aux s = Some s' -> InvX c s'.
Proof.
  intros Ht H. unfold wstep. destruct (wk s w) as [slow|sg|r slow|] eqn:Ew.
  - destruct (is_free (gmutex s)); [|discriminate]. intros E. apply Some_inj in E. subst s'.
    assert (Hw : runof s w = None) by (unfold runof, runof_f; rewrite Ew; reflexivity).
    apply InvX_wloop; auto.
    + apply InvX_shape with (s := s); [|destruct slow; reflexivity|exact H].
      destruct slow.
      * eapply shape_trans; [apply shape_sync|]. eapply shape_trans; [apply shape_set_running|].
        apply shape_set_worker; [exact Hw|exact I].
      * eapply shape_trans; [apply shape_sync|]. apply shape_set_worker; [exact Hw|exact I].
    + rewrite runof_set_worker. unfold updf. rewrite Nat.eqb_refl. reflexivity.
  - destruct ((sg || Nat.eqb aux 1) && is_free (gmutex s)); [|discriminate].
    intros E. apply Some_inj in E. subst s'.
    assert (Hw : runof s w = None) by (unfold runof, runof_f; rewrite Ew; reflexivity).
    apply InvX_wloop; auto.
    + apply InvX_shape with (s := s); [|reflexivity|exact H].
      eapply shape_trans; [apply shape_sync|]. eapply shape_trans; [apply shape_set_idle|].
      apply shape_set_worker; [exact Hw|exact I].
    + rewrite runof_set_worker. unfold updf. rewrite Nat.eqb_refl. reflexivity.
  - intros E. apply Some_inj in E. subst s'. apply InvX_complete; assumption.
  - discriminate.
Qed.

(* ---------------- loop threads ---------------- *)
Lemma lp_set_loop_same s l x : lp (set_loop s l x) l = x.
Proof. unfold set_loop, set_lp, updf. cbn. rewrite Nat.eqb_refl. reflexivity. Qed.

Lemma InvX_set_loop c s l x' :
  InvX c s ->
  l_wq x' ++ l_local x' = l_wq (lp s l) ++ l_local (lp s l) ->
  (l_in_done x' = false -> l_local x' = []) ->
  (forall r, l_pc (lp s l) <> LCancel3 r) ->
  (forall r, l_pc x' <> LCancel2 r) -> (forall r, l_pc x' <> LCancel3 r) ->
  (l_pc x' = LWorkDone \/ l_pc x' = LDrain -> l_in_done x' = false) ->
  InvX c (set_loop s l x').
Proof. intros. unfold InvX. apply (IV_loop c (Q s) (nreq s) (reqs s) (runof s) (lp s) (trace s)); assumption. Qed.

Lemma InvX_local c s l : InvX c s -> l_in_done (lp s l) = false -> l_local (lp s l) = [].
Proof. intros H. destruct H. auto. Qed.

Lemma InvX_settle c s l :
  InvX c s -> l_pc (lp s l) = LReady -> l_in_done (lp s l) = false -> InvX c (settle l s).
Proof.
  intros H Hpc Hd. unfold settle.
  destruct (l_prog (lp s l)).
  - apply InvX_set_loop; auto; cbn.
    + intros _. apply (InvX_local c); assumption.
    + intros r. rewrite Hpc. discriminate.
    + intros r. destruct (Nat.eqb (l_active (lp s l)) 0); discriminate.
    + intros r. destruct (Nat.eqb (l_active (lp s l)) 0); discriminate.
  - apply InvX_set_loop; auto; cbn.
    + intros _. apply (InvX_local c); assumption.
    + intros r. rewrite Hpc. discriminate.
    + discriminate.
    + discriminate.
Qed.

Lemma InvX_deliver c l : forall loc s,
  InvX c s -> l_local (lp s l) = loc -> l_in_done (lp s l) = true -> l_pc (lp s l) = LReady ->
  InvX c (deliver c l loc s).
Proof.
  induction loc as [|r rest IH]; intros s H Hloc Hd Hpc; cbn [deliver].
  - apply InvX_settle.
    + apply InvX_set_loop.
      * apply InvX_shape with (s := s); [apply shape_emit; exact I|reflexivity|exact H].
      * cbn. rewrite Hloc, !app_nil_r. reflexivity.
      * reflexivity.
      * intros r. cbn. rewrite Hpc. discriminate.
      * intros r. cbn. rewrite Hpc. discriminate.
      * intros r. cbn. rewrite Hpc. discriminate.
      * reflexivity.
    + rewrite lp_set_loop_same. cbn. exact Hpc.
    + rewrite lp_set_loop_same. reflexivity.
  - set (status := match r_work (reqs s r) with WCancelled => UV_ECANCELED | _ => 0%Z end).
    set (x1 := lset_active (lset_local (lp s l) rest) (pred (l_active (lp s l)))).
    set (s3 := emit (set_loop (set_rst s r (Done status)) l x1) (EDone r l status)).
    assert (H3 : InvX c s3).
    { unfold InvX.
      eapply IV_ext;
        [apply (IV_deliver1 c (Q s) (nreq s) (reqs s) (runof s) (lp s) (trace s) l r rest x1 status);
         auto | ..]; try reflexivity. }
    assert (L3 : lp s3 l = x1) by apply lp_set_loop_same.
    change (InvX c match c_beh c r with
                   | [] => deliver c l rest s3
                   | o :: ops => set_loop s3 l (lset_pc (lset_cb (lp s3 l) (o :: ops)) LReady)
                   end).
    destruct (c_beh c r) as [|o ops].
    + apply IH; auto; rewrite L3; unfold x1; cbn; auto.
    + apply InvX_set_loop; auto; rewrite L3; unfold x1; cbn; try discriminate; try reflexivity.
      * intros X. congruence.
      * intros r0. rewrite Hpc. discriminate.
      * intros [X|X]; discriminate.
Qed.

Lemma pop_op_facts x :
  l_wq (pop_op x) = l_wq x /\ l_local (pop_op x) = l_local x /\
  l_in_done (pop_op x) = l_in_done x /\ l_pc (pop_op x) = l_pc x.
Proof. unfold pop_op. destruct (l_cb x); cbn; auto. Qed.

Lemma InvX_advance c l s :
  InvX c s -> l_pc (lp s l) = LReady -> InvX c (advance c l s).
Proof.
  intros H Hpc. unfold advance.
  destruct (pop_op_facts (lp s l)) as [P1 [P2 [P3 P4]]].
  set (x := pop_op (lp s l)) in *.
  assert (H1 : InvX c (set_loop s l x)).
  { apply InvX_set_loop; auto.
    - rewrite P1, P2. reflexivity.
    - rewrite P2, P3. apply (InvX_local c). exact H.
    - intros r. rewrite Hpc. discriminate.
    - intros r. rewrite P4, Hpc. discriminate.
    - intros r. rewrite P4, Hpc. discriminate.
    - rewrite P4, Hpc. intros [X|X]; discriminate. }
  cbv zeta. destruct (l_cb x) as [|o ops] eqn:Ecb.
  - destruct (l_in_done x) eqn:Ed.
    + apply InvX_deliver; auto; rewrite lp_set_loop_same; auto. congruence.
    + apply InvX_settle; auto; rewrite lp_set_loop_same; auto. congruence.
  - apply InvX_set_loop; auto; rewrite ?lp_set_loop_same; cbn; try discriminate; auto.
    + intros X. rewrite P2. apply (InvX_local c); auto. congruence.
    + intros r. rewrite P4, Hpc. discriminate.
    + intros [X|X]; discriminate.
Qed.

Lemma post_facts c l aux r k s :
  shape s (post c l aux r k s) /\ Permutation (Q (post c l aux r k s)) (r :: Q s).
Proof.
  assert (Fast : shape s (sync_ev (signal_if_idle c l aux
                   (set_wq (sync_ev s l SLock) (wq (sync_ev s l SLock) ++ [IWork r]))) l SUnlock) /\
                 Permutation (Q (sync_ev (signal_if_idle c l aux
                   (set_wq (sync_ev s l SLock) (wq (sync_ev s l SLock) ++ [IWork r]))) l SUnlock))
                   (r :: Q s)).
  { split.
    - eapply shape_trans; [apply shape_sync|]. eapply shape_trans; [apply shape_set_wq|].
      eapply shape_trans; [apply signal_if_idle_facts|]. apply shape_sync.
    - unfold Q. cbn [wq sp sync_ev emit].
      destruct (signal_if_idle_facts c l aux
                  (set_wq (sync_ev s l SLock) (wq (sync_ev s l SLock) ++ [IWork r]))) as [_ [X1 X2]].
      cbn [wq sp sync_ev emit] in X1, X2. rewrite X1, X2. cbn [wq sp set_wq].
      rewrite wq_reqs_app. cbn. rewrite <- app_assoc. cbn.
      apply Permutation_sym, Permutation_middle. }
  unfold post. destruct k; try exact Fast. cbv zeta.
  destruct (has_marker (wq (set_sp (sync_ev s l SLock) (sp (sync_ev s l SLock) ++ [r])))).
  - split.
    + eapply shape_trans; [apply shape_sync|]. eapply shape_trans; [apply shape_set_sp|].
      apply shape_sync.
    + unfold Q. cbn. rewrite app_assoc. apply Permutation_sym, Permutation_cons_append.
  - split.
    + eapply shape_trans; [apply shape_sync|]. eapply shape_trans; [apply shape_set_sp|].
      eapply shape_trans; [apply shape_set_wq|].
      eapply shape_trans; [apply signal_if_idle_facts|]. apply shape_sync.
    + unfold Q. cbn [wq sp sync_ev emit].
      match goal with |- context[signal_if_idle c l aux ?y] =>
        destruct (signal_if_idle_facts c l aux y) as [_ [X1 X2]] end.
      rewrite X1, X2. cbn [wq sp set_wq set_sp sync_ev emit].
      rewrite wq_reqs_app. cbn. rewrite app_nil_r, app_assoc.
      apply Permutation_sym, Permutation_cons_append.
Qed.

Lemma InvX_submit c l aux k s :
  InvX c s -> l < c_loops c -> l_pc (lp s l) = LReady ->
  let r := nreq s in
  let x := lp s l in
  let s1 := set_loop (set_req (set_nreq (emit s (ESubmit r l k)) (S r)) r (mkReq l k WFn Queued))
                     l (lset_active x (S (l_active x))) in
  InvX c (post c l aux r k s1) /\ l_pc (lp (post c l aux r k s1) l) = LReady.
Proof.
  intros H Hl Hpc r x s1.
  destruct (post_facts c l aux r k s1) as [[A1 [A2 [A3 [A4 [evs [A5 A6]]]]]] HP]. split.
  - unfold InvX.
    eapply IV_ext;
      [apply IV_neutrals; [exact A6|];
       apply (IV_loop c (Q (post c l aux r k s1)) (S r) (updf (reqs s) r (mkReq l k WFn Queued))
                      (runof s) (lp s) (ESubmit r l k :: trace s) l (lset_active x (S (l_active x))));
       [apply IV_submit with (q := Q s); [exact H | exact HP | exact Hl] | ..] | ..].
    + reflexivity.
    + intros X. apply (InvX_local c); [exact H|exact X].
    + intros r0. rewrite Hpc. discriminate.
    + intros r0. unfold x. cbn. rewrite Hpc. discriminate.
    + intros r0. unfold x. cbn. rewrite Hpc. discriminate.
    + unfold x. cbn. rewrite Hpc. intros [X|X]; discriminate.
    + reflexivity.
    + exact A1.
    + intros r0. rewrite A2. reflexivity.
    + exact A4.
    + intros l0. rewrite A3. reflexivity.
    + rewrite A5. reflexivity.
  - rewrite A3. unfold s1. rewrite lp_set_loop_same. cbn. exact Hpc.
Qed.

Lemma InvX_wd c s l :
  InvX c s -> l_pc (lp s l) = LWorkDone \/ l_pc (lp s l) = LDrain -> l_in_done (lp s l) = false.
Proof. intros H. destruct H. auto. Qed.

Lemma cancel_bool s l r :
  (existsb (is_work r) (wq s) || mem r (sp s) || mem r (l_wq (lp s l)) || mem r (l_local (lp s l)))
  && match r_work (reqs s r) with WNull => false | _ => true end = true <->
  ((In r (Q s) \/ In r (l_wq (lp s l)) \/ In r (l_local (lp s l))) /\ r_work (reqs s r) <> WNull).
Proof.
  unfold Q. rewrite andb_true_iff, !orb_true_iff, is_work_In, !mem_In, in_app_iff.
  destruct (r_work (reqs s r)); intuition congruence.
Qed.

Lemma InvX_lcancel3 c l r s :
  InvX c s -> l_pc (lp s l) = LCancel3 r ->
  let x := lp s l in
  let s1 := sync_ev s l (SLockQ l) in
  let s2 := set_loop s1 l (lset_pc (lset_pending (lset_wq x (l_wq x ++ [r])) true) LReady) in
  let s3 := set_rst s2 r Cancelled in
  let s4 := sync_ev s3 l (SUnlockQ l) in
  InvX c (advance c l (emit s4 (ECancel r l 0%Z))).
Proof.
  intros H Hpc x s1 s2 s3 s4. apply InvX_advance.
  - unfold InvX.
    eapply IV_ext;
      [apply (IV_cancel3 c (Q s) (nreq s) (reqs s) (runof s) (lp s)
                (ESync l (SUnlockQ l) :: ESync l (SLockQ l) :: trace s) l r
                (lset_pc (lset_pending (lset_wq x (l_wq x ++ [r])) true) LReady));
       [apply IV_neutral; [exact I|]; apply IV_neutral; [exact I|]; exact H | exact Hpc | ..] | ..];
      try reflexivity.
  - cbn. unfold updf. rewrite Nat.eqb_refl. reflexivity.
Qed.

Lemma InvX_lworkdone c l s :
  InvX c s -> l_pc (lp s l) = LWorkDone ->
  let x := lp s l in
  let s1 := sync_ev (sync_ev s l (SLockQ l)) l (SUnlockQ l) in
  let x1 := lset_pc (lset_in_done (lset_local (lset_wq x []) (l_wq x)) true) LReady in
  InvX c (deliver c l (l_local x1) (set_loop s1 l x1)).
Proof.
  intros H Hpc x s1 x1.
  assert (Hd : l_in_done (lp s l) = false) by (apply (InvX_wd c); auto).
  assert (Hloc : l_local (lp s l) = []) by (apply (InvX_local c); auto).
  apply InvX_deliver; try (rewrite lp_set_loop_same; reflexivity).
  apply InvX_set_loop.
  - apply InvX_shape with (s := s); [|reflexivity|exact H].
    eapply shape_trans; apply shape_sync.
  - cbn. fold x. unfold x. rewrite Hloc, app_nil_r. reflexivity.
  - intros X. discriminate.
  - intros r. cbn. rewrite Hpc. discriminate.
  - intros r. discriminate.
  - intros r. discriminate.
  - intros [X|X]; discriminate.
Qed.

Lemma InvX_lcancel2_yes c l r s :
  InvX c s -> l_pc (lp s l) = LCancel2 r ->
  (r_st (reqs s r) = Queued \/ r_st (reqs s r) = Cancelled) ->
  let x := lp s l in
  let s0 := sync_ev s l (SLockQ l) in
  let s2 := set_loop (set_sp (set_wq s0 (remw r (wq s0))) (rem r (sp s0))) l
                     (lset_local (lset_wq x (rem r (l_wq x))) (rem r (l_local x))) in
  let s3 := set_gmutex (sync_ev (sync_ev s2 l (SUnlockQ l)) l SUnlock) None in
  let s4 := set_rst (set_rwork s3 r WCancelled) r Limbo in
  InvX c (set_loop s4 l (lset_pc (lp s4 l) (LCancel3 r))).
Proof.
  intros H Hpc Hst x s0 s2 s3 s4. unfold InvX.
  eapply IV_ext;
    [apply (IV_cancel_yes c (Q s) (nreq s) (reqs s) (runof s) (lp s)
              (ESync l SUnlock :: ESync l (SUnlockQ l) :: ESync l (SLockQ l) :: trace s) l r
              (lset_pc (lset_local (lset_wq x (rem r (l_wq x))) (rem r (l_local x))) (LCancel3 r)));
     [apply IV_neutral; [exact I|]; apply IV_neutral; [exact I|]; apply IV_neutral; [exact I|]; exact H
     | exact Hpc | exact Hst | ..] | ..];
    try reflexivity.
  - change (wq_reqs (remw r (wq s)) ++ rem r (sp s) = rem r (wq_reqs (wq s) ++ sp s)).
    rewrite wq_reqs_remw, rem_app. reflexivity.
  - intros r0. cbn. unfold updf, with_ws. rewrite Nat.eqb_refl.
    destruct (Nat.eqb r0 r); reflexivity.
  - intros l0. cbn. unfold updf. rewrite Nat.eqb_refl. destruct (Nat.eqb l0 l); reflexivity.
Qed.

Lemma InvX_lcancel2_no c l r s :
  InvX c s -> l_pc (lp s l) = LCancel2 r ->
  let s0 := sync_ev s l (SLockQ l) in
  let s3 := set_gmutex (sync_ev (sync_ev s0 l (SUnlockQ l)) l SUnlock) None in
  InvX c (advance c l (set_loop (emit s3 (ECancel r l UV_EBUSY)) l (lset_pc (lp s3 l) LReady))).
Proof.
  intros H Hpc s0 s3. apply InvX_advance; [|rewrite lp_set_loop_same; reflexivity].
  apply InvX_set_loop.
  - apply InvX_shape with (s := s); [|reflexivity|exact H].
    eapply shape_trans; [apply shape_sync|]. eapply shape_trans; [apply shape_sync|].
    eapply shape_trans; [apply shape_sync|]. eapply shape_trans; [apply shape_set_gmutex|].
    apply shape_emit. cbn. discriminate.
  - reflexivity.
  - intros X. apply (InvX_local c s l); [exact H|exact X].
  - intros r0. cbn. rewrite Hpc. discriminate.
  - intros r0. discriminate.
  - intros r0. discriminate.
  - intros [X|X]; discriminate.
Qed.

Lemma InvX_lstep c l aux s s' :
  l < c_loops c -> InvX c s -> lstep c l aux s = Some s' -> InvX c s'.
Proof.
  intros Hl H. unfold lstep. cbv zeta. destruct (l_pc (lp s l)) eqn:Hpc.
  - (* LReady *)
    destruct (cur_op (lp s l)) as [o|] eqn:Eop; [|discriminate]. destruct o as [k|r| |].
    + destruct (is_free (gmutex s)); [|discriminate]. intros E. apply Some_inj in E. subst s'.
      destruct (InvX_submit c l aux k s H Hl Hpc) as [X1 X2]. cbv zeta in X1, X2.
      apply InvX_advance; [exact X1|exact X2].
    + destruct (valid_cancel s l r) eqn:Ev.
      * destruct (is_free (gmutex s)); [|discriminate]. intros E. apply Some_inj in E. subst s'.
        unfold valid_cancel in Ev. apply andb_true_iff in Ev. destruct Ev as [Ev Ev3].
        apply andb_true_iff in Ev. destruct Ev as [Ev1 Ev2]. apply Nat.eqb_eq in Ev2.
        unfold InvX.
        eapply IV_ext;
          [apply (IV_cancel_enter c (Q s) (nreq s) (reqs s) (runof s) (lp s)
                    (ESync l SLock :: trace s) l r (lset_pc (lp s l) (LCancel2 r)));
           [apply IV_neutral; [exact I|exact H] | exact Hpc | .. ] | ..];
          try reflexivity; assumption.
      * intros E. apply Some_inj in E. subst s'. apply InvX_advance; [|exact Hpc].
        apply InvX_shape with (s := s); [apply shape_sync|reflexivity|exact H].
    + destruct (l_cb (lp s l)) as [|o ops] eqn:Ecb.
      * assert (Hd : l_in_done (lp s l) = false).
        { unfold cur_op in Eop. rewrite Ecb in Eop. destruct (l_in_done (lp s l)); [discriminate|reflexivity]. }
        destruct (Nat.eqb (l_active (lp s l)) 0 || l_stop (lp s l)).
        { intros E. apply Some_inj in E. subst s'.
          apply InvX_advance; [|cbn; unfold updf; rewrite Nat.eqb_refl; exact Hpc].
          match goal with |- InvX c (emit ?y ?e) =>
            apply InvX_shape with (s := y); [apply shape_emit; exact I | reflexivity |] end.
          apply InvX_set_loop.
          - apply InvX_shape with (s := s); [apply shape_sync|reflexivity|exact H].
          - reflexivity.
          - intros X. apply (InvX_local c s l); [exact H|exact X].
          - intros r0. cbn. rewrite Hpc. discriminate.
          - intros r0. cbn. rewrite Hpc. discriminate.
          - intros r0. cbn. rewrite Hpc. discriminate.
          - cbn. rewrite Hpc. intros [X|X]; discriminate. }
        destruct (l_pending (lp s l)).
        { intros E. apply Some_inj in E. subst s'. apply InvX_set_loop.
          - apply InvX_shape with (s := s); [apply shape_sync|reflexivity|exact H].
          - reflexivity.
          - intros X. apply (InvX_local c s l); [exact H|exact X].
          - intros r0. cbn. rewrite Hpc. discriminate.
          - intros r0. discriminate.
          - intros r0. discriminate.
          - intros _. exact Hd. }
        intros E. apply Some_inj in E. subst s'. apply InvX_advance; [|exact Hpc].
        apply InvX_shape with (s := s); [|reflexivity|exact H].
        eapply shape_trans; [apply shape_sync|]. apply shape_emit. exact I.
      * intros E. apply Some_inj in E. subst s'. apply InvX_advance; [|exact Hpc].
        apply InvX_shape with (s := s); [apply shape_sync|reflexivity|exact H].
    + (* uv_stop *)
      intros E. apply Some_inj in E. subst s'.
      apply InvX_advance; [|cbn; unfold updf; rewrite Nat.eqb_refl; exact Hpc].
      apply InvX_set_loop.
      * apply InvX_shape with (s := s); [apply shape_sync|reflexivity|exact H].
      * reflexivity.
      * intros X. apply (InvX_local c s l); [exact H|exact X].
      * intros r0. cbn. rewrite Hpc. discriminate.
      * intros r0. cbn. rewrite Hpc. discriminate.
      * intros r0. cbn. rewrite Hpc. discriminate.
      * cbn. rewrite Hpc. intros [X|X]; discriminate.
  - (* LCancel2 *)
    cbn [wq sp reqs sync_ev emit].
    assert (Hc := cancel_bool s l r).
    assert (Hc2 := IV_cancel_cond c _ _ _ _ _ _ l r H Hpc). fold (Q s) in Hc2.
    match type of Hc with (?b = true <-> _) => destruct b eqn:Ec end.
    + intros E. apply Some_inj in E. subst s'.
      apply (InvX_lcancel2_yes c l r s H Hpc). apply Hc2. apply Hc. reflexivity.
    + intros E. apply Some_inj in E. subst s'.
      apply (InvX_lcancel2_no c l r s H Hpc).
  - intros E. apply Some_inj in E. subst s'. apply (InvX_lcancel3 c l r s H Hpc).
  - intros E. apply Some_inj in E. subst s'. apply (InvX_lworkdone c l s H Hpc).
  - destruct (l_pending (lp s l)); [|discriminate].
    intros E. apply Some_inj in E. subst s'. apply InvX_set_loop.
    + apply InvX_shape with (s := s); [apply shape_sync|reflexivity|exact H].
    + reflexivity.
    + intros X. apply (InvX_local c s l); [exact H|exact X].
    + intros r0. cbn. rewrite Hpc. discriminate.
    + intros r0. discriminate.
    + intros r0. discriminate.
    + intros _. apply (InvX_wd c s l); auto.
  - discriminate.
Qed.

Lemma InvX_step c s t aux s' : InvX c s -> step c s t aux = Some s' -> InvX c s'.
Proof.
  intros H. unfold step. destruct (Nat.ltb_spec t (c_loops c)).
  - apply InvX_lstep; assumption.
  - destruct (Nat.ltb_spec (t - c_loops c) (c_n c)); [|discriminate].
    apply InvX_wstep; [lia|assumption].
Qed.

Theorem invX_reachable : forall c progs s, reachable c progs s -> InvX c s.
Proof.
  intros c progs. apply reachable_ind.
  - apply InvX_init.
  - intros s t aux s' _ H E. eapply InvX_step; eauto.
Qed.

Theorem invA_reachable : forall c progs s, reachable c progs s -> InvA c s.
Proof. intros c progs s H. apply InvX_InvA. eapply invX_reachable; eauto. Qed.

Print Assumptions invA_reachable.
