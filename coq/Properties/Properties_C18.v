(* C18 - Address/text codecs, address part (inet.c, uv_ip*_addr/_name, strscpy.c).
   Only statements, each closed by [exact] of a lemma proved in Proofs/, with
   Print Assumptions beneath.  Texts and buffers are lists of bytes ([N]); a
   model function returns (return code, bytes written to the destination). *)
From UV Require Import Lib.Base Model.Inet Spec.InetSpec Proofs.InetProofs4 Proofs.InetProofs6
  Proofs.InetProofs6rt Proofs.InetProofs6shape Proofs.InetProofs4c Proofs.InetProofsZone
  Proofs.InetProofs6c Proofs.InetProofs6s Proofs.InetProofs6g
  Proofs.InetProofs6k.
Local Open Scope N_scope.

(* inet_pton4 accepts exactly the dotted-quad grammar (four decimal octets
   0..255, no leading zero unless the octet is "0") and produces its value;
   everything else is UV_EINVAL with the destination untouched. *)
Theorem C18_pton4_iff_grammar :
  forall s : list N,
  (forall b, inet_pton4 s = (0%Z, b) <-> dotted_quad s b) /\
  ((forall b, ~ dotted_quad s b) -> inet_pton4 s = (UV_EINVAL, [])).
Proof. exact pton4_iff_grammar. Qed.
Print Assumptions C18_pton4_iff_grammar.

(* the public entry point reads the argument up to its first NUL *)
Theorem C18_uv_inet_pton_v4_iff_grammar :
  forall s b, uv_inet_pton AF_INET s = (0%Z, b) <-> dotted_quad (cstr s) b.
Proof. exact uv_inet_pton4_iff_grammar. Qed.
Print Assumptions C18_uv_inet_pton_v4_iff_grammar.

(* all 2^32 addresses: printing then parsing gives the address back *)
Theorem C18_ntop4_roundtrip :
  forall a b c d size,
  a < 256 -> b < 256 -> c < 256 -> d < 256 -> 16 <= size ->
  exists t, uv_inet_ntop AF_INET [a; b; c; d] size = (0%Z, t ++ [0]) /\
            ~ In 0 t /\
            uv_inet_pton AF_INET (t ++ [0]) = (0%Z, [a; b; c; d]).
Proof. exact ntop4_pton4_roundtrip. Qed.
Print Assumptions C18_ntop4_roundtrip.

(* inet_ntop4 prints the canonical text of the independent printer
   (Spec/InetSpec.v: decimal without leading zeros, joined by '.') *)
Theorem C18_ntop4_canonical :
  forall a b c d size,
  a < 256 -> b < 256 -> c < 256 -> d < 256 -> 16 <= size ->
  inet_ntop4 [a; b; c; d] size = (0%Z, spec_print4 [a; b; c; d] ++ [0]).
Proof. exact ntop4_canonical. Qed.
Print Assumptions C18_ntop4_canonical.

(* inet_ntop4, every source and every size: nothing is written at an index
   >= size, UV_ENOSPC iff text + NUL exceeds size, and then nothing is written *)
Theorem C18_ntop4_bounded :
  forall src size,
  let r := inet_ntop4 src size in
  nlen (snd r) <= size /\
  (fst r = UV_ENOSPC <-> size < nlen (fmt4 src) + 1) /\
  (fst r = 0%Z \/ fst r = UV_ENOSPC) /\
  (fst r <> 0%Z -> snd r = []).
Proof. exact ntop4_bounded. Qed.
Print Assumptions C18_ntop4_bounded.

(* uv__strscpy, every source and every n: at most n bytes written; for n > 0
   the result is the longest prefix that fits followed by NUL; returns the
   length, or UV_E2BIG when truncated *)
Theorem C18_strscpy_bounded :
  forall s n,
  let r := uv_strscpy s n in
  let t := cstr s in
  nlen (snd r) <= n /\
  (n = 0 -> r = (0%Z, [])) /\
  (0 < n -> nlen t < n -> nlen t <= SSIZE_MAX -> r = (Z.of_N (nlen t), t ++ [0])) /\
  (0 < n -> n <= nlen t -> r = (UV_E2BIG, firstn (N.to_nat n - 1) t ++ [0])).
Proof. exact strscpy_spec. Qed.
Print Assumptions C18_strscpy_bounded.

(* ---- IPv6 ---------------------------------------------------------------- *)

(* all 2^128 addresses (sixteen bytes, each < 256): uv_inet_ntop succeeds for
   every size >= 46, prints a NUL-free text, and uv_inet_pton of that text is
   the address.  Proof by cases on the position of the compressed zero run (29
   cases), not by enumeration of addresses. *)
Theorem C18_ntop6_roundtrip :
  forall a size,
  bytes16 a -> 46 <= size ->
  exists t, uv_inet_ntop AF_INET6 a size = (0%Z, t ++ [0]) /\
            ~ In 0 t /\
            uv_inet_pton AF_INET6 (t ++ [0]) = (0%Z, a).
Proof. exact ntop6_pton6_roundtrip. Qed.
Print Assumptions C18_ntop6_roundtrip.

(* inet_ntop6, every address and every size: the text needs at most 45
   characters (the 46-byte scratch buffer is never overrun: the model's
   UB_TMP_OVERFLOW outcome is unreachable), nothing is written at an index
   >= size, UV_ENOSPC iff text + NUL exceeds size, and then nothing is written *)
Theorem C18_ntop6_bounded :
  forall a size,
  bytes16 a ->
  let r := inet_ntop6 a size in
  nlen (snd r) <= size /\
  (fst r = UV_ENOSPC <-> size < nlen (text6 a) + 1) /\
  (fst r = 0%Z \/ fst r = UV_ENOSPC) /\
  (fst r <> 0%Z -> snd r = []) /\
  fst r <> UB_TMP_OVERFLOW.
Proof. exact ntop6_bounded. Qed.
Print Assumptions C18_ntop6_bounded.

Theorem C18_ntop6_exact :
  forall a size,
  bytes16 a ->
  let text := text6 a in
  nlen text <= 45 /\
  (size < nlen text + 1 -> inet_ntop6 a size = (UV_ENOSPC, [])) /\
  (nlen text + 1 <= size -> inet_ntop6 a size = (0%Z, text ++ [0])).
Proof. exact ntop6_spec. Qed.
Print Assumptions C18_ntop6_exact.

(* all 2^128 addresses: uv_inet_ntop prints exactly the canonical text of the
   independent printer spec_print6 (lower-case hex without leading zeros, the
   longest run of >= 2 zero groups - leftmost on ties - as "::", dotted-quad
   tail for ::a.b.c.d and ::ffff:a.b.c.d) *)
Theorem C18_ntop6_canonical :
  forall a size,
  bytes16 a -> 46 <= size ->
  uv_inet_ntop AF_INET6 a size = (0%Z, spec_print6 a (words_of a) ++ [0]).
Proof. exact ntop6_canonical. Qed.
Print Assumptions C18_ntop6_canonical.

(* Soundness of inet_pton6 with respect to the RFC 4291 section 2.2 grammar and
   its value function (Spec/InetSpec.v, ip6_text): whatever is accepted is a
   text of the grammar (h16 groups of 1..4 hex digits, at most one "::" standing
   for >= 1 zero groups, optional dotted-quad tail) and the sixteen bytes
   produced are the grammar's value.  Every input, no bound. *)
Theorem C18_pton6_sound :
  forall s b, inet_pton6 s = (0%Z, b) -> ip6_text s b.
Proof. exact pton6_sound. Qed.
Print Assumptions C18_pton6_sound.

(* the same through the public entry point: the text is the C string up to its
   first NUL, without an optional "%zone" suffix *)
Theorem C18_uv_inet_pton_v6_sound :
  forall src b,
  uv_inet_pton AF_INET6 src = (0%Z, b) ->
  exists a, ip6_text a b /\ (cstr src = a \/ exists z, cstr src = a ++ 37 :: z).
Proof. exact uv_inet_pton6_sound. Qed.
Print Assumptions C18_uv_inet_pton_v6_sound.

(* inet_pton6 accepts exactly the RFC 4291 grammar and produces its value:
   soundness above plus completeness (every text of the grammar - any case,
   leading zeros, "::" for any run of >= 1 zero groups, dotted-quad tail - is
   accepted with the grammar's value).  Every input, no bound. *)
Theorem C18_pton6_iff_grammar :
  forall s b, inet_pton6 s = (0%Z, b) <-> ip6_text s b.
Proof. exact pton6_iff_grammar. Qed.
Print Assumptions C18_pton6_iff_grammar.

(* corollary: for each of the 2^128 addresses the canonical text is a text of
   the grammar denoting that address *)
Theorem C18_canonical_text_in_grammar :
  forall a, bytes16 a -> ip6_text (text6 a) a /\ inet_pton6 (text6 a) = (0%Z, a).
Proof. exact canonical_in_grammar. Qed.
Print Assumptions C18_canonical_text_in_grammar.

(* inet_pton6 / uv_inet_pton(AF_INET6), every input: either UV_EINVAL and the
   destination untouched, or 0 and exactly sixteen bytes (the tp/endp/colonp
   arithmetic and the hand-written shift never leave the 16-byte array) *)
Theorem C18_pton6_result_shape :
  forall src, shape6 (inet_pton6 src) /\ shape6 (uv_inet_pton AF_INET6 src).
Proof. intros src. split; [exact (pton6_shape src) | exact (uv_inet_pton6_shape src)]. Qed.
Print Assumptions C18_pton6_result_shape.

(* ---- %zone ---------------------------------------------------------------- *)

(* uv_inet_pton(AF_INET6): what is parsed is exactly the part before '%'; more
   than 45 characters before '%' are rejected *)
Theorem C18_inet_pton_zone :
  forall a z,
  ~ In 0 a -> ~ In 37 a ->
  uv_inet_pton AF_INET6 (a ++ 37 :: z) =
  if (45 <? length a)%nat then (UV_EINVAL, []) else inet_pton6 a.
Proof. exact uv_inet_pton6_zone. Qed.
Print Assumptions C18_inet_pton_zone.

(* uv_ip6_addr (repaired by /repo commit 4b6f164): for every address text a
   (no NUL, no '%') and every zone z, uv_ip6_addr (a ++ "%" ++ z) yields exactly
   what inet_pton6 gives for a alone when |a| <= 45, and UV_EINVAL with a zero
   address beyond (no valid text is longer than 45 characters) *)
Theorem C18_ip6_addr_zone :
  forall a z port,
  ~ In 0 a -> ~ In 37 a ->
  uv_ip6_addr (a ++ 37 :: z) port =
  if (45 <? length a)%nat then (UV_EINVAL, (htons port, repeat 0 16))
  else addr_result (inet_pton6 a) port 16.
Proof. exact ip6_addr_zone. Qed.
Print Assumptions C18_ip6_addr_zone.

Theorem C18_ip6_addr_plain :
  forall a port,
  ~ In 0 a -> ~ In 37 a -> uv_ip6_addr a port = addr_result (inet_pton6 a) port 16.
Proof. exact ip6_addr_plain. Qed.
Print Assumptions C18_ip6_addr_plain.

(* History (was C18_ip6_addr_zone_truncation_refuted): the code before 4b6f164,
   kept as uv_ip6_addr_pre_4b6f164, parsed
   "1111:2222:3333:4444:5555:6666:12.2.3.123%lo" to ...:12.2.3.12 with rc 0; the
   current model gives ...:12.2.3.123 *)
Theorem C18_ip6_addr_zone_history :
  inet_pton6 zone_witness = (0%Z, [17;17;34;34;51;51;68;68;85;85;102;102;12;2;3;123]) /\
  uv_ip6_addr_pre_4b6f164 (zone_witness ++ 37 :: [108; 111]) 80 =
    (0%Z, (htons 80, [17;17;34;34;51;51;68;68;85;85;102;102;12;2;3;12])) /\
  uv_ip6_addr (zone_witness ++ 37 :: [108; 111]) 80 =
    (0%Z, (htons 80, [17;17;34;34;51;51;68;68;85;85;102;102;12;2;3;123])).
Proof. exact ip6_addr_zone_history. Qed.
Print Assumptions C18_ip6_addr_zone_history.

(* the hypotheses are satisfiable / the statements are not vacuous *)
Example C18_example_pton4 :
  inet_pton4 [49; 57; 50; 46; 49; 54; 56; 46; 48; 46; 50; 53; 53] = (0%Z, [192; 168; 0; 255]) /\
  inet_pton4 [49; 46; 50; 46; 51; 46; 48; 52] = (UV_EINVAL, []).
Proof. split; vm_compute; reflexivity. Qed.

Example C18_example_v6 :
  bytes16 [0;0;0;0;0;0;0;0;0;0;255;255;1;2;3;4] /\
  uv_inet_ntop AF_INET6 [0;0;0;0;0;0;0;0;0;0;255;255;1;2;3;4] 46 =
    (0%Z, [58;58;102;102;102;102;58;49;46;50;46;51;46;52;0]) /\
  uv_inet_ntop AF_INET6 [0;0;0;0;0;0;0;0;0;0;255;255;1;2;3;4] 14 = (UV_ENOSPC, []).
Proof.
  split; [|split; vm_compute; reflexivity].
  split; [reflexivity|]. repeat constructor.
Qed.
