(* C18 - Address/text codecs, address part (inet.c, uv_ip*_addr/_name, strscpy.c).
   Only statements, each closed by [exact] of a lemma proved in Proofs/, with
   Print Assumptions beneath.  Texts and buffers are lists of bytes ([N]); a
   model function returns (return code, bytes written to the destination). *)
From UV Require Import Lib.Base Model.Inet Spec.InetSpec Proofs.InetProofs4.
Local Open Scope N_scope.

(* inet_pton4 accepts exactly the dotted-quad grammar (four decimal octets
   0..255, no leading zero unless the octet is "0") and produces its value;
   everything else is UV_EINVAL with the destination untouched. *)
Theorem C18_pton4_iff_grammar :
  forall s : list N,
  (forall b, inet_pton4 s = (0%Z, b) <-> dotted_quad s b) /\
  ((forall b, ~ dotted_quad s b) -> inet_pton4 s = (UV_EINVAL, [])).
Proof. exact pton4_iff_grammar. Qed.
Print Assumptions C18_pton4_iff_grammar.

(* the public entry point reads the argument up to its first NUL *)
Theorem C18_uv_inet_pton_v4_iff_grammar :
  forall s b, uv_inet_pton AF_INET s = (0%Z, b) <-> dotted_quad (cstr s) b.
Proof. exact uv_inet_pton4_iff_grammar. Qed.
Print Assumptions C18_uv_inet_pton_v4_iff_grammar.

(* all 2^32 addresses: printing then parsing gives the address back *)
Theorem C18_ntop4_roundtrip :
  forall a b c d size,
  a < 256 -> b < 256 -> c < 256 -> d < 256 -> 16 <= size ->
  exists t, uv_inet_ntop AF_INET [a; b; c; d] size = (0%Z, t ++ [0]) /\
            ~ In 0 t /\
            uv_inet_pton AF_INET (t ++ [0]) = (0%Z, [a; b; c; d]).
Proof. exact ntop4_pton4_roundtrip. Qed.
Print Assumptions C18_ntop4_roundtrip.

(* inet_ntop4, every source and every size: nothing is written at an index
   >= size, UV_ENOSPC iff text + NUL exceeds size, and then nothing is written *)
Theorem C18_ntop4_bounded :
  forall src size,
  let r := inet_ntop4 src size in
  nlen (snd r) <= size /\
  (fst r = UV_ENOSPC <-> size < nlen (fmt4 src) + 1) /\
  (fst r = 0%Z \/ fst r = UV_ENOSPC) /\
  (fst r <> 0%Z -> snd r = []).
Proof. exact ntop4_bounded. Qed.
Print Assumptions C18_ntop4_bounded.

(* uv__strscpy, every source and every n: at most n bytes written; for n > 0
   the result is the longest prefix that fits followed by NUL; returns the
   length, or UV_E2BIG when truncated *)
Theorem C18_strscpy_bounded :
  forall s n,
  let r := uv_strscpy s n in
  let t := cstr s in
  nlen (snd r) <= n /\
  (n = 0 -> r = (0%Z, [])) /\
  (0 < n -> nlen t < n -> nlen t <= SSIZE_MAX -> r = (Z.of_N (nlen t), t ++ [0])) /\
  (0 < n -> n <= nlen t -> r = (UV_E2BIG, firstn (N.to_nat n - 1) t ++ [0])).
Proof. exact strscpy_spec. Qed.
Print Assumptions C18_strscpy_bounded.

(* the hypotheses are satisfiable / the statements are not vacuous *)
Example C18_example_pton4 :
  inet_pton4 [49; 57; 50; 46; 49; 54; 56; 46; 48; 46; 50; 53; 53] = (0%Z, [192; 168; 0; 255]) /\
  inet_pton4 [49; 46; 50; 46; 51; 46; 48; 52] = (UV_EINVAL, []).
Proof. split; vm_compute; reflexivity. Qed.
