(* C01 - loop liveness.  Statements only. *)
From UV Require Import Lib.Base Model.Heap Model.Timer Model.LoopCore.
Example C01_placeholder_model_runs :
  snd (lrun (linit 0 false) [LInit KIdle true; LStart 0 true; LAlive] (fun _ => [])) = [VRet 0; VAlive true].
Proof. vm_compute. reflexivity. Qed.
