(* C01 - loop liveness.  Statements only, each closed by [exact] of a lemma
   proved in Proofs/LoopCoreInv.v or Proofs/C01Proofs.v, with
   Print Assumptions beneath.

   Model: Model/LoopCore.v.  A script [os : list lop] is a sequence of
   top-level API calls ([LRun m] is uv_run in mode m); [beh k] is the list
   of API calls made by the k-th user callback.  [lrun (linit t0 m) os beh]
   is (final state, trace).  All theorems are for every script, every
   callback behaviour, both settings [m] of UV_METRICS_IDLE_TIME, all three
   run modes and every fuel. *)
From UV Require Import Lib.Base Model.Heap Model.Timer Model.LoopCore
  Proofs.LoopCoreInv Proofs.C01Proofs.
Local Open Scope Z_scope.

(* ---- 1. the counters are exact ---------------------------------------- *)

(* In the final state of every script:
   - loop->active_handles is the number of handles that are active and
     referenced; every closing handle is inactive, so this is also the number
     of handles that are active, referenced and not closing;
   - loop->active_reqs.count is the number of work requests whose completion
     has not been delivered;
   - loop->closing_handles holds exactly the handles that are closing and
     not yet closed, each once. *)
Theorem C01_counter_exact :
  forall (t0 : Z) (m : bool) (os : list lop) (beh : nat -> list lop),
  let s := fst (lrun (linit t0 m) os beh) in
  nact s = Z.of_nat (length (filter (fun h => h_active h && h_ref h) (hs s))) /\
  (forall h, In h (hs s) -> h_closing h = true -> h_active h = false) /\
  nact s = Z.of_nat (length (filter (fun h => h_active h && h_ref h && negb (h_closing h)) (hs s))) /\
  nreq s = Z.of_nat (length (filter (fun w => negb (w_delivered w)) (works s))) /\
  NoDup (closing s) /\
  (forall i, In i (closing s) <->
             exists h, nth_error (hs s) i = Some h /\ h_closing h = true /\ h_closed h = false).
Proof.
  intros t0 m os beh. pose proof (counter_exact t0 m os beh) as H.
  unfold counters_exact in H. rewrite app_nil_r in H. exact H.
Qed.
Print Assumptions C01_counter_exact.

(* The same facts hold after every step in between.  [LInv s pend] is the
   invariant; [pend] is the part of a close batch that
   uv__run_closing_handles has detached and whose close callbacks have not
   run yet ([] everywhere else).  It holds initially and is kept by every
   API call, every list of API calls, every user callback (whatever it
   does), every phase of an iteration, uv_run and whole scripts. *)
Theorem C01_counter_exact_invariant_meaning :
  forall s pend, LInv s pend ->
  nact s = Z.of_nat (length (filter (fun h => h_active h && h_ref h) (hs s))) /\
  (forall h, In h (hs s) -> h_closing h = true -> h_active h = false) /\
  nact s = Z.of_nat (length (filter (fun h => h_active h && h_ref h && negb (h_closing h)) (hs s))) /\
  nreq s = Z.of_nat (length (filter (fun w => negb (w_delivered w)) (works s))) /\
  NoDup (closing s ++ pend) /\
  (forall i, In i (closing s ++ pend) <->
             exists h, nth_error (hs s) i = Some h /\ h_closing h = true /\ h_closed h = false).
Proof. exact LInv_counters_exact. Qed.
Print Assumptions C01_counter_exact_invariant_meaning.

Theorem C01_counter_exact_every_step :
  (forall t0 m, LInv (linit t0 m) []) /\
  (forall s pend o, LInv s pend -> LInv (fst (lapi s o)) pend) /\
  (forall s pend os, LInv s pend -> LInv (fst (lapis s os)) pend) /\
  (forall s pend beh tag i, LInv s pend -> LInv (fst (callback s beh tag i)) pend) /\
  (forall s pend beh k tag, LInv s pend -> LInv (fst (run_watchers s beh k tag)) pend) /\
  (forall s pend beh t, LInv s pend -> LInv (fst (io_poll s beh t)) pend) /\
  (forall l s pend beh, LInv s (l ++ pend) -> LInv (fst (run_closing l s beh)) pend) /\
  (forall s pend beh, LInv s pend -> LInv (fst (l_run_timers s beh)) pend) /\
  (forall s beh mode, LInv s [] -> LInv (fst (iteration s beh mode)) []) /\
  (forall fuel s beh mode, LInv s [] -> LInv (fst (uv_run fuel s beh mode)) []) /\
  (forall s os beh, LInv s [] -> LInv (fst (lrun s os beh)) []).
Proof. split; [exact LInv_init|exact counter_exact_steps]. Qed.
Print Assumptions C01_counter_exact_every_step.

(* At the level of traces, including every observation made from inside a
   callback in any phase (also inside a close batch): every snapshot event
   [VObs n r fl] - active_handles, request counter, and the (active, ref,
   closing, closed) flags of every handle - in the trace of every script has
   n = number of handles that are active, referenced and not closing; no
   handle in it is closing and active, or closed and not closing; r >= 0. *)
Theorem C01_obs_counter_exact :
  forall (t0 : Z) (m : bool) (os : list lop) (beh : nat -> list lop),
  Forall (fun e => match e with
                   | VObs n r fl =>
                       n = Z.of_nat (length (filter (fun x : bool * bool * bool * bool =>
                                                       let '(a, r, c, d) := x in a && r && negb c) fl)) /\
                       Forall (fun x : bool * bool * bool * bool =>
                                 let '(a, r, c, d) := x in
                                 (c = true -> a = false) /\ (d = true -> c = true)) fl /\
                       0 <= r
                   | _ => True
                   end)
         (snd (lrun (linit t0 m) os beh)).
Proof. exact obs_counter_exact. Qed.
Print Assumptions C01_obs_counter_exact.

(* ---- 2. uv_loop_alive -------------------------------------------------- *)

(* Under the invariant, outside a close batch: uv__loop_alive is true exactly
   when a handle is active, referenced and not closing, or a request is
   outstanding, or a handle is closing and its close callback has not run. *)
Theorem C01_alive_iff :
  forall s, LInv s [] ->
  (loop_alive s = true <->
   (exists i h, nth_error (hs s) i = Some h /\
                h_active h = true /\ h_ref h = true /\ h_closing h = false) \/
   0 < nreq s \/
   (exists i h, nth_error (hs s) i = Some h /\ h_closing h = true /\ h_closed h = false)).
Proof. exact alive_iff. Qed.
Print Assumptions C01_alive_iff.

(* Every uv_loop_alive() made at top level anywhere in any script: the
   event it adds to the trace is [VAlive b] with [b] exactly that predicate
   of the state [s] the call is made in. *)
Theorem C01_alive_toplevel :
  forall (t0 : Z) (m : bool) (pre post : list lop) (beh : nat -> list lop),
  let s := fst (lrun (linit t0 m) pre beh) in
  snd (lrun (linit t0 m) (pre ++ LAlive :: post) beh) =
    snd (lrun (linit t0 m) pre beh) ++ VAlive (loop_alive s) :: snd (lrun s post beh) /\
  (loop_alive s = true <->
   (exists i h, nth_error (hs s) i = Some h /\
                h_active h = true /\ h_ref h = true /\ h_closing h = false) \/
   0 < nreq s \/
   (exists i h, nth_error (hs s) i = Some h /\ h_closing h = true /\ h_closed h = false)).
Proof. exact alive_toplevel. Qed.
Print Assumptions C01_alive_toplevel.

(* Known finding 1 (loop_alive_false_inside_close_cb_batch): the statement
   does not extend to calls made inside a close callback.  Two prepare
   handles closed together, NOWAIT run; the first close callback calls
   uv_loop_alive() and takes a snapshot: the trace has [VAlive false]
   followed by a snapshot in which a handle is closing and not closed
   (flags are active, ref, closing, closed). *)
Theorem C01_alive_inside_close_batch_refuted :
  exists tr1 tr2 n r fl,
    snd (lrun (linit 0 false)
              [LInit KPrepare false; LInit KPrepare false; LClose 0; LClose 1; LRun 2]
              (fun k => match k with O => [LAlive; LObs] | _ => [] end))
      = tr1 ++ VAlive false :: VObs n r fl :: tr2 /\
    exists x, In x fl /\ snd (fst x) = true /\ snd x = false.
Proof. exact alive_inside_close_batch_refuted. Qed.
Print Assumptions C01_alive_inside_close_batch_refuted.

(* What does hold inside a close batch (and everywhere else, with pend = []):
   uv__loop_alive does not see the handles of the detached batch [pend]
   whose close callbacks have not run yet. *)
Theorem C01_alive_inside_close_batch_partial :
  forall s pend, LInv s pend ->
  (loop_alive s = true <->
   (exists i h, nth_error (hs s) i = Some h /\
                h_active h = true /\ h_ref h = true /\ h_closing h = false) \/
   0 < nreq s \/
   (exists i h, nth_error (hs s) i = Some h /\ h_closing h = true /\ h_closed h = false /\
                ~ In i pend)).
Proof. exact alive_iff_in_batch. Qed.
Print Assumptions C01_alive_inside_close_batch_partial.

(* ---- 3. the value returned by uv_run ----------------------------------- *)

(* The trace of uv_run ends with [VRun r], and [r] is uv__loop_alive of the
   state uv_run returns in, for every fuel, mode and state.  (Before the
   "fix:" commit for known finding 2 this failed in one case: UV_RUN_DEFAULT
   entered with work outstanding, and the timer pass that precedes the first
   iteration sets the stop flag - the result was the liveness sampled at
   entry.) *)
Theorem C01_run_result :
  forall fuel s beh mode,
  exists e, snd (uv_run fuel s beh mode) =
            e ++ [VRun (loop_alive (fst (uv_run fuel s beh mode)))].
Proof. exact run_result. Qed.
Print Assumptions C01_run_result.

(* For a uv_run made at top level after any script prefix: the result is true exactly when the state uv_run returns in has
   outstanding work (the three-clause predicate). *)
Theorem C01_run_result_outstanding :
  forall (t0 : Z) (m : bool) (pre : list lop) (beh : nat -> list lop) (mode : nat),
  let s := fst (lrun (linit t0 m) pre beh) in
  exists e r, snd (uv_run run_fuel s beh mode) = e ++ [VRun r] /\
    let s' := fst (uv_run run_fuel s beh mode) in
    (r = true <->
     (exists i h, nth_error (hs s') i = Some h /\
                  h_active h = true /\ h_ref h = true /\ h_closing h = false) \/
     0 < nreq s' \/
     (exists i h, nth_error (hs s') i = Some h /\ h_closing h = true /\ h_closed h = false)).
Proof. exact run_result_outstanding. Qed.
Print Assumptions C01_run_result_outstanding.

(* where that uv_run sits in the trace of the script *)
Theorem C01_run_toplevel :
  forall (t0 : Z) (m : bool) (pre post : list lop) (beh : nat -> list lop) (mode : nat),
  let s := fst (lrun (linit t0 m) pre beh) in
  snd (lrun (linit t0 m) (pre ++ LRun mode :: post) beh) =
    snd (lrun (linit t0 m) pre beh) ++ VRunStart mode (loop_alive s) :: snd (uv_run run_fuel s beh mode) ++
    snd (lrun (fst (uv_run run_fuel s beh mode)) post beh).
Proof. exact run_toplevel. Qed.
Print Assumptions C01_run_toplevel.

(* The failing input of former known finding 2
   (uv_run_default_stale_result_after_stop_in_initial_timer_pass) on the
   repaired code: one due non-repeating timer whose callback calls uv_stop();
   uv_run(DEFAULT) returns 0 with nothing outstanding afterwards. *)
Theorem C01_run_default_stop_in_initial_timer_pass :
  let os := [LInit KTimer true; LTStart 0 (Some 1%nat) 0 0; LRun 0] in
  let beh := fun _ : nat => [LStopLoop] in
  exists e, snd (lrun (linit 0 false) os beh) = e ++ [VRun false] /\
            loop_alive (fst (lrun (linit 0 false) os beh)) = false /\
            nact (fst (lrun (linit 0 false) os beh)) = 0 /\
            nreq (fst (lrun (linit 0 false) os beh)) = 0 /\
            closing (fst (lrun (linit 0 false) os beh)) = [].
Proof. exact run_default_stop_in_initial_timer_pass. Qed.
Print Assumptions C01_run_default_stop_in_initial_timer_pass.

(* uv_run(UV_RUN_DEFAULT) returns only when nothing is outstanding or
   uv_stop() was called.  [run_loopX] is [run_loop] with one more result,
   telling whether the fuel ran out; [uv_runX] is [uv_run] returning in
   addition (result, stop flag just before uv_run clears it, fuel ran out). *)
Theorem C01_run_loopX_agrees :
  forall fuel s beh mode, fst (run_loopX fuel s beh mode) = run_loop fuel s beh mode.
Proof. exact run_loopX_agrees. Qed.
Print Assumptions C01_run_loopX_agrees.

Theorem C01_uv_runX_agrees :
  forall fuel s beh mode, fst (uv_runX fuel s beh mode) = uv_run fuel s beh mode.
Proof. exact uv_runX_agrees. Qed.
Print Assumptions C01_uv_runX_agrees.

Theorem C01_run_default_returns_only_when :
  forall fuel s beh s' e r exhausted,
  run_loopX fuel s beh 0 = (s', e, r, exhausted) ->
  r = loop_alive s' /\ (exhausted = false -> r = false \/ stop_flag s' = true).
Proof. exact run_default_returns_only_when. Qed.
Print Assumptions C01_run_default_returns_only_when.

Theorem C01_uv_run_default_returns_only_when :
  forall fuel s beh,
  let '(_, (r, stopped, exhausted)) := uv_runX fuel s beh 0 in
  (exists e, snd (uv_run fuel s beh 0) = e ++ [VRun r]) /\
  (r = true -> stopped = true \/ exhausted = true).
Proof. exact uv_run_default_returns_only_when. Qed.
Print Assumptions C01_uv_run_default_returns_only_when.

(* ---- 4. uv_ref / uv_unref ---------------------------------------------- *)
Theorem C01_ref_idempotent :
  forall s i, handle_ref (handle_ref s i) i = handle_ref s i.
Proof. exact ref_idempotent. Qed.
Print Assumptions C01_ref_idempotent.

Theorem C01_unref_idempotent :
  forall s i, handle_unref (handle_unref s i) i = handle_unref s i.
Proof. exact unref_idempotent. Qed.
Print Assumptions C01_unref_idempotent.

(* Neither changes whether any handle is active, nor anything else than REF
   bits and the counter: putting the old handle table's REF-carrying records
   and the old counter back gives the old state, the table keeps its length,
   and every handle keeps kind, ACTIVE, CLOSING, CLOSED, callback and
   pending. *)
Theorem C01_ref_unref_keep_active :
  forall s i,
  let unchanged (s' : lstate) :=
    set_nact (set_hs s' (hs s)) (nact s) = s /\
    length (hs s') = length (hs s) /\
    forall j, h_kind (hget s' j) = h_kind (hget s j) /\
              h_active (hget s' j) = h_active (hget s j) /\
              h_closing (hget s' j) = h_closing (hget s j) /\
              h_closed (hget s' j) = h_closed (hget s j) /\
              h_hascb (hget s' j) = h_hascb (hget s j) /\
              h_pending (hget s' j) = h_pending (hget s j) in
  unchanged (handle_ref s i) /\ unchanged (handle_unref s i).
Proof. exact ref_unref_keep_active. Qed.
Print Assumptions C01_ref_unref_keep_active.

(* ---- 5. uv_loop_close -------------------------------------------------- *)
Theorem C01_loop_close_ebusy_iff :
  forall s, loop_close_code s = UV_EBUSY <->
            0 < nreq s \/ exists h, In h (hs s) /\ h_closed h = false.
Proof. exact loop_close_ebusy_iff. Qed.
Print Assumptions C01_loop_close_ebusy_iff.

(* every uv_loop_close() of any script reports exactly that, and 0 otherwise *)
Theorem C01_loop_close_toplevel :
  forall (t0 : Z) (m : bool) (pre post : list lop) (beh : nat -> list lop),
  let s := fst (lrun (linit t0 m) pre beh) in
  snd (lrun (linit t0 m) (pre ++ LLoopClose :: post) beh) =
    snd (lrun (linit t0 m) pre beh) ++ VLoopClose (loop_close_code s) :: snd (lrun s post beh) /\
  (loop_close_code s = UV_EBUSY <-> 0 < nreq s \/ exists h, In h (hs s) /\ h_closed h = false) /\
  (loop_close_code s <> UV_EBUSY -> loop_close_code s = 0).
Proof. exact loop_close_toplevel. Qed.
Print Assumptions C01_loop_close_toplevel.

(* ---- the hypotheses are satisfiable ------------------------------------ *)
(* a reachable state with four handles (an armed timer, a closed idle
   handle, an async handle, a prepare handle whose close is pending) and an
   outstanding work request *)
Example C01_invariant_example :
  let s := fst (lrun (linit 5 true)
                  [LInit KTimer false; LInit KIdle false; LInit KAsync true; LInit KPrepare false;
                   LTStart 0 (Some 7%nat) 50 0; LStart 1 true; LStart 3 true; LUnref 3;
                   LWork true; LClose 1; LRun 2; LWork false; LClose 3]
                  (fun _ => [])) in
  LInv s [] /\
  length (hs s) = 4%nat /\ nact s = 2 /\ nreq s = 1 /\ closing s = [3%nat] /\
  map (fun h => (h_active h, h_ref h, h_closing h, h_closed h)) (hs s) =
    [(true, true, false, false); (false, false, true, true);
     (true, true, false, false); (false, false, true, false)] /\
  loop_alive s = true.
Proof.
  pose proof invariant_example as H. cbv zeta in *. unfold ex_script in H.
  destruct H as (H1 & _ & H2). split; [exact H1|exact H2].
Qed.
Print Assumptions C01_invariant_example.
