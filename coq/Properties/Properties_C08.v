(* C08 - Thread-pool requests.  Only statements, each closed by [exact] of a lemma proved in
   Proofs/ThreadPool*.v, with Print Assumptions beneath.

   Model/ThreadPool.v is an interleaving semantics of src/threadpool.c: a configuration [c]
   gives the number of pool threads [c_n c], the number of loops [c_loops c] and the behaviour
   of every completion callback [c_beh c]; [progs] are the scripts of the loop threads
   (submissions of CPU / fast-I/O / slow-I/O requests, uv_cancel, uv_run and uv_stop calls); a
   schedule is a list of (thread, aux) choices, aux selecting the waiter a uv_cond_signal wakes
   and aux = 1 forcing a spurious wake-up.  [run c (init c progs) sched] is the state after
   the schedule; its [trace] (newest first) records EWork r t (the work function of r ran on
   thread t), EDone r t status (completion callback), ECancel r t code (uv_cancel returned).
   Threads 0 .. c_loops-1 are loop threads, c_loops .. c_loops+c_n-1 pool threads.
   Every theorem is for every configuration, every script, every schedule. *)
From UV Require Import Lib.Base Model.ThreadPool Proofs.ThreadPoolDefs Proofs.ThreadPoolProofsC
  Proofs.ThreadPoolProofs.

(* The work function of a request runs at most once, and only on a pool thread. *)
Theorem C08_work_at_most_once_on_pool :
  forall (c : config) (progs : list (list op)) (sched : list (nat * nat)) (r : nat),
  let s := run c (init c progs) sched in
  nwork r (trace s) <= 1 /\
  forall t, In (EWork r t) (trace s) -> c_loops c <= t < c_loops c + c_n c.
Proof. exact work_at_most_once_on_pool. Qed.
Print Assumptions C08_work_at_most_once_on_pool.

(* Safety: the completion callback runs at most once, on the loop thread of the request; its
   status is 0 or UV_ECANCELED; with status 0 the work function ran exactly once and (ordered)
   its EWork event is older than the EDone event; with UV_ECANCELED it never ran and a
   successful uv_cancel is older. *)
Theorem C08_done_exactly_once_on_loop_after_work :
  forall (c : config) (progs : list (list op)) (sched : list (nat * nat)) (r : nat),
  let s := run c (init c progs) sched in
  ndone r (trace s) <= 1 /\
  ordered (trace s) /\
  (forall t st, In (EDone r t st) (trace s) ->
     t = r_loop (reqs s r) /\ (st = 0%Z \/ st = UV_ECANCELED) /\
     (st = 0%Z -> nwork r (trace s) = 1) /\ (st = UV_ECANCELED -> nwork r (trace s) = 0)).
Proof. exact done_safety. Qed.
Print Assumptions C08_done_exactly_once_on_loop_after_work.

(* ... and exactly once in every terminal state: when no thread can take a step (without a
   spurious wake-up), every request that was ever submitted (the ids below nreq; every ESubmit
   event carries such an id) has had its callback exactly once. *)
Theorem C08_done_exactly_once_terminal :
  forall (c : config) (progs : list (list op)) (sched : list (nat * nat)) (r : nat),
  let s := run c (init c progs) sched in
  1 <= c_n c ->
  (forall t, step c s t 0 = None) ->
  (r < nreq s -> ndone r (trace s) = 1 /\ exists st, r_st (reqs s r) = Done st) /\
  (forall l k, In (ESubmit r l k) (trace s) -> r < nreq s).
Proof.
  intros c progs sched r s Hn Ht. split.
  - exact (done_exactly_once_terminal c progs sched r Hn Ht).
  - intros l k. exact (submitted_below_nreq c progs sched r l k).
Qed.
Print Assumptions C08_done_exactly_once_terminal.

(* No deadlock, no lost wake-up: in every reachable state with a request that is queued,
   running, finished-but-unreported or being cancelled, some thread is enabled even if no
   condition variable wakes up spuriously. *)
Theorem C08_no_stuck :
  forall (c : config) (progs : list (list op)) (s : state) (r : nat),
  1 <= c_n c -> reachable c progs s ->
  unf_st (r_st (reqs s r)) = true ->
  exists t, step c s t 0 <> None.
Proof. exact no_stuck. Qed.
Print Assumptions C08_no_stuck.

(* uv_cancel is exact.  (1) At its decision point (both mutexes held) the request is unlinked -
   and the call goes on to return 0 - exactly when it is still Queued, or already Cancelled with
   the callback not yet run; otherwise UV_EBUSY is returned in the same step and the global
   queues are untouched.  (2) The second half returns 0.  (3) After a return of 0 the work
   function has not run and never will (the statement is about every reachable state, hence
   every future), the callback reports UV_ECANCELED, and UV_ECANCELED is reported only then. *)
Theorem C08_cancel_exact :
  forall (c : config) (progs : list (list op)),
  (forall s l r aux s',
     reachable c progs s -> l < c_loops c ->
     l_pc (lp s l) = LCancel2 r -> step c s l aux = Some s' ->
     ((r_st (reqs s r) = Queued \/ r_st (reqs s r) = Cancelled) /\
      l_pc (lp s' l) = LCancel3 r /\ r_st (reqs s' r) = Limbo /\
      ~ (exists code, In (ECancel r l code) (firstn (length (trace s') - length (trace s)) (trace s'))))
     \/
     (~ (r_st (reqs s r) = Queued \/ r_st (reqs s r) = Cancelled) /\
      In (ECancel r l UV_EBUSY) (trace s') /\ wq s' = wq s /\ sp s' = sp s)) /\
  (forall s l r aux s',
     reachable c progs s -> l < c_loops c ->
     l_pc (lp s l) = LCancel3 r -> step c s l aux = Some s' ->
     In (ECancel r l 0%Z) (trace s')) /\
  (forall sched r,
     let s := run c (init c progs) sched in
     ((exists t, In (ECancel r t 0%Z) (trace s)) ->
        nwork r (trace s) = 0 /\ forall t st, In (EDone r t st) (trace s) -> st = UV_ECANCELED) /\
     (forall t, In (EDone r t UV_ECANCELED) (trace s) -> exists t', In (ECancel r t' 0%Z) (trace s))).
Proof.
  intros c progs. split; [|split].
  - intros s l r aux s'. exact (cancel_decision c progs s l r aux s').
  - intros s l r aux s'. exact (cancel_returns_zero c progs s l r aux s').
  - intros sched r. exact (cancel_trace c progs sched r).
Qed.
Print Assumptions C08_cancel_exact.

(* The strict reading of DESIGN.md ("returns 0 iff the request is still Queued") does not hold
   for the code: uv_cancel on a request that is already cancelled but not yet reported returns
   0 again (it is moved to the tail of the loop's queue; still exactly one callback). *)
Theorem C08_cancel_iff_queued_refuted :
  exists c progs sched l r,
    let s := run c (init c progs) sched in
    l_pc (lp s l) = LCancel2 r /\ r_st (reqs s r) <> Queued /\
    exists s', step c s l 0 = Some s' /\ l_pc (lp s' l) = LCancel3 r.
Proof. exact cancel_iff_queued_refuted. Qed.
Print Assumptions C08_cancel_iff_queued_refuted.

(* slow_io_work_running never exceeds (nthreads+1)/2, it is the number of workers executing (or
   just back from) slow work, and no set of more than (nthreads+1)/2 workers executes slow
   requests at once. *)
Theorem C08_slow_cap :
  forall (c : config) (progs : list (list op)) (sched : list (nat * nat)),
  let s := run c (init c progs) sched in
  running s <= threshold (c_n c) /\
  running s = countw slow_pc (c_n c) (wk s) /\
  forall ws : list nat,
    NoDup ws ->
    (forall w, In w ws -> exists r, wk s w = WRun r true) ->
    length ws <= threshold (c_n c).
Proof. exact slow_cap. Qed.
Print Assumptions C08_slow_cap.

Theorem C08_slow_flag_is_kind :
  forall (c : config) (progs : list (list op)) (sched : list (nat * nat)) (w r : nat) (b : bool),
  let s := run c (init c progs) sched in
  wk s w = WRun r b -> (b = true <-> r_kind (reqs s r) = KSlow).
Proof. exact slow_flag_is_kind. Qed.
Print Assumptions C08_slow_flag_is_kind.

(* With two or more threads the cap is below the pool size, and a worker that gets the mutex
   (idle and woken, or finishing) while a non-slow item is in the queue always leaves with a
   request - the head item, or the first item behind the slow-I/O marker, or (below the cap)
   a slow request - whatever the amount of pending slow I/O. *)
Theorem C08_fast_not_starved :
  forall (c : config) (progs : list (list op)) (sched : list (nat * nat)),
  let s := run c (init c progs) sched in
  2 <= c_n c ->
  threshold (c_n c) < c_n c /\
  forall t aux s' w r,
    c_loops c <= t -> w = t - c_loops c -> w < c_n c ->
    (exists b, wk s w = WRelock b) \/ (exists sg, wk s w = WWait sg) ->
    In (IWork r) (wq s) ->
    step c s t aux = Some s' ->
    exists r' b', wk s' w = WRun r' b' /\
      (b' = false -> In (IWork r') (wq s) /\ r_kind (reqs s r') <> KSlow) /\
      (b' = true -> In r' (sp s) /\ r_kind (reqs s r') = KSlow).
Proof. exact fast_not_starved. Qed.
Print Assumptions C08_fast_not_starved.

(* Completions of a request are delivered on the loop thread that submitted it. *)
Theorem C08_loops_isolated :
  forall (c : config) (progs : list (list op)) (sched : list (nat * nat)) (r t : nat) (st : Z)
         (l : nat) (k : kind),
  let s := run c (init c progs) sched in
  In (EDone r t st) (trace s) -> In (ESubmit r l k) (trace s) -> t = l /\ l < c_loops c.
Proof. exact loops_isolated. Qed.
Print Assumptions C08_loops_isolated.

(* loop->active_reqs.count (what uv_loop_alive / uv_run consult) equals the number of requests
   of the loop that are queued, running, finished-but-unreported or being cancelled: the loop is
   alive as long as a completion callback is owed. *)
Theorem C08_alive_until_done :
  forall (c : config) (progs : list (list op)) (sched : list (nat * nat)) (l r : nat),
  let s := run c (init c progs) sched in
  1 <= c_n c ->
  l_active (lp s l) = countr (unf l) (nreq s) (reqs s) /\
  (r_loop (reqs s r) = l -> unf_st (r_st (reqs s r)) = true -> 1 <= l_active (lp s l)).
Proof. exact alive_until_done. Qed.
Print Assumptions C08_alive_until_done.

(* About the model itself: the for(;;) loop of worker() is written with a recursion bound
   (wloop_fuel = 3).  Whenever a worker enters it in a reachable run, the invariant InvB holds,
   and under InvB any larger bound gives the same result: the bound is never what stops it. *)
Theorem C08_model_fuel_sufficient :
  forall (c : config) (progs : list (list op)) (s : state) (t w aux : nat) (s' : state),
  reachable c progs s -> w < c_n c ->
  (exists b, wk s w = WRelock b) \/ (exists sg, wk s w = WWait sg) ->
  wstep c t w aux s = Some s' ->
  exists s2, s' = wloop wloop_fuel c t w aux s2 /\
             forall k, wloop (wloop_fuel + k) c t w aux s2 = wloop wloop_fuel c t w aux s2.
Proof.
  intros c progs s t w aux s' Hr Hw Hpc Hs.
  destruct (worker_loop_entered_with_InvB c progs s t w aux s' Hr Hw Hpc Hs) as (s2 & E & H2).
  exists s2. split; [exact E|]. intros k. exact (fuel_sufficient c t w aux s2 k H2).
Qed.
Print Assumptions C08_model_fuel_sufficient.

(* The hypotheses are satisfiable: two workers, a CPU, a slow and a fast request, the last
   one cancelled; the run ends with nobody enabled and every callback delivered once. *)
Example C08_example :
  let s := run cfg2 (init cfg2 prog2) sched2 in
  verdict cfg2 s = 0%Z /\
  (forall t, t < 3 -> step cfg2 s t 0 = None) /\
  map (fun r => ndone r (trace s)) [0; 1; 2] = [1; 1; 1] /\
  map (fun r => nwork r (trace s)) [0; 1; 2] = [1; 1; 0] /\
  In (ECancel 2 0 0%Z) (trace s) /\ In (EDone 2 0 UV_ECANCELED) (trace s).
Proof. exact run2_terminal. Qed.
Print Assumptions C08_example.

(* uv_stop called from the first callback of a batch of two completions: both callbacks run
   in that uv__work_done call (the model's deliver never looks at the stop flag, as the code),
   and the run ends with nothing owed. *)
Example C08_example_stop_in_batch :
  let s := run cfg3 (init cfg3 prog3) sched3 in
  verdict cfg3 s = 0%Z /\
  map (fun r => ndone r (trace s)) [0; 1] = [1; 1] /\
  (forall t, t < 2 -> step cfg3 s t 0 = None).
Proof. exact run3_stop_in_batch. Qed.
Print Assumptions C08_example_stop_in_batch.

(* The kind table (Model/ThreadPool.v [api_kind], checked against the library by calling every
   API with a spread of arguments): uv_queue_work and uv_random are CPU work, every asynchronous
   uv_fs_* is fast I/O, uv_getaddrinfo and uv_getnameinfo are slow I/O for EVERY argument, in
   particular every flags value of uv_getnameinfo.  The slow-I/O cap applies to exactly these
   name lookups: no set of more than (nthreads+1)/2 workers executes requests submitted by a
   lookup API, and a request of any other API never counts against the cap (and so is covered
   by C08_fast_not_starved). *)
Theorem C08_kind_table :
  (forall flags, api_kind (AGetnameinfo flags) = KSlow) /\
  (forall numeric, api_kind (AGetaddrinfo numeric) = KSlow) /\
  (forall a, api_kind a = KSlow <-> is_lookup a = true) /\
  forall (c : config) (progs : list (list op)) (sched : list (nat * nat)),
  let s := run c (init c progs) sched in
  (forall ws : list nat,
     NoDup ws ->
     (forall w, In w ws -> exists r b a, wk s w = WRun r b /\ is_lookup a = true /\
                                         r_kind (reqs s r) = api_kind a) ->
     length ws <= threshold (c_n c)) /\
  (forall w r b a, wk s w = WRun r b -> is_lookup a = false -> r_kind (reqs s r) = api_kind a ->
     b = false).
Proof.
  split; [reflexivity|]. split; [reflexivity|]. split; [exact kind_table_lookup|].
  exact kind_table_cap.
Qed.
Print Assumptions C08_kind_table.

(* The completion wrappers of the public APIs ([done_wrapper], [complete_api] in the model).
   A request cancelled while queued (the pool hands UV_ECANCELED to its wrapper and its work
   function never ran) reports exactly the cancel code - UV_ECANCELED, UV_EAI_CANCELED for
   the name lookups - whatever the caller's request memory held before the call ([garbage]) and
   whatever the work would have returned; a request that ran reports the work function's own
   result; every completion unregisters the request exactly once, also uv_queue_work with a
   NULL after_work_cb (which makes no callback). *)
Theorem C08_api_completion :
  forall (a : capi) (garbage wres : Z),
  snd (complete_api a garbage wres FCancelled) =
    match a with CWork false => None | _ => Some (cancel_code a) end /\
  (forall f, f <> FCancelled ->
     snd (complete_api a garbage wres f) =
       match a with CWork false => None | CWork true => Some 0%Z | _ => Some wres end) /\
  (forall f, fst (complete_api a garbage wres f) = 1).
Proof.
  intros a garbage wres. split; [exact (api_cancelled_status a garbage wres)|]. split.
  - intros f. exact (api_normal_status a garbage wres f).
  - intros f. exact (api_unregister_once a garbage wres f).
Qed.
Print Assumptions C08_api_completion.

(* fork(): "the slow-cap / progress theorems hold in the child" is FALSE for the current code.
   The child's pool is fresh except for the two static counters; a child forked while one slow
   request runs in a 2-thread parent (slow_io_work_running = 1 = cap) never runs its own slow
   request: it stays Queued, every thread is blocked, verdict 2. *)
Theorem C08_fork_child_progress_refuted :
  exists c progs sched progs' sched',
    let parent := run c (init c progs) sched in
    let child := run c (fork_child c parent progs') sched' in
    1 <= c_n c /\ r_st (reqs child 0) = Queued /\ verdict c child = 2%Z /\
    (forall t, t < c_loops c + c_n c -> step c child t 0 = None).
Proof.
  exists cfgf, progf, sched_parent, progf, sched_child.
  destruct fork_child_stuck as (_ & H2 & H3 & H4). cbv zeta. split; [cbn; lia|]. split; [exact H2|].
  split; [exact H3 | exact H4].
Qed.
Print Assumptions C08_fork_child_progress_refuted.

(* What does hold: with both counters 0 at the time of the fork the child state is the initial
   state, so every theorem above (all stated from [init c progs]) holds in the child; with the
   counters reset by the child (notes/C08_fix_fork_counters.diff, [fork_child_fixed]) this is
   so for every parent state. *)
Theorem C08_fork_child_partial :
  forall (c : config) (parent : state) (progs : list (list op)),
  (running parent = 0 -> idle parent = 0 -> fork_child c parent progs = init c progs) /\
  fork_child_fixed c parent progs = init c progs.
Proof.
  intros c parent progs. split; [exact (fork_child_counters_zero c parent progs) | reflexivity].
Qed.
Print Assumptions C08_fork_child_partial.

(* The cap function (compared with slow_work_thread_threshold() of the library for every
   nthreads 1..1024): for every pool size n >= 1, 1 <= threshold n <= n - so the wait predicate
   "only the marker is queued and slow_running >= threshold" is false on a pool with no slow work
   running, and a worker of such a pool that finds the marker and a pending slow request takes
   it: a slow request can always run on an idle pool, also a pool of one thread. *)
Theorem C08_threshold_bounds :
  forall n, 1 <= n ->
  (1 <= threshold n <= n /\ Nat.leb (threshold n) 0 = false) /\
  forall (c : config) (t w aux : nat) (s : state) (r : nat) (sp' : list nat) (fuel : nat),
    c_n c = n -> wq s = [ISlowMsg] -> sp s = r :: sp' -> running s = 0 ->
    exists b, wk (wloop (S fuel) c t w aux s) w = WRun r b.
Proof.
  intros n Hn. split; [exact (threshold_bounds n Hn)|].
  intros c t w aux s r sp' fuel Hc. apply idle_pool_takes_slow. lia.
Qed.
Print Assumptions C08_threshold_bounds.
