(* C13 - Signals.  Only statements, each closed by [exact] of a lemma proved in
   Proofs/SignalProofs.v, with Print Assumptions beneath.

   Model: Model/Signal.v.  [run fx fs fr beh fuel (init cap) ops] executes the top-level
   operations [ops] (init/start/start_oneshot/stop/close of handles, delivery of a
   signal by the kernel, uv_run(NOWAIT) of a loop, uv_stop, uv_signal_init on the memory
   of a closed handle, and [OFork l]: from here on the process is the child of a fork()
   and has called uv_loop_fork(loop l)); [beh k] is what the k-th signal
   callback does (any list of the same operations); [cap] is the capacity of the
   self-pipes; [fuel] bounds the rounds of uv__signal_event.  [tr s] is the trace,
   newest event first.  Three switches name the variant of the code:
     fx = true   the code as it is (since /repo commit 6ba1164: the ONE_SHOT flag is
                 set or cleared by every effective start);
     fx = false  history: before commit 6ba1164 (flag only ever set);
     fs = true   the code as it is (since /repo commit c39ecc3: one-shot stop only
                 after the callback);
     fs = false  history: before commit c39ecc3 (a ONE_SHOT handle was stopped after
                 every message, also a stale one);
     fr = true   the code as it is (since /repo commit 48c2ea2: after its callback a
                 ONE_SHOT handle is stopped only if it still watches the signal of
                 the message);
     fr = false  history: before commit 48c2ea2 (stopped whatever it watches by then).
   The code as it is = [run true true true].
   Statements with "forall fx fs fr" hold for all eight combinations.
   Trusted assumption: uv__signal_start, uv__signal_stop and the handler are atomic
   with respect to each other (signals blocked + lock); the locking protocol itself is
   modelled and proved (C13_handler_never_in_lock_holder), trusted remain the kernel's
   signal masks and the atomicity of 1-byte pipe reads/writes. *)
From UV Require Import Lib.Base Model.Signal Proofs.SignalProofs.
From Coq Require Import Sorting.Sorted.

(* ---- invariants of every reachable state (Appendix A, S1-S3) ---- *)

(* S1: the tree is strictly sorted by uv__signal_compare, hence duplicate-free *)
Theorem C13_tree_sorted_nodup :
  forall fx fs fr beh fuel cap ops,
  let s := run fx fs fr beh fuel (init cap) ops in
  StronglySorted (fun a b => sig_compare (get s a) a (get s b) b = Lt) (tree s) /\ NoDup (tree s).
Proof. exact tree_sorted_nodup. Qed.
Print Assumptions C13_tree_sorted_nodup.

(* S2: a handle is in the tree exactly while its signum is not 0 *)
Theorem C13_tree_iff_started :
  forall fx fs fr beh fuel cap ops h,
  let s := run fx fs fr beh fuel (init cap) ops in
  In h (tree s) <-> h_signum (get s h) <> 0.
Proof. exact tree_iff_started. Qed.
Print Assumptions C13_tree_iff_started.

(* S3: caught_signals - dispatched_signals = messages for the handle in its loop's
   pipe (or already read into the buffer of uv__signal_event) *)
Theorem C13_caught_minus_dispatched :
  forall fx fs fr beh fuel cap ops h,
  let s := run fx fs fr beh fuel (init cap) ops in
  h < length (hs s) ->
  h_caught (get s h) = h_dispatched (get s h) + pending s h.
Proof. exact caught_minus_dispatched. Qed.
Print Assumptions C13_caught_minus_dispatched.

(* ---- each delivery reaches every watcher once ---- *)

(* On whole traces, for every script, callback behaviour and variant.  [delivered t h]: the
   signals for which the kernel ran the handler while h was watching them (= in the tree for
   them; deliveries happen between API calls, where the observer's view is exact:
   watching_iff_entry); [consumed t h]: the signals of the messages of h that its loop has
   handled, with a callback (ECb) or without (EDrop, ghost event); [psig s h]: the signals of
   the messages of h still in its loop's pipe / buffer; all three in order.  Hypothesis:
   the run never found a pipe full ([lost s = 0], the capacity hypothesis of the property).
   (1) deliveries = consumptions followed by messages in flight, in order: the k-th delivery
       to h is paired with the k-th consumption by h's loop; every delivery is consumed at most
       once; nothing is consumed (so no callback happens) without a delivery;
   (2) callbacks are among the consumptions, and the counts add up ([cbs_since_fork] = the number of
       callbacks on h, counted from the last uv_loop_fork() of its loop in a forked child if any:
       cbs_since_fork_count);
   (3) a consumption is a callback unless the handle does not watch the message's signal at
       that moment (it was stopped / closed / restarted on another signal since: signum only
       changes in uv__signal_stop and uv__signal_start), see also the dispatch step below.
   Gap named: the theorem does not exhibit the stop/close/start event between the delivery
   and the dropped message in the trace; it states the condition at the moment of dispatch. *)
Theorem C13_every_watcher_once :
  (forall fx fs fr beh fuel cap ops h,
   let s := run fx fs fr beh fuel (init cap) ops in
   lost s = 0 ->
   rev (delivered (tr s) h) = rev (consumed (tr s) h) ++ psig s h)
  /\
  (forall fx fs fr beh fuel cap ops h,
   let s := run fx fs fr beh fuel (init cap) ops in
   lost s = 0 ->
   cbs_since_fork (tr s) h <= length (consumed (tr s) h) /\
   length (consumed (tr s) h) + length (psig s h) = length (delivered (tr s) h))
  /\
  (forall fx fs fr beh s h sig r,
   In (EDrop h sig) (tr (process_msg fx fs fr beh s (h, sig) r)) -> ~ In (EDrop h sig) (tr s) ->
   sig <> h_signum (get s h)).
Proof.
  split; [exact every_watcher_once_trace | split; [exact callbacks_among_deliveries | exact drop_only_when_not_watching]].
Qed.
Print Assumptions C13_every_watcher_once.

(* the two steps behind it.  Delivery: while the handler is installed, one delivery puts exactly
   one message into the pipe of the loop of every handle that is in the tree for that signal and
   none for any other handle (room in the pipes as hypothesis); dispatch: handling one message
   makes exactly one callback, on that handle, iff the handle still watches the signal of the
   message, none otherwise, and consumes the message. *)
Theorem C13_every_watcher_once_steps :
  (forall fx fs fr beh fuel cap ops sig rh,
   let s := run fx fs fr beh fuel (init cap) ops in
   sig <> 0 -> disp_of s sig = Handler rh ->
   (forall l, length (pipe_of s l) + length (targets s sig) <= Signal.cap s) ->
   forall h, pending (fst (deliver s sig)) h =
             pending s h +
             (if existsb (Nat.eqb h) (filter (fun y => h_signum (get s y) =? sig) (tree s)) then 1 else 0))
  /\
  (forall fx fs fr beh s h sig r h',
   count_cb h' (tr (process_msg fx fs fr beh s (h, sig) r)) =
   count_cb h' (tr s) + (if (sig =? h_signum (get s h)) && (h =? h') then 1 else 0) /\
   batch (process_msg fx fs fr beh s (h, sig) r) = r).
Proof. split; [exact deliver_one_message_each | exact dispatch_one_callback]. Qed.
Print Assumptions C13_every_watcher_once_steps.

(* a callback is made only on a handle that the API-level observer knows to be watching
   exactly that signal *)
Theorem C13_callback_matches_watch :
  forall fx fs fr beh fuel cap ops t2 t0 h sig,
  tr (run fx fs fr beh fuel (init cap) ops) = t2 ++ ECb h sig :: t0 ->
  cb_allowed (mode_of t0 h) sig = true.
Proof. exact callback_matches_watch. Qed.
Print Assumptions C13_callback_matches_watch.

(* ---- stop / close ---- *)

(* after uv_signal_stop()/uv_close() has returned ([EOp] is logged at return) the handle
   gets no callback until the program starts it again *)
Theorem C13_none_after_stop :
  forall fx fs fr beh fuel cap ops t2 t1 t0 h sig o r,
  tr (run fx fs fr beh fuel (init cap) ops) = t2 ++ ECb h sig :: t1 ++ EOp o r :: t0 ->
  o = OStop h \/ o = OClose h ->
  (forall e, In e t1 -> ~ is_start_of h e) ->
  False.
Proof. exact none_after_stop. Qed.
Print Assumptions C13_none_after_stop.

(* close_cb runs only when no signal caught for the handle is left in a pipe or buffer;
   the handle is then closing, stopped and out of the tree *)
Theorem C13_close_cb_after_dispatch :
  forall fx fs fr beh fuel cap ops h,
  let s := run fx fs fr beh fuel (init cap) ops in
  h_closed (get s h) = true ->
  pending s h = 0 /\ h_closing (get s h) = true /\ h_signum (get s h) = 0 /\ ~ In h (tree s).
Proof. exact closed_nothing_pending. Qed.
Print Assumptions C13_close_cb_after_dispatch.

(* ---- one-shot ---- *)

(* a handle started one-shot (effective start: the observer saw it idle) gets at most one
   callback until the program's next call on it, and once that callback has returned it is
   stopped.  (That it gets the callback at all is C13_every_watcher_once; the cases where
   it gets none although a signal was delivered are C13_oneshot_stopped_without_callback.) *)
Theorem C13_oneshot_exactly_one :
  (forall fx fs fr beh fuel cap ops seg t0 h sig,
   tr (run fx fs fr beh fuel (init cap) ops) = seg ++ EOp (OStartOneshot h sig) 0%Z :: t0 ->
   sig <> 0 -> mode_of t0 h = MIdle ->
   (forall e, In e seg -> ~ is_api_on h e) ->
   count_cb h seg <= 1)
  /\
  (forall fx fs fr beh fuel cap ops seg t0 h sg,
   let s := run fx fs fr beh fuel (init cap) ops in
   tr s = seg ++ ECbEnd h :: t0 ->
   mode_of t0 h = MOne sg true ->
   (forall e, In e seg -> ~ is_start_of h e) ->
   h_signum (get s h) = 0 /\ h_active (get s h) = false).
Proof. split; [exact oneshot_at_most_one | exact oneshot_then_stopped]. Qed.
Print Assumptions C13_oneshot_exactly_one.

(* whenever the observer's view says "stopped" the handle really is (uv_is_active = 0) *)
Theorem C13_idle_means_stopped :
  forall fx fs fr beh fuel cap ops h,
  let s := run fx fs fr beh fuel (init cap) ops in
  mode_of (tr s) h = MIdle -> h_signum (get s h) = 0 /\ h_active (get s h) = false.
Proof. exact idle_means_stopped. Qed.
Print Assumptions C13_idle_means_stopped.

(* Full statement ([oneshot_live_statement fx fs fr]): a handle started one-shot that has not had
   its callback yet is never found stopped - no snapshot (uv_is_active after an operation, at
   the entry of a callback, after a run) shows it inactive - for every program that does not
   re-arm a handle one-shot on signal S from inside that handle's own callback for S
   ([alias_ok (tr s) = true]; see C13_oneshot_rearm_same_signal_in_cb).  Together with
   C13_callback_matches_watch (the callback carries the signal of the last start),
   C13_oneshot_exactly_one (at most one, then stopped) and C13_every_watcher_once this is
   "exactly one callback, for the signal it was last started on". *)

(* HISTORY (fr = false, before commit 48c2ea2): refuted - a handle that its own one-shot callback
   restarted one-shot on another signal was stopped when that callback returned *)
Theorem C13_oneshot_restart_in_cb_refuted : forall fx fs, ~ oneshot_live_statement fx fs false.
Proof. exact oneshot_restart_in_cb_refuted. Qed.
Print Assumptions C13_oneshot_restart_in_cb_refuted.

Theorem C13_oneshot_restart_in_cb_stopped :
  forall fx fs,
  let s := run fx fs false restart_in_cb_beh 8 (init 16) [OInit 0; OStartOneshot 0 10; ORaise 10; ORun 0] in
  h_active (get s 0) = false /\ count_cb 0 (tr s) = 1 /\ disp_of s 12 = Default.
Proof. exact oneshot_restart_in_cb_stopped. Qed.
Print Assumptions C13_oneshot_restart_in_cb_stopped.

(* HEADLINE, the code as it is (fs = true, fr = true): proved, for every operation sequence and
   every callback behaviour *)
Theorem C13_oneshot_live_until_callback : forall fx, oneshot_live_statement fx true true.
Proof. exact oneshot_live_until_callback. Qed.
Print Assumptions C13_oneshot_live_until_callback.

(* the code as it is (fr = true): a handle that its callback has started on another signal keeps exactly what that
   start gave it (C13_restart_fresh: like a fresh handle) when the callback returns *)
Theorem C13_restart_in_callback_kept :
  forall fx fs beh s h sig r,
  sig = h_signum (get s h) ->
  let s1 := script fx (cb_enter s h sig) (beh (cbcount s)) in
  h_signum (get s1 h) <> sig ->
  let s' := process_msg fx fs true beh s (h, sig) r in
  (forall x, h_signum (get s' x) = h_signum (get s1 x) /\ h_oneshot (get s' x) = h_oneshot (get s1 x) /\
             h_active (get s' x) = h_active (get s1 x)) /\
  tree s' = tree s1 /\ disp_of s' = disp_of s1.
Proof. exact restart_in_callback_kept. Qed.
Print Assumptions C13_restart_in_callback_kept.

(* the code as it is (fr = true), the witness run: restarted one-shot on SIGUSR2 inside the SIGUSR1 callback, the handle
   stays active and fresh, then gets exactly one callback for SIGUSR2 and is stopped *)
Theorem C13_oneshot_restart_in_cb_fixed_behaviour :
  forall fx fs,
  let ops := [OInit 0; OStartOneshot 0 10; ORaise 10; ORun 0] in
  let s := run fx fs true restart_in_cb_beh 8 (init 16) ops in
  let s2 := run fx fs true restart_in_cb_beh 8 (init 16) (ops ++ [ORaise 12; ORun 0; ORaise 12]) in
  (h_active (get s 0) = true /\ h_signum (get s 0) = 12 /\ count_cb 0 (tr s) = 1 /\
   disp_of s 12 = Handler true /\ fresh_like (get s 0) 12 true) /\
  (count_cb 0 (tr s2) = 2 /\ In (ECb 0 12) (tr s2) /\ h_active (get s2 0) = false /\
   disp_of s2 12 = Default).
Proof. exact oneshot_restart_in_cb_fixed_behaviour. Qed.
Print Assumptions C13_oneshot_restart_in_cb_fixed_behaviour.

(* every variant: re-arming one-shot on the SAME signal from inside the callback - by the short
   circuit start ([short = true], a no-op: the handle is still in its first watch) or by
   stop + start ([short = false], which the code cannot tell from the first watch) - leaves the
   handle stopped when the callback returns; the second form is what [alias_ok] excludes *)
Theorem C13_oneshot_rearm_same_signal_in_cb :
  forall fx fs fr (short : bool),
  let beh := fun k => match k with
                      | 0 => if short then [OStartOneshot 0 10] else [OStop 0; OStartOneshot 0 10]
                      | _ => [] end in
  let s := run fx fs fr beh 8 (init 16) [OInit 0; OStartOneshot 0 10; ORaise 10; ORun 0] in
  h_active (get s 0) = false /\ count_cb 0 (tr s) = 1 /\ disp_of s 10 = Default /\
  alias_ok (tr s) = short.
Proof. exact oneshot_rearm_same_signal_in_cb. Qed.
Print Assumptions C13_oneshot_rearm_same_signal_in_cb.

(* since commit c39ecc3 (fs = true): a message for a signal the handle does not watch (any more)
   changes nothing but dispatched_signals *)
Theorem C13_stale_message_keeps_handle :
  forall fx fr beh s h sig r,
  sig <> h_signum (get s h) ->
  let s' := process_msg fx true fr beh s (h, sig) r in
  (forall x, h_signum (get s' x) = h_signum (get s x) /\ h_oneshot (get s' x) = h_oneshot (get s x) /\
             h_active (get s' x) = h_active (get s x)) /\
  tree s' = tree s /\ disp_of s' = disp_of s /\ tr s' = EDrop h sig :: tr s.
Proof. exact stale_message_keeps_handle. Qed.
Print Assumptions C13_stale_message_keeps_handle.

Theorem C13_oneshot_stale_stop_fixed_behaviour :
  forall fx fr,
  let ops := [OInit 0; OStartOneshot 0 10; ORaise 10; OStartOneshot 0 12; ORun 0] in
  let s := run fx true fr (fun _ => []) 8 (init 16) ops in
  let s2 := run fx true fr (fun _ => []) 8 (init 16) (ops ++ [ORaise 12; ORun 0; ORaise 12]) in
  (h_active (get s 0) = true /\ h_signum (get s 0) = 12 /\ count_cb 0 (tr s) = 0 /\
   disp_of s 12 = Handler true) /\
  (count_cb 0 (tr s2) = 1 /\ In (ECb 0 12) (tr s2) /\ h_active (get s2 0) = false /\
   disp_of s2 12 = Default).
Proof. exact oneshot_stale_stop_fixed_behaviour. Qed.
Print Assumptions C13_oneshot_stale_stop_fixed_behaviour.

(* HISTORY (fs = false, before commit c39ecc3): a stale message stopped the handle *)
Theorem C13_oneshot_stale_stop_refuted : forall fx fr, ~ oneshot_live_statement fx false fr.
Proof. exact oneshot_stale_stop_refuted. Qed.
Print Assumptions C13_oneshot_stale_stop_refuted.

Theorem C13_oneshot_stopped_without_callback :
  forall fx,
  let s := run fx false false (fun _ => []) 8 (init 16)
             [OInit 0; OStartOneshot 0 10; ORaise 10; OStartOneshot 0 12; ORun 0] in
  h_active (get s 0) = false /\ count_cb 0 (tr s) = 0 /\ disp_of s 12 = Default.
Proof. exact oneshot_stopped_without_callback. Qed.
Print Assumptions C13_oneshot_stopped_without_callback.

(* ---- restart ---- *)

(* reference: what a start on a freshly initialised handle gives *)
Theorem C13_restart_fresh_reference :
  forall fx s l sig os, sig <> 0 -> sigok sig = true ->
  let s0 := with_hs s (hs s ++ [new_handle l]) in
  fresh_like (get (fst (sig_start fx s0 (length (hs s)) sig os)) (length (hs s))) sig os.
Proof. exact start_fresh_handle. Qed.
Print Assumptions C13_restart_fresh_reference.

(* HEADLINE, the code as it is (fx = true): starting a stopped, not closing handle again - on the
   same or another signal, one-shot or not - leaves it exactly like a fresh handle, provided no
   signal caught before is still undispatched (caught = dispatched).  For every state. *)
Theorem C13_restart_fresh :
  forall s h sig os,
  usable s h = true -> h_signum (get s h) = 0 -> sig <> 0 -> sigok sig = true ->
  h_caught (get s h) = h_dispatched (get s h) ->
  fresh_like (get (fst (sig_start true s h sig os)) h) sig os.
Proof. exact restart_fresh_fixed. Qed.
Print Assumptions C13_restart_fresh.

(* the proviso is needed ([restart_fresh_statement fx fs fr] = the clause without it, over reachable
   states): a signal caught before stop + start is still delivered (DESIGN section 3, item 14);
   all variants *)
Theorem C13_stale_signal_refuted : forall fx fs fr, ~ restart_fresh_statement fx fs fr.
Proof. exact stale_signal_refuted. Qed.
Print Assumptions C13_stale_signal_refuted.

(* every effective start (another signum than the one being watched), any state, any variant:
   succeeds, watches sig, active, counters kept, flag = asked (before 6ba1164: old || asked) *)
Theorem C13_restart_fresh_partial :
  forall fx s h sig os,
  usable s h = true -> sig <> 0 -> sig <> h_signum (get s h) -> sigok sig = true ->
  let x := get s h in
  let y := get (fst (sig_start fx s h sig os)) h in
  snd (sig_start fx s h sig os) = 0%Z /\
  h_signum y = sig /\ h_active y = true /\ h_caught y = h_caught x /\ h_dispatched y = h_dispatched x /\
  h_oneshot y = (if fx then os else h_oneshot x || os) /\
  ((fx = true \/ h_oneshot x = false \/ os = true) -> h_caught x = h_dispatched x -> fresh_like y sig os).
Proof. exact restart_fresh_partial. Qed.
Print Assumptions C13_restart_fresh_partial.

(* the witness run of DESIGN item 3 on the code as it is: persistent restart keeps watching *)
Theorem C13_oneshot_flag_fixed_behaviour :
  let s := run true false false (fun _ => []) 8 (init 16)
             (sticky_ops ++ [OStart 0 10; ORaise 10; ORun 0]) in
  h_active (get s 0) = true /\ disp_of s 10 = Handler false /\ h_oneshot (get s 0) = false.
Proof. exact oneshot_flag_fixed_behaviour. Qed.
Print Assumptions C13_oneshot_flag_fixed_behaviour.

(* HISTORY (fx = false, the code before commit 6ba1164): UV_SIGNAL_ONE_SHOT was never cleared
   (DESIGN section 3, item 3), so the clause failed even with nothing pending; reverting the
   fix makes the correspondence check fail again *)
Theorem C13_oneshot_flag_sticks_refuted : forall fs fr, ~ restart_fresh_statement false fs fr.
Proof. exact oneshot_flag_sticks_refuted. Qed.
Print Assumptions C13_oneshot_flag_sticks_refuted.

Theorem C13_oneshot_flag_sticks_behaviour :
  let s := run false false false (fun _ => []) 8 (init 16)
             (sticky_ops ++ [OStart 0 10; ORaise 10; ORun 0]) in
  h_active (get s 0) = false /\ disp_of s 10 = Default /\
  count_cb 0 (tr s) = 2 /\ mode_of (tr s) 0 = MIdle.
Proof. exact oneshot_flag_sticks_behaviour. Qed.
Print Assumptions C13_oneshot_flag_sticks_behaviour.

(* ---- disposition ---- *)

(* full statement ([disposition_iff_watched_statement]): libuv's handler is installed iff some
   handle watches the signal.  Refuted in all variants by the SA_RESETHAND window
   (DESIGN section 3, item 13): one-shot A catches, one-shot B starts before the dispatch. *)
Theorem C13_resethand_race_refuted : forall fx fs fr, ~ disposition_iff_watched_statement fx fs fr.
Proof. exact resethand_race_refuted. Qed.
Print Assumptions C13_resethand_race_refuted.

(* what holds in every reachable state, for every signal: no handle in the tree -> default
   ("reverts to the default exactly when the last one stops"); a handle without the one-shot
   flag in the tree -> handler without SA_RESETHAND; handler -> some handle in the tree;
   and, for runs in which no handle was ever started on a signal that had a
   caught-but-undispatched one-shot watcher ([race s = false]): a watcher -> handler. *)
Theorem C13_disposition_partial :
  forall fx fs fr beh fuel cap ops sig,
  sig <> 0 ->
  let s := run fx fs fr beh fuel (init cap) ops in
  ((forall h, ~ entry s sig h) -> disp_of s sig = Default) /\
  (forall h, entry s sig h -> h_oneshot (get s h) = false -> disp_of s sig = Handler false) /\
  (is_handler (disp_of s sig) = true -> exists h, entry s sig h) /\
  (race s = false -> (exists h, watches s h sig) -> is_handler (disp_of s sig) = true).
Proof. exact disposition_partial. Qed.
Print Assumptions C13_disposition_partial.

(* ---- fork() + uv_loop_fork(), uv_stop(), re-use of a closed handle's memory ---- *)

(* uv_loop_fork in the child: a new, empty signal pipe for the loop and zeroed counters for its
   handles; tree, dispositions, what every handle watches and the other loops' pipes are inherited *)
Theorem C13_fork_fresh_pipe :
  forall fx fs fr beh fuel s l,
  let s' := top fx fs fr beh fuel s (OFork l) in
  pipe_of s' l = [] /\
  (forall l', l' <> l -> pipe_of s' l' = pipe_of s l') /\
  tree s' = tree s /\ disp_of s' = disp_of s /\ length (hs s') = length (hs s) /\
  (forall h, h_signum (get s' h) = h_signum (get s h) /\ h_oneshot (get s' h) = h_oneshot (get s h) /\
             h_active (get s' h) = h_active (get s h) /\ h_loop (get s' h) = h_loop (get s h) /\
             h_closing (get s' h) = h_closing (get s h) /\ h_closed (get s' h) = h_closed (get s h)) /\
  (forall h, h_loop (get s h) = l -> h_caught (get s' h) = 0 /\ h_dispatched (get s' h) = 0) /\
  (forall h, h_loop (get s h) <> l ->
             h_caught (get s' h) = h_caught (get s h) /\ h_dispatched (get s' h) = h_dispatched (get s h)).
Proof. exact fork_fresh_pipe. Qed.
Print Assumptions C13_fork_fresh_pipe.

(* after the fork the two processes' deliveries are independent.  In the model the parent is the run
   [prefix ++ parent ops], the child the run [prefix ++ OFork l :: child ops] (two runs without shared
   state: run_app); every theorem of this file holds for both, because all of them quantify over
   operation lists that may contain OFork.  In particular the child's handles of the loop start
   afresh - nothing delivered, nothing consumed, nothing in flight - and from there on
   C13_every_watcher_once pairs exactly the child's own deliveries with the child's own callbacks.
   That the real child behaves like that run while the real parent runs its own loop is what the
   fork family of the correspondence check decides (new pipe by inode, own deliveries only). *)
Theorem C13_fork_child_starts_afresh :
  forall fx fs fr beh fuel cap ops l h,
  let s := run fx fs fr beh fuel (init cap) ops in
  let s' := top fx fs fr beh fuel s (OFork l) in
  h < length (hs s) -> h_loop (get s h) = l ->
  delivered (tr s') h = [] /\ consumed (tr s') h = [] /\ psig s' h = [] /\ pending s' h = 0.
Proof. exact fork_child_starts_afresh. Qed.
Print Assumptions C13_fork_child_starts_afresh.

(* when close_cb has run nothing names the handle any more - no message in any pipe or buffer, not in
   the tree - in every run, with uv_stop() anywhere: its memory may be used for a new handle, which
   then cannot get a callback for a signal raised before it was started *)
Theorem C13_closed_handle_unreferenced :
  forall fx fs fr beh fuel cap ops h,
  let s := run fx fs fr beh fuel (init cap) ops in
  h_closed (get s h) = true ->
  psig s h = [] /\ (forall l m, In m (pipe_of s l) -> fst m <> h) /\ (forall m, In m (batch s) -> fst m <> h) /\
  ~ In h (tree s).
Proof. exact closed_handle_unreferenced. Qed.
Print Assumptions C13_closed_handle_unreferenced.

(* witness: uv_close + uv_stop in the iteration that caught a signal for the handle: the close is
   deferred (the message is consumed by the next run), re-init is refused before close_cb, and
   the new watcher in the same memory gets no callback for the old signal *)
Theorem C13_close_stop_reuse_behaviour :
  let beh := fun k => match k with 0 => [ORaise 10; OClose 0; OUvStop 0] | _ => [] end in
  let s1 := run true true true beh 8 (init 16)
              [OInit 0; OInit 0; OStart 0 10; OStart 1 12; ORaise 12; ORun 0] in
  let s2 := run true true true beh 8 (init 16)
              [OInit 0; OInit 0; OStart 0 10; OStart 1 12; ORaise 12; ORun 0; ORun 0; OReinit 0; OStart 0 10; ORun 0] in
  (h_closed (get s1 0) = false /\ pending s1 0 = 1 /\ stopf s1 0 = false) /\
  (count_cb 0 (tr s2) = 0 /\ h_signum (get s2 0) = 10 /\ h_active (get s2 0) = true /\ pending s2 0 = 0 /\
   In (ECloseCb 0) (tr s2)).
Proof. exact close_stop_reuse_behaviour. Qed.
Print Assumptions C13_close_stop_reuse_behaviour.

(* ---- "signals raised while handles are being started or stopped": the critical sections ---- *)

(* Model [csys] (end of Model/Signal.v): any number of threads making API calls that enter the
   critical section of uv__signal_start / uv__signal_stop, the kernel running the handler in any
   thread that does not block the signal, the lock = a pipe with one token.  For the code as it is
   (uv__signal_block_and_lock: block every signal, THEN take the lock; uv__signal_unlock_and_unblock:
   release, THEN restore the mask; handler with sa_mask full), for every number of threads and
   calls and every schedule of steps and signal deliveries:
   (1) at most one thread holds the lock, (2) a thread holds it only while it blocks every signal,
   (3) a handler never starts in a thread that holds the lock (when it asks for the lock its thread
       holds nothing and was interrupted between two calls) - so start/stop and a delivery exclude
       each other and no thread can wait for a token it holds itself.
   The check ties the order to the code: every access to the lock pipe is observed (wrapped
   read/write) and must be made with all signals blocked in the calling thread. *)
Theorem C13_handler_never_in_lock_holder :
  forall n calls cs,
  let st := crun true (cinit n calls) cs in
  holders (c_thr st) <= 1 /\
  (forall x, In x (c_thr st) -> c_holds x = true -> c_blocked x = true) /\
  (forall x, In x (c_thr st) -> c_pc x = CH1 -> c_holds x = false /\ c_saved x = CIdle).
Proof. exact handler_never_in_lock_holder. Qed.
Print Assumptions C13_handler_never_in_lock_holder.

(* the other order (take the lock, then block) is refuted: one thread, one call, a signal in the
   window: the handler waits for the token its own thread holds; no step changes the state again *)
Theorem C13_lock_before_block_deadlocks :
  let st := crun false (cinit 1 1) [CRun 0; CSignal 0] in
  c_token st = false /\
  (exists x, c_thr st = [x] /\ c_pc x = CH1 /\ c_holds x = true /\ c_calls x = 1) /\
  (forall c, cstep false st c = st).
Proof. exact lock_before_block_deadlocks. Qed.
Print Assumptions C13_lock_before_block_deadlocks.

(* ---- the hypotheses are satisfiable: a reachable, non-trivial state ---- *)
Example C13_example_run :
  let beh := fun k => match k with 0 => [ORaise 12; OStop 1] | _ => [] end in
  let s := run true true true beh 8 (init 16)
             [OInit 0; OInit 0; OInit 1; OStart 0 10; OStartOneshot 1 10; OStart 2 12;
              ORaise 10; ORaise 10; ORun 0; ORaise 12] in
  count_cb 0 (tr s) = 2 /\ count_cb 1 (tr s) = 0 /\ tree s = [0; 2] /\
  disp_of s 10 = Handler false /\ race s = false /\ watches s 2 12 /\
  pending s 2 = 2 /\ h_caught (get s 2) = 2 /\ mode_of (tr s) 0 = MPers 10 /\ mode_of (tr s) 1 = MIdle /\
  lost s = 0 /\ delivered (tr s) 0 = [10; 10] /\ consumed (tr s) 0 = [10; 10] /\
  delivered (tr s) 2 = [12; 12] /\ consumed (tr s) 2 = [] /\ psig s 2 = [12; 12] /\ consumed (tr s) 1 = [10; 10].
Proof. vm_compute. repeat split; auto; intros [A B]; discriminate. Qed.

Example C13_example_oneshot_session :
  let s := run true true true (fun _ => []) 8 (init 16) [OInit 0; OStartOneshot 0 10; ORaise 10; ORun 0] in
  exists seg t0, tr s = seg ++ EOp (OStartOneshot 0 10) 0%Z :: t0 /\ mode_of t0 0 = MIdle /\
                 count_cb 0 seg = 1 /\ h_active (get s 0) = false.
Proof.
  eexists; eexists. vm_compute. split; [|split; [|split]].
  - match goal with |- ?l = _ => change l with ([ESnap [Default; Default; Default; Default] [false]; ERunEnd 0; ECbEnd 0;
      ESnap [Default; Default; Default; Default] [true]; ECb 0 10; ERunBegin 0;
      ESnap [Default; Default; Default; Default] [true]; EOp (ORaise 10) 0%Z;
      ESnap [Default; Handler true; Default; Default] [true]] ++ EOp (OStartOneshot 0 10) 0%Z ::
      [ESnap [Default; Default; Default; Default] [false]; EOp (OInit 0) 0%Z]) end.
    reflexivity.
  - reflexivity.
  - reflexivity.
  - reflexivity.
Qed.
