(* placeholder until the proofs land: the model computes *)
From UV Require Import Lib.Base Model.CloseProto.
Example C02_placeholder_model_runs :
  ctrace [OInit TStream; OSubmit 0 1 1; OClose 0; OPhase] (fun _ => []) =
  [EIn (OInit TStream); EIn (OSubmit 0 1 1); EIn (OClose 0); EIn OPhase;
   EReqCb 1 UV_ECANCELED true; ECloseCb 0].
Proof. vm_compute. reflexivity. Qed.
Print Assumptions C02_placeholder_model_runs.
