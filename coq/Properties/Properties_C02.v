(* C02 close protocol, part 1: the loop-core model (Model/LoopCore.v: timer,
   idle, prepare, check, async handles; every script, every callback
   behaviour, every run mode, metrics on/off).  Statements only; proofs in
   Proofs/CloseProofs.v.  Part 2 (handle types with requests in flight):
   Properties_C02_proto.v. *)
From UV Require Import Lib.Base Model.Heap Model.Timer Model.LoopCore Proofs.LoopCoreInv Proofs.CloseProofs.
Local Open Scope Z_scope.

(* uv_close() emits no event at all, so in particular no callback; nor does
   any other API call (also when made from inside a callback) *)
Theorem C02_close_not_reentrant :
  forall s i, snd (lapi s (LClose i)) = [].
Proof. exact close_not_reentrant. Qed.
Print Assumptions C02_close_not_reentrant.

Theorem C02_api_not_reentrant :
  forall s o, forallb (fun e => negb (is_cb e)) (snd (lapi s o)) = true.
Proof. exact api_not_reentrant. Qed.
Print Assumptions C02_api_not_reentrant.

(* at most one close callback per handle in any trace ... *)
Theorem C02_close_cb_at_most_once :
  forall t0 m os beh pre i nw post nw',
    ltrace t0 m os beh = pre ++ VCb 6 i nw :: post ->
    ~ In (VCb 6 i nw') pre /\ ~ In (VCb 6 i nw') post.
Proof. exact close_cb_at_most_once. Qed.
Print Assumptions C02_close_cb_at_most_once.

(* ... and if the final uv_run returned 0, every handle on which uv_close was
   called (UV_HANDLE_CLOSING set: C02_close_sets_closing) has had it *)
Theorem C02_close_cb_exactly_once :
  forall t0 m os md beh pre i,
    let s' := lfinal t0 m (os ++ [LRun md]) beh in
    ltrace t0 m (os ++ [LRun md]) beh = pre ++ [VRun false] ->
    (i < length (hs s'))%nat -> h_closing (hget s' i) = true ->
    exists nw, In (VCb 6 i nw) (ltrace t0 m (os ++ [LRun md]) beh).
Proof. exact close_cb_eventually. Qed.
Print Assumptions C02_close_cb_exactly_once.

Theorem C02_close_sets_closing :
  forall s p w i, LInvG s p w -> usable s i = true ->
    h_closing (hget (fst (lapi s (LClose i))) i) = true.
Proof. exact close_sets_closing. Qed.
Print Assumptions C02_close_sets_closing.

Theorem C02_close_cb_iff_closed :
  forall t0 m os beh i,
    (exists nw, In (VCb 6 i nw) (ltrace t0 m os beh)) <->
    ((i < length (hs (lfinal t0 m os beh)))%nat /\ h_closed (hget (lfinal t0 m os beh) i) = true).
Proof. exact close_cb_iff_closed. Qed.
Print Assumptions C02_close_cb_iff_closed.

(* after the close callback of handle i: no timer / idle / prepare / check /
   async callback for i and no second close callback (tag 5 = after_work
   carries a request id, not a handle) *)
Theorem C02_nothing_after_close_cb :
  forall t0 m os beh pre i nw post tag nw',
    ltrace t0 m os beh = pre ++ VCb 6 i nw :: post -> tag <> 5%nat -> ~ In (VCb tag i nw') post.
Proof. exact nothing_after_close_cb. Qed.
Print Assumptions C02_nothing_after_close_cb.

(* close callbacks come out of uv__run_closing_handles only: API calls, the
   idle/prepare/check phases, the poll phase and the timer pass emit none *)
Theorem C02_close_cb_in_closing_phase_only :
  forall s beh,
    (forall o, no_close (snd (lapi s o))) /\
    (forall k tag, tag <> 6%nat -> no_close (snd (run_watchers s beh k tag))) /\
    (forall timeout, no_close (snd (io_poll s beh timeout))) /\
    no_close (snd (l_run_timers s beh)).
Proof. exact close_cb_in_closing_phase_only. Qed.
Print Assumptions C02_close_cb_in_closing_phase_only.

(* the invariant the theorems run on holds in every reachable state *)
Theorem C02_queue_invariant :
  forall t0 m os beh,
    Good (lfinal t0 m os beh) [] [] /\ TrOK (linit t0 m) (ltrace t0 m os beh) (lfinal t0 m os beh).
Proof. exact ltrace_ok. Qed.
Print Assumptions C02_queue_invariant.

Example C02_example_all_kinds_closed_in_and_out_of_callbacks :
  let os := [LInit KTimer true; LInit KIdle true; LInit KAsync true; LInit KCheck true; LInit KPrepare true;
             LTStart 0 (Some 1%nat) 0 0; LStart 1 true; LStart 3 true; LStart 4 true; LSend 2;
             LClose 4; LRun 0] in
  let beh := fun k => match k with O => [LClose 1] | 1%nat => [LClose 0; LClose 2] | 2%nat => [LClose 3] | _ => [] end in
  exists pre, ltrace 0 false os beh = pre ++ [VRun false] /\
  forall i, (i < 5)%nat -> exists nw, In (VCb 6 i nw) (ltrace 0 false os beh).
Proof. exact loopcore_example. Qed.
