(* C11 - File operations.  Only statements, each closed by [exact] of a lemma
   proved in Proofs/FsProofs.v, with Print Assumptions beneath. *)
From UV Require Import Lib.Base Model.Fs Proofs.FsProofs.

Theorem C11_errno_mapping_leaf :
  forall e n, result_of (RErr e) = (- e)%Z /\ result_of (ROk n) = Z.of_nat n.
Proof. intros e n. split; [exact (result_of_err e) | exact (result_of_ok n)]. Qed.
Print Assumptions C11_errno_mapping_leaf.
