(* C11 - File operations.  Only statements, each closed by [exact] of a lemma
   proved in Proofs/Fs*.v, with Print Assumptions beneath. *)
From UV Require Import Lib.Base Model.Fs Proofs.FsProofs Proofs.FsRoutesProofs Proofs.FsLedgerProofs
  Proofs.FsPoolProofs Proofs.FsRingProofs Proofs.FsPathProofs Proofs.FsScandirProofs.

(* ================= (b) buffer arithmetic ================= *)

(* uv_fs_read: for any number of buffers (above IOV_MAX included) of any
   sizes (0 included), any offset: the one system call offers the first
   min(nbufs, iovmax) buffers at the given offset (or none: the descriptor's
   position); when the kernel delivers n bytes, every buffer keeps its length,
   the buffers read in order hold exactly those n file bytes followed by their
   old contents, the result is n, the position moves by n iff no offset was given. *)
Theorem C11_read_fills_in_order :
  forall (A : Type) (iovmax : nat) (bufs : list (buf A)) (off : Z) (file : list A) (pos n : nat)
         (c : rwcall A),
  fs_read_call iovmax bufs off = Some c ->
  let start := if (off <? 0)%Z then pos else Z.to_nat off in
  n <= total_len (riov c) -> n <= length (skipn start file) ->
  exists bufs',
    fs_read iovmax bufs off file pos (AOk n) =
      (ROk n, bufs', if (off <? 0)%Z then pos + n else pos) /\
    map (@length A) bufs' = map (@length A) bufs /\
    concat bufs' = firstn n (skipn start file) ++ skipn n (concat bufs) /\
    length (riov c) <= iovmax /\ riov c = firstn (length (riov c)) bufs.
Proof. intros A. exact (@read_fills_in_order A). Qed.
Print Assumptions C11_read_fills_in_order.

(* the hypothesis is satisfiable: a request with buffers always makes a call *)
Theorem C11_read_makes_a_call :
  forall (A : Type) iovmax (bufs : list (buf A)) off,
  1 <= iovmax -> bufs <> [] -> fs_read_call iovmax bufs off <> None.
Proof. intros A. exact (@read_call_exists A). Qed.
Print Assumptions C11_read_makes_a_call.

(* uv__fs_write_all + uv__fs_buf_offset against ANY system (state-passing
   oracle [sys]: short counts, EINTR, errors in any pattern) whose counts do not
   exceed the request: the accepted bytes are, in order, exactly the first
   [wcount] bytes of the list; every call starts at the offset where the
   previous one stopped (or uses the descriptor's position throughout); no call
   carries more than iovmax buffers; the value returned is the number of bytes
   written, or the error when nothing was written. *)
Theorem C11_write_all_prefix :
  forall (A St : Type) (sys : St -> rwcall A -> answer * St)
         (fuel iovmax : nat) (s : St) (bufs : list (buf A)) (off : Z) r lg s',
  write_all sys fuel iovmax s bufs off = (r, lg, s') ->
  honest lg ->
  written lg = firstn (wcount lg) (concat bufs) /\
  wcount lg <= total_len bufs /\
  offsets_ok off lg /\
  Forall (fun w => length (riov (fst w)) <= iovmax) lg /\
  (forall t, r = WDone (ROk t) -> t = wcount lg) /\
  (forall e, r = WDone (RErr e) -> wcount lg = 0).
Proof.
  intros A St sys fuel iovmax s bufs off r lg s' H Hh.
  destruct (write_all_prefix_gen sys fuel iovmax s bufs off 0 r lg s' H Hh)
    as (H1 & H2 & H3 & H4 & H5 & H6).
  repeat split; auto. intros e He. exact (proj2 (H6 e He)).
Qed.
Print Assumptions C11_write_all_prefix.

(* uv_fs_write writes every byte: for EVERY short-write pattern, if the run
   ends (WDone: fuel only bounds the number of EINTR repetitions), the system
   never fails except with EINTR and never answers 0 to a window that holds at
   least one byte (no progress), then all bytes of the list are written, in
   order, at consecutive positions (C11_write_all_prefix), and the value
   returned is their number.  Windows made only of empty buffers, of any
   length and anywhere in the list, are covered (the repaired uv__fs_write_all
   skips them).  When the system does report an error or makes no progress,
   C11_write_all_prefix says exactly what was written and returned. *)
Theorem C11_write_all_complete :
  forall (A St : Type) (sys : St -> rwcall A -> answer * St)
         (fuel iovmax : nat) (s : St) (bufs : list (buf A)) (off : Z) x lg s',
  write_all sys fuel iovmax s bufs off = (WDone x, lg, s') ->
  honest lg -> progress lg ->
  x = ROk (total_len bufs) /\ wcount lg = total_len bufs /\ written lg = concat bufs /\
  offsets_ok off lg.
Proof.
  intros A St sys fuel iovmax s bufs off x lg s' H Hh Hp.
  destruct (write_all_complete_gen sys fuel iovmax s bufs off 0 x lg s' H Hh Hp) as [H1 H2].
  destruct (write_all_prefix_gen sys fuel iovmax s bufs off 0 _ lg s' H Hh) as (H3 & _ & H4 & _).
  repeat split; auto. rewrite H3, H2. apply firstn_all.
Qed.
Print Assumptions C11_write_all_complete.

(* regression: the input that used to lose its data (1024 empty buffers, then
   one byte; writev of the empty window answers 0) *)
Example C11_write_all_empty_window :
  fst (fst (write_all sys_list 2 1024 [AOk 0; AOk 1] (repeat [] 1024 ++ [[7]]) 0%Z)) = WDone (ROk 1).
Proof. vm_compute. reflexivity. Qed.

(* hypotheses satisfiable: two short writes and an EINTR, everything written *)
Example C11_write_all_example :
  write_all sys_list 4 1024 [AOk 3; AErr EINTR; AOk 1; AOk 4] [[1;2;3;4;5]; []; [6;7;8]] 10%Z
  = (WDone (ROk 8),
     [(mkCall KPosVec [[1;2;3;4;5]; []; [6;7;8]] 10%Z, AOk 3);
      (mkCall KPosVec [[4;5]; []; [6;7;8]] 13%Z, AErr EINTR);
      (mkCall KPosVec [[4;5]; []; [6;7;8]] 13%Z, AOk 1);
      (mkCall KPosVec [[5]; []; [6;7;8]] 14%Z, AOk 4)], []).
Proof. vm_compute. reflexivity. Qed.

(* ================= (a) dispatch and routes ================= *)

(* Per operation: the SQE filled in by uv__iou_fs_* means, by the documented
   meaning of its opcode, the call uv__fs_work makes. *)
Theorem C11_sqe_meaning :
  forall kv op s, sqe_of kv op = Some s -> api_check op = None ->
  norm (kernel_of_sqe s) = norm (work op).
Proof. exact sqe_meaning. Qed.
Print Assumptions C11_sqe_meaning.

(* History (before fadabd2): with the length in sqe->len the SQE did not mean
   ftruncate(fd, len) for any len <> 0. *)
Theorem C11_routes_agree_ftruncate_refuted :
  forall fd off, off <> 0%Z ->
  norm (kernel_of_sqe (old_ftruncate_sqe fd off)) <> norm (work (OFtruncate fd off)) /\
  ((off mod two32 <> 0)%Z -> kernel_of_sqe (old_ftruncate_sqe fd off) = PInvalid IORING_OP_FTRUNCATE).
Proof. exact old_sqe_ftruncate_wrong. Qed.
Print Assumptions C11_routes_agree_ftruncate_refuted.

(* The three routes give the same (result, output, state), for every oracle
   [posix] that does not distinguish legacy entry points from their *at/vector
   forms, every state, kernel version and operation other than UV_FS_WRITE
   (ftruncate with any length included), provided the kernel's answer is not one the pool
   treats specially (EINTR, EOPNOTSUPP, EINPROGRESS on close, statx unusable). *)
Theorem C11_routes_agree :
  forall (fs out : Type) (posix : pcall -> fs -> pres out * fs) (no_out : out),
  (forall c st, posix c st = posix (norm c) st) ->
  forall kv fuel op st,
  is_write op = false ->
  special out op (fst (posix (work op) st)) = false ->
  (-1 <= rc out (fst (posix (work op) st)))%Z ->
  run fs out posix no_out RRing true kv fuel op st = run fs out posix no_out RPool true kv fuel op st /\
  run fs out posix no_out RSync true kv fuel op st = run fs out posix no_out RPool true kv fuel op st.
Proof. exact routes_agree. Qed.
Print Assumptions C11_routes_agree.

Theorem C11_sync_is_pool :
  forall (fs out : Type) (posix : pcall -> fs -> pres out * fs) (no_out : out) ring_ok kv fuel op st,
  run fs out posix no_out RSync ring_ok kv fuel op st = run fs out posix no_out RPool ring_ok kv fuel op st.
Proof. exact sync_is_pool. Qed.
Print Assumptions C11_sync_is_pool.

Theorem C11_ring_falls_back :
  forall (fs out : Type) (posix : pcall -> fs -> pres out * fs) (no_out : out) ring_ok kv fuel op st,
  takes_ring ring_ok kv op = false ->
  run fs out posix no_out RRing ring_ok kv fuel op st = run fs out posix no_out RPool ring_ok kv fuel op st.
Proof. exact ring_falls_back. Qed.
Print Assumptions C11_ring_falls_back.

Theorem C11_ring_eopnotsupp_reposts :
  forall (fs out : Type) (posix : pcall -> fs -> pres out * fs) (no_out : out) fuel op s st r st',
  (forall o, kernel_of_sqe s <> PInvalid o) ->
  posix (kernel_of_sqe s) st = (r, st') -> rc out r = (-1)%Z -> perrno out r = EOPNOTSUPP ->
  ring_complete fs out posix no_out fuel op s st = fs_work fs out posix no_out fuel op st'.
Proof. exact ring_eopnotsupp_reposts. Qed.
Print Assumptions C11_ring_eopnotsupp_reposts.

(* UV_FS_WRITE: agreement only when the kernel takes the whole request at once
   or refuses it ... *)
Theorem C11_write_routes_agree_partial :
  forall (fs out : Type) (posix : pcall -> fs -> pres out * fs) (no_out : out),
  (forall c st, posix c st = posix (norm c) st) ->
  forall kv fuel fd bufs off st,
  let op := OWrite fd bufs off in
  bufs <> [] -> length bufs <= IOV_MAX -> Forall (fun b => b <> []) bufs ->
  let r := fst (posix (work op) st) in
  (rc out r = Z.of_nat (total_len bufs) \/
   (rc out r = (-1)%Z /\ perrno out r <> EINTR /\ perrno out r <> EOPNOTSUPP)) ->
  res_state fs out (run fs out posix no_out RRing true kv (S fuel) op st) =
  res_state fs out (run fs out posix no_out RPool true kv (S fuel) op st).
Proof. exact write_routes_agree_partial. Qed.
Print Assumptions C11_write_routes_agree_partial.

(* ... and not otherwise: under a short-write oracle the ring (one writev)
   and the pool (uv__fs_write_all) differ. *)
Theorem C11_write_routes_agree_refuted :
  exists (posix : pcall -> list byte -> pres unit * list byte),
    (forall c st, posix c st = posix (norm c) st) /\
    exists kv fuel fd bufs off st,
      bufs <> [] /\ length bufs <= IOV_MAX /\ Forall (fun b => b <> []) bufs /\
      res_state (list byte) unit (run (list byte) unit posix tt RRing true kv fuel (OWrite fd bufs off) st) <>
      res_state (list byte) unit (run (list byte) unit posix tt RPool true kv fuel (OWrite fd bufs off) st).
Proof. exact write_routes_agree_refuted. Qed.
Print Assumptions C11_write_routes_agree_refuted.

(* r == -1 -> -errno, otherwise r: the value every route stores in req->result *)
Theorem C11_errno_mapping :
  forall (out : Type) (r : pres out) e n,
  ((rc out r = (-1)%Z -> result_z out r = (- perrno out r)%Z) /\
   (rc out r <> (-1)%Z -> result_z out r = rc out r)) /\
  result_of (RErr e) = (- e)%Z /\ result_of (ROk n) = Z.of_nat n.
Proof.
  intros out r e n. split; [exact (errno_mapping out r)|].
  split; [exact (result_of_err e) | exact (result_of_ok n)].
Qed.
Print Assumptions C11_errno_mapping.

(* ================= (c) ownership ================= *)

(* Every operation without entry lists, every reachable result state -
   early error, cancelled, completed by sync/pool, completed by the ring, ring
   completion -EOPNOTSUPP followed by the pool retry (statx included, after
   e5b94ea): after uv_fs_req_cleanup nothing the request allocated is live
   (only the caller's uv_dir_t), nothing was freed twice or without being
   owned, all four pointers are NULL. *)
Theorem C11_cleanup_releases_all :
  forall k cb big stt,
  has_entries k = false -> valid k cb stt = true ->
  cleaned k cb big stt.
Proof. exact cleanup_releases_all. Qed.
Print Assumptions C11_cleanup_releases_all.

(* History: with the pre-fix re-post (no free before uv__fs_post) a ring statx
   answered -EOPNOTSUPP whose pool retry succeeded kept its struct statx. *)
Theorem C11_cleanup_statx_retry_leaked_before_fix :
  forall n,
  let '(q, h) := req_init KStat true false (h0_of KStat) in
  let '(q1, h1) := ring_submit q h in
  let '(q2, h2) := old_ring_finish_unsupported q1 true n h1 in
  let '(q3, h3) := req_cleanup q2 h2 in
  live h3 = [BkStatx].
Proof. exact old_statx_fallback_leaked. Qed.
Print Assumptions C11_cleanup_statx_retry_leaked_before_fix.

Theorem C11_cleanup_entries_failed :
  forall k cb big stt,
  has_entries k = true -> valid k cb stt = true ->
  match stt with LEarly | LCancelled | LDonePool false _ => True | _ => False end ->
  cleaned k cb big stt.
Proof. exact cleanup_entries_failed. Qed.
Print Assumptions C11_cleanup_entries_failed.

(* scandir / readdir with live entries, for EVERY number n of entries and EVERY
   number j of uv_fs_scandir_next calls (also beyond the end): after
   uv_fs_req_cleanup no entry, no entry array, no name and no path is live,
   nothing was freed twice, all four pointers are NULL.  By induction over the
   entry list (release_dents_range, sc_iter). *)
Theorem C11_cleanup_entries_all :
  forall n j cb big,
  cleaned KScandir cb big (LIterated n j) /\
  cleaned KScandir cb big (LDonePool true n) /\
  cleaned KReaddir cb big (LDonePool true n).
Proof.
  intros n j cb big. split; [|split].
  - exact (cleanup_scandir_iterated n j cb big).
  - exact (cleanup_scandir_done n cb big).
  - exact (cleanup_readdir_done n cb big).
Qed.
Print Assumptions C11_cleanup_entries_all.

(* any state, any heap: a second uv_fs_req_cleanup changes nothing *)
Theorem C11_cleanup_any_state :
  forall q h, let '(q1, h1) := req_cleanup q h in req_cleanup q1 h1 = (q1, h1).
Proof. exact cleanup_idempotent. Qed.
Print Assumptions C11_cleanup_any_state.

(* ================= (d) the pool behind the pool route ================= *)

(* For every value of UV_THREADPOOL_SIZE (any byte string, or unset) the
   pool route has between 1 and 1024 worker threads, so a queued request is
   always picked up. *)
Theorem C11_pool_size_bounds : forall v : option (list N), (1 <= pool_size v <= 1024)%Z.
Proof. exact pool_size_bounds. Qed.
Print Assumptions C11_pool_size_bounds.

(* ================= (e) room in the submission ring ================= *)

(* uv__iou_get_sqe on the 64-entry SQPOLL ring, for every head/tail (free-running
   32-bit counters, wrap-around included) with at most 63 entries outstanding:
   a granted slot is tail mod 64, it is not one of the slots whose entry the
   kernel has not consumed yet, and the bound of 63 outstanding entries is kept;
   the request falls back to the thread pool exactly when 63 are outstanding. *)
Theorem C11_ring_slot_never_overwrites :
  forall r slot r', sq_inv r -> sq_submit SQMASK r = (Some slot, r') ->
  ~ occupied r slot /\ sq_inv r' /\ sq_outstanding r' = (sq_outstanding r + 1)%Z /\
  slot = (sq_tail r mod 64)%Z /\ sq_head r' = sq_head r.
Proof. exact sq_grant_safe. Qed.
Print Assumptions C11_ring_slot_never_overwrites.

Theorem C11_ring_full_falls_back :
  forall r, sq_inv r -> (fst (sq_submit SQMASK r) = None <-> sq_outstanding r = SQMASK).
Proof. exact sq_refusal. Qed.
Print Assumptions C11_ring_full_falls_back.

(* the invariant holds along every interleaving of submissions and kernel progress *)
Theorem C11_ring_invariant :
  forall ops r, Forall (fun o => match o with SqConsume n => (0 <= n)%Z | SqSubmit => True end) ops ->
  sq_inv r -> sq_inv (snd (sq_run SQMASK ops r)).
Proof. exact sq_run_inv. Qed.
Print Assumptions C11_ring_invariant.

(* req->result is the errno of the system call (captured before any cleanup:
   uv__free preserves errno) *)
Theorem C11_result_is_call_errno :
  forall (fs out : Type) (posix : pcall -> fs -> pres out * fs) (no_out : out) fuel op st r st',
  plain_action op = true -> posix (work op) st = (r, st') ->
  ((rc out r =? -1)%Z && (perrno out r =? EINTR)%Z) = false ->
  fs_work fs out posix no_out fuel op st = (result_z out r, pout out r, st') /\
  (rc out r = (-1)%Z -> result_z out r = (- perrno out r)%Z).
Proof. exact result_is_call_errno. Qed.
Print Assumptions C11_result_is_call_errno.

(* ================= (f) path-sized strings ================= *)

(* uv_fs_readlink: for every target length below PATH_MAX (4096) and every answer
   of pathconf (failure, or a limit >= PATH_MAX) the buffer is larger than the
   target, so readlink(2) does not truncate and req->ptr is the whole target. *)
Theorem C11_readlink_whole_target :
  forall (A : Type) (pc : Z) (target : list A),
  (pc = -1 \/ PATH_MAX <= pc)%Z ->
  (Z.of_nat (length target) < PATH_MAX)%Z ->
  (Z.of_nat (length target) < pathmax_size pc)%Z /\ fs_readlink_ptr pc target = target.
Proof. exact readlink_whole_target. Qed.
Print Assumptions C11_readlink_whole_target.

(* ================= (g) scandir entries ================= *)

(* uv_fs_scandir drops exactly "." and "..": every other entry name - dots only
   ("...", "...."), leading/trailing dots, blanks, arbitrary bytes - is reported. *)
Theorem C11_scandir_filter_exact :
  forall name, scandir_keeps name = false <-> name = DOT \/ name = DOTDOT.
Proof. exact scandir_filter_exact. Qed.
Print Assumptions C11_scandir_filter_exact.

Theorem C11_scandir_entries :
  forall l x, In x (scandir_entries l) <-> In x l /\ x <> DOT /\ x <> DOTDOT.
Proof. exact scandir_entries_spec. Qed.
Print Assumptions C11_scandir_entries.
