(* C03 - loop iteration phase order and the run-mode blocking rules.
   Statements only, each closed by [exact] of a lemma proved in Proofs/C03*.v,
   with Print Assumptions beneath.  Model: Model/LoopCore.v ([iteration],
   [run_loop], [uv_run], [run_watchers], [io_poll], [callback], [lapi]).
   Every theorem is for every state [s], every callback behaviour
   [beh : nat -> list lop] (the k-th callback of a case runs [beh k]), every
   run mode (0 DEFAULT, 1 ONCE, 2.. NOWAIT) and both settings of the
   idle-time metric ([metrics s]), unless a hypothesis says otherwise.

   Vocabulary (Proofs/C03Base.v): [cbs evs] are the (tag, handle) pairs of the
   callback events [VCb tag i _] of a trace in order, [cb_tags] / [cb_ids]
   their projections; tag 0 timer, 1 idle, 2 prepare, 3 check, 4 async,
   5 after_work, 6 close.  [ids_of t evs]: the handles called with tag t. *)
From UV Require Import Lib.Base Model.Heap Model.Timer Model.LoopCore
  Proofs.TimerProofs Proofs.C03Base Proofs.C03Order Proofs.C03Step Proofs.C03Proofs
  Proofs.C03Once.

Local Open Scope Z_scope.

(* ------------------------------------------------------------------ *)
(* 1. phase order                                                     *)
(* ------------------------------------------------------------------ *)

(* API calls made from a callback never run a callback (no re-entrancy), so a
   user callback contributes exactly one callback event, its own. *)
Theorem C03_no_reentrancy :
  forall (s : lstate) (beh : nat -> list lop) (os : list lop) (tag i : nat),
  cbs (snd (lapis s os)) = [] /\
  cbs (snd (callback s beh tag i)) = [(tag, i)].
Proof. intros s beh os tag i. split; [exact (lapis_no_cb os s)|exact (callback_cbs s beh tag i)]. Qed.
Print Assumptions C03_no_reentrancy.

(* Within one iteration the callback tags form a word of
   idle* prepare* (async|after_work)* check* close* timer*. *)
Theorem C03_phase_order :
  forall (s : lstate) (beh : nat -> list lop) (mode : nat) (s' : lstate) (evs : list levent),
  iteration s beh mode = (s', evs) ->
  exists l1 l2 l3 l4 l5 l6,
    cb_tags evs = l1 ++ l2 ++ l3 ++ l4 ++ l5 ++ l6 /\
    Forall (eq 1%nat) l1 /\ Forall (eq 2%nat) l2 /\
    Forall (fun t => t = 4%nat \/ t = 5%nat) l3 /\
    Forall (eq 3%nat) l4 /\ Forall (eq 6%nat) l5 /\ Forall (eq 0%nat) l6.
Proof. exact iteration_phase_order. Qed.
Print Assumptions C03_phase_order.

(* uv_run: one timer pass (DEFAULT only; [e0] is empty in the other modes),
   then a sequence of iterations each of which is such a word, then the
   result event.  [loop_iters] (Proofs/C03Order.v) says more: the traces are
   those of consecutive [iteration]s, every one but the last ending with the
   loop alive and stop_flag clear, and mode <> 0 gives exactly one. *)
Theorem C03_run_phase_order :
  forall (fuel : nat) (s : lstate) (beh : nat -> list lop) (mode : nat)
         (s' : lstate) (evs : list levent),
  uv_run fuel s beh mode = (s', evs) ->
  exists e0 its r sa sb,
    evs = e0 ++ concat its ++ [VRun r] /\
    Forall (eq 0%nat) (cb_tags e0) /\
    (mode <> 0%nat -> e0 = []) /\
    uv_start s beh sa /\
    loop_iters beh mode sa its sb /\
    Forall phase_word (map cb_tags its) /\
    s' = set_stop sb false.
Proof. exact uv_run_trace. Qed.
Print Assumptions C03_run_phase_order.

(* ------------------------------------------------------------------ *)
(* 2. once per phase                                                  *)
(* ------------------------------------------------------------------ *)

(* [QInv s]: the idle/prepare/check queues have no duplicates and hold only
   active handles of their own kind.  It is preserved by every API call and
   every callback (and holds in every reachable state:
   Properties_C03_global.v). *)
Theorem C03_queue_invariant_api :
  forall (s : lstate) (o : lop) (beh : nat -> list lop) (tag i : nat),
  QInv s -> QInv (fst (lapi s o)) /\ QInv (fst (callback s beh tag i)).
Proof.
  intros s o beh tag i Q. split; [exact (lapi_QInv s o Q)|exact (callback_QInv s beh tag i Q)].
Qed.
Print Assumptions C03_queue_invariant_api.

(* One watcher phase (idle, prepare or check; any kind k): the handles called
   are pairwise distinct, they are called in queue order (a subsequence of
   the queue at the start of the phase), and a handle of that queue which is
   not called was stopped or closed by one of the callbacks of this phase
   (callbacks are numbered by [cbcount]; callback number [cap] is the
   harness's wind-down, which closes every handle). *)
Theorem C03_once_per_phase :
  forall (s : lstate) (beh : nat -> list lop) (k : hkind) (tag : nat)
         (s' : lstate) (evs : list levent),
  QInv s -> run_watchers s beh k tag = (s', evs) ->
  QInv s' /\
  NoDup (cb_ids evs) /\
  subseq (cb_ids evs) (wq_get s k) /\
  (cbcount s <= cbcount s')%nat /\
  (forall j, In j (wq_get s k) -> ~ In j (cb_ids evs) ->
     exists n, (cbcount s <= n < cbcount s')%nat /\
               (n = cap \/ In (LStop j) (beh n) \/ In (LClose j) (beh n))).
Proof. exact run_watchers_once. Qed.
Print Assumptions C03_once_per_phase.

(* ... hence a queued handle that no callback of the phase stops or closes is
   called exactly once. *)
Theorem C03_exactly_once :
  forall (s : lstate) (beh : nat -> list lop) (k : hkind) (tag : nat)
         (s' : lstate) (evs : list levent) (i : nat),
  QInv s -> run_watchers s beh k tag = (s', evs) ->
  In i (wq_get s k) ->
  (forall n, (cbcount s <= n < cbcount s')%nat ->
             ~ (n = cap \/ In (LStop i) (beh n) \/ In (LClose i) (beh n))) ->
  count_occ Nat.eq_dec (cb_ids evs) i = 1%nat.
Proof. exact run_watchers_exactly_once. Qed.
Print Assumptions C03_exactly_once.

(* The detached iteration itself: the handle called next is the head of [lq];
   no API call ever adds to [lq], and only uv_x_stop / uv_close of a handle
   removes it. *)
Theorem C03_detached_queue :
  forall (fuel : nat) (s : lstate) (beh : nat -> list lop) (k : hkind) (tag i : nat)
         (rest : list nat) (o : lop),
  (lq s = i :: rest ->
   exists s3 e1 s4 e2,
     callback (wq_set (set_lq s rest) k (wq_get (set_lq s rest) k ++ [i])) beh tag i = (s3, e1) /\
     run_lq fuel s3 beh k tag = (s4, e2) /\
     run_lq (S fuel) s beh k tag = (s4, e1 ++ e2) /\
     cb_ids (e1 ++ e2) = i :: cb_ids e2) /\
  subseq (lq (fst (lapi s o))) (lq s) /\
  (forall j, In j (lq s) -> ~ In j (lq (fst (lapi s o))) -> o = LStop j \/ o = LClose j).
Proof.
  intros fuel s beh k tag i rest o. split; [exact (run_lq_heads fuel s beh k tag i rest)|].
  split; [exact (lapi_lq_subseq s o)|exact (lapi_lq_removed s o)].
Qed.
Print Assumptions C03_detached_queue.

(* One iteration: no idle, prepare or check handle is called twice, and each
   kind is called in the order of its queue at the start of its phase. *)
Theorem C03_once_per_iteration :
  forall (s : lstate) (beh : nat -> list lop) (mode : nat) (s' : lstate) (evs : list levent),
  QInv s -> iteration s beh mode = (s', evs) ->
  exists s1 e1 s2 e2 s3 e3,
    run_watchers s beh KIdle 1 = (s1, e1) /\
    run_watchers s1 beh KPrepare 2 = (s2, e2) /\
    io_poll (set_dirty s2 false) beh (poll_timeout s s2 mode) = (s3, e3) /\
    NoDup (ids_of 1 evs) /\ subseq (ids_of 1 evs) (idle_q s) /\
    NoDup (ids_of 2 evs) /\ subseq (ids_of 2 evs) (prepare_q s1) /\
    NoDup (ids_of 3 evs) /\ subseq (ids_of 3 evs) (check_q s3).
Proof. exact iteration_once. Qed.
Print Assumptions C03_once_per_iteration.

(* ------------------------------------------------------------------ *)
(* 3. the blocking rules                                              *)
(* ------------------------------------------------------------------ *)

(* The poller of an iteration started in state s is called, after the idle
   and prepare phases have led to s2, with [poll_timeout s s2 mode]. *)
Theorem C03_poll_site :
  forall (s : lstate) (beh : nat -> list lop) (mode : nat) (s' : lstate) (evs : list levent),
  iteration s beh mode = (s', evs) ->
  exists s1 e1 s2 e2 s3 e3 rest,
    run_watchers s beh KIdle 1 = (s1, e1) /\
    run_watchers s1 beh KPrepare 2 = (s2, e2) /\
    io_poll (set_dirty s2 false) beh (poll_timeout s s2 mode) = (s3, e3) /\
    evs = e1 ++ e2 ++ e3 ++ rest /\
    now (ts s2) = now (ts s).
Proof.
  intros s beh mode s' evs E.
  destruct (iteration_phases _ _ _ _ _ E)
    as (s1 & e1 & s2 & e2 & s3 & e3 & s4 & e4 & s5 & e5 & e6 & H1 & H2 & H3 & _ & _ & _ & ->).
  exists s1, e1, s2, e2, s3, e3, (e4 ++ e5 ++ e6). repeat split; auto.
  destruct (iteration_timeout_base _ _ _ _ _ E) as (s1' & e1' & s2' & e2' & G1 & G2 & G3).
  rewrite H1 in G1. inversion G1; subst s1' e1'. rewrite H2 in G2. inversion G2; subst s2' e2'.
  exact G3.
Qed.
Print Assumptions C03_poll_site.

(* That timeout is 0 in NOWAIT mode, in ONCE mode when an idle handle was
   queued at the start of the iteration, after uv_stop, while an idle handle is
   queued, while a close callback is pending, and when nothing referenced is
   active and no request is outstanding; otherwise it is uv__next_timeout.  It
   lies in [-1, INT_MAX] and, with a timer armed, does not reach past the
   nearest timer's due time (counted from loop time). *)
Theorem C03_poll_timeout :
  forall (s s2 : lstate) (mode : nat),
  let zero :=
    (mode <> 0%nat /\ mode <> 1%nat) \/
    (mode = 1%nat /\ idle_q s <> []) \/
    stop_flag s2 = true \/ idle_q s2 <> [] \/ closing s2 <> [] \/
    (nact s2 <= 0 /\ nreq s2 <= 0) in
  (zero -> poll_timeout s s2 mode = 0) /\
  (~ zero -> poll_timeout s s2 mode = next_timeout (ts s2)) /\
  -1 <= poll_timeout s s2 mode <= int_max /\
  (forall k, heap_min (hp (ts s2)) = Some k ->
     now (ts s2) + poll_timeout s s2 mode <= Z.max (now (ts s2)) (k_timeout k)).
Proof. exact poll_timeout_rules. Qed.
Print Assumptions C03_poll_timeout.

(* uv_backend_timeout() reports uv__backend_timeout of the current state, or 0
   while descriptor registrations are waiting; uv__backend_timeout follows
   the same rules; and it is exactly what the poller is handed in DEFAULT mode
   (and in ONCE mode when no idle handle was queued). *)
Theorem C03_backend_timeout_reports :
  forall (s s0 : lstate) (mode : nat),
  lapi s LBackendTimeout = (s, [VBt (if io_dirty s then 0 else backend_timeout s)]) /\
  ((stop_flag s = true \/ idle_q s <> [] \/ closing s <> [] \/ (nact s <= 0 /\ nreq s <= 0)) ->
     backend_timeout s = 0) /\
  (~ (stop_flag s = true \/ idle_q s <> [] \/ closing s <> [] \/ (nact s <= 0 /\ nreq s <= 0)) ->
     backend_timeout s = next_timeout (ts s)) /\
  (mode = 0%nat \/ (mode = 1%nat /\ idle_q s0 = []) ->
     poll_timeout s0 s mode = backend_timeout s).
Proof.
  intros s s0 mode. split; [exact (backend_timeout_reports s)|].
  destruct (backend_timeout_rules s) as [A B].
  split; [exact A|]. split; [exact B|exact (poll_timeout_is_backend s0 s mode)].
Qed.
Print Assumptions C03_backend_timeout_reports.

(* ------------------------------------------------------------------ *)
(* 4. io_poll and the clock                                           *)
(* ------------------------------------------------------------------ *)

(* [wake s timeout]: the moment the poll returns; loop time afterwards is
   exactly that.  The poll never blocks longer than asked, not at all when the
   eventfd is readable or the timeout is 0, and runs nothing unless the
   eventfd is readable.  (A negative timeout with nothing that could wake the
   loop is the deadlock the model reports as VHang.) *)
Theorem C03_io_poll_clock :
  forall (s : lstate) (beh : nat -> list lop) (timeout : Z) (s' : lstate) (evs : list levent),
  io_poll s beh timeout = (s', evs) ->
  now (ts s') = wake s timeout /\
  (now (ts s) <= clock s -> 0 <= timeout -> clock s <= wake s timeout <= clock s + timeout) /\
  (efd s = true \/ timeout = 0 -> wake s timeout = clock s) /\
  (efd s = false -> clock s' = wake s timeout /\ cbcount s' = cbcount s) /\
  (efd s = false -> timeout < 0 -> stop_flag s' = true /\ In VHang evs) /\
  clock s <= clock s' /\ now (ts s') <= clock s' /\
  (now (ts s) <= clock s -> now (ts s) <= now (ts s')).
Proof. exact io_poll_clock. Qed.
Print Assumptions C03_io_poll_clock.

(* With the idle-time metric the sleep ends at the deadline the timeout was
   computed for (loop time + timeout) or at once if the clock is past it;
   without it the sleep is [timeout] from the clock at the poll. *)
Theorem C03_io_poll_wake :
  forall (s : lstate) (timeout : Z),
  efd s = false -> 0 < timeout ->
  (metrics s = true -> wake s timeout = Z.max (clock s) (now (ts s) + timeout)) /\
  (metrics s = false -> wake s timeout = clock s + timeout).
Proof.
  intros s timeout He Ht. split; intros Hm;
    [exact (wake_metrics s timeout He Hm Ht)|exact (wake_plain s timeout He Hm Ht)].
Qed.
Print Assumptions C03_io_poll_wake.

(* The timeout shown to epoll_pwait (first field of the VPoll event) is the
   one handed to io_poll, except with the idle-time metric where it is what
   remains of it (never more). *)
Theorem C03_io_poll_event :
  forall (s : lstate) (beh : nat -> list lop) (timeout : Z),
  exists t b1 b2 b3 b4 rest,
    snd (io_poll s beh timeout) = VPoll t b1 b2 b3 b4 :: rest /\
    (metrics s = false -> t = timeout) /\
    (t = timeout \/
     (metrics s = true /\ 0 <= t /\ (now (ts s) <= clock s -> 0 <= timeout -> t <= timeout))).
Proof. exact io_poll_event. Qed.
Print Assumptions C03_io_poll_event.

(* The clock invariant "loop time never ahead of the clock" holds initially and
   is kept by every API call, callback, phase, iteration and run, together
   with: the clock never goes back, loop time never goes back. *)
Theorem C03_clock_invariant :
  forall (beh : nat -> list lop),
  (forall t0 m, ClockInv (linit t0 m)) /\
  (forall s o, ClockInv s -> ClockInv (fst (lapi s o)) /\ clock s <= clock (fst (lapi s o))) /\
  (forall s mode, ClockInv s ->
     let s' := fst (iteration s beh mode) in
     ClockInv s' /\ now (ts s) <= now (ts s') /\ clock s <= clock s') /\
  (forall fuel s mode, ClockInv s ->
     let s' := fst (uv_run fuel s beh mode) in
     ClockInv s' /\ now (ts s) <= now (ts s') /\ clock s <= clock s') /\
  (forall s os, ClockInv s -> ClockInv (fst (lrun s os beh))).
Proof.
  intros beh. split; [exact ClockInv_init|]. split.
  { intros s o CI. destruct (lapi_quiet s o) as (_ & _ & Q3 & _ & Q5).
    unfold ClockInv in *. split; lia. }
  split.
  { intros s mode CI. exact (Step_clock beh s _ (iteration_step beh s mode) CI). }
  split.
  { intros fuel s mode CI. destruct (uv_run_time beh fuel s mode CI) as (A & B & C & _).
    split; [exact A|split; [exact B|exact C]]. }
  intros s os. exact (lrun_clock beh os s).
Qed.
Print Assumptions C03_clock_invariant.

(* ------------------------------------------------------------------ *)
(* 5. uv_stop                                                         *)
(* ------------------------------------------------------------------ *)

(* uv_run always returns with stop_flag clear. *)
Theorem C03_stop_forgotten :
  forall (fuel : nat) (s : lstate) (beh : nat -> list lop) (mode : nat),
  stop_flag (fst (uv_run fuel s beh mode)) = false.
Proof. exact uv_run_clears_stop. Qed.
Print Assumptions C03_stop_forgotten.

(* Inside an iteration stop_flag is sticky, and a callback (number n) that
   calls uv_stop sets it; when it is set at the end of a DEFAULT iteration the
   loop returns after that iteration.  ONCE/NOWAIT run exactly one iteration. *)
Theorem C03_stop :
  forall (fuel : nat) (s : lstate) (beh : nat -> list lop) (mode : nat)
         (s1 : lstate) (e1 : list levent),
  iteration s beh mode = (s1, e1) ->
  (stop_flag s = true -> stop_flag s1 = true) /\
  (forall n, (cbcount s <= n < cbcount s1)%nat -> (n < cap)%nat ->
             In LStopLoop (beh n) -> stop_flag s1 = true) /\
  (mode = 0%nat -> stop_flag s1 = true ->
     run_loop (S fuel) s beh 0 = (s1, e1, loop_alive s1)) /\
  (mode <> 0%nat -> run_loop (S fuel) s beh mode = (s1, e1, loop_alive s1)).
Proof.
  intros fuel s beh mode s1 e1 E.
  destruct (iteration_stop_sticky _ _ _ _ _ E) as [A B].
  split; [exact A|]. split; [exact B|]. split.
  - intros -> Hs. exact (run_loop_stop_returns fuel s beh s1 e1 E Hs).
  - intros Hm. exact (run_loop_once fuel s beh mode s1 e1 Hm E).
Qed.
Print Assumptions C03_stop.

(* uv_stop before uv_run: no iteration at all, and the request is consumed. *)
Theorem C03_stop_before_run :
  forall (fuel : nat) (s : lstate) (beh : nat -> list lop) (mode : nat),
  stop_flag s = true ->
  uv_run fuel s beh mode =
  (set_stop (if loop_alive s then s else update_time s) false, [VRun (loop_alive s)]).
Proof. exact uv_run_stopped. Qed.
Print Assumptions C03_stop_before_run.

(* The next uv_run is unaffected: with the flag clear (as every uv_run leaves
   it) an alive loop enters its first iteration (after the timer pass in
   DEFAULT mode, unless a timer callback calls uv_stop). *)
Theorem C03_next_run_normal :
  forall (fuel : nat) (s : lstate) (beh : nat -> list lop) (mode : nat)
         (s' : lstate) (evs : list levent),
  stop_flag s = false -> loop_alive s = true ->
  uv_run (S fuel) s beh mode = (s', evs) ->
  (mode <> 0%nat ->
     exists s1 e1, iteration s beh mode = (s1, e1) /\
                   s' = set_stop s1 false /\ evs = e1 ++ [VRun (loop_alive s1)]) /\
  (mode = 0%nat ->
     exists st e0, l_run_timers (update_time s) beh = (st, e0) /\
       (stop_flag st = true -> s' = set_stop st false /\ evs = e0 ++ [VRun (loop_alive st)]) /\
       (stop_flag st = false ->
          exists s1 e1 rest, iteration st beh 0 = (s1, e1) /\ evs = e0 ++ e1 ++ rest)).
Proof.
  intros fuel s beh mode s' evs Hs Ha E. split.
  - intros Hm. exact (uv_run_enters fuel s beh mode s' evs Hs Ha Hm E).
  - intros ->. exact (uv_run_enters_default fuel s beh s' evs Hs Ha E).
Qed.
Print Assumptions C03_next_run_normal.

(* ------------------------------------------------------------------ *)
(* Examples: the hypotheses are satisfiable, the statements are not    *)
(* vacuous.                                                           *)
(* ------------------------------------------------------------------ *)
Definition ex_script : list lop :=
  [LInit KTimer false; LInit KIdle false; LInit KPrepare false; LInit KCheck false;
   LInit KAsync true; LInit KIdle false; LInit KIdle false;
   LTStart 0 (Some 0%nat) 0 0; LStart 1 true; LStart 6 true; LStart 2 true; LStart 3 true;
   LSend 4; LWork true; LClose 5].
Definition ex_beh (n : nat) : list lop :=
  match n with
  | 0%nat => [LStop 1]            (* the first idle callback stops the other idle handle *)
  | 1%nat => [LBackendTimeout]    (* the prepare callback samples uv_backend_timeout() *)
  | _ => []
  end.
Definition ex_state : lstate := fst (lrun (linit 100 false) ex_script ex_beh).

(* all six phases populated, in one ONCE iteration; idle handle 1 was queued
   but is stopped by the callback of idle handle 6 before its turn *)
Example C03_ex_all_phases :
  (idle_q ex_state, prepare_q ex_state, check_q ex_state, closing ex_state)
    = ([6; 1], [2], [3], [5])%nat /\
  cbs (snd (iteration ex_state ex_beh 1))
    = [(1, 6); (2, 2); (5, 0); (4, 4); (3, 3); (6, 5); (0, 0)]%nat.
Proof. vm_compute. split; reflexivity. Qed.

(* a DEFAULT iteration with a timer due in 50 ms and nothing else: the poller
   is handed 50.  A prepare callback that spends 30 ms makes the plain poll
   sleep until 180 = clock + 50, i.e. 30 ms past the due time 150 (the timeout
   is counted from the loop time of the iteration's start), while with the
   idle-time metric the poll is given the remaining 20 and wakes at 150. *)
Definition ex2_script : list lop :=
  [LInit KTimer false; LInit KPrepare false; LTStart 0 (Some 0%nat) 50 0; LStart 1 true].
Definition ex2_beh (n : nat) : list lop :=
  match n with 0%nat => [LAdv 30] | _ => [LClose 0; LClose 1] end.
Example C03_ex_timeout :
  snd (iteration (fst (lrun (linit 100 false) ex2_script ex2_beh)) ex2_beh 0)
  = [VCb 2 1 100; VAlive true; VPoll 50 false false false true; VCb 0 0 180; VAlive true] /\
  snd (iteration (fst (lrun (linit 100 true) ex2_script ex2_beh)) ex2_beh 0)
  = [VCb 2 1 100; VAlive true; VPoll 20 false false false true; VCb 0 0 150; VAlive true].
Proof. vm_compute. split; reflexivity. Qed.

(* uv_stop from the check callback of the second DEFAULT iteration (callback
   number 3): the run ends with that iteration, the flag is clear afterwards
   and a following ONCE run does its iteration normally *)
Definition ex3_script : list lop :=
  [LInit KIdle false; LInit KCheck false; LStart 0 true; LStart 1 true].
Definition ex3_beh (n : nat) : list lop := match n with 3%nat => [LStopLoop] | _ => [] end.
Definition ex3_state : lstate := fst (lrun (linit 0 false) ex3_script ex3_beh).
Example C03_ex_stop :
  cbs (snd (uv_run 10 ex3_state ex3_beh 0)) = [(1, 0); (3, 1); (1, 0); (3, 1)]%nat /\
  stop_flag (fst (uv_run 10 ex3_state ex3_beh 0)) = false /\
  cbs (snd (uv_run 1 (fst (uv_run 10 ex3_state ex3_beh 0)) ex3_beh 1)) = [(1, 0); (3, 1)]%nat.
Proof. vm_compute. repeat split; reflexivity. Qed.
