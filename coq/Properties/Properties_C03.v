(* C03 - phase order and blocking rules.  Statements only. *)
From UV Require Import Lib.Base Model.Heap Model.Timer Model.LoopCore.
Example C03_placeholder_model_runs :
  snd (lrun (linit 0 false) [LInit KIdle true; LStart 0 true; LRun 2] (fun _ => [LStop 0]))
  = [VRet 0; VRunStart 2; VCb 1 0 0; VAlive true; VRet 0; VPoll 0 false false false false; VRun false].
Proof. vm_compute. reflexivity. Qed.
