(* C07 - connect/accept and IPC handle passing.  Only statements. *)
From UV Require Import Lib.Base Model.Accept Model.Connect Proofs.ConnectProofs.
Local Open Scope Z_scope.

Theorem C07_send_handle_checked :
  forall s h, w_fd s >= 0 -> w_writable s = true ->
  (w_pipe s && w_ipc s = false -> write2 s (Some h) = UV_EINVAL_) /\
  (w_pipe s && w_ipc s = true -> h_fd h < 0 -> write2 s (Some h) = UV_EBADF) /\
  (write2 s (Some h) = 0 -> w_pipe s && w_ipc s = true /\ h_fd h >= 0).
Proof. exact write2_checked. Qed.
Print Assumptions C07_send_handle_checked.
