(* C07 - connect/accept and IPC handle passing: nothing lost, duplicated or mis-typed.
   Only statements, each closed by a lemma proved in Proofs/AcceptProofs.v or
   Proofs/ConnectProofs.v, with Print Assumptions beneath.

   Vocabulary (Model/Accept.v).  Descriptors are integers; the hypotheses
   [Forall acc_ok ao] / [Forall op_ok os] say that the descriptors the kernel hands out
   (accept4 answers, SCM_RIGHTS contents) are >= 0.  Trace projections:
     arrivals = stored by libuv (EKeep), handed = arrivals + shed at once (EShed: EMFILE
     trick, UV_ENOMEM), departs = left libuv's hands through uv_accept (EClaim), a failing
     uv_accept (EDrop) or uv_close (EShutC), claimed = EClaim only, closed = every descriptor
     libuv closed itself; held s = accepted_fd followed by the first [offset] slots of
     queued_fds. *)
From UV Require Import Lib.Base Model.Accept Model.Connect Proofs.AcceptProofs Proofs.ConnectProofs.
From Coq Require Import Permutation.
Local Open Scope Z_scope.

(* ---- the queued_fds array (invariant A2), for every length ---- *)
Theorem C07_Qinv_is :
  forall a, Qinv a <->
    (0 < q_offset a <= q_size a)%nat /\ length (q_fds a) = q_size a /\ (q_size a mod 8 = 0)%nat.
Proof. exact Qinv_meaning. Qed.
Print Assumptions C07_Qinv_is.

(* uv__stream_queue_fd (8 slots, growing by 8): on success the descriptor is appended
   behind everything held and the invariant is kept; on allocation failure nothing changes *)
Theorem C07_queued_fds_push :
  forall q fd al q' c al', oQinv q -> queue_fd q fd al = (q', c, al') ->
  (c = 0 /\ oQinv q' /\ q' <> None /\ oqheld q' = oqheld q ++ [fd]) \/ (c = UV_ENOMEM /\ q' = q).
Proof. exact queue_fd_spec. Qed.
Print Assumptions C07_queued_fds_push.

(* uv_accept's pop (fds[0], --offset, memmove of the rest / free when empty) *)
Theorem C07_queued_fds_pop :
  forall a fd q', Qinv a -> q_pop a = (fd, q') -> fd :: oqheld q' = qheld a /\ oQinv q'.
Proof. exact q_pop_spec. Qed.
Print Assumptions C07_queued_fds_pop.

(* ---- accept: conservation of descriptors, for servers and ipc pipes alike ---- *)
Theorem C07_accept_conservation :
  forall rx kind ipc ao al oo os beh, Forall acc_ok ao -> Forall op_ok os ->
  let '(x, tr) := run kind (init_v rx ipc ao al oo) os beh in
  Permutation (handed tr) (claimed tr ++ held (sv x) ++ closed tr) /\
  (NoDup (handed tr) -> NoDup (claimed tr ++ held (sv x) ++ closed tr)).
Proof. exact conservation. Qed.
Print Assumptions C07_accept_conservation.

Theorem C07_accept_eagain_iff_none :
  forall rx kind ipc ao al oo os beh c, Forall acc_ok ao -> Forall op_ok os ->
  let s := sv (fst (run kind (init_v rx ipc ao al oo) os beh)) in
  In (ERet UV_EAGAIN) (snd (uv_accept s c)) <-> held s = [].
Proof. exact eagain_iff_none. Qed.
Print Assumptions C07_accept_eagain_iff_none.

(* every connection libuv keeps is announced by exactly one connection_cb, made right
   after accept4 returned it, and there is no other connection_cb *)
Theorem C07_connection_cb_per_connection :
  forall rx kind ao al oo os beh, Forall acc_ok ao -> Forall op_ok os ->
  let tr := snd (run kind (init_v rx false ao al oo) os beh) in
  cb_ok tr = true /\ n_cb tr = length (arrivals tr).
Proof.
  intros rx kind ao al oo os beh Fa Fo. pose proof (cb_per_connection rx kind ao al oo os beh Fa Fo) as H.
  split; [exact H|exact (cb_ok_count _ H)].
Qed.
Print Assumptions C07_connection_cb_per_connection.

(* [init_v rx ...]: rx = false is the current uv_accept (= [init]); rx = true the code with
   notes/C07_fix_accept_rearm.diff (POLLIN re-armed whenever accepted_fd becomes -1, also
   when uv_accept failed).  All theorems above and below hold for both. *)

(* A4 for the repaired variant, in full: in every reachable state of a listening stream
   that is not closing, POLLIN is paused exactly while a connection is held - whatever
   client handles uv_accept is given *)
Theorem C07_server_rearm :
  forall kind ao al oo os beh, Forall acc_ok ao -> Forall op_ok os ->
  let s := sv (fst (run kind (init_v true false ao al oo) os beh)) in
  s_closing s = false -> (s_pollin s = true <-> s_acc s = -1).
Proof. exact rearm_fixed. Qed.
Print Assumptions C07_server_rearm.

(* current code: the same as long as no uv_accept fails *)
Theorem C07_server_rearm_partial :
  forall kind ao al oo os beh, Forall acc_ok ao -> Forall op_ok os ->
  no_busy os = true -> (forall k, no_busy (beh k) = true) ->
  let s := sv (fst (run kind (init_v false false ao al oo) os beh)) in
  s_closing s = false -> (s_pollin s = true <-> s_acc s = -1).
Proof. exact rearm_partial. Qed.
Print Assumptions C07_server_rearm_partial.

(* ... and after a failing uv_accept (DESIGN section 3, item 24) the server neither
   holds a connection nor polls for one *)
Theorem C07_server_rearm_refuted :
  exists ao os beh,
    let s := sv (fst (run (fun _ => 0) (init_v false false ao [] []) os beh)) in
    s_closing s = false /\ s_acc s = -1 /\ s_pollin s = false.
Proof. exact rearm_refuted. Qed.
Print Assumptions C07_server_rearm_refuted.

(* ---- ipc: arrival order = claim order, count, type, array invariant ---- *)
Theorem C07_ipc_fifo :
  forall rx kind ao al oo os beh, Forall acc_ok ao -> Forall op_ok os ->
  let '(x, tr) := run kind (init_v rx true ao al oo) os beh in
  arrivals tr = departs tr ++ held (sv x) /\
  pending_count (sv x) = Z.of_nat (length (held (sv x))) /\
  pending_type kind (sv x) = match held (sv x) with [] => 0 | f :: _ => kind f end /\
  (s_acc (sv x) = -1 -> s_q (sv x) = None) /\
  (forall a, s_q (sv x) = Some a ->
     (0 < q_offset a <= q_size a)%nat /\ length (q_fds a) = q_size a /\ (q_size a mod 8 = 0)%nat).
Proof. exact ipc_fifo. Qed.
Print Assumptions C07_ipc_fifo.

(* the same order statement for any stream (a server holds at most one) *)
Theorem C07_fifo_any_stream :
  forall rx kind ipc ao al oo os beh, Forall acc_ok ao -> Forall op_ok os ->
  let '(x, tr) := run kind (init_v rx ipc ao al oo) os beh in
  Xinv x /\ arrivals tr = departs tr ++ held (sv x).
Proof. exact fifo. Qed.
Print Assumptions C07_fifo_any_stream.

(* hypotheses satisfiable, state non-trivial: 13 descriptors sent in 5 messages, the
   growth of the array fails once (descriptor 9 is closed at once), succeeds later, two
   descriptors claimed, the rest closed by uv_close in order *)
Example C07_ipc_nonvacuous :
  let '(x, tr) := run (fun f => if f <? 5 then 12 else 7)
                      (init true [] [true; false; true] [])
                      [ORecv [[0]; [1; 2; 3]; [4; 5; 6; 7; 8; 9]]; OAccept ClFresh; ORecv [[10; 11]];
                       OAccept ClFresh; OCount; OType; ORecv [[12]]; OClose] (fun _ => []) in
  held (sv x) = [] /\ claimed tr = [0; 1] /\ closed tr = [9; 2; 3; 4; 5; 6; 7; 8; 10; 11; 12] /\
  arrivals tr = [0; 1; 2; 3; 4; 5; 6; 7; 8; 10; 11; 12] /\ departs tr = arrivals tr /\
  filter (fun e => match e with ECount _ | EType _ => true | _ => false end) tr = [ECount 9; EType 12].
Proof. vm_compute. repeat split. Qed.
Print Assumptions C07_ipc_nonvacuous.

(* ---- connect ---- *)
(* [cinit pfix tcp o]: pfix = false is the current code; pfix = true the code with
   notes/C07_fix_pipe_connect_ealready.diff (a pipe connect issued while one is pending is
   refused with UV_EALREADY: synchronously by uv_pipe_connect2, through the callback by the
   void uv_pipe_connect).  tcp handles behave the same in both. *)

(* tcp: after close + one more iteration every request accepted with 0 was called back
   exactly once *)
Theorem C07_connect_once :
  forall pfix o os beh,
  let '(x, tr) := crun (cinit pfix true o) (os ++ [CClose; CRun]) beh in
  c_closed (cs x) = true /\ forall r, In (CRet r 0) tr -> cnt (cbs tr) r = 1%nat.
Proof.
  intros pfix o os beh. pose proof (connect_once pfix true o os beh) as H.
  destruct (crun (cinit pfix true o) (os ++ [CClose; CRun]) beh) as [x tr].
  destruct H as (D & _ & _ & L & H). split; [exact D|]. intros r Hr. apply H; [exact Hr|].
  rewrite (L (or_introl eq_refl)). intros [].
Qed.
Print Assumptions C07_connect_once.

(* pipes and tcp alike, repaired variant: the full statement *)
Theorem C07_connect_once_pipe_fixed :
  forall tcp o os beh,
  let '(x, tr) := crun (cinit true tcp o) (os ++ [CClose; CRun]) beh in
  c_closed (cs x) = true /\ c_req (cs x) = None /\ cchain x = [] /\
  forall r, In (CRet r 0) tr -> cnt (cbs tr) r = 1%nat.
Proof.
  intros tcp o os beh. pose proof (connect_once true tcp o os beh) as H.
  destruct (crun (cinit true tcp o) (os ++ [CClose; CRun]) beh) as [x tr].
  destruct H as (D & R & Ch & L & H). split; [exact D|]. split; [exact R|]. split; [exact Ch|].
  intros r Hr. apply H; [exact Hr|]. rewrite (L (or_intror eq_refl)). intros [].
Qed.
Print Assumptions C07_connect_once_pipe_fixed.

(* current pipe code: the same for every request that was not overwritten by a later
   uv_pipe_connect issued while it was pending; at any moment each accepted request is
   called back once, still owed its callback, or overwritten *)
Theorem C07_connect_once_pipe_partial :
  forall pfix tcp o os beh,
  (let '(x, tr) := crun (cinit pfix tcp o) (os ++ [CClose; CRun]) beh in
   c_closed (cs x) = true /\ c_req (cs x) = None /\ cchain x = [] /\
   (tcp = true \/ pfix = true -> losts tr = []) /\
   forall r, In (CRet r 0) tr -> ~ In r (losts tr) -> cnt (cbs tr) r = 1%nat) /\
  (let '(x, tr) := crun (cinit pfix tcp o) os beh in
   forall r, In (CRet r 0) tr -> (cnt (cbs tr) r + cnt (losts tr) r + pend x r = 1)%nat).
Proof.
  intros pfix tcp o os beh. split; [exact (connect_once pfix tcp o os beh)|].
  pose proof (connect_counting pfix tcp o os beh) as H. destruct (crun (cinit pfix tcp o) os beh) as [x tr].
  apply H.
Qed.
Print Assumptions C07_connect_once_pipe_partial.

Theorem C07_connect_once_pipe_refuted :
  exists o os beh r,
    let '(x, tr) := crun (cinit false false o) (os ++ [CClose; CRun]) beh in
    In (CRet r 0) tr /\ c_closed (cs x) = true /\ cnt (cbs tr) r = 0%nat.
Proof. exact connect_once_refuted. Qed.
Print Assumptions C07_connect_once_pipe_refuted.

(* status 0 iff the oracle says established: a callback with status 0 comes from an
   SO_ERROR answer 0 (never from a delayed error, a cancellation or a refusal), delayed
   errors are non-zero, cancellations are UV_ECANCELED, refusals UV_EALREADY; and an SO_ERROR
   answer 0 completes with 0 *)
Theorem C07_connect_status :
  (forall pfix tcp o os beh, Forall status_ok (snd (crun (cinit pfix tcp o) os beh))) /\
  (forall pfix tcp o os beh r src, In (CCb r 0 src) (snd (crun (cinit pfix tcp o) os beh)) -> src = SrcSo) /\
  (forall x beh r rest, c_req (cs x) = Some r -> c_delayed (cs x) = 0 -> o_so (co x) = 0 :: rest ->
     exists e, snd (stream_connect x beh) = CCb r 0 SrcSo :: e).
Proof.
  split; [|split].
  - intros pfix tcp o os beh. pose proof (connect_counting pfix tcp o os beh) as H.
    destruct (crun (cinit pfix tcp o) os beh). apply H.
  - exact status_zero_from_oracle.
  - exact established_status_zero.
Qed.
Print Assumptions C07_connect_status.

(* close before completion: UV_ECANCELED through the callback, in the next iteration *)
Theorem C07_connect_cancel :
  forall x beh r, wf x -> c_closing (cs x) = false -> c_req (cs x) = Some r ->
  exists e, snd (crun x [CClose; CRun] beh) = CReg (creg x) :: CCb r UV_ECANCELED SrcCancel :: e.
Proof. exact close_cancels. Qed.
Print Assumptions C07_connect_cancel.

Example C07_connect_nonvacuous :
  let '(x, tr) := crun (cinit false true (mkO [0] [-115; -115] [-111; -115] [true; true; true]))
                       ([CTcp; CRun; CTcp; CTcp; CRun] ++ [CClose; CRun]) (fun _ => []) in
  tr = [CRet 0 0; CReg 1; CCb 0 (-111) SrcSo; CReg 0; CRet 1 0; CReg 1; CRet 2 UV_EALREADY; CReg 1; CReg 1;
        CReg 1; CCb 1 UV_ECANCELED SrcCancel; CClosed; CReg 0] /\ creg x = 0%nat.
Proof. vm_compute. split; reflexivity. Qed.
Print Assumptions C07_connect_nonvacuous.

(* the repaired pipe code on the script that loses request 0 today: uv_pipe_connect2 is
   refused synchronously, the void uv_pipe_connect is told UV_EALREADY after request 0 *)
Example C07_connect_pipe_fixed_nonvacuous :
  let '(x, tr) := crun (cinit true false (mkO [0] [0] [0] [true]))
                       ([CPipe2 0 40 false; CPipe2 0 40 false; CPipe 40; CRun] ++ [CClose; CRun]) (fun _ => []) in
  tr = [CRet 0 0; CReg 1; CRet 1 UV_EALREADY; CReg 1; CRet 2 0; CReg 2; CCb 0 0 SrcSo; CUsable true;
        CCb 2 UV_EALREADY SrcRejected; CReg 0; CReg 0; CClosed; CReg 0] /\ creg x = 0%nat.
Proof. vm_compute. split; reflexivity. Qed.
Print Assumptions C07_connect_pipe_fixed_nonvacuous.

(* ---- a stream whose connect completed with status 0 is readable and writable ---- *)
(* [CUsable b] is emitted with every connect callback of status 0; b = false would mean that
   uv__stream_open / maybe_new_socket never set READABLE | WRITABLE on the handle.  For every
   script (first attempts and retries on the same handle alike, tcp and pipes, both pipe-connect
   variants), callback behaviour and oracle it is never false; the only states in which the
   flags may be gone are those where the script itself called uv_shutdown or uv_read_start.
   Side condition: socket(2) does not fail with EINPROGRESS.  (Before /repo ff67af1 a
   uv_pipe_connect retried after a failed attempt completed with 0 on a stream that was neither
   readable nor writable - finding pipe_connect_retry_not_readable_writable, fixed.) *)
Theorem C07_connected_stream_usable :
  (forall pfix tcp o os beh, Forall noinp (o_sock o) ->
     ~ In (CUsable false) (snd (crun (cinit pfix tcp o) os beh))) /\
  (forall x beh r e, c_req (cs x) = Some r -> snd (stream_connect x beh) = CCb r 0 SrcSo :: e ->
     exists b e', e = CUsable b :: e').
Proof. split; [exact connected_stream_usable|exact usable_observed]. Qed.
Print Assumptions C07_connected_stream_usable.

(* the case that failed before ff67af1: connect to a missing path, retry to the listening
   one from the callback, uv_write from the second callback - the stream is usable, the
   write goes through and its callback runs in the next iteration *)
Example C07_pipe_retry_usable :
  let '(x, tr) := crun (cinit false false (mkO [0] [-2; 0] [0] [false; true; false; false]))
                       [CPipe 40; CRun; CRun; CRun; CRun] (fun k => match k with 0%nat => [CPipe 40] | 1%nat => [CWrite] | _ => [] end) in
  filter (fun e => match e with CReg _ => false | _ => true end) tr =
    [CRet 0 0; CCb 0 (-2) SrcDelayed; CRet 1 0; CCb 1 0 SrcSo; CUsable true; CWcb] /\ a_wr (cax x) = Some true.
Proof. vm_compute. split; reflexivity. Qed.
Print Assumptions C07_pipe_retry_usable.

(* uv_shutdown / uv_write issued while a tcp connect is still in progress do not wake the
   watcher (since /repo 83eb44c for uv_shutdown): whatever SO_ERROR would answer, no connect
   callback runs until the kernel reports an event; at close the request is cancelled, the
   queued write and the shutdown get their callbacks.  (Before 83eb44c the shutdown fed the
   watcher, uv__stream_connect read SO_ERROR = 0 from the socket that was still connecting and
   reported status 0 - finding shutdown_during_connect_reports_premature_success, fixed.) *)
Example C07_shutdown_during_connect_waits :
  let '(x, tr) := crun (cinit false true (mkO [0] [-115] [0; 0; 0] [false; false; false; false]))
                       [CTcp; CWrite; CShut; CRun; CRun; CRun; CClose; CRun] (fun _ => []) in
  filter (fun e => match e with CReg _ => false | _ => true end) tr =
    [CRet 0 0; CCb 0 UV_ECANCELED SrcCancel; CWcb; CScb; CClosed] /\ creg x = 0%nat.
Proof. vm_compute. split; reflexivity. Qed.
Print Assumptions C07_shutdown_during_connect_waits.

(* ---- request accounting: loop->active_reqs.count, uv_loop_alive, uv_loop_close ---- *)
(* [creg] mirrors uv__req_init (register) / uv__req_unregister.  In every reachable state
   it equals the number of connects accepted with 0 and not yet called back, which is the
   number of requests owed a callback (connect_req + those linked behind it; [pendn]) plus
   the overwritten ones - and nothing is overwritten on tcp handles or repaired pipes.  After
   close + one iteration nothing stays registered there, so uv_loop_alive() = 0 and
   uv_loop_close() = 0 as far as these requests go.  A connect call that returns an error
   registers nothing and leaves a pending request untouched. *)
Theorem C07_connect_accounting :
  (forall pfix tcp o os beh,
     let '(x, tr) := crun (cinit pfix tcp o) os beh in
     (creg x + length (cbs tr) = length (subs tr))%nat /\
     creg x = (pendn x + length (losts tr))%nat /\
     (tcp = true \/ pfix = true -> creg x = pendn x)) /\
  (forall pfix tcp o os beh,
     let '(x, tr) := crun (cinit pfix tcp o) (os ++ [CClose; CRun]) beh in
     creg x = length (losts tr) /\ (tcp = true \/ pfix = true -> creg x = 0%nat)) /\
  (forall x x' e r c,
     (tcp_connect x = (x', e) \/ exists f n z, pipe_connect2 x f n z = (x', e)) ->
     In (CRet r c) e -> c <> 0 ->
     creg x' = creg x /\ c_req (cs x') = c_req (cs x) /\ cchain x' = cchain x).
Proof.
  split; [exact connect_accounting|]. split; [exact connect_accounting_end|].
  exact failed_connect_registers_nothing.
Qed.
Print Assumptions C07_connect_accounting.

(* ---- send handles ---- *)
(* uv_write2 and uv_try_write2 (current code, since /repo c5357ca) validate the send handle:
   UV_EINVAL on a non-ipc stream, UV_EBADF for a handle without descriptor, and success only
   on an ipc pipe with a handle that has a descriptor *)
Theorem C07_send_handle_checked :
  (forall s h, w_fd s >= 0 -> w_writable s = true ->
     (w_pipe s && w_ipc s = false -> write2 s (Some h) = UV_EINVAL_) /\
     (w_pipe s && w_ipc s = true -> h_fd h < 0 -> write2 s (Some h) = UV_EBADF) /\
     (write2 s (Some h) = 0 -> w_pipe s && w_ipc s = true /\ h_fd h >= 0)) /\
  (forall s h sys, w_fd s >= 0 -> w_writable s = true -> w_connecting s = false -> w_wqs s = 0 ->
     (w_pipe s && w_ipc s = false -> uv_try_write2 s (Some h) sys = UV_EINVAL_) /\
     (w_pipe s && w_ipc s = true -> h_fd h < 0 -> uv_try_write2 s (Some h) sys = UV_EBADF) /\
     (uv_try_write2 s (Some h) sys >= 0 -> w_pipe s && w_ipc s = true /\ h_fd h >= 0)).
Proof. split; [exact write2_checked|exact try_write2_fixed_checked]. Qed.
Print Assumptions C07_send_handle_checked.

(* history: before c5357ca uv_try_write2 passed NULL to uv__check_before_write and the
   statement failed (DESIGN section 3, item 5); reverting the commit makes the
   correspondence check fail on the cases of corpus/C07/w.txt *)
Theorem C07_try_write2_unchecked_refuted :
  exists s h sys, w_fd s >= 0 /\ w_writable s = true /\ w_connecting s = false /\ w_wqs s = 0 /\
    w_pipe s && w_ipc s = false /\ try_write2 false s (Some h) sys = 1.
Proof. exact try_write2_unchecked_refuted. Qed.
Print Assumptions C07_try_write2_unchecked_refuted.
