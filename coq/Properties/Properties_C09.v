(* C09 - uv_async_send: no lost wake-ups.  Only statements, each closed by lemmas proved in
   Proofs/AsyncProofs.v, with Print Assumptions beneath.

   Every theorem quantifies over: the number n of async handles, the initial eventfd
   counter e0 >= 0, the loop thread's script (uv_run ONCE/DEFAULT, uv_close), the behaviour
   of the callbacks (which handles the k-th callback closes), any number of senders with any
   send scripts, and ANY schedule: [reachable s0 s] is "s is reached from s0 by some finite
   sequence of atomic steps of arbitrary threads" (thread 0 = loop, thread i+1 = sender i;
   a send from a signal handler is one more sender), and over which handles were created
   with a callback ([hascb k]; a handle created with a NULL callback is a pure waker: for it
   [seen] is the value of [published] covered by the last wake-up the loop consumed, and
   C09_wake_invariant / C09_no_lost_wakeup / C09_blocked_loop_is_woken say that every send
   on it wakes the loop).  The interleaving is sequentially
   consistent; the property is therefore PARTIAL w.r.t. the C11 memory model (see
   notes/C09.md). *)
From UV Require Import Lib.Base Model.Async Proofs.AsyncProofs.

Local Open Scope Z_scope.

(* For every open handle: pending = 1 -> the eventfd counter is > 0, or a sender sits
   between the exchange that read 0 and the eventfd write, or the loop is inside the scan
   of uv__async_io and has not passed the handle. *)
Theorem C09_wake_invariant :
  forall hascb n e0 lscript beh scripts, 0 <= e0 ->
  forall s, reachable (init hascb n e0 lscript beh scripts) s ->
  forall h, hst (hs s h) = Open -> pending (hs s h) = true ->
    0 < efd s
    \/ (exists i x h', nth_error (snd s) i = Some x /\ s_pc x = SWrite h')
    \/ (outside (lp s) = false /\ In h (l_queue (lp s))).
Proof.
  intros cbf n e0 ls beh sc He s Hr h Ho Hp.
  exact (wake_invariant s (reachable_inv _ _ _ _ _ _ _ He Hr) h Ho Hp).
Qed.
Print Assumptions C09_wake_invariant.

(* In every quiescent state (every sender is outside uv_async_send, the loop is at
   epoll_pwait with timeout -1 and the eventfd counter is 0, i.e. it would block) the
   latest callback of every open handle has seen everything that was published. *)
Theorem C09_no_lost_wakeup :
  forall hascb n e0 lscript beh scripts, 0 <= e0 ->
  forall s, reachable (init hascb n e0 lscript beh scripts) s ->
  quiescent s = true ->
  forall h, hst (hs s h) = Open -> seen (hs s h) = published (hs s h).
Proof.
  intros cbf n e0 ls beh sc He s Hr Hq h Ho.
  exact (no_lost_wakeup s (reachable_inv _ _ _ _ _ _ _ He Hr) Hq h Ho).
Qed.
Print Assumptions C09_no_lost_wakeup.

(* The loop is never left sleeping while a callback is owed: whenever it is at
   epoll_pwait and some open handle has pending = 1, the eventfd is readable or a sender is
   about to write it (and that sender's next step is always enabled). *)
Theorem C09_blocked_loop_is_woken :
  forall hascb n e0 lscript beh scripts, 0 <= e0 ->
  forall s, reachable (init hascb n e0 lscript beh scripts) s ->
  (exists nb, l_pc (lp s) = LPoll nb) ->
  forall h, hst (hs s h) = Open -> pending (hs s h) = true ->
    0 < efd s \/ (exists i x h', nth_error (snd s) i = Some x /\ s_pc x = SWrite h').
Proof.
  intros cbf n e0 ls beh sc He s Hr Hp h Ho Hpe.
  exact (blocked_loop_is_woken s (reachable_inv _ _ _ _ _ _ _ He Hr) Hp h Ho Hpe).
Qed.
Print Assumptions C09_blocked_loop_is_woken.

(* The callback never runs without a send. *)
Theorem C09_cb_only_after_send :
  forall hascb n e0 lscript beh scripts, 0 <= e0 ->
  forall s, reachable (init hascb n e0 lscript beh scripts) s ->
  forall h, cb_count (hs s h) <= sends_begun (hs s h).
Proof.
  intros cbf n e0 ls beh sc He s Hr h.
  exact (cb_only_after_send s (reachable_inv _ _ _ _ _ _ _ He Hr) h).
Qed.
Print Assumptions C09_cb_only_after_send.

(* Once uv_close(h) has been called (hence also after close_cb(h), which only runs for
   handles uv_close has finished with) the callback of h never runs again, under any
   continuation of the schedule. *)
Theorem C09_no_cb_after_close :
  forall hascb n e0 lscript beh scripts, 0 <= e0 ->
  forall s, reachable (init hascb n e0 lscript beh scripts) s ->
  forall h, hst (hs s h) = Closing ->
  forall sched s', run s sched = Some s' ->
    hst (hs s' h) = Closing /\ cb_count (hs s' h) = cb_count (hs s h).
Proof.
  intros cbf n e0 ls beh sc He s Hr h Hc sched s' Hrun.
  exact (no_cb_after_close s (reachable_inv _ _ _ _ _ _ _ He Hr) h Hc sched s' Hrun).
Qed.
Print Assumptions C09_no_cb_after_close.

(* close_cb(h) runs only for handles on which uv_close has returned (so "never after the
   close callback" is the theorem above applied to a state in which close_cb has run). *)
Theorem C09_close_cb_after_close :
  forall hascb n e0 lscript beh scripts, 0 <= e0 ->
  forall s, reachable (init hascb n e0 lscript beh scripts) s ->
  forall h, In h (l_closed (lp s)) ->
    unl (hs s h) = true /\ hst (hs s h) = Closing.
Proof.
  intros cbf n e0 ls beh sc He s Hr h Hin. pose proof (reachable_inv _ _ _ _ _ _ _ He Hr) as I.
  pose proof (close_cb_after_close s I h (or_intror Hin)) as Hu.
  split; [exact Hu|]. exact (proj1 (closed_handle_silent s I h Hu)).
Qed.
Print Assumptions C09_close_cb_after_close.

(* What uv__async_close guarantees.
   (1) The step with which uv__async_spin returns happens only when busy = 0, and then no
       sender is between busy++ and busy-- on h.
   (2) In every later state pending(h) stays 1, h stays closing, and no sender is ever
       between a successful exchange and the eventfd write on h's behalf. *)
Theorem C09_close_safe :
  forall hascb n e0 lscript beh scripts, 0 <= e0 ->
  forall s, reachable (init hascb n e0 lscript beh scripts) s ->
  forall h,
  (forall s', step s 0 = Some s' ->
     (l_pc (lp s) = LSpin0 h \/ l_pc (lp s) = LSpin h) ->
     ~ (l_pc (lp s') = LSpin0 h \/ l_pc (lp s') = LSpin h) ->
     busy (hs s' h) = 0 /\ unl (hs s' h) = true /\ pending (hs s' h) = true /\
     (forall i x, nth_error (snd s') i = Some x -> in_cs h x = false))
  /\
  (unl (hs s h) = true ->
     forall sched s', run s sched = Some s' ->
       unl (hs s' h) = true /\ hst (hs s' h) = Closing /\ pending (hs s' h) = true /\
       (forall i x, nth_error (snd s') i = Some x -> s_pc x <> SWrite h)).
Proof.
  intros cbf n e0 ls beh sc He s Hr h. pose proof (reachable_inv _ _ _ _ _ _ _ He Hr) as I. split.
  - intros s' Hst Hpc Hout. exact (close_returns_when_idle s s' h I Hst Hpc Hout).
  - intros Hu sched s' Hrun.
    pose proof (unl_stable s h Hu sched s' Hrun) as Hu'.
    pose proof (reachable_inv _ _ _ _ _ _ _ He (run_reachable _ sched s s' Hr Hrun)) as I'.
    split; [exact Hu'|]. exact (closed_handle_silent s' I' h Hu').
Qed.
Print Assumptions C09_close_safe.

(* The stronger reading "after uv_close / close_cb no sender touches the handle's memory"
   does NOT hold: a sender that read pending = 0 before uv_close can be delayed past
   close_cb and then still increments busy (user-lifetime issue, see notes/C09.md). *)
Theorem C09_close_memory_quiescence_refuted :
  exists n e0 lscript beh scripts sched s,
    0 <= e0 /\ run (init allcb n e0 lscript beh scripts) sched = Some s /\
    In 0%nat (l_closed (lp s)) /\ unl (hs s 0%nat) = true /\ busy (hs s 0%nat) = 1.
Proof.
  destruct late_sender_touches_closed_handle as (s & H).
  exists 1%nat, 0, [OpClose 0%nat; OpRun false], nobeh, [[0%nat]], l_sched, s.
  split; [lia|exact H].
Qed.
Print Assumptions C09_close_memory_quiescence_refuted.

(* Sanity: the variant of uv__async_io that scans the handles before it drains the eventfd
   loses a wake-up (so the theorems above are not vacuous about the order). *)
Theorem C09_scan_before_drain_refuted :
  exists n e0 lscript beh scripts sched s,
    0 <= e0 /\ run_gen false (init allcb n e0 lscript beh scripts) sched = Some s /\
    quiescent s = true /\ hst (hs s 0%nat) = Open /\
    seen (hs s 0%nat) < published (hs s 0%nat).
Proof.
  destruct scan_before_drain_loses_wakeup as (s & Hr & Hq & Ho & Hs & Hp).
  exists 1%nat, 0, [OpRun true], nobeh, [[0%nat; 0%nat]], w_sched, s.
  repeat split; auto; lia.
Qed.
Print Assumptions C09_scan_before_drain_refuted.

(* The hypotheses of C09_no_lost_wakeup are satisfiable by a reachable state in which
   callbacks have been delivered. *)
Example C09_quiescent_state_exists :
  exists n e0 lscript beh scripts sched s,
    0 <= e0 /\ run (init allcb n e0 lscript beh scripts) sched = Some s /\
    quiescent s = true /\ hst (hs s 0%nat) = Open /\ cb_count (hs s 0%nat) = 2.
Proof.
  destruct quiescent_example as (s & Hr & Hq & Ho & Hs & Hc).
  exists 1%nat, 0, [OpRun true], nobeh, [[0%nat; 0%nat]], (w_sched ++ [0; 0; 0; 0; 0; 0]%nat), s.
  repeat split; auto; lia.
Qed.
Print Assumptions C09_quiescent_state_exists.

(* ---------------------------------------------------------------------------------- *)
(* fork(): parent and child both keep running their loops (child after uv_loop_fork). *)
(* [fork_sys true] is the code as it is: uv__async_fork clears pending/busy of the    *)
(* handles on the loop's list and gives the child a NEW wake-up channel.  The fork     *)
(* happens in a reachable parent state with the loop thread between two API calls,     *)
(* no sender being inside uv_async_send on an already unlinked handle.  Schedules      *)
(* interleave atomic steps of both processes arbitrarily.                              *)
(* ---------------------------------------------------------------------------------- *)

(* Sends in the child after uv_loop_fork reach the child's loop: in every state of the
   two-process system in which the child is quiescent, every open handle of the child has
   seen all the child's publications; the child never runs a callback without a send of
   its own (its counters restart at fork); the same holds for the parent. *)
Theorem C09_fork_no_lost_wakeup :
  forall hascb n e0 lscript beh scripts, 0 <= e0 ->
  forall s, reachable (init hascb n e0 lscript beh scripts) s ->
  l_pc (lp s) = LTop -> (forall k, ~ In k (lst s) -> busy (hs s k) = 0) ->
  forall clscript cbeh cscripts sched y,
  sys_run (fork_sys true s clscript cbeh cscripts) sched = Some y ->
  (quiescent (chi y) = true -> forall h, hst (hs (chi y) h) = Open ->
     seen (hs (chi y) h) = published (hs (chi y) h)) /\
  (forall h, cb_count (hs (chi y) h) <= sends_begun (hs (chi y) h)) /\
  (quiescent (par y) = true -> forall h, hst (hs (par y) h) = Open ->
     seen (hs (par y) h) = published (hs (par y) h)) /\
  (forall h, cb_count (hs (par y) h) <= sends_begun (hs (par y) h)) /\
  efd (chi y) = ctr y (ch_chi y) /\ efd (par y) = ctr y (ch_par y).
Proof.
  intros cbf n e0 ls beh sc He s Hr Hpc Hb cls cbeh csc sched y Hrun.
  destruct (fork_both_inv s cls cbeh csc sched y (reachable_inv _ _ _ _ _ _ _ He Hr) Hpc Hb Hrun)
    as (Ip & Ic & Hp & Hc & _).
  split; [exact (no_lost_wakeup (chi y) Ic)|].
  split; [exact (cb_only_after_send (chi y) Ic)|].
  split; [exact (no_lost_wakeup (par y) Ip)|].
  split; [exact (cb_only_after_send (par y) Ip)|]. auto.
Qed.
Print Assumptions C09_fork_no_lost_wakeup.

(* The child's wake-ups cannot be consumed by the parent (and vice versa): when the two
   channels differ, a step of one process leaves the other process's state and the
   counter of the other process's channel unchanged, and is a step of the single-process
   semantics on the stepping process's own state. *)
Theorem C09_fork_channels_independent :
  forall y child tid y',
  efd (par y) = ctr y (ch_par y) -> efd (chi y) = ctr y (ch_chi y) -> ch_par y <> ch_chi y ->
  sys_step y child tid = Some y' ->
  if child
  then step (chi y) tid = Some (chi y') /\ par y' = par y /\ ctr y' (ch_par y) = ctr y (ch_par y)
  else step (par y) tid = Some (par y') /\ chi y' = chi y /\ ctr y' (ch_chi y) = ctr y (ch_chi y).
Proof.
  intros y c t y' H1 H2 H3 Hst.
  exact (proj2 (sys_step_split y c t y' (conj H1 (conj H2 H3)) Hst)).
Qed.
Print Assumptions C09_fork_channels_independent.

(* Sanity: if the child kept the parent's eventfd (no fresh channel), the parent's loop
   consumes the child's wake-up: the child ends blocked with a publication unseen. *)
Theorem C09_fork_shared_channel_refuted :
  exists s clscript cbeh cscripts sched y,
    sys_run (fork_sys false s clscript cbeh cscripts) sched = Some y /\
    quiescent (with_efd (chi y) (ctr y (ch_chi y))) = true /\
    hst (hs (chi y) 0%nat) = Open /\ seen (hs (chi y) 0%nat) < published (hs (chi y) 0%nat).
Proof.
  destruct shared_channel_loses_wakeup as (y & Hr & Hq & Ho & Hs & Hp).
  exists f_par, [OpRun true], nobeh, [[0%nat]], f_sched, y. repeat split; auto. lia.
Qed.
Print Assumptions C09_fork_shared_channel_refuted.

(* ---------------------------------------------------------------------------------- *)
(* uv_stop(): every theorem above already quantifies over loop scripts containing      *)
(* uv_stop() between runs (OpStop) and callbacks that call uv_stop() (CbStop), followed *)
(* by uv_run in any mode: uv__async_io never looks at stop_flag, the pass examines      *)
(* every handle of the list snapshot.  Sanity: the variant that leaves the pass after   *)
(* a callback called uv_stop() (the eventfd being drained already) loses the wake-up   *)
(* of a later handle for good.                                                          *)
(* ---------------------------------------------------------------------------------- *)
Theorem C09_stop_break_refuted :
  exists n e0 lscript beh scripts sched s,
    0 <= e0 /\ run_stopbreak (init allcb n e0 lscript beh scripts) sched = Some s /\
    quiescent s = true /\ hst (hs s 1%nat) = Open /\ pending (hs s 1%nat) = true /\
    seen (hs s 1%nat) < published (hs s 1%nat).
Proof.
  destruct stop_break_loses_wakeup as (s & Hr & Hq & Ho & Hp & Hs & Hpub).
  exists 2%nat, 0, [OpRun true; OpRun true], sb_beh, [[0%nat]; [1%nat]], sb_sched, s.
  repeat split; auto; lia.
Qed.
Print Assumptions C09_stop_break_refuted.

(* The code as it is, same scenario: both callbacks have run when uv_run returns because of
   uv_stop(), and the stop flag is cleared. *)
Example C09_stop_examines_all_handles :
  exists n e0 lscript beh scripts sched s,
    0 <= e0 /\ run (init allcb n e0 lscript beh scripts) sched = Some s /\
    l_pc (lp s) = LTop /\ l_stop (lp s) = false /\
    cb_count (hs s 0%nat) = 1 /\ cb_count (hs s 1%nat) = 1.
Proof.
  destruct stop_examines_all_handles as (s & Hr & Hpc & Hst & H0 & H1 & _).
  exists 2%nat, 0, [OpRun true; OpRun true], sb_beh, [[0%nat]; [1%nat]], (sb_sched ++ [0; 0]%nat), s.
  repeat split; auto; lia.
Qed.
Print Assumptions C09_stop_examines_all_handles.

(* ---------------------------------------------------------------------------------- *)
(* Handles created with a NULL callback.  All theorems above quantify over [hascb]:     *)
(* uv__async_io clears pending for every handle of the list before it looks at the     *)
(* callback, so the wake invariant and the no-lost-wake-up theorem hold for handles     *)
(* without a callback too (for them [seen h = published h] at quiescence says: every     *)
(* send was followed by a pass of the loop that consumed its flag).  Sanity: the         *)
(* variant that tests async_cb == NULL before the exchange leaves the flag set for ever: *)
(* the second send returns at the pending check and the loop stays blocked.             *)
(* ---------------------------------------------------------------------------------- *)
Theorem C09_null_check_first_refuted :
  exists hascb n e0 lscript beh scripts sched s,
    0 <= e0 /\ hascb 0%nat = false /\
    run_nullfirst (init hascb n e0 lscript beh scripts) sched = Some s /\
    quiescent s = true /\ hst (hs s 0%nat) = Open /\ pending (hs s 0%nat) = true /\
    seen (hs s 0%nat) < published (hs s 0%nat).
Proof.
  destruct null_check_first_loses_wakeup as (s & Hr & Hq & Ho & Hp & Hs & Hpub).
  exists nc_cbf, 1%nat, 0, [OpRun true], nobeh, [[0%nat; 0%nat]], (nc_sched1 ++ [1; 1]%nat), s.
  repeat split; auto; lia.
Qed.
Print Assumptions C09_null_check_first_refuted.

(* The code as it is: two sends on a handle without a callback wake the loop twice; it ends
   quiescent with the flag clear, no callback run, everything published covered. *)
Example C09_null_callback_handle_wakes_loop :
  exists hascb n e0 lscript beh scripts sched s,
    0 <= e0 /\ hascb 0%nat = false /\
    run (init hascb n e0 lscript beh scripts) sched = Some s /\
    quiescent s = true /\ pending (hs s 0%nat) = false /\ cb_count (hs s 0%nat) = 0 /\
    seen (hs s 0%nat) = published (hs s 0%nat) /\ published (hs s 0%nat) = 2.
Proof.
  destruct null_callback_handle_wakes_loop as (s & Hr & Hq & Hp & Hc & Hs & Hpub).
  exists nc_cbf, 1%nat, 0, [OpRun true], nobeh, [[0%nat; 0%nat]],
         (nc_sched1 ++ [1; 1; 1; 1; 1; 1; 0; 0; 0; 0]%nat), s.
  repeat split; auto; lia.
Qed.
Print Assumptions C09_null_callback_handle_wakes_loop.
