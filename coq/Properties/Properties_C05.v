(* C05 - Stream writes.  Only statements, each closed by [exact] of a lemma
   proved in Proofs/StreamWriteProofs.v, with Print Assumptions beneath.
   Model: Model/StreamWrite.v (one stream; [exec beh (init blk o sa pw cfg ip) ops] runs
   the top-level operations [ops], the k-th callback executing [beh k]; the
   write(2)/writev(2) answers are [o], shutdown(2) answers [sa], [pw] says per
   loop iteration whether the descriptor polls writable, [blk] is
   UV_HANDLE_BLOCKING_WRITES, [cfg] says how the stream came to be: [None] = opened
   connected, [Some (tcp, cres, so, cr)] = the script starts right after uv_tcp_connect /
   uv_pipe_connect with the connect still pending - connect(2) result [cres],
   SO_ERROR answers [so], connect(2) results [cr] of later connects on the handle (op
   OConnect); [ip] = the pipe was initialised for IPC; every theorem
   quantifies over them).  [nfd t id] = number of accepted sendmsg calls in t that
   carried the descriptor of request id (events [EFd]); [EWrite2 id] marks a
   uv_write2 call with a send_handle; [EFdFail id] a failed sendmsg that carried it.  [trace s] is chronological.  Request ids are
   the positions of the uv_write/uv_try_write calls in call order.
   Ghost events: [EReopen] = a connect set UV_HANDLE_WRITABLE again on a stream where it was
   clear; [EOrphan ids] = a connect was accepted while the finished requests [ids]
   waited in write_completed_queue for their callback.
   [acc t id] = bytes of request id the OS accepted; [cb_ids t] = ids of the
   write callbacks in t; [chunks]/[expand]/[bytes_of] spell out the accepted
   byte stream as (request, index) pairs; [sum_rem] sums uv__write_req_size. *)
From UV Require Import Lib.Base Model.StreamWrite Proofs.StreamWriteProofs.
From Coq Require Import Sorting.Sorted.
Local Open Scope N_scope.

(* write_queue_size = sum of the unsent bytes of the requests whose callback has
   not run (those are exactly write_queue and write_completed_queue), after any
   sequence of operations, callback behaviours and kernel answers; for each of
   them unsent = total - accepted. *)
Theorem C05_queue_size_exact :
  forall beh blk o sa pw cfg ip ops,
  let s := exec beh (init blk o sa pw cfg ip) ops in
  wqs s = sum_rem (cq s ++ wq s) /\ pq s = [] /\
  Forall (fun r => req_size r = r_total r - r_off r /\ r_off r <= r_total r) (cq s ++ wq s).
Proof. exact queue_size_exact. Qed.
Print Assumptions C05_queue_size_exact.

(* ... and at every state the model passes through (also inside callbacks): the
   invariant [Inv1] is kept by every primitive step, and every model function is
   a sequence of primitive steps. *)
Theorem C05_queue_size_exact_everywhere :
  forall s s', steps s s' -> Inv1 s -> wqs s' = sum_rem (pq s' ++ cq s' ++ wq s').
Proof. intros s s' S I. exact (i_size _ (Inv1_steps s s' S I)). Qed.
Print Assumptions C05_queue_size_exact_everywhere.

(* Callbacks run in submission order, none twice; a request accepted by uv_write
   has had its callback or is still queued (never both, never neither); a
   refused uv_write never gets a callback. *)
Theorem C05_cb_exactly_once_in_order :
  forall beh blk o sa pw cfg ip ops,
  let s := exec beh (init blk o sa pw cfg ip) ops in
  StronglySorted lt (cb_ids (trace s)) /\
  (forall id, In (ERet id 0%Z) (trace s) ->
     (In id (cb_ids (trace s)) /\ ~ In id (map r_id (cq s ++ wq s))) \/
     (~ In id (cb_ids (trace s)) /\ In id (map r_id (cq s ++ wq s)))) /\
  (forall id c, In (ERet id c) (trace s) -> c <> 0%Z ->
     ~ In id (cb_ids (trace s)) /\ ~ In id (map r_id (cq s ++ wq s))) /\
  NoDup (map r_id (cq s ++ wq s)).
Proof. exact cb_exactly_once_in_order. Qed.
Print Assumptions C05_cb_exactly_once_in_order.

Theorem C05_status_zero_only_if_all_accepted :
  forall beh blk o sa pw cfg ip ops,
  let s := exec beh (init blk o sa pw cfg ip) ops in
  forall id tot q, In (EWrite id tot) (trace s) -> In (ECb id 0%Z q) (trace s) ->
  acc (trace s) id = tot.
Proof. exact status_zero_only_if_all_accepted. Qed.
Print Assumptions C05_status_zero_only_if_all_accepted.

(* The accepted byte stream is the concatenation, in call order, of a prefix of
   every request; the prefix is everything when the callback said 0, and what
   uv_try_write returned for a try_write. *)
Theorem C05_bytes_in_order_once :
  forall beh blk o sa pw cfg ip ops,
  let s := exec beh (init blk o sa pw cfg ip) ops in
  expand (chunks (trace s)) =
    flat_map (fun id => bytes_of id 0 (acc (trace s) id)) (seq 0 (next_id s)) /\
  (forall id tot, In (EWrite id tot) (trace s) -> acc (trace s) id <= tot) /\
  (forall id tot q, In (EWrite id tot) (trace s) -> In (ECb id 0%Z q) (trace s) ->
     acc (trace s) id = tot) /\
  (forall id tot, In (ETry id tot) (trace s) -> acc (trace s) id <= tot) /\
  (forall id c, In (ETryRet id c) (trace s) -> acc (trace s) id = Z.to_N c).
Proof. exact bytes_in_order_once. Qed.
Print Assumptions C05_bytes_in_order_once.

(* uv_try_write with bytes outstanding in any queued request: UV_EAGAIN, no
   system call (the state changes by the two trace events only).  Holds in
   every state the model passes through ([Inv1] is an invariant). *)
Theorem C05_try_write_never_overtakes :
  forall s bufs, Inv1 s -> (exists r, In r (pq s ++ cq s ++ wq s) /\ 0 < req_size r) ->
  api_try s bufs =
    ev (ETryRet (next_id s) UV_EAGAIN) (ev (ETry (next_id s) (sumN bufs)) (set_next_id (S (next_id s)) s)).
Proof. exact try_write_never_overtakes_inv. Qed.
Print Assumptions C05_try_write_never_overtakes.

Theorem C05_try_write_never_overtakes_reachable :
  forall beh blk o sa pw cfg ip ops, Inv1 (exec beh (init blk o sa pw cfg ip) ops).
Proof. intros. exact (proj1 (final_inv beh blk o sa pw cfg ip ops)). Qed.
Print Assumptions C05_try_write_never_overtakes_reachable.

(* Shutdown.  (Model of the code after the repairs of uv__stream_io - drain only when no
   connect is pending and write_queue and write_completed_queue are both empty -, of
   uv__stream_connect - POLLOUT stays armed while a shutdown is pending; after a failed connect
   the pending shutdown is carried out unless the callback started another connect - and of
   uv_shutdown - the watcher is fed only when no connect is pending.)

   For every script, behaviour, oracle and start configuration, connect retries included:
   accepted uv_shutdown calls = shutdown callbacks + (1 if one is still pending) at all
   times, and when a shutdown callback runs every write accepted so far has had its
   callback. *)
Theorem C05_shutdown_cb_exactly_once :
  forall beh blk o sa pw cfg ip ops,
  let s := exec beh (init blk o sa pw cfg ip) ops in
  nsh0 (trace s) = (nshcb (trace s) + (if shutreq s then 1 else 0))%nat /\
  (forall c l1 l2, trace s = l1 ++ EShutCb c :: l2 ->
     forall id, In (ERet id 0%Z) l1 -> In id (cb_ids l1)).
Proof. exact shutdown_cb_exactly_once. Qed.
Print Assumptions C05_shutdown_cb_exactly_once.

(* ... and the request does not stay pending: a pending uv_shutdown always has a wake-up
   (POLLOUT armed or watcher in the pending queue), also when it was issued while the
   connect was pending.  Proved for scripts in which no connect is started again on the
   handle ([noconn]); with connect retries it is checked by the correspondence monitor
   only (gap). *)
Theorem C05_shutdown_progress_partial :
  forall beh blk o sa pw cfg ip ops,
  noconn ops -> (forall k, noconn (beh k)) ->
  shutdown_progress (exec beh (init blk o sa pw cfg ip) ops).
Proof. exact shutdown_progress_holds. Qed.
Print Assumptions C05_shutdown_progress_partial.

(* The remaining clauses - uv_write after a successful uv_shutdown is refused (UV_EPIPE, or
   UV_EBADF once closed); nothing is written after shutdown(2) and the write queue is empty
   from then on; after the shutdown callback no write callback, no byte, no accepted
   uv_write - hold as long as no connect has set UV_HANDLE_WRITABLE again on a stream where
   it was clear (ghost event EReopen: uv_tcp_connect retried after uv_shutdown, or
   uv_pipe_connect retried after a failed first attempt).  Refuted without that condition:
   maybe_new_socket ors the flag back in. *)
Theorem C05_shutdown_last_refuted :
  exists beh cfg ops l1 l2 id,
    trace (exec beh (init false [AErr 32] 0%Z [] cfg false) ops) = l1 ++ EShut 0%Z :: l2 /\
    In (ERet id 0%Z) l2.
Proof. exact shutdown_last_refuted. Qed.
Print Assumptions C05_shutdown_last_refuted.

Theorem C05_shutdown_last_partial :
  forall beh blk o sa pw cfg ip ops,
  let s := exec beh (init blk o sa pw cfg ip) ops in
  ~ In EReopen (trace s) ->
  (forall l1 l2, trace s = l1 ++ EShut 0%Z :: l2 ->
     forall id c, In (ERet id c) l2 -> c = UV_EPIPE \/ c = UV_EBADF) /\
  (forall a l1 l2, trace s = l1 ++ ESysShut a :: l2 -> forall i off n, ~ In (EChunk i off n) l2) /\
  (forall a, In (ESysShut a) (trace s) -> wq s = []) /\
  (forall c l1 l2, trace s = l1 ++ EShutCb c :: l2 ->
     cb_ids l2 = [] /\ (forall i off n, ~ In (EChunk i off n) l2) /\ (forall id, ~ In (ERet id 0%Z) l2)).
Proof. exact shutdown_last. Qed.
Print Assumptions C05_shutdown_last_partial.

(* the inputs that showed the two repaired shutdown defects, on the repaired model *)
Example C05_shutdown_last_former_witness :
  trace (exec beh_refute (init false [] 0%Z [] None false) [OWrite [1]; ORun; ORun]) =
    [EWrite 0 1; EChunk 0 0 1; ERet 0 0; EQ 0; ECb 0 0 0; EWrite 1 2; EChunk 1 0 2; ERet 1 0;
     EShut 0; ECb 1 0 0; ESysShut 0; EShutCb 0; EQ 0; EQ 0].
Proof. vm_compute. reflexivity. Qed.

Example C05_shutdown_while_connecting_former_witnesses :
  trace (exec (fun _ => []) (init false [] 0%Z [] (Some (true, Some 115%positive, [0%Z], [])) false)
              [OShutdown; ORun; ORun]) =
    [EShut 0; EQ 0; EConnCb 0; EQ 0; ESysShut 0; EShutCb 0; EQ 0] /\
  trace (exec (fun _ => []) (init false [] 0%Z [] (Some (true, Some 115%positive, [111%Z], [])) false)
              [OWrite [3]; OShutdown; ORun; ORun]) =
    [EWrite 0 3; ERet 0 0; EQ 3; EShut 0; EQ 3; EConnCb (-111); ECb 0 UV_ECANCELED 0;
     ESysShut (-107); EShutCb (-107); EQ 0; EQ 0].
Proof. exact shutdown_while_connecting_former_witnesses. Qed.

(* A non-empty write queue, or a pending connect, on a stream that is not closing always has
   POLLOUT armed or its watcher in the pending queue - for every script, connects started again
   at top level, from a write callback or from a connect callback included.  (Model of the code
   after the repair of uv__stream_io: no uv__drain while a connect is pending.) *)
Theorem C05_progress :
  forall beh blk o sa pw cfg ip ops,
  let s := exec beh (init blk o sa pw cfg ip) ops in
  wq s <> [] \/ connecting s = true -> closing s = false -> armed s = true \/ fed s = true.
Proof. exact progress. Qed.
Print Assumptions C05_progress.

(* Every connect request accepted with 0 completes exactly once: at all times accepted connects
   (+ the one the script starts with, [started cfg]) = connect callbacks + (1 if one is pending),
   and the pending one has a wake-up unless the handle is closing (uv__stream_destroy then runs
   its callback with UV_ECANCELED - counted by the same equation).  For every script: connects
   started at top level, from a write callback, from a connect callback, with or without a
   shutdown pending. *)
Theorem C05_connect_exactly_once :
  forall beh blk o sa pw cfg ip ops,
  let s := exec beh (init blk o sa pw cfg ip) ops in
  (nconn0 (trace s) + started cfg = nconncb (trace s) + (if connecting s then 1 else 0))%nat /\
  (connecting s = true -> closing s = false -> armed s = true \/ fed s = true).
Proof. exact connect_exactly_once. Qed.
Print Assumptions C05_connect_exactly_once.

(* the input on which a connect started from a write callback was stranded by uv__drain before
   the repair (0 0 T ; R R W1 R R R R R R ; | Kl Kl | ; ; settle6): the retried connect completes *)
Example C05_connect_from_write_cb_former_witness :
  trace (exec beh_strand (init false [AErr 32] 0%Z []
                            (Some (true, Some 115%positive, [111%Z; 0%Z], [Some 103%positive; Some 115%positive])) false)
              [ORun; OWrite [1]; ORun; ORun]) =
    [EConnCb (-111); EQ 0; EWrite 0 1; ERet 0 0; EQ 1; ECb 0 (-32) 0; EConnect (-103); EConnect 0;
     EConnCb 0; EQ 0; EQ 0].
Proof. exact connect_from_write_cb_former_witness. Qed.

(* Finished requests get their callback, for every script - connects started at any time, also while
   finished requests wait for their callbacks: a request in write_completed_queue on a stream that
   is not closing has the watcher in the pending queue (the next loop iteration runs
   uv__write_callbacks), or a connect is pending, which has a wake-up of its own and whose completion
   delivers - on success uv__stream_connect feeds the watcher, on failure it runs
   uv__write_callbacks.  With C05_cb_exactly_once_in_order: every accepted write gets exactly one
   callback.  (Model of the code after the repair of uv__stream_connect; the former finding
   write_callback_lost_when_connect_started_before_delivery.) *)
Theorem C05_cb_delivered :
  forall beh blk o sa pw cfg ip ops,
  let s := exec beh (init blk o sa pw cfg ip) ops in
  cq s <> [] -> closing s = false ->
  fed s = true \/ (connecting s = true /\ (armed s = true \/ fed s = true)).
Proof. exact cb_delivered. Qed.
Print Assumptions C05_cb_delivered.

(* the failing input of that finding (0 0 T ; R R W1 Kl Kl R R R ; | | | ; ; settle): ECb 0 now runs in
   the iteration of the connect callback (ghost EOrphan: request 0 was waiting when the connect was
   accepted) *)
Example C05_cb_delivered_former_witness :
  trace (exec (fun _ => []) (init false [AErr 32] 0%Z []
                               (Some (true, Some 115%positive, [111%Z; 0%Z], [Some 103%positive; Some 115%positive])) false)
              [ORun; ORun; OWrite [1]; OConnect; OConnect; ORun; ORun; ORun]) =
    [EConnCb (-111); EQ 0; EQ 0; EWrite 0 1; ERet 0 0; EQ 1; EConnect (-103); EQ 1; EConnect 0; EOrphan [0%nat];
     EQ 1; EConnCb 0; ECb 0 (-32) 0; EQ 0; EQ 0; EQ 0].
Proof. exact cb_delivered_former_witness. Qed.

(* While a connect is pending uv_try_write returns UV_EAGAIN without a system
   call, and uv_write only queues (no system call, POLLOUT untouched). *)
Theorem C05_try_write_while_connecting :
  forall s bufs, connecting s = true ->
  api_try s bufs =
    ev (ETryRet (next_id s) UV_EAGAIN) (ev (ETry (next_id s) (sumN bufs)) (set_next_id (S (next_id s)) s)).
Proof. exact try_write_while_connecting. Qed.
Print Assumptions C05_try_write_while_connecting.

Theorem C05_write_while_connecting :
  forall s bufs, connecting s = true -> check_before_write s = None ->
  oracle (api_write s bufs) = oracle s /\ armed (api_write s bufs) = armed s /\
  wq (api_write s bufs) = wq s ++ [mkReq (next_id s) (sumN bufs) bufs O 0 0%Z false false].
Proof. exact write_while_connecting. Qed.
Print Assumptions C05_write_while_connecting.

(* uv_write2: over everything the OS accepted of one request the descriptor is attached
   to exactly one sendmsg - the first accepted one - and to none after; requests without
   a send_handle never attach one; failed attempts (EAGAIN, errors) that carried it all
   precede the accepted one.  (With C05_bytes_in_order_once: a request with at least one
   accepted chunk has nfd = 1 by the fourth clause, else 0.) *)
Theorem C05_send_handle_once :
  forall beh blk o sa pw cfg ip ops,
  let t := trace (exec beh (init blk o sa pw cfg ip) ops) in
  (forall id, (nfd t id <= 1)%nat) /\
  (forall id, (0 < nfd t id)%nat -> In (EWrite2 id) t) /\
  (forall id l1 l2, t = l1 ++ EFd id :: l2 -> forall off len, ~ In (EChunk id off len) l1) /\
  (forall id l1 l2 off len, t = l1 ++ EChunk id off len :: l2 -> In (EWrite2 id) t -> nfd l1 id = 1%nat) /\
  (forall id l1 l2, t = l1 ++ EFdFail id :: l2 -> nfd l1 id = O).
Proof. exact send_handle_once. Qed.
Print Assumptions C05_send_handle_once.

Example C05_example_send_handle :
  trace (exec (fun _ => []) (init false [AErr 11; AErr 4; AWrote 3; AErr 105; AWrote 1] 0%Z [] None true)
              [OWrite2 [5; 5]; ORun; ORun; ORun; ORun]) =
    [EWrite 0 10; EWrite2 0; EFdFail 0; ERet 0 0; EQ 10; EFd 0; EChunk 0 0 3; EQ 7; EQ 7;
     EChunk 0 3 1; EQ 6; EChunk 0 4 6; ECb 0 0 0; EQ 0].
Proof. vm_compute. reflexivity. Qed.

(* Sizes are unbounded in the model (write_queue_size is a size_t; no sum below 2^64
   wraps).  One system call accepts at most MAX_RW_COUNT bytes, so the `int` returned
   by uv__try_write / uv_try_write loses nothing, whatever the buffers add up to. *)
Theorem C05_os_accepts_fit_int :
  forall o off n o', sys_write o off = (WN n, o') -> (Z.of_N n <= 2147483647)%Z.
Proof. exact sys_write_fits_int. Qed.
Print Assumptions C05_os_accepts_fit_int.

Example C05_example_huge :
  let s := exec (fun _ => []) (init false [AErr 11; AWrote 2147483648] 0%Z [] None false)
                [OWrite [5]; OWrite [4294967296; 1]; OTry [4294967296]; ORun] in
  trace s =
    [EWrite 0 5; ERet 0 0; EQ 5; EWrite 1 4294967297; ERet 1 0; EQ 4294967302; ETry 2 4294967296;
     ETryRet 2 UV_EAGAIN; EQ 4294967302; EChunk 0 0 5; EChunk 1 0 2147479552; ECb 0 0 2147487745;
     EChunk 1 2147479552 2147479552; EQ 8193].
Proof. vm_compute. reflexivity. Qed.

(* uv_write / uv_write2 with more than 4 buffers when uv__malloc fails (operations
   OWriteNomem / OWrite2Nomem): UV_ENOMEM, and every field of the stream - queues,
   write_queue_size, flags, POLLOUT, pending queue, oracles - is exactly as before; only
   the trace and the call counter move.  So a following uv_try_write / uv_write behaves
   as if the failed call had not happened.  All other theorems quantify over scripts
   containing these operations too. *)
Theorem C05_write_enomem_is_noop :
  forall s bufs, check_before_write s = None -> needs_alloc bufs = true ->
  same_stream s (api_write_nomem s bufs) /\
  tr (api_write_nomem s bufs) = ERet (next_id s) UV_ENOMEM :: EWrite (next_id s) (sumN bufs) :: tr s /\
  next_id (api_write_nomem s bufs) = S (next_id s).
Proof. exact write_enomem_is_noop. Qed.
Print Assumptions C05_write_enomem_is_noop.

Theorem C05_write2_enomem_is_noop :
  forall s bufs, check_before_write2 s = None -> needs_alloc bufs = true ->
  same_stream s (api_write2_nomem s bufs) /\
  tr (api_write2_nomem s bufs) =
    ERet (next_id s) UV_ENOMEM :: EWrite2 (next_id s) :: EWrite (next_id s) (sumN bufs) :: tr s /\
  next_id (api_write2_nomem s bufs) = S (next_id s).
Proof. exact write2_enomem_is_noop. Qed.
Print Assumptions C05_write2_enomem_is_noop.

Example C05_example_enomem :
  trace (exec (fun _ => []) (init false [AErr 11] 0%Z [] None false)
              [OWrite [3]; OWriteNomem [1; 1; 1; 1; 1]; OTry [2]; OWriteNomem [1; 1]; ORun]) =
    [EWrite 0 3; ERet 0 0; EQ 3; EWrite 1 5; ERet 1 UV_ENOMEM; EQ 3; ETry 2 2; ETryRet 2 UV_EAGAIN; EQ 3;
     EWrite 3 2; ERet 3 0; EQ 5; EChunk 0 0 3; EChunk 3 0 2; ECb 0 0 0; ECb 3 0 0; EQ 0].
Proof. vm_compute. reflexivity. Qed.

(* uv_tcp_close_reset (operation OCloseReset, TCP scripts): refused with UV_EINVAL while a uv_shutdown
   request is pending, and then every field of the stream is exactly as before (in the implementation
   this includes SO_LINGER, which the harness reads back after every refused call): the pending writes
   and the shutdown go on, a later uv_close ends the stream in order.  Accepted otherwise: it is uv_close
   (all other theorems quantify over scripts containing the operation: every pending request completes
   exactly once, with UV_ECANCELED). *)
Theorem C05_close_reset_refused_is_noop :
  forall s, closing s = false -> shutreq s = true ->
  same_stream s (api_close_reset s) /\ tr (api_close_reset s) = EReset UV_EINVAL :: tr s /\
  next_id (api_close_reset s) = next_id s.
Proof. exact close_reset_refused_is_noop. Qed.
Print Assumptions C05_close_reset_refused_is_noop.

Theorem C05_close_reset_accepted_is_close :
  forall s, closing s = false -> shutreq s = false ->
  api_close_reset s = api_close (ev (EReset 0%Z) s).
Proof. exact close_reset_accepted_is_close. Qed.
Print Assumptions C05_close_reset_accepted_is_close.

Example C05_example_close_reset :
  trace (exec (fun _ => []) (init false [AErr 11] 0%Z [] None false)
              [OWrite [3]; OShutdown; OCloseReset; ORun; ORun]) =
    [EWrite 0 3; ERet 0 0; EQ 3; EShut 0; EQ 3; EReset UV_EINVAL; EQ 3; EChunk 0 0 3; ECb 0 0 0; ESysShut 0;
     EShutCb 0; EQ 0; EQ 0] /\
  trace (exec (fun _ => []) (init false [AErr 11] 0%Z [] None false)
              [OWrite [3]; OCloseReset; ORun]) =
    [EWrite 0 3; ERet 0 0; EQ 3; EReset 0; EQ 3; ECb 0 UV_ECANCELED 0; ECloseCb; EQ 0].
Proof. split; vm_compute; reflexivity. Qed.

(* The hypotheses are satisfiable / the statements are not vacuous: a run with a
   short write, EAGAIN, EINTR, a zero-length buffer, a queued request, a refused
   try_write and a shutdown. *)
Example C05_example_trace :
  let s := exec (fun _ => []) (init false [AWrote 2; AErr 11; AErr 4; AWrote 3] 0%Z [] None false)
                [OWrite [3; 0; 2]; OWrite [4]; OTry [1]; ORun; OShutdown; ORun; ORun] in
  trace s =
    [EWrite 0 5; EChunk 0 0 2; ERet 0 0; EQ 3; EWrite 1 4; ERet 1 0; EQ 7; ETry 2 1;
     ETryRet 2 UV_EAGAIN; EQ 7; EQ 7; EShut 0; EQ 7; EChunk 0 2 3; EChunk 1 0 4; ECb 0 0 0;
     ECb 1 0 0; ESysShut 0; EShutCb 0; EQ 0; EQ 0] /\
  (exists r, In r (wq (exec (fun _ => []) (init false [AWrote 2] 0%Z [] None false) [OWrite [3; 0; 2]])) /\ 0 < req_size r).
Proof.
  split. vm_compute. reflexivity.
  vm_compute. eexists. split. left. reflexivity. reflexivity.
Qed.

(* a script that starts with the connect pending: a zero-length-only write and a
   shutdown are queued, the connect completes, then write callback, shutdown(2),
   shutdown callback; and a refused connect cancels what was queued *)
Example C05_example_connecting :
  trace (exec (fun _ => []) (init false [] 0%Z [] (Some (true, Some 115%positive, [115%Z; 0%Z], [])) false)
              [OWrite [0]; OShutdown; ORun; ORun; ORun]) =
    [EWrite 0 0; ERet 0 0; EQ 0; EShut 0; EQ 0; EQ 0; EConnCb 0; EQ 0; EChunk 0 0 0; ECb 0 0 0;
     ESysShut 0; EShutCb 0; EQ 0] /\
  trace (exec (fun _ => []) (init false [] 0%Z [] (Some (true, Some 111%positive, [], [])) false)
              [OWrite [3]; OWrite [0]; ORun]) =
    [EWrite 0 3; ERet 0 0; EQ 3; EWrite 1 0; ERet 1 0; EQ 3; EConnCb (-111); ECb 0 UV_ECANCELED 0;
     ECb 1 UV_ECANCELED 0; EQ 0].
Proof. split; vm_compute; reflexivity. Qed.
